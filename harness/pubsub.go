package main

// C10: PubSub scenarios. `harness pubsub <seed> <n> [clone]` runs n random scenarios, each in its own subprocess (a
// goroutine panic — send on closed channel — kills the process, and that is an observation), and prints one event trace
// per scenario in the format of PROTOCOL.md / the judge's notes (invocation events stamped before the call, response /
// receive / callback events after). `harness pubsub-child <spec>` is the subprocess.

import (
	"bufio"
	"bytes"
	"fmt"
	"math/rand"
	"os"
	"os/exec"
	"sort"
	"strconv"
	"strings"
	"sync"
	"sync/atomic"
	"time"

	"gopkg.in/typ.v4/chans"
)

func init() {
	commands["pubsub"] = pubsubMain
	commands["pubsub-child"] = pubsubChild
}

// a scenario is a ';'-separated action list, e.g.
// "ps 0 0;sub 0 1;allow 0 2;pub 0 0 pubsync 7,8;unsub 0 0 0;withonly 1 0 0;unsuball 0 0;mkchan 5;nilunsub 1 0"
func genScenario(r *rand.Rand, withClone bool) string {
	if withClone && r.Intn(4) == 0 {
		return genCloneSplice(r)
	}
	if !withClone && r.Intn(4) == 0 {
		return genLive(r)
	}
	if !withClone && r.Intn(12) == 0 {
		return genWide(r)
	}
	if !withClone && r.Intn(12) == 0 {
		return genTmoRace(r)
	}
	tmo := []int{0, 0, 2}[r.Intn(3)]
	acts := []string{fmt.Sprintf("ps %d %d", tmo, r.Intn(2))}
	nextChan, nextVal, nextPub, nextUnsub, nextAll, nextClone := 0, 1, 0, 0, 0, 1
	var live []int
	clones := []int{}
	sub := func() {
		c := nextChan
		nextChan++
		acts = append(acts, fmt.Sprintf("sub %d %d", c, []int{-1, 0, 1, 2}[r.Intn(4)]))
		live = append(live, c)
	}
	for i, n := 0, r.Intn(3); i < n; i++ {
		sub()
	}
	steps := 3 + r.Intn(6)
	senders := 0 // sender goroutines spawned by async/wait publishes so far (the judge is exponential in how many are alive at once)
	for i := 0; i < steps; i++ {
		switch k := r.Intn(12); {
		case k <= 3: // publish
			variant := []string{"pub", "pubslice", "pubwait", "pubslicewait", "pubsync", "pubslicesync"}[r.Intn(6)]
			nev := 1
			if strings.Contains(variant, "slice") {
				nev = 1 + r.Intn(2)
			}
			limit := 6
			if withClone {
				limit = 3
			}
			if !strings.Contains(variant, "sync") {
				if senders+nev*len(live) > limit {
					nev = 1
				}
				if senders+nev*len(live) > limit {
					variant = []string{"pubsync", "pubslicesync"}[r.Intn(2)]
				} else {
					senders += nev * len(live)
				}
			}
			var evs []string
			for j := 0; j < nev; j++ {
				evs = append(evs, strconv.Itoa(nextVal))
				nextVal++
			}
			via := 0
			if len(clones) > 0 && r.Intn(3) == 0 {
				via = clones[r.Intn(len(clones))]
			}
			acts = append(acts, fmt.Sprintf("pub %d %d %s %s", nextPub, via, variant, strings.Join(evs, ",")))
			nextPub++
		case k <= 6 && nextChan > 0: // allowance
			acts = append(acts, fmt.Sprintf("allow %d %d", r.Intn(nextChan), 1+r.Intn(3)))
		case k == 7 && nextChan > 0:
			acts = append(acts, fmt.Sprintf("unsub %d 0 %d", nextUnsub, r.Intn(nextChan)))
			nextUnsub++
		case k == 8:
			switch r.Intn(4) {
			case 0:
				acts = append(acts, fmt.Sprintf("unsuball %d 0", nextAll))
				nextAll++
			case 1:
				acts = append(acts, fmt.Sprintf("mkchan %d", nextChan), fmt.Sprintf("unsub %d 0 %d", nextUnsub, nextChan))
				nextChan++
				nextUnsub++
			case 2:
				acts = append(acts, fmt.Sprintf("unsub %d 0 -1", nextUnsub))
				nextUnsub++
			default:
				sub()
			}
		case k == 9 && withClone && nextChan > 0:
			acts = append(acts, fmt.Sprintf("withonly %d 0 %d", nextClone, r.Intn(nextChan)))
			clones = append(clones, nextClone)
			nextClone++
		default:
			if len(live) < 3 {
				sub()
			} else if nextChan > 0 {
				acts = append(acts, fmt.Sprintf("allow %d %d", r.Intn(nextChan), 1+r.Intn(2)))
			}
		}
	}
	// drain generously at the end so that buffered values show up
	for c := 0; c < nextChan; c++ {
		if r.Intn(3) > 0 {
			acts = append(acts, fmt.Sprintf("allow %d 4", c))
		}
	}
	return strings.Join(acts, ";")
}

// genCloneSplice: sequenced scenarios (settled between phases) about what a WithOnly clone keeps publishing to while the
// parent's subscriber list is spliced and appended to around it: 2-4 buffered subscribers, a clone of one of them, then
// Unsub of OTHER subscribers and/or new Subs on the parent, then a synchronous publish through the clone (and one
// through the parent). The clone's own channel is never unsubscribed here (that history is the known finding).
func genCloneSplice(r *rand.Rand) string {
	acts := []string{"ps 0 0"}
	n := 2 + r.Intn(3)
	for c := 0; c < n; c++ {
		acts = append(acts, fmt.Sprintf("sub %d %d", c, 2+r.Intn(2)), "wait")
	}
	target := r.Intn(n)
	acts = append(acts, fmt.Sprintf("withonly 1 0 %d", target), "wait")
	nextChan, nextUnsub := n, 0
	for i, k := 0, 1+r.Intn(2); i < k; i++ {
		if r.Intn(3) > 0 {
			c := r.Intn(n)
			if c == target {
				c = (c + 1 + r.Intn(n-1)) % n
			}
			acts = append(acts, fmt.Sprintf("unsub %d 0 %d", nextUnsub, c), "wait")
			nextUnsub++
		} else {
			acts = append(acts, fmt.Sprintf("sub %d %d", nextChan, 2), "wait")
			nextChan++
		}
	}
	variant := []string{"pubsync", "pubslicesync", "pubwait"}[r.Intn(3)]
	acts = append(acts, fmt.Sprintf("pub 0 1 %s 1", variant), "wait", "pub 1 0 pubsync 2", "wait")
	for c := 0; c < nextChan; c++ {
		acts = append(acts, fmt.Sprintf("allow %d 4", c))
	}
	return strings.Join(acts, ";")
}

// genLive: every subscriber is received from without limit, no timeout, no clones: nothing can block for good, so every call must
// return and every event (of the asynchronous variants too) must reach every subscriber that stays subscribed. Publishes of all six
// variants race Sub / Unsub (also of unknown channels) on the root.
func genLive(r *rand.Rand) string {
	acts := []string{"ps 0 " + strconv.Itoa(r.Intn(2)), "live"}
	nextChan, nextVal, nextPub, nextUnsub := 0, 1, 0, 0
	var live []int
	sub := func() {
		acts = append(acts, fmt.Sprintf("sub %d %d", nextChan, []int{-1, 0, 1, 2}[r.Intn(4)]))
		live = append(live, nextChan)
		nextChan++
	}
	for i, n := 0, 2+r.Intn(2); i < n; i++ {
		sub()
	}
	acts = append(acts, "wait")
	for i, n := 0, 4+r.Intn(6); i < n; i++ {
		switch k := r.Intn(10); {
		case k < 6:
			variant := []string{"pub", "pubslice", "pubwait", "pubslicewait", "pubsync", "pubslicesync"}[r.Intn(6)]
			nev := 1
			if strings.Contains(variant, "slice") {
				nev = 1 + r.Intn(2)
			}
			var evs []string
			for j := 0; j < nev; j++ {
				evs = append(evs, strconv.Itoa(nextVal))
				nextVal++
			}
			acts = append(acts, fmt.Sprintf("pub %d 0 %s %s", nextPub, variant, strings.Join(evs, ",")))
			nextPub++
		case k < 7 && len(live) > 1:
			j := r.Intn(len(live))
			acts = append(acts, fmt.Sprintf("unsub %d 0 %d", nextUnsub, live[j]))
			live = append(live[:j], live[j+1:]...)
			nextUnsub++
		case k < 8 && len(live) > 1:
			// an asynchronous publish and, back to back from the same goroutine, the removal of an EARLIER subscriber: the sender goroutines
			// of the publish typically run only after the subscriber list has been spliced
			variant := []string{"pub", "pubslice"}[r.Intn(2)]
			acts = append(acts, "wait", fmt.Sprintf("+pub %d 0 %s %d", nextPub, variant, nextVal), fmt.Sprintf("+unsub %d 0 %d", nextUnsub, live[0]), "wait")
			nextPub++
			nextVal++
			nextUnsub++
			live = live[1:]
		case k == 8:
			// a Wait-variant publish with several hand-offs while writers keep arriving back to back (Unsub of an unknown channel takes the
			// write lock): a writer that slips in between the publisher's lock and its senders' work must not wedge the call
			acts = append(acts, "wait", fmt.Sprintf("mkchan %d", nextChan))
			variant := []string{"pubwait", "pubslicewait", "pubslicewait"}[r.Intn(3)]
			evs := []string{strconv.Itoa(nextVal)}
			nextVal++
			if variant == "pubslicewait" {
				evs = append(evs, strconv.Itoa(nextVal))
				nextVal++
			}
			acts = append(acts, fmt.Sprintf("pub %d 0 %s %s", nextPub, variant, strings.Join(evs, ",")))
			nextPub++
			for j, m := 0, 6+r.Intn(6); j < m; j++ {
				acts = append(acts, fmt.Sprintf("+unsub %d 0 %d", nextUnsub, nextChan))
				nextUnsub++
			}
			nextChan++
			acts = append(acts, "wait")
		default:
			if len(live) < 4 {
				sub()
			}
		}
		if r.Intn(3) == 0 {
			acts = append(acts, "wait")
		}
	}
	acts = append(acts, "wait")
	return strings.Join(acts, ";")
}

// genWide: the `live` family with MANY buffered subscribers: an asynchronous publish has a long loop over the subscriber list, and the removal of
// the EARLIEST subscribers races it from another goroutine (the list is spliced in place while the publisher may still be walking it): every
// subscriber that stays subscribed gets every event exactly once
func genWide(r *rand.Rand) string {
	acts := []string{"ps 0 0", "live"}
	n := 150 + r.Intn(250)
	for c := 0; c < n; c++ {
		acts = append(acts, fmt.Sprintf("sub %d 2", c))
	}
	acts = append(acts, "wait")
	nextVal, nextUnsub := 1, 0
	for p := 0; p < 2; p++ {
		variant := []string{"pub", "pubslice", "pub"}[r.Intn(3)]
		acts = append(acts, fmt.Sprintf("pub %d 0 %s %d", p, variant, nextVal))
		nextVal++
		for k := 0; k < 1+r.Intn(3); k++ {
			acts = append(acts, fmt.Sprintf("unsub %d 0 %d", nextUnsub, nextUnsub))
			nextUnsub++
		}
		acts = append(acts, "wait")
	}
	return strings.Join(acts, ";")
}

// genTmoRace: unbuffered subscribers, PubTimeoutAfter = 5 ms, synchronous publishes whose receiver becomes willing at about the moment the
// timer fires (the scenario actions themselves cost 1.5-2 ms): whichever wins, the (event, subscriber) pair ends in exactly one of a delivery or one timeout callback
func genTmoRace(r *rand.Rand) string {
	acts := []string{"ps 5 0"}
	for p := 0; p < 12; p++ {
		// a fresh subscriber per trial (an allowance left over from a trial that timed out would hand the next event over at once)
		variant := []string{"pubsync", "pubwait", "pubslicesync"}[r.Intn(3)]
		acts = append(acts, fmt.Sprintf("sub %d 0", p), "wait")
		acts = append(acts, fmt.Sprintf("pub %d 0 %s %d", p, variant, p+1), fmt.Sprintf("nap %d", 2400+r.Intn(1200)), fmt.Sprintf("allow %d 1", p), "wait",
			fmt.Sprintf("unsub %d 0 %d", p, p), "wait")
	}
	return strings.Join(acts, ";")
}

func pubsubMain(args []string) int {
	if len(args) < 2 {
		fmt.Fprintln(os.Stderr, "usage: harness pubsub <seed> <n> [clone|noclone|script <scenario>]")
		return 2
	}
	seed, _ := strconv.ParseInt(args[0], 10, 64)
	n, _ := strconv.Atoi(args[1])
	mode := "noclone"
	if len(args) > 2 {
		mode = args[2]
	}
	r := rand.New(rand.NewSource(seed))
	w := bufio.NewWriterSize(os.Stdout, 1<<20)
	defer w.Flush()
	self, _ := os.Executable()
	type job struct {
		idx  int
		spec string
		out  []string
	}
	jobs := make([]*job, n)
	for i := range jobs {
		spec := ""
		if mode == "script" {
			spec = strings.Join(args[3:], " ")
		} else {
			spec = genScenario(r, mode == "clone")
		}
		jobs[i] = &job{idx: i, spec: spec}
	}
	var wg sync.WaitGroup
	sem := make(chan struct{}, 8)
	for _, j := range jobs {
		wg.Add(1)
		sem <- struct{}{}
		go func(j *job) {
			defer wg.Done()
			defer func() { <-sem }()
			j.out = runPubsubChild(self, j.spec, j.idx)
		}(j)
	}
	wg.Wait()
	for _, j := range jobs {
		if last := j.out[len(j.out)-1]; (last == "exit deadlock" || last == "exit timeout") && !strings.Contains(j.spec, ";live;") {
			// (in the `live` family nothing can legitimately block for good: a deadlock or a hang there IS a verdict and is judged)
			// inconclusive (DESIGN Appendix C): a scenario whose calls block each other for good is not a verdict about the property
			fmt.Fprintln(w, "# inconclusive ("+last+"): scenario "+j.spec)
			continue
		}
		fmt.Fprintln(w, "reset")
		fmt.Fprintln(w, "# scenario "+j.spec)
		for _, l := range j.out {
			fmt.Fprintln(w, l+" => ok")
		}
	}
	return 0
}

func runPubsubChild(self, spec string, idx int) []string {
	cmd := exec.Command(self, "pubsub-child", spec)
	cmd.Env = append(os.Environ(), "GOMAXPROCS="+[]string{"1", "2", "8"}[idx%3])
	var stdout, stderr bytes.Buffer
	cmd.Stdout, cmd.Stderr = &stdout, &stderr
	done := make(chan error, 1)
	if err := cmd.Start(); err != nil {
		return []string{"ps 0 0", "exit panic:other"}
	}
	go func() { done <- cmd.Wait() }()
	status := ""
	select {
	case err := <-done:
		if err != nil {
			e := stderr.String()
			switch {
			case strings.Contains(e, "send on closed channel"):
				status = "exit panic:send-on-closed"
			case strings.Contains(e, "close of closed channel"):
				status = "exit panic:close-of-closed"
			case strings.Contains(e, "all goroutines are asleep"):
				status = "exit deadlock"
			default:
				status = "exit panic:other"
			}
		}
	case <-time.After(10 * time.Second):
		cmd.Process.Kill()
		<-done
		status = "exit timeout"
	}
	type ev struct {
		stamp int64
		text  string
	}
	var evs []ev
	header := ""
	for _, l := range strings.Split(stdout.String(), "\n") {
		if l == "" {
			continue
		}
		sp := strings.SplitN(l, " ", 2)
		st, err := strconv.ParseInt(sp[0], 10, 64)
		if err != nil || len(sp) < 2 {
			continue
		}
		if st == 0 {
			header = sp[1]
			continue
		}
		evs = append(evs, ev{st, sp[1]})
	}
	sort.Slice(evs, func(i, j int) bool { return evs[i].stamp < evs[j].stamp })
	out := []string{header}
	sawExit := false
	for _, e := range evs {
		if strings.HasPrefix(e.text, "exit ") {
			sawExit = true
			if status != "" {
				continue
			}
		}
		out = append(out, e.text)
	}
	if status != "" {
		out = append(out, status)
	} else if !sawExit {
		out = append(out, "exit panic:other")
	}
	return out
}

// ---------------------------------------------------------------------------------------------- child

type psChild struct {
	clock   int64
	wmu     sync.Mutex
	objs    map[int]*chans.PubSub[int]
	omu     sync.Mutex
	rx      map[int]<-chan int
	allow   map[int]chan struct{}
	ready   map[int]chan struct{} // closed when the Sub call that creates channel c has returned
	cready  map[int]chan struct{} // closed when clone w exists
	pending int64                 // calls in flight
	spawned int64                 // calls started in goroutines of their own
	begun   int64                 // … of which the goroutine has started running
	lastEv  int64                 // unix nanos of the last event
	live    bool                  // scenario family `live`: every subscriber is received from without limit
}

func (p *psChild) log(format string, a ...interface{}) {
	st := atomic.AddInt64(&p.clock, 1)
	line := fmt.Sprintf("%d %s\n", st, fmt.Sprintf(format, a...))
	p.wmu.Lock()
	os.Stdout.WriteString(line)
	p.wmu.Unlock()
	atomic.StoreInt64(&p.lastEv, time.Now().UnixNano())
}

func (p *psChild) obj(id int) *chans.PubSub[int] {
	p.omu.Lock()
	defer p.omu.Unlock()
	return p.objs[id]
}

func (p *psChild) receiver(c int, ch <-chan int) {
	for range p.allow[c] {
		v, ok := <-ch
		if !ok {
			p.log("closed %d", c)
			return
		}
		p.log("recv %d %d", c, v)
	}
}

func waitFor(ch chan struct{}, d time.Duration) bool {
	select {
	case <-ch:
		return true
	case <-time.After(d):
		return false
	}
}

func pubsubChild(args []string) int {
	spec := strings.Join(args, " ")
	acts := strings.Split(spec, ";")
	p := &psChild{objs: map[int]*chans.PubSub[int]{}, rx: map[int]<-chan int{}, allow: map[int]chan struct{}{},
		ready: map[int]chan struct{}{}, cready: map[int]chan struct{}{}}
	r := rand.New(rand.NewSource(int64(len(spec))*7919 + int64(os.Getpid())))
	// pre-create the coordination channels named in the script
	for _, a := range acts {
		f := strings.Fields(a)
		f[0] = strings.TrimPrefix(f[0], "+")
		switch f[0] {
		case "sub", "mkchan":
			c := atoi(f[1])
			p.allow[c] = make(chan struct{}, 2048)
			p.ready[c] = make(chan struct{})
		case "withonly":
			p.cready[atoi(f[1])] = make(chan struct{})
		}
	}
	var rxmu sync.Mutex
	skipClones := false
	inline := false
	spawn := func(f func()) {
		if inline { // "+action": the call runs in the script's own goroutine, back to back with the next action
			f()
			return
		}
		atomic.AddInt64(&p.pending, 1)
		atomic.AddInt64(&p.spawned, 1)
		go func() {
			defer atomic.AddInt64(&p.pending, -1)
			atomic.AddInt64(&p.begun, 1) // the goroutine runs: its first statement stamps the invocation
			atomic.StoreInt64(&p.lastEv, time.Now().UnixNano())
			f()
		}()
	}
	for _, a := range acts {
		f := strings.Fields(a)
		inline = strings.HasPrefix(f[0], "+")
		f[0] = strings.TrimPrefix(f[0], "+")
		switch f[0] {
		case "ps":
			root := &chans.PubSub[int]{PubTimeoutAfter: time.Duration(atoi(f[1])) * time.Millisecond, DefaultBuffer: atoi(f[2])}
			if atoi(f[1]) > 0 {
				// the callback takes a little while before it is stamped: a Sync/Wait publish that returned before its timeout callbacks
				// have finished shows as `pubret` BEFORE `tmo` in the trace
				root.OnPubTimeout = func(v int) { time.Sleep(150 * time.Microsecond); p.log("tmo %d", v) }
			}
			p.objs[0] = root
			p.wmu.Lock()
			os.Stdout.WriteString("0 " + a + "\n")
			p.wmu.Unlock()
		case "live":
			p.live = true
			p.log("live")
		case "sub":
			c, capa := atoi(f[1]), atoi(f[2])
			spawn(func() {
				p.log("sub %d %d", c, capa)
				var ch <-chan int
				if capa < 0 {
					ch = p.obj(0).Sub()
				} else {
					ch = p.obj(0).SubBuf(capa)
				}
				rxmu.Lock()
				p.rx[c] = ch
				rxmu.Unlock()
				go p.receiver(c, ch)
				p.log("subret %d", c)
				if p.live { // this subscriber is received from without limit
					p.log("allow %d %d", c, 1000)
					for i := 0; i < 1000; i++ {
						p.allow[c] <- struct{}{}
					}
				}
				close(p.ready[c])
			})
		case "mkchan":
			c := atoi(f[1])
			ch := make(chan int)
			rxmu.Lock()
			p.rx[c] = ch
			rxmu.Unlock()
			p.log("mkchan %d", c)
			close(p.ready[c])
		case "allow":
			c, n := atoi(f[1]), atoi(f[2])
			if rc, ok := p.ready[c]; !ok || !waitFor(rc, 3*time.Millisecond) {
				continue
			}
			p.log("allow %d %d", c, n)
			for i := 0; i < n; i++ {
				p.allow[c] <- struct{}{}
			}
		case "pub":
			id, via, variant := atoi(f[1]), atoi(f[2]), f[3]
			// the event slice is a prefix of a larger buffer (spare capacity holding junk), as a batching producer's `buf[:n]` would be
			evs := make([]int, 0, 8)
			for _, s := range strings.Split(f[4], ",") {
				evs = append(evs, atoi(s))
			}
			for i, tail := 0, evs[len(evs):cap(evs)]; i < len(tail); i++ {
				tail[i] = -555000 - i
			}
			if via != 0 {
				if rc, ok := p.cready[via]; !ok || !waitFor(rc, 3*time.Millisecond) {
					continue
				}
			}
			o := p.obj(via)
			spawn(func() {
				p.log("pubinv %d %d %s %s", id, via, variant, fmtInts(evs))
				switch variant {
				case "pub":
					o.Pub(evs[0])
				case "pubslice":
					o.PubSlice(evs)
				case "pubwait":
					o.PubWait(evs[0])
				case "pubslicewait":
					o.PubSliceWait(evs)
				case "pubsync":
					o.PubSync(evs[0])
				case "pubslicesync":
					o.PubSliceSync(evs)
				}
				// a batching producer reuses its buffer once the call has returned: PubSlice* must not keep the caller's slice
				if strings.HasPrefix(variant, "pubslice") {
					for i := range evs {
						evs[i] = -777000 - i
					}
				}
				p.log("pubret %d", id)
			})
		case "unsub":
			id, via, c := atoi(f[1]), atoi(f[2]), atoi(f[3])
			var ch <-chan int
			if c >= 0 {
				if rc, ok := p.ready[c]; !ok || !waitFor(rc, 3*time.Millisecond) {
					continue
				}
				rxmu.Lock()
				ch = p.rx[c]
				rxmu.Unlock()
			}
			o := p.obj(via)
			spawn(func() {
				p.log("unsubinv %d %d %d", id, via, c)
				err := o.Unsub(ch)
				code := "nil"
				switch err {
				case chans.ErrAlreadyUnsubscribed:
					code = "already"
				case chans.ErrSubscriptionNotInitalized:
					code = "notinit"
				case nil:
				default:
					code = "other"
				}
				p.log("unsubret %d %s", id, code)
			})
		case "unsuball":
			id, via := atoi(f[1]), atoi(f[2])
			o := p.obj(via)
			spawn(func() {
				p.log("unsuballinv %d %d", id, via)
				o.UnsubAll()
				p.log("unsuballret %d", id)
			})
		case "withonly":
			w, via, c := atoi(f[1]), atoi(f[2]), atoi(f[3])
			if rc, ok := p.ready[c]; skipClones || !ok || !waitFor(rc, 3*time.Millisecond) {
				// the clone is never made; publishes through it are skipped (cready[w] stays open).  Clone ids are 1,2,3… in the order of
				// the withonly EVENTS, so once one is skipped no later clone is made either (else the trace would name clone 2 before clone 1
				// exists: a flaky rejection by the model, seen under load)
				skipClones = true
				continue
			}
			rxmu.Lock()
			ch := p.rx[c]
			rxmu.Unlock()
			o := p.obj(via)
			// the clone ids must be 1,2,3… in the order of the withonly lines: the invocation is stamped here, the call
			// itself runs in its own goroutine (it can block behind a waiting writer)
			p.log("withonly %d %d %d", w, via, c)
			spawn(func() {
				cl := o.WithOnly(ch)
				p.omu.Lock()
				p.objs[w] = cl
				p.omu.Unlock()
				close(p.cready[w])
			})
		case "nap": // nap <microseconds>
			time.Sleep(time.Duration(atoi(f[1])) * time.Microsecond)
		case "wait": // let everything settle: the calls spawned so far have logged their invocation and returned or blocked
			for i := 0; i < 50 && atomic.LoadInt64(&p.pending) > 0; i++ {
				time.Sleep(200 * time.Microsecond)
			}
			p.settle(20 * time.Millisecond)
		}
		if !inline && r.Intn(3) > 0 {
			time.Sleep(time.Duration(r.Intn(400)) * time.Microsecond)
		}
	}
	p.settle(25 * time.Millisecond)
	p.log("exit ok")
	return 0
}

// settle waits until no event has been logged for `quiet` (calls may legitimately stay blocked), at most 2 s
func (p *psChild) settle(quiet time.Duration) {
	deadline := time.Now().Add(2 * time.Second)
	for time.Now().Before(deadline) {
		last := atomic.LoadInt64(&p.lastEv)
		// a goroutine that has been spawned but not yet scheduled has not even stamped its invocation: silence does not mean settled
		// (on a loaded machine `exit ok` was stamped before a late `pubinv`: a trace the model rightly rejects - a false correspondence alarm)
		if atomic.LoadInt64(&p.begun) == atomic.LoadInt64(&p.spawned) && time.Since(time.Unix(0, last)) >= quiet {
			return
		}
		time.Sleep(quiet / 4)
	}
}
