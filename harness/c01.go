package main

import (
	typ "gopkg.in/typ.v4"
	"gopkg.in/typ.v4/avl"
	"math"
)

// C01/C02: avl trees.
type c01 struct {
	trees map[int]*avl.Tree[int]
	calls *int
}

func init() {
	mk := func() world { n := 0; return &c01{trees: map[int]*avl.Tree[int]{}, calls: &n} }
	register("C01", mk)
	register("C02", mk)
}

func (w *c01) cmp(id int) func(a, b int) int {
	base := func(a, b int) int {
		if a > b {
			return 1
		}
		if a < b {
			return -1
		}
		return 0
	}
	var f func(a, b int) int
	switch id {
	case 0:
		f = base
	case 1:
		f = func(a, b int) int { return base(b, a) }
	case 2:
		f = func(a, b int) int {
			if c := base(a%7, b%7); c != 0 {
				return c
			}
			return base(a, b)
		}
	case 3:
		// the library's own comparator (what avl.NewOrdered installs) over ADJACENT float64 values: v ↦ the v-th double above 1.0
		// (order-isomorphic to the ints; a tolerance or rounding in typ.Compare makes neighbours compare equal)
		f = func(a, b int) int {
			return typ.Compare(math.Float64frombits(0x3ff0000000000000+uint64(a)), math.Float64frombits(0x3ff0000000000000+uint64(b)))
		}
	case 4:
		// typ.Compare over ints at the two ends of the int range (0, 1, 2 at the bottom, 3..1000 at the top: order-isomorphic to the ints in 0..1000; a subtraction inside Compare wraps)
		g := func(v int) int {
			if v < 3 {
				return math.MinInt + v
			}
			return math.MaxInt - (1000 - v)
		}
		f = func(a, b int) int { return typ.Compare(g(a), g(b)) }
	case 5:
		f = func(a, b int) int { return typ.Compare(a, b) }
	default:
		panic(badOp{})
	}
	return func(a, b int) int { *w.calls++; return f(a, b) }
}

func (w *c01) tree(s string) *avl.Tree[int] {
	t, ok := w.trees[atoi(s)]
	if !ok {
		panic(badOp{})
	}
	return t
}

func (w *c01) step(t []string) string {
	*w.calls = 0
	switch t[0] {
	case "new":
		need(t, 3)
		tr := avl.New(w.cmp(atoi(t[2])))
		w.trees[atoi(t[1])] = &tr
		return "ok"
	case "add":
		need(t, 3)
		w.tree(t[1]).Add(atoi(t[2]))
		return "ok " + itoa(*w.calls)
	case "remove":
		need(t, 3)
		r := w.tree(t[1]).Remove(atoi(t[2]))
		return btoa(r) + " " + itoa(*w.calls)
	case "contains":
		need(t, 3)
		r := w.tree(t[1]).Contains(atoi(t[2]))
		return btoa(r) + " " + itoa(*w.calls)
	case "len":
		need(t, 2)
		return itoa(w.tree(t[1]).Len())
	case "clear":
		need(t, 2)
		w.tree(t[1]).Clear()
		return "ok"
	case "clone":
		need(t, 3)
		src := w.tree(t[1])
		c := src.Clone()
		w.trees[atoi(t[2])] = &c
		return "ok"
	case "pre":
		return fmtInts(w.tree(t[1]).SlicePreOrder())
	case "in":
		return fmtInts(w.tree(t[1]).SliceInOrder())
	case "post":
		return fmtInts(w.tree(t[1]).SlicePostOrder())
	case "wpre":
		out := []int{}
		w.tree(t[1]).WalkPreOrder(func(v int) { out = append(out, v) })
		return fmtInts(out)
	case "win":
		out := []int{}
		w.tree(t[1]).WalkInOrder(func(v int) { out = append(out, v) })
		return fmtInts(out)
	case "wpost":
		out := []int{}
		w.tree(t[1]).WalkPostOrder(func(v int) { out = append(out, v) })
		return fmtInts(out)
	case "string":
		return reparse(w.tree(t[1]).String())
	case "shape":
		return w.tree(t[1]).VerifShape()
	}
	return bad()
}
