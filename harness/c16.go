package main

import "gopkg.in/typ.v4/lists"

// C16: one Queue and one Stack per world, zero values.
type c16 struct {
	q lists.Queue[int]
	s lists.Stack[int]
}

func init() { register("C16", func() world { return &c16{} }) }

func (w *c16) step(t []string) string {
	switch t[0] {
	case "enq":
		w.q.Enqueue(atoi(t[1]))
		return "ok"
	case "deq":
		v, ok := w.q.Dequeue()
		return itoa(v) + " " + btoa(ok)
	case "qpeek":
		v, ok := w.q.Peek()
		return itoa(v) + " " + btoa(ok)
	case "qlen":
		return itoa(w.q.Len())
	case "push":
		w.s.Push(atoi(t[1]))
		return "ok"
	case "pop":
		v, ok := w.s.Pop()
		return itoa(v) + " " + btoa(ok)
	case "speek":
		v, ok := w.s.Peek()
		return itoa(v) + " " + btoa(ok)
	case "slen":
		return itoa(len(w.s))
	}
	return bad()
}
