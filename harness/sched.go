package main

// Controlled scheduler (DESIGN §7.3): under -tags verif every hook in sync2 parks the calling goroutine and hands
// control back to the scheduler, so exactly one worker goroutine is runnable at any time and a schedule is a list of
// worker ids. The execution, its step trace and its API-level history are a deterministic function of
// (program, schedule).

import (
	"fmt"
	"strings"
	"sync"

	"gopkg.in/typ.v4/sync2"
)

type muState struct {
	writer  bool
	readers int
}

type schedOp struct {
	name string
	args []int
}

type worker struct {
	id      int
	ops     []schedOp
	wake    chan struct{}
	at      string // label of the hook the worker is parked at ("start" before its first operation)
	done    bool
	waitMu  any    // mutex it wants to acquire (parked in Lock hook)
	waitKnd string // "lock" | "rlock"
	await   int    // 1 + the flag this worker waits for before its first operation (0: none); see "await"/"signal" below
}

type scheduler struct {
	workers []*worker
	cur     *worker
	parked  chan struct{}
	mus     map[any]*muState
	trace   []string
	run     func(w *worker, op schedOp) string // executes one operation on the object under test, returns the rendered result
	quiet   bool                               // hooks pass through (used for harness-side peeks)
	flags   map[int]bool                       // harness-level ordering between workers: pseudo-operations `signal n` / leading `await n`
}

func (s *scheduler) emit(format string, a ...interface{}) {
	s.trace = append(s.trace, fmt.Sprintf(format, a...))
}

func (s *scheduler) mu(m any) *muState {
	st, ok := s.mus[m]
	if !ok {
		st = &muState{}
		s.mus[m] = st
	}
	return st
}

// park hands control back to the scheduler and waits to be woken.
func (s *scheduler) park(label string) {
	w := s.cur
	w.at = label
	s.parked <- struct{}{}
	<-w.wake
	s.cur = w
}

func (s *scheduler) install() {
	sync2.VerifHooks.Yield = func(point string) {
		if !s.quiet {
			s.park(point)
		}
	}
	sync2.VerifHooks.Iter = func(key any) {
		if !s.quiet {
			s.emit("iter %d %v", s.cur.id, key)
		}
	}
	sync2.VerifHooks.Lock = func(m any, kind string) {
		if s.quiet {
			return
		}
		w := s.cur
		w.waitMu, w.waitKnd = m, kind
		s.park(kind)
		// the scheduler only wakes us when the acquisition is enabled
		st := s.mu(m)
		if kind == "lock" {
			st.writer = true
		} else {
			st.readers++
		}
		w.waitMu = nil
	}
	sync2.VerifHooks.Unlocked = func(m any, kind string) {
		if s.quiet {
			return
		}
		st := s.mu(m)
		if kind == "unlock" {
			st.writer = false
		} else {
			st.readers--
		}
	}
}

func (s *scheduler) uninstall() {
	sync2.VerifHooks.Yield, sync2.VerifHooks.Iter, sync2.VerifHooks.Lock, sync2.VerifHooks.Unlocked = nil, nil, nil, nil
}

func (s *scheduler) enabled(w *worker) bool {
	if w.done {
		return false
	}
	if w.await > 0 && !s.flags[w.await-1] {
		return false
	}
	if w.waitMu != nil {
		st := s.mu(w.waitMu)
		if w.waitKnd == "lock" {
			return !st.writer && st.readers == 0
		}
		return !st.writer
	}
	return true
}

func (s *scheduler) workerMain(w *worker) {
	<-w.wake
	s.cur = w
	lastTry := false
	for _, op := range w.ops {
		if op.name == "signal" {
			// pseudo-operation (no event, no scheduling point): lets a program order one worker's start after another worker's operation
			// has RETURNED - e.g. calls on a key only after its ClearKey is over (the property's proviso on ClearKey)
			s.flags[op.args[0]] = true
			continue
		}
		if strings.HasSuffix(op.name, "?") {
			// conditional release: only when the preceding try on this worker succeeded
			if !lastTry {
				continue
			}
			op.name = strings.TrimSuffix(op.name, "?")
		}
		s.emit("inv %d %s%s", w.id, op.name, joinInts(op.args))
		s.park("op:" + op.name) // the invocation is an event of its own; the first hook inside the call is the next park
		res := s.safeRun(w, op)
		lastTry = res == "true"
		s.emit("res %d %s", w.id, res)
	}
	w.done = true
	w.at = "done"
	s.parked <- struct{}{}
}

// safeRun turns a panic inside the code under test into a result, so that it is reported as an event of the trace
func (s *scheduler) safeRun(w *worker, op schedOp) (res string) {
	defer func() {
		if r := recover(); r != nil {
			res = classifyPanic(r)
			s.cur = w
		}
	}()
	return s.run(w, op)
}

func joinInts(xs []int) string {
	var sb strings.Builder
	for _, x := range xs {
		fmt.Fprintf(&sb, " %d", x)
	}
	return sb.String()
}

// execute runs the program under the given schedule. choose(enabled ids, step index) picks the next worker.
// Returns the trace and whether the run ended in a deadlock (unfinished workers, none enabled).
func (s *scheduler) execute(choose func(enabled []int, step int) int, maxSteps int) (deadlock bool) {
	s.parked = make(chan struct{})
	s.mus = map[any]*muState{}
	s.flags = map[int]bool{}
	for _, w := range s.workers {
		if len(w.ops) > 0 && w.ops[0].name == "await" {
			w.await, w.ops = w.ops[0].args[0]+1, w.ops[1:]
		}
	}
	s.install()
	defer s.uninstall()
	for _, w := range s.workers {
		w.wake = make(chan struct{})
		w.at = "start"
		go s.workerMain(w)
	}
	for step := 0; step < maxSteps; step++ {
		var en []int
		unfinished := 0
		for _, w := range s.workers {
			if !w.done {
				unfinished++
			}
			if s.enabled(w) {
				en = append(en, w.id)
			}
		}
		if unfinished == 0 {
			return false
		}
		if len(en) == 0 {
			s.emit("deadlock")
			return true
		}
		id := choose(en, step)
		w := s.workers[id]
		if w.at != "start" {
			s.emit("step %d %s", w.id, w.at)
		}
		w.wake <- struct{}{}
		<-s.parked
	}
	s.emit("steplimit")
	return true
}

var _ sync.Mutex
