module verif/harness

go 1.21

require gopkg.in/typ.v4 v4.0.0

replace gopkg.in/typ.v4 => /repo
