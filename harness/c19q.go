package main

import "gopkg.in/typ.v4/chans"

func drain(ch chan int) []int {
	out := []int{}
	for {
		select {
		case v, ok := <-ch:
			if !ok {
				return out
			}
			out = append(out, v)
		default:
			return out
		}
	}
}

func mkChan(capacity, fill int, closed bool) chan int {
	ch := make(chan int, capacity)
	for i := 1; i <= fill; i++ {
		ch <- i
	}
	if closed {
		close(ch)
	}
	return ch
}

// queued receivers of C19 (the timed helpers are in c19t.go)
func c19queued(t []string) (string, bool) {
	switch t[0] {
	case "recvqueued":
		need(t, 5)
		ch := mkChan(atoi(t[1]), atoi(t[2]), atoi(t[3]) != 0)
		r := chans.RecvQueued(ch, atoi(t[4]))
		if r == nil {
			r = []int{}
		}
		return fmtInts(r) + " " + fmtInts(drain(ch)), true
	case "recvqueuedfull":
		need(t, 5)
		ch := mkChan(atoi(t[1]), atoi(t[2]), atoi(t[3]) != 0)
		buf := make([]int, atoi(t[4]))
		for i := range buf {
			buf[i] = sentinel
		}
		n := chans.RecvQueuedFull(ch, buf)
		return itoa(n) + " " + fmtInts(buf) + " " + fmtInts(drain(ch)), true
	}
	return "", false
}
