package main

import (
	"runtime"
	"sync"
	"sync/atomic"

	"gopkg.in/typ.v4/chans"
)

func drain(ch chan int) []int {
	out := []int{}
	for {
		select {
		case v, ok := <-ch:
			if !ok {
				return out
			}
			out = append(out, v)
		default:
			return out
		}
	}
}

func mkChan(capacity, fill int, closed bool) chan int {
	ch := make(chan int, capacity)
	for i := 1; i <= fill; i++ {
		ch <- i
	}
	if closed {
		close(ch)
	}
	return ch
}

// queued receivers of C19 (the timed helpers are in c19t.go)
func c19queued(t []string) (string, bool) {
	switch t[0] {
	case "recvqueued":
		need(t, 5)
		ch := mkChan(atoi(t[1]), atoi(t[2]), atoi(t[3]) != 0)
		r := chans.RecvQueued(ch, atoi(t[4]))
		if r == nil {
			r = []int{}
		}
		return fmtInts(r) + " " + fmtInts(drain(ch)), true
	case "recvqueuedfull":
		need(t, 5)
		ch := mkChan(atoi(t[1]), atoi(t[2]), atoi(t[3]) != 0)
		buf := make([]int, atoi(t[4]))
		for i := range buf {
			buf[i] = sentinel
		}
		n := chans.RecvQueuedFull(ch, buf)
		return itoa(n) + " " + fmtInts(buf) + " " + fmtInts(drain(ch)), true
	case "recvqueuedfullcap":
		// recvqueuedfullcap <cap> <fill> <closed> <buflen> <bufcap>: the caller's buffer has spare capacity behind its length; the limit is
		// len(buf), and nothing behind it may be written. result: n, buf[:len], the spare part buf[len:cap], remaining
		need(t, 6)
		ch := mkChan(atoi(t[1]), atoi(t[2]), atoi(t[3]) != 0)
		bl, bc := atoi(t[4]), atoi(t[5])
		if bc < bl {
			panic(badOp{})
		}
		full := make([]int, bc)
		for i := range full {
			full[i] = sentinel
		}
		buf := full[:bl]
		n := chans.RecvQueuedFull(ch, buf)
		return itoa(n) + " " + fmtInts(buf) + " " + fmtInts(full[bl:]) + " " + fmtInts(drain(ch)), true
	case "recvqueuedconc":
		// g goroutines call RecvQueued(ch, limit) at the same time on one channel pre-filled with 1..fill (no sender):
		// result = the g lists (in goroutine order) and what is left
		need(t, 6)
		old := runtime.GOMAXPROCS(8)
		defer runtime.GOMAXPROCS(old)
		ch := mkChan(atoi(t[1]), atoi(t[2]), atoi(t[3]) != 0)
		g, limit := atoi(t[4]), atoi(t[5])
		res := make([][]int, g)
		var wg sync.WaitGroup
		var ready int32 // spin barrier: all g goroutines enter RecvQueued within a few nanoseconds of each other
		for i := 0; i < g; i++ {
			wg.Add(1)
			go func(i int) {
				defer wg.Done()
				atomic.AddInt32(&ready, 1)
				for atomic.LoadInt32(&ready) < int32(g) {
				}
				r := chans.RecvQueued(ch, limit)
				if r == nil {
					r = []int{}
				}
				res[i] = r
			}(i)
		}
		wg.Wait()
		return fmtIntss(res) + " " + fmtInts(drain(ch)), true
	}
	return "", false
}
