package main

import (
	"math/rand"

	"gopkg.in/typ.v4/slices"
)

// C15: sort / search / shuffle. Tagged elements [key,tag].
type c15 struct{}

func init() { register("C15", func() world { return c15{} }) }

type kt struct{ k, t int }

func tagged(keys []int) []kt {
	out := make([]kt, len(keys))
	for i, k := range keys {
		out[i] = kt{k, i}
	}
	return out
}

func fmtKT(xs []kt) string {
	ps := make([][2]int, len(xs))
	for i, x := range xs {
		ps[i] = [2]int{x.k, x.t}
	}
	return fmtPairs(ps)
}

func ktLess(a, b kt) bool { return a.k < b.k }

func (c15) step(t []string) string {
	switch t[0] {
	case "sort":
		s := parseInts(t[1])
		slices.Sort(s)
		return fmtInts(s)
	case "sortdesc":
		s := parseInts(t[1])
		slices.SortDesc(s)
		return fmtInts(s)
	case "sortfunc":
		s := tagged(parseInts(t[1]))
		slices.SortFunc(s, ktLess)
		return fmtKT(s)
	case "sortdescfunc":
		s := tagged(parseInts(t[1]))
		slices.SortDescFunc(s, ktLess)
		return fmtKT(s)
	case "sortstable":
		s := tagged(parseInts(t[1]))
		slices.SortStableFunc(s, ktLess)
		return fmtKT(s)
	case "sortstabledesc":
		s := tagged(parseInts(t[1]))
		slices.SortStableDescFunc(s, ktLess)
		return fmtKT(s)
	case "bsearch":
		return itoa(slices.BinarySearch(parseInts(t[1]), atoi(t[2])))
	case "bsearchunits":
		// BinarySearchFunc on a slice of n zero-size elements (no memory; lengths up to MaxInt are legal): less answers a constant
		need(t, 3)
		n := atoi(t[1])
		all := atoi(t[2]) != 0
		return itoa(slices.BinarySearchFunc(make([]struct{}, n), func(struct{}) bool { return all }))
	case "bsearchfunc":
		v := atoi(t[2])
		return itoa(slices.BinarySearchFunc(parseInts(t[1]), func(a int) bool { return a < v }))
	case "shuffle":
		s := parseInts(t[1])
		slices.Shuffle(s)
		return fmtInts(s)
	case "shufflerand":
		s := parseInts(t[1])
		seed := int64(atoi(t[2]))
		slices.ShuffleRand(s, rand.New(rand.NewSource(seed)))
		// record the swap stream of an identically seeded generator
		var swaps [][2]int
		rand.New(rand.NewSource(seed)).Shuffle(len(s), func(i, j int) { swaps = append(swaps, [2]int{i, j}) })
		// determinism: a second identically seeded call gives the same result
		s2 := parseInts(t[1])
		slices.ShuffleRand(s2, rand.New(rand.NewSource(seed)))
		if fmtInts(s) != fmtInts(s2) {
			return fmtInts(s) + " nondeterministic"
		}
		return fmtInts(s) + " " + fmtPairs(swaps)
	}
	return bad()
}
