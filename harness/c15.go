package main

import (
	"math/rand"

	"gopkg.in/typ.v4/slices"
)

// C15: sort / search / shuffle. Tagged elements [key,tag].
type c15 struct{}

func init() { register("C15", func() world { return c15{} }) }

type kt struct{ k, t int }

func tagged(keys []int) []kt {
	out := make([]kt, len(keys))
	for i, k := range keys {
		out[i] = kt{k, i}
	}
	return out
}

func fmtKT(xs []kt) string {
	ps := make([][2]int, len(xs))
	for i, x := range xs {
		ps[i] = [2]int{x.k, x.t}
	}
	return fmtPairs(ps)
}

func ktLess(a, b kt) bool { return a.k < b.k }

// the same sorts on element types that are NOT comparable (a struct with a slice field; interface elements holding maps): the generic code admits
// them, and code that compares elements with == (through `any`) panics on them. The result must be the one of the comparable instantiation.
type ktNC struct {
	k, t int
	pad  []int
}

func sortNC(sorter func([]ktNC, func(a, b ktNC) bool), sorterAny func([]any, func(a, b any) bool), s []kt) ([]kt, []kt) {
	nc := make([]ktNC, len(s))
	av := make([]any, len(s))
	for i, x := range s {
		nc[i] = ktNC{x.k, x.t, []int{x.t}}
		av[i] = map[string]int{"k": x.k, "t": x.t}
	}
	sorter(nc, func(a, b ktNC) bool { return a.k < b.k })
	sorterAny(av, func(a, b any) bool { return a.(map[string]int)["k"] < b.(map[string]int)["k"] })
	o1, o2 := make([]kt, len(s)), make([]kt, len(s))
	for i := range nc {
		o1[i] = kt{nc[i].k, nc[i].t}
		m := av[i].(map[string]int)
		o2[i] = kt{m["k"], m["t"]}
	}
	return o1, o2
}

// stable sorts are deterministic: every instantiation must give the same result
func sameNC(ref []kt, o1, o2 []kt) string {
	want := fmtKT(ref)
	if fmtKT(o1) != want || fmtKT(o2) != want {
		return "instances-differ:" + want + "/" + fmtKT(o1) + "/" + fmtKT(o2)
	}
	return want
}

// unstable sorts: every instantiation must give the same key sequence (a sorted permutation has only one) over a permutation of the tags
func sameKeysNC(ref []kt, o1, o2 []kt) string {
	for _, o := range [][]kt{o1, o2} {
		seen := make(map[int]bool)
		for i := range ref {
			if o[i].k != ref[i].k || seen[o[i].t] || o[i].t < 0 || o[i].t >= len(ref) {
				return "instances-differ:" + fmtKT(ref) + "/" + fmtKT(o)
			}
			seen[o[i].t] = true
		}
	}
	return fmtKT(ref)
}

func (c15) step(t []string) string {
	switch t[0] {
	case "sort":
		s := parseInts(t[1])
		slices.Sort(s)
		return fmtInts(s)
	case "sortdesc":
		s := parseInts(t[1])
		slices.SortDesc(s)
		return fmtInts(s)
	case "sortfunc":
		s := tagged(parseInts(t[1]))
		slices.SortFunc(s, ktLess)
		o1, o2 := sortNC(slices.SortFunc[[]ktNC, ktNC], slices.SortFunc[[]any, any], tagged(parseInts(t[1])))
		return sameKeysNC(s, o1, o2)
	case "sortdescfunc":
		s := tagged(parseInts(t[1]))
		slices.SortDescFunc(s, ktLess)
		o1, o2 := sortNC(slices.SortDescFunc[[]ktNC, ktNC], slices.SortDescFunc[[]any, any], tagged(parseInts(t[1])))
		return sameKeysNC(s, o1, o2)
	case "sortstable":
		s := tagged(parseInts(t[1]))
		slices.SortStableFunc(s, ktLess)
		o1, o2 := sortNC(slices.SortStableFunc[[]ktNC, ktNC], slices.SortStableFunc[[]any, any], tagged(parseInts(t[1])))
		return sameNC(s, o1, o2)
	case "sortstabledesc":
		s := tagged(parseInts(t[1]))
		slices.SortStableDescFunc(s, ktLess)
		o1, o2 := sortNC(slices.SortStableDescFunc[[]ktNC, ktNC], slices.SortStableDescFunc[[]any, any], tagged(parseInts(t[1])))
		return sameNC(s, o1, o2)
	case "bsearch":
		return itoa(slices.BinarySearch(parseInts(t[1]), atoi(t[2])))
	case "bsearchunits":
		// BinarySearchFunc on a slice of n zero-size elements (no memory; lengths up to MaxInt are legal): less answers a constant
		need(t, 3)
		n := atoi(t[1])
		all := atoi(t[2]) != 0
		return itoa(slices.BinarySearchFunc(make([]struct{}, n), func(struct{}) bool { return all }))
	case "bsearchfunc":
		v := atoi(t[2])
		return itoa(slices.BinarySearchFunc(parseInts(t[1]), func(a int) bool { return a < v }))
	case "shuffle":
		s := parseInts(t[1])
		slices.Shuffle(s)
		return fmtInts(s)
	case "shufflerand":
		s := parseInts(t[1])
		seed := int64(atoi(t[2]))
		slices.ShuffleRand(s, rand.New(rand.NewSource(seed)))
		// record the swap stream of an identically seeded generator
		var swaps [][2]int
		rand.New(rand.NewSource(seed)).Shuffle(len(s), func(i, j int) { swaps = append(swaps, [2]int{i, j}) })
		// determinism: a second identically seeded call gives the same result
		s2 := parseInts(t[1])
		slices.ShuffleRand(s2, rand.New(rand.NewSource(seed)))
		if fmtInts(s) != fmtInts(s2) {
			return fmtInts(s) + " nondeterministic"
		}
		return fmtInts(s) + " " + fmtPairs(swaps)
	}
	return bad()
}
