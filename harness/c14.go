package main

import (
	"errors"
	"math"
	"sort"
	"strconv"

	"gopkg.in/typ.v4/maps"
	"gopkg.in/typ.v4/slices"
)

// C14: functional helpers with the shared callback families of PROTOCOL.md.
type c14 struct{}

func init() { register("C14", func() world { return c14{} }) }

func accF(s, v int) int             { return 31*s + v + 1 }
func predF(m, r int) func(int) bool { return func(v int) bool { return v%m == r } }
func keyF(m int) func(int) int      { return func(v int) int { return v % m } }

// eqF: the equals family shared with the judge (Drv/C14.lean): m > 0: a%m == b%m (symmetric); m == 0: "a is half of b"
// (NOT symmetric, so the argument order in which the helper calls equals is observable)
func eqF(m int) func(a, b int) bool {
	if m == 0 {
		return func(a, b int) bool { return 2*a == b }
	}
	return func(a, b int) bool { return a%m == b%m }
}

type posErr struct{ j int }

func (e posErr) Error() string { return "err:" + strconv.Itoa(e.j) }

func bump(s []int) {
	for i := range s {
		s[i] += 100
	}
}

func offsetOf(res, in []int) int {
	if len(res) == 0 {
		return -1
	}
	for i := range in {
		if &in[i] == &res[0] {
			return i
		}
	}
	return -2
}

func mapFromPairs(s string) map[int]int { return pairsToMap(s) }

func sortedMapPairs(m map[int]int) [][2]int {
	out := make([][2]int, 0, len(m))
	for k, v := range m {
		out = append(out, [2]int{k, v})
	}
	return sortPairs(out)
}

func (c14) step(t []string) string {
	switch t[0] {
	case "fold", "foldrev":
		// the accumulator also LOOKS at the input while the fold runs ("none of them modifies its input": not even temporarily)
		in := parseInts(t[1])
		snap := append([]int(nil), in...)
		during := ""
		acc := func(s, v int) int {
			for i := range in {
				if in[i] != snap[i] {
					during = " input-differs-during-the-call"
				}
			}
			return accF(s, v)
		}
		var r int
		if t[0] == "fold" {
			r = slices.Fold(in, atoi(t[2]), acc)
		} else {
			r = slices.FoldReverse(in, atoi(t[2]), acc)
		}
		return itoa(r) + " " + fmtInts(in) + during
	case "foldpanic", "foldrevpanic":
		// <list> <seed> <k>: the accumulator panics on its k-th call (k >= 1); the caller recovers: the input is what it was
		in := parseInts(t[1])
		k, calls := atoi(t[3]), 0
		acc := func(s, v int) int {
			calls++
			if calls == k {
				panic("acc-panics")
			}
			return accF(s, v)
		}
		res := func() (out string) {
			defer func() {
				if recover() != nil {
					out = "panic:custom"
				}
			}()
			if t[0] == "foldpanic" {
				return itoa(slices.Fold(in, atoi(t[2]), acc))
			}
			return itoa(slices.FoldReverse(in, atoi(t[2]), acc))
		}()
		return res + " " + fmtInts(in)
	case "map":
		in := parseInts(t[1])
		r := slices.Map(in, func(v int) int { return 2*v + 1 })
		out := fmtInts(r)
		bump(r)
		return out + " " + fmtInts(in)
	case "maperr":
		in := parseInts(t[1])
		j := atoi(t[2])
		pos := -1
		r, err := slices.MapErr(in, func(v int) (int, error) {
			pos++
			if pos == j {
				return 0, posErr{j}
			}
			return 2*v + 1, nil
		})
		if err != nil {
			var pe posErr
			if !errors.As(err, &pe) {
				return "[] err:? " + fmtInts(in)
			}
			if r != nil {
				return fmtInts(r) + " err-with-result " + fmtInts(in)
			}
			if pos != j { // "stops at the first error": the conversion is not called again after it failed
				return "[] " + err.Error() + "-then-" + itoa(pos-j) + "-more-calls " + fmtInts(in)
			}
			return "[] " + err.Error() + " " + fmtInts(in)
		}
		out := fmtInts(r)
		bump(r)
		return out + " ok " + fmtInts(in)
	case "filter":
		in := parseInts(t[1])
		r := slices.Filter(in, predF(atoi(t[2]), atoi(t[3])))
		out := fmtInts(r)
		bump(r)
		return out + " " + fmtInts(in)
	case "any":
		in := parseInts(t[1])
		return btoa(slices.Any(in, predF(atoi(t[2]), atoi(t[3])))) + " " + fmtInts(in)
	case "all":
		in := parseInts(t[1])
		return btoa(slices.All(in, predF(atoi(t[2]), atoi(t[3])))) + " " + fmtInts(in)
	case "indexfunc":
		in := parseInts(t[1])
		return itoa(slices.IndexFunc(in, predF(atoi(t[2]), atoi(t[3])))) + " " + fmtInts(in)
	case "index":
		in := parseInts(t[1])
		return itoa(slices.Index(in, atoi(t[2]))) + " " + fmtInts(in)
	case "contains":
		in := parseInts(t[1])
		return btoa(slices.Contains(in, atoi(t[2]))) + " " + fmtInts(in)
	case "containsfunc":
		in := parseInts(t[1])
		return btoa(slices.ContainsFunc(in, atoi(t[2]), eqF(atoi(t[3])))) + " " + fmtInts(in)
	case "distinct":
		in := parseInts(t[1])
		r := slices.Distinct(in)
		out := fmtInts(r)
		bump(r)
		return out + " " + fmtInts(in)
	case "distinctfunc":
		in := parseInts(t[1])
		r := slices.DistinctFunc(in, eqF(atoi(t[2])))
		out := fmtInts(r)
		bump(r)
		return out + " " + fmtInts(in)
	case "except":
		in := parseInts(t[1])
		ex := parseInts(t[2])
		r := slices.Except(in, ex)
		out := fmtInts(r)
		bump(r)
		return out + " " + fmtInts(in)
	case "exceptnan":
		// Except / ExceptSet over float64 where the value 7 stands for NaN (never equal to anything, itself included, under ==): a NaN is never
		// excluded, whatever the exclude list holds.  result: both results mapped back (NaN ↦ 7); they must agree
		conv := func(xs []int) []float64 {
			out := make([]float64, len(xs), len(xs)+2)
			for i, x := range xs {
				if x == 7 {
					out[i] = math.NaN()
				} else {
					out[i] = float64(x)
				}
			}
			return out
		}
		back := func(fs []float64) []int {
			out := []int{}
			for _, f := range fs {
				if f != f {
					out = append(out, 7)
				} else {
					out = append(out, int(f))
				}
			}
			return out
		}
		in, ex := conv(parseInts(t[1])), conv(parseInts(t[2]))
		a := fmtInts(back(slices.Except(in, ex)))
		b := fmtInts(back(slices.ExceptSet(in, maps.NewSetFromSlice(ex))))
		if a != b {
			return a + " exceptset-differs:" + b
		}
		return a
	case "exceptset":
		in := parseInts(t[1])
		r := slices.ExceptSet(in, maps.NewSetFromSlice(parseInts(t[2])))
		out := fmtInts(r)
		bump(r)
		return out + " " + fmtInts(in)
	case "groupby":
		in := parseInts(t[1])
		gs := slices.GroupBy(in, keyF(atoi(t[2])))
		out := "["
		for i, g := range gs {
			if i > 0 {
				out += ","
			}
			out += "[" + itoa(g.Key) + "," + fmtInts(g.Values) + "]"
		}
		out += "]"
		for _, g := range gs {
			bump(g.Values)
		}
		return out + " " + fmtInts(in)
	case "countby":
		in := parseInts(t[1])
		cs := slices.CountBy(in, keyF(atoi(t[2])))
		ps := make([][2]int, len(cs))
		for i, c := range cs {
			ps[i] = [2]int{c.Key, c.Count}
		}
		return fmtPairs(ps) + " " + fmtInts(in)
	case "trim", "trimleft", "trimright":
		in := parseInts(t[1])
		un := parseInts(t[2])
		var r []int
		switch t[0] {
		case "trim":
			r = slices.Trim(in, un)
		case "trimleft":
			r = slices.TrimLeft(in, un)
		default:
			r = slices.TrimRight(in, un)
		}
		return fmtInts(r) + " " + itoa(offsetOf(r, in))
	case "trimfunc", "trimleftfunc", "trimrightfunc":
		in := parseInts(t[1])
		p := predF(atoi(t[2]), atoi(t[3]))
		var r []int
		switch t[0] {
		case "trimfunc":
			r = slices.TrimFunc(in, p)
		case "trimleftfunc":
			r = slices.TrimLeftFunc(in, p)
		default:
			r = slices.TrimRightFunc(in, p)
		}
		return fmtInts(r) + " " + itoa(offsetOf(r, in))
	case "tryget":
		v, ok := slices.TryGet(parseInts(t[1]), atoi(t[2]))
		return itoa(v) + " " + btoa(ok)
	case "safeget":
		return itoa(slices.SafeGet(parseInts(t[1]), atoi(t[2])))
	case "safegetor":
		return itoa(slices.SafeGetOr(parseInts(t[1]), atoi(t[2]), atoi(t[3])))
	case "last":
		return itoa(slices.Last(parseInts(t[1])))
	case "mclonenil":
		// Clone of a nil map (the zero value of a map type): a NEW, writable map
		var m map[int]int
		c := maps.Clone(m)
		c[1] = 2
		return fmtPairs(sortedMapPairs(c)) + " " + itoa(len(m))
	case "mclone":
		m := mapFromPairs(t[1])
		c := maps.Clone(m)
		out := fmtPairs(sortedMapPairs(c))
		for k := range c {
			c[k] += 100
		}
		c[-1] = -1
		return out + " " + fmtPairs(sortedMapPairs(m))
	case "mclear":
		m := mapFromPairs(t[1])
		maps.Clear(m)
		return itoa(len(m))
	case "mkeys":
		ks := maps.Keys(mapFromPairs(t[1]))
		sort.Ints(ks)
		return fmtInts(ks)
	case "mvalues":
		vs := maps.Values(mapFromPairs(t[1]))
		sort.Ints(vs)
		return fmtInts(vs)
	case "mkeyof":
		k, ok := maps.KeyOf(mapFromPairs(t[1]), atoi(t[2]))
		return itoa(k) + " " + btoa(ok)
	case "mcontainsvalue":
		return btoa(maps.ContainsValue(mapFromPairs(t[1]), atoi(t[2])))
	case "mhaskey":
		return btoa(maps.HasKey(mapFromPairs(t[1]), atoi(t[2])))
	}
	return bad()
}
