// Command harness executes operation scripts (PROTOCOL.md) in-process against the real packages of
// /repo and echoes every line with the canonicalised observation appended.
package main

import (
	"bufio"
	"fmt"
	"os"
	"runtime/debug"
	"strings"
)

// world is the per-script state of one property; step executes one operation line.
type world interface {
	step(toks []string) string
}

var worlds = map[string]func() world{}

func register(id string, f func() world) { worlds[id] = f }

func main() {
	// a runaway recursion in the code under test (e.g. on a cyclic structure) should kill the process quickly
	debug.SetMaxStack(64 << 20)
	if len(os.Args) < 3 {
		fmt.Fprintln(os.Stderr, "usage: harness run <Cxx> | harness conc <Cxx> ...")
		os.Exit(2)
	}
	switch os.Args[1] {
	case "run":
		mk, ok := worlds[os.Args[2]]
		if !ok {
			fmt.Fprintln(os.Stderr, "unknown property", os.Args[2])
			os.Exit(2)
		}
		runScript(mk)
	default:
		if f, ok := commands[os.Args[1]]; ok {
			os.Exit(f(os.Args[2:]))
		}
		fmt.Fprintln(os.Stderr, "unknown command", os.Args[1])
		os.Exit(2)
	}
}

var commands = map[string]func(args []string) int{}

func runScript(mk func() world) {
	in := bufio.NewReaderSize(os.Stdin, 1<<20)
	out := bufio.NewWriterSize(os.Stdout, 1<<20)
	defer out.Flush()
	w := mk()
	for {
		line, err := in.ReadString('\n')
		line = strings.TrimSpace(line)
		if line != "" {
			switch {
			case line == "reset":
				w = mk()
				out.Flush() // everything before a script boundary is on disk if the next script kills the process
				out.WriteString("reset\n")
			case strings.HasPrefix(line, "#"):
				out.WriteString(line + "\n")
			default:
				toks := strings.Fields(line)
				res := safeStep(w, toks)
				out.WriteString(line + " => " + res + "\n")
			}
		}
		if err != nil {
			return
		}
	}
}

func safeStep(w world, toks []string) (res string) {
	defer func() {
		if r := recover(); r != nil {
			res = classifyPanic(r)
		}
	}()
	return w.step(toks)
}
