package main

import (
	"math"
	"math/big"
	"strconv"
	"unsafe"

	"gopkg.in/typ.v4"
)

// C20: numeric helpers at every integer width. Values cross the pipe as mathematical integers.
type c20 struct{}

func init() { register("C20", func() world { return c20{} }) }

func bigOf(s string) *big.Int {
	n, ok := new(big.Int).SetString(s, 10)
	if !ok {
		panic(badOp{})
	}
	return n
}

func bigList(s string) []*big.Int {
	if len(s) < 2 || s[0] != '[' || s[len(s)-1] != ']' {
		panic(badOp{})
	}
	body := s[1 : len(s)-1]
	var out []*big.Int
	start := 0
	for i := 0; i <= len(body); i++ {
		if i == len(body) || body[i] == ',' {
			if i > start {
				out = append(out, bigOf(body[start:i]))
			}
			start = i + 1
		}
	}
	return out
}

type integer interface {
	~int8 | ~int16 | ~int32 | ~int64 | ~uint8 | ~uint16 | ~uint32 | ~uint64
}

func conv[T integer](b *big.Int) T {
	if b.Sign() < 0 {
		return T(b.Int64())
	}
	return T(b.Uint64())
}

func str[T integer](v T, signed bool) string {
	if signed {
		return big.NewInt(int64(v)).String()
	}
	return new(big.Int).SetUint64(uint64(v)).String()
}

func convList[T integer](bs []*big.Int) []T {
	// spare capacity holding the extreme values of T behind the logical end (a variadic call `f(s...)` hands the function the caller's slice)
	out := make([]T, len(bs), len(bs)+2)
	for i, b := range bs {
		out[i] = conv[T](b)
	}
	tail := out[len(bs):cap(out)]
	var zero T
	tail[0] = ^zero // all ones: the maximum of an unsigned type, -1 of a signed one
	if zero-1 < zero {
		tail[0] = T(1) << (unsafe.Sizeof(zero)*8 - 2) // a large positive value of a signed type
		tail[1] = -tail[0] - tail[0]                  // its minimum
	}
	return out
}

func do20[T integer](t []string, signed bool) string {
	switch t[0] {
	case "digits10":
		return itoa(typ.Digits10(conv[T](bigOf(t[2]))))
	case "digitssign10":
		return itoa(typ.DigitsSign10(conv[T](bigOf(t[2]))))
	case "min":
		return str(typ.Min(convList[T](bigList(t[2]))...), signed)
	case "max":
		return str(typ.Max(convList[T](bigList(t[2]))...), signed)
	case "clamp":
		return str(typ.Clamp(conv[T](bigOf(t[2])), conv[T](bigOf(t[3])), conv[T](bigOf(t[4]))), signed)
	case "sum":
		return str(typ.Sum(convList[T](bigList(t[2]))...), signed)
	case "product":
		return str(typ.Product(convList[T](bigList(t[2]))...), signed)
	case "compare":
		return itoa(typ.Compare(conv[T](bigOf(t[2])), conv[T](bigOf(t[3]))))
	case "less":
		return btoa(typ.Less(conv[T](bigOf(t[2])), conv[T](bigOf(t[3]))))
	}
	return bad()
}

type signedInt interface {
	~int8 | ~int16 | ~int32 | ~int64
}

func doSigned[T signedInt](t []string) (string, bool) {
	switch t[0] {
	case "abs":
		b := bigOf(t[2])
		return big.NewInt(int64(typ.Abs(T(b.Int64())))).String(), true
	case "clamp01":
		b := bigOf(t[2])
		return big.NewInt(int64(typ.Clamp01(T(b.Int64())))).String(), true
	}
	return "", false
}

type unsignedInt interface {
	~uint8 | ~uint16 | ~uint32 | ~uint64
}

func doUnsigned[T unsignedInt](t []string) (string, bool) {
	if t[0] == "clamp01" {
		b := bigOf(t[2])
		return new(big.Int).SetUint64(uint64(typ.Clamp01(T(b.Uint64())))).String(), true
	}
	return "", false
}

func (c20) step(t []string) string {
	switch t[0] {
	case "coal":
		return itoa(typ.Coal(parseInts(t[1])...))
	case "coalm": // Coal over a comparable type WITH an IsZero method (even fields, or the sentinel 7): "non-zero" is Go's `!= zero value`
		var zs []zeroer
		var ss []sentinelZero
		for _, v := range parseInts(t[1]) {
			zs = append(zs, zeroer{v})
			ss = append(ss, sentinelZero{v})
		}
		a, b := typ.Coal(zs...).a, typ.Coal(ss...).a
		if a != b {
			return "instances-differ:" + itoa(a) + ":" + itoa(b)
		}
		return itoa(a)
	case "iszero":
		return btoa(typ.IsZero(atoi(t[1])))
	case "tern":
		return itoa(typ.Tern(atoi(t[1]) != 0, atoi(t[2]), atoi(t[3])))
	case "zero":
		return itoa(typ.Zero[int]())
	case "zeroof":
		return itoa(typ.ZeroOf(atoi(t[1])))
	case "iszerom": // a comparable type WITH an IsZero method (true for even fields)
		return btoa(typ.IsZero(zeroer{atoi(t[1])}))
	case "iszeros": // a comparable type whose IsZero method REJECTS the Go zero value (sentinel 7): the zero value is zero all the same
		return btoa(typ.IsZero(sentinelZero{atoi(t[1])}))
	case "terncast": // terncast <cond> <kind> <v> <ifFalse>: kind 0 = the dynamic type is int (assertion succeeds), 1 = it is string
		var value any = atoi(t[3])
		if atoi(t[2]) == 1 {
			value = "x"
		}
		return itoa(typ.TernCast(atoi(t[1]) != 0, value, atoi(t[4])))
	case "isnil": // 0 any(nil), 1 any(5), 2 error(nil), 3 a typed nil pointer inside an interface, 4 IsNil[*int](nil), 5 IsNil[[]int](nil), 6 a non-nil error
		switch atoi(t[1]) {
		case 0:
			return btoa(typ.IsNil[any](nil))
		case 1:
			return btoa(typ.IsNil[any](5))
		case 2:
			return btoa(typ.IsNil[error](nil))
		case 3:
			var p *int
			return btoa(typ.IsNil[any](p))
		case 4:
			return btoa(typ.IsNil[*int](nil))
		case 5:
			return btoa(typ.IsNil[[]int](nil))
		default:
			return btoa(typ.IsNil[error](badOp2{}))
		}
	case "ref": // ref <v>: *Ref(v), and a write through the pointer does not touch the argument
		v := atoi(t[1])
		p := typ.Ref(v)
		got := *p
		*p = got + 1
		return itoa(got) + " " + itoa(v)
	case "derefzero": // derefzero <isnil> <v>
		if atoi(t[1]) != 0 {
			return itoa(typ.DerefZero((*int)(nil)))
		}
		v := atoi(t[2])
		return itoa(typ.DerefZero(&v))
	}
	if len(t) < 3 {
		return bad()
	}
	switch t[1] {
	case "f64":
		// float64 operands cross the pipe as their IEEE-754 bit patterns (int64); the result likewise, NaN as "nan"
		bl := bigList(t[2])
		xs := make([]float64, 0, len(bl)+2)
		for _, b := range bl {
			xs = append(xs, math.Float64frombits(uint64(b.Int64())))
		}
		xs[len(xs):cap(xs)][0], xs[len(xs):cap(xs)][1] = math.Inf(1), math.NaN() // junk behind the logical end
		var r float64
		switch t[0] {
		case "sum":
			r = typ.Sum(xs...)
		case "product":
			r = typ.Product(xs...)
		default:
			return bad()
		}
		if r != r {
			return "nan"
		}
		return strconv.FormatInt(int64(math.Float64bits(r)), 10)
	case "i8":
		if r, ok := doSigned[int8](t); ok {
			return r
		}
		return do20[int8](t, true)
	case "i16":
		if r, ok := doSigned[int16](t); ok {
			return r
		}
		return do20[int16](t, true)
	case "i32":
		if r, ok := doSigned[int32](t); ok {
			return r
		}
		return do20[int32](t, true)
	case "i64":
		if r, ok := doSigned[int64](t); ok {
			return r
		}
		return do20[int64](t, true)
	case "u8":
		if r, ok := doUnsigned[uint8](t); ok {
			return r
		}
		return do20[uint8](t, false)
	case "u16":
		if r, ok := doUnsigned[uint16](t); ok {
			return r
		}
		return do20[uint16](t, false)
	case "u32":
		if r, ok := doUnsigned[uint32](t); ok {
			return r
		}
		return do20[uint32](t, false)
	case "u64":
		if r, ok := doUnsigned[uint64](t); ok {
			return r
		}
		return do20[uint64](t, false)
	}
	return bad()
}

// zeroer: a comparable type with an IsZero method (even fields count as zero)
type zeroer struct{ a int }

func (z zeroer) IsZero() bool { return z.a%2 == 0 }

type badOp2 struct{}

func (badOp2) Error() string { return "e" }

// sentinelZero: IsZero reports the sentinel 7, not the Go zero value
type sentinelZero struct{ a int }

func (z sentinelZero) IsZero() bool { return z.a == 7 }
