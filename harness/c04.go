package main

import "gopkg.in/typ.v4/sync2"

// C04 sequential: one sync2.Map[int,int] per world.
type c04 struct{ m *sync2.Map[int, int] }

func init() { register("C04", func() world { return &c04{m: &sync2.Map[int, int]{}} }) }

func (w *c04) step(t []string) string {
	switch t[0] {
	case "load":
		v, ok := w.m.Load(atoi(t[1]))
		return itoa(v) + " " + btoa(ok)
	case "store":
		w.m.Store(atoi(t[1]), atoi(t[2]))
		return "ok"
	case "loadorstore":
		v, l := w.m.LoadOrStore(atoi(t[1]), atoi(t[2]))
		return itoa(v) + " " + btoa(l)
	case "loadanddelete":
		v, l := w.m.LoadAndDelete(atoi(t[1]))
		return itoa(v) + " " + btoa(l)
	case "delete":
		w.m.Delete(atoi(t[1]))
		return "ok"
	case "range":
		n := atoi(t[1])
		out := [][2]int{}
		w.m.Range(func(k, v int) bool {
			out = append(out, [2]int{k, v})
			return !(n > 0 && len(out) >= n)
		})
		return fmtPairs(out)
	case "layout":
		l := w.m.VerifLayout()
		return fmtInts(l[:])
	}
	return bad()
}
