package main

import (
	"strings"

	"gopkg.in/typ.v4/arrays"
)

// C08: arrays.Array2D[int]
type c08 struct{ arrs map[int]arrays.Array2D[int] }

func init() { register("C08", func() world { return &c08{arrs: map[int]arrays.Array2D[int]{}} }) }

func (w *c08) get(s string) arrays.Array2D[int] {
	a, ok := w.arrs[atoi(s)]
	if !ok {
		panic(badOp{})
	}
	return a
}

func (w *c08) step(t []string) string {
	switch t[0] {
	case "new":
		need(t, 4)
		w.arrs[atoi(t[1])] = arrays.New2D[int](atoi(t[2]), atoi(t[3]))
		return "ok"
	case "filled":
		need(t, 5)
		w.arrs[atoi(t[1])] = arrays.New2DFilled(atoi(t[2]), atoi(t[3]), atoi(t[4]))
		return "ok"
	case "jagged":
		need(t, 5)
		w.arrs[atoi(t[1])] = arrays.New2DFromJagged(atoi(t[2]), atoi(t[3]), parseIntss(t[4]))
		return "ok"
	case "set":
		need(t, 5)
		w.get(t[1]).Set(atoi(t[2]), atoi(t[3]), atoi(t[4]))
		return "ok"
	case "get":
		need(t, 4)
		return itoa(w.get(t[1]).Get(atoi(t[2]), atoi(t[3])))
	case "row":
		need(t, 3)
		return fmtInts(w.get(t[1]).Row(atoi(t[2])))
	case "rowset":
		need(t, 5)
		w.get(t[1]).Row(atoi(t[2]))[atoi(t[3])] = atoi(t[4])
		return "ok"
	case "span":
		need(t, 5)
		return fmtInts(w.get(t[1]).RowSpan(atoi(t[2]), atoi(t[3]), atoi(t[4])))
	case "spanset":
		need(t, 7)
		w.get(t[1]).RowSpan(atoi(t[2]), atoi(t[3]), atoi(t[4]))[atoi(t[5])] = atoi(t[6])
		return "ok"
	case "fill":
		need(t, 7)
		w.get(t[1]).Fill(atoi(t[2]), atoi(t[3]), atoi(t[4]), atoi(t[5]), atoi(t[6]))
		return "ok"
	case "clone":
		need(t, 3)
		w.arrs[atoi(t[2])] = w.get(t[1]).Clone()
		return "ok"
	case "dims":
		a := w.get(t[1])
		return itoa(a.Width()) + " " + itoa(a.Height())
	case "cells":
		return reparse(w.get(t[1]).String())
	case "cellss":
		// the same grid instantiated with string cells ("s<v>"): String() goes through fmt, which is NOT parametric in the cell type
		a := w.get(t[1])
		b := arrays.New2D[string](a.Width(), a.Height())
		for y := 0; y < a.Height(); y++ {
			for x := 0; x < a.Width(); x++ {
				b.Set(x, y, "s"+itoa(a.Get(x, y)))
			}
		}
		return reparse(strings.ReplaceAll(b.String(), "s", ""))
	case "cellsf":
		// float cells: v + 0.5 prints as "<v>.5"
		a := w.get(t[1])
		b := arrays.New2D[float64](a.Width(), a.Height())
		for y := 0; y < a.Height(); y++ {
			for x := 0; x < a.Width(); x++ {
				b.Set(x, y, float64(a.Get(x, y))+0.5)
			}
		}
		return reparse(strings.ReplaceAll(b.String(), ".5", ""))
	}
	return bad()
}
