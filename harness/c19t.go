package main

import (
	"context"
	"runtime"
	"time"

	"gopkg.in/typ.v4/chans"
)

// C19: channel helpers.
type c19 struct{}

func init() { register("C19", func() world { return c19{} }) }

func ms(n int) time.Duration { return time.Duration(n) * time.Millisecond }

func mkCtx(kind int) (context.Context, context.CancelFunc) {
	ctx, cancel := context.WithCancel(context.Background())
	switch kind {
	case 1:
		cancel()
	case 2:
		time.AfterFunc(time.Millisecond, cancel)
	}
	return ctx, cancel
}

func (c19) step(t []string) string {
	if r, ok := c19queued(t); ok {
		return r
	}
	switch t[0] {
	case "sendtimeout", "sendcontext":
		need(t, 5)
		capacity, fill, arg, peer := atoi(t[1]), atoi(t[2]), atoi(t[3]), atoi(t[4])
		ch := mkChan(capacity, fill, false)
		peerGot := make(chan int, 1)
		if peer == 1 {
			go func() { peerGot <- <-ch }()
		}
		var ok bool
		if t[0] == "sendtimeout" {
			ok = chans.SendTimeout(ch, 99, ms(arg))
		} else {
			ctx, cancel := mkCtx(arg)
			ok = chans.SendContext(ctx, ch, 99)
			cancel()
		}
		got := []int{}
		if peer == 2 {
			go func() { peerGot <- <-ch }()
		}
		if peer != 0 {
			select {
			case v := <-peerGot:
				got = append(got, v)
			case <-time.After(200 * time.Millisecond):
				// the peer found nothing to receive; unblock it with a poison value that we then discount
				ch <- -1
				<-peerGot
			}
		}
		return btoa(ok) + " " + fmtInts(got) + " " + fmtInts(drain(ch))
	case "recvclose":
		// recvclose <cap> <tmo_ms> <rounds> <procs>: RecvTimeout on an EMPTY open channel that another goroutine closes at about the moment
		// the timer fires (both orders occur over the rounds). Whatever wins, nothing was ever sent: every round must give (0, false).
		// result: the number of rounds that returned something else, and the first such result
		need(t, 5)
		capacity, tmo, rounds, procs := atoi(t[1]), atoi(t[2]), atoi(t[3]), atoi(t[4])
		old := runtime.GOMAXPROCS(procs)
		defer runtime.GOMAXPROCS(old)
		bad, first := 0, "-"
		for i := 0; i < rounds; i++ {
			ch := make(chan int, capacity)
			d := time.Duration(tmo)*time.Millisecond + time.Duration(i%7-3)*20*time.Microsecond
			go func() { time.Sleep(d); close(ch) }()
			v, ok := chans.RecvTimeout(ch, ms(tmo))
			if v != 0 || ok {
				bad++
				if first == "-" {
					first = itoa(v) + ":" + btoa(ok)
				}
			}
		}
		return itoa(bad) + " " + first
	case "sendrace":
		// sendrace <mode> <tmo_us> <rounds> <procs>: SendTimeout whose hand-over lands at about the moment its timer fires.
		// mode 0: unbuffered channel, a receiver that starts receiving at tmo ± a few tens of µs; mode 1: a buffered channel with room and a
		// timeout of tmo NANOseconds (the timer may fire before the select is even polled).  Whatever wins, the result must be true exactly
		// when the value was handed over (seen by the receiver / sitting in the buffer).  result: number of bad rounds and the first one.
		need(t, 5)
		mode, tmo, rounds, procs := atoi(t[1]), atoi(t[2]), atoi(t[3]), atoi(t[4])
		old := runtime.GOMAXPROCS(procs)
		defer runtime.GOMAXPROCS(old)
		bad, first := 0, "-"
		note := func(i int, ok, handed bool) {
			if ok != handed {
				bad++
				if first == "-" {
					first = "round" + itoa(i) + ":returned=" + btoa(ok) + ":handed=" + btoa(handed)
				}
			}
		}
		if mode == 1 {
			ch := make(chan int, 4)
			for i := 0; i < rounds; i++ {
				before := len(ch)
				ok := chans.SendTimeout(ch, i, time.Duration(tmo+i%5))
				note(i, ok, len(ch) == before+1)
				if len(ch) == cap(ch) {
					drain(ch)
				}
			}
			return itoa(bad) + " " + first
		}
		for i := 0; i < rounds; i++ {
			ch := make(chan int)
			stop := make(chan struct{})
			got := make(chan bool, 1)
			d := time.Duration(tmo)*time.Microsecond + time.Duration(i%9-4)*10*time.Microsecond
			go func() {
				time.Sleep(d)
				select {
				case <-ch:
					got <- true
				case <-stop:
					got <- false
				}
			}()
			ok := chans.SendTimeout(ch, i, time.Duration(tmo)*time.Microsecond)
			if !ok {
				close(stop) // the helper said "not sent": the receiver may stop waiting (if it already has the value, that is the violation)
			}
			note(i, ok, <-got)
		}
		return itoa(bad) + " " + first
	case "recvtimeout", "recvcontext":
		need(t, 6)
		capacity, fill, closed, arg, peer := atoi(t[1]), atoi(t[2]), atoi(t[3]) != 0, atoi(t[4]), atoi(t[5])
		ch := mkChan(capacity, fill, closed)
		sent := make(chan struct{})
		if peer == 1 && !closed {
			go func() { ch <- 77; close(sent) }()
		}
		var v int
		var ok bool
		if t[0] == "recvtimeout" {
			v, ok = chans.RecvTimeout(ch, ms(arg))
		} else {
			ctx, cancel := mkCtx(arg)
			v, ok = chans.RecvContext[<-chan int](ctx, ch)
			cancel()
		}
		rem := []int{}
		if peer == 1 && !closed {
			// drain until the peer's send has completed
			done := false
			for !done {
				select {
				case x := <-ch:
					rem = append(rem, x)
				case <-sent:
					done = true
				}
			}
		}
		rem = append(rem, drain(ch)...)
		return itoa(v) + " " + btoa(ok) + " " + fmtInts(rem)
	}
	return bad()
}
