package main

// Event-level scenarios run natively (no controlled scheduler): `harness once|av|pool <seed> <n>`.
// Invocation events are stamped before the call and response events after it returns, from one atomic counter,
// so `resp(a) < inv(b)` in the printed order implies real-time precedence (DESIGN Appendix C).

import (
	"bufio"
	"fmt"
	"math"
	"math/rand"
	"os"
	"runtime"
	"sort"
	"strconv"
	"strings"
	"sync"
	"sync/atomic"
	"time"

	"gopkg.in/typ.v4/sync2"
)

func init() {
	commands["once"] = func(a []string) int { return nativeMain("once", a) }
	commands["kmunhash"] = func(a []string) int { return nativeMain("kmunhash", a) }
	commands["avtypes"] = func(a []string) int { return nativeMain("avtypes", a) }
	commands["avfirst"] = func(a []string) int { return nativeMain("avfirst", a) }
	commands["poolpc"] = func(a []string) int { return nativeMain("poolpc", a) }
	commands["kmstress"] = func(a []string) int { return nativeMain("kmstress", a) }
	commands["avstress"] = func(a []string) int { return nativeMain("avstress", a) }
	commands["poolstress"] = func(a []string) int { return nativeMain("poolstress", a) }
	commands["av"] = func(a []string) int { return nativeMain("av", a) }
	commands["pool"] = func(a []string) int { return nativeMain("pool", a) }
	commands["mapstress"] = func(a []string) int { return nativeMain("mapstress", a) }
	commands["setstress"] = func(a []string) int { return nativeMain("setstress", a) }
}

type event struct {
	stamp int64
	text  string
}

type recorder struct {
	clock int64
	mu    sync.Mutex
	evs   []event
}

func (r *recorder) log(format string, a ...interface{}) {
	st := atomic.AddInt64(&r.clock, 1)
	txt := fmt.Sprintf(format, a...)
	r.mu.Lock()
	r.evs = append(r.evs, event{st, txt})
	r.mu.Unlock()
}

func (r *recorder) lines() []string {
	sort.Slice(r.evs, func(i, j int) bool { return r.evs[i].stamp < r.evs[j].stamp })
	out := make([]string, len(r.evs))
	for i, e := range r.evs {
		out[i] = e.text
	}
	return out
}

// maxOverlap: over all calls of an `inv t …` / `res t …` event list, the largest number of invocations by OTHER goroutines inside one call's interval
func maxOverlap(lines []string) int {
	open := map[string]int{} // goroutine -> invocations of others seen since its own inv
	worst := 0
	for _, l := range lines {
		f := strings.Fields(l)
		if len(f) < 2 {
			continue
		}
		switch f[0] {
		case "inv":
			for t := range open {
				if t != f[1] {
					open[t]++
				}
			}
			open[f[1]] = 0
		case "res":
			if n, ok := open[f[1]]; ok {
				if n > worst {
					worst = n
				}
				delete(open, f[1])
			}
		}
	}
	return worst
}

func nativeMain(kind string, args []string) int {
	if len(args) < 2 {
		fmt.Fprintln(os.Stderr, "usage: harness once|av|pool <seed> <n>")
		return 2
	}
	seed, _ := strconv.ParseInt(args[0], 10, 64)
	n, _ := strconv.Atoi(args[1])
	r := rand.New(rand.NewSource(seed))
	w := bufio.NewWriterSize(os.Stdout, 1<<20)
	defer w.Flush()
	for i := 0; i < n; i++ {
		runtime.GOMAXPROCS([]int{1, 2, 8}[r.Intn(3)])
		var header, comment string
		var lines []string
		switch kind {
		case "once":
			header, comment, lines = onceScenario(r)
		case "av":
			header, comment, lines = avScenario(r)
		case "pool":
			header, comment, lines = poolScenario(r)
		case "avfirst":
			runtime.GOMAXPROCS(8)
			header, comment, lines = avFirst(r)
		case "avtypes":
			header, comment, lines = avTypes(r)
		case "kmunhash":
			header, comment, lines = kmUnhashable(r)
		case "poolpc":
			runtime.GOMAXPROCS(8)
			header, comment, lines = poolProdCons(r)
		case "kmstress":
			runtime.GOMAXPROCS(8)
			header, comment, lines = kmStress(r)
		case "avstress", "poolstress":
			// A goroutine descheduled inside one call while the others complete dozens of calls makes the number of candidate linearizations
			// (and the judge's state set) grow with every overlapped call. Such a run says little about the object and can take the judge minutes, so
			// a run in which one call overlaps more than 24 invocations of other goroutines is taken again (the least stalled of up to 8 runs is kept).
			// This is a choice of WHICH real executions are recorded; every recorded one is judged in full.
			runtime.GOMAXPROCS(8)
			best := -1
			for try := 0; try < 8; try++ {
				var h, c string
				var ls []string
				if kind == "avstress" {
					h, c, ls = avStress(r)
				} else {
					h, c, ls = poolStress(r)
				}
				if ov := maxOverlap(ls); best < 0 || ov < best {
					best, header, comment, lines = ov, h, fmt.Sprintf("%s overlap=%d", c, ov), ls
				}
				if best <= 24 {
					break
				}
			}
		case "mapstress":
			header, comment, lines = mapStress(r)
		case "setstress":
			header, comment, lines = setStress(r)
		}
		fmt.Fprintln(w, "reset")
		fmt.Fprintln(w, "# "+comment)
		fmt.Fprintln(w, header+" => ok")
		for _, l := range lines {
			fmt.Fprintln(w, l+" => ok")
		}
	}
	return 0
}

// ---------------------------------------------------------------------------------------------- C17

// numErr: an error carrying an int, for the instantiations of OnceN whose last result type is `error`
type numErr int

func (e numErr) Error() string { return "numErr" }

func toErr(x int) error {
	if x == 0 {
		return nil
	}
	return numErr(x)
}

func fromErr(e error) int {
	if e == nil {
		return 0
	}
	return int(e.(numErr))
}

func onceScenario(r *rand.Rand) (string, string, []string) {
	arity := 1 + r.Intn(3)
	early := 1 + r.Intn(8) // callers racing before completion
	late := r.Intn(4)      // callers arriving after completion
	waitFor := r.Intn(early + 1)
	errTyped := r.Intn(2) == 0 // instantiate the LAST result type with `error` (non-nil for most callers, nil for some)
	panicky := r.Intn(5) == 0  // every supplied function panics after it started (sync.Once semantics: the call still counts, results stay zero)
	nilLate := r.Intn(3) == 0  // some callers that arrive while the first invocation is running pass a nil function (it can never be invoked)
	var started int32
	rec := &recorder{}
	release := make(chan struct{})
	var called int32
	var o1 sync2.Once1[int]
	var o2 sync2.Once2[int, int]
	var o3 sync2.Once3[int, int, int]
	var e1 sync2.Once1[error]
	var e2 sync2.Once2[int, error]
	var e3 sync2.Once3[int, int, error]
	do := func(t int) {
		res := func() []int { // the values f_t returns: distinct per goroutine
			out := make([]int, arity)
			for i := range out {
				out[i] = 100*t + i + 1
			}
			if errTyped && t%3 == 2 {
				out[arity-1] = 0 // a nil error
			}
			return out
		}
		body := func() []int {
			atomic.StoreInt32(&started, 1)
			rec.log("fstart %d", t)
			<-release
			if panicky {
				rec.log("fpanic %d", t)
				panic("f panics")
			}
			v := res()
			rec.log("fend %d %s", t, fmtInts(v))
			return v
		}
		useNil := nilLate && t%2 == 1 && atomic.LoadInt32(&started) == 1 // only once somebody else is inside its function
		rec.log("call %d", t)
		atomic.AddInt32(&called, 1)
		var got []int
		defer func() {
			if x := recover(); x != nil && x != "f panics" {
				panic(x)
			}
		}()
		switch {
		case useNil && arity == 1 && !errTyped:
			got = []int{o1.Do(nil)}
		case useNil && arity == 2 && !errTyped:
			a, b := o2.Do(nil)
			got = []int{a, b}
		case useNil && arity == 3 && !errTyped:
			a, b, c := o3.Do(nil)
			got = []int{a, b, c}
		case useNil && arity == 1:
			got = []int{fromErr(e1.Do(nil))}
		case useNil && arity == 2:
			a, b := e2.Do(nil)
			got = []int{a, fromErr(b)}
		case useNil:
			a, b, c := e3.Do(nil)
			got = []int{a, b, fromErr(c)}
		case arity == 1 && !errTyped:
			a := o1.Do(func() int { v := body(); return v[0] })
			got = []int{a}
		case arity == 2 && !errTyped:
			a, b := o2.Do(func() (int, int) { v := body(); return v[0], v[1] })
			got = []int{a, b}
		case arity == 3 && !errTyped:
			a, b, c := o3.Do(func() (int, int, int) { v := body(); return v[0], v[1], v[2] })
			got = []int{a, b, c}
		case arity == 1:
			a := e1.Do(func() error { v := body(); return toErr(v[0]) })
			got = []int{fromErr(a)}
		case arity == 2:
			a, b := e2.Do(func() (int, error) { v := body(); return v[0], toErr(v[1]) })
			got = []int{a, fromErr(b)}
		default:
			a, b, c := e3.Do(func() (int, int, error) { v := body(); return v[0], v[1], toErr(v[2]) })
			got = []int{a, b, fromErr(c)}
		}
		rec.log("ret %d %s", t, fmtInts(got))
	}
	var wg sync.WaitGroup
	for t := 0; t < early; t++ {
		wg.Add(1)
		go func(t int) { defer wg.Done(); do(t) }(t)
		if r.Intn(3) == 0 {
			runtime.Gosched()
		}
	}
	// let `waitFor` callers arrive before the running function may finish
	deadline := time.Now().Add(200 * time.Millisecond)
	for int(atomic.LoadInt32(&called)) < waitFor && time.Now().Before(deadline) {
		runtime.Gosched()
	}
	if r.Intn(2) == 0 {
		time.Sleep(time.Duration(r.Intn(300)) * time.Microsecond)
	}
	close(release)
	wg.Wait()
	for t := early; t < early+late; t++ {
		do(t)
	}
	return fmt.Sprintf("once %d", arity), fmt.Sprintf("once arity=%d early=%d late=%d waitFor=%d errTyped=%v panicky=%v nilLate=%v", arity, early, late, waitFor, errTyped, panicky, nilLate), rec.lines()
}

// ---------------------------------------------------------------------------------------------- C18 AtomicValue

func avScenario(r *rand.Rand) (string, string, []string) {
	nw := 2 + r.Intn(3)
	nops := 2 + r.Intn(4)
	rec := &recorder{}
	var av sync2.AtomicValue[int]
	type op struct {
		kind string
		a, b int
	}
	progs := make([][]op, nw)
	for t := range progs {
		for j := 0; j < nops; j++ {
			switch r.Intn(7) {
			case 0, 1:
				progs[t] = append(progs[t], op{"load", 0, 0})
			case 2, 3:
				progs[t] = append(progs[t], op{"store", r.Intn(4), 0})
			case 4:
				progs[t] = append(progs[t], op{"swap", r.Intn(4), 0})
			default:
				progs[t] = append(progs[t], op{"cas", r.Intn(4), r.Intn(4)})
			}
		}
	}
	var wg sync.WaitGroup
	start := make(chan struct{})
	for t := 0; t < nw; t++ {
		wg.Add(1)
		go func(t int) {
			defer wg.Done()
			<-start
			for _, o := range progs[t] {
				switch o.kind {
				case "load":
					rec.log("inv %d load", t)
					v := av.Load()
					rec.log("res %d %d", t, v)
				case "store":
					rec.log("inv %d store %d", t, o.a)
					av.Store(o.a)
					rec.log("res %d done", t)
				case "swap":
					rec.log("inv %d swap %d", t, o.a)
					v := av.Swap(o.a)
					rec.log("res %d %d", t, v)
				case "cas":
					rec.log("inv %d cas %d %d", t, o.a, o.b)
					ok := av.CompareAndSwap(o.a, o.b)
					rec.log("res %d %s", t, btoa(ok))
				}
			}
		}(t)
	}
	close(start)
	wg.Wait()
	return "av", fmt.Sprintf("av workers=%d ops=%d", nw, nops), rec.lines()
}

// ---------------------------------------------------------------------------------------------- C18 high-contention runs

// fastLog: per-goroutine event buffers stamped by one shared atomic counter. Nothing but the two atomic adds sits between
// consecutive calls of the code under test, so that windows of a few instructions inside a non-atomic implementation
// (Load-then-Store, check-then-act) are actually hit by other goroutines; the text of the events is built afterwards.
type fastEv struct {
	stamp int64
	text  string
}

type fastLog struct {
	clock int64
	per   [][]fastEv
}

func newFastLog(n int) *fastLog { return &fastLog{per: make([][]fastEv, n)} }

func (f *fastLog) stamp() int64 { return atomic.AddInt64(&f.clock, 1) }

func (f *fastLog) lines() []string {
	var all []fastEv
	for _, p := range f.per {
		all = append(all, p...)
	}
	sort.Slice(all, func(i, j int) bool { return all[i].stamp < all[j].stamp })
	out := make([]string, len(all))
	for i, e := range all {
		out[i] = e.text
	}
	return out
}

// kmStress (C09): 3 goroutines lock / try-lock / unlock keys of one KeyedMutex natively — a few shared keys, a stream of never-seen keys
// (first uses insert into the embedded map while other keys are looked up lock-free) and ClearKey of keys nobody else uses
func kmStress(r *rand.Rand) (string, string, []string) {
	nw := 3
	nops := 40 + r.Intn(40)
	km := &sync2.KeyedMutex[int]{}
	fl := newFastLog(nw)
	type rec struct {
		inv, res int64
		op       string
		k        int
		out      string
	}
	recs := make([][]rec, nw)
	seeds := make([]int64, nw)
	for i := range seeds {
		seeds[i] = r.Int63()
	}
	var wg sync.WaitGroup
	start := make(chan struct{})
	for t := 0; t < nw; t++ {
		wg.Add(1)
		go func(t int) {
			defer wg.Done()
			lr := rand.New(rand.NewSource(seeds[t]))
			do := func(op string, k int, f func() string) {
				rc := rec{op: op, k: k}
				rc.inv = fl.stamp()
				rc.out = f()
				rc.res = fl.stamp()
				recs[t] = append(recs[t], rc)
			}
			<-start
			for j := 0; j < nops; j++ {
				switch c := lr.Intn(10); {
				case c < 4: // a shared key
					k := lr.Intn(2)
					do("lock", k, func() string { km.LockKey(k); return "done" })
					do("unlock", k, func() string { km.UnlockKey(k); return "done" })
				case c < 6:
					k := lr.Intn(2)
					ok := false
					do("trylock", k, func() string { ok = km.TryLockKey(k); return btoa(ok) })
					if ok {
						do("unlock", k, func() string { km.UnlockKey(k); return "done" })
					}
				case c < 9: // first use of a never-seen key (private to this goroutine)
					k := 1000*(t+1) + j
					do("lock", k, func() string { km.LockKey(k); return "done" })
					do("unlock", k, func() string { km.UnlockKey(k); return "done" })
				default: // ClearKey of a private key nobody holds or awaits
					k := 1000*(t+1) + lr.Intn(j+1)
					do("clear", k, func() string { km.ClearKey(k); return "done" })
				}
			}
		}(t)
	}
	close(start)
	wg.Wait()
	for t := range recs {
		for _, rc := range recs[t] {
			fl.per[t] = append(fl.per[t], fastEv{rc.inv, fmt.Sprintf("inv %d %s %d", t, rc.op, rc.k)}, fastEv{rc.res, fmt.Sprintf("res %d %s", t, rc.out)})
		}
	}
	return "km 0", fmt.Sprintf("kmstress workers=%d ops=%d", nw, nops), fl.lines()
}

// avStress: 3-4 goroutines hammer one AtomicValue with swaps / stores / CAS of globally unique values (plus loads)
func avStress(r *rand.Rand) (string, string, []string) {
	nw := 3 + r.Intn(2)
	nops := 150 + r.Intn(150)
	// one scenario in four is SHORT and starts on the never-stored register with mostly CompareAndSwap(0, v) / Store / Load, so that the empty-register
	// paths (CompareAndSwap on an empty value fails; the first Store racing a CompareAndSwap) are exercised in every such run, not once per long run
	small := r.Intn(4) == 0
	if small {
		nw = 2 + r.Intn(2)
		nops = 1 + r.Intn(3)
	}
	var av sync2.AtomicValue[int]
	fl := newFastLog(nw)
	type rec struct {
		inv, res int64
		kind     int
		a, b, v  int
		ok       bool
	}
	recs := make([][]rec, nw)
	kinds := make([][]int, nw)
	for t := range kinds {
		kinds[t] = make([]int, nops)
		for j := range kinds[t] {
			kinds[t][j] = r.Intn(10)
			if small {
				kinds[t][j] = []int{9, 9, 9, 7, 7, 6, 0}[r.Intn(7)]
			}
		}
		recs[t] = make([]rec, nops)
	}
	var wg sync.WaitGroup
	start := make(chan struct{})
	for t := 0; t < nw; t++ {
		wg.Add(1)
		go func(t int) {
			defer wg.Done()
			last := 0
			<-start
			for j := 0; j < nops; j++ {
				val := (t+1)*1000000 + j + 1
				rc := &recs[t][j]
				switch k := kinds[t][j]; {
				case k < 6:
					rc.kind, rc.a = 0, val
					rc.inv = fl.stamp()
					rc.v = av.Swap(val)
					rc.res = fl.stamp()
					last = rc.v
				case k < 7:
					rc.kind = 1
					rc.inv = fl.stamp()
					rc.v = av.Load()
					rc.res = fl.stamp()
					last = rc.v
				case k < 8:
					rc.kind, rc.a = 2, val
					rc.inv = fl.stamp()
					av.Store(val)
					rc.res = fl.stamp()
				default:
					rc.kind, rc.a, rc.b = 3, last, val
					rc.inv = fl.stamp()
					rc.ok = av.CompareAndSwap(last, val)
					rc.res = fl.stamp()
				}
			}
		}(t)
	}
	close(start)
	wg.Wait()
	for t := range recs {
		for _, rc := range recs[t] {
			switch rc.kind {
			case 0:
				fl.per[t] = append(fl.per[t], fastEv{rc.inv, fmt.Sprintf("inv %d swap %d", t, rc.a)}, fastEv{rc.res, fmt.Sprintf("res %d %d", t, rc.v)})
			case 1:
				fl.per[t] = append(fl.per[t], fastEv{rc.inv, fmt.Sprintf("inv %d load", t)}, fastEv{rc.res, fmt.Sprintf("res %d %d", t, rc.v)})
			case 2:
				fl.per[t] = append(fl.per[t], fastEv{rc.inv, fmt.Sprintf("inv %d store %d", t, rc.a)}, fastEv{rc.res, fmt.Sprintf("res %d done", t)})
			default:
				fl.per[t] = append(fl.per[t], fastEv{rc.inv, fmt.Sprintf("inv %d cas %d %d", t, rc.a, rc.b)}, fastEv{rc.res, fmt.Sprintf("res %d %s", t, btoa(rc.ok))})
			}
		}
	}
	return "av", fmt.Sprintf("avstress workers=%d ops=%d", nw, nops), fl.lines()
}

// avFirst: the FIRST operations on a fresh (never stored) AtomicValue, issued at the same instant by 2-3 goroutines behind a spin barrier
func avFirst(r *rand.Rand) (string, string, []string) {
	nw := 2 + r.Intn(2)
	var av sync2.AtomicValue[int]
	fl := newFastLog(nw)
	kinds := make([]int, nw)
	for i := range kinds {
		kinds[i] = r.Intn(7)
	}
	type rec struct {
		inv, res  int64
		text, out string
	}
	recs := make([]rec, nw)
	var ready int32
	var wg sync.WaitGroup
	for t := 0; t < nw; t++ {
		wg.Add(1)
		go func(t int) {
			defer wg.Done()
			val := 10 + t
			atomic.AddInt32(&ready, 1)
			for atomic.LoadInt32(&ready) < int32(nw) {
			}
			rc := &recs[t]
			switch kinds[t] {
			case 0, 1:
				rc.text = fmt.Sprintf("swap %d", val)
				rc.inv = fl.stamp()
				v := av.Swap(val)
				rc.res = fl.stamp()
				rc.out = itoa(v)
			case 2:
				rc.text = fmt.Sprintf("store %d", val)
				rc.inv = fl.stamp()
				av.Store(val)
				rc.res = fl.stamp()
				rc.out = "done"
			case 4, 5, 6:
				// CompareAndSwap on the (possibly still) empty register: expecting the zero value, or a value nobody stores - it must fail without effect
				old := 0
				if kinds[t] == 6 {
					old = 7
				}
				rc.text = fmt.Sprintf("cas %d %d", old, val)
				rc.inv = fl.stamp()
				ok := av.CompareAndSwap(old, val)
				rc.res = fl.stamp()
				rc.out = btoa(ok)
			default:
				rc.text = "load"
				rc.inv = fl.stamp()
				v := av.Load()
				rc.res = fl.stamp()
				rc.out = itoa(v)
			}
		}(t)
	}
	wg.Wait()
	// afterwards, sequentially: what is in the register now
	for t, rc := range recs {
		fl.per[t] = append(fl.per[t], fastEv{rc.inv, fmt.Sprintf("inv %d %s", t, rc.text)}, fastEv{rc.res, fmt.Sprintf("res %d %s", t, rc.out)})
	}
	i1 := fl.stamp()
	v := av.Load()
	i2 := fl.stamp()
	fl.per[0] = append(fl.per[0], fastEv{i1, "inv 0 load"}, fastEv{i2, fmt.Sprintf("res 0 %d", v)})
	return "av", fmt.Sprintf("avfirst workers=%d", nw), fl.lines()
}

// kmUnhashable (C09): a KeyedMutex/KeyedRWMutex over `any` keys is handed a key of an unhashable dynamic type (a slice): that call panics (Go's
// map semantics; recovered here) - and every OTHER key must remain usable afterwards: the trace holds only the calls on the ordinary keys
// (a call that does not return within 3 s is recorded as a failed try-lock of a free key).
func kmUnhashable(r *rand.Rand) (string, string, []string) {
	fl := newFastLog(1)
	var lines []fastEv
	ev := func(format string, a ...any) { lines = append(lines, fastEv{fl.stamp(), fmt.Sprintf(format, a...)}) }
	warm := r.Intn(3) // complete lock/unlock pairs on ordinary keys before the bad call
	rw := r.Intn(2) == 1
	km := &sync2.KeyedMutex[any]{}
	krw := &sync2.KeyedRWMutex[any]{}
	try := func(k int) bool {
		done := make(chan bool, 1)
		go func() {
			if rw {
				done <- krw.TryLockKey(k)
			} else {
				done <- km.TryLockKey(k)
			}
		}()
		select {
		case ok := <-done:
			return ok
		case <-time.After(3 * time.Second):
			return false
		}
	}
	unlock := func(k int) {
		if rw {
			krw.UnlockKey(k)
		} else {
			km.UnlockKey(k)
		}
	}
	use := func(k int) {
		ev("inv 0 trylock %d", k)
		ok := try(k)
		ev("res 0 %v", ok)
		if ok {
			ev("inv 0 unlock %d", k)
			unlock(k)
			ev("res 0 done")
		}
	}
	for i := 0; i < warm; i++ {
		use(i)
	}
	func() {
		defer func() { recover() }()
		bad := any([]int{1, 2})
		switch r.Intn(3) {
		case 0:
			if rw {
				krw.LockKey(bad)
			} else {
				km.LockKey(bad)
			}
		case 1:
			if rw {
				krw.TryLockKey(bad)
			} else {
				km.TryLockKey(bad)
			}
		default:
			if rw {
				krw.ClearKey(bad)
			} else {
				km.ClearKey(bad)
			}
		}
	}()
	for i := 0; i < 3; i++ {
		use(10 + i%2)
	}
	fl.per[0] = lines
	hdr := "km 0"
	if rw {
		hdr = "km 1"
	}
	return hdr, fmt.Sprintf("kmunhashable warm=%d rw=%v", warm, rw), fl.lines()
}

// avTypes: one goroutine, store / swap / load on AtomicValue[T] for T other than int, where DIFFERENT values compare equal with == (+0 and -0 in a
// float64, or in a struct with a float field) or the values are strings; values are reported by an injective code, so the register judged is over ints
func avTypes(r *rand.Rand) (string, string, []string) {
	fl := newFastLog(1)
	var lines []fastEv
	ev := func(format string, a ...any) { lines = append(lines, fastEv{fl.stamp(), fmt.Sprintf(format, a...)}) }
	nops := 4 + r.Intn(8)
	kind := r.Intn(3)
	switch kind {
	case 0:
		vals := []float64{0, math.Copysign(0, -1), 1.5, -1.5}
		code := func(f float64) int {
			switch {
			case f == 0 && !math.Signbit(f):
				return 0
			case f == 0:
				return 101
			case f > 0:
				return 102
			}
			return 103
		}
		var av sync2.AtomicValue[float64]
		for i := 0; i < nops; i++ {
			v := vals[r.Intn(len(vals))]
			switch r.Intn(4) {
			case 0:
				ev("inv 0 store %d", code(v))
				av.Store(v)
				ev("res 0 done")
			case 1, 2:
				ev("inv 0 swap %d", code(v))
				old := av.Swap(v)
				ev("res 0 %d", code(old))
			default:
				ev("inv 0 load")
				ev("res 0 %d", code(av.Load()))
			}
		}
	case 1:
		type rec struct {
			f float64
			n int
		}
		vals := []rec{{0, 0}, {math.Copysign(0, -1), 0}, {0, 1}, {math.Copysign(0, -1), 1}}
		code := func(x rec) int {
			c := 2 * x.n
			if math.Signbit(x.f) {
				c++
			}
			if c == 0 {
				return 0
			}
			return 100 + c
		}
		var av sync2.AtomicValue[rec]
		for i := 0; i < nops; i++ {
			v := vals[r.Intn(len(vals))]
			switch r.Intn(4) {
			case 0:
				ev("inv 0 store %d", code(v))
				av.Store(v)
				ev("res 0 done")
			case 1, 2:
				ev("inv 0 swap %d", code(v))
				old := av.Swap(v)
				ev("res 0 %d", code(old))
			default:
				ev("inv 0 load")
				ev("res 0 %d", code(av.Load()))
			}
		}
	default:
		vals := []string{"", "a", "b", "ab"}
		code := func(x string) int {
			for i, v := range vals {
				if v == x {
					if i == 0 {
						return 0
					}
					return 100 + i
				}
			}
			return -1
		}
		var av sync2.AtomicValue[string]
		for i := 0; i < nops; i++ {
			v := vals[r.Intn(len(vals))]
			switch r.Intn(5) {
			case 0:
				ev("inv 0 store %d", code(v))
				av.Store(v)
				ev("res 0 done")
			case 1, 2:
				ev("inv 0 swap %d", code(v))
				old := av.Swap(v)
				ev("res 0 %d", code(old))
			case 3:
				w := vals[r.Intn(len(vals))]
				ev("inv 0 cas %d %d", code(v), code(w))
				ev("res 0 %v", av.CompareAndSwap(v, w))
			default:
				ev("inv 0 load")
				ev("res 0 %d", code(av.Load()))
			}
		}
	}
	fl.per[0] = lines
	return "av", fmt.Sprintf("avtypes kind=%d ops=%d", kind, nops), fl.lines()
}

// poolProdCons: producers Put fresh items (each exactly once), consumers Get and KEEP what they get: no item may come out twice
func poolProdCons(r *rand.Rand) (string, string, []string) {
	np, nc := 2, 2
	nops := 150 + r.Intn(150)
	p := &sync2.Pool[*poolItem]{}
	fl := newFastLog(np + nc)
	type rec struct {
		inv, res int64
		id       int
	}
	recs := make([][]rec, np+nc)
	var wg sync.WaitGroup
	start := make(chan struct{})
	for t := 0; t < np; t++ {
		wg.Add(1)
		go func(t int) {
			defer wg.Done()
			<-start
			for j := 0; j < nops; j++ {
				it := &poolItem{id: 1 + t*nops + j} // script-made ids 1..999
				rc := rec{id: it.id}
				rc.inv = fl.stamp()
				p.Put(it)
				rc.res = fl.stamp()
				recs[t] = append(recs[t], rc)
			}
		}(t)
	}
	for t := np; t < np+nc; t++ {
		wg.Add(1)
		go func(t int) {
			defer wg.Done()
			<-start
			for j := 0; j < nops; j++ {
				var rc rec
				rc.inv = fl.stamp()
				it := p.Get()
				rc.res = fl.stamp()
				if it != nil {
					rc.id = it.id
				}
				recs[t] = append(recs[t], rc)
			}
		}(t)
	}
	close(start)
	wg.Wait()
	for t := range recs {
		for _, rc := range recs[t] {
			if t < np {
				fl.per[t] = append(fl.per[t], fastEv{rc.inv, fmt.Sprintf("inv %d put %d", t, rc.id)}, fastEv{rc.res, fmt.Sprintf("res %d done", t)})
			} else {
				fl.per[t] = append(fl.per[t], fastEv{rc.inv, fmt.Sprintf("inv %d get", t)}, fastEv{rc.res, fmt.Sprintf("res %d %d", t, rc.id)})
			}
		}
	}
	return "pool 0 trace", fmt.Sprintf("poolpc producers=%d consumers=%d ops=%d", np, nc, nops), fl.lines()
}

// poolStress: 3-4 goroutines loop Get / Put of the item just obtained on one Pool with New
func poolStress(r *rand.Rand) (string, string, []string) {
	nw := 3 + r.Intn(2)
	nops := 120 + r.Intn(120)
	var fresh int64 = 999
	p := &sync2.Pool[*poolItem]{}
	p.New = func() *poolItem { return &poolItem{id: int(atomic.AddInt64(&fresh, 1))} }
	fl := newFastLog(nw)
	type rec struct {
		ginv, gres, pinv, pres int64
		id                     int
	}
	recs := make([][]rec, nw)
	for t := range recs {
		recs[t] = make([]rec, nops)
	}
	var wg sync.WaitGroup
	start := make(chan struct{})
	for t := 0; t < nw; t++ {
		wg.Add(1)
		go func(t int) {
			defer wg.Done()
			<-start
			for j := 0; j < nops; j++ {
				rc := &recs[t][j]
				rc.ginv = fl.stamp()
				it := p.Get()
				rc.gres = fl.stamp()
				rc.id = it.id
				rc.pinv = fl.stamp()
				p.Put(it)
				rc.pres = fl.stamp()
			}
		}(t)
	}
	close(start)
	wg.Wait()
	for t := range recs {
		for _, rc := range recs[t] {
			fl.per[t] = append(fl.per[t], fastEv{rc.ginv, fmt.Sprintf("inv %d get", t)}, fastEv{rc.gres, fmt.Sprintf("res %d %d", t, rc.id)},
				fastEv{rc.pinv, fmt.Sprintf("inv %d put %d", t, rc.id)}, fastEv{rc.pres, fmt.Sprintf("res %d done", t)})
		}
	}
	return "pool 1", fmt.Sprintf("poolstress workers=%d ops=%d", nw, nops), fl.lines()
}

// ---------------------------------------------------------------------------------------------- C18 Pool

type poolItem struct{ id int }

func poolScenario(r *rand.Rand) (string, string, []string) {
	hasNew := r.Intn(4) != 0
	nw := 2 + r.Intn(3)
	nops := 2 + r.Intn(5)
	rec := &recorder{}
	var fresh int64 = 999
	p := &sync2.Pool[*poolItem]{}
	if hasNew {
		p.New = func() *poolItem { return &poolItem{id: int(atomic.AddInt64(&fresh, 1))} }
	}
	var scriptID int64
	var wg sync.WaitGroup
	start := make(chan struct{})
	seeds := make([]int64, nw)
	for i := range seeds {
		seeds[i] = r.Int63()
	}
	for t := 0; t < nw; t++ {
		wg.Add(1)
		go func(t int) {
			defer wg.Done()
			lr := rand.New(rand.NewSource(seeds[t]))
			var held []*poolItem
			<-start
			for j := 0; j < nops; j++ {
				c := lr.Intn(5)
				switch {
				case c <= 1 || (c == 2 && len(held) == 0 && !(lr.Intn(2) == 0)):
					rec.log("inv %d get", t)
					it := p.Get()
					if it == nil {
						rec.log("res %d 0", t)
					} else {
						rec.log("res %d %d", t, it.id)
						held = append(held, it)
					}
				case len(held) > 0:
					it := held[len(held)-1]
					held = held[:len(held)-1]
					rec.log("inv %d put %d", t, it.id)
					p.Put(it)
					rec.log("res %d done", t)
				default:
					it := &poolItem{id: int(atomic.AddInt64(&scriptID, 1))}
					rec.log("inv %d put %d", t, it.id)
					p.Put(it)
					rec.log("res %d done", t)
				}
			}
		}(t)
	}
	close(start)
	wg.Wait()
	h := 0
	if hasNew {
		h = 1
	}
	return fmt.Sprintf("pool %d", h), fmt.Sprintf("pool hasnew=%d workers=%d ops=%d", h, nw, nops), rec.lines()
}

// ---------------------------------------------------------------------------------------------- C04 / C05 native histories

func mapStress(r *rand.Rand) (string, string, []string) {
	nw := 2 + r.Intn(3)
	nops := 3 + r.Intn(4)
	keys := 1 + r.Intn(3)
	rec := &recorder{}
	m := &sync2.Map[int, int]{}
	// age the map sequentially so that promoted / amended / expunged layouts occur
	for j, n := 0, r.Intn(6); j < n; j++ {
		k := r.Intn(keys + 1)
		switch r.Intn(3) {
		case 0:
			rec.log("inv 0 store %d %d", k, 100+j)
			m.Store(k, 100+j)
			rec.log("res 0 done")
		case 1:
			rec.log("inv 0 load %d", k)
			v, ok := m.Load(k)
			rec.log("res 0 %d %s", v, btoa(ok))
		default:
			rec.log("inv 0 delete %d", k)
			m.Delete(k)
			rec.log("res 0 done")
		}
	}
	seeds := make([]int64, nw)
	for i := range seeds {
		seeds[i] = r.Int63()
	}
	var wg sync.WaitGroup
	start := make(chan struct{})
	for t := 0; t < nw; t++ {
		wg.Add(1)
		go func(t int) {
			defer wg.Done()
			lr := rand.New(rand.NewSource(seeds[t]))
			<-start
			for j := 0; j < nops; j++ {
				k := lr.Intn(keys)
				v := 10*t + j + 1
				switch lr.Intn(8) {
				case 0, 1:
					rec.log("inv %d store %d %d", t, k, v)
					m.Store(k, v)
					rec.log("res %d done", t)
				case 2, 3:
					rec.log("inv %d load %d", t, k)
					x, ok := m.Load(k)
					rec.log("res %d %d %s", t, x, btoa(ok))
				case 4:
					rec.log("inv %d loadorstore %d %d", t, k, v)
					x, l := m.LoadOrStore(k, v)
					rec.log("res %d %d %s", t, x, btoa(l))
				case 5:
					rec.log("inv %d loadanddelete %d", t, k)
					x, l := m.LoadAndDelete(k)
					rec.log("res %d %d %s", t, x, btoa(l))
				case 6:
					rec.log("inv %d delete %d", t, k)
					m.Delete(k)
					rec.log("res %d done", t)
				default:
					rec.log("inv %d range", t)
					out := [][2]int{}
					m.Range(func(k, v int) bool { out = append(out, [2]int{k, v}); return true })
					rec.log("res %d %s", t, fmtPairs(out))
				}
			}
		}(t)
	}
	close(start)
	wg.Wait()
	return "cmap", fmt.Sprintf("native map workers=%d ops=%d keys=%d", nw, nops, keys), rec.lines()
}

func setStress(r *rand.Rand) (string, string, []string) {
	nw := 2 + r.Intn(5)
	nops := 3 + r.Intn(4)
	vals := 1 + r.Intn(3)
	rec := &recorder{}
	s := &sync2.Set[int]{}
	seeds := make([]int64, 8)
	for i := range seeds {
		seeds[i] = r.Int63()
	}
	// one scenario in six works on a LARGE set (more members than any small-map threshold: 65..300), filled and promoted by goroutine 0 before
	// the others start; the workers then also remove / re-add a few of the old members and add fresh ones (which rebuilds the dirty map)
	big := 0
	if r.Intn(6) == 0 {
		big = []int{65, 66, 70, 100, 130, 257, 300}[r.Intn(7)]
		nw = 1 + r.Intn(3)
		nops = 6 + r.Intn(6)
		for v := 0; v < big; v++ {
			rec.log("inv 0 add %d", 1000+v)
			ok := s.Add(1000 + v)
			rec.log("res 0 %s", btoa(ok))
		}
		rec.log("inv 0 len")
		n0 := s.Len()
		rec.log("res 0 %d", n0)
	}
	var fresh int64 = 2000
	var wg sync.WaitGroup
	start := make(chan struct{})
	for t := 0; t < nw; t++ {
		wg.Add(1)
		go func(t int) {
			defer wg.Done()
			lr := rand.New(rand.NewSource(seeds[t]))
			<-start
			for j := 0; j < nops; j++ {
				v := lr.Intn(vals)
				if big > 0 {
					switch k := lr.Intn(10); {
					case k < 4:
						v = 1000 + lr.Intn(2) // an old member
					case k < 6:
						v = int(atomic.AddInt64(&fresh, 1)) // a value never seen: the Add goes through the dirty map
						rec.log("inv %d add %d", t, v)
						ok := s.Add(v)
						rec.log("res %d %s", t, btoa(ok))
						continue
					}
				}
				switch lr.Intn(7) {
				case 0, 1, 2:
					rec.log("inv %d add %d", t, v)
					ok := s.Add(v)
					rec.log("res %d %s", t, btoa(ok))
				case 3, 4:
					rec.log("inv %d remove %d", t, v)
					ok := s.Remove(v)
					rec.log("res %d %s", t, btoa(ok))
				case 5:
					rec.log("inv %d has %d", t, v)
					ok := s.Has(v)
					rec.log("res %d %s", t, btoa(ok))
				default:
					rec.log("inv %d len", t)
					n := s.Len()
					rec.log("res %d %d", t, n)
				}
			}
		}(t)
	}
	close(start)
	wg.Wait()
	if big > 0 {
		// closing observations by goroutine 0: Len (promotes), then the two contended old members and Len again
		for _, v := range []int{-1, 1000, 1001, -1} {
			if v < 0 {
				rec.log("inv 0 len")
				n := s.Len()
				rec.log("res 0 %d", n)
			} else {
				rec.log("inv 0 has %d", v)
				ok := s.Has(v)
				rec.log("res 0 %s", btoa(ok))
			}
		}
	}
	return "cset", fmt.Sprintf("native set workers=%d ops=%d values=%d big=%d", nw, nops, vals, big), rec.lines()
}
