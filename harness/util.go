package main

import (
	"fmt"
	"runtime"
	"sort"
	"strconv"
	"strings"
)

func classifyPanic(r interface{}) string {
	switch e := r.(type) {
	case runtime.Error:
		msg := e.Error()
		switch {
		case strings.Contains(msg, "out of range"):
			return "panic:bounds"
		case strings.Contains(msg, "nil pointer") || strings.Contains(msg, "invalid memory address"):
			return "panic:nilfunc"
		case strings.Contains(msg, "divide by zero"):
			return "panic:divzero"
		}
		return "panic:other"
	case string:
		return "panic:custom"
	case badOp:
		return "bad-op"
	}
	return "panic:other"
}

type badOp struct{}

func bad() string { panic(badOp{}) }

func atoi(s string) int {
	n, err := strconv.Atoi(s)
	if err != nil {
		panic(badOp{})
	}
	return n
}

func itoa(n int) string { return strconv.Itoa(n) }

func btoa(b bool) string {
	if b {
		return "true"
	}
	return "false"
}

// val is a parsed token: an int or a list.
type val struct {
	isList bool
	n      int
	l      []val
}

func parseVal(s string) val {
	v, rest := parseValAt(s)
	if rest != "" {
		panic(badOp{})
	}
	return v
}

func parseValAt(s string) (val, string) {
	if s == "" {
		panic(badOp{})
	}
	if s[0] == '[' {
		s = s[1:]
		var items []val
		for {
			if s == "" {
				panic(badOp{})
			}
			if s[0] == ']' {
				return val{isList: true, l: items}, s[1:]
			}
			if s[0] == ',' {
				s = s[1:]
				continue
			}
			var v val
			v, s = parseValAt(s)
			items = append(items, v)
		}
	}
	i := 0
	for i < len(s) && (s[i] == '-' || (s[i] >= '0' && s[i] <= '9')) {
		i++
	}
	n, err := strconv.Atoi(s[:i])
	if err != nil {
		panic(badOp{})
	}
	return val{n: n}, s[i:]
}

func parseInts(s string) []int {
	v := parseVal(s)
	if !v.isList {
		panic(badOp{})
	}
	// every input slice has SPARE CAPACITY holding junk (9001, 9002, 9003): code that confuses len with cap, or reads past the logical end,
	// shows up as a wrong result instead of going unnoticed (a caller's `buf[:n]` is the normal case, not the exception)
	out := make([]int, 0, len(v.l)+3)
	for _, x := range v.l {
		if x.isList {
			panic(badOp{})
		}
		out = append(out, x.n)
	}
	for i, tail := 0, out[len(out):cap(out)]; i < len(tail); i++ {
		tail[i] = 9001 + i
	}
	return out
}

func parseIntss(s string) [][]int {
	v := parseVal(s)
	if !v.isList {
		panic(badOp{})
	}
	out := make([][]int, 0, len(v.l))
	for _, x := range v.l {
		if !x.isList {
			panic(badOp{})
		}
		row := make([]int, 0, len(x.l)+2)
		for _, y := range x.l {
			row = append(row, y.n)
		}
		for i, tail := 0, row[len(row):cap(row)]; i < len(tail); i++ {
			tail[i] = 9101 + i
		}
		out = append(out, row)
	}
	return out
}

func fmtInts(xs []int) string {
	var sb strings.Builder
	sb.WriteByte('[')
	for i, x := range xs {
		if i > 0 {
			sb.WriteByte(',')
		}
		sb.WriteString(strconv.Itoa(x))
	}
	sb.WriteByte(']')
	return sb.String()
}

func fmtIntss(xss [][]int) string {
	var sb strings.Builder
	sb.WriteByte('[')
	for i, xs := range xss {
		if i > 0 {
			sb.WriteByte(',')
		}
		sb.WriteString(fmtInts(xs))
	}
	sb.WriteByte(']')
	return sb.String()
}

func fmtPairs(ps [][2]int) string {
	xss := make([][]int, len(ps))
	for i, p := range ps {
		xss[i] = []int{p[0], p[1]}
	}
	return fmtIntss(xss)
}

func sortedInts(xs []int) []int {
	out := append([]int(nil), xs...)
	sort.Ints(out)
	return out
}

func sortPairs(ps [][2]int) [][2]int {
	out := append([][2]int(nil), ps...)
	sort.Slice(out, func(i, j int) bool {
		if out[i][0] != out[j][0] {
			return out[i][0] < out[j][0]
		}
		return out[i][1] < out[j][1]
	})
	return out
}

// reparse turns fmt.Sprint output such as "[1 2 3]", "{1 2}", "[[1 2] [3 4]]" into protocol list syntax.
func reparse(s string) string {
	s = strings.ReplaceAll(s, "{", "[")
	s = strings.ReplaceAll(s, "}", "]")
	s = strings.ReplaceAll(s, " ", ",")
	return s
}

func need(toks []string, n int) {
	if len(toks) != n {
		panic(badOp{})
	}
}

var _ = fmt.Sprint
