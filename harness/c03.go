package main

import (
	"strconv"
	"strings"

	"gopkg.in/typ.v4/maps"
	"gopkg.in/typ.v4/sets"
	"gopkg.in/typ.v4/sync2"
)

// C03: sets in both implementations.
type c03 struct {
	sets  map[int]sets.Set[int]
	kinds map[int]int
}

func init() {
	register("C03", func() world { return &c03{sets: map[int]sets.Set[int]{}, kinds: map[int]int{}} })
}

func (w *c03) get(s string) sets.Set[int] {
	x, ok := w.sets[atoi(s)]
	if !ok {
		panic(badOp{})
	}
	return x
}

func kindOf(s sets.Set[int]) int {
	if _, ok := s.(*sync2.Set[int]); ok {
		return 1
	}
	return 0
}

func (w *c03) put(h int, s sets.Set[int]) string {
	w.sets[h] = s
	w.kinds[h] = kindOf(s)
	return "ok"
}

func pairsToMap(s string) map[int]int {
	m := map[int]int{}
	for _, p := range parseIntss(s) {
		if len(p) != 2 {
			panic(badOp{})
		}
		m[p[0]] = p[1]
	}
	return m
}

func (w *c03) step(t []string) string {
	switch t[0] {
	case "new":
		need(t, 3)
		switch atoi(t[2]) {
		case 0:
			return w.put(atoi(t[1]), make(maps.Set[int]))
		case 2: // the zero value of maps.Set: a nil map (readable, usable as receiver of the non-mutating methods and as argument)
			var zero maps.Set[int]
			return w.put(atoi(t[1]), zero)
		}
		return w.put(atoi(t[1]), &sync2.Set[int]{})
	case "fromslice":
		need(t, 4)
		if atoi(t[2]) == 0 {
			return w.put(atoi(t[1]), maps.NewSetFromSlice(parseInts(t[3])))
		}
		return w.put(atoi(t[1]), sync2.NewSetFromSlice(parseInts(t[3])))
	case "fromkeys":
		need(t, 4)
		if atoi(t[2]) == 0 {
			return w.put(atoi(t[1]), maps.NewSetFromKeys(pairsToMap(t[3])))
		}
		return w.put(atoi(t[1]), sync2.NewSetFromKeys(pairsToMap(t[3])))
	case "fromvalues":
		need(t, 4)
		if atoi(t[2]) == 0 {
			return w.put(atoi(t[1]), maps.NewSetFromValues(pairsToMap(t[3])))
		}
		return w.put(atoi(t[1]), sync2.NewSetFromValues(pairsToMap(t[3])))
	case "add":
		return btoa(w.get(t[1]).Add(atoi(t[2])))
	case "remove":
		return btoa(w.get(t[1]).Remove(atoi(t[2])))
	case "has":
		return btoa(w.get(t[1]).Has(atoi(t[2])))
	case "len":
		return itoa(w.get(t[1]).Len())
	case "slice":
		return fmtInts(sortedInts(w.get(t[1]).Slice()))
	case "string":
		return fmtInts(sortedInts(parseInts(reparse(w.get(t[1]).String()))))
	case "stringx":
		// String() of a set of STRINGS that look like list syntax: member i is rendered through `memberNames`, the set is rebuilt with the same
		// implementation, and its String() is parsed back ("{" members separated by one space "}"); unknown tokens come back as -1
		src := w.get(t[1])
		var xs sets.Set[string]
		if kindOf(src) == 1 {
			xs = &sync2.Set[string]{}
		} else {
			xs = make(maps.Set[string])
		}
		src.Range(func(v int) bool { xs.Add(memberName(v)); return true })
		str := xs.String()
		if len(str) < 2 || str[0] != '{' || str[len(str)-1] != '}' {
			return "[-2]"
		}
		out := []int{}
		if body := str[1 : len(str)-1]; body != "" || xs.Len() == 1 {
			// (a set whose only member prints as "" renders as "{}": one empty token)
			for _, tok := range strings.Split(body, " ") {
				out = append(out, memberIndex(tok))
			}
		}
		return fmtInts(sortedInts(out))
	case "clone":
		need(t, 3)
		return w.put(atoi(t[2]), w.get(t[1]).Clone())
	case "addset":
		return itoa(w.get(t[1]).AddSet(w.get(t[2])))
	case "removeset":
		return itoa(w.get(t[1]).RemoveSet(w.get(t[2])))
	case "union":
		need(t, 4)
		return w.put(atoi(t[3]), w.get(t[1]).Union(w.get(t[2])))
	case "intersect":
		need(t, 4)
		return w.put(atoi(t[3]), w.get(t[1]).Intersect(w.get(t[2])))
	case "setdiff":
		need(t, 4)
		return w.put(atoi(t[3]), w.get(t[1]).SetDiff(w.get(t[2])))
	case "symdiff":
		need(t, 4)
		return w.put(atoi(t[3]), w.get(t[1]).SymDiff(w.get(t[2])))
	case "range":
		need(t, 3)
		k := atoi(t[2])
		out := []int{}
		w.get(t[1]).Range(func(v int) bool {
			out = append(out, v)
			return !(k > 0 && len(out) >= k)
		})
		return fmtInts(out)
	case "product":
		ps := sets.CartesianProduct(w.get(t[1]), w.get(t[2]))
		out := make([][2]int, len(ps))
		for i, p := range ps {
			out[i] = [2]int{p.A, p.B}
		}
		return fmtPairs(sortPairs(out))
	case "layout":
		if s, ok := w.get(t[1]).(*sync2.Set[int]); ok {
			l := s.VerifMap().VerifLayout()
			return fmtInts(l[:])
		}
		return "[]"
	case "age":
		need(t, 3)
		s := w.get(t[1])
		if _, ok := s.(*sync2.Set[int]); ok {
			for _, x := range parseInts(t[2]) {
				s.Has(x)
			}
		}
		return "ok"
	}
	return bad()
}

// members that look like list / set syntax themselves
var memberNames = []string{"[a]", "b]", "[c", "{d}", "", "]", "[", "[[f]]"} // member 4 prints as the EMPTY string

func memberName(v int) string {
	if v >= 0 && v < len(memberNames) {
		return memberNames[v]
	}
	return "m" + strconv.Itoa(v)
}

func memberIndex(tok string) int {
	for i, n := range memberNames {
		if n == tok {
			return i
		}
	}
	if strings.HasPrefix(tok, "m") {
		if n, err := strconv.Atoi(tok[1:]); err == nil {
			return n
		}
	}
	return -1
}
