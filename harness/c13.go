package main

import "gopkg.in/typ.v4/slices"

type c13 struct{}

func init() { register("C13", func() world { return c13{} }) }

func (c13) step(t []string) string {
	switch t[0] {
	case "chunk":
		need(t, 3)
		return fmtIntss(slices.Chunk(parseInts(t[1]), atoi(t[2])))
	case "chunkfunc":
		need(t, 3)
		var tr [][]int
		slices.ChunkFunc(parseInts(t[1]), atoi(t[2]), func(c []int) { tr = append(tr, append([]int(nil), c...)) })
		return fmtIntss(tr)
	case "chunkunits":
		// chunkunits <n> <size> <variant>: a slice of n zero-size elements (n may be astronomically large: no memory is touched); the result is
		// the list of piece LENGTHS.  variant 0 = Chunk, 1 = ChunkFunc, 2 = WindowedFunc (number of windows and the length of the first / last)
		need(t, 4)
		n, size := atoi(t[1]), atoi(t[2])
		units := make([]struct{}, n)
		var lens []int
		switch atoi(t[3]) {
		case 0:
			for _, c := range slices.Chunk(units, size) {
				lens = append(lens, len(c))
			}
		case 1:
			slices.ChunkFunc(units, size, func(c []struct{}) { lens = append(lens, len(c)) })
		default:
			cnt, first, last := 0, -1, -1
			slices.WindowedFunc(units, size, func(c []struct{}) {
				if cnt == 0 {
					first = len(c)
				}
				last = len(c)
				cnt++
			})
			lens = []int{cnt, first, last}
		}
		return fmtInts(lens)
	case "windowed":
		need(t, 3)
		return fmtIntss(slices.Windowed(parseInts(t[1]), atoi(t[2])))
	case "windowedfunc":
		need(t, 3)
		var tr [][]int
		slices.WindowedFunc(parseInts(t[1]), atoi(t[2]), func(c []int) { tr = append(tr, append([]int(nil), c...)) })
		return fmtIntss(tr)
	case "pairs":
		need(t, 2)
		return fmtPairs(slices.Pairs(parseInts(t[1])))
	case "pairsfunc":
		need(t, 2)
		var tr [][2]int
		slices.PairsFunc(parseInts(t[1]), func(a, b int) { tr = append(tr, [2]int{a, b}) })
		// the same call on INTERFACE elements some of which are nil (multiples of 3 become nil), and on pointer elements with nils: a nil element is
		// an element like any other; the calls must be the ones of the int instantiation
		enc := func(v int) int {
			if v%3 == 0 {
				return -1
			}
			return v
		}
		var want, gotAny, gotPtr [][2]int
		for _, p := range tr {
			want = append(want, [2]int{enc(p[0]), enc(p[1])})
		}
		var anys []any
		var ptrs []*int
		for _, v := range parseInts(t[1]) {
			v := v
			if v%3 == 0 {
				anys, ptrs = append(anys, nil), append(ptrs, nil)
			} else {
				anys, ptrs = append(anys, v), append(ptrs, &v)
			}
		}
		dec := func(x any) int {
			if x == nil {
				return -1
			}
			return x.(int)
		}
		slices.PairsFunc(anys, func(a, b any) { gotAny = append(gotAny, [2]int{dec(a), dec(b)}) })
		slices.PairsFunc(ptrs, func(a, b *int) {
			d := func(p *int) int {
				if p == nil {
					return -1
				}
				return *p
			}
			gotPtr = append(gotPtr, [2]int{d(a), d(b)})
		})
		var pa [][2]int
		for _, p := range slices.Pairs(anys) {
			pa = append(pa, [2]int{dec(p[0]), dec(p[1])})
		}
		if w := fmtPairs(want); fmtPairs(gotAny) != w || fmtPairs(gotPtr) != w || fmtPairs(pa) != w {
			return "instances-differ:" + w + "/" + fmtPairs(gotAny) + "/" + fmtPairs(gotPtr) + "/" + fmtPairs(pa)
		}
		return fmtPairs(tr)
	}
	return bad()
}
