package main

import "gopkg.in/typ.v4/slices"

type c13 struct{}

func init() { register("C13", func() world { return c13{} }) }

func (c13) step(t []string) string {
	switch t[0] {
	case "chunk":
		need(t, 3)
		return fmtIntss(slices.Chunk(parseInts(t[1]), atoi(t[2])))
	case "chunkfunc":
		need(t, 3)
		var tr [][]int
		slices.ChunkFunc(parseInts(t[1]), atoi(t[2]), func(c []int) { tr = append(tr, append([]int(nil), c...)) })
		return fmtIntss(tr)
	case "chunkunits":
		// chunkunits <n> <size> <variant>: a slice of n zero-size elements (n may be astronomically large: no memory is touched); the result is
		// the list of piece LENGTHS.  variant 0 = Chunk, 1 = ChunkFunc, 2 = WindowedFunc (number of windows and the length of the first / last)
		need(t, 4)
		n, size := atoi(t[1]), atoi(t[2])
		units := make([]struct{}, n)
		var lens []int
		switch atoi(t[3]) {
		case 0:
			for _, c := range slices.Chunk(units, size) {
				lens = append(lens, len(c))
			}
		case 1:
			slices.ChunkFunc(units, size, func(c []struct{}) { lens = append(lens, len(c)) })
		default:
			cnt, first, last := 0, -1, -1
			slices.WindowedFunc(units, size, func(c []struct{}) {
				if cnt == 0 {
					first = len(c)
				}
				last = len(c)
				cnt++
			})
			lens = []int{cnt, first, last}
		}
		return fmtInts(lens)
	case "windowed":
		need(t, 3)
		return fmtIntss(slices.Windowed(parseInts(t[1]), atoi(t[2])))
	case "windowedfunc":
		need(t, 3)
		var tr [][]int
		slices.WindowedFunc(parseInts(t[1]), atoi(t[2]), func(c []int) { tr = append(tr, append([]int(nil), c...)) })
		return fmtIntss(tr)
	case "pairs":
		need(t, 2)
		return fmtPairs(slices.Pairs(parseInts(t[1])))
	case "pairsfunc":
		need(t, 2)
		var tr [][2]int
		slices.PairsFunc(parseInts(t[1]), func(a, b int) { tr = append(tr, [2]int{a, b}) })
		return fmtPairs(tr)
	}
	return bad()
}
