package main

import "gopkg.in/typ.v4/slices"

type c13 struct{}

func init() { register("C13", func() world { return c13{} }) }

func (c13) step(t []string) string {
	switch t[0] {
	case "chunk":
		need(t, 3)
		return fmtIntss(slices.Chunk(parseInts(t[1]), atoi(t[2])))
	case "chunkfunc":
		need(t, 3)
		var tr [][]int
		slices.ChunkFunc(parseInts(t[1]), atoi(t[2]), func(c []int) { tr = append(tr, append([]int(nil), c...)) })
		return fmtIntss(tr)
	case "windowed":
		need(t, 3)
		return fmtIntss(slices.Windowed(parseInts(t[1]), atoi(t[2])))
	case "windowedfunc":
		need(t, 3)
		var tr [][]int
		slices.WindowedFunc(parseInts(t[1]), atoi(t[2]), func(c []int) { tr = append(tr, append([]int(nil), c...)) })
		return fmtIntss(tr)
	case "pairs":
		need(t, 2)
		return fmtPairs(slices.Pairs(parseInts(t[1])))
	case "pairsfunc":
		need(t, 2)
		var tr [][2]int
		slices.PairsFunc(parseInts(t[1]), func(a, b int) { tr = append(tr, [2]int{a, b}) })
		return fmtPairs(tr)
	}
	return bad()
}
