package main

import (
	stdlist "container/list"
	stdring "container/ring"
	"strings"

	"gopkg.in/typ.v4/lists"
)

// C06: lists.List / lists.Ring in lock-step with container/list / container/ring.
type c06 struct {
	fl    map[int]*lists.List[int]
	sl    map[int]*stdlist.List
	fe    []*lists.Element[int]
	se    []*stdlist.Element
	fidx  map[*lists.Element[int]]int
	sidx  map[*stdlist.Element]int
	fr    []*lists.Ring[int]
	sr    []*stdring.Ring
	fridx map[*lists.Ring[int]]int
	sridx map[*stdring.Ring]int
}

func init() {
	register("C06", func() world {
		return &c06{fl: map[int]*lists.List[int]{}, sl: map[int]*stdlist.List{},
			fidx: map[*lists.Element[int]]int{}, sidx: map[*stdlist.Element]int{},
			fridx: map[*lists.Ring[int]]int{}, sridx: map[*stdring.Ring]int{}}
	})
}

const maxSteps = 64

// two runs the same operation on both sides, each under its own recover.
func two(f func() string, s func() string) string {
	run := func(g func() string) (res string) {
		defer func() {
			if r := recover(); r != nil {
				res = classifyPanic(r)
			}
		}()
		return g()
	}
	a, b := run(f), run(s)
	return a + " std:" + strings.ReplaceAll(b, " ", ",")
}

func (w *c06) fListOf(s string) *lists.List[int] {
	l, ok := w.fl[atoi(s)]
	if !ok {
		panic(badOp{})
	}
	return l
}
func (w *c06) sListOf(s string) *stdlist.List { return w.sl[atoi(s)] }

func (w *c06) fElem(s string) *lists.Element[int] {
	i := atoi(s)
	if i < 0 || i >= len(w.fe) {
		panic(badOp{})
	}
	return w.fe[i]
}
func (w *c06) sElem(s string) *stdlist.Element { return w.se[atoi(s)] }

func (w *c06) fid(e *lists.Element[int]) int {
	if e == nil {
		return -1
	}
	if i, ok := w.fidx[e]; ok {
		return i
	}
	return -2
}
func (w *c06) sid(e *stdlist.Element) int {
	if e == nil {
		return -1
	}
	if i, ok := w.sidx[e]; ok {
		return i
	}
	return -2
}

// newElem registers the pair of freshly created elements under the next id (either may be nil; ids stay aligned:
// an id is consumed iff the fork returned non-nil; a divergence then shows in the printed ids).
func (w *c06) newElem(f *lists.Element[int], s *stdlist.Element) {
	if f == nil && s == nil {
		return
	}
	id := len(w.fe)
	w.fe = append(w.fe, f)
	w.se = append(w.se, s)
	if f != nil {
		w.fidx[f] = id
	}
	if s != nil {
		w.sidx[s] = id
	}
}

func (w *c06) scanNew(l *lists.List[int], s *stdlist.List) int {
	// assign ids to unknown elements in front-to-back order of the receiving list (both sides in parallel)
	var fnew []*lists.Element[int]
	var snew []*stdlist.Element
	n := 0
	for e := l.Front(); e != nil && n < 4096; e, n = e.Next(), n+1 {
		if _, ok := w.fidx[e]; !ok {
			fnew = append(fnew, e)
		}
	}
	n = 0
	for e := s.Front(); e != nil && n < 4096; e, n = e.Next(), n+1 {
		if _, ok := w.sidx[e]; !ok {
			snew = append(snew, e)
		}
	}
	k := len(fnew)
	if len(snew) > k {
		k = len(snew)
	}
	for i := 0; i < k; i++ {
		var f *lists.Element[int]
		var se *stdlist.Element
		if i < len(fnew) {
			f = fnew[i]
		}
		if i < len(snew) {
			se = snew[i]
		}
		w.newElem(f, se)
	}
	return len(fnew)
}

func (w *c06) fRing(s string) *lists.Ring[int] {
	i := atoi(s)
	if i < 0 || i >= len(w.fr) {
		panic(badOp{})
	}
	return w.fr[i]
}
func (w *c06) sRing(s string) *stdring.Ring { return w.sr[atoi(s)] }
func (w *c06) frid(r *lists.Ring[int]) int {
	if r == nil {
		return -1
	}
	if i, ok := w.fridx[r]; ok {
		return i
	}
	return -2
}
func (w *c06) srid(r *stdring.Ring) int {
	if r == nil {
		return -1
	}
	if i, ok := w.sridx[r]; ok {
		return i
	}
	return -2
}

func (w *c06) step(t []string) string {
	switch t[0] {
	case "lnew":
		w.fl[atoi(t[1])] = lists.New[int]()
		w.sl[atoi(t[1])] = stdlist.New()
		return "ok std:ok"
	case "lzero":
		w.fl[atoi(t[1])] = &lists.List[int]{}
		w.sl[atoi(t[1])] = &stdlist.List{}
		return "ok std:ok"
	case "pushfront", "pushback":
		l, s, v := w.fListOf(t[1]), w.sListOf(t[1]), atoi(t[2])
		var fe *lists.Element[int]
		var se *stdlist.Element
		id := len(w.fe)
		r := two(func() string {
			if t[0] == "pushfront" {
				fe = l.PushFront(v)
			} else {
				fe = l.PushBack(v)
			}
			return itoa(id)
		}, func() string {
			if t[0] == "pushfront" {
				se = s.PushFront(v)
			} else {
				se = s.PushBack(v)
			}
			return itoa(id)
		})
		w.newElem(fe, se)
		return r
	case "insertbefore", "insertafter":
		l, s, v := w.fListOf(t[1]), w.sListOf(t[1]), atoi(t[2])
		fm, sm := w.fElem(t[3]), w.sElem(t[3])
		var fe *lists.Element[int]
		var se *stdlist.Element
		id := len(w.fe)
		r := two(func() string {
			if t[0] == "insertbefore" {
				fe = l.InsertBefore(v, fm)
			} else {
				fe = l.InsertAfter(v, fm)
			}
			if fe == nil {
				return "-1"
			}
			return itoa(id)
		}, func() string {
			if t[0] == "insertbefore" {
				se = s.InsertBefore(v, sm)
			} else {
				se = s.InsertAfter(v, sm)
			}
			if se == nil {
				return "-1"
			}
			return itoa(id)
		})
		w.newElem(fe, se)
		return r
	case "remove":
		l, s := w.fListOf(t[1]), w.sListOf(t[1])
		fe, se := w.fElem(t[2]), w.sElem(t[2])
		return two(func() string { return itoa(l.Remove(fe)) }, func() string { return itoa(s.Remove(se).(int)) })
	case "movetofront", "movetoback":
		l, s := w.fListOf(t[1]), w.sListOf(t[1])
		fe, se := w.fElem(t[2]), w.sElem(t[2])
		return two(func() string {
			if t[0] == "movetofront" {
				l.MoveToFront(fe)
			} else {
				l.MoveToBack(fe)
			}
			return "ok"
		}, func() string {
			if t[0] == "movetofront" {
				s.MoveToFront(se)
			} else {
				s.MoveToBack(se)
			}
			return "ok"
		})
	case "movebefore", "moveafter":
		l, s := w.fListOf(t[1]), w.sListOf(t[1])
		fe, se := w.fElem(t[2]), w.sElem(t[2])
		fm, sm := w.fElem(t[3]), w.sElem(t[3])
		return two(func() string {
			if t[0] == "movebefore" {
				l.MoveBefore(fe, fm)
			} else {
				l.MoveAfter(fe, fm)
			}
			return "ok"
		}, func() string {
			if t[0] == "movebefore" {
				s.MoveBefore(se, sm)
			} else {
				s.MoveAfter(se, sm)
			}
			return "ok"
		})
	case "pushbacklist", "pushfrontlist":
		l, s := w.fListOf(t[1]), w.sListOf(t[1])
		lo, so := w.fListOf(t[2]), w.sListOf(t[2])
		fbefore, sbefore := l.Len(), s.Len()
		r := two(func() string {
			if t[0] == "pushbacklist" {
				l.PushBackList(lo)
			} else {
				l.PushFrontList(lo)
			}
			return itoa(l.Len() - fbefore)
		}, func() string {
			if t[0] == "pushbacklist" {
				s.PushBackList(so)
			} else {
				s.PushFrontList(so)
			}
			return itoa(s.Len() - sbefore)
		})
		w.scanNew(l, s)
		return r
	case "init":
		l, s := w.fListOf(t[1]), w.sListOf(t[1])
		l.Init()
		s.Init()
		return "ok std:ok"
	case "len":
		l, s := w.fListOf(t[1]), w.sListOf(t[1])
		return two(func() string { return itoa(l.Len()) }, func() string { return itoa(s.Len()) })
	case "front":
		l, s := w.fListOf(t[1]), w.sListOf(t[1])
		return two(func() string { return itoa(w.fid(l.Front())) }, func() string { return itoa(w.sid(s.Front())) })
	case "back":
		l, s := w.fListOf(t[1]), w.sListOf(t[1])
		return two(func() string { return itoa(w.fid(l.Back())) }, func() string { return itoa(w.sid(s.Back())) })
	case "next":
		fe, se := w.fElem(t[1]), w.sElem(t[1])
		return two(func() string { return itoa(w.fid(fe.Next())) }, func() string { return itoa(w.sid(se.Next())) })
	case "prev":
		fe, se := w.fElem(t[1]), w.sElem(t[1])
		return two(func() string { return itoa(w.fid(fe.Prev())) }, func() string { return itoa(w.sid(se.Prev())) })
	case "value":
		fe, se := w.fElem(t[1]), w.sElem(t[1])
		return two(func() string { return itoa(fe.Value) }, func() string { return itoa(se.Value.(int)) })
	case "fwd":
		l, s := w.fListOf(t[1]), w.sListOf(t[1])
		return two(func() string {
			out := []int{}
			for e, n := l.Front(), 0; e != nil && n < maxSteps; e, n = e.Next(), n+1 {
				out = append(out, w.fid(e))
			}
			return fmtInts(out)
		}, func() string {
			out := []int{}
			for e, n := s.Front(), 0; e != nil && n < maxSteps; e, n = e.Next(), n+1 {
				out = append(out, w.sid(e))
			}
			return fmtInts(out)
		})
	case "bwd":
		l, s := w.fListOf(t[1]), w.sListOf(t[1])
		return two(func() string {
			out := []int{}
			for e, n := l.Back(), 0; e != nil && n < maxSteps; e, n = e.Prev(), n+1 {
				out = append(out, w.fid(e))
			}
			return fmtInts(out)
		}, func() string {
			out := []int{}
			for e, n := s.Back(), 0; e != nil && n < maxSteps; e, n = e.Prev(), n+1 {
				out = append(out, w.sid(e))
			}
			return fmtInts(out)
		})
	// ---- rings
	case "rnew":
		n := atoi(t[1])
		f := lists.NewRing[int](n)
		s := stdring.New(n)
		first := len(w.fr)
		if f == nil && s == nil {
			return "-1 std:-1"
		}
		fp, sp := f, s
		for i := 0; i < n; i++ {
			id := len(w.fr)
			w.fr = append(w.fr, fp)
			w.sr = append(w.sr, sp)
			if fp != nil {
				w.fridx[fp] = id
				fp.Value = id
				fp = fp.Next()
			}
			if sp != nil {
				w.sridx[sp] = id
				sp.Value = id
				sp = sp.Next()
			}
		}
		return itoa(first) + " std:" + itoa(first)
	case "rzero":
		id := len(w.fr)
		f := &lists.Ring[int]{Value: id}
		s := &stdring.Ring{Value: id}
		w.fr = append(w.fr, f)
		w.sr = append(w.sr, s)
		w.fridx[f] = id
		w.sridx[s] = id
		return itoa(id) + " std:" + itoa(id)
	case "rnext":
		f, s := w.fRing(t[1]), w.sRing(t[1])
		return two(func() string { return itoa(w.frid(f.Next())) }, func() string { return itoa(w.srid(s.Next())) })
	case "rprev":
		f, s := w.fRing(t[1]), w.sRing(t[1])
		return two(func() string { return itoa(w.frid(f.Prev())) }, func() string { return itoa(w.srid(s.Prev())) })
	case "rmove":
		f, s, n := w.fRing(t[1]), w.sRing(t[1]), atoi(t[2])
		return two(func() string { return itoa(w.frid(f.Move(n))) }, func() string { return itoa(w.srid(s.Move(n))) })
	case "rlink":
		f, s := w.fRing(t[1]), w.sRing(t[1])
		var f2 *lists.Ring[int]
		var s2 *stdring.Ring
		if atoi(t[2]) != -1 { // -1: a nil argument
			f2, s2 = w.fRing(t[2]), w.sRing(t[2])
		}
		return two(func() string { return itoa(w.frid(f.Link(f2))) }, func() string { return itoa(w.srid(s.Link(s2))) })
	case "runlink":
		f, s, n := w.fRing(t[1]), w.sRing(t[1]), atoi(t[2])
		return two(func() string { return itoa(w.frid(f.Unlink(n))) }, func() string { return itoa(w.srid(s.Unlink(n))) })
	case "rlen":
		f, s := w.fRing(t[1]), w.sRing(t[1])
		return two(func() string { return itoa(f.Len()) }, func() string { return itoa(s.Len()) })
	case "rdo":
		f, s := w.fRing(t[1]), w.sRing(t[1])
		return two(func() string {
			out := []int{}
			f.Do(func(v int) { out = append(out, v) })
			return fmtInts(out)
		}, func() string {
			out := []int{}
			s.Do(func(v interface{}) { out = append(out, v.(int)) })
			return fmtInts(out)
		})
	case "rdomut":
		// rdomut <r> <s>: Do on r with a callback that, on its SECOND call (visiting r.Next()), links s behind the element being visited (unless s IS
		// that element): container/ring reads p.next after the callback returned, so the traversal continues through what was just linked in
		f, s := w.fRing(t[1]), w.sRing(t[1])
		f2, s2 := w.fRing(t[2]), w.sRing(t[2])
		return two(func() string {
			out := []int{}
			calls := 0
			f.Do(func(v int) {
				out = append(out, v)
				calls++
				if calls == 2 && f2 != nil && f2.Value != v {
					f.Next().Link(f2)
				}
			})
			return fmtInts(out)
		}, func() string {
			out := []int{}
			calls := 0
			s.Do(func(v interface{}) {
				out = append(out, v.(int))
				calls++
				if calls == 2 && s2 != nil && s2.Value != v {
					s.Next().Link(s2)
				}
			})
			return fmtInts(out)
		})
	case "rfwd", "rbwd":
		f, s := w.fRing(t[1]), w.sRing(t[1])
		return two(func() string {
			out := []int{w.frid(f)}
			p := f
			for n := 0; n < maxSteps; n++ {
				if t[0] == "rfwd" {
					p = p.Next()
				} else {
					p = p.Prev()
				}
				if p == f {
					break
				}
				out = append(out, w.frid(p))
			}
			return fmtInts(out)
		}, func() string {
			out := []int{w.srid(s)}
			p := s
			for n := 0; n < maxSteps; n++ {
				if t[0] == "rfwd" {
					p = p.Next()
				} else {
					p = p.Prev()
				}
				if p == s {
					break
				}
				out = append(out, w.srid(p))
			}
			return fmtInts(out)
		})
	}
	return bad()
}
