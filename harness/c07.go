package main

import (
	"fmt"
	"strconv"
	"strings"

	"gopkg.in/typ.v4/slices"
)

// C07: slices.Sorted[int]
type c07 struct {
	s         *slices.Sorted[int]
	input     []int
	lessID    int
	countdown int // > 0: the less function panics on its countdown-th call from now (addpanic)
}

// wrap: the less function handed to NewSorted; panics when the countdown armed by `addpanic` runs out
func (w *c07) wrap(base func(a, b int) bool) func(a, b int) bool {
	return func(a, b int) bool {
		if w.countdown > 0 {
			w.countdown--
			if w.countdown == 0 {
				panic("less-panics")
			}
		}
		return base(a, b)
	}
}

func init() { register("C07", func() world { return &c07{} }) }

func lessByID(id int) func(a, b int) bool {
	switch id {
	case 0:
		return func(a, b int) bool { return a < b }
	case 1:
		return func(a, b int) bool { return a > b }
	case 2:
		return func(a, b int) bool { return a/2 < b/2 }
	}
	panic(badOp{})
}

func (w *c07) step(t []string) string {
	if t[0] == "new" {
		need(t, 4)
		vals := parseInts(t[2])
		extra := atoi(t[3])
		backing := make([]int, len(vals), len(vals)+extra)
		copy(backing, vals)
		w.input = backing
		w.lessID = atoi(t[1])
		switch atoi(t[1]) {
		case 3: // NewSortedOrdered over ints (the spread form hands the function the caller's slice itself)
			s := slices.NewSortedOrdered(backing...)
			w.s = &s
			return "ok"
		case 4: // NewSortedOrdered over STRINGS (fixed-width decimal, so string order = numeric order): the caller's slice and the
			// contents are observed through the string instantiation, the remaining operations go to the int one
			strs := make([]string, len(backing), cap(backing))
			for i, v := range backing {
				strs[i] = fmt.Sprintf("%07d", v+1000000)
			}
			ss := slices.NewSortedOrdered(strs...)
			for i, x := range strs {
				n, _ := strconv.Atoi(x)
				backing[i] = n - 1000000
			}
			s := slices.NewSortedOrdered(append([]int(nil), backing...)...)
			w.s = &s
			want := make([]string, s.Len())
			for i := range want {
				want[i] = fmt.Sprintf("%07d", s.Get(i)+1000000)
			}
			if ss.String() != fmt.Sprint(want) {
				return "string-instance-differs:" + strings.ReplaceAll(ss.String(), " ", ",")
			}
			return "ok"
		}
		w.lessID, w.countdown = atoi(t[1]), 0
		s := slices.NewSorted(backing, w.wrap(lessByID(atoi(t[1]))))
		w.s = &s
		return "ok"
	}
	if w.s == nil {
		return bad()
	}
	switch t[0] {
	case "addpanic":
		// addpanic <v> <k>: Add(v) with a less function that panics on its k-th call; the caller recovers.  Afterwards the contents must still be
		// sorted and be the old multiset, with or without v.  result: `nopanic <index>` | `panicked <0|1: v is in>` | `violated:<contents>`
		need(t, 3)
		v := atoi(t[1])
		contents := func() []int {
			out := make([]int, w.s.Len())
			for i := range out {
				out[i] = w.s.Get(i)
			}
			return out
		}
		before := contents()
		if w.lessID <= 2 {
			w.countdown = atoi(t[2])
		}
		res := func() (out string) {
			defer func() {
				if recover() != nil {
					out = "panicked"
				}
			}()
			return "nopanic " + itoa(w.s.Add(v))
		}()
		w.countdown = 0
		if res != "panicked" {
			return res
		}
		after := contents()
		less := lessByID(w.lessID)
		for i := 1; i < len(after); i++ {
			if less(after[i], after[i-1]) {
				return "violated:not-sorted:" + fmtInts(after)
			}
		}
		cnt := map[int]int{}
		for _, x := range after {
			cnt[x]++
		}
		for _, x := range before {
			cnt[x]--
		}
		extra := 0
		for x, c := range cnt {
			if c != 0 && !(x == v && c == 1) {
				return "violated:not-the-multiset:" + fmtInts(after)
			}
			extra += c
		}
		return "panicked " + itoa(extra)
	case "input":
		return fmtInts(w.input)
	case "slice":
		return reparse(w.s.String())
	case "add":
		return itoa(w.s.Add(atoi(t[1])))
	case "remove":
		return itoa(w.s.Remove(atoi(t[1])))
	case "removeat":
		w.s.RemoveAt(atoi(t[1]))
		return "ok"
	case "index":
		return itoa(w.s.Index(atoi(t[1])))
	case "contains":
		return btoa(w.s.Contains(atoi(t[1])))
	case "get":
		return itoa(w.s.Get(atoi(t[1])))
	case "len":
		return itoa(w.s.Len())
	}
	return bad()
}
