package main

// `harness sched <target> <mode> <seed> <n> [bound]` — runs small concurrent programs against sync2.Map (target map),
// sync2.Set (set), sync2.KeyedMutex (km) and sync2.KeyedRWMutex (krw) under the controlled scheduler and prints one
// event trace per execution (PROTOCOL.md, "Event-trace lines"), separated by `reset`.
//   mode random:     n executions of random programs under random schedules (seeded)
//   mode exhaustive: every schedule with at most `bound` preemptions of the built-in catalogue of tiny programs
//                    (at most n executions per program)

import (
	"bufio"
	"fmt"
	"math/rand"
	"os"
	"sort"
	"strconv"
	"strings"
	"sync"

	"gopkg.in/typ.v4/maps"
	"gopkg.in/typ.v4/sync2"
)

func init() { commands["sched"] = schedMain }

type program [][]schedOp

func (p program) String() string {
	var parts []string
	for i, ops := range p {
		var os []string
		for _, o := range ops {
			os = append(os, o.name+joinInts(o.args))
		}
		parts = append(parts, fmt.Sprintf("t%d: %s", i, strings.Join(os, "; ")))
	}
	return strings.Join(parts, " | ")
}

// target-specific runner factory: returns the header line and a fresh `run` closure (fresh object under test)
func newRunner(target string, s *scheduler) (string, func(w *worker, op schedOp) string) {
	switch target {
	case "map":
		m := &sync2.Map[int, int]{}
		return "cmap", func(w *worker, op schedOp) string {
			a := op.args
			switch op.name {
			case "load":
				v, ok := m.Load(a[0])
				return itoa(v) + " " + btoa(ok)
			case "store":
				m.Store(a[0], a[1])
				return "done"
			case "loadorstore":
				v, l := m.LoadOrStore(a[0], a[1])
				return itoa(v) + " " + btoa(l)
			case "loadanddelete":
				v, l := m.LoadAndDelete(a[0])
				return itoa(v) + " " + btoa(l)
			case "delete":
				m.Delete(a[0])
				return "done"
			case "range":
				out := [][2]int{}
				m.Range(func(k, v int) bool { out = append(out, [2]int{k, v}); return true })
				return fmtPairs(out)
			}
			panic("bad op " + op.name)
		}
	case "set":
		s := &sync2.Set[int]{}
		return "cset", func(w *worker, op schedOp) string {
			a := op.args
			switch op.name {
			case "add":
				return btoa(s.Add(a[0]))
			case "remove":
				return btoa(s.Remove(a[0]))
			case "has":
				return btoa(s.Has(a[0]))
			case "len":
				return itoa(s.Len())
			case "addset":
				return itoa(s.AddSet(maps.NewSetFromSlice(a)))
			case "removeset":
				return itoa(s.RemoveSet(maps.NewSetFromSlice(a)))
			}
			panic("bad op " + op.name)
		}
	case "km":
		km := &sync2.KeyedMutex[int]{}
		return "km 0", func(w *worker, op schedOp) string {
			a := op.args
			switch op.name {
			case "lock":
				km.LockKey(a[0])
				return "done"
			case "unlock":
				km.UnlockKey(a[0])
				return "done"
			case "trylock":
				ok := km.TryLockKey(a[0])
				if ok {
					s.quiet = true
					s.mu(km.VerifPeek(a[0])).writer = true
					s.quiet = false
				}
				return btoa(ok)
			case "clear":
				km.ClearKey(a[0])
				return "done"
			}
			panic("bad op " + op.name)
		}
	case "krw":
		km := &sync2.KeyedRWMutex[int]{}
		return "km 1", func(w *worker, op schedOp) string {
			a := op.args
			switch op.name {
			case "lock":
				km.LockKey(a[0])
				return "done"
			case "unlock":
				km.UnlockKey(a[0])
				return "done"
			case "trylock":
				ok := km.TryLockKey(a[0])
				if ok {
					s.quiet = true
					s.mu(km.VerifPeek(a[0])).writer = true
					s.quiet = false
				}
				return btoa(ok)
			case "rlock":
				km.RLockKey(a[0])
				return "done"
			case "runlock":
				km.RUnlockKey(a[0])
				return "done"
			case "tryrlock":
				ok := km.TryRLockKey(a[0])
				if ok {
					s.quiet = true
					s.mu(km.VerifPeek(a[0])).readers++
					s.quiet = false
				}
				return btoa(ok)
			case "clear":
				km.ClearKey(a[0])
				return "done"
			}
			panic("bad op " + op.name)
		}
	}
	panic("unknown target " + target)
}

// execution of one program under one schedule; returns the trace lines
func runOnce(target string, prog program, choose func(en []int, step int) int) ([]string, bool) {
	s := &scheduler{}
	header, run := newRunner(target, s)
	s.run = run
	for i, ops := range prog {
		s.workers = append(s.workers, &worker{id: i, ops: ops})
	}
	dead := s.execute(choose, 5000)
	out := append([]string{header}, s.trace...)
	return out, dead
}

var apiOnly = false

func printTrace(w *bufio.Writer, comment string, lines []string) {
	fmt.Fprintln(w, "reset")
	fmt.Fprintln(w, "# "+comment)
	for _, l := range lines {
		if apiOnly && (strings.HasPrefix(l, "step ") || strings.HasPrefix(l, "iter ")) {
			continue
		}
		fmt.Fprintln(w, l+" => ok")
	}
}

// ---------------------------------------------------------------------------------------------- program generators

func randomProgram(r *rand.Rand, target string) program {
	nw := 2 + r.Intn(3)
	var p program
	keys := 1 + r.Intn(3)
	for i := 0; i < nw; i++ {
		var ops []schedOp
		nops := 1 + r.Intn(3)
		for j := 0; j < nops; j++ {
			k := r.Intn(keys)
			switch target {
			case "map":
				switch r.Intn(8) {
				case 0, 1:
					ops = append(ops, schedOp{"store", []int{k, 10*i + j + 1}})
				case 2, 3:
					ops = append(ops, schedOp{"load", []int{k}})
				case 4:
					ops = append(ops, schedOp{"loadorstore", []int{k, 10*i + j + 1}})
				case 5:
					ops = append(ops, schedOp{"loadanddelete", []int{k}})
				case 6:
					ops = append(ops, schedOp{"delete", []int{k}})
				default:
					ops = append(ops, schedOp{"range", nil})
				}
			case "set":
				switch r.Intn(9) {
				case 0, 1, 2:
					ops = append(ops, schedOp{"add", []int{k}})
				case 3, 4:
					ops = append(ops, schedOp{"remove", []int{k}})
				case 5, 6:
					ops = append(ops, schedOp{"has", []int{k}})
				case 7:
					ops = append(ops, schedOp{"len", nil})
				default:
					if r.Intn(2) == 0 {
						ops = append(ops, schedOp{"addset", []int{k, (k + 1) % keys}})
					} else {
						ops = append(ops, schedOp{"removeset", []int{k, (k + 1) % keys}})
					}
				}
			case "km":
				switch r.Intn(6) {
				case 0: // ClearKey of a key nobody holds or awaits (never used otherwise): drives the map's delete / miss / promotion paths
					ops = append(ops, schedOp{"clear", []int{100 + r.Intn(4)}})
				case 1:
					ops = append(ops, schedOp{"trylock", []int{k}}, schedOp{"unlock?", []int{k}})
				default:
					ops = append(ops, schedOp{"lock", []int{k}}, schedOp{"unlock", []int{k}})
				}
			case "krw":
				switch r.Intn(8) {
				case 0:
					ops = append(ops, schedOp{"clear", []int{100 + r.Intn(4)}})
				case 1:
					ops = append(ops, schedOp{"trylock", []int{k}}, schedOp{"unlock?", []int{k}})
				case 2:
					ops = append(ops, schedOp{"tryrlock", []int{k}}, schedOp{"runlock?", []int{k}})
				case 3, 4:
					ops = append(ops, schedOp{"lock", []int{k}}, schedOp{"unlock", []int{k}})
				default:
					ops = append(ops, schedOp{"rlock", []int{k}}, schedOp{"runlock", []int{k}})
				}
			}
		}
		p = append(p, ops)
	}
	if target == "map" || target == "set" {
		// age the object first through worker 0 so that promoted / amended / expunged layouts occur
		pre := []schedOp{}
		n := r.Intn(5)
		for j := 0; j < n; j++ {
			k := r.Intn(keys + 1)
			if target == "map" {
				switch r.Intn(3) {
				case 0:
					pre = append(pre, schedOp{"store", []int{k, 100 + j}})
				case 1:
					pre = append(pre, schedOp{"load", []int{k}})
				default:
					pre = append(pre, schedOp{"delete", []int{k}})
				}
			} else {
				switch r.Intn(3) {
				case 0:
					pre = append(pre, schedOp{"add", []int{k}})
				case 1:
					pre = append(pre, schedOp{"has", []int{k}})
				default:
					pre = append(pre, schedOp{"remove", []int{k}})
				}
			}
		}
		p[0] = append(pre, p[0]...)
	}
	return p
}

func catalogue(target string) []program {
	o := func(name string, a ...int) schedOp { return schedOp{name, a} }
	switch target {
	case "map":
		return []program{
			{{o("store", 1, 5)}, {o("load", 1)}},
			{{o("store", 1, 5)}, {o("store", 1, 6)}, {o("load", 1)}},
			{{o("store", 1, 5), o("load", 1), o("load", 2)}, {o("load", 2), o("store", 2, 7)}},
			{{o("store", 1, 5), o("load", 9), o("delete", 1)}, {o("store", 1, 6)}},
			{{o("store", 1, 5), o("load", 9), o("delete", 1), o("store", 2, 1)}, {o("store", 1, 6), o("load", 1)}},
			{{o("store", 1, 5), o("loadanddelete", 1)}, {o("loadanddelete", 1)}},
			{{o("store", 1, 5), o("load", 9), o("loadanddelete", 1)}, {o("loadorstore", 1, 8)}},
			{{o("loadorstore", 1, 5)}, {o("loadorstore", 1, 6)}},
			{{o("store", 1, 5), o("store", 2, 6), o("range")}, {o("store", 3, 7), o("delete", 1)}},
			{{o("store", 1, 5), o("load", 9)}, {o("load", 9), o("load", 1)}, {o("store", 2, 2)}},
			{{o("store", 1, 5), o("load", 9), o("delete", 1), o("store", 2, 2), o("store", 1, 9)}, {o("load", 1)}},
			// three goroutines with one operation each: two complete operations fit between two steps of the first one within 2 preemptions
			{{o("store", 1, 5), o("load", 9), o("delete", 1), o("loadorstore", 1, 8)}, {o("store", 1, 6)}, {o("delete", 1)}},
			{{o("store", 1, 5), o("load", 9), o("loadorstore", 1, 8)}, {o("delete", 1)}, {o("store", 1, 7)}},
			{{o("store", 1, 5), o("load", 9), o("delete", 1), o("store", 1, 8)}, {o("loadorstore", 1, 6)}, {o("delete", 1)}},
			{{o("store", 1, 5), o("load", 9), o("loadanddelete", 1)}, {o("store", 1, 6)}, {o("loadanddelete", 1)}},
			{{o("store", 1, 5), o("store", 2, 6), o("load", 9), o("load", 9), o("range")}, {o("delete", 1)}, {o("store", 1, 7)}},
			// a fast-path Store / LoadOrStore on a nil entry of read.m races the expunge of that entry by a first use of another key, then a promotion
			{{o("store", 1, 5), o("load", 9), o("delete", 1), o("store", 1, 8), o("load", 1)}, {o("store", 2, 6), o("load", 9), o("load", 9)}},
			{{o("store", 1, 5), o("load", 9), o("delete", 1), o("loadorstore", 1, 8), o("load", 1)}, {o("store", 2, 6), o("load", 9), o("load", 9)}},
			// an expunged entry is un-expunged under the lock by one LoadOrStore while another one takes the fast path on it
			{{o("store", 1, 5), o("load", 9), o("delete", 1), o("store", 2, 6), o("loadorstore", 1, 8)}, {o("loadorstore", 1, 7)}},
			{{o("store", 1, 5), o("load", 9), o("delete", 1), o("store", 2, 6), o("store", 1, 8), o("load", 1)}, {o("loadorstore", 1, 7)}, {o("delete", 1)}},
		}
	case "set":
		return []program{
			{{o("add", 1)}, {o("add", 1)}},
			{{o("add", 1), o("remove", 1)}, {o("remove", 1)}},
			{{o("add", 1), o("has", 9), o("remove", 1)}, {o("add", 1), o("has", 1)}},
			{{o("add", 1), o("add", 2), o("len")}, {o("remove", 1), o("add", 3)}},
			{{o("addset", 1, 2)}, {o("addset", 2, 3)}, {o("has", 2)}},
			{{o("add", 1), o("has", 9), o("remove", 1), o("add", 2)}, {o("add", 1), o("remove", 1)}},
			{{o("add", 1), o("has", 9), o("remove", 1), o("add", 1)}, {o("add", 1)}, {o("remove", 1)}},
			{{o("add", 1), o("has", 9), o("add", 1)}, {o("remove", 1)}, {o("add", 1)}},
			// the value's entry is expunged (add, promote, remove, first use of another value), then two Adds of it overlap
			{{o("add", 1), o("has", 9), o("remove", 1), o("add", 2), o("add", 1)}, {o("add", 1)}},
			{{o("add", 1), o("has", 9), o("remove", 1), o("add", 1), o("has", 1)}, {o("add", 2), o("has", 9), o("has", 9)}},
			{{o("add", 1), o("has", 9), o("remove", 1), o("add", 2), o("add", 1), o("has", 1)}, {o("add", 1)}, {o("remove", 1)}},
		}
	case "km":
		return []program{
			{{o("lock", 1), o("unlock", 1)}, {o("lock", 1), o("unlock", 1)}},
			{{o("lock", 1), o("unlock", 1)}, {o("lock", 2), o("unlock", 2)}},
			{{o("lock", 1), o("unlock", 1)}, {o("trylock", 1), o("unlock?", 1)}},
			{{o("lock", 1), o("unlock", 1)}, {o("lock", 1), o("unlock", 1)}, {o("lock", 1), o("unlock", 1)}},
			{{o("lock", 1), o("lock", 2), o("unlock", 2), o("unlock", 1)}, {o("lock", 2), o("unlock", 2)}},
			// ClearKey of never-seen keys racing first uses while another key is held: the key table must survive
			{{o("lock", 1), o("clear", 9), o("trylock", 1), o("unlock?", 1), o("unlock", 1)}, {o("lock", 2), o("unlock", 2), o("clear", 8)}, {o("clear", 7), o("trylock", 1), o("unlock?", 1)}},
			{{o("lock", 1), o("lock", 2), o("unlock", 2)}, {o("clear", 9)}, {o("clear", 8), o("clear", 7), o("trylock", 1), o("unlock?", 1)}},
			// a cleared key is re-acquired lock-free while a first use of another key rebuilds the map's dirty copy; after the next promotion
			// the holder's mutex must still be the key's mutex (t0 ends HOLDING key 1; t2's TryLockKey(1) must fail from then on)
			// (t2 starts only after the ClearKey has returned: a ClearKey that overlaps another call on its key, or clears a held key, is outside
			// the property - and t2's UnlockKey would then unlock a fresh, unlocked mutex, which is a fatal error of the Go runtime)
			{{o("lock", 1), o("unlock", 1), o("clear", 1), o("signal", 0), o("lock", 1)}, {o("lock", 2), o("unlock", 2), o("lock", 2), o("unlock", 2)}, {o("await", 0), o("trylock", 1), o("unlock?", 1)}},
			{{o("lock", 1), o("unlock", 1), o("lock", 1), o("unlock", 1), o("clear", 1), o("signal", 0), o("lock", 1)}, {o("lock", 2), o("unlock", 2), o("lock", 3), o("unlock", 3), o("lock", 3), o("unlock", 3)}, {o("await", 0), o("trylock", 1), o("unlock?", 1)}},
		}
	case "krw":
		return []program{
			{{o("lock", 1), o("unlock", 1)}, {o("rlock", 1), o("runlock", 1)}},
			{{o("rlock", 1), o("runlock", 1)}, {o("rlock", 1), o("runlock", 1)}, {o("lock", 1), o("unlock", 1)}},
			{{o("lock", 1), o("unlock", 1)}, {o("tryrlock", 1), o("runlock?", 1)}},
			{{o("rlock", 1), o("runlock", 1)}, {o("trylock", 1), o("unlock?", 1)}},
			{{o("lock", 1), o("unlock", 1)}, {o("lock", 2), o("unlock", 2)}, {o("rlock", 1), o("runlock", 1)}},
		}
	}
	return nil
}

// ---------------------------------------------------------------------------------------------- exploration

type choicePoint struct {
	enabled []int
	chosen  int // index into enabled
	prev    int // worker that ran the previous step (-1 at the start)
}

// exhaustive: stateless DFS over schedules with a preemption bound
func exhaustive(target string, prog program, bound, limit int, emit func(comment string, lines []string)) int {
	var prefix []int // chosen worker ids
	count := 0
	for count < limit {
		var points []choicePoint
		prev := -1
		choose := func(en []int, step int) int {
			var id int
			if step < len(prefix) && contains(en, prefix[step]) {
				id = prefix[step]
			} else {
				// default: keep running the previous worker when it is enabled (no preemption), else the lowest id
				id = en[0]
				for _, e := range en {
					if e == prev {
						id = e
					}
				}
			}
			idx := 0
			for i, e := range en {
				if e == id {
					idx = i
				}
			}
			points = append(points, choicePoint{append([]int(nil), en...), idx, prev})
			prev = id
			return id
		}
		lines, _ := runOnce(target, prog, choose)
		count++
		sched := make([]string, len(points))
		for i, p := range points {
			sched[i] = strconv.Itoa(p.enabled[p.chosen])
		}
		emit(fmt.Sprintf("prog %s :: schedule %s", prog, strings.Join(sched, "")), lines)
		// backtrack: find the last point with an untried alternative within the preemption bound
		next := -1
		var nextID int
		for i := len(points) - 1; i >= 0 && next < 0; i-- {
			p := points[i]
			// preemptions used by the prefix before i
			pre := 0
			for j := 0; j < i; j++ {
				q := points[j]
				if q.prev >= 0 && q.enabled[q.chosen] != q.prev && contains(q.enabled, q.prev) {
					pre++
				}
			}
			// alternatives after the current choice, in a fixed order (ascending id, the default choice first already taken)
			order := altOrder(p)
			pos := 0
			for k, id := range order {
				if id == p.enabled[p.chosen] {
					pos = k
				}
			}
			for _, id := range order[pos+1:] {
				cost := pre
				if p.prev >= 0 && id != p.prev && contains(p.enabled, p.prev) {
					cost++
				}
				if cost <= bound {
					next, nextID = i, id
					break
				}
			}
		}
		if next < 0 {
			return count
		}
		np := make([]int, next+1)
		for j := 0; j < next; j++ {
			np[j] = points[j].enabled[points[j].chosen]
		}
		np[next] = nextID
		prefix = np
	}
	return count
}

func altOrder(p choicePoint) []int {
	// the default (previous worker if enabled) first, then ascending ids
	order := []int{}
	if contains(p.enabled, p.prev) {
		order = append(order, p.prev)
	}
	rest := append([]int(nil), p.enabled...)
	sort.Ints(rest)
	for _, id := range rest {
		if id != p.prev || !contains(p.enabled, p.prev) {
			order = append(order, id)
		}
	}
	return order
}

func contains(xs []int, x int) bool {
	for _, y := range xs {
		if y == x {
			return true
		}
	}
	return false
}

func schedMain(args []string) int {
	if len(args) < 4 {
		fmt.Fprintln(os.Stderr, "usage: harness sched <map|set|km|krw> <random|exhaustive> <seed> <n> [bound]")
		return 2
	}
	target, mode := args[0], args[1]
	seed, _ := strconv.ParseInt(args[2], 10, 64)
	n, _ := strconv.Atoi(args[3])
	bound := 2
	if len(args) > 4 {
		bound, _ = strconv.Atoi(args[4])
	}
	if len(args) > 5 && args[5] == "api" {
		apiOnly = true
	}
	w := bufio.NewWriterSize(os.Stdout, 1<<20)
	defer w.Flush()
	emit := func(comment string, lines []string) { printTrace(w, comment, lines) }
	switch mode {
	case "random":
		r := rand.New(rand.NewSource(seed))
		for i := 0; i < n; i++ {
			prog := randomProgram(r, target)
			var sched []string
			// PCT-flavoured random walk: mostly continue, sometimes switch
			prev := -1
			pswitch := []float64{0.15, 0.5, 0.9}[r.Intn(3)]
			choose := func(en []int, step int) int {
				id := en[r.Intn(len(en))]
				if contains(en, prev) && r.Float64() > pswitch {
					id = prev
				}
				prev = id
				sched = append(sched, strconv.Itoa(id))
				return id
			}
			lines, _ := runOnce(target, prog, choose)
			emit(fmt.Sprintf("prog %s :: schedule %s", prog, strings.Join(sched, "")), lines)
		}
	case "exhaustive":
		for _, prog := range catalogue(target) {
			exhaustive(target, prog, bound, n, emit)
		}
	case "replay":
		// harness sched <target> replay 0 0 0 "<program as printed in a trace comment>" "<schedule digits>": re-execute one schedule
		if len(args) < 7 {
			return 2
		}
		prog, err := parseProgram(args[5])
		if err != nil {
			fmt.Fprintln(os.Stderr, err)
			return 2
		}
		sched := args[6]
		var taken []string
		choose := func(en []int, step int) int {
			id := en[0]
			if step < len(sched) {
				if want := int(sched[step] - '0'); contains(en, want) {
					id = want
				}
			}
			taken = append(taken, strconv.Itoa(id))
			return id
		}
		lines, _ := runOnce(target, prog, choose)
		emit(fmt.Sprintf("prog %s :: schedule %s", prog, strings.Join(taken, "")), lines)
	default:
		return 2
	}
	return 0
}

// parseProgram reads the rendering produced by program.String(): "t0: store 1 5; load 1 | t1: load 1"
func parseProgram(s string) (program, error) {
	var p program
	for _, part := range strings.Split(s, " | ") {
		i := strings.Index(part, ":")
		if i < 0 {
			return nil, fmt.Errorf("bad program part %q", part)
		}
		var ops []schedOp
		for _, o := range strings.Split(part[i+1:], ";") {
			f := strings.Fields(o)
			if len(f) == 0 {
				continue
			}
			op := schedOp{name: f[0]}
			for _, a := range f[1:] {
				n, err := strconv.Atoi(a)
				if err != nil {
					return nil, err
				}
				op.args = append(op.args, n)
			}
			ops = append(ops, op)
		}
		p = append(p, ops)
	}
	return p, nil
}

var _ sync.Mutex
