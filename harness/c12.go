package main

import "gopkg.in/typ.v4/slices"

// C12: splicing helpers. A slice argument "<list> <extracap>" is backing[:len:len+extracap] of a backing array of
// len+extracap+2 cells whose cells beyond len hold the sentinel -7.
type c12 struct{}

func init() { register("C12", func() world { return c12{} }) }

const sentinel = -7

func mkSlice(vals []int, extra int) (s []int, backing []int) {
	backing = make([]int, len(vals)+extra+2)
	copy(backing, vals)
	for i := len(vals); i < len(backing); i++ {
		backing[i] = sentinel
	}
	return backing[:len(vals):len(vals)+extra], backing
}

// describe renders "<contents> <tail> <same/new>" for a result slice relative to the original backing array.
func describe(res []int, backing []int) string {
	// a slice of capacity 0 carries no observable pointer: it counts as still living in the original backing array
	same := cap(res) == 0
	if cap(res) > 0 && len(backing) > 0 {
		r := res[:1]
		same = &r[0] == &backing[0]
	}
	if same {
		return fmtInts(res) + " " + fmtInts(backing[len(res):]) + " same"
	}
	return fmtInts(res) + " [] new"
}

func (c12) step(t []string) string {
	switch t[0] {
	case "insert":
		need(t, 5)
		s, b := mkSlice(parseInts(t[1]), atoi(t[2]))
		slices.Insert(&s, atoi(t[3]), atoi(t[4]))
		return describe(s, b)
	case "insertslice":
		need(t, 5)
		s, b := mkSlice(parseInts(t[1]), atoi(t[2]))
		slices.InsertSlice(&s, atoi(t[3]), parseInts(t[4]))
		return describe(s, b)
	case "remove":
		need(t, 4)
		s, b := mkSlice(parseInts(t[1]), atoi(t[2]))
		slices.Remove(&s, atoi(t[3]))
		return describe(s, b)
	case "removeslice":
		need(t, 5)
		s, b := mkSlice(parseInts(t[1]), atoi(t[2]))
		slices.RemoveSlice(&s, atoi(t[3]), atoi(t[4]))
		return describe(s, b)
	case "fill":
		need(t, 3)
		s := parseInts(t[1])
		slices.Fill(s, atoi(t[2]))
		return fmtInts(s)
	case "repeat":
		need(t, 3)
		return fmtInts(slices.Repeat(atoi(t[1]), atoi(t[2])))
	case "reverse":
		need(t, 2)
		s := parseInts(t[1])
		slices.Reverse(s)
		return fmtInts(s)
	case "concat":
		need(t, 3)
		a, b := parseInts(t[1]), parseInts(t[2])
		r := slices.Concat(a, b)
		out := fmtInts(r)
		for i := range r {
			r[i] += 100
		}
		return out + " " + fmtInts(a) + " " + fmtInts(b)
	case "clone":
		need(t, 2)
		a := parseInts(t[1])
		r := slices.Clone(a)
		out := fmtInts(r)
		for i := range r {
			r[i] += 100
		}
		return out + " " + fmtInts(a)
	case "grow":
		need(t, 4)
		s, b := mkSlice(parseInts(t[1]), atoi(t[2]))
		r := slices.Grow(s, atoi(t[3]))
		same := "new"
		if cap(r) == 0 || &r[:1][0] == &b[0] {
			same = "same"
		}
		return fmtInts(r) + " " + same
	}
	return bad()
}
