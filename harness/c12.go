package main

import (
	"math"

	"gopkg.in/typ.v4/slices"
)

// C12: splicing helpers. A slice argument "<list> <extracap>" is backing[:len:len+extracap] of a backing array of
// len+extracap+2 cells whose cells beyond len hold the sentinel -7.
type c12 struct{}

func init() { register("C12", func() world { return c12{} }) }

const sentinel = -7

func mkSlice(vals []int, extra int) (s []int, backing []int) {
	backing = make([]int, len(vals)+extra+2)
	copy(backing, vals)
	for i := len(vals); i < len(backing); i++ {
		backing[i] = sentinel
	}
	return backing[: len(vals) : len(vals)+extra], backing
}

// describe renders "<contents> <tail> <same/new>" for a result slice relative to the original backing array.
func describe(res []int, backing []int) string {
	// a slice of capacity 0 carries no observable pointer: it counts as still living in the original backing array
	same := cap(res) == 0
	if cap(res) > 0 && len(backing) > 0 {
		r := res[:1]
		same = &r[0] == &backing[0]
	}
	if same {
		return fmtInts(res) + " " + fmtInts(backing[len(res):]) + " same"
	}
	return fmtInts(res) + " [] new"
}

func (c12) step(t []string) string {
	switch t[0] {
	case "insert":
		need(t, 5)
		s, b := mkSlice(parseInts(t[1]), atoi(t[2]))
		slices.Insert(&s, atoi(t[3]), atoi(t[4]))
		return describe(s, b)
	case "insertslice":
		need(t, 5)
		s, b := mkSlice(parseInts(t[1]), atoi(t[2]))
		slices.InsertSlice(&s, atoi(t[3]), parseInts(t[4]))
		return describe(s, b)
	case "remove":
		need(t, 4)
		s, b := mkSlice(parseInts(t[1]), atoi(t[2]))
		slices.Remove(&s, atoi(t[3]))
		return describe(s, b)
	case "removeslice":
		need(t, 5)
		s, b := mkSlice(parseInts(t[1]), atoi(t[2]))
		slices.RemoveSlice(&s, atoi(t[3]), atoi(t[4]))
		return describe(s, b)
	case "fill":
		need(t, 3)
		s := parseInts(t[1])
		slices.Fill(s, atoi(t[2]))
		return fmtInts(s)
	case "insertalias":
		// insertalias <list> <k>: the values to insert are the k cells lying directly BEHIND the destination in its own backing array (its spare
		// capacity), inserted at index len: argument aliasing.  result: the contents afterwards
		need(t, 3)
		vals, k := parseInts(t[1]), atoi(t[2])
		backing := make([]int, len(vals)+k)
		copy(backing, vals)
		for i := 0; i < k; i++ {
			backing[len(vals)+i] = 100 + i
		}
		dest := backing[:len(vals):len(backing)]
		slices.InsertSlice(&dest, len(vals), backing[len(vals):len(vals)+k])
		return fmtInts(dest)
	case "fillz":
		// type instantiations other than int: <n> <kind>; the result is, per element, 1 when the element IS the value filled in
		// kind 0: []float64 filled with -0.0 (sign observed)   1: [][]int filled with [7] (not comparable)   2: Repeat(-0.0, n)
		// kind 3: []string filled with ""  over non-empty strings   4: struct{a float64; b []int}   5: float32 -0
		need(t, 3)
		n, out := atoi(t[1]), []int{}
		b2i := func(b bool) int {
			if b {
				return 1
			}
			return 0
		}
		switch atoi(t[2]) {
		case 0:
			fs := make([]float64, n)
			for i := range fs {
				fs[i] = float64(i + 1)
			}
			slices.Fill(fs, math.Copysign(0, -1))
			for _, f := range fs {
				out = append(out, b2i(f == 0 && math.Signbit(f)))
			}
		case 1:
			ss := make([][]int, n)
			slices.Fill(ss, []int{7})
			for _, e := range ss {
				out = append(out, b2i(len(e) == 1 && e[0] == 7))
			}
		case 2:
			for _, f := range slices.Repeat(math.Copysign(0, -1), n) {
				out = append(out, b2i(f == 0 && math.Signbit(f)))
			}
		case 3:
			ss := make([]string, n)
			for i := range ss {
				ss[i] = "x"
			}
			slices.Fill(ss, "")
			for _, e := range ss {
				out = append(out, b2i(e == ""))
			}
		case 4:
			type rec struct {
				a float64
				b []int
			}
			rs := make([]rec, n)
			for i := range rs {
				rs[i] = rec{1, []int{1}}
			}
			slices.Fill(rs, rec{a: math.Copysign(0, -1)})
			for _, e := range rs {
				out = append(out, b2i(e.a == 0 && math.Signbit(e.a) && e.b == nil))
			}
		case 5:
			fs := make([]float32, n)
			for i := range fs {
				fs[i] = 1
			}
			slices.Fill(fs, float32(math.Copysign(0, -1)))
			for _, f := range fs {
				out = append(out, b2i(f == 0 && math.Signbit(float64(f))))
			}
		default:
			return bad()
		}
		return fmtInts(out)
	case "repeat":
		need(t, 3)
		return fmtInts(slices.Repeat(atoi(t[1]), atoi(t[2])))
	case "reverse":
		need(t, 2)
		s := parseInts(t[1])
		slices.Reverse(s)
		return fmtInts(s)
	case "concat":
		need(t, 3)
		a, b := parseInts(t[1]), parseInts(t[2])
		r := slices.Concat(a, b)
		out := fmtInts(r)
		for i := range r {
			r[i] += 100
		}
		return out + " " + fmtInts(a) + " " + fmtInts(b)
	case "clone":
		need(t, 2)
		a := parseInts(t[1])
		r := slices.Clone(a)
		out := fmtInts(r)
		for i := range r {
			r[i] += 100
		}
		return out + " " + fmtInts(a)
	case "grow":
		need(t, 4)
		s, b := mkSlice(parseInts(t[1]), atoi(t[2]))
		r := slices.Grow(s, atoi(t[3]))
		same := "new"
		if cap(r) == 0 || &r[:1][0] == &b[0] {
			same = "same"
		}
		return fmtInts(r) + " " + same
	}
	return bad()
}
