package main

import "gopkg.in/typ.v4/maps"

// C11: maps.Bimap[int,int]
type c11 struct{ bs map[int]*maps.Bimap[int, int] }

func init() { register("C11", func() world { return &c11{bs: map[int]*maps.Bimap[int, int]{}} }) }

func (w *c11) get(s string) *maps.Bimap[int, int] {
	b, ok := w.bs[atoi(s)]
	if !ok {
		panic(badOp{})
	}
	return b
}

func (w *c11) step(t []string) string {
	switch t[0] {
	case "new":
		w.bs[atoi(t[1])] = &maps.Bimap[int, int]{}
		return "ok"
	case "add":
		w.get(t[1]).Add(atoi(t[2]), atoi(t[3]))
		return "ok"
	case "rmf":
		w.get(t[1]).RemoveForward(atoi(t[2]))
		return "ok"
	case "rmr":
		w.get(t[1]).RemoveReverse(atoi(t[2]))
		return "ok"
	case "clear":
		w.get(t[1]).Clear()
		return "ok"
	case "clone":
		c := w.get(t[1]).Clone()
		w.bs[atoi(t[2])] = &c
		return "ok"
	case "getf":
		v, ok := w.get(t[1]).GetForward(atoi(t[2]))
		return itoa(v) + " " + btoa(ok)
	case "getr":
		k, ok := w.get(t[1]).GetReverse(atoi(t[2]))
		return itoa(k) + " " + btoa(ok)
	case "cf":
		return btoa(w.get(t[1]).ContainsForward(atoi(t[2])))
	case "cr":
		return btoa(w.get(t[1]).ContainsReverse(atoi(t[2])))
	case "len":
		return itoa(w.get(t[1]).Len())
	case "range":
		n := atoi(t[2])
		out := [][2]int{}
		w.get(t[1]).Range(func(k, v int) bool {
			out = append(out, [2]int{k, v})
			return !(n > 0 && len(out) >= n)
		})
		return fmtPairs(out)
	case "rangemut":
		// Range whose callback REMOVES a pair (key r) on its first call: every pair handed to the callback must be a pair of the bimap at that
		// moment (Go's map iteration never produces an entry removed before it was reached), no key twice; afterwards r is gone
		b := w.get(t[1])
		r := atoi(t[2])
		first, verdict := true, "ok"
		seen := map[int]bool{}
		b.Range(func(k, v int) bool {
			if got, ok := b.GetForward(k); !ok || got != v {
				verdict = "visited-a-pair-that-is-not-in-the-bimap:" + itoa(k) + ":" + itoa(v)
			}
			if seen[k] {
				verdict = "visited-twice:" + itoa(k)
			}
			seen[k] = true
			if first {
				first = false
				b.RemoveForward(r)
			}
			return true
		})
		return verdict
	case "obs":
		b := w.get(t[1])
		u := atoi(t[2])
		fw, rv := [][2]int{}, [][2]int{}
		for i := 0; i < u; i++ {
			if v, ok := b.GetForward(i); ok {
				fw = append(fw, [2]int{i, v})
			}
			if k, ok := b.GetReverse(i); ok {
				rv = append(rv, [2]int{i, k})
			}
		}
		return "[" + itoa(b.Len()) + "," + fmtPairs(fw) + "," + fmtPairs(rv) + "]"
	}
	return bad()
}
