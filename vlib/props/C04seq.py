"""sequential half of C04 (used by C04.py)."""


def history(rng, nops, keys):
    sc = []
    for _ in range(nops):
        k = rng.randrange(keys)
        r = rng.random()
        if r < 0.25: sc.append("store %d %d" % (k, rng.randrange(100)))
        elif r < 0.50: sc.append("load %d" % rng.randrange(keys + 1))
        elif r < 0.63: sc.append("loadorstore %d %d" % (k, rng.randrange(100)))
        elif r < 0.78: sc.append("loadanddelete %d" % rng.randrange(keys + 1))
        elif r < 0.86: sc.append("delete %d" % k)
        else: sc.append("range %d" % rng.randrange(-1, 4))
        sc.append("layout")
    return sc


def bighistory(rng, n):
    """a LARGE map (n keys: beyond any small-map threshold such as 64 / 256 entries): fill, promote, then rounds of
    delete some old keys / store a never-seen key (the dirty map is rebuilt from the read map: deleted entries are expunged) /
    store the deleted keys again (unexpunge) / promote / load everything touched; the internal layout is compared at the phase ends"""
    sc = ["store %d %d" % (k, k + 1) for k in range(n)]
    sc += ["range -1", "layout"]
    fresh = n
    for _ in range(3):
        ks = rng.sample(range(n), 3)
        for k in ks[:2]: sc.append(rng.choice(["delete %d", "loadanddelete %d"]) % k)
        sc += ["store %d %d" % (fresh, 7), "layout"]; fresh += 1
        sc.append(rng.choice(["store %d 55", "loadorstore %d 56"]) % ks[0])
        if rng.random() < 0.5: sc.append("loadorstore %d 57" % ks[1])
        sc.append(rng.choice(["range -1", "range 2", "load %d" % (fresh + 5)]))
        # enough misses to promote the dirty map through the miss counter as well
        if rng.random() < 0.5: sc += ["load %d" % (fresh + 9)] * 3
        sc += ["range -1", "layout"] + ["load %d" % k for k in ks] + ["load %d" % (fresh - 1)]
    return sc
