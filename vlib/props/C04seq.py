"""sequential half of C04 (used by C04.py)."""


def history(rng, nops, keys):
    sc = []
    for _ in range(nops):
        k = rng.randrange(keys)
        r = rng.random()
        if r < 0.25: sc.append("store %d %d" % (k, rng.randrange(100)))
        elif r < 0.50: sc.append("load %d" % rng.randrange(keys + 1))
        elif r < 0.63: sc.append("loadorstore %d %d" % (k, rng.randrange(100)))
        elif r < 0.78: sc.append("loadanddelete %d" % rng.randrange(keys + 1))
        elif r < 0.86: sc.append("delete %d" % k)
        else: sc.append("range %d" % rng.randrange(-1, 4))
        sc.append("layout")
    return sc
