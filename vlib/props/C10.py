"""C10 — PubSub delivers every event exactly once to every subscriber."""
from .. import traceprop

ID = "C10"
GEN = ["LockDiscipline.lean", "PubSubCalls.lean", "ChanShapes.lean"]   # lock discipline of pubsub.go regenerated from the source (tie 4B)
SHRINK = False
RULE = ("random scenarios, each in its own subprocess (GOMAXPROCS 1/2/8): 0-3 subscribers with buffers -1(default)/0/1/2, timeouts off or 2 ms, 3-8 actions drawn from the six publish "
        "variants (1-2 events, distinct values), gated receivers (allow c n), Unsub/UnsubAll (also of unknown and nil channels), Sub during traffic, WithOnly clones; all calls run in "
        "their own goroutines with small random delays; family clone-splice: a WithOnly clone, then Unsub/Sub of OTHER subscribers on the parent, then publishes through clone and parent; family live: every subscriber is received from without limit, no timeout "
        "(every call must return, every event - asynchronous ones too - must reach every subscriber that stays subscribed, deadlocks are verdicts; an asynchronous publish followed back to back by the Unsub of an earlier subscriber); events stamped by one atomic counter (invocations before, responses/receives/callbacks after); every trace must be accepted by the "
        "Lean transition system of pubsub.go and satisfy the history predicates (exactly-once, order, after-removal, error codes, exit status); scenarios that block for good are inconclusive; "
        "non-trivial = at least one publish and one subscriber")
ASSUMPTIONS = ["channels, select, timers, RWMutex (writer preference), WaitGroup by contract", "the 'eventually' of Pub/PubSlice is liveness under fairness and is not proved",
               "wall-clock timeouts: a timer is a nondeterministic choice in the model",
               "exactly-once for Wait/Sync variants is proved only in per-step form (C10.*_partial); the trace-level predicates check it on real executions"]


def explore(core, rng, tier, seed, search=False):
    n = 150 if tier == "quick" else 6000
    nc = 60 if tier == "quick" else 2000
    cmds = [["pubsub", rng.randrange(1 << 30), n, "noclone"], ["pubsub", rng.randrange(1 << 30), nc, "clone"]]
    return traceprop.explore(core, ID, cmds, min_events=6)


def replay(core, obj, path):
    return traceprop.replay(core, obj, path, ID)
