"""C13 — Chunk / Windowed / Pairs partition a slice exactly."""
from .. import scriptprop

ID = "C13"
GEN = ["Chunk.lean", "SlicesShapes.lean"]   # regenerated from the source on every run (tie 4B): kernels / call shapes / function shapes
RULE = ("sizes at the top of the int range (2^63-1, 2^63-2, 2^62, ...) for n in 0..5; " +
        "quick: every length n in 0..24 x every size in 1..26 (all remainders, size>n, size=n) for chunk/chunkfunc/windowed/windowedfunc, "
        "every n for pairs/pairsfunc, element values drawn from one PRNG; plus a malformed stream (size 0 and negative) judged against the model only; "
        "one script per (n,size); non-trivial = n >= 1")
ASSUMPTIONS = ["slices are compared by contents (sub-slice aliasing of the results is not observed)"]


def lst(rng, n):
    return "[" + ",".join(str(rng.randrange(0, 50)) for _ in range(n)) + "]"


def explore(core, rng, tier, seed, search=False):
    nmax, smax = (24, 26) if tier == "quick" else (70, 75)
    if search:
        nmax, smax = nmax + 10, smax + 10
    scripts = []
    for n in range(0, nmax + 1):
        for size in range(1, smax + 1):
            l = lst(rng, n)
            scripts.append(["chunk %s %d" % (l, size), "chunkfunc %s %d" % (l, size),
                            "windowed %s %d" % (l, size), "windowedfunc %s %d" % (l, size)])
        l = lst(rng, n)
        scripts.append(["pairs " + l, "pairsfunc " + l])
    # sizes at the top of the int range (size > n: one chunk, no window) — arithmetic on len+size must not overflow
    for n in (0, 1, 2, 5):
        for size in (2**63 - 1, 2**63 - 2, 2**62, 2**63 - 1 - n, 2**31, 2**32 + 1):
            l = lst(rng, n)
            scripts.append(["chunk %s %d" % (l, size), "chunkfunc %s %d" % (l, size), "windowed %s %d" % (l, size), "windowedfunc %s %d" % (l, size)])
    # astronomically long slices of zero-size elements (float arithmetic on the length, or len+size, must not be used): piece lengths only
    for n, size in ((2**53 + 1, 2**53), (2**53 + 3, (2**53 + 3) // 5), (2**62 + 7, 2**60), (2**63 - 1, 2**63 - 1), (2**63 - 1, 2**62), (2**53 + 1, 2**52 + 1), (10**17 + 1, 10**16)):
        scripts.append(["chunkunits %d %d %d" % (n, size, v) for v in ((0, 1, 2) if n - size + 1 <= 16 else (0, 1))])
    # MANY chunks (more than 1024, 2048, 4096): a clamped or staged allocation only engages there; divisible and non-divisible lengths
    for n, size in ((1024, 1), (1025, 1), (1026, 1), (2048, 2), (2049, 2), (2050, 2), (3072, 3), (3074, 3), (4097, 1), (5000, 4), (5001, 4), (9000, 2)):
        scripts.append(["chunkunits %d %d %d" % (n, size, v) for v in (0, 1)])
    for n, size in ((1025, 1), (2049, 2), (2048, 2), (1100, 1)):
        l = lst(rng, n)
        scripts.append(["chunk %s %d" % (l, size), "chunkfunc %s %d" % (l, size)])
    # malformed stream: size 0 / negative — outside the property; model vs implementation only
    for n in (0, 1, 3):
        l = lst(rng, n)
        scripts.append(["chunk %s 0" % l, "chunkfunc %s 0" % l])
    return scriptprop.explore(core, ID, scripts, nontrivial=lambda sc: not sc[0].split()[1] == "[]",
                              exhaustive=True)
