"""C09 — keyed mutexes: per-key mutual exclusion, cross-key independence."""
from .. import traceprop

ID = "C09"
SHRINK = False
GEN = ["KeyedCalls.lean", "MapHooks.lean", "MapFlow.lean"]   # method shapes of keyedmutex.go, atomic sites of map.go regenerated from the source (tie 4B)
RULE = ("executions under the controlled scheduler (verif hooks in sync2.Map and keyedmutex.go: one goroutine runnable at a time, a schedule is a list of goroutine ids): "
        "every schedule with at most 2 preemptions of a catalogue of 2-3 goroutine programs (first-use race on one key, two keys, try-lock against holder, readers/writer) "
        "ClearKey of never-used keys racing first uses, a cleared key re-acquired while another key's first use rebuilds the map) plus random programs of 2-4 goroutines x 1-3 lock/try-lock/unlock/clear operations "
        "over 1-3 keys under random schedules; native, truly parallel runs (3 goroutines, shared keys, a stream of never-seen keys, ClearKey of private keys), also under the race detector; a ClearKey that overlaps "
        "another call on its key puts the rest of the scenario outside the property (not judged); API-level inv/res traces must be accepted by the Lean keyed-mutex "
        "transition system and satisfy the occupancy predicate; non-trivial = at least 2 goroutines acquiring")
ASSUMPTIONS = ["the map inside the keyed mutex is atomic (MapAtomic: justified by C04; its concurrent half is not proved)", "sync.Mutex / sync.RWMutex by contract",
               "'never delays' is proved as 'never disables' (no time bound)", "under the controlled scheduler a goroutine parks before calling Lock, so 'pending writer blocks new readers' is not exercised"]


def explore(core, rng, tier, seed, search=False):
    n = 600 if tier == "quick" else 20000
    lim = 1500 if tier == "quick" else 100000
    s = rng.randrange(1 << 30)
    # step-level traces: judged by "C09" (the property: keyed-lock object, occupancy) and by "C09conc" (the tie: label for label an execution
    # of keyedmutex.go composed with the step-level model of the embedded sync2.Map)
    cmds = [["sched", "km", "exhaustive", 1, lim, 2], ["sched", "krw", "exhaustive", 1, lim, 2],
            ["sched", "km", "random", s, n, 2], ["sched", "krw", "random", s + 1, n, 2]]
    r1 = traceprop.explore(core, ID, cmds, min_events=8, also_judges=("C09conc",))
    # native, truly parallel runs (no controlled scheduler): first uses of never-seen keys and ClearKey racing lock-free lookups of other keys;
    # also under the race detector (a crash such as "concurrent map read and map write" is a failed acquisition of an unrelated key)
    r2 = traceprop.explore(core, ID + "native", [["kmstress", rng.randrange(1 << 30), 40 if tier == "quick" else 2000],
                                                 # a call with an unhashable key panics; every other key must stay usable afterwards
                                                 ["kmunhash", rng.randrange(1 << 30), 12 if tier == "quick" else 200]], min_events=8, judge=ID, with_corpus=False,
                           race_cmds=[["kmstress", rng.randrange(1 << 30), 40 if tier == "quick" else 1000]])
    from .C05 import join
    return join(r1, r2)


def replay(core, obj, path):
    return traceprop.replay(core, obj, path, ID, also_judges=("C09conc",))
