"""C20 — numeric and utility helpers over the whole value range."""
from .. import scriptprop

ID = "C20"
GEN = ["Math.lean", "MathShapes.lean", "UtilShapes.lean"]   # regenerated from the source on every run (tie 4B): kernels / call shapes / function shapes
RULE = ("all values of the 8-bit types for every single-argument function, all 16-bit values for digits10/digitssign10 (thorough; quick: stride + boundaries), "
        "all pairs of 8-bit values on a boundary-dense grid for compare/less/min/max, triples for clamp, boundary-dense 32/64-bit samples (0, +-1, 10^k, 10^k+-1, extremes), "
        "sum/product with wrap-around; float64 Sum/Product on operands whose rounding/overflow depends on grouping (IEEE bit patterns across the pipe); Zero/ZeroOf/IsZero with an IsZero method/TernCast (incl. failing assertion)/IsNil (untyped nil, typed nil pointers and slices)/Ref/DerefZero; non-trivial = every script")
ASSUMPTIONS = ["floating-point and string instantiations are covered by the generic order theorems only (no float crosses the pipe)",
               "Zero, ZeroOf, Ref, DerefZero, IsNil, TernCast, IsZero-with-method are definitional in the model and exercised by the repository's own tests only"]

TYPES = {"i8": (-2**7, 2**7 - 1), "i16": (-2**15, 2**15 - 1), "i32": (-2**31, 2**31 - 1), "i64": (-2**63, 2**63 - 1),
         "u8": (0, 2**8 - 1), "u16": (0, 2**16 - 1), "u32": (0, 2**32 - 1), "u64": (0, 2**64 - 1)}


def boundary(lo, hi):
    s = {lo, lo + 1, hi, hi - 1, 0, 1, 2}
    if lo < 0: s |= {-1, -2}
    k = 10
    while k <= hi + 1:
        for d in (-1, 0, 1):
            for sg in ((1, -1) if lo < 0 else (1,)):
                v = sg * k + d
                if lo <= v <= hi: s.add(v)
        k *= 10
    return sorted(s)


def explore(core, rng, tier, seed, search=False):
    scripts = []
    for ty, (lo, hi) in TYPES.items():
        signed = lo < 0
        if hi - lo < 300: vals = list(range(lo, hi + 1))
        elif hi - lo < 70000 and tier != "quick": vals = list(range(lo, hi + 1))
        else: vals = sorted(set(boundary(lo, hi) + [rng.randrange(lo, hi + 1) for _ in range(300)] + (list(range(lo, hi + 1, 97)) if hi - lo < 70000 else [])))
        sc = []
        for v in vals:
            sc += ["digits10 %s %d" % (ty, v), "digitssign10 %s %d" % (ty, v), "clamp01 %s %d" % (ty, v)]
            if signed: sc.append("abs %s %d" % (ty, v))
        scripts.append(sc)
        grid = boundary(lo, hi)
        if len(grid) > 24: grid = sorted(set(grid[:8] + grid[-8:] + rng.sample(grid, 8)))
        sc = []
        for a in grid:
            for b in grid:
                sc += ["compare %s %d %d" % (ty, a, b), "less %s %d %d" % (ty, a, b), "min %s [%d,%d]" % (ty, a, b), "max %s [%d,%d]" % (ty, a, b),
                       "sum %s [%d,%d]" % (ty, a, b), "product %s [%d,%d]" % (ty, a, b)]
        scripts.append(sc)
        g2 = grid if len(grid) <= 10 else sorted(set(rng.sample(grid, 10) + [lo, hi]))
        sc = []
        for v in g2:
            for a in g2:
                for b in g2:
                    if a <= b: sc.append("clamp %s %d %d %d" % (ty, v, a, b))
        scripts.append(sc)
        sc = ["min %s []" % ty, "max %s []" % ty, "sum %s []" % ty, "product %s []" % ty]
        for _ in range(40):
            xs = [rng.choice(grid) if rng.random() < 0.5 else rng.randrange(lo, hi + 1) for _ in range(rng.randrange(1, 6))]
            L = "[" + ",".join(map(str, xs)) + "]"
            sc += ["min %s %s" % (ty, L), "max %s %s" % (ty, L), "sum %s %s" % (ty, L), "product %s %s" % (ty, L)]
        # long argument lists, odd and even counts, the extremum at the first / last / a middle position (an unrolled or multi-lane scan only
        # engages beyond some dozens of arguments and typically mishandles the tail)
        for n in (8, 9, 16, 17, 31, 32, 33, 34, 63, 64, 65, 66, 127, 129, 257):
            for pos in (0, n - 1, n // 2, rng.randrange(n)):
                mid = (lo + hi) // 2
                xs = [rng.randrange(mid - 50, mid + 50) if hi - lo > 300 else rng.randrange(lo + 2, hi - 1) for _ in range(n)]
                for ext, op in ((lo if rng.random() < 0.5 else min(xs) - 1, "min"), (hi if rng.random() < 0.5 else max(xs) + 1, "max")):
                    ys = list(xs); ys[pos] = max(lo, min(hi, ext))
                    sc.append("%s %s [%s]" % (op, ty, ",".join(map(str, ys))))
            xs = [rng.randrange(lo, hi + 1) for _ in range(n)]
            L = "[" + ",".join(map(str, xs)) + "]"
            sc += ["sum %s %s" % (ty, L), "product %s %s" % (ty, L)]
        scripts.append(sc)
    # float64 Sum/Product: left-to-right, so operands whose rounding or overflow depends on the grouping
    import struct
    def bits(x): return struct.unpack("<q", struct.pack("<d", x))[0]
    pool = [1e16, 1.0, -1e16, 1.0, 0.1, 0.2, 0.3, 1.7976931348623157e308, -1.7976931348623157e308, 1e308, 3.0, 1e-300, 2.0**53, -2.0**53, 0.5, -0.0, float("inf")]
    sc = ["sum f64 [%d,%d,%d,%d]" % tuple(bits(x) for x in (1e16, 1.0, -1e16, 1.0)), "sum f64 []", "product f64 []"]
    for _ in range(120):
        xs = [rng.choice(pool) for _ in range(rng.randrange(0, 8))]
        L = "[" + ",".join(str(bits(x)) for x in xs) + "]"
        sc += ["sum f64 " + L, "product f64 " + L]
    # long argument lists (an unrolled / multi-accumulator summation only engages beyond some dozens of arguments)
    for n in (16, 31, 32, 33, 40, 64, 100, 257):
        for _ in range(3):
            xs = [rng.choice([1e16, 1.0, 1.0, 1.0, -1e16, 0.1, 3.0]) for _ in range(n)]
            xs[0] = 1e16
            sc.append("sum f64 [" + ",".join(str(bits(x)) for x in xs) + "]")
            ys = [rng.choice([1.0000001, 0.9999999, 1.5, 2.0, 0.5, 3.0]) for _ in range(n)]
            sc.append("product f64 [" + ",".join(str(bits(x)) for x in ys) + "]")
    scripts.append(sc)
    sc = []
    for _ in range(60):
        xs = [rng.choice([0, 0, 0, rng.randrange(-5, 6)]) for _ in range(rng.randrange(0, 6))]
        ys = [rng.choice([0, 0, 2, 4, 7, 1, 3]) for _ in range(rng.randrange(0, 5))]
        sc += ["coalm [%s]" % ",".join(map(str, ys))]
        sc += ["coal [%s]" % ",".join(map(str, xs)), "iszero %d" % rng.randrange(-2, 3), "tern %d %d %d" % (rng.randrange(2), rng.randrange(9), rng.randrange(9)),
               "zero", "zeroof %d" % rng.randrange(-9, 9), "iszerom %d" % rng.randrange(-4, 5), "iszeros %d" % rng.choice([0, 0, 7, 7, 1, 3]), "terncast %d %d %d %d" % (rng.randrange(2), rng.randrange(2), rng.randrange(9), rng.randrange(9)),
               "isnil %d" % rng.randrange(7), "ref %d" % rng.randrange(-9, 9), "derefzero %d %d" % (rng.randrange(2), rng.randrange(-9, 9))]
    scripts.append(sc)
    return scriptprop.explore(core, ID, scripts, nontrivial=lambda sc: True, exhaustive=True)
