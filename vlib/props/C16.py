"""C16 — Queue is FIFO and Stack is LIFO."""
from .. import scriptprop

ID = "C16"
GEN = ["QueueCalls.lean", "StackCalls.lean", "ListShapes.lean"]   # call shapes regenerated from the source on every run (tie 4B)
RULE = ("interleavings of enq/deq/qpeek/qlen and push/pop/speek/slen from the zero value with drain-to-empty and refill phases; "
        "deep phases (65..1000 elements pushed, drained to empty with peeks, reused) for either structure; plus every interleaving of length <= 7 over {enq,deq,qpeek} and {push,pop,speek} (exhaustive); non-trivial = at least 3 insertions and 3 removals")
ASSUMPTIONS = []


def history(rng, nops):
    sc = []
    phase_fill = True
    for i in range(nops):
        if rng.random() < 0.08: phase_fill = not phase_fill
        p = 0.7 if phase_fill else 0.25
        r = rng.random()
        q = rng.random() < 0.5
        if r < p: sc.append(("enq %d" if q else "push %d") % rng.randrange(100))
        elif r < 0.85: sc.append("deq" if q else "pop")
        elif r < 0.93: sc.append("qpeek" if q else "speek")
        else: sc.append("qlen" if q else "slen")
    sc += ["deq"] * 3 + ["pop"] * 3 + ["qlen", "slen", "enq 1", "deq", "push 2", "pop"]
    return sc


def deep(rng, n, q=None):
    """grow one structure to n elements (beyond any small-capacity threshold), drain it to empty, use it again"""
    q = (rng.random() < 0.4) if q is None else q
    push, pop, peek, ln = ("enq %d", "deq", "qpeek", "qlen") if q else ("push %d", "pop", "speek", "slen")
    sc = [push % i for i in range(n)] + [ln]
    for i in range(n + 1):
        sc.append(pop)
        if i % 17 == 0 or n - i < 4: sc += [peek, ln]
    sc += [push % 7, peek, pop, pop, ln]
    return sc


def exhaustive(maxlen, ops):
    out = []
    def rec(prefix, k):
        if prefix: out.append(prefix + [ops[3]])
        if len(prefix) < maxlen:
            for o in ops[:3]:
                rec(prefix + [o % k if "%d" in o else o], k + 1)
    rec([], 1)
    return out


def explore(core, rng, tier, seed, search=False):
    n, nops = (500, 60) if tier == "quick" else (10000, 200)
    scripts = [history(rng, nops) for _ in range(n)]
    scripts += [deep(rng, rng.choice([65, 100, 129, 300, 1000] if tier == "quick" else [65, 129, 257, 1025, 5000])) for _ in range(6 if tier == "quick" else 40)]
    # always: both structures past the capacities 1024 and 2048 (a growth or shrink path that only engages there), drained to empty
    scripts += [deep(rng, n, q) for n in (1100, 2600) for q in (False, True)]
    depth = 6 if tier == "quick" else 9
    scripts += exhaustive(depth, ["enq %d", "deq", "qpeek", "qlen"]) + exhaustive(depth, ["push %d", "pop", "speek", "slen"])
    nt = lambda sc: sum(1 for l in sc if l.startswith(("enq", "push"))) >= 3 and sum(1 for l in sc if l in ("deq", "pop")) >= 3
    return scriptprop.explore(core, ID, scripts, nontrivial=nt)
