"""C11 — Bimap keeps its two directions mutually inverse."""
from .. import scriptprop

ID = "C11"
GEN = ["BimapShapes.lean", "MapsShapes.lean"]   # regenerated from the source on every run (tie 4B): kernels / call shapes / function shapes
RULE = ("histories of add/rmf/rmr/clear/clone over keys 0..3 x values 0..3 (every collision pattern within a few operations) on 2-3 bimaps per world (zero values and clones), "
        "both lookups over the whole universe + Len + Range observed after every mutation; thorough: every history of length <= 4 exhaustively; non-trivial = at least 3 adds")
ASSUMPTIONS = ["independence of a clone is observed by continuing to mutate both, not proved"]


def history(rng, nops, U):
    sc = ["new 0"]
    live = [0]
    for _ in range(nops):
        h = rng.choice(live)
        r = rng.random()
        if r < 0.45: sc.append("add %d %d %d" % (h, rng.randrange(U), rng.randrange(U)))
        elif r < 0.58: sc.append("rmf %d %d" % (h, rng.randrange(U)))
        elif r < 0.71: sc.append("rmr %d %d" % (h, rng.randrange(U)))
        elif r < 0.74: sc.append("clear %d" % h)
        elif r < 0.80:
            h2 = rng.choice([x for x in (0, 1, 2) if x != h]); sc.append("clone %d %d" % (h, h2))
            if h2 not in live: live.append(h2)
        elif r < 0.84: sc.append("getf %d %d" % (h, rng.randrange(U + 1)))
        elif r < 0.88: sc.append("getr %d %d" % (h, rng.randrange(U + 1)))
        elif r < 0.91: sc.append(rng.choice(["cf %d %d", "cr %d %d"]) % (h, rng.randrange(U + 1)))
        elif r < 0.93: sc.append("range %d %d" % (h, rng.randrange(-1, 4)))
        elif r < 0.96: sc.append("rangemut %d %d" % (h, rng.randrange(U)))   # a callback that removes a pair during the iteration
        else: sc.append("len %d" % h)
        for g in live: sc.append("obs %d %d" % (g, U))
    return sc


def exhaustive(depth, U):
    ops = ["add 0 %d %d" % (k, v) for k in range(U) for v in range(U)] + ["rmf 0 %d" % k for k in range(U)] + ["rmr 0 %d" % v for v in range(U)]
    out = []
    def rec(prefix):
        if prefix: out.append(["new 0"] + prefix + ["obs 0 %d" % U, "range 0 0"])
        if len(prefix) < depth:
            for o in ops: rec(prefix + [o])
    rec([])
    return out


def explore(core, rng, tier, seed, search=False):
    n = 500 if tier == "quick" else 5000
    scripts = [history(rng, 30, 4) for _ in range(n)]
    scripts += exhaustive(3 if tier == "quick" else 4, 2 if tier == "quick" else 3)
    # large bimaps (a bulk path of Clear / Clone / Range that only engages beyond some hundreds of pairs): every direction observed afterwards
    for n in ((300, 1100) if tier == "quick" else (300, 1100, 5000)):
        sc = ["new 0"] + ["add 0 %d %d" % (k, n - 1 - k) for k in range(n)] + ["len 0", "clone 0 1", "len 1", "clear 0", "len 0"]
        for k in (0, 1, n // 2, n - 1):
            sc += ["getf 0 %d" % k, "getr 0 %d" % k, "cf 0 %d" % k, "cr 0 %d" % k, "getr 1 %d" % k, "cf 1 %d" % k]
        sc += ["range 0 0", "clone 0 2", "len 2", "getr 2 0", "add 0 1 1", "getr 0 1", "getr 0 %d" % (n - 2), "len 0", "obs 0 4",
               "rmf 1 0", "rmr 1 0", "len 1", "getr 1 %d" % (n - 1), "getf 1 %d" % (n - 1)]
        scripts.append(sc)
    nt = lambda sc: sum(1 for l in sc if l.startswith("add")) >= 3
    return scriptprop.explore(core, ID, scripts, nontrivial=nt)
