"""C08 — Array2D is a grid of independent cells for every width and height."""
from .. import scriptprop

ID = "C08"
GEN = ["Array2D.lean", "Array2DShapes.lean"]   # regenerated from the source on every run (tie 4B): kernels / call shapes / function shapes
RULE = ("exhaustive: every shape 0..5 x 0..5 with every coordinate in -1..w / -1..h for set/get/row/rowset/span/spanset, all four corner orders of fill, clone-then-mutate, "
        "filled and jagged constructors (rows shorter/longer, more/fewer rows than the array); plus random shapes up to 40x40 with random scripts (thorough: more); non-trivial = w*h >= 2 and w != h or any")
ASSUMPTIONS = ["liveness of Row/RowSpan windows and independence of Clone are observed (write through the window / mutate the clone), not proved", "String formatting (observed for int, string and float64 cells)"]


def shape_script(rng, w, h):
    sc = ["new 0 %d %d" % (w, h), "dims 0", "cells 0"]
    v = 1
    for y in range(-1, h + 1):
        for x in range(-1, w + 1):
            sc.append("set 0 %d %d %d" % (x, y, v)); v += 1
    sc.append("cells 0")
    for y in range(-1, h + 1):
        for x in range(-1, w + 1):
            sc.append("get 0 %d %d" % (x, y))
        sc.append("row 0 %d" % y)
        for i in (-1, 0, w - 1, w):
            sc.append("rowset 0 %d %d %d" % (y, i, 500 + i))
        for x1 in range(-1, w + 1):
            for x2 in range(x1 - 1 if x1 >= 0 else -1, w + 1):
                sc.append("span 0 %d %d %d" % (x1, x2, y))
        if w > 0:
            x1 = rng.randrange(w); x2 = rng.randrange(x1, w)
            sc.append("spanset 0 %d %d %d %d %d" % (x1, x2, y, rng.randrange(0, x2 - x1 + 1), 700))
    sc += ["cells 0", "cellss 0", "cellsf 0"]   # String() with string and float cells too (fmt is not parametric in the cell type)
    sc += ["clone 0 1", "cells 1"]
    if w > 0 and h > 0:
        sc += ["set 1 0 0 -5", "cells 0", "cells 1", "set 0 %d %d -6" % (w - 1, h - 1), "cells 1"]
    for _ in range(6):
        x1, x2 = rng.randrange(-1, w + 1), rng.randrange(-1, w + 1)
        y1, y2 = rng.randrange(-1, h + 1), rng.randrange(-1, h + 1)
        sc += ["fill 0 %d %d %d %d %d" % (x1, y1, x2, y2, rng.randrange(900, 999)), "cells 0"]
    if w > 0 and h > 0:
        sc += ["fill 0 %d %d 0 0 41" % (w - 1, h - 1), "cells 0", "fill 0 0 %d %d 0 42" % (h - 1, w - 1), "cells 0"]
    sc += ["filled 2 %d %d 9" % (w, h), "cells 2", "cellss 2", "cellsf 2"]
    for rows, cols in ((h, w), (h + 2, w + 2), (max(h - 1, 0), max(w - 1, 0)), (h + 1, 1), (1, w + 3), (0, 0)):
        j = "[" + ",".join("[" + ",".join(str(rng.randrange(1, 99)) for _ in range(rng.choice([cols, cols, max(cols - 1, 0)]))) + "]" for _ in range(rows)) + "]"
        sc += ["jagged 3 %d %d %s" % (w, h, j), "cells 3"]
    return sc


def random_script(rng, nops):
    w, h = rng.randrange(1, 41), rng.randrange(1, 41)
    sc = ["new 0 %d %d" % (w, h)]
    for _ in range(nops):
        r = rng.random()
        x, y = rng.randrange(-1, w + 1), rng.randrange(-1, h + 1)
        if r < 0.3: sc.append("set 0 %d %d %d" % (x, y, rng.randrange(1000)))
        elif r < 0.5: sc.append("get 0 %d %d" % (x, y))
        elif r < 0.6: sc.append("row 0 %d" % y)
        elif r < 0.7:
            x2 = rng.randrange(min(max(x, 0), w - 1), w)
            sc.append("span 0 %d %d %d" % (x, x2, y))
        elif r < 0.8: sc.append("fill 0 %d %d %d %d %d" % (x, y, rng.randrange(w), rng.randrange(h), rng.randrange(1000)))
        elif r < 0.9: sc.append("rowset 0 %d %d %d" % (y, rng.randrange(w), rng.randrange(1000)))
        else: sc.append("cells 0")
    sc.append("cells 0")
    return sc


def explore(core, rng, tier, seed, search=False):
    m = 5 if tier == "quick" else 7
    scripts = [shape_script(rng, w, h) for w in range(m + 1) for h in range(m + 1)]
    scripts += [random_script(rng, 40) for _ in range(60 if tier == "quick" else 1500)]
    return scriptprop.explore(core, ID, scripts, nontrivial=lambda sc: True, exhaustive=True)
