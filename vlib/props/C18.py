"""C18 — AtomicValue is an atomic register; Pool never hands one item to two users."""
from .. import traceprop

ID = "C18"
GEN = ["Pool.lean", "AtomicValueCalls.lean", "PoolCalls.lean"]   # regenerated from the source on every run (tie 4B)
SHRINK = False
RULE = ("native executions (GOMAXPROCS in {1,2,8}) of 2..4 goroutines x 2..6 operations on one AtomicValue[int] (load/store/swap/cas over values 0..3) and on one Pool[*item] "
        "(get/put with the callers' holding discipline, New set or nil), plus high-contention runs (3-4 goroutines x 150-300 swaps/stores/CAS of unique values resp. Get/Put loops, events stamped into per-goroutine "
        "buffers so that nothing but two atomic adds separates consecutive calls), the FIRST operations on a fresh AtomicValue issued simultaneously (spin barrier), "
        "producers Putting fresh items while consumers Get and keep them; invocation/response events stamped by one atomic counter; every history must be accepted by the "
        "Lean atomic-object system (linearizability to the register / bag specification) and satisfy the no-double-hold predicate; non-trivial = at least 4 events")
ASSUMPTIONS = ["atomic.Value and sync.Pool by contract", "data-race freedom is stated over the model's plain-access sets (C18.pool_race_free); the same scenarios are also run under the Go race detector as an observation (a report is a violation; silence proves nothing)"]


def explore(core, rng, tier, seed, search=False):
    n = 400 if tier == "quick" else 8000
    rn = 300 if tier == "quick" else 5000
    ns = 25 if tier == "quick" else 300
    return traceprop.explore(core, ID, [["av", rng.randrange(1 << 30), n], ["pool", rng.randrange(1 << 30), n],
                                        ["avstress", rng.randrange(1 << 30), ns], ["poolstress", rng.randrange(1 << 30), ns],
                                        ["avfirst", rng.randrange(1 << 30), 3000 if tier == "quick" else 40000], ["avtypes", rng.randrange(1 << 30), 400 if tier == "quick" else 8000], ["poolpc", rng.randrange(1 << 30), 12 if tier == "quick" else 300]], min_events=4,
                             race_cmds=[["pool", rng.randrange(1 << 30), rn], ["av", rng.randrange(1 << 30), rn]])


def replay(core, obj, path):
    return traceprop.replay(core, obj, path, ID)
