"""C01 — AVL tree is a sorted multiset under every operation history."""
from .. import scriptprop

ID = "C01"
GEN = ["AvlShapes.lean", "UtilShapes.lean", "MathShapes.lean"]   # regenerated from the source on every run (tie 4B): kernels / call shapes / function shapes
RULE = ("histories of add/remove(present|absent)/contains/len/clear/clone/pre,in,post blocks/walks/string over 3 tree handles per world, "
        "3 comparators (natural, reversed, (x mod 7,x)), value universes {0..7} (heavy duplicates) and {0..40}; plus every history of length <= 5 over {0,1,2} "
        "with add/remove in the thorough tier; non-trivial = at least one add and one remove or clone")
ASSUMPTIONS = ["independence of a clone is observed by continuing to mutate both trees, not proved", "String is fmt.Sprint of the in-order slice"]


def history(rng, nops, universe, blocks=True):
    sc, live, bags = [], [], {}
    cmp_id = rng.choice([0, 1, 2, 3, 4, 5])   # 3..5: the library's own typ.Compare (adjacent floats, ints at both ends of the range, plain ints)
    def new(h):
        sc.append("new %d %d" % (h, cmp_id)); bags[h] = []
        if h not in live: live.append(h)
    new(0)
    for _ in range(nops):
        h = rng.choice(live)
        r = rng.random()
        bag = bags[h]
        if r < 0.40:
            v = rng.randrange(universe); sc.append("add %d %d" % (h, v)); bag.append(v)
        elif r < 0.60 and bag:
            v = rng.choice(bag); sc.append("remove %d %d" % (h, v)); bag.remove(v)
        elif r < 0.70:
            v = rng.randrange(universe + 2)
            sc.append("remove %d %d" % (h, v))
            if v in bag: bag.remove(v)
        elif r < 0.80:
            sc.append("contains %d %d" % (h, rng.randrange(universe + 2)))
        elif r < 0.85:
            h2 = rng.choice([x for x in (0, 1, 2) if x != h])
            sc.append("clone %d %d" % (h, h2)); bags[h2] = list(bag)
            if h2 not in live: live.append(h2)
        elif r < 0.87:
            sc.append("clear %d" % h); bags[h] = []
        elif r < 0.89 and len(live) < 3:
            new(max(live) + 1)
        else:
            k = rng.randrange(5)
            if k == 0 and blocks: sc += ["pre %d" % h, "in %d" % h, "post %d" % h]
            elif k == 1: sc.append("len %d" % h)
            elif k == 2: sc.append("string %d" % h)
            elif k == 3: sc += ["wpre %d" % h, "win %d" % h, "wpost %d" % h]
            else: sc.append("in %d" % h)
    for h in live:
        sc += ["len %d" % h, "pre %d" % h, "in %d" % h, "post %d" % h]
    return sc


def exhaustive(maxlen):
    ops = ["add 0 %d" % v for v in range(3)] + ["remove 0 %d" % v for v in range(3)]
    out = []
    def rec(prefix):
        if prefix:
            out.append(["new 0 0"] + prefix + ["len 0", "in 0", "contains 0 0", "contains 0 1", "contains 0 2"])
        if len(prefix) < maxlen:
            for o in ops: rec(prefix + [o])
    rec([])
    return out


def explore(core, rng, tier, seed, search=False):
    n, nops = (300, 60) if tier == "quick" else (6000, 250)
    scripts = []
    for i in range(n):
        uni = 8 if i % 2 == 0 else (41 if tier == "quick" else rng.choice([41, 200, 500]))
        scripts.append(history(rng, nops, uni))
    ex = False
    if tier != "quick" or search:
        scripts += exhaustive(5); ex = True
    else:
        scripts += exhaustive(3)
    nt = lambda sc: any(l.startswith("add") for l in sc) and any(l.startswith(("remove", "clone")) for l in sc)
    return scriptprop.explore(core, ID, scripts, nontrivial=nt, exhaustive=False, stats={"exhaustive_small_histories": ex})
