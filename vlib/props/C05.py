"""C05 — sync2.Set is an atomic set under concurrent use."""
from .. import traceprop

ID = "C05"
GEN = ["MapHooks.lean", "SetCalls.lean", "MapFlow.lean"]   # atomic sites of map.go, call shape of Set.Add/Remove/Has regenerated from the source (tie 4B)
SHRINK = False
JUDGE = "ObjLin"
RULE = ("API-level histories of Add/Remove/Has/Len/AddSet/RemoveSet on one sync2.Set recorded (a) under the controlled scheduler: every schedule with at most 2 preemptions of a "
        "catalogue of 2-3 goroutine programs and random programs of 2-4 goroutines under random schedules, the set pre-aged so that promoted/amended/expunged layouts occur, and "
        "(b) natively with 2-6 goroutines (GOMAXPROCS 1/2/8), also under the Go race detector; each history is judged by the Lean driver for linearizability to the set "
        "specification (state-set construction over the generic atomic-object system; AddSet/RemoveSet as sequences of element operations inside their interval); "
        "non-trivial = at least 2 goroutines and 4 events")
ASSUMPTIONS = ["the theorems C05.alternate/has_between/atomic_seq/seq_history are about the sequential set specification and the sequential model; that every CONCURRENT execution linearizes "
               "to it rests on C04's concurrent half, which is validated by schedule exploration and trace acceptance, not yet proved (DESIGN §13 fallback (c))",
               "data-race freedom is observed with the race detector (a report is a violation; silence proves nothing)"]


def explore(core, rng, tier, seed, search=False):
    n = 500 if tier == "quick" else 20000
    lim = 1500 if tier == "quick" else 200000
    # (a) step-level traces under the controlled scheduler: "ObjLin" judges the property (linearizable to the set specification),
    #     "C04conc" the tie (every Set call is, label for label, the map call(s) set.go makes, in the transition system Model.SyncMapConc)
    cmds = [["sched", "set", "exhaustive", 1, lim, 2], ["sched", "set", "random", rng.randrange(1 << 30), n, 2]]
    r = traceprop.explore(core, ID, cmds, min_events=4, judge=JUDGE, also_judges=("C04conc",))
    # (b) native executions (API-level events), also under the race detector
    r2 = traceprop.explore(core, ID + "native", [["setstress", rng.randrange(1 << 30), n]], min_events=4, judge=JUDGE, with_corpus=False,
                           race_cmds=[["setstress", rng.randrange(1 << 30), 300 if tier == "quick" else 5000]])
    return join(r, r2)


def join(r, r2):
    n = r["n_scripts"]
    t1, t2 = r["trace_of"], r2["trace_of"]
    r["trace_of"] = lambda i: t1(i) if i < n else t2(i - n)
    r["bad"] = r["bad"] + [(b[0] + n,) + tuple(b[1:]) for b in r2["bad"]]
    for k in ("lines", "ok", "cex", "corr", "int"):
        r["summary"][k] = str(int(r["summary"].get(k, 0)) + int(r2["summary"].get(k, 0)))
    r["summary"]["tags"].update(r2["summary"]["tags"])
    r["n_scripts"] += r2["n_scripts"]
    r["distinct_nontrivial"] += r2["distinct_nontrivial"]
    r["stats"] = {"scheduled": r["stats"], "native": r2["stats"]}
    r["samples"] = r["samples"][:1] + r2["samples"][:1]
    r["race_runs"] = r2.get("race_runs")
    return r


def replay(core, obj, path):
    return traceprop.replay(core, obj, path, ID, judge=JUDGE, also_judges=("C04conc",))
