"""C02 — the AVL tree stays height-balanced after every Add and Remove."""
from .. import scriptprop

ID = "C02"
GEN = ["Avl.lean", "AvlShapes.lean"]   # regenerated from the source on every run (tie 4B): kernels / call shapes / function shapes
RULE = ("random add/remove histories (continued on clones of the tree) with the shape (cached heights included) and the comparator-call count observed after every operation, "
        "plus targeted orders: ascending, descending, zig-zag, delete-min repeatedly, delete-root repeatedly, random bulk delete; sizes to 300 quick / 5000 thorough; "
        "non-trivial = at least 8 adds")
ASSUMPTIONS = ["wall-clock cost is not observed, only comparator calls", "shape is read through the verif-tagged hook Tree.VerifShape"]
TRUSTED = ["the real-valued form height <= 1.4405*log2(n+2) is the integer statement C02.depth_log_int (2^(84h) <= (n+2)^121) plus taking logarithms, which is not formalised"]


def random_hist(rng, nops, universe):
    sc, bag, h = ["new 0 %d" % rng.choice([0, 1, 2, 3, 4, 5])], [], 0
    for _ in range(nops):
        r = rng.random()
        if r < 0.55 or not bag:
            v = rng.randrange(universe); sc.append("add %d %d" % (h, v)); bag.append(v)
        elif r < 0.85:
            v = rng.choice(bag); sc.append("remove %d %d" % (h, v)); bag.remove(v)
        elif r < 0.91:
            sc.append("remove %d %d" % (h, rng.randrange(universe + 3)))
            v = int(sc[-1].split()[2])
            if v in bag: bag.remove(v)
        elif r < 0.94 and len(bag) >= 3:
            # the history continues on a CLONE: its cached heights must be as exact as the original's
            sc += ["clone %d %d" % (h, 1 - h), "shape %d" % h]
            h = 1 - h
        else:
            sc.append("contains %d %d" % (h, rng.randrange(universe + 3)))
        sc.append("shape %d" % h)
    return sc


def targeted(rng, kind, n, every):
    sc = ["new 0 0"]
    if kind == "asc": order = list(range(n))
    elif kind == "desc": order = list(range(n, 0, -1))
    elif kind == "zigzag":
        order = []
        lo, hi = 0, n
        while lo <= hi:
            order.append(lo); lo += 1
            if lo <= hi: order.append(hi); hi -= 1
    else:
        order = list(range(n)); rng.shuffle(order)
    for i, v in enumerate(order):
        sc.append("add 0 %d" % v)
        if i % every == 0: sc.append("shape 0")
    sc.append("shape 0")
    h = 0
    if rng.random() < 0.5:
        sc += ["clone 0 1", "shape 1", "shape 0"]   # the removals go to a clone
        h = 1
    present = sorted(order)
    mode = rng.choice(["min", "max", "mid", "random"])
    i = 0
    while present and i < n:
        if mode == "min": v = present.pop(0)
        elif mode == "max": v = present.pop()
        elif mode == "mid": v = present.pop(len(present) // 2)
        else: v = present.pop(rng.randrange(len(present)))
        sc.append("remove %d %d" % (h, v))
        if i % every == 0: sc.append("shape %d" % h)
        i += 1
    sc += ["shape %d" % h, "len %d" % h]
    return sc


def explore(core, rng, tier, seed, search=False):
    scripts = []
    n = 120 if tier == "quick" else 1500
    for i in range(n):
        scripts.append(random_hist(rng, 60 if tier == "quick" else 200, rng.choice([6, 30, 200])))
    sizes = [15, 64, 300] if tier == "quick" else [15, 64, 300, 1023, 5000]
    for kind in ("asc", "desc", "zigzag", "random"):
        for sz in sizes:
            scripts.append(targeted(rng, kind, sz, 1 if sz <= 64 else 16))
    nt = lambda sc: sum(1 for l in sc if l.startswith("add")) >= 8
    return scriptprop.explore(core, ID, scripts, nontrivial=nt)
