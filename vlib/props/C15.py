"""C15 — sorting and searching helpers order correctly, stably where promised."""
from .. import scriptprop

ID = "C15"
GEN = ["SortShapes.lean"]   # regenerated from the source on every run (tie 4B): kernels / call shapes / function shapes
RULE = ("slices of length 0..200 with at most 4 distinct keys (ties) and with distinct keys, elements tagged with their original index so that stability is observable; "
        "lengths above 12 matter because the library switches away from insertion sort there; binary searches for every target present/absent/below/above on ascending slices; "
        "every Func sort also run on two NON-comparable element instantiations (struct with a slice field, interface elements holding maps) and compared with the comparable one; shuffles judged as permutations, ShuffleRand replayed from the recorded swap stream; non-trivial = length >= 2")
ASSUMPTIONS = ["sort.Sort/Stable/Search and rand.Shuffle by contract (reference implementations proved to contract)"]


def lst(vals):
    return "[" + ",".join(map(str, vals)) + "]"


def explore(core, rng, tier, seed, search=False):
    scripts = []
    lens = list(range(0, 30)) + [40, 64, 100, 150, 200]
    reps = 3 if tier == "quick" else 40
    hist = {}
    for n in lens:
        for _ in range(reps):
            nk = rng.choice([2, 3, 4, max(n, 1) * 3])
            keys = [rng.randrange(nk) for _ in range(n)]
            L = lst(keys)
            sc = ["sort " + L, "sortdesc " + L, "sortfunc " + L, "sortdescfunc " + L, "sortstable " + L, "sortstabledesc " + L,
                  "shuffle " + L, "shufflerand %s %d" % (L, rng.randrange(1000))]
            asc = sorted(keys)
            for t in sorted(set([-1, nk + 1] + [rng.randrange(nk + 1) for _ in range(4)])):
                sc += ["bsearch %s %d" % (lst(asc), t), "bsearchfunc %s %d" % (lst(asc), t)]
            scripts.append(sc)
            hist[n] = hist.get(n, 0) + 1
    nt = lambda sc: sc[0].count(",") >= 1
    # lengths at the top of the int range (zero-size elements): the midpoint computation must not overflow
    M = 2**63 - 1
    scripts.append(["bsearchunits %d %d" % (n, a) for n in (0, 1, 1 << 20, M // 2 - 1, M // 2, M // 2 + 1, M // 2 + 2, M // 4 * 3 + 5, M - 1, M) for a in (0, 1)])
    return scriptprop.explore(core, ID, scripts, nontrivial=nt, stats={"length_histogram": hist})
