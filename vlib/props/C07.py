"""C07 — slices.Sorted is always sorted and an exact multiset."""
from .. import scriptprop

ID = "C07"
GEN = ["SortedShapes.lean", "SlicesShapes.lean"]   # regenerated from the source on every run (tie 4B): kernels / call shapes / function shapes
RULE = ("histories from NewSorted over initial slices of length 0..12 (unsorted, with duplicates, with spare capacity) then add/remove(present|absent)/removeat/index/contains/get/len/slice/input, "
        "universe 6, less in {<, >, x/2<y/2 (ties between distinguishable values)}, NewSortedOrdered over ints and over strings (the caller's slice re-observed); out-of-range positions are part of the property (panics); deep histories: 40..300 (thorough: ..5000) elements shrunk to almost nothing and grown again; non-trivial = at least 4 mutations")
ASSUMPTIONS = ["sort.SliceStable and sort.Search are modelled by reference implementations proved to contract"]


def history(rng, nops, uni):
    less = rng.randrange(5)   # 3, 4: NewSortedOrdered over ints / strings
    init = [rng.randrange(uni) for _ in range(rng.randrange(13))]
    sc = ["new %d [%s] %d" % (less, ",".join(map(str, init)), rng.randrange(5)), "slice", "input"]
    n = len(init)
    for _ in range(nops):
        r = rng.random()
        if r < 0.04: sc.append("addpanic %d %d" % (rng.randrange(uni), rng.randrange(1, 6))); n += 1   # less panics during the Add (recovered)
        elif r < 0.30: sc.append("add %d" % rng.randrange(uni)); n += 1
        elif r < 0.50: sc.append("remove %d" % rng.randrange(uni + 2))
        elif r < 0.60: sc.append("removeat %d" % rng.randrange(-1, n + 2))
        elif r < 0.70: sc.append("index %d" % rng.randrange(uni + 1))
        elif r < 0.78: sc.append("contains %d" % rng.randrange(uni + 1))
        elif r < 0.88: sc.append("get %d" % rng.randrange(-1, n + 2))
        elif r < 0.92: sc.append("len")
        else: sc.append("slice")
        if rng.random() < 0.3: sc.append("slice")
    sc += ["slice", "input", "len"]
    return sc


def deep(rng, n):
    """a large Sorted (beyond any small-capacity threshold) shrunk to a fraction of its size, then grown again"""
    less = rng.randrange(3)
    uni = rng.choice([8, 50, 1000])
    k = rng.randrange(0, n + 1)
    init = [rng.randrange(uni) for _ in range(k)]
    sc = ["new %d [%s] %d" % (less, ",".join(map(str, init)), rng.randrange(3)), "len"]
    sc += ["add %d" % rng.randrange(uni) for _ in range(n - k)] + ["len", "slice"]
    m = n
    for i in range(n - rng.randrange(0, 8)):
        if rng.random() < 0.5: sc.append("removeat %d" % rng.randrange(m))
        else: sc.append("removeat %d" % rng.choice([0, m - 1]))
        m -= 1
        if i % 25 == 0 or m < 6: sc += ["len", "slice"]
    sc += ["add %d" % rng.randrange(uni) for _ in range(5)] + ["slice", "len", "input"]
    return sc


def explore(core, rng, tier, seed, search=False):
    n, nops = (400, 40) if tier == "quick" else (10000, 120)
    scripts = [history(rng, nops, 6 if i % 3 else 12) for i in range(n)]
    scripts += [deep(rng, rng.choice([40, 130, 140, 300] if tier == "quick" else [130, 300, 1100, 5000])) for _ in range(8 if tier == "quick" else 60)]
    scripts += [deep(rng, n) for n in (1100, 2600)]   # always: past the capacities 1024 / 2048, then drained
    nt = lambda sc: sum(1 for l in sc if l.startswith(("add", "remove"))) >= 4
    return scriptprop.explore(core, ID, scripts, nontrivial=nt)
