"""C19 — channel helpers never lose, duplicate or invent a value."""
from .. import scriptprop

ID = "C19"
GEN = ["ChanShapes.lean"]   # regenerated from the source on every run (tie 4B): kernels / call shapes / function shapes
SHRINK = False
RULE = ("queued receivers: exhaustive capacity 0..5 x fill 0..cap x closed x limit 0..7 (exact against model and take/drop specification); timed helpers: one scenario per "
        "(capacity, fill, closed, timeout/context kind, peer behaviour) with 1-3 ms timers on the real code, the outcome must be in the outcome set the Lean scenario system allows and "
        "satisfy conservation; concurrent queued receivers: 2-4 goroutines call RecvQueued at once on a channel of up to 2000 queued values (open or closed, no sender) — every value goes to "
        "exactly one of them in FIFO order, nothing is invented, a caller stops short of its limit only when nothing is left; deadlocking parameter combinations are skipped; non-trivial = fill >= 1 or a peer")
ASSUMPTIONS = ["channels, select, timers and contexts by contract", "wall-clock: timers are only ever short (drive the timeout branch) or absent (drive the blocking branch); when both are ready either outcome is accepted"]


def LINE_COST_S(line):
    """expected wall-clock seconds of a line that waits on real timers (the runner adds 3x this to its hang timeout)"""
    t = line.split()
    try:
        if t[0] == "recvclose":      # <cap> <tmo_ms> <rounds> <procs>
            return int(t[3]) * (int(t[2]) + 0.3) / 1000.0
        if t[0] == "sendrace":       # <mode> <tmo> <rounds> <procs>: mode 0 tmo in us, mode 1 in ns
            return int(t[3]) * (int(t[2]) + 150) / 1e6 if t[1] == "0" else int(t[3]) * 2e-6
        if t[0] in ("sendtimeout", "sendcontext", "recvtimeout", "recvcontext"):
            return 0.25
    except (ValueError, IndexError):
        pass
    return 0.0


def explore(core, rng, tier, seed, search=False):
    scripts = []
    sc = []
    for cap in range(6):
        for fill in range(cap + 1):
            for closed in (0, 1):
                for lim in range(8):
                    sc.append("recvqueued %d %d %d %d" % (cap, fill, closed, lim))
                    sc.append("recvqueuedfull %d %d %d %d" % (cap, fill, closed, lim))
    scripts.append(sc)
    reps = 1 if tier == "quick" else 6
    sc = []
    for _ in range(reps):
        for cap in range(3):
            for fill in range(cap + 1):
                full = fill == cap
                for peer in (0, 1, 2):
                    for tmo in (0, 2, -1, -3):   # non-positive (also strictly negative) = wait without limit
                        if tmo <= 0 and full and peer in (0, 2):
                            continue   # would block forever
                        sc.append("sendtimeout %d %d %d %d" % (cap, fill, tmo, peer))
                    for ctx in (0, 1, 2):
                        if ctx == 0 and full and peer in (0, 2):
                            continue
                        sc.append("sendcontext %d %d %d %d" % (cap, fill, ctx, peer))
                for closed in (0, 1):
                    for peer in (0, 1):
                        if closed and peer: continue
                        for tmo in (0, 2, -1, -3):
                            if tmo <= 0 and fill == 0 and not closed and peer == 0:
                                continue
                            sc.append("recvtimeout %d %d %d %d %d" % (cap, fill, closed, tmo, peer))
                        for ctx in (0, 1, 2):
                            if ctx == 0 and fill == 0 and not closed and peer == 0:
                                continue
                            sc.append("recvcontext %d %d %d %d %d" % (cap, fill, closed, ctx, peer))
    scripts.append(sc)
    # the caller's buffer with spare capacity behind its length (the limit is len(buf); the spare part stays untouched)
    sc = []
    for cap in range(5):
        for fill in range(cap + 1):
            for closed in (0, 1):
                for bl in range(4):
                    for extra in (1, 3):
                        sc.append("recvqueuedfullcap %d %d %d %d %d" % (cap, fill, closed, bl, bl + extra))
    scripts.append(sc)
    # a close racing the timer of RecvTimeout on an empty channel: (0,false) whichever wins
    scripts.append(["recvclose %d %d %d %d" % (c, t, 150 if tier == "quick" else 3000, p) for c in (0, 1) for t in (1, 2) for p in (1, 4)])
    # a hand-over racing the timer of SendTimeout: true exactly when handed over, whichever wins
    scripts.append(["sendrace 0 %d %d %d" % (t, 300 if tier == "quick" else 6000, p) for t in (150, 300) for p in (2, 4)] +
                   ["sendrace 1 %d %d %d" % (t, 60000 if tier == "quick" else 1000000, p) for t in (1, 40) for p in (1, 4)])
    # concurrent queued receivers (no sender): conservation under real parallelism
    sc = []
    for _ in range(40 if tier == "quick" else 1000):
        fill = rng.choice([0, 5, 64, 2000, 5000, 5000])
        sc.append("recvqueuedconc %d %d %d %d %d" % (fill + rng.randrange(3), fill, rng.choice([0, 1, 1]), rng.choice([2, 3, 4]), rng.choice([fill + 1, fill + 1, fill + 1, max(1, fill // 2), 3])))
    scripts.append(sc)
    return scriptprop.explore(core, ID, scripts, nontrivial=lambda s: True, exhaustive=True)
