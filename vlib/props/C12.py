"""C12 — splicing helpers equal the splice model for every index and capacity."""
from .. import scriptprop

ID = "C12"
GEN = ["SlicesShapes.lean", "SortShapes.lean"]   # regenerated from the source on every run (tie 4B): kernels / call shapes / function shapes
RULE = ("exhaustive: every length 0..6 x every spare capacity 0..4 x every valid position x inserted lengths 0..3 / removal lengths (insert, insertslice, remove, removeslice), "
        "the cells behind the logical end are observed (guard suffix), fill/repeat/reverse for every length 0..20, concat/clone with mutation of the result, grow; "
        "plus random lengths to 200 (thorough) and a malformed stream (negative and far-out positions) judged against the model only")
ASSUMPTIONS = ["'shares no memory' for Concat/Clone is observed (mutate the result, re-read the inputs), not proved", "append/copy by contract",
               "InsertSlice whose values alias the receiver's own backing array is neither generated nor covered by a theorem"]


def lst(vals):
    return "[" + ",".join(map(str, vals)) + "]"


def long_fills(rng, tier):
    """Fill / Repeat far beyond the first doublings of the copy loop"""
    sc = []
    for n in ([4097, 8193, 12289, 16385, 40000] if tier == "quick" else [4097, 12289, 16385, 65537, 100001, 300000]):
        sc += ["repeat 3 %d" % n, "fill [%s] 9" % ",".join(["0"] * n)]
        sc += ["fillz %d %d" % (n, k) for k in range(6)]   # float -0, non-comparable, string, struct element types
    return sc


def explore(core, rng, tier, seed, search=False):
    scripts = []
    maxlen = 6 if tier == "quick" else 9
    for n in range(maxlen + 1):
        base = [10 + i for i in range(n)]
        for extra in range(5):
            sc = []
            for i in range(n + 1):
                sc.append("insert %s %d %d 99" % (lst(base), extra, i))
                for k in range(4):
                    sc.append("insertslice %s %d %d %s" % (lst(base), extra, i, lst([70 + j for j in range(k)])))
            for i in range(n):
                sc.append("remove %s %d %d" % (lst(base), extra, i))
            for i in range(n + 1):
                for k in range(n - i + 1):
                    sc.append("removeslice %s %d %d %d" % (lst(base), extra, i, k))
            for g in range(4):
                sc.append("grow %s %d %d" % (lst(base), extra, g))
            scripts.append(sc)
    sc = []
    for n in range(21):
        vals = [rng.randrange(50) for _ in range(n)]
        sc += ["fill %s 7" % lst(vals), "repeat 3 %d" % n, "reverse %s" % lst(vals), "clone %s" % lst(vals)]
        sc += ["fillz %d %d" % (n, k) for k in range(6)]
        sc += ["insertalias %s %d" % (lst(vals), k) for k in (0, 1, 3)]   # the inserted values live in the destination's own spare capacity
        m = rng.randrange(6)
        sc.append("concat %s %s" % (lst(vals), lst([rng.randrange(50) for _ in range(m)])))
    scripts.append(sc)
    if tier != "quick" or search:
        for _ in range(400):
            n = rng.randrange(200)
            vals = [rng.randrange(1000) for _ in range(n)]
            extra = rng.randrange(10)
            i = rng.randrange(n + 1)
            k = rng.randrange(n - i + 1)
            scripts.append(["insert %s %d %d 5" % (lst(vals), extra, i), "insertslice %s %d %d %s" % (lst(vals), extra, i, lst(list(range(rng.randrange(12))))),
                            "removeslice %s %d %d %d" % (lst(vals), extra, i, k), "fill %s 1" % lst(vals), "reverse %s" % lst(vals)] +
                           (["remove %s %d %d" % (lst(vals), extra, min(i, n - 1))] if n else []))
    # malformed stream (outside the property): negative and far-out positions always panic
    scripts.append(["insert [1,2,3] 1 -1 9", "insert [1,2,3] 1 1000 9", "remove [1,2,3] 0 -1", "remove [1,2,3] 0 3", "remove [] 0 0",
                    "removeslice [1,2,3] 0 2 2", "removeslice [1,2,3] 0 -1 1", "insertslice [1,2] 0 -1 [5]", "insertslice [1,2] 0 1000 [5]"])
    scripts.append(long_fills(rng, tier))
    return scriptprop.explore(core, ID, scripts, exhaustive=True)
