"""C17 — Once1/2/3 run the action exactly once and share its results."""
from .. import traceprop

ID = "C17"
GEN = ["OnceShapes.lean"]   # regenerated from the source on every run (tie 4B): kernels / call shapes / function shapes
SHRINK = False
RULE = ("native executions (GOMAXPROCS in {1,2,8}) of 1..8 racing callers plus 0..3 late callers of Once1/Once2/Once3.Do with distinct functions; the running function is gated "
        "by the harness until a random number of further callers have arrived; events call/fstart/fend/ret stamped by one atomic counter; "
        "every trace must be accepted by the Lean transition system of sync.Once + wrapper and satisfy the history predicate; scenarios with error-typed last results (Once1[error], Once2[int,error], Once3[int,int,error]; nil and non-nil), with functions that panic (the invocation still counts, later callers get zero values and invoke nothing) and with late callers passing a nil function; non-trivial = at least 2 callers")
ASSUMPTIONS = ["Go memory-model visibility of the result fields follows from sync.Once's documented happens-before (trusted)", "sync.Mutex and atomic flag by contract"]


def explore(core, rng, tier, seed, search=False):
    n = 400 if tier == "quick" else 20000
    return traceprop.explore(core, ID, [["once", rng.randrange(1 << 30), n]], min_events=6,
                             race_cmds=[["once", rng.randrange(1 << 30), 150 if tier == "quick" else 3000]])


def replay(core, obj, path):
    return traceprop.replay(core, obj, path, ID)
