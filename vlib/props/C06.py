"""C06 — lists.List / lists.Ring behave exactly like container/list / container/ring."""
from .. import scriptprop

ID = "C06"
GEN = ["ListShapes.lean", "RingShapes.lean"]   # regenerated from the source on every run (tie 4B): kernels / call shapes / function shapes
RULE = ("three-way lock-step histories (fork, standard library, Lean heap model + sequence spec) over 3 lists (one a never-initialised zero value) with element handles "
        "drawn from live, removed and foreign elements, PushBackList/PushFrontList incl. onto itself, Init; and ring histories with counts in -7..7, multiples of the ring length and counts far beyond it (63..1006, both signs), "
        "Link of same-ring and different-ring positions, Unlink, zero-value rings (incl. the FIRST call on a never-touched zero ring), Link(nil); non-trivial = at least 5 mutating operations")
ASSUMPTIONS = ["container/list and container/ring are the oracle named by the property", "Ring.Do callbacks do not mutate the ring"]


def list_hist(rng, nops, allow_init):
    sc = ["lnew 0", "lzero 1", rng.choice(["lnew 2", "lzero 2"])]
    ne = 0
    lens = {0: 0, 1: 0, 2: 0}   # rough bookkeeping only to number new elements of push*list
    owner = {}
    for _ in range(nops):
        l = rng.randrange(3)
        r = rng.random()
        e = rng.randrange(ne) if ne else None
        m = rng.randrange(ne) if ne else None
        if r < 0.22 or e is None:
            sc.append("%s %d %d" % (rng.choice(["pushfront", "pushback"]), l, rng.randrange(100))); owner[ne] = l; ne += 1
        elif r < 0.32:
            op = rng.choice(["insertbefore", "insertafter"])
            sc.append("%s %d %d %d" % (op, l, rng.randrange(100), m))
            if owner.get(m) == l: owner[ne] = l; ne += 1
        elif r < 0.44:
            sc.append("remove %d %d" % (l, e))
            if owner.get(e) == l: owner[e] = None
        elif r < 0.52: sc.append("%s %d %d" % (rng.choice(["movetofront", "movetoback"]), l, e))
        elif r < 0.60: sc.append("%s %d %d %d" % (rng.choice(["movebefore", "moveafter"]), l, e, m))
        elif r < 0.66:
            o = rng.randrange(3)
            cnt = sum(1 for x in owner.values() if x == o)
            sc.append("%s %d %d" % (rng.choice(["pushbacklist", "pushfrontlist"]), l, o))
            for _i in range(cnt): owner[ne] = l; ne += 1
        elif r < 0.68 and allow_init:
            sc.append("init %d" % l)
            for k, v in list(owner.items()):
                if v == l: owner[k] = "stale"
        elif r < 0.74: sc.append("len %d" % l)
        elif r < 0.80: sc.append(rng.choice(["front %d", "back %d"]) % l)
        elif r < 0.88: sc.append(rng.choice(["next %d", "prev %d", "value %d"]) % e)
        else: sc.append(rng.choice(["fwd %d", "bwd %d"]) % l)
    for l in range(3): sc += ["len %d" % l, "fwd %d" % l, "bwd %d" % l]
    return sc


def ring_hist(rng, nops):
    sc, nr = [], 0
    for _ in range(2):
        n = rng.randrange(0, 6)
        sc.append("rnew %d" % n); nr += max(n, 0)
    sc.append("rzero"); nr += 1
    if rng.random() < 0.5:
        # the first call on a never-touched zero ring (lazy init inside the method), incl. Link(nil) and Unlink(0)
        sc.append(rng.choice(["rlink %d -1", "rlink %d %d", "runlink %d 0", "runlink %d 1", "runlink %d 3", "runlink %d -2", "rmove %d 0", "rmove %d 2", "rmove %d -1", "rprev %d",
                              "rlen %d", "rdo %d", "rnext %d"]).replace("%d", str(nr - 1), 1).replace("%d", str(nr - 1)))
    for _ in range(nops):
        r = rng.random()
        a, b = rng.randrange(nr), rng.randrange(nr)
        cnt = rng.choice([rng.randrange(-7, 8), rng.randrange(-7, 8), 0, nr, 2 * nr, -nr])
        if rng.random() < 0.15:
            # counts far beyond the ring length (a "long move" shortcut that reduces the count modulo Len only engages for large counts)
            cnt = rng.choice([1, -1]) * rng.choice([63, 64, 65, 66, 67, 70, 100, 127, 128, 129, 130, 200, 257, 1000 + rng.randrange(7)])
        if r < 0.12: sc.append("rnext %d" % a)
        elif r < 0.22: sc.append("rprev %d" % a)
        elif r < 0.37: sc.append("rmove %d %d" % (a, cnt))
        elif r < 0.57: sc.append("rlink %d %d" % (a, b if rng.random() < 0.9 else -1))
        elif r < 0.70: sc.append("runlink %d %d" % (a, cnt))
        elif r < 0.80: sc.append("rlen %d" % a)
        elif r < 0.85: sc.append("rdo %d" % a)
        elif r < 0.88: sc.append("rdomut %d %d" % (a, b))   # Do with a callback that links another ring in behind the element being visited
        elif r < 0.94 and nr < 14:
            n = rng.randrange(1, 4); sc.append("rnew %d" % n); nr += n
        else: sc.append(rng.choice(["rfwd %d", "rbwd %d"]) % a)
    for a in range(nr): sc += ["rfwd %d" % a]
    return sc


def explore(core, rng, tier, seed, search=False):
    n, nops = (400, 50) if tier == "quick" else (8000, 150)
    scripts = []
    for i in range(n):
        scripts.append(list_hist(rng, nops, allow_init=(i % 5 == 0)))
        if i % 2 == 0: scripts.append(ring_hist(rng, nops))
    mut = ("push", "insert", "remove", "move", "init", "rlink", "runlink")
    nt = lambda sc: sum(1 for l in sc if l.startswith(mut)) >= 5
    return scriptprop.explore(core, ID, scripts, nontrivial=nt)
