"""C04 — sync2.Map is linearizable to an ordinary map (sequential half: all single-goroutine call sequences; concurrent half: see C04conc)."""
from .. import scriptprop, traceprop
from . import C04seq

ID = "C04"
RULE = ("concurrent: API-level histories under the controlled scheduler (every schedule with <= 2 preemptions of a catalogue of 2-3 goroutine programs; random programs and schedules) "
        "and native runs (also under the race detector), judged by the Lean driver for linearizability to map[K]V and for the Range predicate; sequential: histories of load/store/loadorstore/loadanddelete/delete/range over 5 keys (small, so that promotion misses >= len(dirty), expunge and unexpunge happen constantly), "
        "the internal layout (read/amended/dirty/misses/expunged/nil) observed through the verif hook after every call; non-trivial = at least one promotion-relevant miss and one delete")
ASSUMPTIONS = ["data-race freedom in the Go-memory-model sense is not modelled (the model is sequentially consistent over atomic steps)",
               "atomic.Value, sync.Mutex and unsafe.Pointer loads are modelled by contract"]


def explore(core, rng, tier, seed, search=False):
    n, nops = (500, 40) if tier == "quick" else (20000, 200)
    scripts = [C04seq.history(rng, nops, rng.choice([2, 5, 5, 9])) for _ in range(n)]
    nt = lambda sc: any(l.startswith(("loadanddelete", "delete")) for l in sc) and any(l.startswith("load ") for l in sc)
    r = scriptprop.explore(core, ID, scripts, nontrivial=nt)
    # ---- concurrent half: executions of the real code under the controlled scheduler and natively, judged by the Lean driver
    lim = 2500 if tier == "quick" else 300000
    nr = 600 if tier == "quick" else 30000
    cmds = [["sched", "map", "exhaustive", 1, lim, 2, "api"], ["sched", "map", "random", rng.randrange(1 << 30), nr, 2, "api"],
            ["mapstress", rng.randrange(1 << 30), nr]]
    t = traceprop.explore(core, ID + "conc", cmds, min_events=4, judge="ObjLin",
                          race_cmds=[["mapstress", rng.randrange(1 << 30), 300 if tier == "quick" else 5000]])
    return merge(r, t)


def merge(r, t):
    """sequential scripts first, then trace scenarios (not shrinkable)"""
    n = len(r["scripts"])
    blocks = [[l.split(" => ")[0] for l in t["trace_of"](i)] for i in range(t["n_scripts"])]
    r["shrinkable_upto"] = n
    r["scripts"] = r["scripts"] + blocks
    r["bad"] = r["bad"] + [(b[0] + n,) + tuple(b[1:]) for b in t["bad"]]
    for k in ("lines", "ok", "cex", "corr", "int"):
        r["summary"][k] = str(int(r["summary"].get(k, 0)) + int(t["summary"].get(k, 0)))
    r["summary"]["tags"].update(t["summary"]["tags"])
    r["n_scripts"] += t["n_scripts"]
    r["distinct_nontrivial"] += t["distinct_nontrivial"]
    r["stats"]["concurrent"] = t["stats"]
    r["samples"] = r["samples"][:2] + t["samples"][:2]
    return r
