"""C04 — sync2.Map is linearizable to an ordinary map (sequential half: all single-goroutine call sequences; concurrent half: see C04conc)."""
from .. import scriptprop, traceprop
import random
from . import C04seq

ID = "C04"
GEN = ["MapHooks.lean", "LockDiscipline.lean", "MapFlow.lean"]   # atomic sites + hooks of map.go regenerated from the source (tie 4B)
RULE = ("concurrent: step-level traces of the real code under the controlled scheduler, replayed label for label in the Lean transition system Model.SyncMapConc (judge C04conc); "
        "API-level histories under the controlled scheduler (every schedule with <= 2 preemptions of a catalogue of 2-3 goroutine programs; random programs and schedules) "
        "and native runs (also under the race detector), judged by the Lean driver for linearizability to map[K]V and for the Range predicate; sequential: large maps (65..300 keys, thorough up to 1025: fill, promote, delete / rebuild / re-store / promote rounds) and histories of load/store/loadorstore/loadanddelete/delete/range over 5 keys (small, so that promotion misses >= len(dirty), expunge and unexpunge happen constantly), "
        "the internal layout (read/amended/dirty/misses/expunged/nil) observed through the verif hook after every call; non-trivial = at least one promotion-relevant miss and one delete")
ASSUMPTIONS = ["data-race freedom in the Go-memory-model sense is not modelled (the model is sequentially consistent over atomic steps)",
               "atomic.Value, sync.Mutex and unsafe.Pointer loads are modelled by contract"]


def explore(core, rng, tier, seed, search=False):
    n, nops = (500, 40) if tier == "quick" else (20000, 200)
    scripts = [C04seq.history(rng, nops, rng.choice([2, 5, 5, 9])) for _ in range(n)]
    brng = random.Random(seed * 7919 + 4)      # its own stream: the draws below (schedule seeds) stay what they were before this family was added
    scripts += [C04seq.bighistory(brng, N) for N in ((65, 130, 257, 300) if tier == "quick" else (63, 64, 65, 66, 100, 129, 255, 256, 257, 258, 300, 513, 1025))]
    nt = lambda sc: any(l.startswith(("loadanddelete", "delete")) for l in sc) and any(l.startswith("load ") for l in sc)
    r = scriptprop.explore(core, ID, scripts, nontrivial=nt)
    # ---- concurrent half: executions of the real code under the controlled scheduler and natively, judged by the Lean driver
    lim = 2500 if tier == "quick" else 300000
    nr = 600 if tier == "quick" else 30000
    # (a) step-level traces under the controlled scheduler: judged twice — "ObjLin" (the property: linearizable + Range predicate)
    #     and "C04conc" (the tie: the execution is, label for label, an execution of the transition system Model.SyncMapConc)
    cmds = [["sched", "map", "exhaustive", 1, lim, 2], ["sched", "map", "random", rng.randrange(1 << 30), nr, 2]]
    t = traceprop.explore(core, ID + "conc", cmds, min_events=4, judge="ObjLin", also_judges=("C04conc",))
    # (b) native executions (API-level events only), also under the race detector
    t2 = traceprop.explore(core, ID + "native", [["mapstress", rng.randrange(1 << 30), nr]], min_events=4, judge="ObjLin", with_corpus=False,
                           race_cmds=[["mapstress", rng.randrange(1 << 30), 300 if tier == "quick" else 5000]])
    r = merge(merge(r, t), t2)
    # (c) the simulation relation R of the concurrent proof evaluated along random runs of the MODEL (no implementation involved):
    #     a regression test of the definitions the C04.conc_* theorems are about (a failure would be an internal inconsistency)
    import os
    wd = os.path.join(core.WORK, ID)
    os.makedirs(wd, exist_ok=True)
    wf = os.path.join(wd, "walks.ann")
    nw = 600 if tier == "quick" else 20000
    with open(wf, "w") as f:
        f.write("reset\n")
        for _ in range(nw):
            f.write("walk %d %d %d %d %d => ok\n" % (rng.randrange(1 << 30), rng.choice([2, 3, 3, 4, 5]), rng.choice([100, 300, 600]), rng.choice([1, 1, 2, 2, 3]), rng.choice([0, 0, 1])))
    w = core.judge_file("C04inv", wf)
    if w["bad"]:
        raise core.Internal("the simulation relation R fails on a run of the model (contradicts C04.conc_*): %s" % (w["bad"][0],))
    r["summary"]["lines"] = str(int(r["summary"]["lines"]) + int(w["summary"]["lines"]))
    r["summary"]["ok"] = str(int(r["summary"]["ok"]) + int(w["summary"]["ok"]))
    r["stats"]["invariant_walks"] = {"runs": nw, "judge": "C04inv", "all_ok": True}
    return r


def merge(r, t):
    """sequential scripts first, then trace scenarios (not shrinkable)"""
    n = len(r["scripts"])
    blocks = [[l.split(" => ")[0] for l in t["trace_of"](i)] for i in range(t["n_scripts"])]
    r["shrinkable_upto"] = n
    r["scripts"] = r["scripts"] + blocks
    r["bad"] = r["bad"] + [(b[0] + n,) + tuple(b[1:]) for b in t["bad"]]
    for k in ("lines", "ok", "cex", "corr", "int"):
        r["summary"][k] = str(int(r["summary"].get(k, 0)) + int(t["summary"].get(k, 0)))
    r["summary"]["tags"].update(t["summary"]["tags"])
    r["n_scripts"] += t["n_scripts"]
    r["distinct_nontrivial"] += t["distinct_nontrivial"]
    r["stats"].setdefault("concurrent", []).append(t["stats"])
    r["samples"] = r["samples"][:2] + t["samples"][:2]
    return r


def replay(core, obj, path):
    sc = obj.get("script") or []
    if any(l.split(" => ")[0].strip() in ("cmap", "cset") for l in sc):
        return traceprop.replay(core, obj, path, ID, judge="ObjLin", also_judges=("C04conc",))
    return None
