"""C04 — sync2.Map is linearizable to an ordinary map (sequential half: all single-goroutine call sequences; concurrent half: see C04conc)."""
from .. import scriptprop
from . import C04seq

ID = "C04"
RULE = ("sequential: histories of load/store/loadorstore/loadanddelete/delete/range over 5 keys (small, so that promotion misses >= len(dirty), expunge and unexpunge happen constantly), "
        "the internal layout (read/amended/dirty/misses/expunged/nil) observed through the verif hook after every call; non-trivial = at least one promotion-relevant miss and one delete")
ASSUMPTIONS = ["data-race freedom in the Go-memory-model sense is not modelled (the model is sequentially consistent over atomic steps)",
               "atomic.Value, sync.Mutex and unsafe.Pointer loads are modelled by contract"]


def explore(core, rng, tier, seed, search=False):
    n, nops = (500, 40) if tier == "quick" else (20000, 200)
    scripts = [C04seq.history(rng, nops, rng.choice([2, 5, 5, 9])) for _ in range(n)]
    nt = lambda sc: any(l.startswith(("loadanddelete", "delete")) for l in sc) and any(l.startswith("load ") for l in sc)
    return scriptprop.explore(core, ID, scripts, nontrivial=nt)
