"""C03 — set operations equal set algebra in both implementations."""
from .. import scriptprop

ID = "C03"
GEN = ["MapSetShapes.lean", "SetsShapes.lean", "SyncSetShapes.lean", "MapFlow.lean"]   # regenerated from the source on every run (tie 4B): kernels / call shapes / function shapes
RULE = ("programs over up to 6 set handles of mixed implementation (maps.Set / sync2.Set), all four pairings and self-aliased calls, "
        "concurrent sets aged by Has bursts so that read-only, amended, expunged and freshly promoted layouts occur (layout observed through the verif hook); "
        "universe 8 quick / 32 thorough; the zero value of maps.Set (nil map) as receiver of the non-mutating methods and as argument; String() also on string-typed members that look like list syntax ([a], b], {d}); non-trivial = at least one binary operation")
ASSUMPTIONS = ["'shares no state' is observed by continuing to mutate results and operands, not proved", "String formatting"]


def program(rng, nops, uni):
    sc, kinds = [], {}
    def fresh():
        h = len(kinds); return h
    for h in range(2):
        k = rng.randrange(2); kinds[h] = k
        r = rng.random()
        if r < 0.5: sc.append("new %d %d" % (h, k))
        elif r < 0.8: sc.append("fromslice %d %d [%s]" % (h, k, ",".join(str(rng.randrange(uni)) for _ in range(rng.randrange(6)))))
        else:
            pairs = ",".join("[%d,%d]" % (rng.randrange(uni), rng.randrange(uni)) for _ in range(rng.randrange(5)))
            sc.append("%s %d %d [%s]" % (rng.choice(["fromkeys", "fromvalues"]), h, k, pairs))
    nilset = None
    if rng.random() < 0.3:
        # the zero value of maps.Set (nil map): only ever a receiver of non-mutating methods or an argument
        nilset = fresh(); kinds[nilset] = 0; sc.append("new %d 2" % nilset)
    for _ in range(nops):
        hs = list(kinds)
        h = rng.choice(hs); g = rng.choice(hs)
        r = rng.random()
        if h == nilset and r < 0.37: r = 0.9 if len(kinds) < 6 else 0.6   # never Add/Remove on the nil set: derive new sets from it instead
        if h == nilset and 0.72 <= r < 0.78: r = 0.6
        if r < 0.22: sc.append("add %d %d" % (h, rng.randrange(uni)))
        elif r < 0.37: sc.append("remove %d %d" % (h, rng.randrange(uni)))
        elif r < 0.45: sc.append("has %d %d" % (h, rng.randrange(uni)))
        elif r < 0.52: sc.append("age %d [%s]" % (h, ",".join(str(rng.randrange(uni + 2)) for _ in range(rng.randrange(1, 6)))))
        elif r < 0.57: sc.append("layout %d" % h)
        elif r < 0.62: sc.append("len %d" % h)
        elif r < 0.67: sc.append(rng.choice(["slice %d", "string %d", "stringx %d"]) % h)
        elif r < 0.72: sc.append("range %d %d" % (h, rng.randrange(-1, 5)))
        elif r < 0.78: sc.append("%s %d %d" % (rng.choice(["addset", "removeset"]), h, g))
        elif r < 0.82: sc.append("product %d %d" % (h, g))
        elif len(kinds) < 6:
            if r < 0.86:
                nh = fresh(); kinds[nh] = kinds[h]; sc.append("clone %d %d" % (h, nh))
            else:
                nh = fresh(); kinds[nh] = kinds[h]
                sc.append("%s %d %d %d" % (rng.choice(["union", "intersect", "setdiff", "symdiff"]), h, g, nh))
            sc.append("slice %d" % nh)
        else:
            sc.append("has %d %d" % (h, rng.randrange(uni)))
    for h in kinds:
        sc += ["slice %d" % h, "len %d" % h]
    return sc


def explore(core, rng, tier, seed, search=False):
    n, nops, uni = (400, 25, 8) if tier == "quick" else (8000, 60, 32)
    scripts = [program(rng, nops, uni if i % 4 else 4) for i in range(n)]
    nt = lambda sc: any(l.split()[0] in ("union", "intersect", "setdiff", "symdiff", "addset", "removeset") for l in sc)
    return scriptprop.explore(core, ID, scripts, nontrivial=nt)
