"""C14 — functional slice and map helpers equal their reference definitions."""
from .. import scriptprop

ID = "C14"
GEN = ["SlicesShapes.lean", "MapsShapes.lean", "MapSetShapes.lean"]   # regenerated from the source on every run (tie 4B): kernels / call shapes / function shapes
RULE = ("calls of every helper on lists of length 0..12 over small universes (duplicates), callbacks from the shared position-sensitive family "
        "(acc(s,v)=31s+v+1, v mod m = r, v mod m, equality mod m, converter failing at position j); inputs re-observed after the call and after mutating the result; "
        "the equals family includes a non-symmetric member (a is half of b); non-trivial = list of length >= 2")
ASSUMPTIONS = ["'returns a new slice' is observed by mutating the result and re-reading the input, not proved", "map iteration order is arbitrary (results sorted or judged relationally)"]


def lst(vals):
    return "[" + ",".join(map(str, vals)) + "]"


def pairs(rng, n, uni):
    d = {}
    for _ in range(n): d[rng.randrange(uni)] = rng.randrange(uni)
    return "[" + ",".join("[%d,%d]" % kv for kv in d.items()) + "]"


def calls(rng, n, uni):
    v = [rng.randrange(uni) for _ in range(n)]
    L = lst(v)
    m = rng.randrange(1, 5); r = rng.randrange(m)
    w = [rng.randrange(uni) for _ in range(rng.randrange(4))]
    out = []
    out.append("fold %s %d" % (L[:60] if n <= 5 else lst(v[:5]), rng.randrange(5)))
    out.append("foldrev %s %d" % (lst(v[:5]), rng.randrange(5)))
    out.append("exceptnan %s %s" % (lst([rng.choice([7, 7, 1, 2, 3]) for _ in range(rng.randrange(7))]), lst([rng.choice([7, 2, 3, 9]) for _ in range(rng.randrange(4))])))
    out.append("foldpanic %s %d %d" % (lst(v[:5]), rng.randrange(5), rng.randrange(0, 7)))      # the accumulator panics on its k-th call
    out.append("foldrevpanic %s %d %d" % (lst(v[:5]), rng.randrange(5), rng.randrange(0, 7)))
    out += ["map " + L, "maperr %s %d" % (L, rng.randrange(-1, n + 1)), "filter %s %d %d" % (L, m, r), "any %s %d %d" % (L, m, r), "all %s %d %d" % (L, m, r),
            "indexfunc %s %d %d" % (L, m, r), "index %s %d" % (L, rng.randrange(uni + 1)), "contains %s %d" % (L, rng.randrange(uni + 1)),
            "containsfunc %s %d %d" % (L, rng.randrange(uni + 1), rng.choice([m, m, 0])), "distinct " + L, "distinctfunc %s %d" % (L, rng.choice([m, m, 0])),
            "except %s %s" % (L, lst(w)), "exceptset %s %s" % (L, lst(w)), "groupby %s %d" % (L, m), "countby %s %d" % (L, m),
            "%s %s %s" % (rng.choice(["trim", "trimleft", "trimright"]), L, lst(w)),
            "%s %s %d %d" % (rng.choice(["trimfunc", "trimleftfunc", "trimrightfunc"]), L, m, r),
            "tryget %s %d" % (L, rng.randrange(-1, n + 2)), "safeget %s %d" % (L, rng.randrange(-1, n + 2)),
            "safegetor %s %d %d" % (L, rng.randrange(-1, n + 2), 55), "last " + L]
    P = pairs(rng, rng.randrange(6), uni)
    out += ["mclonenil", "mclone " + P, "mclear " + P, "mkeys " + P, "mvalues " + P, "mkeyof %s %d" % (P, rng.randrange(uni)),
            "mcontainsvalue %s %d" % (P, rng.randrange(uni)), "mhaskey %s %d" % (P, rng.randrange(uni))]
    return out


def explore(core, rng, tier, seed, search=False):
    reps = 25 if tier == "quick" else 400
    scripts = []
    for n in range(13):
        for _ in range(reps):
            scripts.append(calls(rng, n, rng.choice([3, 6, 20])))
    # long inputs (beyond any small-input threshold): order-sensitive helpers on 129..600 elements
    for n in ([129, 200, 600] if tier == "quick" else [129, 130, 257, 600, 3000]):
        for uni in (40, 1000):
            v = [rng.randrange(uni) for _ in range(n)]
            L = "[" + ",".join(map(str, v)) + "]"
            scripts.append(["distinct " + L, "distinctfunc %s 7" % L, "except %s [1,2,3]" % L, "groupby %s 5" % L, "countby %s 5" % L, "filter %s 3 1" % L, "map " + L])
    nt = lambda sc: "," in sc[min(2, len(sc) - 1)]
    return scriptprop.explore(core, ID, scripts, nontrivial=nt)
