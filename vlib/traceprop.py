"""Helpers for properties whose tie is trace acceptance (DESIGN §4C): the harness produces event traces of real
executions (one scenario per `reset` block), the Lean driver judges them."""
import os, subprocess
from . import core as _core


def explore(core, pid, cmds, min_events=4, judge=None, with_corpus=True, race_cmds=None, also_judges=()):
    """cmds: list of harness argv tails (e.g. ["once", "7", "200"]). Returns the result dict used by ./check."""
    wd = os.path.join(core.WORK, pid)
    os.makedirs(wd, exist_ok=True)
    ann = os.path.join(wd, "traces.ann")
    died = []
    with open(ann, "w") as fout:
        if with_corpus:
            d = os.path.join(core.ROOT, "corpus", pid)
            if os.path.isdir(d):
                for f in sorted(os.listdir(d)):
                    if f.endswith(".trace"):
                        fout.write(open(os.path.join(d, f)).read().rstrip("\n") + "\n")
        for argv in cmds:
            try:
                p = subprocess.run([core.HARNESS] + [str(a) for a in argv], stdout=fout, stderr=subprocess.PIPE, text=True, timeout=1500)
                rc, err = p.returncode, p.stderr
            except subprocess.TimeoutExpired:
                rc, err = -9, "harness timed out (the code under test hangs or deadlocks)"
            if rc == 2 and "usage:" in err:
                raise core.Internal("harness %s: bad invocation: %s" % (argv, err[-500:]))
            if rc != 0:
                # the process executing the code under test died (a panic in a goroutine, a fatal runtime error such as
                # "all goroutines are asleep" or "unlock of unlocked mutex", a hang): that is behaviour of the implementation
                died.append((" ".join(map(str, argv)), [l for l in err.strip().splitlines() if l.strip()][:25]))
                fout.write("\n")
    r = core.judge_file(judge or pid, ann)
    for j2 in also_judges:
        # the same executions judged by a second judge (e.g. the step-level model acceptor): verdicts are merged
        r2 = core.judge_file(j2, ann)
        r["bad"] = r["bad"] + r2["bad"]
        for k in ("cex", "corr", "int"):
            r["summary"][k] = str(int(r["summary"].get(k, 0)) + int(r2["summary"].get(k, 0)))
        r["summary"]["ok"] = str(min(int(r["summary"].get("ok", 0)), int(r2["summary"].get("ok", 0))))
        for k, v in r2["summary"]["tags"].items():
            r["summary"]["tags"][j2 + "." + k] = v
    lines = r["annotated"]
    # scenario boundaries
    blocks, cur = [], None
    for i, l in enumerate(lines):
        if l.strip() == "reset":
            cur = []
            blocks.append(cur)
        elif cur is not None:
            cur.append(l)
    def trace_of(si):
        return blocks[si] if 0 <= si < len(blocks) else []
    distinct = {core.script_hash([x for x in b if not x.startswith("#")]) for b in blocks if sum(1 for x in b if not x.startswith("#")) >= min_events}
    sizes = {}
    for b in blocks:
        n = sum(1 for x in b if not x.startswith("#"))
        k = "<=8" if n <= 8 else "<=20" if n <= 20 else "<=50" if n <= 50 else ">50"
        sizes[k] = sizes.get(k, 0) + 1
    samples = [b[:14] for b in (blocks[:1] + blocks[len(blocks) // 2: len(blocks) // 2 + 1])]
    for argv, rep in died:
        blocks.append(["# harness process died running: harness " + argv] + rep)
        r["bad"].append((len(blocks) - 1, 0, "cex", "the harness process died while executing the code under test: " + (rep[0] if rep else "?"), argv))
        r["summary"]["cex"] = str(int(r["summary"].get("cex", 0)) + 1)
    races = []
    if race_cmds:
        races = core.race_run(race_cmds)
        for argv, rep in races:
            # a reported data race is a concrete failing execution of the "free of data races" clause
            blocks.append(["# go race detector report for: harness " + argv] + rep)
            what = "the race-detector build of the harness died running: harness_race " if rep and rep[0].startswith("(no DATA RACE") else "DATA RACE reported by the Go race detector running: harness_race "
            r["bad"].append((len(blocks) - 1, 0, "cex", what + argv, rep[0] if rep else ""))
            r["summary"]["cex"] = str(int(r["summary"].get("cex", 0)) + 1)
    r["race_runs"] = {"commands": [" ".join(map(str, c)) for c in (race_cmds or [])], "reports": len(races)}
    r.update({"scripts": None, "trace_of": trace_of, "n_scripts": len(blocks), "distinct_nontrivial": len(distinct),
              "stats": {"scenarios": len(blocks), "events_per_scenario": sizes, "producers": [" ".join(map(str, c)) for c in cmds], "race_detector_runs": r["race_runs"]},
              "samples": samples})
    return r


def replay(core, obj, path, pid, judge=None, also_judges=()):
    """re-judge the recorded trace (deterministic); a race-detector report is replayed by re-running its command"""
    sc = obj.get("script") or []
    if sc and sc[0].startswith("# go race detector report for: harness "):
        argv = sc[0].split("harness ", 1)[1].split()
        found = core.race_run([argv])
        print("replay %s: harness_race %s -> %s" % (pid, " ".join(argv), "DATA RACE reported again" if found else "no race reported"))
        if found:
            print("\n".join("  " + l for l in found[0][1][:12]))
            print("VIOLATION property=%s replay=%s" % (pid, path))
        return 1 if found else 0
    if sc and sc[0].startswith("# harness process died running: harness "):
        argv = sc[0].split("harness ", 2)[2].split()
        core.build_go_tools()
        try:
            p = subprocess.run([core.HARNESS] + argv, stdout=subprocess.DEVNULL, stderr=subprocess.PIPE, text=True, timeout=1500)
            rc, err = p.returncode, p.stderr
        except subprocess.TimeoutExpired:
            rc, err = -9, "timed out"
        print("replay %s: harness %s -> %s" % (pid, " ".join(argv), "died again: " + (err.strip().splitlines() or ["?"])[0] if rc != 0 else "completed normally"))
        if rc != 0:
            print("VIOLATION property=%s replay=%s" % (pid, path))
        return 1 if rc != 0 else 0
    wd = os.path.join(core.WORK, pid)
    os.makedirs(wd, exist_ok=True)
    ann = os.path.join(wd, "replay.ann")
    with core.Lock("lake"):
        core.lake_build(["typdriver"])
    import re
    m = next((re.match(r"# prog (.*) :: schedule (\d+)$", l) for l in sc if l.startswith("# prog ")), None)
    target = {"cmap": "map", "cset": "set", "km 0": "km", "km 1": "krw"}.get(next((l for l in sc if not l.startswith("#")), ""))
    if m and target:
        # a controlled-scheduler execution: RE-EXECUTE the same program under the same schedule on the current tree and judge that
        core.build_go_tools()
        p = subprocess.run([core.HARNESS, "sched", target, "replay", "0", "0", "0", m.group(1), m.group(2)], stdout=subprocess.PIPE, stderr=subprocess.PIPE, text=True, timeout=300)
        if p.returncode != 0:
            raise core.Internal("harness sched replay failed: " + p.stderr[-1000:])
        open(ann, "w").write(p.stdout)
        print("replay %s: re-executed the recorded program and schedule on the current tree" % pid)
    else:
        with open(ann, "w") as f:
            f.write("reset\n" + "\n".join(obj.get("script") or []) + "\n")
    r = core.judge_file(judge or pid, ann)
    for l in r["annotated"]:
        print("  " + l)
    for j2 in also_judges:
        if any(l.startswith("step ") for l in r["annotated"]):
            r["bad"] = r["bad"] + core.judge_file(j2, ann)["bad"]
    for b in r["bad"]:
        print("  -> %s: %s" % (b[2], b[3]))
    kinds = [b[2] for b in r["bad"]]
    print("replay %s (recorded trace re-judged): %s" % (pid, kinds or "no disagreement"))
    if kinds:
        print("VIOLATION property=%s replay=%s" % (pid, path))
    return 1 if kinds else 0
