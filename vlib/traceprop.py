"""Helpers for properties whose tie is trace acceptance (DESIGN §4C): the harness produces event traces of real
executions (one scenario per `reset` block), the Lean driver judges them."""
import os, subprocess
from . import core as _core


def explore(core, pid, cmds, min_events=4, judge=None, with_corpus=True, race_cmds=None):
    """cmds: list of harness argv tails (e.g. ["once", "7", "200"]). Returns the result dict used by ./check."""
    wd = os.path.join(core.WORK, pid)
    os.makedirs(wd, exist_ok=True)
    ann = os.path.join(wd, "traces.ann")
    with open(ann, "w") as fout:
        if with_corpus:
            d = os.path.join(core.ROOT, "corpus", pid)
            if os.path.isdir(d):
                for f in sorted(os.listdir(d)):
                    if f.endswith(".trace"):
                        fout.write(open(os.path.join(d, f)).read().rstrip("\n") + "\n")
        for argv in cmds:
            p = subprocess.run([core.HARNESS] + [str(a) for a in argv], stdout=fout, stderr=subprocess.PIPE, text=True, timeout=3000)
            if p.returncode != 0:
                raise core.Internal("harness %s failed (rc=%d): %s" % (argv, p.returncode, p.stderr[-1500:]))
    r = core.judge_file(judge or pid, ann)
    r["bad"] = [b for b in r["bad"] if not (b[3].startswith("model=bad-op") )] if False else r["bad"]
    lines = r["annotated"]
    # scenario boundaries
    blocks, cur = [], None
    for i, l in enumerate(lines):
        if l.strip() == "reset":
            cur = []
            blocks.append(cur)
        elif cur is not None:
            cur.append(l)
    def trace_of(si):
        return blocks[si] if 0 <= si < len(blocks) else []
    distinct = {core.script_hash([x for x in b if not x.startswith("#")]) for b in blocks if sum(1 for x in b if not x.startswith("#")) >= min_events}
    sizes = {}
    for b in blocks:
        n = sum(1 for x in b if not x.startswith("#"))
        k = "<=8" if n <= 8 else "<=20" if n <= 20 else "<=50" if n <= 50 else ">50"
        sizes[k] = sizes.get(k, 0) + 1
    samples = [b[:14] for b in (blocks[:1] + blocks[len(blocks) // 2: len(blocks) // 2 + 1])]
    races = []
    if race_cmds:
        races = core.race_run(race_cmds)
        for argv, rep in races:
            # a reported data race is a concrete failing execution of the "free of data races" clause
            blocks.append(["# go race detector report for: harness " + argv] + rep)
            r["bad"].append((len(blocks) - 1, 0, "cex", "DATA RACE reported by the Go race detector running: harness_race " + argv, rep[0] if rep else ""))
            r["summary"]["cex"] = str(int(r["summary"].get("cex", 0)) + 1)
    r["race_runs"] = {"commands": [" ".join(map(str, c)) for c in (race_cmds or [])], "reports": len(races)}
    r.update({"scripts": None, "trace_of": trace_of, "n_scripts": len(blocks), "distinct_nontrivial": len(distinct),
              "stats": {"scenarios": len(blocks), "events_per_scenario": sizes, "producers": [" ".join(map(str, c)) for c in cmds], "race_detector_runs": r["race_runs"]},
              "samples": samples})
    return r


def replay(core, obj, path, pid, judge=None):
    """re-judge the recorded trace (deterministic); a race-detector report is replayed by re-running its command"""
    sc = obj.get("script") or []
    if sc and sc[0].startswith("# go race detector report for: harness "):
        argv = sc[0].split("harness ", 1)[1].split()
        found = core.race_run([argv])
        print("replay %s: harness_race %s -> %s" % (pid, " ".join(argv), "DATA RACE reported again" if found else "no race reported"))
        if found:
            print("\n".join("  " + l for l in found[0][1][:12]))
            print("VIOLATION property=%s replay=%s" % (pid, path))
        return 1 if found else 0
    wd = os.path.join(core.WORK, pid)
    os.makedirs(wd, exist_ok=True)
    ann = os.path.join(wd, "replay.ann")
    with open(ann, "w") as f:
        f.write("reset\n" + "\n".join(obj.get("script") or []) + "\n")
    with core.Lock("lake"):
        core.lake_build(["typdriver"])
    r = core.judge_file(judge or pid, ann)
    for l in r["annotated"]:
        print("  " + l)
    kinds = [b[2] for b in r["bad"]]
    print("replay %s (recorded trace re-judged): %s" % (pid, kinds or "no disagreement"))
    if kinds:
        print("VIOLATION property=%s replay=%s" % (pid, path))
    return 1 if kinds else 0
