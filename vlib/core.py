"""Runner core: builds, proof audit, correspondence pipeline, search, shrink, evidence (DESIGN §3-§5)."""
import fcntl, hashlib, importlib, json, os, re, subprocess, sys, time

ROOT = os.path.dirname(os.path.dirname(os.path.abspath(__file__)))
LEAN = os.path.join(ROOT, "lean")
WORK = os.path.join(ROOT, ".work")
REPO = "/repo"
DRIVER = os.path.join(LEAN, ".lake", "build", "bin", "typdriver")
HARNESS = os.path.join(WORK, "bin", "harness")
EXTRACT = os.path.join(WORK, "bin", "extract")
ALLOWED_AXIOMS = {"propext", "Classical.choice", "Quot.sound"}
FORBIDDEN = re.compile(r"\b(sorry|admit|native_decide|bv_decide|implemented_by|unsafe)\b|^\s*axiom\s|maxHeartbeats\s+0\b")

GOENV = dict(os.environ, GOFLAGS="-mod=mod", GOPROXY="off", GOSUMDB="off", GOTOOLCHAIN="local",
             CGO_ENABLED=os.environ.get("CGO_ENABLED", "0"))


class Internal(Exception):
    pass


def sh(cmd, cwd=None, env=None, timeout=1800, input=None):
    p = subprocess.run(cmd, cwd=cwd, env=env, timeout=timeout, input=input,
                       stdout=subprocess.PIPE, stderr=subprocess.STDOUT, text=True)
    return p.returncode, p.stdout


class Lock:
    def __init__(self, name):
        os.makedirs(WORK, exist_ok=True)
        self.path = os.path.join(WORK, name + ".lock")

    def __enter__(self):
        self.f = open(self.path, "w")
        fcntl.flock(self.f, fcntl.LOCK_EX)

    def __exit__(self, *a):
        fcntl.flock(self.f, fcntl.LOCK_UN)
        self.f.close()


# ---------------------------------------------------------------------------------------------- builds

def build_go_tools():
    os.makedirs(os.path.join(WORK, "bin"), exist_ok=True)
    with Lock("go"):
        for d, out, tags in (("harness", HARNESS, ["-tags", "verif"]), ("extract", EXTRACT, [])):
            src = os.path.join(ROOT, d)
            if not os.path.isdir(src):
                continue
            if os.path.exists(os.path.join(REPO, "go.sum")):
                sh(["cp", os.path.join(REPO, "go.sum"), src])
            if d == "harness" and os.environ.get("VERIF_COVER"):
                # measurement only (tools/coverage.sh): statement coverage of /repo's code by the correspondence runs
                tags = tags + ["-cover", "-coverpkg=./...,gopkg.in/typ.v4/..."]   # main must be instrumented too, or nothing is written
                os.makedirs(os.environ.setdefault("GOCOVERDIR", os.path.join(WORK, "cover")), exist_ok=True)
            rc, log = sh(["go", "build"] + tags + ["-o", out, "."], cwd=src, env=GOENV)
            if rc != 0:
                raise Internal("go build of %s failed:\n%s" % (d, log))


HARNESS_RACE = os.path.join(WORK, "bin", "harness_race")


def build_race_harness():
    """the same harness built with the Go race detector (needs cgo); used only to OBSERVE data races, never to prove their absence"""
    with Lock("go"):
        env = dict(GOENV, CGO_ENABLED="1")
        rc, log = sh(["go", "build", "-race", "-tags", "verif", "-o", HARNESS_RACE, "."], cwd=os.path.join(ROOT, "harness"), env=env)
        if rc != 0:
            raise Internal("go build -race of harness failed:\n" + log[-2000:])


def race_run(argvs, timeout=900):
    """run native scenarios under the race detector; returns list of (argv, first report) for runs that reported a race"""
    build_race_harness()
    found = []
    for argv in argvs:
        try:
            p = subprocess.run([HARNESS_RACE] + [str(a) for a in argv], stdout=subprocess.DEVNULL, stderr=subprocess.PIPE, text=True,
                               timeout=timeout, env=dict(os.environ, GORACE="halt_on_error=1"))
        except subprocess.TimeoutExpired:
            found.append((" ".join(map(str, argv)), ["(no DATA RACE report; the process hung)"]))
            continue
        if "DATA RACE" in p.stderr:
            rep = p.stderr[p.stderr.index("WARNING: DATA RACE"):].splitlines()[:40]
            found.append((" ".join(map(str, argv)), rep))
        elif p.returncode != 0:
            if p.returncode == 2 and "usage:" in p.stderr:
                raise Internal("race harness %s: bad invocation: %s" % (argv, p.stderr[-500:]))
            # the process died without a race report (fatal error / unrecovered panic in the code under test): also a failing execution
            found.append((" ".join(map(str, argv)), ["(no DATA RACE report; the process died)"] + [l for l in p.stderr.strip().splitlines() if l.strip()][:30]))
    return found


def regenerate_gen():
    """tie 4B: regenerate TypVerif/Gen/*.lean from /repo's current working tree.
    Returns {generated file: [extractor errors]} (an empty list = translated completely)."""
    if not os.path.exists(EXTRACT):
        return {}
    gen_dir = os.path.join(LEAN, "TypVerif", "Gen")
    tmp = os.path.join(WORK, "gen.tmp")
    sh(["rm", "-rf", tmp])
    os.makedirs(tmp, exist_ok=True)
    os.makedirs(gen_dir, exist_ok=True)
    rc, log = sh([EXTRACT, "-repo", REPO, "-out", tmp])
    status = {}
    sp = os.path.join(tmp, "status.json")
    if os.path.exists(sp):
        status = json.load(open(sp))
        os.remove(sp)
    elif rc != 0:
        raise Internal("extractor crashed:\n" + log[-2000:])
    # write-if-changed so that lake does not rebuild needlessly; remove stale files
    produced = set(os.listdir(tmp))
    for f in os.listdir(gen_dir):
        if f.endswith(".lean") and f not in produced:
            os.remove(os.path.join(gen_dir, f))
    for f in produced:
        new = open(os.path.join(tmp, f)).read()
        dst = os.path.join(gen_dir, f)
        if not os.path.exists(dst) or open(dst).read() != new:
            open(dst, "w").write(new)
    return status


def lake_build(targets, timeout=3000):
    rc, log = sh(["lake", "build"] + targets, cwd=LEAN, timeout=timeout)
    return rc == 0, log


def prop_modules(pid):
    """Props/<pid>.lean plus companions such as Props/<pid>Gen.lean (tie-4B theorems)."""
    d = os.path.join(LEAN, "TypVerif", "Props")
    out = []
    if os.path.isdir(d):
        for f in sorted(os.listdir(d)):
            if f.endswith(".lean") and f.startswith(pid) and not f[len(pid):len(pid) + 1].isdigit():
                out.append(f[:-5])
    return out


def import_closure(mods):
    """the TypVerif modules reachable from `mods` through `import` lines (this package only)"""
    seen, todo = [], list(mods)
    while todo:
        m = todo.pop()
        if m in seen:
            continue
        path = os.path.join(LEAN, *m.split(".")) + ".lean"
        if not os.path.exists(path):
            continue
        seen.append(m)
        for line in open(path):
            mm = re.match(r"\s*import\s+(TypVerif\.\S+)", line)
            if mm:
                todo.append(mm.group(1))
    return sorted(seen)


def theorem_names(pid):
    """Names of the property theorems in Props/<pid>*.lean (namespace-qualified)."""
    names = []
    for m in prop_modules(pid):
        names += theorem_names_in(pid, os.path.join(LEAN, "TypVerif", "Props", m + ".lean"))
    return names


def theorem_names_in(pid, path):
    names, ns = [], []
    for line in strip_comments(open(path).read()).splitlines():
        m = re.match(r"\s*namespace\s+(\S+)", line)
        if m:
            ns.append(m.group(1))
            continue
        m = re.match(r"\s*end\s+(\S+)", line)
        if m and ns and ns[-1] == m.group(1):
            ns.pop()
            continue
        if re.match(r"\s*(?:@\[[^\]]*\]\s*)?private\s+theorem", line):
            continue
        m = re.match(r"\s*(?:@\[[^\]]*\]\s*)?(?:protected\s+)?theorem\s+(\S+)", line)
        if m:
            n = m.group(1)
            names.append(n if (n.startswith(pid + ".") or not ns) else ".".join(ns + [n]))
    return names


def strip_comments(src):
    src = re.sub(r"/-.*?-/", lambda m: "\n" * m.group(0).count("\n"), src, flags=re.S)
    return re.sub(r"--.*", "", src)


def forbidden_hits():
    hits = []
    for sub in ("Model", "Spec", "Lemmas", "Props", "Conc", "Gen"):
        d = os.path.join(LEAN, "TypVerif", sub)
        if not os.path.isdir(d):
            continue
        for f in sorted(os.listdir(d)):
            if f.endswith(".lean"):
                for i, line in enumerate(strip_comments(open(os.path.join(d, f)).read()).splitlines(), 1):
                    if FORBIDDEN.search(line):
                        hits.append("%s/%s:%d: %s" % (sub, f, i, line.strip()))
    return hits


def audit(pid, names):
    """#print axioms for every property theorem. Returns {name: [axioms] or None (missing)}."""
    wd = os.path.join(WORK, pid)
    os.makedirs(wd, exist_ok=True)
    path = os.path.join(wd, "Audit.lean")
    with open(path, "w") as f:
        for m in prop_modules(pid):
            f.write("import TypVerif.Props.%s\n" % m)
        for n in names:
            f.write("#print axioms %s\n" % n)
    rc, log = sh(["lake", "env", "lean", path], cwd=LEAN, timeout=900)
    res = {n: None for n in names}
    plain = {n.replace("\u00ab", "").replace("\u00bb", ""): n for n in names}
    for m in re.finditer(r"'([^']+)' depends on axioms: \[([^\]]*)\]", log):
        res[plain.get(m.group(1), m.group(1))] = [a.strip() for a in m.group(2).split(",") if a.strip()]
    for m in re.finditer(r"'([^']+)' does not depend on any axioms", log):
        res[plain.get(m.group(1), m.group(1))] = []
    return res, log


def failing_theorems(pid, log):
    """Map lake error locations in Props/<pid>*.lean to theorem names."""
    bad = []
    for mod in prop_modules(pid):
        path = os.path.join(LEAN, "TypVerif", "Props", mod + ".lean")
        lines = open(path).read().splitlines()
        starts = []
        for i, l in enumerate(lines, 1):
            m = re.match(r"\s*(?:@\[[^\]]*\]\s*)?(?:private\s+)?theorem\s+(\S+)", l)
            if m:
                starts.append((i, m.group(1)))
        for m in re.finditer(r"error: \S*Props/%s\.lean:(\d+):\d+" % mod, log):   # errors only (warnings of healthy modules carry locations too)
            ln = int(m.group(1))
            name = None
            for s, n in starts:
                if s <= ln + 2:      # an error reported at the docstring / attribute line just above the `theorem` keyword belongs to it
                    name = n
            if name:
                name = name if name.startswith(pid + ".") else pid + "." + name
                if name not in bad:
                    bad.append(name)
    for m in re.finditer(r"error: (TypVerif/(?:Gen|Lemmas|Model|Spec)/\S+\.lean):(\d+)", log):
        n = "<%s:%s>" % (m.group(1), m.group(2))
        if n not in bad:
            bad.append(n)
    return bad


# ---------------------------------------------------------------------------------------------- pipeline

def _limit_memory():
    """hard address-space limit for the harness process: a runaway allocation in the code under test (an endless loop that
    keeps appending) ends in a Go `fatal error: out of memory`, i.e. a process death that run_scripts localises"""
    import resource
    resource.setrlimit(resource.RLIMIT_AS, (12 << 30, 12 << 30))


def _harness(pid, scripts, src, ann, append=False, timeout=600):
    with open(src, "w") as f:
        for sc in scripts:
            f.write("reset\n")
            for l in sc:
                f.write(l + "\n")
    with open(src) as fin, open(ann, "a" if append else "w") as fout:
        try:
            p = subprocess.run([HARNESS, "run", pid], stdin=fin, stdout=fout, stderr=subprocess.PIPE, text=True, timeout=timeout,
                               env=dict(os.environ, GOMEMLIMIT="4GiB"), preexec_fn=_limit_memory)
            return p.returncode, p.stderr
        except subprocess.TimeoutExpired:
            return -9, "harness timed out (possible non-termination in the implementation)"


def run_scripts(pid, scripts, tag="main"):
    """scripts: list of list-of-lines. Returns dict(summary, bad=[(script_idx, line_idx, kind, detail, line)], annotated lines).
    If the harness PROCESS dies on a script (a panic recover() cannot catch, a fatal error such as a stack overflow on a cyclic
    structure, a hang) that is behaviour of the code under test: the script is reported as a counterexample and the run goes on
    with the following scripts (the harness flushes at every script boundary, so the culprit is the first incomplete block)."""
    wd = os.path.join(WORK, pid)
    os.makedirs(wd, exist_ok=True)
    src, ann = os.path.join(wd, tag + ".ops"), os.path.join(wd, tag + ".ann")
    crashed, keep = [], []
    start = 0
    open(ann, "w").close()
    while start < len(scripts):
        part = os.path.join(wd, tag + ".part.ann")
        # normal throughput is > 10k lines/s; allow 500 lines/s (and 30 s) before calling it a hang
        nlines = sum(len(sc) + 1 for sc in scripts[start:])
        # lines that legitimately take wall-clock time (timer races repeated thousands of times) declare their cost: `LINE_COST_S(line)` of the
        # property module; without it a slow-but-terminating script would be taken for a hang (false alarm of the thorough tier, C19 `recvclose`)
        cost = 0.0
        try:
            fn = getattr(load_prop(pid[:3]), "LINE_COST_S", None)
            if fn:
                cost = sum(fn(l) for sc in scripts[start:] for l in sc)
        except Exception:
            cost = 0.0
        rc, err = _harness(pid, scripts[start:], src, part, timeout=max(30, 15 + nlines // 500) + int(3 * cost))
        text = open(part).read()
        if rc == 0:
            open(ann, "a").write(text)
            keep += list(range(start, len(scripts)))
            break
        # complete blocks = all but the last started one
        blocks = text.split("reset\n")[1:]
        done = max(len(blocks) - 1, 0)
        if not text.endswith("\n") and blocks:
            pass
        open(ann, "a").write("".join("reset\n" + b for b in blocks[:done]))
        keep += list(range(start, start + done))
        culprit = start + done
        last = [l for l in err.strip().splitlines() if l.strip()]
        head = next((l for l in last if l.startswith(("fatal error", "panic:", "runtime:", "harness timed out"))), last[0] if last else "rc=%d" % rc)
        crashed.append((culprit, head))
        start = culprit + 1
        if len(crashed) >= 4:
            break
    owner = []
    for si in keep:
        owner.append(None)
        for li in range(len(scripts[si])):
            owner.append((si, li))
    r = judge_file(pid, ann, owner)
    for i, head in crashed:
        if i < len(scripts):
            r["bad"].append((i, len(scripts[i]) - 1, "cex", "the harness process died while executing this script on the implementation: " + head,
                             scripts[i][-1] if scripts[i] else ""))
            r["summary"]["cex"] = str(int(r["summary"].get("cex", 0)) + 1)
    r["crashed_scripts"] = [i for i, _ in crashed]
    return r


JUDGE_PAR_MIN_LINES = 150000     # files beyond this are judged in parallel, split at scenario (`reset`) boundaries
JUDGE_WORKERS = 8
JUDGE_TIMEOUT_S = 2400             # per driver process; the thorough tier of C18 needed > 900 s on a loaded machine


SCENARIO_BUDGET_S = 300            # a single scenario (reset block) on which the judge works longer than this is set aside as UNJUDGED


class _Stuck(Exception):
    def __init__(self, line):
        self.line = line


def _run_driver_once(pid, path):
    """run the compiled judge on a file; a watchdog follows its progress markers (`@ <line>` on stderr at every scenario start):
    no new marker for SCENARIO_BUDGET_S seconds => the judge is killed and _Stuck(line of the scenario it was working on) is raised"""
    import threading
    with open(path) as fin:
        p = subprocess.Popen([DRIVER, pid], stdin=fin, stdout=subprocess.PIPE, stderr=subprocess.PIPE, text=True)
    state = {"line": 0, "t": time.time(), "err": []}

    def follow():
        for l in p.stderr:
            if l.startswith("@ "):
                try:
                    state["line"], state["t"] = int(l[2:]), time.time()
                except ValueError:
                    pass
            else:
                state["err"].append(l)
    outbuf = []

    def collect():
        outbuf.append(p.stdout.read())
    t1, t2 = threading.Thread(target=follow, daemon=True), threading.Thread(target=collect, daemon=True)
    t1.start(); t2.start()
    t0 = time.time()
    while p.poll() is None:
        time.sleep(0.5)
        if time.time() - state["t"] > SCENARIO_BUDGET_S or time.time() - t0 > JUDGE_TIMEOUT_S:
            p.kill(); p.wait()
            raise _Stuck(state["line"])
    t1.join(5); t2.join(5)
    if p.returncode != 0:
        raise Internal("driver failed (rc=%d): %s" % (p.returncode, "".join(state["err"])[-2000:]))
    return outbuf[0] if outbuf else ""


UNJUDGED = []     # (judge, first line of the scenario) set aside in this process; reported in the evidence, never a verdict


def _run_driver(pid, path):
    """judge a file; a scenario that exhausts SCENARIO_BUDGET_S (a state-set explosion of the subset construction on one real trace) is blanked out
    (its lines become comments, so line numbers stay) and the file is judged again without it - at most 6 times"""
    for _ in range(6):
        try:
            return _run_driver_once(pid, path)
        except _Stuck as st:
            lines = open(path).read().split("\n")
            i = max(st.line - 1, 0)              # 0-based index of the `reset` line of the stuck scenario (0: before the first marker)
            j = i + 1
            while j < len(lines) and lines[j].strip() != "reset":
                j += 1
            head = next((l for l in lines[i:j] if l.startswith("#")), "")
            for k in range(i, j):
                lines[k] = "# unjudged (judge budget exhausted): " + lines[k]
            open(path, "w").write("\n".join(lines))
            UNJUDGED.append((pid, "%s line %d %s" % (os.path.basename(path), st.line, head[:160])))
            print("WARNING: judge %s exhausted its budget of %d s on the scenario at line %d of %s; set aside as unjudged (no verdict)" % (pid, SCENARIO_BUDGET_S, st.line, path))
    raise Internal("the Lean driver (judge %s) exhausted its per-scenario budget on more than 6 scenarios of %s" % (pid, path))


def _parse_driver(out, offset=0):
    lines, summary = [], None
    for line in out.splitlines():
        if line.startswith("LINE "):
            m = re.match(r"LINE (\d+) (\w+) (.*)", line)
            lines.append((int(m.group(1)) + offset, m.group(2), m.group(3)))
        elif line.startswith("SUMMARY "):
            summary = dict(kv.split("=", 1) for kv in line[8:].split(" ") if "=" in kv)
    if summary is None:
        raise Internal("driver printed no SUMMARY: " + out[-500:])
    tags = {}
    for kv in summary.get("tags", "").split(","):
        if ":" in kv:
            k, v = kv.rsplit(":", 1)
            tags[k] = int(v)
    summary["tags"] = tags
    return lines, summary


def judge_file(pid, ann, owner=None):
    annotated = open(ann).read().splitlines()
    resets = [i for i, l in enumerate(annotated) if l.strip() == "reset"]
    if len(annotated) < JUDGE_PAR_MIN_LINES or len(resets) < 2 * JUDGE_WORKERS:
        lines, summary = _parse_driver(_run_driver(pid, ann))
    else:
        # every scenario starts with `reset` (a fresh judge state), so the file can be cut at scenario boundaries and the pieces judged
        # independently; verdict lines are renumbered, the counters of the summaries added up
        import concurrent.futures
        cuts = [0]
        for w in range(1, JUDGE_WORKERS):
            target = len(annotated) * w // JUDGE_WORKERS
            nxt = next((r for r in resets if r >= target), None)
            if nxt is not None and nxt > cuts[-1]:
                cuts.append(nxt)
        cuts.append(len(annotated))
        parts = []
        for j in range(len(cuts) - 1):
            path = "%s.part%d" % (ann, j)
            with open(path, "w") as f:
                f.write("\n".join(annotated[cuts[j]:cuts[j + 1]]) + "\n")
            parts.append((path, cuts[j]))
        try:
            with concurrent.futures.ThreadPoolExecutor(max_workers=JUDGE_WORKERS) as ex:
                outs = list(ex.map(lambda pc: _parse_driver(_run_driver(pid, pc[0]), pc[1]), parts))
        finally:
            for path, _ in parts:
                if os.path.exists(path):
                    os.remove(path)
        lines, summary = [], None
        for ls, sm in outs:
            lines += ls
            if summary is None:
                summary = sm
            else:
                for k, v in sm.items():
                    if k == "tags":
                        for t, n in v.items():
                            summary["tags"][t] = summary["tags"].get(t, 0) + n
                    elif str(v).isdigit() and str(summary.get(k, "0")).isdigit():
                        summary[k] = str(int(summary.get(k, 0)) + int(v))
    if owner is None:
        owner, si, li = [], -1, 0
        for l in annotated:
            if l.strip() == "reset":
                si += 1
                li = 0
                owner.append(None)
            else:
                owner.append((max(si, 0), li))
                li += 1
    bad = []
    for ln, kind, detail in lines:
        o = owner[ln - 1] if ln - 1 < len(owner) else None
        bad.append((o[0] if o else -1, o[1] if o else -1, kind, detail, annotated[ln - 1] if ln - 1 < len(annotated) else ""))
    return {"summary": summary, "bad": bad, "annotated": annotated, "owner": owner}


def first_failure(pid, script, kinds):
    r = run_scripts(pid, [script], tag="shrink")
    for b in r["bad"]:
        if b[2] in kinds:
            return b
    return None


def shrink(pid, script, kinds, budget_s=20):
    """delta debugging on lines; keeps a failure of one of `kinds`."""
    t0 = time.time()
    cur = list(script)
    b = first_failure(pid, cur, kinds)
    if b is None:
        return cur, None
    cur = cur[: b[1] + 1]
    n = 2
    while len(cur) >= 2 and time.time() - t0 < budget_s:
        chunk = max(1, len(cur) // n)
        reduced = False
        for i in range(0, len(cur), chunk):
            cand = cur[:i] + cur[i + chunk:]
            if not cand:
                continue
            bb = first_failure(pid, cand, kinds)
            if bb is not None:
                cur = cand[: bb[1] + 1]
                b = bb
                n = max(n - 1, 2)
                reduced = True
                break
        if not reduced:
            if chunk == 1:
                break
            n = min(n * 2, len(cur))
    return cur, b


def script_hash(sc):
    return hashlib.sha1("\n".join(sc).encode()).hexdigest()[:12]


def load_known():
    p = os.path.join(ROOT, "known_findings.json")
    if not os.path.exists(p):
        return []
    return json.load(open(p)).get("findings", [])


def known_match(pid, script_lines, detail=""):
    text = "\n".join(script_lines) + "\n" + detail
    for k in load_known():
        if k.get("kind") != "known" or k.get("property") != pid:
            continue
        if all(re.search(rx, text, re.M) for rx in k.get("match", {}).get("regex", [])):
            return k
    return None


def write_replay(pid, obj):
    wd = os.path.join(WORK, pid)
    os.makedirs(wd, exist_ok=True)
    h = hashlib.sha1(json.dumps(obj, sort_keys=True).encode()).hexdigest()[:10]
    path = os.path.join(wd, "replay-%s.json" % h)
    json.dump(obj, open(path, "w"), indent=1)
    return path


def write_evidence(pid, ev):
    d = os.path.join(ROOT, "evidence")
    os.makedirs(d, exist_ok=True)
    json.dump(ev, open(os.path.join(d, pid + ".json"), "w"), indent=1)


def load_prop(pid):
    return importlib.import_module("vlib.props." + pid)
