"""Helpers for properties whose tie is the line protocol over operation scripts (DESIGN §4A)."""
import os
from . import core as _core


def corpus(pid):
    d = os.path.join(_core.ROOT, "corpus", pid)
    out = []
    if os.path.isdir(d):
        for f in sorted(os.listdir(d)):
            if f.endswith(".ops"):
                cur = []
                for l in open(os.path.join(d, f)).read().splitlines():
                    l = l.split(" => ")[0].strip()
                    if not l or l.startswith("#"):
                        continue
                    if l == "reset":
                        if cur:
                            out.append(cur)
                        cur = []
                    else:
                        cur.append(l)
                if cur:
                    out.append(cur)
    return out


def explore(core, pid, scripts, nontrivial=None, stats=None, exhaustive=False, with_corpus=True):
    scripts = list(scripts)
    if with_corpus:
        scripts = corpus(pid) + scripts
    r = core.run_scripts(pid, scripts)
    nt = nontrivial or (lambda sc: len(sc) >= 2)
    distinct = {core.script_hash(sc) for sc in scripts if nt(sc)}
    ops = {}
    for sc in scripts:
        for l in sc:
            k = l.split(" ", 1)[0]
            ops[k] = ops.get(k, 0) + 1
    st = {"scripts": len(scripts), "ops": ops}
    if stats:
        st.update(stats)
    # samples: annotated lines of the first and a middle script
    samples = []
    for si in sorted({0, len(scripts) // 2, len(scripts) - 1}):
        if 0 <= si < len(scripts):
            lines = [r["annotated"][i] for i, o in enumerate(r["owner"]) if o is not None and o[0] == si][:12]
            samples.append(lines)
    r.update({"scripts": scripts, "n_scripts": len(scripts), "distinct_nontrivial": len(distinct), "stats": st,
              "samples": samples, "exhaustive": exhaustive})
    return r
