#!/bin/bash
# usage: tools/install_round2.sh C02 C06 ...  — confirm and install the round-2 sub-agent mutants found under /tmp/mut2/<Cxx>/m3, m4
for p in "$@"; do for m in ${MUTS:-m3 m4}; do
  d=${MUTBASE:-/tmp/mut2}/$p/$m
  [ -f $d/patch.diff ] || { echo "$p $m: missing"; continue; }
  [ -d /verif/seeded/$p-$m ] && { echo "$p-$m already installed"; continue; }
  pkg=$(head -1 $d/notes.md | sed -n 's/^pkg: *//p'); [ -n "$pkg" ] || pkg=.
  /verif/tools/install_mutant.py $p $d "$pkg"
done; done
