#!/bin/bash
# usage: tools/install_all.sh C10 C11 ...  — confirm and install the sub-agent mutants found under /tmp/mut/<Cxx>/m1, m2
for p in "$@"; do for m in m1 m2; do
  d=/tmp/mut/$p/$m
  [ -f $d/patch.diff ] || { echo "$p $m: missing"; continue; }
  pkg=$(head -1 $d/notes.md | sed -n 's/^pkg: *//p'); [ -n "$pkg" ] || pkg=.
  /verif/tools/install_mutant.py $p $d "$pkg"
done; done
