#!/bin/bash
# usage: tools/mutant.sh <patch.diff> <Cxx> [<Cxx> ...]   — apply a seeded change to /repo, run the checks, always undo it.
set -u
patch="$(readlink -f "$1")"; shift
[ -f "$patch" ] || { echo "no such patch: $patch"; exit 2; }
git -C /repo diff --quiet || { echo "/repo has uncommitted changes"; exit 2; }
git -C /repo apply "$patch" || { echo "patch does not apply"; exit 2; }
trap 'git -C /repo checkout -- . ; git -C /repo clean -fdq' EXIT
for p in "$@"; do
  timeout ${MUTANT_TIMEOUT:-600} /verif/check "$p" --tier ${VERIF_TIER:-quick} </dev/null
  echo "== $p exit=$?"
done
