#!/usr/bin/env python3
"""tools/install_mutant.py <Cxx> <m-dir> <pkg> : confirm in a scratch worktree and store under /verif/seeded/<Cxx>-<name>/"""
import json, os, shutil, subprocess, sys
pid, src, pkg = sys.argv[1], os.path.abspath(sys.argv[2]), sys.argv[3]
name = "%s-%s" % (pid, os.path.basename(src))
out = subprocess.run(["/verif/tools/confirm_mutant.sh", src, pkg], stdout=subprocess.PIPE, stderr=subprocess.STDOUT, text=True).stdout.strip().splitlines()[-1]
conf = json.loads(out)
ok = conf == {"applies": "yes", "build": "yes", "suite_passes_with_change": "yes", "demo_with_change": "fail", "demo_without_change": "pass"}
print(name, "CONFIRMED" if ok else "NOT CONFIRMED", out)
if not ok:
    sys.exit(1)
dst = os.path.join("/verif/seeded", name)
os.makedirs(dst, exist_ok=True)
shutil.copy(os.path.join(src, "patch.diff"), os.path.join(dst, "patch.diff"))
shutil.copy(os.path.join(src, "demo_test.go"), os.path.join(dst, "demo_test.go.txt"))
notes = open(os.path.join(src, "notes.md")).read() if os.path.exists(os.path.join(src, "notes.md")) else ""
open(os.path.join(dst, "notes.md"), "w").write(notes)
meta = {"property": pid, "origin": "independent sub-agent given only the property text and a scratch worktree",
        "demo": "demo_test.go.txt (copy into %s/ as *_test.go)" % pkg, "needs_to_manifest": "see notes.md",
        "confirmed_by": "tools/confirm_mutant.sh in a scratch worktree of /repo@HEAD", "confirmation": conf, "detected_by": None}
json.dump(meta, open(os.path.join(dst, "meta.json"), "w"), indent=1)
