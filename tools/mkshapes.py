#!/usr/bin/env python3
"""tools/mkshapes.py — (re)writes lean/TypVerif/Props/CxxShapes.lean: the GOLDEN function shapes of every source file of /repo a property's model mirrors.

The extractor regenerates `Gen/<X>Shapes.lean` from /repo on every run (for each function: its calls, stores through selectors / indices / pointers, conditions,
loop headers, select cases and return expressions, in source order).  The theorems written here state that the regenerated shapes EQUAL the shapes of the tree
the models were written against.  Running this script is a deliberate act of the maintainer (after re-reading the changed functions against the model), never
part of a check: it reads the CURRENT Gen files, so run it on the unchanged tree only (`./check --setup` first)."""
import os, re, sys
ROOT = os.path.dirname(os.path.dirname(os.path.abspath(__file__)))
GEN = os.path.join(ROOT, "lean", "TypVerif", "Gen")
PROPS = os.path.join(ROOT, "lean", "TypVerif", "Props")

C12 = ["Fill", "Insert", "InsertSlice", "Remove", "RemoveSlice", "Repeat", "Concat", "Clone", "Grow"]
C13 = ["Pairs", "PairsFunc", "Windowed", "WindowedFunc", "Chunk", "ChunkFunc"]
# (property, Gen module, theorem name, what it mirrors, filter: None | list of names kept | ("not", names dropped))
TABLE = [
    ("C01", "AvlShapes", "gen_shapes_avl", "avl/avl.go (Model/Avl.lean mirrors it function by function)", None),
    ("C01", "UtilShapes", "gen_shapes_dep_compare", "util.go, Compare (the comparator of avl.NewOrdered) - a DEPENDENCY of the tree", ["Compare"]),
    ("C01", "MathShapes", "gen_shapes_dep_max", "math.go, Max (used by calcHeight) - a DEPENDENCY of the tree", ["Max"]),
    ("C03", "MapSetShapes", "gen_shapes_map_set", "maps/set.go", None),
    ("C03", "SetsShapes", "gen_shapes_sets", "sets/sets.go", None),
    ("C03", "SyncSetShapes", "gen_shapes_sync_set", "sync2/set.go", None),
    ("C06", "ListShapes", "gen_shapes_list", "lists/list.go", None),
    ("C06", "RingShapes", "gen_shapes_ring", "lists/ring.go", None),
    ("C07", "SortedShapes", "gen_shapes_sorted", "slices/sorted.go", None),
    ("C07", "SlicesShapes", "gen_shapes_dep_insert_remove", "slices/slices.go, Insert and Remove - DEPENDENCIES of Sorted.Add / Remove / RemoveAt", ["Insert", "Remove"]),
    ("C08", "Array2DShapes", "gen_shapes_array2d", "arrays/array2d.go", None),
    ("C10", "ChanShapes", "gen_shapes_dep_sendtimeout", "chans/chans.go, SendTimeout - the DEPENDENCY of PubSub.send", ["SendTimeout"]),
    ("C11", "BimapShapes", "gen_shapes_bimap", "maps/bimap.go", None),
    ("C11", "MapsShapes", "gen_shapes_dep_maps", "maps/maps.go, Clear and Clone - DEPENDENCIES of Bimap.Clear / Clone", ["Clear", "Clone"]),
    ("C12", "SlicesShapes", "gen_shapes_splice", "slices/slices.go, the splicing helpers", C12),
    ("C12", "SortShapes", "gen_shapes_reverse", "slices/sort.go, Reverse", ["Reverse"]),
    ("C13", "SlicesShapes", "gen_shapes_partition", "slices/slices.go, Chunk / Windowed / Pairs", C13),
    ("C14", "SlicesShapes", "gen_shapes_functional", "slices/slices.go, the functional helpers", ("not", C12 + C13)),
    ("C14", "MapsShapes", "gen_shapes_maps", "maps/maps.go", None),
    ("C14", "MapSetShapes", "gen_shapes_dep_set", "maps/set.go, NewSetFromSlice / Set.Add / Set.Has - DEPENDENCIES of Except / ExceptSet", ["NewSetFromSlice", "Set.Add", "Set.Has"]),
    ("C16", "ListShapes", "gen_shapes_dep_list", "lists/list.go - the List under Queue (a DEPENDENCY)", None),
    ("C15", "SortShapes", "gen_shapes_sort", "slices/sort.go", ("not", ["Reverse"])),
    ("C17", "OnceShapes", "gen_shapes_once", "sync2/once.go", None),
    ("C19", "ChanShapes", "gen_shapes_chans", "chans/chans.go", None),
    ("C20", "MathShapes", "gen_shapes_math", "math.go", None),
    ("C20", "UtilShapes", "gen_shapes_util", "util.go", None),
]


def rows(mod):
    s = open(os.path.join(GEN, mod + ".lean")).read()
    body = s[s.index(":= [") + 4:s.rindex("]\nend Gen")]
    out = []
    for line in body.split(",\n  "):
        m = re.match(r'\("((?:[^"\\]|\\.)*)", \[(.*)\]\)$', line.strip(), re.S)
        if not m:
            raise SystemExit("cannot parse a row of %s: %r" % (mod, line[:120]))
        out.append((m.group(1), line.strip()))
    return out


def main():
    byprop = {}
    for pid, mod, thm, what, flt in TABLE:
        rs = rows(mod)
        if flt is None:
            keep, lhs = rs, "Gen.%s.funcs" % mod
        elif isinstance(flt, tuple):
            names = flt[1]
            keep = [r for r in rs if r[0] not in names]
            lhs = "Gen.%s.funcs.filter (fun f => !(%s).contains f.1)" % (mod, "[" + ", ".join('"%s"' % n for n in names) + "]")
        else:
            keep = [r for r in rs if r[0] in flt]
            lhs = "Gen.%s.funcs.filter (fun f => (%s).contains f.1)" % (mod, "[" + ", ".join('"%s"' % n for n in flt) + "]")
        lit = "[" + ",\n       ".join(r[1] for r in keep) + "]"
        byprop.setdefault(pid, []).append((mod, thm, what, lhs, lit, len(keep)))
    for pid, items in byprop.items():
        mods = sorted(set(m for m, *_ in items))
        txt = "".join("import TypVerif.Gen.%s\n" % m for m in mods)
        txt += """/-
%s, tie 4B — GOLDEN FUNCTION SHAPES (written by tools/mkshapes.py; do not edit by hand).  For every function of the source files this property's model mirrors,
the extractor regenerates on every run: its calls, its stores through selectors / indices / pointers, its conditions and loop headers, its select cases and
its return expressions, in source order.  The theorems below state that these equal the shapes of the tree the model was written against.  They are the STATIC,
all-paths complement of the differential runs: a guard dropped, a fast path or a threshold added, an early return, a changed comparison or a different callee
on ANY path - also one that no generated input happens to take - changes the regenerated list and breaks the `rfl`.  A broken shape theorem is reported like a
broken proof (with a failing input when the search finds one, else `no-failing-input-found`); after a deliberate change of the source the changed functions are
re-read against the model and this file is regenerated.
-/
namespace %s
""" % (pid, pid)
        for mod, thm, what, lhs, lit, n in items:
            txt += "\n/-- %s: %d function(s) -/\ntheorem %s :\n    %s =\n      %s := rfl\n" % (what, n, thm, lhs, lit)
        txt += "\nend %s\n" % pid
        open(os.path.join(PROPS, pid + "Shapes.lean"), "w").write(txt)
        print(pid, [t[1] for t in items])


if __name__ == "__main__":
    main()
