#!/usr/bin/env python3
"""Regenerates /verif/MANIFEST.json from the table below (keeps it schema-valid and current)."""
import json, os, subprocess
ROOT = os.path.dirname(os.path.dirname(os.path.abspath(__file__)))
props = [json.loads(l) for l in open(os.path.join(ROOT, "properties.jsonl"))]

NOTE_COMMON = ("Trusted: Lean 4.33.0 kernel (axioms propext, Classical.choice, Quot.sound only; audited by #print axioms on every run); that Props/Spec say what the property says; "
               "the unverified correspondence machinery (Go harness, Lean driver glue, Python runner, go/ast extractor); Go runtime primitives by contract; Go generics parametric; no int overflow at the sizes used.")

CHECKS = {
 "C01": ("refinement proof (Lean 4): AVL model refines a sorted multiset for all op histories + differential correspondence model/impl/spec",
         "All-histories refinement theorems (C01.refines, sorted, count_eq, remove_absent/present, traversals, clone) about an executable model that mirrors avl.go line by line; tied to /repo on every run by differential execution of random and exhaustive small histories through harness and compiled Lean driver (observational tie: results, walks, three-traversal predicate).",
         "§8 C01"),
 "C02": ("invariant proof (Lean 4): AVL balance + cached heights preserved by add/remove/popLeftMost for all histories; Fibonacci size bound; regenerated kernels",
         "C02.rebalance_spec/add_avl/remove_avl/all_histories prove the AVL invariant (true heights differ by <= 1, cached heights exact) for every history; C02.fib, depth_log_int (2^(84h) <= (n+2)^121) and depth_log ((height : R) <= 1.4405 * logb 2 (n+2); Props/C02Real.lean, the only Mathlib-importing module) give the depth bound; C02.cost bounds comparator calls by height+1. Tie: exact shape (with cached heights, via verif hook) and exact comparator-call counts compared with the model after every operation, plus kernels (nil height, balance thresholds, calcHeight, rebalance guards) regenerated from the Go AST every run and proved equal to the model's (C02.gen_*).",
         "§8 C02"),
 "C03": ("refinement proof (Lean 4): both Set implementations (map-backed, sync2.Map-backed) refine finite-set algebra; correspondence incl. internal layout",
         "C03.union/intersect/setdiff/symdiff/operands_unchanged/add/remove/addSet_count/removeSet_count/range/len/clone/from*/cartesian proved for any pairing of implementations and any reachable internal layout of the concurrent set (C03.sync_reachable_inv). Tie: programs over mixed handles incl. self-aliased calls, layouts aged and observed via the verif hook.",
         "§8 C03"),
 "C04": ("refinement proofs (Lean 4): (seq) the read/dirty/expunged state machine refines a map for all call sequences; (conc) forward simulation of the step-level transition system of map.go (one step = one atomic action; any number of goroutines) into a relaxed atomic map whose histories are proved linearizable => linearizability for ALL schedules; Range theorems for all schedules; real step traces replayed label for label in that transition system; atomic sites + hooks regenerated from the source",
         "C04.conc_linearizable (every execution of the step-level model Model.SyncMapConc - 41 program points = the atomic sites of map.go, any number of goroutines, any operations, every interleaving - has a linearizable Load/Store/LoadOrStore/LoadAndDelete/Delete history), conc_sim_step, conc_inv, conc_no_nil_map_write, conc_lock_exclusive, conc_structure, conc_spec_is_seq_spec; Range under all schedules: conc_range_once (at most once per key), conc_range_value (the value passed for k is k's abstract value at that moment of the call), conc_range_skip, conc_range_snapshot (every key present when the loop starts is in the snapshot), conc_range_todo_held, conc_range_untouched (TRACE level: a key whose abstract value is v in every state from the step that takes the snapshot until the call returns is passed to the callback with v; with conc_step_no_expunge: no single step turns a value entry into an expunged one); sequential half: seq_inv/seq_step/seq_refines/seq_abs/range_seq/range_prefix. Tie: (1) step-level traces of the real code under the controlled scheduler (every schedule with <= 2 preemptions of a program catalogue, random programs/schedules; ~900k lines quick, >10M thorough) replayed in Model.SyncMapConc by the judge C04conc (same hook label, step enabled, announced loop key available, equal result); (2) the same executions and native runs judged for the property itself (linearizable + Range predicate) by ObjLin; (3) gen_all_atomic_sites_hooked / gen_sites_are_the_models / model_labels_are_sites about Gen.MapHooks regenerated from map.go on every run; (4) sequential histories with the internal layout compared after every call; (5) the simulation relation evaluated along random runs of the model (C04inv); (6) acceptance is theorem-backed: the judge's map-mode replay is the pure function Model.SyncMapTrace.replay, C04.trace_accept_sound / judge_accept_sound (an accepted trace IS an execution of the model) and accepted_trace_linearizable (hence its API history is linearizable); (7) gen_race_discipline: static lock/atomic discipline of map.go regenerated from the source.",
         '§8 C04, Appendix F.1'),
 "C06": ("refinement proof (Lean 4): pointer-level heap models of list.go / ring.go refine sequence / cycle-partition specs; three-way correspondence with container/list, container/ring",
         "C06.list_refines (all op sequences, under NoInitOnNonEmpty), C06.ring_refines (all op sequences, same-ring Link included), list_wf/ring_wf. Tie: the fork, the standard library and the Lean model+spec run in lock-step on the same histories; a fork-vs-stdlib difference is the counterexample verbatim.",
         "§8 C06"),
 "C07": ("invariant + refinement proof (Lean 4): Sorted stays sorted and an exact multiset for all histories; binary-search lower bound",
         "C07.sorted_inv, multiset, input_untouched, add_pos, index_first, contains_iff, remove_present/absent, get_removeAt_exact/panic_iff, refines_spec; sort.Search modelled by its actual loop with a proved lower-bound theorem. Tie: differential histories with three less functions.",
         "§8 C07"),
 "C08": ("proof (Lean 4) about index kernels regenerated from the Go AST (injectivity, range) + grid refinement of the model; exhaustive small-shape correspondence",
         "C08.idx_inj/idx_lt/row_range/span_range/fill_range are proved about Gen.A2D.* which the extractor regenerates from array2d.go on every run; C08.set_get/set_frame/oob_panics_unchanged/row_live/rowSpan_live/fill_exact/fromJagged/refines_grid about the model, tied by C08.gen_*_eq and by exhaustive correspondence over all shapes 0..5x0..5 with in- and out-of-bounds coordinates.",
         "§8 C08, App. A"),
 "C10": ("invariant proofs (Lean 4) over a transition system of pubsub.go (RWMutex, WaitGroup, channels, sender goroutines, clones): no panic under CloneDiscipline, the clone-after-unsub panic as a proved negation (known finding), Unsub/UnsubAll/WithOnly exactness, and the log-level delivery theorems for all schedules (exactly once / in order for Sync, complete for Wait, at most once for async, delivery xor timeout); event-trace acceptance of subprocess scenarios",
         "C10.no_panic_partial (all schedules, any subscribers/buffers, under CloneDiscipline), clone_after_unsub_panics (the unrestricted statement is FALSE of model and code: proved witness, replayed on the implementation, listed in known_findings.json), unsub_exact/_nil/_all, withOnly; log level, all schedules: log_bookkeeping_ids/_step/_call, sync_exactly_once_in_order (each pair of a returned PubSync/PubSliceSync call exactly once in delivered++timedOut, in publication order, timed out only with a positive timeout), sync_subs_constant, wait_complete, async_at_most_once (each pair at most once, logged only while the channel is still subscribed and open), timeout_exclusive. Tie: random scenarios in subprocesses incl. the families clone-splice (a clone while the parent's list is spliced) and live (every subscriber received from without limit: every call must return, every event - asynchronous ones too - must reach every subscriber that stays subscribed, a deadlock is a verdict); event traces accepted by the Lean transition system and checked against history predicates.",
         '§8 C10, Appendix F'),
 "C11": ("invariant proof (Lean 4): forward/reverse maps mutually inverse after every op sequence; eviction/removal frame theorems",
         "C11.inverse_inv/add_evicts/remove_both/len_eq_pairs/range_once/contains_agree/clear/clone_eq/refines_spec for all op sequences incl. clones and zero values. Tie: histories over 4x4 universe with full observation after every mutation, exhaustive short histories.",
         "§8 C11"),
 "C12": ("proof (Lean 4) over a Go-slice memory model (backing arrays, len/cap, append in place vs realloc, memmove copy): splice results + frame conditions for every len/cap/position",
         "C12.insert/insertSlice/remove/removeSlice (+_frame, _panics), fill_all (doubling loop invariant), repeat, reverse, concat, clone, grow. Tie: exhaustive len 0..6 x spare cap 0..4 x positions x lengths with the cells behind the logical end observed.",
         "§8 C12"),
 "C13": ("proof (Lean 4): Chunk/Windowed/Pairs loops equal the partition specs for all n, size>=1; ceil-division kernel regenerated from the Go AST",
         "C13.chunk_eq_spec/chunk_join/chunk_lengths/chunk_count/windowed_*/pairs_*/…Func_same about the loop models; C13.gen_lim_is_ceil/gen_kernel_eq_model/gen_tail_iff about kernels regenerated from slices.go every run. Tie: exhaustive n 0..24 x size 1..26.",
         "§8 C13"),
 "C14": ("proof (Lean 4): one equation per helper between its loop model and the reference List definition, for all inputs and callbacks",
         "C14.fold/foldReverse/map/mapErr*/filter/any/all/index*/contains*/distinct*/except*/groupBy/countBy/trim*/tryGet/safeGet*/last/keys/values/keyOf/containsValue/hasKey/mclear/mclone. Tie: differential calls with a position-sensitive callback family; inputs re-observed after mutation of results.",
         "§8 C14"),
 "C15": ("proof (Lean 4): adapters composed with library contracts (proved for reference implementations): permutation, order, stability, lower bound, shuffle",
         "C15.sort_asc/desc(+_ordered), stable_asc/desc (ties keep order, also descending), refSort_contract, binarySearch_lower_bound/first_match, binarySearchFunc_lower_bound, shuffle_perm, shuffleRand_function. Tie: tagged elements, lengths to 200 (beyond the insertion-sort cutoff), unstable sorts judged by predicate, stable ones exactly.",
         "§8 C15"),
 "C16": ("refinement proof (Lean 4): Queue over the heap list model is FIFO, Stack is LIFO, for all interleavings from the zero value",
         "C16.queue_refines/stack_refines/peek_is_next/empty_returns_zero_false_and_stays_usable. Tie: random and exhaustive (length <= 6) interleavings.",
         "§8 C16"),
 "C05": ("proofs (Lean 4): every concurrent execution of Add/Remove/Has (= the map calls set.go makes, on the step-level model of map.go) is linearizable to the set specification (corollary of C04.conc_linearizable through a proved specification homomorphism); alternation/counting at specification level; sequential refinement; step-trace acceptance; call shape of Set methods regenerated from the source",
         'C05.conc_linearizable (all schedules: the Add/Remove/Has history is Linearizable w.r.t. the set specification), conc_alternate (the linearization is a sequential set history in which, per value, successful Adds and Removes alternate starting with an Add and #okAdd - #okRemove in {0,1} = final membership), conc_add_add, conc_add_once, set_transfer, set_hom, calls_have_points, seq_is_srun; specification level: alternate/alternate_from/has_between; atomic_seq, seq_history; gen_add_is_one_loadOrStore/gen_remove_is_one_loadAndDelete/gen_has_is_one_load/gen_map_sites_hooked (regenerated from set.go / map.go every run). Tie: step-level traces of the real Set under the controlled scheduler replayed in Model.SyncMapConc (every Set call must be, label for label, the map call(s) set.go makes; AddSet/RemoveSet in either element order), the same executions and native runs judged for linearizability to the set specification.',
         '§8 C05, Appendix F'),
 "C09": ("invariant proofs (Lean 4), all schedules: (1) keyedmutex.go composed with the STEP-LEVEL transition system of the embedded sync2.Map (no atomic-map assumption): one mutex per key, mutual exclusion / readers-xor-writer per key, unlock releases what was locked, try-lock, cross-key independence; (2) the same over an atomic map; (3) one-mutex-per-key as a corollary of the map's linearizability; step-level and API-level trace acceptance",
         "On the composition Model.KeyedMutexConc (every method = one LoadOrStore(key, fresh) on the step-level map model, then one action on the returned mutex; sync.Mutex/RWMutex by contract), for every reachable state, any number of goroutines, menus that never ClearKey the key under consideration: C09.conc_agree (all goroutines that obtained a mutex for k have the same one, the map's abstract value), conc_agree_distinct, conc_mutex (at most one writer-holder per key, no reader with a writer), conc_unlock_same (UnlockKey/RUnlockKey release exactly what LockKey/RLockKey acquired; no unlock of an unlocked mutex), conc_try, conc_independent, conc_map_result, conc_clear_proviso_needed. History level on the real map: C09.map_agree/map_one_mutex/map_first_stores. Over the atomic map (Model.KeyedMutex): C09.agree/mutex/rw/independent/try/... Tie: step-level traces of the real KeyedMutex/KeyedRWMutex under the controlled scheduler (all schedules with <= 2 preemptions of a catalogue incl. first-use races and cleared keys, random programs) replayed label for label in Model.KeyedMutexConc by the judge C09conc (whose steps are proved to be steps of the model: doStep_sound etc.), the same executions and native parallel runs (also under -race) judged for the keyed-lock specification.",
         '§8 C09, Appendix F.7'),
 "C17": ("invariant proofs (Lean 4) over a transition system of sync.Once's algorithm + the OnceN wrappers: exactly once, same results, return after completion, for all schedules and any number of callers; event-trace acceptance",
         "C17.exactly_once/returned_implies_invoked_and_finished/same_results/after_completion(_ret)/fend_records/result_stable/spec_holds. With functions that may PANIC (Model.OncePanic: the deferred done.Store(1) and Unlock run while the panic unwinds, the panicking caller never returns): panic_exactly_once(_state), panic_one_ending, panic_results_zero (after a panic every later Do returns zero values, the fields were never assigned), panic_after_completion, panic_panicker_never_returns, panic_mutex_released, panic_no_deadlock_of_waiters, panic_waiters_can_return (from every reachable state after the ending, every other caller has a schedule on which it returns the shared results), panic_refines_glue / panic_spec_holds_glue (the judge's translation fpanic -> fend zeros is a refinement into Model.Once). Tie: native executions with gated functions, event traces (call/fstart/fend/ret) accepted by the Lean system and checked against the history predicate; race-detector runs as observation.",
         "§8 C17"),
 "C18": ("proofs (Lean 4): generic atomic-object linearizability theorem; AtomicValue wrapper = register; Pool wrapper over the sync.Pool contract: no double hand-out, source of every Get, race freedom over regenerated plain-access facts",
         "C18.AtomicObj.linearizable/lin_in_interval, register, load_zero_before_store, load_latest, swap_returns_previous, cas_iff_equal, pool_no_double, pool_get_source, pool_get_result, pool_linearizable, pool_race_free, gen_pool_no_plain_stores, gen_pool_race_free (plain stores to receiver state in Get/Put regenerated from pool.go every run). Tie: native histories judged for linearizability by the Lean driver; the same scenarios under the Go race detector (a report is a violation).",
         "§8 C18"),
 "C19": ("proofs (Lean 4): queued receivers equal take/drop for every capacity/content/closed/limit; send_iff/recv_iff over a channel transition system with arbitrary environment; outcome-set acceptance of timed scenarios",
         "C19.recvQueued/recvQueuedFull (exact), send_iff, recv_iff, recv_closed_drained, nonpositive_timeout_blocks (all schedules of helper, peer, timer, cancellation); several goroutines draining one channel with RecvQueued/RecvQueuedFull, every interleaving of their loop iterations (Model.RecvQueuedConc): recvQueued_conc_conservation (the values received plus those left are exactly the queued ones, each received by one goroutine, each list in queue order), recvQueued_conc_limit, recvQueued_conc_early_stop (a goroutine that returns short of its limit saw the channel empty, and it stays empty), recvQueued_conc_predicate_sound (the predicate the judge applies to real concurrent runs accepts every final state of the model). Tie: queued receivers exhaustively (capacity <= 5 x fill x closed x limit <= 7) against model and specification; timed helpers: the real outcome must be in the outcome set the Lean scenario system allows and satisfy conservation.",
         "§8 C19"),
 "C20": ("proof (Lean 4) about BitVec kernels regenerated from math.go/util.go per integer width: Digits10 ladder, DigitsSign10, Abs, Clamp, Clamp01, Compare, Less; folds for Min/Max/Sum/Product",
         "C20.digits10_T/digitsSign10_T (all 8 integer types, signed minima included) are proved about Gen.Math.* regenerated from the Go AST on every run via one ladder lemma; abs/clamp/clamp01/compare/less likewise; min/max/sum/product/coal/tern about the model. Tie: all 8-bit values, boundary-dense 16/32/64-bit samples, pairs/triples.",
         "§8 C20"),
}
LEVEL_NOTES = {
 "C05": "Proved: linearizability of Add/Remove/Has under every schedule (via C04's concurrent theorem), alternation and counts for the linearization, the specification-level statements, the sequential refinement. AddSet/RemoveSet/Len are not atomic as a whole: their counts are judged on real executions as sequences of element operations inside the call's interval (Len only sanity-bounded). Data races: race detector observation only. Zero-size value pointers share one identity (handled by the model switch zst).",
 "C09": "Proved for all schedules on the composition with the step-level map model (no MapAtomic assumption) for keys that are never cleared; ClearKey is outside the property whenever it overlaps another call on its key or the key is held (the judge stops judging such a scenario; conc_clear_proviso_needed shows the proviso is necessary). sync.Mutex/RWMutex by contract (writer/reader sets; Go's writer-preference is not modelled in the composed model); 'never delays' proved as 'never disables'.",
 "C10": "Proved for all schedules: panic freedom without clones, exactness of Unsub/UnsubAll/WithOnly, exactly-once/in-order/complete/at-most-once/delivery-xor-timeout at the level of the delivery logs. Distinctness of pairs (count = 1), wait_complete and timeout_exclusive are under CloneDiscipline (they use the no-clone invariant). NOT proved: liveness ('eventually' for Pub/PubSlice; checked on quiescent real executions of the live family only). Known finding: clone-after-unsub panic. Go channels/select/timers/RWMutex/WaitGroup by contract.",
 "C17": "sync.Once is modelled by its algorithm (done flag + mutex); Go memory-model visibility of the result fields is trusted (follows from sync.Once's happens-before).",
 "C18": "atomic.Value and sync.Pool are modelled by contract; race freedom is a theorem about the model's plain-access sets tied to the source by regenerated facts, plus race-detector observation.",
 "C19": "Channels, select, timers, contexts by contract; wall-clock timing is not modelled (a timer is a nondeterministic choice); scenario systems assume the timer cannot fire before the helper first polls its select (promptPoll), the theorems do not.",
 "C04": "Proved for all schedules and all single-goroutine histories (unbounded). NOT proved / modelled: data-race freedom in the Go-memory-model sense (the model is sequentially consistent over atomic steps, mutex-protected plain accesses and Unlock merged into the preceding atomic step; races are only observed with the race detector: a report is a violation, silence proves nothing); early termination of Range by the callback is modelled in the sequential half only (range_prefix); atomic.Value, sync.Mutex, unsafe.Pointer by contract; zero-size value types share one pointer identity (model switch zst, theorems hold for both).",
}
REASONS = {}

checks, na = [], []
for p in props:
    pid = p["id"]
    if pid in CHECKS:
        tech, text, ref = CHECKS[pid]
        checks.append({
            "property_id": pid,
            "quick_cmd": "./check %s --tier quick" % pid,
            "thorough_cmd": "./check %s --tier thorough" % pid,
            "evidence_file": "/verif/evidence/%s.json" % pid,
            "replay_cmd_template": "./check --replay {path}",
            "engine": "lean-proof+correspondence",
            "level_claimed": {"category": "proof", "text": text, "design_ref": "DESIGN.md " + ref},
            "level_note": (LEVEL_NOTES.get(pid, "") + " " + NOTE_COMMON).strip(),
            "technique": tech,
        })
    else:
        na.append({"property_id": pid, "reason": REASONS.get(pid, "check under construction in this build round (model/judge/harness not integrated yet); see DESIGN.md §13")})

hooks_commits = subprocess.run(["git", "-C", "/repo", "log", "--format=%H", "--grep=^verif:"], stdout=subprocess.PIPE, text=True).stdout.split()
m = {
 "version": 1,
 "setup_cmd": "cd /verif && ./check --setup",
 "hooks": {"guard": "verif", "enable": "go build -tags verif (the harness module /verif/harness replaces gopkg.in/typ.v4 with /repo)",
           "baseline_off_cmd": "cd /repo && GOFLAGS=-mod=mod GOPROXY=off GOSUMDB=off GOTOOLCHAIN=local go test -vet=off -count=1 ./...",
           "source_commits": hooks_commits, "add_only": True},
 "engines": [{"name": "lean-proof+correspondence", "path": "/verif/lean, /verif/harness, /verif/extract, /verif/check",
              "serves_properties": sorted(CHECKS), "kind_free_text": "Lean 4 theorems about executable models; models tied to /repo on every run by differential execution (Go harness -> line protocol -> compiled Lean driver) and by kernels regenerated from the Go AST"}],
 "checks": checks,
 "notes": "Every check: regenerates Gen/*.lean from /repo, rebuilds the Lean property modules, audits axioms, rebuilds the harness against /repo's working tree with -tags verif, runs corpus + generated cases, searches for a failing input when a proof obligation or the correspondence breaks. See DESIGN.md.",
 "not_applicable": na,
}
json.dump(m, open(os.path.join(ROOT, "MANIFEST.json"), "w"), indent=1)
print("checks:", len(checks), "not claimed:", len(na))
