#!/bin/bash
# tools/coverage.sh [Cxx ...] — MEASUREMENT, not a check: statement coverage of go-typ/typ's own code (non-test files of /repo) reached by the
# correspondence runs of the quick tier (harness built with `go build -cover -coverpkg=gopkg.in/typ.v4/...`).  Writes /verif/COVERAGE.txt.
# Scenarios that run the harness in subprocesses which are killed (deadlock verdicts) do not flush their counters: the figures are a lower bound.
cd /verif || exit 1
export GOFLAGS=-mod=mod GOPROXY=off GOSUMDB=off GOTOOLCHAIN=local VERIF_COVER=1
export GOCOVERDIR=/verif/.work/cover
rm -rf "$GOCOVERDIR"; mkdir -p "$GOCOVERDIR"
props=${@:-$(seq -f 'C%02g' 1 20)}
for p in $props; do ./check $p 2>&1 | tail -1; done
( echo "# statement coverage of /repo's code by the quick-tier correspondence runs ($(date -u +%F), properties: $(echo $props | tr '\n' ' '))"
  go tool covdata percent -i="$GOCOVERDIR" 2>&1 | grep typ.v4
  echo; echo "# functions NOT reached (0.0%)"
  go tool covdata func -i="$GOCOVERDIR" 2>&1 | grep typ.v4 | awk '$NF=="0.0%"' ) > COVERAGE.txt
unset VERIF_COVER; rm -f .work/bin/harness   # the next check rebuilds the plain harness
tail -5 COVERAGE.txt
