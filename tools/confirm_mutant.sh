#!/bin/bash
# usage: tools/confirm_mutant.sh <dir with patch.diff + demo_test.go> <package dir for the demo, e.g. avl>
# Confirms in a scratch worktree of /repo@HEAD: builds (with/without -tags verif), existing suite passes with the change,
# demo fails with the change and passes without. Prints a JSON summary line. Removes the worktree afterwards.
set -u
src="$(readlink -f "$1")"; pkg="$2"
export GOFLAGS=-mod=mod GOPROXY=off GOSUMDB=off GOTOOLCHAIN=local
wt=$(mktemp -d /tmp/confirm.XXXXXX)
git -C /repo worktree add -q --detach "$wt" HEAD || exit 2
trap 'git -C /repo worktree remove --force "$wt" >/dev/null 2>&1; rm -rf "$wt"' EXIT
cd "$wt"
applies=yes
git apply "$src/patch.diff" 2>/dev/null || git apply --3way "$src/patch.diff" 2>/dev/null || patch -p1 --fuzz=3 -s < "$src/patch.diff" || applies=no
rm -f $(find . -name '*.orig' -o -name '*.rej')
git diff > "$wt/rebased.diff"
build=no; timeout 300 go build ./... && timeout 300 go build -tags verif ./... && build=yes
suite=no; timeout 600 go test -vet=off -count=1 ./... >/dev/null 2>&1 && suite=yes
cp "$src/demo_test.go" "$pkg/zz_demo_test.go"
demo_with=pass; timeout 600 go test -vet=off -count=1 ./$pkg >/dev/null 2>&1 || demo_with=fail
git checkout -q -- . 
demo_without=fail; timeout 600 go test -vet=off -count=1 ./$pkg >/dev/null 2>&1 && demo_without=pass
rm -f "$pkg/zz_demo_test.go"
cp "$wt/rebased.diff" "$src/patch.rebased.diff"
echo "{\"applies\":\"$applies\",\"build\":\"$build\",\"suite_passes_with_change\":\"$suite\",\"demo_with_change\":\"$demo_with\",\"demo_without_change\":\"$demo_without\"}"
