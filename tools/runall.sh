#!/bin/bash
# run every claimed check (quick tier unless VERIF_TIER is set) on the current tree; summary at the end
cd "$(dirname "$(readlink -f "$0")")/.." || exit 2   # the tree this script lives in (a `vp run` snapshot stays inside its snapshot)
ids=$(python3 -c "import json;print(' '.join(c['property_id'] for c in json.load(open('MANIFEST.json'))['checks']))")
fail=0
for p in ${@:-$ids}; do
  out=$(timeout ${RUNALL_TIMEOUT:-1800} ./check $p --tier ${VERIF_TIER:-quick} </dev/null 2>&1); rc=$?
  echo "$out" | grep -v "^WARNING conda" | tail -3 | cut -c1-230
  [ $rc -ne 0 ] && { echo "!! $p exit=$rc"; fail=1; }
done
exit $fail
