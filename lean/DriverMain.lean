import TypVerif.Drv.Proto
import TypVerif.Drv.C13
import TypVerif.Drv.C10
import TypVerif.Drv.ObjLin
import TypVerif.Drv.C09
import TypVerif.Drv.C17
import TypVerif.Drv.C18
import TypVerif.Drv.C19
import TypVerif.Drv.C08
import TypVerif.Drv.C11
import TypVerif.Drv.C20
import TypVerif.Drv.C06
import TypVerif.Drv.C16
import TypVerif.Drv.C01
import TypVerif.Drv.C02
import TypVerif.Drv.C03
import TypVerif.Drv.C04
import TypVerif.Drv.C07
import TypVerif.Drv.C12
import TypVerif.Drv.C14
import TypVerif.Drv.C15
import TypVerif.Drv.C04conc
import TypVerif.Drv.C04inv
import TypVerif.Drv.C09conc
/-
typdriver <Cxx> : reads annotated harness lines on stdin, prints one line per non-ok input line and a summary.
Verdicts (DESIGN §4A):  cex  = implementation differs from the specification (property fails on this input)
                        corr = implementation agrees with the specification but differs from the model
                        int  = model differs from specification (contradicts a theorem: driver glue bug)
-/
open TypVerif.Proto

def judges : List (String × Judge) := [
  ("C13", TypVerif.Drv.C13.judge),
  ("C10", TypVerif.Drv.C10.judge),
  ("ObjLin", TypVerif.Drv.ObjLin.judge),
  ("C09", TypVerif.Drv.C09.judge),
  ("C17", TypVerif.Drv.C17.judge),
  ("C18", TypVerif.Drv.C18.judge),
  ("C19", TypVerif.Drv.C19.judge),
  ("C09ref", TypVerif.Drv.C09.judgeRef),
  ("C08", TypVerif.Drv.C08.judge),
  ("C11", TypVerif.Drv.C11.judge),
  ("C20", TypVerif.Drv.C20.judge),
  ("C06", TypVerif.Drv.C06.judge),
  ("C16", TypVerif.Drv.C16.judge),
  ("C01", TypVerif.Drv.C01.judge),
  ("C02", TypVerif.Drv.C02.judge),
  ("C03", TypVerif.Drv.C03.judge),
  ("C04", TypVerif.Drv.C04.judge),
  ("C07", TypVerif.Drv.C07.judge),
  ("C12", TypVerif.Drv.C12.judge),
  ("C14", TypVerif.Drv.C14.judge),
  ("C15", TypVerif.Drv.C15.judge),
  ("C04conc", TypVerif.Drv.C04conc.judge),
  ("C04inv", TypVerif.Drv.C04inv.judge),
  ("C09conc", TypVerif.Drv.C09conc.judge)
]

structure DAcc where
  lines : Nat := 0
  ok : Nat := 0
  cex : Nat := 0
  corr : Nat := 0
  internal : Nat := 0
  tags : List (String × Nat) := []

def bump (tags : List (String × Nat)) (t : String) : List (String × Nat) :=
  match tags.find? (·.1 == t) with
  | some _ => tags.map (fun p => if p.1 == t then (p.1, p.2 + 1) else p)
  | none => (t, 1) :: tags

partial def loop (j : Judge) (h : IO.FS.Stream) (out : IO.FS.Stream) (st : j.σ) (acc : DAcc) (lineNo : Nat) : IO DAcc := do
  let line ← h.getLine
  if line.isEmpty then return acc
  let line := line.trimAscii.toString
  if line.isEmpty || line.startsWith "#" then
    loop j h out st acc (lineNo + 1)
  else if line == "reset" then
    -- progress marker for the runner's watchdog (stderr, unbuffered): which scenario the judge is working on
    IO.eprintln s!"@ {lineNo}"
    loop j h out j.init acc (lineNo + 1)
  else
    let (toks, impl) := splitLine line
    let (st', o) := j.step st (toks.map parseTok) impl
    let tags := o.tags.foldl bump acc.tags
    let acc := { acc with lines := acc.lines + 1, tags := tags }
    let specOk := match o.spec with | some s => s == impl | none => true
    let modelOk := o.model == impl
    -- event-trace judges (DESIGN §4C): `violated:*` from the specification predicate is a counterexample whatever the
    -- model says; `rejected:*` from the model with the specification satisfied is a correspondence break
    let traceStyle := o.model.startsWith "rejected:" || (match o.spec with | some s => s.startsWith "violated:" | none => false)
    let internalBad := !traceStyle && (match o.spec with | some s => s != o.model | none => false)
    if internalBad then
      out.putStrLn s!"LINE {lineNo} int model={o.model} spec={o.spec.getD "-"} impl={impl}"
      loop j h out st' { acc with internal := acc.internal + 1 } (lineNo + 1)
    else if !specOk then
      out.putStrLn s!"LINE {lineNo} cex model={o.model} spec={o.spec.getD "-"} impl={impl}"
      loop j h out st' { acc with cex := acc.cex + 1 } (lineNo + 1)
    else if !modelOk then
      out.putStrLn s!"LINE {lineNo} corr model={o.model} spec={o.spec.getD "-"} impl={impl}"
      loop j h out st' { acc with corr := acc.corr + 1 } (lineNo + 1)
    else
      loop j h out st' { acc with ok := acc.ok + 1 } (lineNo + 1)

def main (args : List String) : IO UInt32 := do
  match args with
  | [p] =>
    match judges.find? (·.1 == p) with
    | some (_, j) =>
      let stdin ← IO.getStdin
      let stdout ← IO.getStdout
      let acc : DAcc ← loop j stdin stdout j.init {} 1
      let tagStr := ",".intercalate (acc.tags.map (fun p => s!"{p.1}:{p.2}"))
      stdout.putStrLn s!"SUMMARY lines={acc.lines} ok={acc.ok} cex={acc.cex} corr={acc.corr} int={acc.internal} tags={tagStr}"
      return 0
    | none => IO.eprintln s!"unknown property {p}"; return 2
  | _ => IO.eprintln "usage: typdriver <Cxx>"; return 2
