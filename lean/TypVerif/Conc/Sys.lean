/-
Transition-system framework for the schedule-quantified properties (DESIGN §7.1).

A system has finitely-branching nondeterministic successors; a successor is labelled by a visible
event (`some e`: something the harness can observe on the real code — an invocation, a response, a
callback, a receive) or is internal (`none`: an atomic step of some thread, a timer firing, a choice).
`Reachable` is the closure over all successors = all schedules, any number of steps.
A property of every schedule is `∀ s, Reachable sys s → P s`, proved by `invariant`.

Trace acceptance (DESIGN §4C): `accepts sys tr` decides, by a subset construction over the internal
closure, whether the system has an execution whose visible events are exactly `tr`; the driver runs it
on event traces recorded from the real code.  Acceptance is executable glue (fuel-bounded closure),
the theorems never depend on it.
-/
namespace TypVerif.Conc

structure Sys where
  State : Type
  Event : Type
  init : State
  succ : State → List (Option Event × State)

inductive Reachable (sys : Sys) : sys.State → Prop where
  | init : Reachable sys sys.init
  | step {s s' : sys.State} {l : Option sys.Event} : Reachable sys s → (l, s') ∈ sys.succ s → Reachable sys s'

/-- the invariant rule -/
theorem invariant (sys : Sys) (P : sys.State → Prop)
    (h0 : P sys.init)
    (hstep : ∀ s l s', P s → (l, s') ∈ sys.succ s → P s') :
    ∀ s, Reachable sys s → P s := by
  intro s hr
  induction hr with
  | init => exact h0
  | step _ hmem ih => exact hstep _ _ _ ih hmem

/-- invariant rule that may use reachability of the pre-state (for invariants that build on others) -/
theorem invariant' (sys : Sys) (P : sys.State → Prop)
    (h0 : P sys.init)
    (hstep : ∀ s l s', Reachable sys s → P s → (l, s') ∈ sys.succ s → P s') :
    ∀ s, Reachable sys s → P s := by
  intro s hr
  induction hr with
  | init => exact h0
  | step hr' hmem ih => exact hstep _ _ _ hr' ih hmem

/-- executions as lists of labelled steps, for trace-shaped statements -/
inductive Exec (sys : Sys) : sys.State → List (Option sys.Event) → sys.State → Prop where
  | nil (s) : Exec sys s [] s
  | cons {s s' s'' l ls} : (l, s') ∈ sys.succ s → Exec sys s' ls s'' → Exec sys s (l :: ls) s''

def visible {ε : Type} (ls : List (Option ε)) : List ε := ls.filterMap id

section Accept
variable (sys : Sys) [BEq sys.State] [BEq sys.Event]

def dedup {α : Type} [BEq α] (xs : List α) : List α :=
  xs.foldl (fun acc x => if acc.contains x then acc else acc ++ [x]) []

/-- internal closure of a state set, fuel-bounded -/
def tauClosure : Nat → List sys.State → List sys.State
  | 0, ss => ss
  | fuel + 1, ss =>
    let next := ss.flatMap (fun s => (sys.succ s).filterMap (fun p => match p.1 with | none => some p.2 | some _ => none))
    let all := dedup (ss ++ next)
    if all.length == ss.length then ss else tauClosure fuel all

def stepEvent (fuel : Nat) (ss : List sys.State) (e : sys.Event) : List sys.State :=
  let next := ss.flatMap (fun s => (sys.succ s).filterMap (fun p => match p.1 with | some e' => if e' == e then some p.2 else none | none => none))
  tauClosure sys fuel (dedup next)

/-- the set of states the system can be in after exhibiting the visible trace `tr` -/
def after (fuel : Nat) (tr : List sys.Event) : List sys.State :=
  tr.foldl (stepEvent sys fuel) (tauClosure sys fuel [sys.init])

def accepts (fuel : Nat) (tr : List sys.Event) : Bool := !(after sys fuel tr).isEmpty
end Accept

end TypVerif.Conc
