import TypVerif.Drv.Proto
import TypVerif.Model.Bimap
import TypVerif.Spec.Bimap
/-
Judge for C11 (maps.Bimap[int,int]).  Lines (PROTOCOL.md §C11):
  new <h>                          => ok          (zero value)
  add <h> <k> <v> | rmf <h> <k> | rmr <h> <v> | clear <h>   => ok
  clone <h> <r>                    => ok
  getf <h> <k>                     => <v> <bool>   (`0 false` when absent)
  getr <h> <v>                     => <k> <bool>
  cf <h> <k> | cr <h> <v>          => <bool>
  len <h>                          => <int>
  range <h> <n>                    => <list of [k,v]>  relational: distinct keys, every pair a current mapping,
                                       length = min(n, size) when n > 0, else size
  obs <h> <U>                      => [len,[[k,v]…],[[v,k]…]]
The state is the model world and the specification world, run side by side.  Unknown handle or malformed line:
`bad-op`.
-/
namespace TypVerif.Drv.C11
open TypVerif.Proto
open TypVerif

abbrev MB := Model.Bimap.Bimap Int Int
abbrev MOp := Model.Bimap.Op Int Int

structure St where
  mw : Model.Bimap.World Int Int := []
  sw : Spec.Bimap.World Int Int := []

def bad (st : St) : St × Out := (st, { model := "bad-op" })

def pairVal (p : Int × Int) : Val := .l [.i p.1, .i p.2]

def renderGet (r : Int × Bool) : String := renderAll [.i r.1, ofBool r.2]

def renderOpt : Option Int → String
  | some x => renderAll [.i x, ofBool true]
  | none => renderAll [.i 0, ofBool false]

/-- run a mutating operation on both worlds -/
def mutate (st : St) (op : MOp) (tags : List String) : St × Out :=
  let sw' := Spec.Bimap.step st.sw op
  match Model.Bimap.step st.mw op with
  | .ok mw' => ({ mw := mw', sw := sw' }, { model := "ok", spec := some "ok", tags := tags })
  | .error _ => ({ st with sw := sw' }, { model := "panic:other", spec := some "ok", tags := "panic" :: tags })

def addTags (b : MB) (k v : Int) : List String :=
  let t :=
    match b.getForward? k, b.getReverse? v with
    | none, none => "add.fresh"
    | some v0, none => if v0 = v then "add.inconsistent" else "add.evictKey"
    | none, some k0 => if k0 = k then "add.inconsistent" else "add.evictVal"
    | some v0, some k0 =>
      if v0 = v && k0 = k then "add.same"
      else if v0 = v || k0 = k then "add.inconsistent"
      else "add.evictBoth"
  if b.forward.isNil then [t, "add.alloc"] else [t]

def allDistinct : List Int → Bool
  | [] => true
  | x :: xs => !xs.contains x && allDistinct xs

/-- parse `[[k,v],…]` -/
def parsePairs (s : String) : Option (List (Int × Int)) :=
  match (parseTok s).intss? with
  | some xs => xs.mapM (fun p => match p with | [k, v] => some (k, v) | _ => none)
  | none => none

/-- the relational check for `range`, against arbitrary lookup/size functions -/
def rangeCheck (get : Int → Option Int) (size : Nat) (n : Int) (ps : List (Int × Int)) : Option String :=
  let want := if n > 0 then min n.toNat size else size
  if !allDistinct (ps.map (·.1)) then some "dupkey"
  else if !ps.all (fun p => get p.1 == some p.2) then some "notmapping"
  else if ps.length != want then some "length"
  else none

def obsList (get : Int → Option Int) (u : Nat) : List (Int × Int) :=
  (List.range u).filterMap (fun (i : Nat) => (get (Int.ofNat i)).map (fun x => (Int.ofNat i, x)))

def renderObs (len : Nat) (f r : List (Int × Int)) : String :=
  (Val.l [ofNat len, .l (f.map pairVal), .l (r.map pairVal)]).render

def step (st : St) (toks : List Val) (impl : String) : St × Out :=
  let mget (h : Int) := Model.Bimap.lookup st.mw h
  let sget (h : Int) := Spec.Bimap.wget st.sw h
  match toks with
  | [.w "new", .i h] =>
    mutate st (.new h) [if (mget h).isSome then "new.rebind" else "new"]
  | [.w "add", .i h, .i k, .i v] =>
    match mget h with
    | some b => mutate st (.add h k v) (addTags b k v)
    | none => bad st
  | [.w "rmf", .i h, .i k] =>
    match mget h with
    | some b => mutate st (.rmf h k) [if b.containsForward k then "rmf.hit" else "rmf.miss"]
    | none => bad st
  | [.w "rangemut", .i h, .i k] =>
    -- Range with a callback that removes key k on its first call: the visits are judged in the harness (each visited pair is a pair of the
    -- bimap at that moment, no key twice: `C11.range_once` on the bimap as it is at each visit); the effect is `RemoveForward k` unless empty
    match mget h with
    | some b =>
      if b.len = 0 then (st, { model := "ok", spec := some "ok", tags := ["rangemut.empty"] })
      else mutate st (.rmf h k) [if b.containsForward k then "rangemut.hit" else "rangemut.miss"]
    | none => bad st
  | [.w "rmr", .i h, .i v] =>
    match mget h with
    | some b => mutate st (.rmr h v) [if b.containsReverse v then "rmr.hit" else "rmr.miss"]
    | none => bad st
  | [.w "clear", .i h] =>
    match mget h with
    | some b =>
      mutate st (.clear h)
        [if b.forward.isNil then "clear.zero" else if b.len = 0 then "clear.empty" else "clear.nonempty"]
    | none => bad st
  | [.w "clone", .i h, .i r] =>
    match mget h with
    | some b =>
      mutate st (.clone h r)
        [if b.forward.isNil then "clone.zero" else if b.len = 0 then "clone.empty" else "clone.nonempty",
         if r = h then "clone.self" else if (mget r).isSome then "clone.overwrite" else "clone.fresh"]
    | none => bad st
  | [.w "getf", .i h, .i k] =>
    match mget h, sget h with
    | some b, some s =>
      (st, { model := renderGet (b.getForward k), spec := some (renderOpt (Spec.Bimap.fwd s k)),
             tags := [if b.containsForward k then "getf.hit" else if b.forward.isNil then "getf.nil" else "getf.miss"] })
    | _, _ => bad st
  | [.w "getr", .i h, .i v] =>
    match mget h, sget h with
    | some b, some s =>
      (st, { model := renderGet (b.getReverse v), spec := some (renderOpt (Spec.Bimap.rev s v)),
             tags := [if b.containsReverse v then "getr.hit" else if b.reverse.isNil then "getr.nil" else "getr.miss"] })
    | _, _ => bad st
  | [.w "cf", .i h, .i k] =>
    match mget h, sget h with
    | some b, some s =>
      (st, { model := (ofBool (b.containsForward k)).render, spec := some (ofBool (Spec.Bimap.containsKey s k)).render,
             tags := [if b.containsForward k then "cf.true" else "cf.false"] })
    | _, _ => bad st
  | [.w "cr", .i h, .i v] =>
    match mget h, sget h with
    | some b, some s =>
      (st, { model := (ofBool (b.containsReverse v)).render, spec := some (ofBool (Spec.Bimap.containsVal s v)).render,
             tags := [if b.containsReverse v then "cr.true" else "cr.false"] })
    | _, _ => bad st
  | [.w "len", .i h] =>
    match mget h, sget h with
    | some b, some s =>
      (st, { model := (ofNat b.len).render, spec := some (ofNat (Spec.Bimap.len s)).render,
             tags := [if b.forward.isNil then "len.nil" else if b.len = 0 then "len.empty" else "len.pos"] })
    | _, _ => bad st
  | [.w "range", .i h, .i n] =>
    match mget h, sget h with
    | some b, some s =>
      let tag :=
        if b.len = 0 then "range.empty"
        else if n ≤ 0 then "range.all"
        else if n.toNat < b.len then "range.stop" else "range.stop>=len"
      -- the model's own trace (one admissible order) must pass the check as well
      let own := b.range (Model.Bimap.Bimap.recorder (if n > 0 then n.toNat else 0)) []
      let ownOk := (rangeCheck b.getForward? b.len n own).isNone
      match parsePairs impl with
      | none => (st, { model := "range-bad:parse", spec := some "range-bad:parse", tags := [tag] })
      | some ps =>
        let m := match rangeCheck b.getForward? b.len n ps with
          | none => if ownOk then impl else "range-bad:model-own-trace"
          | some why => "range-bad:" ++ why
        let sp := match rangeCheck (Spec.Bimap.fwd s) (Spec.Bimap.len s) n ps with
          | none => impl
          | some why => "range-bad:" ++ why
        (st, { model := m, spec := some sp, tags := [tag] })
    | _, _ => bad st
  | [.w "obs", .i h, .i u] =>
    match mget h, sget h with
    | some b, some s =>
      let mf := obsList (fun k => let r := b.getForward k; if r.2 then some r.1 else none) u.toNat
      let mr := obsList (fun v => let r := b.getReverse v; if r.2 then some r.1 else none) u.toNat
      let sf := obsList (Spec.Bimap.fwd s) u.toNat
      let sr := obsList (Spec.Bimap.rev s) u.toNat
      (st, { model := renderObs b.len mf mr, spec := some (renderObs (Spec.Bimap.len s) sf sr), tags := ["obs"] })
    | _, _ => bad st
  | _ => bad st

def judge : Judge := { σ := St, init := {}, step := step }

end TypVerif.Drv.C11
