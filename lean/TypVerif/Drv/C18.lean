import TypVerif.Drv.Proto
import TypVerif.Conc.Sys
import TypVerif.Model.AtomicObj
import TypVerif.Model.AtomicValue
import TypVerif.Model.Pool
import TypVerif.Spec.Register
/-
Judge for C18 (event traces, PROTOCOL.md "Event-trace lines" / C18).  Every line has implementation result `ok`.

  av                               scenario header: one AtomicValue[int]
    inv <t> load | inv <t> store <v> | inv <t> swap <v> | inv <t> cas <old> <new>
    res <t> <v>      (load, swap: the value)   res <t> done   (store)   res <t> true|false   (cas)
  pool <hasnew>                    scenario header: one Pool[*item]; hasnew = 1: New makes items 1000, 1001, …
                                   in the order of its calls; hasnew = 0: New is nil
    inv <t> get | inv <t> put <id>
    res <t> <id>     (get; 0 = nil/zero)       res <t> done   (put)

Model output: `ok` while the set of model states compatible with the events so far is non-empty
(`Conc.stepEvent`, one event per line), `rejected:<event>` at the first event that empties it, then
`rejected:earlier`.  Model systems: `AtomicObj.sys AtomicValue.spec` (av), `Pool.sys hasNew` (pool: the wrapper's
steps over the sync.Pool contract, callers' discipline built in).
Specification output: `ok` while the history is linearizable to the pure specification — the register
`Spec.Register.spec` resp. the bag `Pool.bagSpec` (same subset construction over `AtomicObj.sys`) — and, for the
pool, while the holding discipline holds on the trace: `violated:not-linearizable`, `violated:double-hold` (a Get
returned an item some goroutine currently holds), `violated:unknown-item` (a Get returned an item < 1000 that was
never put), `violated:put-unheld` (the script broke the discipline; not the implementation's fault).
The ghost log of the atomic-object states is erased after every event (the successor function never reads it).
-/
namespace TypVerif.Drv.C18
open TypVerif TypVerif.Proto TypVerif.Model

abbrev AvState := AtomicObj.State (Option Int) AtomicValue.Op AtomicValue.Res
abbrev AvEvent := AtomicObj.Event AtomicValue.Op AtomicValue.Res
abbrev BagState := AtomicObj.State Pool.Bag Pool.Op Pool.Res

inductive Mode where
  | unset | av | pool (hasNew : Bool)

structure St where
  mode : Mode := .unset
  n : Nat := 0
  avM : List AvState := []
  avS : List AvState := []
  poolM : List Pool.State := []
  poolS : List BagState := []
  rejected : Bool := false
  violated : Option String := none
  traceOnly : Bool := false             -- long producer/consumer runs: only the trace predicates (holding discipline) are evaluated
  holding : List (Nat × Nat) := []      -- (goroutine, item) pairs currently held, from the trace
  everPut : List Nat := []

def closureFuel : Nat := 16

def eraseLog {σ Op Res : Type} (s : AtomicObj.State σ Op Res) : AtomicObj.State σ Op Res := { s with log := [] }

def padObj {σ Op Res : Type} (n : Nat) (s : AtomicObj.State σ Op Res) : AtomicObj.State σ Op Res :=
  { s with pcs := s.pcs ++ List.replicate (n - s.pcs.length) .idle }

def padPool (n : Nat) (s : Pool.State) : Pool.State :=
  { s with thrs := s.thrs ++ List.replicate (n - s.thrs.length) ⟨.idle, []⟩ }

def stepObj (S : AtomicObj.Spec) [DecidableEq S.σ] [DecidableEq S.Op] [DecidableEq S.Res] (n : Nat)
    (ss : List (AtomicObj.State S.σ S.Op S.Res)) (e : AtomicObj.Event S.Op S.Res) :
    List (AtomicObj.State S.σ S.Op S.Res) :=
  let menu : List S.Op := match e with | .inv _ op => [op] | _ => []
  let ss' : List (AtomicObj.State S.σ S.Op S.Res) :=
    Conc.stepEvent (AtomicObj.sys S menu n) closureFuel (ss.map (padObj n)) e
  Conc.dedup (ss'.map eraseLog)

def stepAvM (n : Nat) (ss : List AvState) (e : AvEvent) : List AvState := stepObj AtomicValue.spec n ss e
def stepAvS (n : Nat) (ss : List AvState) (e : AvEvent) : List AvState := stepObj Spec.Register.spec n ss e
def stepBag (hasNew : Bool) (n : Nat) (ss : List BagState) (e : Pool.Event) : List BagState :=
  stepObj (Pool.bagSpec hasNew) n ss e

def stepPool (hasNew : Bool) (n : Nat) (ss : List Pool.State) (e : Pool.Event) : List Pool.State :=
  let menu := match e with | .inv _ op => [op] | _ => []
  Conc.stepEvent (Pool.sys hasNew menu n) closureFuel (ss.map (padPool n)) e

def parseAv (toks : List Val) : Option AvEvent :=
  match toks with
  | [.w "inv", .i t, .w "load"] => some (.inv t.toNat .load)
  | [.w "inv", .i t, .w "store", .i v] => some (.inv t.toNat (.store v))
  | [.w "inv", .i t, .w "swap", .i v] => some (.inv t.toNat (.swap v))
  | [.w "inv", .i t, .w "cas", .i o, .i n] => some (.inv t.toNat (.cas o n))
  | [.w "res", .i t, .i v] => some (.res t.toNat (.val v))
  | [.w "res", .i t, .w "done"] => some (.res t.toNat .done)
  | [.w "res", .i t, .w "true"] => some (.res t.toNat (.bool true))
  | [.w "res", .i t, .w "false"] => some (.res t.toNat (.bool false))
  | _ => none

def parsePool (toks : List Val) : Option Pool.Event :=
  match toks with
  | [.w "inv", .i t, .w "get"] => some (.inv t.toNat .get)
  | [.w "inv", .i t, .w "put", .i id] => some (.inv t.toNat (.put id.toNat))
  | [.w "res", .i t, .i id] => some (.res t.toNat (.item id.toNat))
  | [.w "res", .i t, .w "done"] => some (.res t.toNat .done)
  | _ => none

def evTid {Op Res : Type} : AtomicObj.Event Op Res → Nat
  | .inv t _ | .res t _ => t

def modelOut (rejectedBefore nowEmpty : Bool) (what : String) : String :=
  if rejectedBefore then "rejected:earlier" else if nowEmpty then s!"rejected:{what}" else "ok"

def specOut (v : Option String) : String :=
  match v with | none => "ok" | some w => s!"violated:{w}"

def step (st : St) (toks : List Val) (_impl : String) : St × Out :=
  match toks with
  | [.w "av"] =>
    ({ mode := .av, avM := [AtomicObj.init AtomicValue.spec 0], avS := [AtomicObj.init Spec.Register.spec 0] },
     { model := "ok", spec := some "ok", tags := ["av"] })
  | [.w "pool", .i hn, .w "trace"] =>
    -- header of a long run: the state-set constructions (model acceptance, bag linearizability) are skipped — with hundreds of items in the
    -- bag and overlapping Gets they are astronomically large — and only the holding discipline is judged on the trace
    ({ mode := .pool (hn != 0), traceOnly := true }, { model := "ok", spec := some "ok", tags := ["pool.trace-only"] })
  | [.w "pool", .i hn] =>
    let hasNew := hn != 0
    ({ mode := .pool hasNew, poolM := [Pool.init 0], poolS := [AtomicObj.init (Pool.bagSpec hasNew) 0] },
     { model := "ok", spec := some "ok", tags := [if hasNew then "pool.new" else "pool.nonew"] })
  | _ =>
    let what := "-".intercalate (toks.map Val.render)
    match st.mode with
    | .unset => (st, { model := "bad-op" })
    | .av =>
      match parseAv toks with
      | none => (st, { model := "bad-op" })
      | some e =>
        let t := evTid e
        let n := if t + 1 > st.n then t + 1 else st.n
        let m' := if st.rejected then [] else stepAvM n st.avM e
        let s' := if st.violated.isSome then [] else stepAvS n st.avS e
        let violated := match st.violated with
          | some w => some w
          | none => if s'.isEmpty then some "not-linearizable" else none
        let tag := match e with
          | .inv _ .load => "av.load" | .inv _ (.store _) => "av.store" | .inv _ (.swap _) => "av.swap"
          | .inv _ (.cas _ _) => "av.cas"
          | .res _ (.bool true) => "av.cas.true" | .res _ (.bool false) => "av.cas.false" | .res _ _ => "av.res"
        ({ st with n := n, avM := m', avS := s', rejected := st.rejected || m'.isEmpty, violated := violated },
         { model := modelOut st.rejected m'.isEmpty what, spec := some (specOut violated), tags := [tag] })
    | .pool hasNew =>
      match parsePool toks with
      | none => (st, { model := "bad-op" })
      | some e =>
        let t := evTid e
        let n := if t + 1 > st.n then t + 1 else st.n
        let m' := if st.rejected || st.traceOnly then [] else stepPool hasNew n st.poolM e
        let s' := if st.violated.isSome || st.traceOnly then [] else stepBag hasNew n st.poolS e
        -- the holding discipline, on the trace
        let (holding, everPut, disc) : List (Nat × Nat) × List Nat × Option String := match e with
          | .inv t (.put id) =>
            if st.holding.contains (t, id) then (st.holding.erase (t, id), id :: st.everPut, none)
            else if Pool.isScript id && !st.everPut.contains id then (st.holding, id :: st.everPut, none)
            else (st.holding, id :: st.everPut, some "put-unheld")
          | .res t (.item id) =>
            if id == 0 then (st.holding, st.everPut, none)
            else if st.holding.any (fun p => p.2 == id) then (st.holding, st.everPut, some "double-hold")
            else if id < 1000 && !st.everPut.contains id then ((t, id) :: st.holding, st.everPut, some "unknown-item")
            else ((t, id) :: st.holding, st.everPut, none)
          | _ => (st.holding, st.everPut, none)
        let violated := match st.violated with
          | some w => some w
          | none => match disc with
            | some w => some w
            | none => if s'.isEmpty && !st.traceOnly then some "not-linearizable" else none
        let tag := match e with
          | .inv _ .get => "pool.get" | .inv _ (.put _) => "pool.put"
          | .res _ (.item id) => if id == 0 then "pool.got.zero" else if id ≥ 1000 then "pool.got.new" else "pool.got.pooled"
          | .res _ .done => "pool.put.done"
        ({ st with n := n, poolM := m', poolS := s', rejected := st.rejected || (m'.isEmpty && !st.traceOnly), violated := violated,
                   holding := holding, everPut := everPut },
         { model := if st.traceOnly then "ok" else modelOut st.rejected m'.isEmpty what, spec := some (specOut violated), tags := [tag] })

def judge : Judge := { σ := St, init := {}, step := step }

end TypVerif.Drv.C18
