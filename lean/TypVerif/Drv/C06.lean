import TypVerif.Drv.Proto
import TypVerif.Model.LinkedList
import TypVerif.Model.Ring
import TypVerif.Spec.Seq
import TypVerif.Spec.RingSeq
/-
Judge for C06 (PROTOCOL.md §C06).  The harness prints `<fork result> std:<stdlib result>`; the judge renders
  Out.model = `<model result> std:<spec result>`       (model = heap model of lists/{list,ring}.go)
  Out.spec  = `<spec result> std:<spec result>`        (spec  = Spec/Seq.lean, Spec/RingSeq.lean)
so  impl = Out.spec  means: fork = specification = standard library.

Lists.  A list handle `<l>` is bound by `lnew <l>` / `lzero <l>` to a fresh list cell of the model heap
(`lnew` additionally runs `Init`, i.e. `new(List).Init()`); element ids are the model's own creation-order
ids (`Heap.nextElem`), which is exactly the numbering of PROTOCOL.md, including PushFrontList (see the
header of Model/LinkedList.lean).  An element argument must be an id already created (else `bad-op`, as in the harness).
`Init` on a list that is non-empty in the specification world is outside `C06.list_refines`
(`NoInitOnNonEmpty`): from then on (until `reset`) the world is *tainted*: the judge follows the model only
(`Out.spec = none`, `Out.model = <model> std:<model>`), tag `list.tainted`.

Rings.  Ids are the model's allocation order (= PROTOCOL.md), `Value` = id.
-/
namespace TypVerif.Drv.C06
open TypVerif.Proto
open TypVerif
open TypVerif.Spec.ListOp

structure St where
  heap : Model.LinkedList.Heap
  world : Spec.Seq.World
  lmap : List (Int × ListId)        -- script handle ↦ list cell
  nextList : Nat
  tainted : Bool
  /-- tainted worlds only: harness element id ↦ model pointer (see `taintedLine`) -/
  tbl : Array Ptr := #[]
  rheap : Model.Ring.RHeap
  rworld : Spec.RingSeq.RWorld

def init : St :=
  { heap := Model.LinkedList.Heap.empty, world := Spec.Seq.World.empty, lmap := [], nextList := 0,
    tainted := false, rheap := Model.Ring.RHeap.empty, rworld := Spec.RingSeq.RWorld.empty }

def renderPtr : Ptr → String
  | .null => "-1"
  | .elem e => toString e
  | .root _ => "-2"                  -- the harness prints -2 for a pointer it has no id for (only reachable in a tainted world)

def renderRes : Res → String
  | .unit => "ok"
  | .ptr p => renderPtr p
  | .int n => toString n
  | .ptrs ps => "[" ++ ",".intercalate (ps.map renderPtr) ++ "]"
  | .panic m => s!"panic:{m}"

def renderRingRef : Option Nat → String
  | none => "-1"
  | some r => toString r

def renderRingRes : Spec.RingOp.Res → String
  | .ref r => renderRingRef r
  | .int n => toString n
  | .vals xs => "[" ++ ",".intercalate (xs.map toString) ++ "]"
  | .refs xs => "[" ++ ",".intercalate (xs.map toString) ++ "]"
  | .panic m => s!"panic:{m}"

def lookupList (st : St) (l : Int) : Option ListId := (st.lmap.find? (·.1 == l)).map (·.2)

/-- element argument: an id already created.  (The harness has no way to pass a nil `*Element`/`*Ring`: a
negative or unknown id is `bad-op` there, hence here.  The nil-argument behaviour is nevertheless part of
model, specification and theorems.) -/
def elemArg (st : St) (e : Int) : Option Arg :=
  if 0 ≤ e ∧ e.toNat < st.heap.nextElem then some (some e.toNat)
  else none

def ringArg (st : St) (r : Int) : Option (Option Nat) :=
  if 0 ≤ r ∧ r.toNat < st.rheap.size then some (some r.toNat)
  else none

/-- how an element argument relates to list `l` (before the operation) -/
def argClass (st : St) (l : ListId) : Arg → String
  | none => "nil"
  | some e =>
    match st.heap.listOf (.elem e) with
    | none => "removed"
    | some l' => if l' = l then "own" else "foreign"

def isZero (st : St) (l : ListId) : Bool := st.heap.next (.root l) == .null

def listTags (st : St) : Op → List String
  | .init l => [if st.heap.len l = 0 then "list.init.empty" else "list.init.nonempty"]
      ++ (if isZero st l then ["list.init.zero"] else [])
  | .pushFront l _ => ["list.pushfront"] ++ (if isZero st l then ["list.lazyinit"] else [])
  | .pushBack l _ => ["list.pushback"] ++ (if isZero st l then ["list.lazyinit"] else [])
  | .insertBefore l _ m => ["list.insertbefore." ++ argClass st l m]
  | .insertAfter l _ m => ["list.insertafter." ++ argClass st l m]
  | .remove l e => ["list.remove." ++ argClass st l e] ++ (if isZero st l then ["list.remove.zerolist"] else [])
  | .moveToFront l e => ["list.movetofront." ++ argClass st l e]
      ++ (if e.toPtr != .null && st.heap.next (.root l) == e.toPtr then ["list.movetofront.already"] else [])
  | .moveToBack l e => ["list.movetoback." ++ argClass st l e]
      ++ (if e.toPtr != .null && st.heap.prev (.root l) == e.toPtr then ["list.movetoback.already"] else [])
  | .moveBefore l e m => ["list.movebefore." ++ argClass st l e ++ "." ++ argClass st l m]
      ++ (if e == m then ["list.movebefore.self"] else [])
      ++ (if e.toPtr != .null && st.heap.prev m.toPtr == e.toPtr then ["list.movebefore.adjacent"] else [])
  | .moveAfter l e m => ["list.moveafter." ++ argClass st l e ++ "." ++ argClass st l m]
      ++ (if e == m then ["list.moveafter.self"] else [])
      ++ (if e.toPtr != .null && st.heap.next m.toPtr == e.toPtr then ["list.moveafter.adjacent"] else [])
  | .pushBackList l o => [if l = o then "list.pushbacklist.self" else "list.pushbacklist.other"]
      ++ (if st.heap.len o = 0 then ["list.pushbacklist.empty"] else [])
      ++ (if isZero st l then ["list.lazyinit"] else []) ++ (if isZero st o then ["list.pushbacklist.zero-other"] else [])
  | .pushFrontList l o => [if l = o then "list.pushfrontlist.self" else "list.pushfrontlist.other"]
      ++ (if st.heap.len o = 0 then ["list.pushfrontlist.empty"] else [])
      ++ (if isZero st l then ["list.lazyinit"] else []) ++ (if isZero st o then ["list.pushfrontlist.zero-other"] else [])
  | .len l => ["list.len"] ++ (if isZero st l then ["list.read.zero"] else [])
  | .front l => ["list.front"] ++ (if isZero st l then ["list.read.zero"] else [])
  | .back l => ["list.back"] ++ (if isZero st l then ["list.read.zero"] else [])
  | .next e => ["list.next." ++ (match e with
      | none => "nil"
      | some x => if st.heap.listOf (.elem x) == none then "removed" else "live")]
  | .prev e => ["list.prev." ++ (match e with
      | none => "nil"
      | some x => if st.heap.listOf (.elem x) == none then "removed" else "live")]
  | .value e => ["list.value." ++ (if e.isNone then "nil" else "ok")]
  | .fwd l _ => ["list.fwd"] ++ (if isZero st l then ["list.read.zero"] else [])
  | .bwd l _ => ["list.bwd"] ++ (if isZero st l then ["list.read.zero"] else [])

/-- run one list operation in both worlds (untainted world) -/
def listLine (st : St) (op : Op) : St × Out :=
  let tags := listTags st op
  let taintNow : Bool := match op with
    | .init l => !(st.world.lists.get l).isEmpty
    | _ => false
  let m := Model.LinkedList.step st.heap op
  let mr := renderRes m.2
  if taintNow then
    -- `Init` on a non-empty list: leave the domain of the theorem; from now on `taintedStep`
    ({ st with heap := m.1, tainted := true, tbl := (Array.range st.heap.nextElem).map Ptr.elem },
     { model := mr ++ " std:" ++ mr, spec := none, tags := "list.tainted" :: tags })
  else
    let s := Spec.Seq.step st.world op
    let sr := renderRes s.2
    ({ st with heap := m.1, world := s.1 },
     { model := mr ++ " std:" ++ sr, spec := some (sr ++ " std:" ++ sr), tags := tags })

/-! ### tainted worlds (after `Init` on a non-empty list; outside `C06.list_refines`)

Here the real lists hold stale elements, `Front()` can return the sentinel `&l.root`, loops can panic half
way.  The harness keeps numbering *pointers*: a pointer it has never seen gets the next id when it is
returned by a creating operation or found by the post-`Push*List` scan of the receiving list (sentinels
included), and prints `-2` for an unknown pointer.  The judge does the same bookkeeping over the model's
pointers (`tbl`: harness id ↦ model pointer) and drives the model's methods directly with pointer
arguments.  Only the model is compared (`Out.spec = none`). -/

def tRenderPtr (tbl : Array Ptr) : Ptr → String
  | .null => "-1"
  | p => match tbl.findIdx? (· == p) with
    | some i => toString i
    | none => "-2"

def runM {α : Type} (h : Model.LinkedList.Heap) (m : Model.LinkedList.M α) (f : α → String) :
    Model.LinkedList.Heap × String × Option α :=
  match m h with
  | .ok a h' => (h', f a, some a)
  | .panic msg h' => (h', s!"panic:{msg}", none)

def tOut (r : String) (tag : String) : Out := { model := r ++ " std:" ++ r, spec := none, tags := ["list.tainted", tag] }

/-- a creating operation: the returned non-nil pointer gets the next id -/
def tCreate (st : St) (m : Model.LinkedList.M Ptr) (tag : String) : St × Out :=
  let id := st.tbl.size
  let (h', r, a) := runM st.heap m (fun p => if p == .null then "-1" else toString id)
  let tbl := match a with
    | some p => if p == .null then st.tbl else st.tbl.push p
    | none => st.tbl
  ({ st with heap := h', tbl := tbl }, tOut r tag)

/-- the harness' `scanNew`: unknown pointers of list `l`, front to back (at most 4096 steps), get the next ids -/
def tScan (st : St) (l : ListId) : St :=
  match Model.LinkedList.fwd l 4096 st.heap with
  | .ok ps _ => { st with tbl := ps.foldl (fun t p => if t.contains p then t else t.push p) st.tbl }
  | .panic _ _ => st

def tArg (st : St) (e : Int) : Option Ptr := if 0 ≤ e then st.tbl[e.toNat]? else none

def tPlain (st : St) (m : Model.LinkedList.M String) (tag : String) : St × Out :=
  let (h', r, _) := runM st.heap m id
  ({ st with heap := h' }, tOut r tag)

/-- `Value` read through a sentinel pointer (which only a tainted world can hand out): the fork's sentinel
holds the zero `int`, the standard library's holds a nil `any`, on which the harness' `.(int)` assertion
panics (`panic:other`).  A typing artefact of `any` vs `T`, not a behavioural difference of the list. -/
def tValue (st : St) (impl : String) (p : Ptr) (m : Model.LinkedList.M String) (tag : String) : St × Out :=
  let r := tPlain st m tag
  let fork := (r.2.model.splitOn " std:").headD ""
  let alt := fork ++ " std:panic:other"
  match p with
  | .root _ => (r.1, { r.2 with model := alt, tags := "list.tainted.sentinel-value" :: r.2.tags })
  | _ =>
    -- an element whose value was *copied from* a sentinel by Push*List has the same artefact (the model's
    -- values cannot tell); accepted relationally in the tainted world
    if impl == alt then (r.1, { r.2 with model := alt, tags := "list.tainted.sentinel-value-copy" :: r.2.tags }) else r

open Model.LinkedList in
def taintedStep (st : St) (toks : List Val) (impl : String) : St × Out :=
  let L := lookupList st
  let P := tArg st
  let rp := tRenderPtr st.tbl
  let rps := fun (ps : List Ptr) => "[" ++ ",".intercalate (ps.map rp) ++ "]"
  match toks with
  | [.w "pushfront", .i l, .i v] => match L l with
    | some k => tCreate st (pushFront k v) "pushfront" | none => (st, { model := "bad-op" })
  | [.w "pushback", .i l, .i v] => match L l with
    | some k => tCreate st (pushBack k v) "pushback" | none => (st, { model := "bad-op" })
  | [.w "insertbefore", .i l, .i v, .i m] => match L l, P m with
    | some k, some p => tCreate st (insertBefore k v p) "insertbefore" | _, _ => (st, { model := "bad-op" })
  | [.w "insertafter", .i l, .i v, .i m] => match L l, P m with
    | some k, some p => tCreate st (insertAfter k v p) "insertafter" | _, _ => (st, { model := "bad-op" })
  | [.w "remove", .i l, .i e] => match L l, P e with
    | some k, some p => tValue st impl p (do let v ← removeM k p; return toString v) "remove" | _, _ => (st, { model := "bad-op" })
  | [.w "movetofront", .i l, .i e] => match L l, P e with
    | some k, some p => tPlain st (do moveToFront k p; return "ok") "movetofront" | _, _ => (st, { model := "bad-op" })
  | [.w "movetoback", .i l, .i e] => match L l, P e with
    | some k, some p => tPlain st (do moveToBack k p; return "ok") "movetoback" | _, _ => (st, { model := "bad-op" })
  | [.w "movebefore", .i l, .i e, .i m] => match L l, P e, P m with
    | some k, some p, some q => tPlain st (do moveBefore k p q; return "ok") "movebefore" | _, _, _ => (st, { model := "bad-op" })
  | [.w "moveafter", .i l, .i e, .i m] => match L l, P e, P m with
    | some k, some p, some q => tPlain st (do moveAfter k p q; return "ok") "moveafter" | _, _, _ => (st, { model := "bad-op" })
  | [.w "pushbacklist", .i l, .i o] => match L l, L o with
    | some k, some j =>
      let r := tPlain st (do let n ← pushBackList k j; return toString n) "pushbacklist"
      (tScan r.1 k, r.2)
    | _, _ => (st, { model := "bad-op" })
  | [.w "pushfrontlist", .i l, .i o] => match L l, L o with
    | some k, some j =>
      let r := tPlain st (do let n ← pushFrontList k j; return toString n) "pushfrontlist"
      (tScan r.1 k, r.2)
    | _, _ => (st, { model := "bad-op" })
  | [.w "init", .i l] => match L l with
    | some k => tPlain st (do Model.LinkedList.init k; return "ok") "init" | none => (st, { model := "bad-op" })
  | [.w "len", .i l] => match L l with
    | some k => tPlain st (do let n ← len k; return toString n) "len" | none => (st, { model := "bad-op" })
  | [.w "front", .i l] => match L l with
    | some k => tPlain st (do let p ← front k; return rp p) "front" | none => (st, { model := "bad-op" })
  | [.w "back", .i l] => match L l with
    | some k => tPlain st (do let p ← back k; return rp p) "back" | none => (st, { model := "bad-op" })
  | [.w "next", .i e] => match P e with
    | some p => tPlain st (do let q ← elemNext p; return rp q) "next" | none => (st, { model := "bad-op" })
  | [.w "prev", .i e] => match P e with
    | some p => tPlain st (do let q ← elemPrev p; return rp q) "prev" | none => (st, { model := "bad-op" })
  | [.w "value", .i e] => match P e with
    | some p => tValue st impl p (do let v ← getValue p; return toString v) "value" | none => (st, { model := "bad-op" })
  | [.w "fwd", .i l] => match L l with
    | some k => tPlain st (do let ps ← fwd k 64; return rps ps) "fwd" | none => (st, { model := "bad-op" })
  | [.w "bwd", .i l] => match L l with
    | some k => tPlain st (do let ps ← bwd k 64; return rps ps) "bwd" | none => (st, { model := "bad-op" })
  | _ => (st, { model := "bad-op" })

def ringLine (st : St) (op : Spec.RingOp.Op) : St × Out :=
  let tags := Model.Ring.tags st.rheap op
  let m := Model.Ring.step st.rheap op
  let s := Spec.RingSeq.step st.rworld op
  let mr := renderRingRes m.2
  let sr := renderRingRes s.2
  ({ st with rheap := m.1, rworld := s.1 },
   { model := mr ++ " std:" ++ sr, spec := some (sr ++ " std:" ++ sr), tags := tags })

def bad (st : St) : St × Out := (st, { model := "bad-op" })

def withList (st : St) (l : Int) (f : ListId → St × Out) : St × Out :=
  match lookupList st l with
  | some k => f k
  | none => bad st

def withElem (st : St) (e : Int) (f : Arg → St × Out) : St × Out :=
  match elemArg st e with
  | some a => f a
  | none => bad st

def withRing (st : St) (r : Int) (f : Option Nat → St × Out) : St × Out :=
  match ringArg st r with
  | some a => f a
  | none => bad st

/-- `fwd`/`bwd`: at most 64 elements -/
def fuel : Nat := 64
/-- `rfwd`/`rbwd`: `r` itself plus at most 64 further steps -/
def ringFuel : Nat := 65

def isRingLine : List Val → Bool
  | .w op :: _ => op.startsWith "r" && op != "remove"
  | _ => false

def isNewLine : List Val → Bool
  | .w "lnew" :: _ => true
  | .w "lzero" :: _ => true
  | _ => false

/-- In a tainted world the Lean specification says nothing, but the property is DEFINED as equality with the standard library, whose own
answer is on the line: when the fork's half differs from the standard library's half and the model does not account for that difference
(the sentinel-`Value` typing artefacts are accounted for), the line is a violation of the property (fork ≠ stdlib), not a mere model mismatch. -/
def stdOracle (impl : String) (o : Out) : Out :=
  if o.spec.isSome || o.model == impl || o.model == "bad-op" then o else
  match impl.splitOn " std:" with
  | [fork, std] => if fork != std then { o with spec := some (std ++ " std:" ++ std) } else o
  | _ => o

def step (st : St) (toks : List Val) (impl : String) : St × Out :=
  if st.tainted && !isRingLine toks && !isNewLine toks then
    let r := taintedStep st toks impl
    (r.1, stdOracle impl r.2) else
  match toks with
  | [.w "lnew", .i l] =>
    -- lists.New() = new(List).Init(): a fresh cell, then Init (on an empty list: inside the theorem)
    let k := st.nextList
    let st1 := { st with lmap := (l, k) :: st.lmap.filter (·.1 != l), nextList := k + 1 }
    let r := listLine st1 (.init k)
    (r.1, { r.2 with tags := ["list.new"] })
  | [.w "lzero", .i l] =>
    let k := st.nextList
    ({ st with lmap := (l, k) :: st.lmap.filter (·.1 != l), nextList := k + 1 },
     { model := "ok std:ok", spec := some "ok std:ok", tags := ["list.zero"] })
  | [.w "pushfront", .i l, .i v] => withList st l fun k => listLine st (.pushFront k v)
  | [.w "pushback", .i l, .i v] => withList st l fun k => listLine st (.pushBack k v)
  | [.w "insertbefore", .i l, .i v, .i m] =>
    withList st l fun k => withElem st m fun a => listLine st (.insertBefore k v a)
  | [.w "insertafter", .i l, .i v, .i m] =>
    withList st l fun k => withElem st m fun a => listLine st (.insertAfter k v a)
  | [.w "remove", .i l, .i e] => withList st l fun k => withElem st e fun a => listLine st (.remove k a)
  | [.w "movetofront", .i l, .i e] => withList st l fun k => withElem st e fun a => listLine st (.moveToFront k a)
  | [.w "movetoback", .i l, .i e] => withList st l fun k => withElem st e fun a => listLine st (.moveToBack k a)
  | [.w "movebefore", .i l, .i e, .i m] =>
    withList st l fun k => withElem st e fun a => withElem st m fun b => listLine st (.moveBefore k a b)
  | [.w "moveafter", .i l, .i e, .i m] =>
    withList st l fun k => withElem st e fun a => withElem st m fun b => listLine st (.moveAfter k a b)
  | [.w "pushbacklist", .i l, .i o] => withList st l fun k => withList st o fun j => listLine st (.pushBackList k j)
  | [.w "pushfrontlist", .i l, .i o] => withList st l fun k => withList st o fun j => listLine st (.pushFrontList k j)
  | [.w "init", .i l] => withList st l fun k => listLine st (.init k)
  | [.w "len", .i l] => withList st l fun k => listLine st (.len k)
  | [.w "front", .i l] => withList st l fun k => listLine st (.front k)
  | [.w "back", .i l] => withList st l fun k => listLine st (.back k)
  | [.w "next", .i e] => withElem st e fun a => listLine st (.next a)
  | [.w "prev", .i e] => withElem st e fun a => listLine st (.prev a)
  | [.w "value", .i e] => withElem st e fun a => listLine st (.value a)
  | [.w "fwd", .i l] => withList st l fun k => listLine st (.fwd k fuel)
  | [.w "bwd", .i l] => withList st l fun k => listLine st (.bwd k fuel)
  | [.w "rnew", .i n] => ringLine st (.new n)
  | [.w "rzero"] => ringLine st .zero
  | [.w "rnext", .i r] => withRing st r fun a => ringLine st (.next a)
  | [.w "rprev", .i r] => withRing st r fun a => ringLine st (.prev a)
  | [.w "rmove", .i r, .i n] => withRing st r fun a => ringLine st (.move a n)
  | [.w "rlink", .i r, .i s] =>
    -- `-1` as the argument is `Link(nil)`
    if s == -1 then withRing st r fun a => ringLine st (.link a none)
    else withRing st r fun a => withRing st s fun b => ringLine st (.link a b)
  | [.w "runlink", .i r, .i n] => withRing st r fun a => ringLine st (.unlink a n)
  | [.w "rlen", .i r] => withRing st r fun a => ringLine st (.len a)
  | [.w "rdo", .i r] => withRing st r fun a => ringLine st (.doAll a)
  | [.w "rdomut", .i r, .i s] =>
    -- Do whose callback links s behind the element it is visiting on its SECOND call (x = r.Next(); not when s is x itself, not when the ring
    -- has one element: then there is no second call): `Do` reads `p.next` AFTER the callback, so the walk is the walk of the ring as it is after
    -- `x.Link(s)`; a nil r has no call at all
    withRing st r fun a => withRing st s fun b =>
      match a, b with
      | some _, some bi =>
        match (Model.Ring.step st.rheap (.next a)).2 with
        | .ref (some x) =>
          if a == some x || x == bi then ringLine st (.doAll a)
          else ringLine (ringLine st (.link (some x) b)).1 (.doAll a)
        | _ => ringLine st (.doAll a)
      | _, _ => ringLine st (.doAll a)
  | [.w "rfwd", .i r] => withRing st r fun a => ringLine st (.fwd a ringFuel)
  | [.w "rbwd", .i r] => withRing st r fun a => ringLine st (.bwd a ringFuel)
  | _ => bad st

def judge : Judge := { σ := St, init := init, step := step }

end TypVerif.Drv.C06
