import TypVerif.Drv.Proto
import TypVerif.Conc.Sys
import TypVerif.Model.AtomicObj
import TypVerif.Model.MapObj
/-
Judge "ObjLin": API-level histories of sync2.Map (`cmap`) and sync2.Set (`cset`) recorded from the real code
(controlled scheduler or native), judged for linearizability against the map / set specification by state-set
stepping of the generic atomic-object system (`Model.AtomicObj`, the instance whose `linearizable` theorem is
C18.AtomicObj.linearizable).  `step`/`iter` lines of step-level traces are ignored here.

  cmap | cset
  inv <t> load k | store k v | loadorstore k v | loadanddelete k | delete k | range
  inv <t> add v | remove v | has v | len | addset a b … | removeset a b …
  res <t> <v> <bool> | done | <bool> | <int> | <list of [k,v]>

Non-atomic operations are split by the judge into their element operations, which is how the code performs them:
`range` is checked by its own predicate; `len` (a Range count), `addset`/`removeset` (one Add/Remove per element, the
returned count = number of successes) are accepted iff SOME assignment of successes consistent with the count is
linearizable — implemented by expanding them into per-element operations whose individual results are existentially
chosen (the state-set construction does that for free: the element operation's result is left open and the count is
checked at `res`).
Specification output: `violated:not-linearizable`, `violated:range-duplicate-key`, `violated:range-invented-value`,
`violated:range-missed-stable-key`, `violated:count`.  There is no separate hand-written model at this level: the model
output repeats the specification verdict (the step-level model is judged by C04conc).
-/
namespace TypVerif.Drv.ObjLin
open TypVerif TypVerif.Proto TypVerif.Model

abbrev MSt := AtomicObj.State MapObj.Tbl MapObj.Op MapObj.Res
abbrev SSt := AtomicObj.State MapObj.SetSt MapObj.SOp Bool

def closureFuel : Nat := 24

def eraseLog {σ Op Res : Type} (s : AtomicObj.State σ Op Res) : AtomicObj.State σ Op Res := { s with log := [] }
def padObj {σ Op Res : Type} (n : Nat) (s : AtomicObj.State σ Op Res) : AtomicObj.State σ Op Res :=
  { s with pcs := s.pcs ++ List.replicate (n - s.pcs.length) .idle }

def stepObj (S : AtomicObj.Spec) [DecidableEq S.σ] [DecidableEq S.Op] [DecidableEq S.Res] (n : Nat)
    (ss : List (AtomicObj.State S.σ S.Op S.Res)) (e : AtomicObj.Event S.Op S.Res) :
    List (AtomicObj.State S.σ S.Op S.Res) :=
  let menu : List S.Op := match e with | .inv _ op => [op] | _ => []
  let ss' := Conc.stepEvent (AtomicObj.sys S menu n) closureFuel (ss.map (padObj n)) e
  Conc.dedup (ss'.map eraseLog)

/-- advance thread `t` through one complete element operation whose result is unknown: inv, then any result -/
def stepAny (S : AtomicObj.Spec) [DecidableEq S.σ] [DecidableEq S.Op] [DecidableEq S.Res] (n t : Nat)
    (ss : List (AtomicObj.State S.σ S.Op S.Res)) (op : S.Op) (results : List S.Res) :
    List (AtomicObj.State S.σ S.Op S.Res) :=
  let s1 := stepObj S n ss (.inv t op)
  Conc.dedup (results.flatMap (fun r => stepObj S n s1 (.res t r)))

structure RangeObs where
  t : Nat
  stable : List (Int × Option Int)      -- keys whose value is the same in every compatible state at inv, with no operation pending on them
  touched : List Int := []
  written : List (Int × Int) := []      -- (k,v) pairs some store/loadorstore invoked before the response could have written
  possible : List (Int × Int) := []     -- (k,v) present in some compatible state at inv

structure St where
  mode : Nat := 0                       -- 0 unset, 1 map, 2 set
  n : Nat := 0
  ms : List MSt := []
  ss : List SSt := []
  violated : Option String := none
  ranges : List RangeObs := []
  writes : List (Int × Int) := []       -- all (k,v) ever offered by store / loadorstore invocations
  pendingKeys : List (Nat × Int) := []  -- (thread, key) of operations in progress
  multi : List (Nat × String × List Int × Nat) := []   -- pending addset/removeset/len: thread, kind, elements, successes so far unknown
  setPend : List (Nat × List SSt) := []

def specOut (v : Option String) : String := match v with | none => "ok" | some w => s!"violated:{w}"

def keysOf (ms : List MSt) : List Int := Conc.dedup (ms.flatMap (fun s => s.obj.map (·.1)))

def opKey : MapObj.Op → Int
  | .load k | .store k _ | .loadOrStore k _ | .loadAndDelete k | .delete k => k

def parseMapInv (toks : List Val) : Option (Nat × MapObj.Op) :=
  match toks with
  | [.w "inv", .i t, .w "load", .i k] => some (t.toNat, .load k)
  | [.w "inv", .i t, .w "store", .i k, .i v] => some (t.toNat, .store k v)
  | [.w "inv", .i t, .w "loadorstore", .i k, .i v] => some (t.toNat, .loadOrStore k v)
  | [.w "inv", .i t, .w "loadanddelete", .i k] => some (t.toNat, .loadAndDelete k)
  | [.w "inv", .i t, .w "delete", .i k] => some (t.toNat, .delete k)
  | _ => none

def finish (st : St) (violated : Option String) (tags : List String) : St × Out :=
  let v := match st.violated with | some w => some w | none => violated
  ({ st with violated := v }, { model := specOut v, spec := some (specOut v), tags := tags })

def stepMap (st : St) (toks : List Val) : St × Out :=
  match parseMapInv toks with
  | some (t, op) =>
    let n := max st.n (t + 1)
    let ms' := stepObj MapObj.mapSpec n st.ms (.inv t op)
    let k := opKey op
    let writes := match op with | .store k v => (k, v) :: st.writes | .loadOrStore k v => (k, v) :: st.writes | _ => st.writes
    let ranges := st.ranges.map (fun r => { r with touched := if r.touched.contains k then r.touched else k :: r.touched })
    finish { st with n := n, ms := ms', writes := writes, ranges := ranges, pendingKeys := (t, k) :: st.pendingKeys }
      (if ms'.isEmpty then some "not-linearizable" else none) ["map.inv"]
  | none =>
    match toks with
    | [.w "inv", .i t, .w "range"] =>
      let t := t.toNat
      let keys := keysOf st.ms
      let busy := st.pendingKeys.map (·.2)
      let stable : List (Int × Option Int) := keys.filterMap (fun k =>
        if busy.contains k then none else
        match st.ms with
        | [] => none
        | s0 :: rest =>
          let v0 := MapObj.lookup s0.obj k
          if rest.all (fun s => MapObj.lookup s.obj k == v0) then some (k, v0) else none)
      let possible := Conc.dedup (st.ms.flatMap (fun s => s.obj))
      finish { st with n := max st.n (t + 1), ranges := { t := t, stable := stable, touched := busy, possible := possible } :: st.ranges } none ["map.range.inv"]
    | [.w "res", .i t, .l pairs] =>
      let t := t.toNat
      match st.ranges.find? (·.t == t) with
      | none => finish st (some "range-res-without-inv") []
      | some r =>
        let ps : List (Int × Int) := pairs.filterMap (fun p => match p with | .l [.i k, .i v] => some (k, v) | _ => none)
        let ks := ps.map (·.1)
        let dup := ks.length != (Conc.dedup ks).length
        let invented := ps.any (fun (k, v) => !(r.possible.contains (k, v)) && !(st.writes.contains (k, v)))
        let missed := r.stable.any (fun (k, ov) =>
          match ov with
          | some v => !(r.touched.contains k) && !(ps.contains (k, v))
          | none => !(r.touched.contains k) && ks.contains k)
        let viol := if dup then some "range-duplicate-key" else if invented then some "range-invented-value"
                    else if missed then some "range-missed-stable-key" else none
        finish { st with ranges := st.ranges.filter (·.t != t) } viol ["map.range.res"]
    | [.w "res", .i t, .w "done"] =>
      let t := t.toNat
      let ms' := stepObj MapObj.mapSpec st.n st.ms (.res t .done)
      finish { st with ms := ms', pendingKeys := st.pendingKeys.filter (·.1 != t) } (if ms'.isEmpty then some "not-linearizable" else none) ["map.res"]
    | [.w "res", .i t, .i v, .w b] =>
      let t := t.toNat
      let ms' := stepObj MapObj.mapSpec st.n st.ms (.res t (.val v (b == "true")))
      finish { st with ms := ms', pendingKeys := st.pendingKeys.filter (·.1 != t) } (if ms'.isEmpty then some "not-linearizable" else none) ["map.res"]
    | [.w "step", _, _] => (st, { model := "ok", spec := some "ok" })
    | [.w "iter", _, _] => (st, { model := "ok", spec := some "ok" })
    | [.w "deadlock"] => finish st (some "deadlock") []
    | [.w "steplimit"] => finish st (some "steplimit") []
    | [.w "res", .i _, .w p] => if p.startsWith "panic:" then finish st (some ("panicked-" ++ p)) ["panic"] else (st, { model := "bad-op" })
    | _ => (st, { model := "bad-op" })

/-- a set state together with the progress of the pending composite calls (AddSet / RemoveSet): thread, element
operations still to perform, successes so far.  A composite performs its element operations one after the other, each
at some instant inside the composite's interval, so they are internal steps of the state-set construction. -/
structure CSt where
  s : SSt
  prog : List (Nat × List MapObj.SOp × Nat)
  deriving DecidableEq

instance : BEq CSt := ⟨fun a b => decide (a = b)⟩

/-- perform the next element operation of every pending composite in every possible way, to a fixpoint (fuel-bounded) -/
def compClosure (n : Nat) : Nat → List CSt → List CSt
  | 0, cs => cs
  | fuel + 1, cs =>
    let next := cs.flatMap (fun c =>
      c.prog.flatMap (fun (t, ops, k) =>
        match ops with
        | [] => []
        | op :: rest =>
          let s1 := stepObj MapObj.setSpec n [c.s] (.inv t op)
          let upd (k' : Nat) (s' : SSt) : CSt :=
            { s := s', prog := c.prog.map (fun p => if p.1 == t then (t, rest, k') else p) }
          (stepObj MapObj.setSpec n s1 (.res t true)).map (upd (k + 1)) ++
          (stepObj MapObj.setSpec n s1 (.res t false)).map (upd k)))
    let all := Conc.dedup (cs ++ next)
    if all.length == cs.length then cs else compClosure n fuel all

def liftStep (n : Nat) (cs : List CSt) (e : AtomicObj.Event MapObj.SOp Bool) : List CSt :=
  let cs := compClosure n 16 cs
  let out := cs.flatMap (fun c => (stepObj MapObj.setSpec n [c.s] e).map (fun s' => { c with s := s' }))
  compClosure n 16 (Conc.dedup out)

def stepSet (st : St) (cs : List CSt) (toks : List Val) : St × List CSt × Out :=
  let fin (st : St) (cs : List CSt) (v : Option String) (tags : List String) : St × List CSt × Out :=
    let (st', o) := finish st v tags
    (st', cs, o)
  match toks with
  | .w "inv" :: .i t :: .w op :: rest =>
    let t := t.toNat
    let n := max st.n (t + 1)
    let vs := rest.filterMap Val.int?
    if (op == "add" || op == "remove" || op == "has") && vs.length == 1 then
      let v := vs.head!
      let sop : MapObj.SOp := if op == "add" then .add v else if op == "remove" then .remove v else .has v
      let cs' := liftStep n cs (.inv t sop)
      fin { st with n := n } cs' (if cs'.isEmpty then some "not-linearizable" else none) ["set.inv." ++ op]
    else if op == "len" && vs.isEmpty then
      fin { st with n := n, multi := (t, "len", [], 0) :: st.multi } cs none ["set.inv.len"]
    else if op == "addset" || op == "removeset" then
      -- NewSetFromSlice dedups; the argument set is iterated in Go's random map order, so the element order is open:
      -- both orders of a two-element argument are tried (arguments are at most two elements in the generators)
      let ds := Conc.dedup vs
      let mk (l : List Int) : List MapObj.SOp := l.map (fun v => if op == "addset" then MapObj.SOp.add v else MapObj.SOp.remove v)
      let orders : List (List MapObj.SOp) := Conc.dedup [mk ds, mk ds.reverse]
      let cs' := Conc.dedup (cs.flatMap (fun c => orders.map (fun o => { c with prog := (t, o, 0) :: c.prog })))
      fin { st with n := n, multi := (t, op, vs, 0) :: st.multi } (compClosure n 16 cs') none ["set.inv." ++ op]
    else (st, cs, { model := "bad-op" })
  | [.w "res", .i t, .w b] =>
    let t := t.toNat
    if b == "true" || b == "false" then
      let cs' := liftStep st.n cs (.res t (b == "true"))
      fin st cs' (if cs'.isEmpty then some "not-linearizable" else none) ["set.res"]
    else if b.startsWith "panic:" then fin st cs (some ("panicked-" ++ b)) ["panic"]
    else (st, cs, { model := "bad-op" })
  | [.w "res", .i t, .i c] =>
    let t := t.toNat
    match st.multi.find? (·.1 == t) with
    | none => (st, cs, { model := "bad-op" })
    | some (_, kind, _, _) =>
      let multi := st.multi.filter (·.1 != t)
      if kind == "len" then
        -- Len counts a Range: not atomic; only a sanity bound is imposed
        fin { st with multi := multi } cs (if c < 0 then some "count" else none) ["set.res.len"]
      else
        let cs0 := compClosure st.n 16 cs
        let cs' := cs0.filterMap (fun x =>
          match x.prog.find? (·.1 == t) with
          | some (_, [], k) => if (k : Int) == c then some { x with prog := x.prog.filter (·.1 != t) } else none
          | _ => none)
        fin { st with multi := multi } (Conc.dedup cs') (if cs'.isEmpty then some "not-linearizable" else none) ["set.res." ++ kind]
  | [.w "step", _, _] => (st, cs, { model := "ok", spec := some "ok" })
  | [.w "iter", _, _] => (st, cs, { model := "ok", spec := some "ok" })
  | [.w "deadlock"] => fin st cs (some "deadlock") []
  | [.w "steplimit"] => fin st cs (some "steplimit") []
  | _ => (st, cs, { model := "bad-op" })

structure JSt where
  st : St := {}
  cs : List CSt := []

def step (j : JSt) (toks : List Val) (_impl : String) : JSt × Out :=
  match toks with
  | [.w "cmap"] => ({ st := { mode := 1, ms := [AtomicObj.init MapObj.mapSpec 0] } }, { model := "ok", spec := some "ok", tags := ["cmap"] })
  | [.w "cset"] => ({ st := { mode := 2 }, cs := [{ s := AtomicObj.init MapObj.setSpec 0, prog := [] }] }, { model := "ok", spec := some "ok", tags := ["cset"] })
  | _ =>
    if j.st.mode == 1 then
      let (st', o) := stepMap j.st toks
      ({ j with st := st' }, o)
    else if j.st.mode == 2 then
      let (st', cs', o) := stepSet j.st j.cs toks
      ({ st := st', cs := cs' }, o)
    else (j, { model := "bad-op" })

def judge : Judge := { σ := JSt, init := {}, step := step }

end TypVerif.Drv.ObjLin
