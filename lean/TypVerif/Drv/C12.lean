import TypVerif.Drv.Proto
import TypVerif.Model.Splice
import TypVerif.Spec.Splice
/-
Judge for C12 (PROTOCOL.md "C12 — splicing helpers").

A slice argument `<list> <extracap>` is rebuilt exactly as the harness builds it: a backing array of
`len+extracap+2` cells, sentinel `-7` behind `len`, header `backing[:len:len+extracap]`.
Result `<contents> <tail> <same/new>`: tail = the cells of the ORIGINAL backing array from the new `len` to its end
when the result still lives there, else `[]`.

The specification string is: the list-level splice (`Spec.Splice.*`), the untouched guard suffix of the old
backing array (theorems `C12.*_frame`), and `same` iff the insertion fits into the spare capacity.
It is produced only inside the property's precondition (valid position); outside, model = impl only.
-/
namespace TypVerif.Drv.C12
open TypVerif.Proto
open TypVerif
open TypVerif.Model.GoSlice

def sentinel : Int := -7

/-- the harness' argument slice: heap with one backing array (id 0) -/
def mkArg (xs : List Int) (extracap : Nat) : Heap Int × Slice :=
  ofList Heap.empty xs (List.replicate (extracap + 2) sentinel) extracap

def renderRes (h : Heap Int) (orig r : Slice) : String :=
  let same := r.bid == orig.bid
  let tail := if same then (h.cells orig.bid).drop (orig.off + r.len) else []
  s!"{(ofInts (contents h r)).render} {(ofInts tail).render} {if same then "same" else "new"}"

def renderSpec (c : List Int) (mem : List Int) (stays : Bool) : String :=
  let tail := if stays then Spec.Splice.guardSuffix mem 0 c.length else []
  s!"{(ofInts c).render} {(ofInts tail).render} {if stays then "same" else "new"}"

def posTag (op : String) (i len : Nat) : String :=
  if len = 0 then s!"{op}.empty" else if i = 0 then s!"{op}.front" else if i ≥ len then s!"{op}.end" else s!"{op}.mid"

def bad : Unit × Out := ((), { model := "bad-op" })
def panicB (tag : String) : Unit × Out := ((), { model := "panic:bounds", tags := [tag] })
def unmodelled (tag : String) : Unit × Out := ((), { model := "unmodelled", tags := [tag] })

/-- add 100 to every cell of the result's backing array (the harness mutates the returned slice) -/
def mutate (h : Heap Int) (r : Slice) : Heap Int := h.write r.bid ((h.cells r.bid).map (· + 100))

def step (_ : Unit) (toks : List Val) (_impl : String) : Unit × Out :=
  match toks with
  | [.w "insert", l, .i extracap, .i i, .i v] =>
    match l.ints? with
    | some xs =>
      if extracap < 0 then bad
      else if i < 0 then panicB "insert.neg"
      else
        let (h, s) := mkArg xs extracap.toNat
        match Model.Splice.insert h s i.toNat v [] with
        | .ok (h', s') =>
          let stays := Spec.Splice.staysInPlace s.len s.cap 1
          ((), { model := renderRes h' s s',
                 spec := some (renderSpec (Spec.Splice.insert xs i.toNat v) (h.cells 0) stays),
                 tags := [if s'.bid == s.bid then "insert.inplace" else "insert.realloc", posTag "insert" i.toNat xs.length] })
        | .error e => ((), { model := e, tags := ["insert.panic"] })
    | none => bad
  | [.w "insertslice", l, .i extracap, .i i, vs] =>
    match l.ints?, vs.ints? with
    | some xs, some vals =>
      if extracap < 0 then bad
      else if i < 0 then panicB "insertslice.neg"
      else
        let (h, s) := mkArg xs extracap.toNat
        let (h, values) := ofList h vals [] 0
        match Model.Splice.insertSlice h s i.toNat values [] with
        | .ok (h', s') =>
          let stays := Spec.Splice.staysInPlace s.len s.cap vals.length
          ((), { model := renderRes h' s s',
                 spec := some (renderSpec (Spec.Splice.insertSlice xs i.toNat vals) (h.cells 0) stays),
                 tags := [if s'.bid == s.bid then "insertslice.inplace" else "insertslice.realloc",
                          posTag "insertslice" i.toNat xs.length, s!"insertslice.k={vals.length}"] })
        | .error e => ((), { model := e, tags := ["insertslice.panic"] })
    | _, _ => bad
  | [.w "remove", l, .i extracap, .i i] =>
    match l.ints? with
    | some xs =>
      if extracap < 0 then bad
      else if i < 0 then panicB "remove.neg"
      else
        let (h, s) := mkArg xs extracap.toNat
        match Model.Splice.remove h s i.toNat with
        | .ok (h', s') =>
          ((), { model := renderRes h' s s',
                 spec := some (renderSpec (Spec.Splice.remove xs i.toNat) (h.cells 0) true),
                 tags := ["remove.ok", posTag "remove" (i.toNat + 1) xs.length] })
        | .error e => ((), { model := e, tags := ["remove.panic"] })
    | none => bad
  | [.w "removeslice", l, .i extracap, .i i, .i n] =>
    match l.ints? with
    | some xs =>
      if extracap < 0 then bad
      else if i < 0 then panicB "removeslice.neg"
      else if n < 0 then unmodelled "removeslice.neglen"
      else
        let (h, s) := mkArg xs extracap.toNat
        match Model.Splice.removeSlice h s i.toNat n.toNat with
        | .ok (h', s') =>
          ((), { model := renderRes h' s s',
                 spec := some (renderSpec (Spec.Splice.removeSlice xs i.toNat n.toNat) (h.cells 0) true),
                 tags := ["removeslice.ok", posTag "removeslice" (i.toNat + n.toNat) xs.length, s!"removeslice.n={n}"] })
        | .error e => ((), { model := e, tags := ["removeslice.panic"] })
    | none => bad
  | [.w "fill", l, .i v] =>
    match l.ints? with
    | some xs =>
      let (h, s) := mkArg xs 0
      match Model.Splice.fillIters h s v with
      | .ok (h', iters) =>
        ((), { model := (ofInts (contents h' s)).render, spec := some (ofInts (Spec.Splice.fill xs v)).render,
               tags := [s!"fill.iters={iters}"] })
      | .error e => ((), { model := e, tags := ["fill.panic"] })
    | none => bad
  | [.w "insertalias", l, .i k] =>   -- InsertSlice at index len of values that alias the destination's spare capacity: the splice of the values as they were
    match l.ints? with
    | some xs =>
      if k < 0 then unmodelled "insertalias.neg" else
      let vs : List Int := (List.range k.toNat).map (fun i => (100 : Int) + (i : Nat))
      let r := (ofInts (xs ++ vs)).render
      ((), { model := r, spec := some r, tags := ["insertalias"] })
    | none => bad
  | [.w "fillz", .i n, .i _kind] =>   -- Fill/Repeat at other element types (glue: per element "is the value filled in")
    if n < 0 then unmodelled "fillz.neg"
    else
      let xs := List.replicate n.toNat (0 : Int)
      let (h, s) := mkArg xs 0
      match Model.Splice.fillIters h s 1 with
      | .ok (h', _) =>
        ((), { model := (ofInts (contents h' s)).render, spec := some (ofInts (Spec.Splice.fill xs 1)).render, tags := ["fillz"] })
      | .error e => ((), { model := e, tags := ["fill.panic"] })
  | [.w "repeat", .i v, .i n] =>
    if n < 0 then unmodelled "repeat.neg"
    else
      match Model.Splice.repeat_ (Heap.empty) (0 : Int) v n.toNat with
      | .ok (h', r) =>
        ((), { model := (ofInts (contents h' r)).render, spec := some (ofInts (Spec.Splice.repeat_ v n.toNat)).render,
               tags := [if n = 0 then "repeat.zero" else "repeat.some"] })
      | .error e => ((), { model := e, tags := ["repeat.panic"] })
  | [.w "reverse", l] =>
    match l.ints? with
    | some xs =>
      let (h, s) := mkArg xs 0
      match Model.Splice.reverse h s with
      | .ok h' =>
        ((), { model := (ofInts (contents h' s)).render, spec := some (ofInts (Spec.Splice.reverse xs)).render,
               tags := [if xs.length % 2 = 0 then "reverse.even" else "reverse.odd"] })
      | .error e => ((), { model := e, tags := ["reverse.panic"] })
    | none => bad
  | [.w "concat", la, lb] =>
    match la.ints?, lb.ints? with
    | some a, some b =>
      let (h, sa) := ofList Heap.empty a [] 0
      let (h, sb) := ofList h b [] 0
      match Model.Splice.concat h (0 : Int) sa sb with
      | .ok (h', r) =>
        let res := contents h' r
        let h'' := mutate h' r
        ((), { model := s!"{(ofInts res).render} {(ofInts (contents h'' sa)).render} {(ofInts (contents h'' sb)).render}",
               spec := some s!"{(ofInts (Spec.Splice.concat a b)).render} {(ofInts a).render} {(ofInts b).render}",
               tags := ["concat"] })
      | .error e => ((), { model := e, tags := ["concat.panic"] })
    | _, _ => bad
  | [.w "clone", la] =>
    match la.ints? with
    | some a =>
      let (h, sa) := ofList Heap.empty a [] 0
      let (h', r) := Model.Splice.clone h (0 : Int) sa
      let res := contents h' r
      let h'' := mutate h' r
      ((), { model := s!"{(ofInts res).render} {(ofInts (contents h'' sa)).render}",
             spec := some s!"{(ofInts (Spec.Splice.clone a)).render} {(ofInts a).render}",
             tags := ["clone"] })
    | none => bad
  | [.w "grow", l, .i extracap, .i n] =>
    match l.ints? with
    | some xs =>
      if extracap < 0 then bad
      else if n < 0 then unmodelled "grow.neg"
      else
        let (h, s) := mkArg xs extracap.toNat
        let (h', r) := Model.Splice.grow h (0 : Int) s n.toNat []
        let same := r.bid == s.bid
        let stays := Spec.Splice.staysInPlace s.len s.cap n.toNat
        ((), { model := s!"{(ofInts (contents h' r)).render} {if same then "same" else "new"}",
               spec := some s!"{(ofInts (Spec.Splice.grow xs 0 n.toNat)).render} {if stays then "same" else "new"}",
               tags := [if same then "grow.inplace" else "grow.realloc"] })
    | none => bad
  | _ => bad

def judge : Judge := { σ := Unit, init := (), step := step }

end TypVerif.Drv.C12
