import TypVerif.Drv.Proto
import TypVerif.Conc.Sys
import TypVerif.Model.SyncMapConc
/-
Judge "C04conc": STEP-level traces of sync2.Map (`cmap`) and sync2.Set (`cset`) recorded from the real code under the
controlled scheduler are replayed, step by step, in the transition system `Model.SyncMapConc` (the system the
`C04conc.*` theorems are about).  This is tie 4C at atomic-step granularity:

  inv <t> <op> <args>       goroutine t is idle and invokes the operation
  step <t> <label>          goroutine t, parked at hook <label>, performs that atomic action and runs to its next hook;
                            the model's goroutine must be parked at the SAME label and the step must be enabled
  iter <t> <k>              the `range read.m` loop of goroutine t chose key k (must be one of the model's remaining keys)
  res <t> <result>          goroutine t returns; the model's goroutine must be about to return the SAME result

so a trace is accepted iff the real execution is, label for label and result for result, an execution of the model.
`model` is `ok` or `rejected:<why>` (reported once per scenario); there is no specification output (the
linearizability of the same executions is judged by "ObjLin" on the API-level events).

sync2.Set is glue on top of the map model, as in set.go: Add(v) = LoadOrStore(v, {}) reporting !loaded,
Remove(v) = LoadAndDelete(v) reporting loaded, Has(v) = Load(v) reporting ok, Len = Range counting callbacks,
AddSet/RemoveSet = one Add/Remove per element of the argument (iterated in Go's unspecified map order: the judge keeps
one candidate per order) reporting the number of successes.  The step labels of a set operation must therefore be
exactly those of the map operation(s) it consists of.
-/
namespace TypVerif.Drv.C04conc
open TypVerif TypVerif.Proto TypVerif.Model TypVerif.Model.SyncMapConc

abbrev MS := SyncMapConc.State Int Int
abbrev MOp := SyncMapConc.Op Int Int
abbrev MRes := SyncMapConc.Res Int Int
abbrev MPc := SyncMapConc.Pc Int Int

/-- progress of a set-level call of goroutine `t` -/
structure Comp where
  t : Nat
  kind : String                 -- add remove has len addset removeset
  rest : List MOp := []         -- element operations still to start
  count : Nat := 0              -- successes so far
  deriving DecidableEq

structure Cand where
  st : MS
  comps : List Comp := []
  deriving DecidableEq

instance : BEq Cand := ⟨fun a b => decide (a = b)⟩

structure JSt where
  mode : Nat := 0               -- 0 unset, 1 map, 2 set
  cands : List Cand := []
  dead : Bool := false

def pad (s : MS) (n : Nat) : MS := { s with pcs := s.pcs ++ List.replicate (n - s.pcs.length) .idle }

def renderRes : MRes → String
  | .done => "done"
  | .val (some v) => s!"{v} true"
  | .val none => "0 false"
  | .pair a l => s!"{a} {l}"
  | .pairs l => (ofIntss (l.map (fun p => [p.1, p.2]))).render

def success : MRes → Bool
  | .pair _ l => !l             -- Add: !loaded
  | .val o => o.isSome          -- Remove: loaded; Has: ok
  | _ => false

def parseOp (toks : List Val) : Option MOp :=
  match toks with
  | [.w "load", .i k] => some (.load k)
  | [.w "store", .i k, .i v] => some (.store k v)
  | [.w "loadorstore", .i k, .i v] => some (.loadOrStore k v)
  | [.w "loadanddelete", .i k] => some (.loadAndDelete k)
  | [.w "delete", .i k] => some (.delete k)
  | [.w "range"] => some .range
  | _ => none

def perms : List Int → List (List Int)
  | [] => [[]]
  | xs => xs.flatMap (fun x => (perms (xs.erase x)).map (fun p => x :: p))
termination_by xs => xs.length
decreasing_by
  simp_wf
  rename_i h
  rw [List.length_erase_of_mem h]
  have := List.length_pos_of_mem h
  omega

/-- invocation: the goroutine must be idle -/
def doInv (c : Cand) (t : Nat) (toks : List Val) (setMode : Bool) : List Cand :=
  let st := pad c.st (t + 1)
  match st.pc t with
  | .idle =>
    if !setMode then
      match parseOp toks with
      | some op => [{ c with st := setPc st t st.sh (.start op) }]
      | none => []
    else
      match toks with
      | [.w "add", .i v] => [{ st := setPc st t st.sh (.start (.loadOrStore v 0)), comps := { t := t, kind := "add" } :: c.comps }]
      | [.w "remove", .i v] => [{ st := setPc st t st.sh (.start (.loadAndDelete v)), comps := { t := t, kind := "remove" } :: c.comps }]
      | [.w "has", .i v] => [{ st := setPc st t st.sh (.start (.load v)), comps := { t := t, kind := "has" } :: c.comps }]
      | [.w "len"] => [{ st := setPc st t st.sh (.start .range), comps := { t := t, kind := "len" } :: c.comps }]
      | .w kind :: args =>
        if kind == "addset" || kind == "removeset" then
          let vs := Conc.dedup (args.filterMap Val.int?)
          let mk (v : Int) : MOp := if kind == "addset" then .loadOrStore v 0 else .loadAndDelete v
          -- the composite is parked at "op:<kind>"; its first element operation starts when that step runs
          (perms vs).map (fun p => { st := setPc st t st.sh (.start .range),   -- placeholder pc, replaced at the op: step
                                     comps := { t := t, kind := kind, rest := p.map mk } :: c.comps })
        else []
      | _ => []
  | _ => []

def compOf (c : Cand) (t : Nat) : Option Comp := c.comps.find? (·.t == t)

def setComp (c : Cand) (t : Nat) (f : Comp → Comp) : Cand :=
  { c with comps := c.comps.map (fun x => if x.t == t then f x else x) }

/-- a composite whose current element operation just finished starts the next one in the same step -/
def chain (c : Cand) (t : Nat) : Cand :=
  match compOf c t, c.st.pc t with
  | some cp, .ret r =>
    if cp.kind == "addset" || cp.kind == "removeset" then
      match cp.rest with
      | op :: rest' =>
        match exec c.st.sh t (.start op) with
        | some (sh', pc') =>
          setComp { c with st := setPc c.st t sh' pc' } t (fun x => { x with rest := rest', count := x.count + (if success r then 1 else 0) })
        | none => c
      | [] => c
    else c
  | _, _ => c

def doStep (c : Cand) (t : Nat) (label : String) : List Cand :=
  let pc := c.st.pc t
  match compOf c t with
  | some cp =>
    if (label == "op:addset" || label == "op:removeset") then
      -- start of a composite: must be parked at its placeholder start and not begun yet
      if label == "op:" ++ cp.kind && pc == .start .range then
        match cp.rest with
        | op :: rest' =>
          match exec c.st.sh t (.start op) with
          | some (sh', pc') => [setComp { c with st := setPc c.st t sh' pc' } t (fun x => { x with rest := rest' })]
          | none => []
        | [] => [{ c with st := setPc c.st t c.st.sh (.ret (.pairs [])) }]     -- empty argument set: returns 0 at once
      else []
    else
      let want := if label == "op:add" then "op:loadorstore" else if label == "op:remove" then "op:loadanddelete"
                  else if label == "op:has" then "op:load" else if label == "op:len" then "op:range" else label
      let okKind := !(label.startsWith "op:") || label == "op:" ++ cp.kind
      if okKind && pc.label == want then
        match exec c.st.sh t pc with
        | some (sh', pc') => [chain { c with st := setPc c.st t sh' pc' } t]
        | none => []
      else []
  | none =>
    if pc.label == label then
      match exec c.st.sh t pc with
      | some (sh', pc') => [{ c with st := setPc c.st t sh' pc' }]
      | none => []
    else []

def doIter (c : Cand) (t : Nat) (k : Int) : List Cand :=
  match (picks (c.st.pc t)).find? (·.1 == k) with
  | some (_, pc') => [{ c with st := setPc c.st t c.st.sh pc' }]
  | none => []

def doRes (c : Cand) (t : Nat) (impl : String) : List Cand :=
  match c.st.pc t with
  | .ret r =>
    let idle : Cand := { st := setPc c.st t c.st.sh .idle, comps := c.comps.filter (·.t != t) }
    match compOf c t with
    | none => if renderRes r == impl then [idle] else []
    | some cp =>
      if cp.kind == "add" || cp.kind == "remove" || cp.kind == "has" then
        if toString (success r) == impl then [idle] else []
      else if cp.kind == "len" then
        match r with
        | .pairs l => if toString l.length == impl then [idle] else []
        | _ => []
      else
        if cp.rest.isEmpty && toString (cp.count + (if success r then 1 else 0)) == impl then [idle] else []
  | _ => []

def describe (c : Cand) (t : Nat) : String := s!"model-goroutine-at:{(c.st.pc t).label}"

def step (j : JSt) (toks : List Val) (_impl : String) : JSt × Out :=
  let ok (j : JSt) (tags : List String) : JSt × Out := (j, { model := "ok", tags := tags })
  match toks with
  | [.w "cmap"] => ok { mode := 1, cands := [{ st := SyncMapConc.init 0 }] } ["cmap"]
  | [.w "cset"] => ok { mode := 2, cands := [{ st := SyncMapConc.init 0 true }] } ["cset"]
  | _ =>
    if j.dead || j.mode == 0 then ok j [] else
    let go (next : List Cand) (why : String) (tags : List String) : JSt × Out :=
      let next := Conc.dedup next
      if next.isEmpty then ({ j with dead := true, cands := [] }, { model := s!"rejected:{why}", tags := tags })
      else ok { j with cands := next } tags
    let at0 (t : Nat) : String := match j.cands with | c :: _ => describe c t | [] => "no-candidate"
    match toks with
    | .w "inv" :: .i t :: rest =>
      go (j.cands.flatMap (fun c => doInv c t.toNat rest (j.mode == 2))) s!"inv-not-idle-or-bad-op:{at0 t.toNat}" ["inv"]
    | [.w "step", .i t, .w label] =>
      go (j.cands.flatMap (fun c => doStep c t.toNat label)) s!"step-label-or-enabledness:{at0 t.toNat}" ["step:" ++ label]
    | [.w "iter", .i t, .i k] =>
      go (j.cands.flatMap (fun c => doIter c t.toNat k)) s!"iter-key-not-pending:{at0 t.toNat}" ["iter"]
    | .w "res" :: .i t :: rest =>
      let impl := " ".intercalate (rest.map Val.render)
      if impl.startsWith "panic:" then ({ j with dead := true }, { model := "rejected:panic-in-code-under-test", tags := ["panic"] })
      else go (j.cands.flatMap (fun c => doRes c t.toNat impl)) s!"result-differs:{at0 t.toNat}:{match j.cands with | c :: _ => (match c.st.pc t.toNat with | .ret r => renderRes r | _ => "-") | [] => "-"}" ["res"]
    | [.w "deadlock"] => ({ j with dead := true }, { model := "rejected:deadlock", tags := ["deadlock"] })
    | [.w "steplimit"] => ({ j with dead := true }, { model := "rejected:steplimit", tags := ["steplimit"] })
    | _ => (j, { model := "bad-op" })

def judge : Judge := { σ := JSt, init := {}, step := step }

end TypVerif.Drv.C04conc
