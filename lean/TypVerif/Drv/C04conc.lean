import TypVerif.Drv.Proto
import TypVerif.Conc.Sys
import TypVerif.Model.SyncMapConc
import TypVerif.Model.SyncMapTrace
/-
Judge "C04conc": STEP-level traces of sync2.Map (`cmap`) and sync2.Set (`cset`) recorded from the real code under the
controlled scheduler are replayed, step by step, in the transition system `Model.SyncMapConc` (the system the
`C04conc.*` theorems are about).  This is tie 4C at atomic-step granularity:

  inv <t> <op> <args>       goroutine t is idle and invokes the operation
  step <t> <label>          goroutine t, parked at hook <label>, performs that atomic action and runs to its next hook;
                            the model's goroutine must be parked at the SAME label and the step must be enabled
  iter <t> <k>              the `range read.m` loop of goroutine t chose key k (must be one of the model's remaining keys)
  res <t> <result>          goroutine t returns; the model's goroutine must be about to return the SAME result

so a trace is accepted iff the real execution is, label for label and result for result, an execution of the model.

MAP mode (`cmap`) is theorem-backed: every line is parsed into a `SyncMapTrace.Line Int Int` and handed to the pure
function `SyncMapTrace.applyLinePad` on the single model state; the scenario is accepted iff `SyncMapTrace.replayPad
(init 0) lines` is `some _`.  `C04.judge_accept_sound` (`Props/C04trace.lean`): then the lines are an execution of
`SyncMapConc.sys` from `init n` and their invocation/response history is linearizable.  The judge fixes the number of
goroutines `n` = (largest goroutine id of the scenario) + 1 LAZILY — it starts from `init 0` and appends idle goroutines
when an `inv` line mentions a larger id — which is equivalent to starting from `init n` because idle goroutines take no
internal steps and a missing goroutine already reads as idle (`Lemmas.SyncMapTrace.replayPad_replay`).  What stays
unverified glue in map mode: tokenising, `parseOp`, `parseRes` (text → `Line`), the diagnostics.  The result of a `res`
line is PARSED into a `Res Int Int` and compared as a value (`<v> true|false` is `(v, ok)` of Load/LoadAndDelete or
`(actual, loaded)` of LoadOrStore, decided by the pending operation of that goroutine, which the judge remembers from
the `inv` line).
`model` is `ok` or `rejected:<why>` (reported once per scenario); there is no specification output (the
linearizability of the same executions is judged by "ObjLin" on the API-level events).

sync2.Set is glue on top of the map model, as in set.go: Add(v) = LoadOrStore(v, {}) reporting !loaded,
Remove(v) = LoadAndDelete(v) reporting loaded, Has(v) = Load(v) reporting ok, Len = Range counting callbacks,
AddSet/RemoveSet = one Add/Remove per element of the argument (iterated in Go's unspecified map order: the judge keeps
one candidate per order) reporting the number of successes.  The step labels of a set operation must therefore be
exactly those of the map operation(s) it consists of.
-/
namespace TypVerif.Drv.C04conc
open TypVerif TypVerif.Proto TypVerif.Model TypVerif.Model.SyncMapConc
open TypVerif.Model.SyncMapTrace (Line applyLinePad pad)

abbrev MS := SyncMapConc.State Int Int
abbrev MOp := SyncMapConc.Op Int Int
abbrev MRes := SyncMapConc.Res Int Int
abbrev MPc := SyncMapConc.Pc Int Int

/-- progress of a set-level call of goroutine `t` -/
structure Comp where
  t : Nat
  kind : String                 -- add remove has len addset removeset
  rest : List MOp := []         -- element operations still to start
  count : Nat := 0              -- successes so far
  deriving DecidableEq

structure Cand where
  st : MS
  comps : List Comp := []
  deriving DecidableEq

instance : BEq Cand := ⟨fun a b => decide (a = b)⟩

structure JSt where
  mode : Nat := 0               -- 0 unset, 1 map, 2 set
  mst : MS := {}                -- map mode: the model state (`SyncMapTrace.replayPad` of the lines so far)
  pend : List (Nat × MOp) := [] -- map mode: the operation each goroutine invoked last (to parse its result)
  cands : List Cand := []       -- set mode: the candidates
  dead : Bool := false

def renderRes : MRes → String
  | .done => "done"
  | .val (some v) => s!"{v} true"
  | .val none => "0 false"
  | .pair a l => s!"{a} {l}"
  | .pairs l => (ofIntss (l.map (fun p => [p.1, p.2]))).render

def success : MRes → Bool
  | .pair _ l => !l             -- Add: !loaded
  | .val o => o.isSome          -- Remove: loaded; Has: ok
  | _ => false

def parseOp (toks : List Val) : Option MOp :=
  match toks with
  | [.w "load", .i k] => some (.load k)
  | [.w "store", .i k, .i v] => some (.store k v)
  | [.w "loadorstore", .i k, .i v] => some (.loadOrStore k v)
  | [.w "loadanddelete", .i k] => some (.loadAndDelete k)
  | [.w "delete", .i k] => some (.delete k)
  | [.w "range"] => some .range
  | _ => none

def perms : List Int → List (List Int)
  | [] => [[]]
  | xs => xs.flatMap (fun x => (perms (xs.erase x)).map (fun p => x :: p))
termination_by xs => xs.length
decreasing_by
  simp_wf
  rename_i h
  rw [List.length_erase_of_mem h]
  have := List.length_pos_of_mem h
  omega

/-- the result tokens of a `res` line of goroutine whose pending operation is `pending`, as a model result:
`done`; `<v> true|false` = `(v, ok)` of Load/LoadAndDelete (the zero value is printed when `ok` is false) or
`(actual, loaded)` of LoadOrStore; `[[k,v],…]` = the callback sequence of Range -/
def parseRes (pending : Option MOp) (toks : List Val) : Option MRes :=
  let valLike (op : MOp) : Bool := match op with | .load _ => true | .loadAndDelete _ => true | _ => false
  let bool? (w : String) : Option Bool := if w == "true" then some true else if w == "false" then some false else none
  match toks with
  | [.w "done"] => some .done
  | [.i v, .w b] =>
    match pending, bool? b with
    | some (.loadOrStore _ _), some l => some (.pair v l)
    | some op, some true => if valLike op then some (.val (some v)) else none
    | some op, some false => if valLike op && v == 0 then some (.val none) else none
    | _, _ => none
  | [.l xs] =>
    (xs.mapM (fun (x : Val) => match x with | .l [.i k, .i v] => some (k, v) | _ => none)).map .pairs
  | _ => none

/-- a map-mode line as a `SyncMapTrace.Line` -/
def parseLine (pend : List (Nat × MOp)) (toks : List Val) : Option (Line Int Int) :=
  match toks with
  | .w "inv" :: .i t :: rest => (parseOp rest).map (.inv t.toNat)
  | [.w "step", .i t, .w label] => some (.step t.toNat label)
  | [.w "iter", .i t, .i k] => some (.iter t.toNat k)
  | .w "res" :: .i t :: rest => (parseRes ((pend.find? (·.1 == t.toNat)).map (·.2)) rest).map (.res t.toNat)
  | _ => none

/-- set mode — invocation: the goroutine must be idle -/
def doInv (c : Cand) (t : Nat) (toks : List Val) : List Cand :=
  let st := pad c.st (t + 1)
  match st.pc t with
  | .idle =>
      match toks with
      | [.w "add", .i v] => [{ st := setPc st t st.sh (.start (.loadOrStore v 0)), comps := { t := t, kind := "add" } :: c.comps }]
      | [.w "remove", .i v] => [{ st := setPc st t st.sh (.start (.loadAndDelete v)), comps := { t := t, kind := "remove" } :: c.comps }]
      | [.w "has", .i v] => [{ st := setPc st t st.sh (.start (.load v)), comps := { t := t, kind := "has" } :: c.comps }]
      | [.w "len"] => [{ st := setPc st t st.sh (.start .range), comps := { t := t, kind := "len" } :: c.comps }]
      | .w kind :: args =>
        if kind == "addset" || kind == "removeset" then
          let vs := Conc.dedup (args.filterMap Val.int?)
          let mk (v : Int) : MOp := if kind == "addset" then .loadOrStore v 0 else .loadAndDelete v
          -- the composite is parked at "op:<kind>"; its first element operation starts when that step runs
          (perms vs).map (fun p => { st := setPc st t st.sh (.start .range),   -- placeholder pc, replaced at the op: step
                                     comps := { t := t, kind := kind, rest := p.map mk } :: c.comps })
        else []
      | _ => []
  | _ => []

def compOf (c : Cand) (t : Nat) : Option Comp := c.comps.find? (·.t == t)

def setComp (c : Cand) (t : Nat) (f : Comp → Comp) : Cand :=
  { c with comps := c.comps.map (fun x => if x.t == t then f x else x) }

/-- a composite whose current element operation just finished starts the next one in the same step -/
def chain (c : Cand) (t : Nat) : Cand :=
  match compOf c t, c.st.pc t with
  | some cp, .ret r =>
    if cp.kind == "addset" || cp.kind == "removeset" then
      match cp.rest with
      | op :: rest' =>
        match exec c.st.sh t (.start op) with
        | some (sh', pc') =>
          setComp { c with st := setPc c.st t sh' pc' } t (fun x => { x with rest := rest', count := x.count + (if success r then 1 else 0) })
        | none => c
      | [] => c
    else c
  | _, _ => c

def doStep (c : Cand) (t : Nat) (label : String) : List Cand :=
  let pc := c.st.pc t
  match compOf c t with
  | some cp =>
    if (label == "op:addset" || label == "op:removeset") then
      -- start of a composite: must be parked at its placeholder start and not begun yet
      if label == "op:" ++ cp.kind && pc == .start .range then
        match cp.rest with
        | op :: rest' =>
          match exec c.st.sh t (.start op) with
          | some (sh', pc') => [setComp { c with st := setPc c.st t sh' pc' } t (fun x => { x with rest := rest' })]
          | none => []
        | [] => [{ c with st := setPc c.st t c.st.sh (.ret (.pairs [])) }]     -- empty argument set: returns 0 at once
      else []
    else
      let want := if label == "op:add" then "op:loadorstore" else if label == "op:remove" then "op:loadanddelete"
                  else if label == "op:has" then "op:load" else if label == "op:len" then "op:range" else label
      let okKind := !(label.startsWith "op:") || label == "op:" ++ cp.kind
      if okKind && pc.label == want then
        match exec c.st.sh t pc with
        | some (sh', pc') => [chain { c with st := setPc c.st t sh' pc' } t]
        | none => []
      else []
  | none =>
    if pc.label == label then
      match exec c.st.sh t pc with
      | some (sh', pc') => [{ c with st := setPc c.st t sh' pc' }]
      | none => []
    else []

def doIter (c : Cand) (t : Nat) (k : Int) : List Cand :=
  match (picks (c.st.pc t)).find? (·.1 == k) with
  | some (_, pc') => [{ c with st := setPc c.st t c.st.sh pc' }]
  | none => []

def doRes (c : Cand) (t : Nat) (impl : String) : List Cand :=
  match c.st.pc t with
  | .ret r =>
    let idle : Cand := { st := setPc c.st t c.st.sh .idle, comps := c.comps.filter (·.t != t) }
    match compOf c t with
    | none => if renderRes r == impl then [idle] else []
    | some cp =>
      if cp.kind == "add" || cp.kind == "remove" || cp.kind == "has" then
        if toString (success r) == impl then [idle] else []
      else if cp.kind == "len" then
        match r with
        | .pairs l => if toString l.length == impl then [idle] else []
        | _ => []
      else
        if cp.rest.isEmpty && toString (cp.count + (if success r then 1 else 0)) == impl then [idle] else []
  | _ => []

def describe (c : Cand) (t : Nat) : String := s!"model-goroutine-at:{(c.st.pc t).label}"

/-- MAP mode: one line = one call of the verified pure function `SyncMapTrace.applyLinePad` on the single model state
(`C04.judge_accept_sound`); everything else here is parsing and diagnostics -/
def stepMap (j : JSt) (toks : List Val) : JSt × Out :=
  let at0 (t : Nat) : String := s!"model-goroutine-at:{(j.mst.pc t).label}"
  let run (pend' : List (Nat × MOp)) (why : Unit → String) (tags : List String) : JSt × Out :=
    match (parseLine j.pend toks).bind (applyLinePad j.mst) with
    | some s' => ({ j with mst := s', pend := pend' }, { model := "ok", tags := tags })
    | none => ({ j with dead := true }, { model := s!"rejected:{why ()}", tags := tags })
  match toks with
  | .w "inv" :: .i t :: rest =>
    let pend' := match parseOp rest with
      | some op => (t.toNat, op) :: j.pend.filter (·.1 != t.toNat)
      | none => j.pend
    run pend' (fun _ => s!"inv-not-idle-or-bad-op:{at0 t.toNat}") ["inv"]
  | [.w "step", .i t, .w label] =>
    run j.pend (fun _ => s!"step-label-or-enabledness:{at0 t.toNat}") ["step:" ++ label]
  | [.w "iter", .i t, .i _] =>
    run j.pend (fun _ => s!"iter-key-not-pending:{at0 t.toNat}") ["iter"]
  | .w "res" :: .i t :: rest =>
    let impl := " ".intercalate (rest.map Val.render)
    if impl.startsWith "panic:" then ({ j with dead := true }, { model := "rejected:panic-in-code-under-test", tags := ["panic"] })
    else run j.pend (fun _ => s!"result-differs:{at0 t.toNat}:{match j.mst.pc t.toNat with | .ret r => renderRes r | _ => "-"}") ["res"]
  | [.w "deadlock"] => ({ j with dead := true }, { model := "rejected:deadlock", tags := ["deadlock"] })
  | [.w "steplimit"] => ({ j with dead := true }, { model := "rejected:steplimit", tags := ["steplimit"] })
  | _ => (j, { model := "bad-op" })

/-- SET mode: candidates and composite glue (unverified) -/
def stepSet (j : JSt) (toks : List Val) : JSt × Out :=
  let ok (j : JSt) (tags : List String) : JSt × Out := (j, { model := "ok", tags := tags })
  let go (next : List Cand) (why : String) (tags : List String) : JSt × Out :=
    let next := Conc.dedup next
    if next.isEmpty then ({ j with dead := true, cands := [] }, { model := s!"rejected:{why}", tags := tags })
    else ok { j with cands := next } tags
  let at0 (t : Nat) : String := match j.cands with | c :: _ => describe c t | [] => "no-candidate"
  match toks with
  | .w "inv" :: .i t :: rest =>
    go (j.cands.flatMap (fun c => doInv c t.toNat rest)) s!"inv-not-idle-or-bad-op:{at0 t.toNat}" ["inv"]
  | [.w "step", .i t, .w label] =>
    go (j.cands.flatMap (fun c => doStep c t.toNat label)) s!"step-label-or-enabledness:{at0 t.toNat}" ["step:" ++ label]
  | [.w "iter", .i t, .i k] =>
    go (j.cands.flatMap (fun c => doIter c t.toNat k)) s!"iter-key-not-pending:{at0 t.toNat}" ["iter"]
  | .w "res" :: .i t :: rest =>
    let impl := " ".intercalate (rest.map Val.render)
    if impl.startsWith "panic:" then ({ j with dead := true }, { model := "rejected:panic-in-code-under-test", tags := ["panic"] })
    else go (j.cands.flatMap (fun c => doRes c t.toNat impl)) s!"result-differs:{at0 t.toNat}:{match j.cands with | c :: _ => (match c.st.pc t.toNat with | .ret r => renderRes r | _ => "-") | [] => "-"}" ["res"]
  | [.w "deadlock"] => ({ j with dead := true }, { model := "rejected:deadlock", tags := ["deadlock"] })
  | [.w "steplimit"] => ({ j with dead := true }, { model := "rejected:steplimit", tags := ["steplimit"] })
  | _ => (j, { model := "bad-op" })

def step (j : JSt) (toks : List Val) (_impl : String) : JSt × Out :=
  let ok (j : JSt) (tags : List String) : JSt × Out := (j, { model := "ok", tags := tags })
  match toks with
  | [.w "cmap"] => ok { mode := 1, mst := SyncMapConc.init 0 } ["cmap"]
  | [.w "cset"] => ok { mode := 2, cands := [{ st := SyncMapConc.init 0 true }] } ["cset"]
  | _ =>
    if j.dead || j.mode == 0 then ok j []
    else if j.mode == 1 then stepMap j toks
    else stepSet j toks

def judge : Judge := { σ := JSt, init := {}, step := step }

end TypVerif.Drv.C04conc
