import TypVerif.Drv.Proto
import TypVerif.Conc.Sys
import TypVerif.Model.SyncMapConc
/-
Judge "C09conc": STEP-level traces of sync2.KeyedMutex (`km 0`) / sync2.KeyedRWMutex (`km 1`) recorded under the controlled
scheduler are replayed in the composition of
  * the step-level model of the embedded `sync2.Map` (`Model.SyncMapConc`, the system of the `C04.conc_*` theorems; the map's values
    are mutex identities), and
  * `keyedmutex.go` as written: every method is `m, _ := km.m.LoadOrStore(key, <fresh mutex>)` followed by one action on `m`
    (`Lock`/`RLock` behind the hook `lock`/`rlock`, `TryLock`/`TryRLock` behind the hook `<Type>.Try(R)LockKey`, `Unlock`/`RUnlock`
    without a hook of their own), `ClearKey` is `km.m.Delete(key)`;  `sync.Mutex`/`sync.RWMutex` by contract (writer / reader set;
    `Lock` enabled iff free, `RLock` iff no writer, `Try*` succeed iff enabled).

  inv <t> lock|trylock|unlock|rlock|tryrlock|runlock|clear <k>
  step <t> <label>      the goroutine performs the atomic action it is parked at (map hook label, `lock`/`rlock`, or a Try hook)
  iter <t> <k>          key choice of the map's `range read.m` loop
  res <t> done|true|false

A trace is accepted iff the real execution is, label for label and result for result, an execution of this composition — so a
keyed-mutex method that does anything else with the map than one `LoadOrStore` (e.g. `Load` then `Store`), or skips / adds an atomic
action, is a label mismatch.  `model` is `ok` or `rejected:<why>` (once per scenario); there is no specification output here
(mutual exclusion etc. are judged on the same traces by the judge "C09").
-/
namespace TypVerif.Drv.C09conc
open TypVerif TypVerif.Proto TypVerif.Model TypVerif.Model.SyncMapConc

abbrev MS := SyncMapConc.State Int Int
abbrev MPc := SyncMapConc.Pc Int Int

/-- what a goroutine does with the mutex once its map call has returned -/
inductive Kind where
  | lock | trylock | unlock | rlock | tryrlock | runlock | clear
  deriving DecidableEq, Repr

/-- progress of a keyed-mutex call -/
inductive Phase where
  | inMap (kind : Kind) (k : Int)              -- inside the map call
  | atHook (kind : Kind) (m : Int)             -- parked at the keyed mutex's own hook, about to act on mutex `m`
  | ret (r : String)                           -- about to return `r`
  deriving DecidableEq, Repr

structure Mu where
  id : Int
  writer : Option Nat := none
  readers : List Nat := []
  deriving DecidableEq, Repr

structure St where
  rw : Bool := false
  map : MS := SyncMapConc.init 0
  phases : List (Nat × Phase) := []
  mus : List Mu := []
  next : Int := 1                              -- identity of the next mutex offered to LoadOrStore
  dead : Bool := false
  started : Bool := false
  deriving DecidableEq

def kindOf : String → Option Kind
  | "lock" => some .lock | "trylock" => some .trylock | "unlock" => some .unlock
  | "rlock" => some .rlock | "tryrlock" => some .tryrlock | "runlock" => some .runlock
  | "clear" => some .clear | _ => none

def pad (s : MS) (n : Nat) : MS := { s with pcs := s.pcs ++ List.replicate (n - s.pcs.length) .idle }

def phaseOf (st : St) (t : Nat) : Option Phase := (st.phases.find? (·.1 == t)).map (·.2)
def setPhase (st : St) (t : Nat) (p : Option Phase) : St :=
  let rest := st.phases.filter (·.1 != t)
  { st with phases := match p with | some p => (t, p) :: rest | none => rest }

def mu (st : St) (m : Int) : Mu := (st.mus.find? (·.id == m)).getD { id := m }
def setMu (st : St) (x : Mu) : St := { st with mus := x :: st.mus.filter (·.id != x.id) }

/-- the label of the keyed mutex's own hook -/
def hookLabel (rw : Bool) : Kind → String
  | .lock => "lock"
  | .rlock => "rlock"
  | .trylock => if rw then "KeyedRWMutex.TryLockKey" else "KeyedMutex.TryLockKey"
  | .tryrlock => "KeyedRWMutex.TryRLockKey"
  | _ => "-"

/-- the map call has returned `m` (or, for clear, has returned): what the method does next, in the same step -/
def afterMap (st : St) (t : Nat) (kind : Kind) (m : Int) : St :=
  match kind with
  | .clear => setPhase st t (some (.ret "done"))
  | .unlock =>
    let x := mu st m
    setPhase (setMu st { x with writer := none }) t (some (.ret "done"))
  | .runlock =>
    let x := mu st m
    setPhase (setMu st { x with readers := x.readers.erase t }) t (some (.ret "done"))
  | k => setPhase st t (some (.atHook k m))

/-- one step of the map call of goroutine `t`; when the map call is about to return, the keyed-mutex method continues -/
def mapStep (st : St) (t : Nat) (kind : Kind) (label : String) : Option St :=
  let pc := st.map.pc t
  if pc.label != label then none else
  match exec st.map.sh t pc with
  | none => none
  | some (sh', pc') =>
    let st := { st with map := setPc st.map t sh' pc' }
    match pc' with
    | .ret (.pair a _) =>                      -- LoadOrStore returned the key's mutex
      some (afterMap { st with map := setPc st.map t st.map.sh .idle } t kind a)
    | .ret .done =>                            -- Delete returned
      some (afterMap { st with map := setPc st.map t st.map.sh .idle } t kind 0)
    | .ret _ => none
    | _ => some st

def doStep (st : St) (t : Nat) (label : String) : Option St :=
  match phaseOf st t with
  | some (.inMap kind _) =>
    -- the scheduler's `op:<kind>` step is the start of the method: the map call's own start step
    let label := if label.startsWith "op:" then
        (if label == "op:clear" then "op:delete" else "op:loadorstore") else label
    mapStep st t kind label
  | some (.atHook kind m) =>
    if hookLabel st.rw kind != label then none else
    let x := mu st m
    match kind with
    | .lock =>
      if x.writer.isNone && x.readers.isEmpty then some (setPhase (setMu st { x with writer := some t }) t (some (.ret "done"))) else none
    | .rlock =>
      if x.writer.isNone then some (setPhase (setMu st { x with readers := t :: x.readers }) t (some (.ret "done"))) else none
    | .trylock =>
      if x.writer.isNone && x.readers.isEmpty then some (setPhase (setMu st { x with writer := some t }) t (some (.ret "true")))
      else some (setPhase st t (some (.ret "false")))
    | .tryrlock =>
      if x.writer.isNone then some (setPhase (setMu st { x with readers := t :: x.readers }) t (some (.ret "true")))
      else some (setPhase st t (some (.ret "false")))
    | _ => none
  | _ => none

def doInv (st : St) (t : Nat) (kind : Kind) (k : Int) : Option St :=
  let m := pad st.map (t + 1)
  match phaseOf st t, m.pc t with
  | none, .idle =>
    let op : SyncMapConc.Op Int Int := if kind == .clear then .delete k else .loadOrStore k st.next
    some (setPhase { st with map := setPc m t m.sh (.start op), next := st.next + 1 } t (some (.inMap kind k)))
  | _, _ => none

def doIter (st : St) (t : Nat) (k : Int) : Option St :=
  match (picks (st.map.pc t)).find? (·.1 == k) with
  | some (_, pc') => some { st with map := setPc st.map t st.map.sh pc' }
  | none => none

def doRes (st : St) (t : Nat) (r : String) : Option St :=
  match phaseOf st t with
  | some (.ret r') => if r == r' then some (setPhase st t none) else none
  | _ => none

def at0 (st : St) (t : Nat) : String :=
  match phaseOf st t with
  | some (.inMap _ _) => s!"in-map-at:{(st.map.pc t).label}"
  | some (.atHook k _) => s!"at-hook:{hookLabel st.rw k}"
  | some (.ret r) => s!"about-to-return:{r}"
  | none => "idle"

def step (st : St) (toks : List Val) (_impl : String) : St × Out :=
  let ok (st : St) (tags : List String) : St × Out := (st, { model := "ok", tags := tags })
  match toks with
  | [.w "km", .i rw] => ok { rw := rw != 0, started := true } [if rw != 0 then "km.rw" else "km.plain"]
  | _ =>
    if st.dead || !st.started then ok st [] else
    let go (r : Option St) (why : String) (tags : List String) : St × Out :=
      match r with
      | some st' => ok st' tags
      | none => ({ st with dead := true }, { model := s!"rejected:{why}", tags := tags })
    match toks with
    | [.w "inv", .i t, .w kd, .i k] =>
      match kindOf kd with
      | some kind => go (doInv st t.toNat kind k) s!"inv-while-busy:{at0 st t.toNat}" ["inv." ++ kd]
      | none => (st, { model := "bad-op" })
    | [.w "step", .i t, .w label] => go (doStep st t.toNat label) s!"step-{label}-but-model:{at0 st t.toNat}" ["step:" ++ label]
    | [.w "iter", .i t, .i k] => go (doIter st t.toNat k) s!"iter-key-not-pending:{at0 st t.toNat}" ["iter"]
    | [.w "res", .i t, .w r] =>
      if r.startsWith "panic:" then ({ st with dead := true }, { model := "rejected:panic-in-code-under-test", tags := ["panic"] })
      else go (doRes st t.toNat r) s!"res-{r}-but-model:{at0 st t.toNat}" ["res"]
    | [.w "deadlock"] => ({ st with dead := true }, { model := "ok", tags := ["deadlock"] })   -- programs may deadlock legitimately (lock order); judged by C09
    | [.w "steplimit"] => ({ st with dead := true }, { model := "rejected:steplimit", tags := ["steplimit"] })
    | _ => (st, { model := "bad-op" })

def judge : Judge := { σ := St, init := {}, step := step }

end TypVerif.Drv.C09conc
