import TypVerif.Drv.Proto
import TypVerif.Conc.Sys
import TypVerif.Model.SyncMapConc
import TypVerif.Model.KeyedMutexConc
/-
Judge "C09conc": STEP-level traces of sync2.KeyedMutex (`km 0`) / sync2.KeyedRWMutex (`km 1`) recorded under the controlled
scheduler are replayed in the composition of
  * the step-level model of the embedded `sync2.Map` (`Model.SyncMapConc`, the system of the `C04.conc_*` theorems; the map's values
    are mutex identities), and
  * `keyedmutex.go` as written: every method is `m, _ := km.m.LoadOrStore(key, <fresh mutex>)` followed by one action on `m`
    (`Lock`/`RLock` behind the hook `lock`/`rlock`, `TryLock`/`TryRLock` behind the hook `<Type>.Try(R)LockKey`, `Unlock`/`RUnlock`
    without a hook of their own), `ClearKey` is `km.m.Delete(key)`;  `sync.Mutex`/`sync.RWMutex` by contract (writer / reader set;
    `Lock` enabled iff free, `RLock` iff no writer, `Try*` succeed iff enabled).

  inv <t> lock|trylock|unlock|rlock|tryrlock|runlock|clear <k>
  step <t> <label>      the goroutine performs the atomic action it is parked at (map hook label, `lock`/`rlock`, or a Try hook)
  iter <t> <k>          key choice of the map's `range read.m` loop
  res <t> done|true|false

The composition is `Model/KeyedMutexConc.lean` — the transition system of the `C09.conc_*` theorems (`Props/C09conc.lean`): this
judge is written through the model's own step functions (`invStep`, `contMap` after `SyncMapConc.exec` / `picks`, `hookStep`), so
every accepted line IS a step of `KeyedMutexConc.stepT` (the `inv` line with the guard `invOk`: goroutines only unlock what they
hold), with the hook label of the step equal to the label the real code announced.

A trace is accepted iff the real execution is, label for label and result for result, an execution of this composition — so a
keyed-mutex method that does anything else with the map than one `LoadOrStore` (e.g. `Load` then `Store`), or skips / adds an atomic
action, is a label mismatch.  `model` is `ok` or `rejected:<why>` (once per scenario); there is no specification output here
(mutual exclusion etc. are judged on the same traces by the judge "C09").
-/
namespace TypVerif.Drv.C09conc
open TypVerif TypVerif.Proto TypVerif.Model TypVerif.Model.SyncMapConc
open TypVerif.Model.KeyedMutexConc (Kind Phase invOk invStep contMap hookStep)

abbrev KS := KeyedMutexConc.State Int

structure St where
  rw : Bool := false
  s : KS := {}
  dead : Bool := false
  started : Bool := false
  deriving DecidableEq

def kindOf : String → Option Kind
  | "lock" => some .lock | "trylock" => some .trylock | "unlock" => some .unlock
  | "rlock" => some .rlock | "tryrlock" => some .tryrlock | "runlock" => some .runlock
  | "clear" => some .clear | _ => none

/-- goroutines are created on demand: extend the goroutine lists (map component and phases) with idle goroutines -/
def pad (s : KS) (n : Nat) : KS :=
  { s with map := { s.map with pcs := s.map.pcs ++ List.replicate (n - s.map.pcs.length) .idle },
           phases := s.phases ++ List.replicate (n - s.phases.length) .idle }

/-- the label of the keyed mutex's own hook -/
def hookLabel (rw : Bool) : Kind → String
  | .lock => "lock"
  | .rlock => "rlock"
  | .trylock => if rw then "KeyedRWMutex.TryLockKey" else "KeyedMutex.TryLockKey"
  | .tryrlock => "KeyedRWMutex.TryRLockKey"
  | _ => "-"

def resStr : KeyedMutexConc.Res → String
  | .done => "done" | .tt => "true" | .ff => "false"

/-- one atomic action of the map call of goroutine `t` (`SyncMapConc.exec`); when the map call is about to return, the
keyed-mutex method continues (`KeyedMutexConc.contMap`) -/
def mapStep (s : KS) (t : Nat) (kind : Kind) (k : Int) (label : String) : Option KS :=
  let pc := s.map.pc t
  if pc.label != label then none else
  match exec s.map.sh t pc with
  | none => none
  | some (sh', pc') => some (contMap s t kind k (setPc s.map t sh' pc'))

def doStep (st : St) (t : Nat) (label : String) : Option KS :=
  match st.s.phase t with
  | .inMap kind k =>
    -- the scheduler's `op:<kind>` step is the start of the method: the map call's own start step
    let label := if label.startsWith "op:" then
        (if label == "op:clear" then "op:delete" else "op:loadorstore") else label
    mapStep st.s t kind k label
  | .atHook kind k m =>
    if hookLabel st.rw kind != label then none else hookStep st.s t kind k m
  | _ => none

def doInv (st : St) (t : Nat) (kind : Kind) (k : Int) : Option KS :=
  let s := pad st.s (t + 1)
  match s.phase t with
  | .idle => if invOk s t ⟨kind, k⟩ then some (invStep s t ⟨kind, k⟩) else none
  | _ => none

def doIter (st : St) (t : Nat) (k : Int) : Option KS :=
  match st.s.phase t with
  | .inMap kind k' =>
    match (picks (st.s.map.pc t)).find? (·.1 == k) with
    | some (_, pc') => some (contMap st.s t kind k' (setPc st.s.map t st.s.map.sh pc'))
    | none => none
  | _ => none

def doRes (st : St) (t : Nat) (r : String) : Option KS :=
  match st.s.phase t with
  | .ret r' => if r == resStr r' then some (st.s.setPhase t .idle) else none
  | _ => none

def at0 (st : St) (t : Nat) : String :=
  match st.s.phase t with
  | .inMap _ _ => s!"in-map-at:{(st.s.map.pc t).label}"
  | .atHook k _ _ => s!"at-hook:{hookLabel st.rw k}"
  | .ret r => s!"about-to-return:{resStr r}"
  | .idle => "idle"

def step (st : St) (toks : List Val) (_impl : String) : St × Out :=
  let ok (st : St) (tags : List String) : St × Out := (st, { model := "ok", tags := tags })
  match toks with
  | [.w "km", .i rw] => ok { rw := rw != 0, started := true } [if rw != 0 then "km.rw" else "km.plain"]
  | _ =>
    if st.dead || !st.started then ok st [] else
    let go (r : Option KS) (why : String) (tags : List String) : St × Out :=
      match r with
      | some s' => ok { st with s := s' } tags
      | none => ({ st with dead := true }, { model := s!"rejected:{why}", tags := tags })
    match toks with
    | [.w "inv", .i t, .w kd, .i k] =>
      match kindOf kd with
      | some kind => go (doInv st t.toNat kind k) s!"inv-while-busy-or-unlock-of-unheld:{at0 st t.toNat}" ["inv." ++ kd]
      | none => (st, { model := "bad-op" })
    | [.w "step", .i t, .w label] => go (doStep st t.toNat label) s!"step-{label}-but-model:{at0 st t.toNat}" ["step:" ++ label]
    | [.w "iter", .i t, .i k] => go (doIter st t.toNat k) s!"iter-key-not-pending:{at0 st t.toNat}" ["iter"]
    | [.w "res", .i t, .w r] =>
      if r.startsWith "panic:" then ({ st with dead := true }, { model := "rejected:panic-in-code-under-test", tags := ["panic"] })
      else go (doRes st t.toNat r) s!"res-{r}-but-model:{at0 st t.toNat}" ["res"]
    | [.w "deadlock"] => ({ st with dead := true }, { model := "ok", tags := ["deadlock"] })   -- programs may deadlock legitimately (lock order); judged by C09
    | [.w "steplimit"] => ({ st with dead := true }, { model := "rejected:steplimit", tags := ["steplimit"] })
    | _ => (st, { model := "bad-op" })

def judge : Judge := { σ := St, init := {}, step := step }

end TypVerif.Drv.C09conc
