import TypVerif.Drv.Proto
import TypVerif.Model.Sets
import TypVerif.Spec.FinSet
/-
Judge for C03 (PROTOCOL.md "C03 — sets").  Handles map to (model `AnySet Int`, specification finite set,
`exact` flag).  Kinds: 0 = maps.Set[int], 1 = *sync2.Set[int].

`exact` (concurrent sets only) says whether the model's internal layout is determined by the history.
The *membership* results never depend on Go's random map iteration order, but the read/dirty/misses layout
of a concurrent set does when it is the receiver of an `AddSet`/`RemoveSet`-style loop in which hits on
dirty-only keys (misses) compete with the growth/shrinkage of the dirty map (promotion fires at
`misses ≥ len(dirty)`).  The judge decides order-independence by trying all visiting orders when there are
at most 6 values, and by a conservative sufficient condition otherwise; for an inexact handle `layout` is
accepted as reported (tag `layout.inexact`).
-/
namespace TypVerif.Drv.C03
open TypVerif.Proto
open TypVerif
open TypVerif.Model.Sets
open TypVerif.Model.SyncMap (State alookup dirtyMap dirtyLen getP layout isExpunged isNil)

structure Ent where
  set : AnySet Int
  spec : List Int
  exact : Bool := true

structure St where
  tab : List (Nat × Ent) := []

def St.get (st : St) (h : Nat) : Option Ent := (st.tab.find? (·.1 == h)).map (·.2)
def St.put (st : St) (h : Nat) (e : Ent) : St :=
  { tab := (h, e) :: st.tab.filter (fun p => p.1 != h) }

def kindOf : AnySet Int → Nat
  | .mapSet _ => 0
  | .syncSet _ => 1

def sortI := Spec.FinSet.sortInts
def renderSorted (l : List Int) : String := (ofInts (sortI l)).render
def renderBool (b : Bool) : String := if b then "true" else "false"

/-! ### order-independence of layouts -/

def perms : List Int → List (List Int)
  | [] => [[]]
  | x :: xs => (perms xs).flatMap (fun p => (List.range (p.length + 1)).map (fun i => p.take i ++ [x] ++ p.drop i))

def pcode (m : State Int Unit) (e : Nat) : Int :=
  match getP m e with
  | .nil => 0
  | .expunged => 1
  | .val _ => 2

/-- the state up to the order of the association lists and the numbering of entries -/
def canon (m : State Int Unit) : List (Int × Int) × Bool × Option (List Int) × Nat :=
  (Spec.FinSet.sortPairs (m.read.map (fun p => (p.1, pcode m p.2))), m.amended,
   m.dirty.map (fun d => sortI (d.map Prod.fst)), m.misses)

def canonAny : AnySet Int → List (Int × Int) × Bool × Option (List Int) × Nat
  | .mapSet _ => ([], false, none, 0)
  | .syncSet m => canon m

def allSame {β : Type} [BEq β] : List β → Bool
  | [] => true
  | x :: xs => xs.all (· == x)

def dirtyOnly (m : State Int Unit) (v : Int) : Bool :=
  (alookup v m.read).isNone && (alookup v (dirtyMap m)).isSome

/-- is the layout after `addLoop recv vals` independent of the order of `vals`? -/
def addExact (recv : AnySet Int) (vals : List Int) : Bool :=
  match recv with
  | .mapSet _ => true
  | .syncSet m =>
    if vals.length ≤ 6 then allSame ((perms vals).map (fun p => canonAny (addLoop recv p 0).1))
    else
      let d := (vals.filter (dirtyOnly m)).length
      let grow := (vals.filter (fun v =>
        match alookup v m.read with
        | some e => isExpunged (getP m e)
        | none => (alookup v (dirtyMap m)).isNone)).length
      let dup := vals.eraseDups.length != vals.length
      !dup && (d == 0 || m.misses + d < dirtyLen m || grow == 0)

/-- is the layout after `removeLoop recv vals` independent of the order of `vals`? -/
def removeExact (recv : AnySet Int) (vals : List Int) : Bool :=
  match recv with
  | .mapSet _ => true
  | .syncSet m =>
    if vals.length ≤ 6 then allSame ((perms vals).map (fun p => canonAny (removeLoop recv p 0).1))
    else
      let c := (vals.filter (fun v => (alookup v m.read).isNone)).length
      let dOnly := (vals.filter (dirtyOnly m)).length
      !m.amended || c == 0 || m.misses + c + dOnly < dirtyLen m

/-! ### tags -/

def evTags (pre post : AnySet Int) : List String :=
  match pre, post with
  | .syncSet a, .syncSet b =>
    (if a.dirty.isSome && !b.dirty.isSome then ["ev.promote"] else []) ++
    (if !a.dirty.isSome && b.dirty.isSome then ["ev.dirtyLocked"] else []) ++
    (if b.fault then ["ev.FAULT"] else [])
  | _, _ => []

def layoutClass : AnySet Int → String
  | .mapSet _ => "map"
  | .syncSet m =>
    if m.amended then "sync.amended"
    else if (m.read.filter (fun p => isNil (getP m p.2))).length > 0 then "sync.clean.nil"
    else if m.read.isEmpty then "sync.zero" else "sync.clean"

def distinct : List Int → Bool
  | [] => true
  | x :: xs => !xs.contains x && distinct xs

def pairsOf (v : Val) : Option (List (Int × Int)) :=
  match v.intss? with
  | some rows => rows.mapM (fun r => match r with | [a, b] => some (a, b) | _ => none)
  | none => none

def renderPairs (l : List (Int × Int)) : String :=
  (Val.l ((Spec.FinSet.sortPairs l).map (fun p => Val.l [.i p.1, .i p.2]))).render

/-- build the receiver/argument pair for handles h and g -/
def mkTwo (st : St) (h g : Nat) : Option (Two Int × Ent × Ent) :=
  match st.get h, st.get g with
  | some a, some b => some ({ recv := a.set, arg := if h == g then none else some b.set }, a, b)
  | _, _ => none

/-- write the operands back -/
def putTwo (st : St) (h g : Nat) (a b : Ent) (t : Two Int) : St :=
  let st := st.put h { a with set := t.recv }
  match t.arg with
  | some s => st.put g { b with set := s }
  | none => st

def binTags (name : String) (h g : Nat) (a b : Ent) (t t' : Two Int) : List String :=
  [s!"{name}.{kindOf a.set}.{if h == g then "self" else toString (kindOf b.set)}",
   s!"{name}.recv.{layoutClass a.set}", s!"{name}.arg.{layoutClass b.set}"] ++
  evTags t.recv t'.recv ++ evTags t.argSet t'.argSet

def step (st : St) (toks : List Val) (impl : String) : St × Out :=
  match toks with
  | [.w "new", .i h, .i kind] =>
    -- kind 2 = the zero value of maps.Set (a nil map): behaves as the empty map-backed set for every non-mutating method
    -- (the generator never mutates it directly; `Add` on a nil map panics in Go)
    let k := if kind == 2 then 0 else kind.toNat
    (st.put h.toNat { set := AnySet.emptyOfKind k, spec := [] }, { model := "ok", spec := some "ok", tags := [s!"new.{kind}"] })
  | [.w "fromslice", .i h, .i kind, l] =>
    match l.ints? with
    | some xs =>
      (st.put h.toNat { set := fromSlice kind.toNat xs, spec := Spec.FinSet.ofList xs },
       { model := "ok", spec := some "ok", tags := [s!"fromslice.{kind}"] })
    | none => (st, { model := "bad-op" })
  | [.w "fromkeys", .i h, .i kind, l] =>
    match pairsOf l with
    | some ps =>
      (st.put h.toNat { set := fromKeys kind.toNat ps, spec := Spec.FinSet.ofList (ps.map Prod.fst) },
       { model := "ok", spec := some "ok", tags := [s!"fromkeys.{kind}"] })
    | none => (st, { model := "bad-op" })
  | [.w "fromvalues", .i h, .i kind, l] =>
    match pairsOf l with
    | some ps =>
      let vals := (goMapOf ps).map Prod.snd
      let ex := addExact (AnySet.emptyOfKind kind.toNat) vals
      (st.put h.toNat { set := fromValues kind.toNat ps, spec := Spec.FinSet.ofList vals, exact := ex },
       { model := "ok", spec := some "ok", tags := [s!"fromvalues.{kind}"] ++ (if ex then [] else ["inexact.fromvalues"]) })
    | none => (st, { model := "bad-op" })
  | [.w "add", .i h, .i v] =>
    match st.get h.toNat with
    | some a =>
      let r := add a.set v
      let s := Spec.FinSet.add a.spec v
      (st.put h.toNat { a with set := r.1, spec := s.1 },
       { model := renderBool r.2, spec := some (renderBool s.2),
         tags := [s!"add.{kindOf a.set}.{renderBool r.2}", s!"add.{layoutClass a.set}"] ++ evTags a.set r.1 })
    | none => (st, { model := "bad-op" })
  | [.w "remove", .i h, .i v] =>
    match st.get h.toNat with
    | some a =>
      let r := remove a.set v
      let s := Spec.FinSet.remove a.spec v
      (st.put h.toNat { a with set := r.1, spec := s.1 },
       { model := renderBool r.2, spec := some (renderBool s.2),
         tags := [s!"remove.{kindOf a.set}.{renderBool r.2}", s!"remove.{layoutClass a.set}"] ++ evTags a.set r.1 })
    | none => (st, { model := "bad-op" })
  | [.w "has", .i h, .i v] =>
    match st.get h.toNat with
    | some a =>
      let r := has a.set v
      (st.put h.toNat { a with set := r.1 },
       { model := renderBool r.2, spec := some (renderBool (Spec.FinSet.has a.spec v)),
         tags := [s!"has.{kindOf a.set}.{renderBool r.2}", s!"has.{layoutClass a.set}"] ++ evTags a.set r.1 })
    | none => (st, { model := "bad-op" })
  | [.w "len", .i h] =>
    match st.get h.toNat with
    | some a =>
      let r := len a.set
      (st.put h.toNat { a with set := r.1 },
       { model := toString r.2, spec := some (toString a.spec.length),
         tags := [s!"len.{layoutClass a.set}"] ++ evTags a.set r.1 })
    | none => (st, { model := "bad-op" })
  | [.w "slice", .i h] =>
    match st.get h.toNat with
    | some a =>
      let r := slice a.set
      (st.put h.toNat { a with set := r.1 },
       { model := renderSorted r.2, spec := some (renderSorted a.spec),
         tags := [s!"slice.{layoutClass a.set}"] ++ evTags a.set r.1 })
    | none => (st, { model := "bad-op" })
  | [.w "string", .i h] =>
    match st.get h.toNat with
    | some a =>
      let r := string a.set
      (st.put h.toNat { a with set := r.1 },
       { model := renderSorted r.2, spec := some (renderSorted a.spec),
         tags := [s!"string.{layoutClass a.set}"] ++ evTags a.set r.1 })
    | none => (st, { model := "bad-op" })
  | [.w "stringx", .i h] =>
    -- String() of the same set with string-typed members that look like list syntax (harness: `memberNames`): every member is
    -- enumerated exactly once, verbatim; the harness parses the rendering back to the members' indices
    match st.get h.toNat with
    | some a =>
      let r := string a.set
      (st.put h.toNat { a with set := r.1 },
       { model := renderSorted r.2, spec := some (renderSorted a.spec), tags := ["stringx"] })
    | none => (st, { model := "bad-op" })
  | [.w "clone", .i h, .i r] =>
    match st.get h.toNat with
    | some a =>
      let c := clone a.set
      let st := st.put h.toNat { a with set := c.1 }
      (st.put r.toNat { set := c.2, spec := a.spec },
       { model := "ok", spec := some "ok", tags := [s!"clone.{layoutClass a.set}"] ++ evTags a.set c.1 })
    | none => (st, { model := "bad-op" })
  | [.w "addset", .i h, .i g] =>
    match mkTwo st h.toNat g.toNat with
    | some (t, a, b) =>
      let r := addSet t
      let s := Spec.FinSet.addSet a.spec b.spec
      -- order-independence is judged on the receiver as it is when the callbacks start
      let pre := rangeAll t.argSet
      let ex := a.exact && addExact (t.putArg pre.1).recv pre.2
      let st := putTwo st h.toNat g.toNat { a with spec := s.1, exact := ex } b r.1
      (st, { model := toString r.2, spec := some (toString s.2),
             tags := binTags "addset" h.toNat g.toNat a b t r.1 ++ (if ex || !a.exact then [] else ["inexact.addset"]) })
    | none => (st, { model := "bad-op" })
  | [.w "removeset", .i h, .i g] =>
    match mkTwo st h.toNat g.toNat with
    | some (t, a, b) =>
      let r := removeSet t
      let s := Spec.FinSet.removeSet a.spec b.spec
      let pre := rangeAll t.argSet
      let ex := a.exact && removeExact (t.putArg pre.1).recv pre.2
      let st := putTwo st h.toNat g.toNat { a with spec := s.1, exact := ex } b r.1
      (st, { model := toString r.2, spec := some (toString s.2),
             tags := binTags "removeset" h.toNat g.toNat a b t r.1 ++ (if ex || !a.exact then [] else ["inexact.removeset"]) })
    | none => (st, { model := "bad-op" })
  | [.w "union", .i h, .i g, .i r] =>
    match mkTwo st h.toNat g.toNat with
    | some (t, a, b) =>
      let u := union t
      -- the result is the clone (all keys new) to which the argument's values are added
      let c := clone t.recv
      let ex := addExact c.2 (rangeAll ((t.putRecv c.1).argSet)).2
      let st := putTwo st h.toNat g.toNat a b u.1
      (st.put r.toNat { set := u.2, spec := Spec.FinSet.union a.spec b.spec, exact := ex },
       { model := "ok", spec := some "ok",
         tags := binTags "union" h.toNat g.toNat a b t u.1 ++ (if ex then [] else ["inexact.union"]) })
    | none => (st, { model := "bad-op" })
  | [.w "intersect", .i h, .i g, .i r] =>
    match mkTwo st h.toNat g.toNat with
    | some (t, a, b) =>
      let u := intersect t
      let st := putTwo st h.toNat g.toNat a b u.1
      (st.put r.toNat { set := u.2, spec := Spec.FinSet.inter a.spec b.spec },
       { model := "ok", spec := some "ok", tags := binTags "intersect" h.toNat g.toNat a b t u.1 })
    | none => (st, { model := "bad-op" })
  | [.w "setdiff", .i h, .i g, .i r] =>
    match mkTwo st h.toNat g.toNat with
    | some (t, a, b) =>
      let u := setDiff t
      let st := putTwo st h.toNat g.toNat a b u.1
      (st.put r.toNat { set := u.2, spec := Spec.FinSet.diff a.spec b.spec },
       { model := "ok", spec := some "ok", tags := binTags "setdiff" h.toNat g.toNat a b t u.1 })
    | none => (st, { model := "bad-op" })
  | [.w "symdiff", .i h, .i g, .i r] =>
    match mkTwo st h.toNat g.toNat with
    | some (t, a, b) =>
      let u := symDiff t
      let st := putTwo st h.toNat g.toNat a b u.1
      (st.put r.toNat { set := u.2, spec := Spec.FinSet.symDiff a.spec b.spec },
       { model := "ok", spec := some "ok", tags := binTags "symdiff" h.toNat g.toNat a b t u.1 })
    | none => (st, { model := "bad-op" })
  | [.w "range", .i h, .i k] =>
    match st.get h.toNat with
    | some a =>
      let r := rangeN a.set k
      let st' := st.put h.toNat { a with set := r.1 }
      let want := if k ≤ 0 then a.spec.length else min k.toNat a.spec.length
      let check (xs : List Int) : Option String :=
        if !distinct xs then some "range:duplicate"
        else if !xs.all (fun x => Spec.FinSet.has a.spec x) then some "range:non-member"
        else if xs.length != want then some s!"range:count-want-{want}" else none
      let tags := [s!"range.{layoutClass a.set}",
                   if k ≤ 0 then "range.all" else if k.toNat < a.spec.length then "range.stopped" else "range.k>=len"] ++ evTags a.set r.1
      match (parseTok impl).ints? with
      | none => (st', { model := "range:unparsable", spec := some "range:unparsable", tags := tags })
      | some xs =>
        match check xs with
        | some diag => (st', { model := diag, spec := some diag, tags := tags })
        | none =>
          match check r.2 with
          | none => (st', { model := impl, spec := some impl, tags := tags })
          | some diag => (st', { model := s!"model-{diag}", spec := some impl, tags := tags })
    | none => (st, { model := "bad-op" })
  | [.w "product", .i h, .i g] =>
    match mkTwo st h.toNat g.toNat with
    | some (t, a, b) =>
      let p := product t
      let st := putTwo st h.toNat g.toNat a b p.1
      (st, { model := renderPairs p.2, spec := some (renderPairs (Spec.FinSet.product a.spec b.spec)),
             tags := binTags "product" h.toNat g.toNat a b t p.1 })
    | none => (st, { model := "bad-op" })
  | [.w "layout", .i h] =>
    match st.get h.toNat with
    | some a =>
      match a.set with
      | .mapSet _ => (st, { model := "[]", tags := ["layout.map"] })
      | .syncSet m =>
        if a.exact then (st, { model := (ofInts (layout m)).render, tags := [s!"layout.{layoutClass a.set}"] })
        else (st, { model := impl, tags := ["layout.inexact"] })
    | none => (st, { model := "bad-op" })
  | [.w "age", .i h, l] =>
    match st.get h.toNat, l.ints? with
    | some a, some xs =>
      match a.set with
      | .mapSet _ => (st, { model := "ok", tags := ["age.map"] })
      | .syncSet _ =>
        let s' := xs.foldl (fun s x => if x ≥ 0 then (has s x).1 else s) a.set
        (st.put h.toNat { a with set := s' }, { model := "ok", tags := ["age.sync"] ++ evTags a.set s' })
    | _, _ => (st, { model := "bad-op" })
  | _ => (st, { model := "bad-op" })

def judge : Judge := { σ := St, init := {}, step := step }

end TypVerif.Drv.C03
