import TypVerif.Drv.Proto
import TypVerif.Model.Func
import TypVerif.Spec.Func
/-
Judge for C14 (PROTOCOL.md "C14 — functional helpers").

Callback families: acc(s,v) = 31*s+v+1 (unbounded Int; the harness keeps inputs small so that Go's int64 does not
overflow), predicate p[m,r](v) = (v % m == r), keyer k[m](v) = v % m, equals eq[m](a,b) = (a % m == b % m) for m > 0 and the NON-symmetric eq[0](a,b) = (2a == b) (Go `%`
= `Int.tmod`), converter c[j](v) = 2*v+1 erroring (error id j) at position j.  The converter is position sensitive:
it is modelled by converting the list of (position, value) pairs.

"Input after the call" tokens: the model is pure (inputs unchanged by construction), so the original input is
rendered there.  Trim results are windows of the input: `<contents> <offset>` (-1 when empty).
Map arguments are lists of `[k,v]` pairs with distinct keys; the model iterates them in the given order; results
that depend on the iteration order are sorted by the harness (`mclone`, `mkeys`, `mvalues`) or relational (`mkeyof`).
-/
namespace TypVerif.Drv.C14
open TypVerif.Proto
open TypVerif
open TypVerif.Model

def accF (s v : Int) : Int := 31 * s + v + 1
def predF (m r : Int) (v : Int) : Bool := v.tmod m == r
def keyF (m : Int) (v : Int) : Int := v.tmod m
def eqF (m : Int) (a b : Int) : Bool := if m == 0 then 2 * a == b else a.tmod m == b.tmod m
def convF (v : Int) : Int := 2 * v + 1
/-- the erroring converter on (position, value) -/
def convErrF (j : Int) (pv : Nat × Int) : Except Int Int :=
  if (pv.1 : Int) = j then .error j else .ok (convF pv.2)

def bad : Unit × Out := ((), { model := "bad-op" })
def sortInts (xs : List Int) : List Int := xs.mergeSort (fun a b => decide (a ≤ b))
def sortPairs (xs : List (Int × Int)) : List (Int × Int) := xs.mergeSort (fun a b => decide (a.1 ≤ b.1))
def pairVal (p : Int × Int) : Val := .l [.i p.1, .i p.2]
def pairsVal (ps : List (Int × Int)) : Val := .l (ps.map pairVal)
def groupVal (g : Int × List Int) : Val := .l [.i g.1, ofInts g.2]

def Val.pairs? (v : Val) : Option (List (Int × Int)) :=
  match v.intss? with
  | some xss => xss.mapM (fun xs => match xs with | [k, x] => some (k, x) | _ => none)
  | none => none

def exStr {γ : Type} (r : Except String γ) (f : γ → String) : String :=
  match r with
  | .ok x => f x
  | .error e => e

def renderWindow (s : List Int) (w : Nat × Nat) : String :=
  s!"{(ofInts (Func.window s w)).render} {if w.2 = 0 then (-1 : Int) else (w.1 : Int)}"

/-- `from_` = the list whose leading unwanted elements are dropped last (theorems `C14.trimLeftFunc`, `C14.trimFunc`) -/
def renderTrimSpec (from_ res : List Int) (p : Int → Bool) : String :=
  s!"{(ofInts res).render} {if res.isEmpty then (-1 : Int) else ((from_.takeWhile p).length : Int)}"

def mk (model : String) (spec : Option String) (tags : List String) : Unit × Out :=
  ((), { model := model, spec := spec, tags := tags })

/-- result followed by the (unchanged) input -/
def withIn (res : String) (inp : List Int) : String := s!"{res} {(ofInts inp).render}"

def lenTag (op : String) (s : List Int) : String := if s.isEmpty then s!"{op}.empty" else s!"{op}.nonempty"

def step (_ : Unit) (toks : List Val) (impl : String) : Unit × Out :=
  match toks with
  | [.w "fold", l, .i seed] =>
    match l.ints? with
    | some s => mk (withIn (toString (Func.fold s seed accF)) s) (some (withIn (toString (Spec.Func.fold s seed accF)) s)) [lenTag "fold" s]
    | none => bad
  | [.w "foldrev", l, .i seed] =>
    match l.ints? with
    | some s => mk (exStr (Func.foldReverse s seed accF) (fun r => withIn (toString r) s))
                  (some (withIn (toString (Spec.Func.foldReverse s seed accF)) s)) [lenTag "foldrev" s]
    | none => bad
  | [.w "exceptnan", l, ex] =>   -- Except / ExceptSet over float64 with 7 standing for NaN: `==` never holds for a NaN, so it is never excluded
    match l.ints?, ex.ints? with
    | some s, some e =>
      let r := (ofInts (s.filter (fun x => x == 7 || !(e.contains x)))).render
      mk r (some r) ["exceptnan"]
    | _, _ => bad
  | [.w "foldpanic", l, .i seed, .i k] =>   -- the accumulator panics on its k-th call: a panic when k ∈ 1..len, and the input untouched either way
    match l.ints? with
    | some s =>
      let r := if 1 ≤ k ∧ k ≤ (s.length : Int) then "panic:custom" else toString (Spec.Func.fold s seed accF)
      mk (withIn r s) (some (withIn r s)) ["foldpanic"]
    | none => bad
  | [.w "foldrevpanic", l, .i seed, .i k] =>
    match l.ints? with
    | some s =>
      let r := if 1 ≤ k ∧ k ≤ (s.length : Int) then "panic:custom" else toString (Spec.Func.foldReverse s seed accF)
      mk (withIn r s) (some (withIn r s)) ["foldrevpanic"]
    | none => bad
  | [.w "map", l] =>
    match l.ints? with
    | some s => mk (withIn (ofInts (Func.map s convF 0)).render s) (some (withIn (ofInts (Spec.Func.map s convF)).render s)) [lenTag "map" s]
    | none => bad
  | [.w "maperr", l, .i j] =>
    match l.ints? with
    | some s =>
      let ps := s.zipIdx.map (fun p => (p.2, p.1))
      let render := fun (r : Except Int (List Int)) => match r with
        | .ok xs => s!"{(ofInts xs).render} ok"
        | .error e => s!"[] err:{e}"
      mk (withIn (render (Func.mapErr ps (convErrF j) 0)) s) (some (withIn (render (Spec.Func.mapErr ps (convErrF j))) s))
        [if 0 ≤ j ∧ j < s.length then "maperr.err" else "maperr.ok"]
    | none => bad
  | [.w "filter", l, .i m, .i r] =>
    match l.ints? with
    | some s => mk (withIn (ofInts (Func.filter s (predF m r))).render s) (some (withIn (ofInts (Spec.Func.filter s (predF m r))).render s)) [lenTag "filter" s]
    | none => bad
  | [.w "any", l, .i m, .i r] =>
    match l.ints? with
    | some s => mk (withIn (ofBool (Func.any s (predF m r))).render s) (some (withIn (ofBool (Spec.Func.any s (predF m r))).render s))
                  [if Func.any s (predF m r) then "any.true" else "any.false"]
    | none => bad
  | [.w "all", l, .i m, .i r] =>
    match l.ints? with
    | some s => mk (withIn (ofBool (Func.all s (predF m r))).render s) (some (withIn (ofBool (Spec.Func.all s (predF m r))).render s))
                  [if Func.all s (predF m r) then "all.true" else "all.false"]
    | none => bad
  | [.w "indexfunc", l, .i m, .i r] =>
    match l.ints? with
    | some s => mk (withIn (toString (Func.indexFunc s (predF m r))) s) (some (withIn (toString (Spec.Func.indexFunc s (predF m r))) s))
                  [if Func.indexFunc s (predF m r) < 0 then "indexfunc.miss" else "indexfunc.hit"]
    | none => bad
  | [.w "index", l, .i v] =>
    match l.ints? with
    | some s => mk (withIn (toString (Func.index s v)) s) (some (withIn (toString (Spec.Func.index s v)) s))
                  [if Func.index s v < 0 then "index.miss" else "index.hit"]
    | none => bad
  | [.w "contains", l, .i v] =>
    match l.ints? with
    | some s => mk (withIn (ofBool (Func.contains s v)).render s) (some (withIn (ofBool (Spec.Func.contains s v)).render s))
                  [if Func.contains s v then "contains.true" else "contains.false"]
    | none => bad
  | [.w "containsfunc", l, .i v, .i m] =>
    match l.ints? with
    | some s => mk (withIn (ofBool (Func.containsFunc s v (eqF m))).render s) (some (withIn (ofBool (Spec.Func.containsFunc s v (eqF m))).render s))
                  [if Func.containsFunc s v (eqF m) then "containsfunc.true" else "containsfunc.false"]
    | none => bad
  | [.w "distinct", l] =>
    match l.ints? with
    | some s => mk (withIn (ofInts (Func.distinct s)).render s) (some (withIn (ofInts (Spec.Func.distinct s)).render s))
                  [if (Func.distinct s).length < s.length then "distinct.dups" else "distinct.nodups"]
    | none => bad
  | [.w "distinctfunc", l, .i m] =>
    match l.ints? with
    | some s => mk (withIn (ofInts (Func.distinctFunc s (eqF m))).render s) (some (withIn (ofInts (Spec.Func.distinctFunc (eqF m) s [])).render s))
                  [if (Func.distinctFunc s (eqF m)).length < s.length then "distinctfunc.dups" else "distinctfunc.nodups"]
    | none => bad
  | [.w "except", l, ex] =>
    match l.ints?, ex.ints? with
    | some s, some excl => mk (withIn (ofInts (Func.except s excl)).render s) (some (withIn (ofInts (Spec.Func.except s excl)).render s)) ["except"]
    | _, _ => bad
  | [.w "exceptset", l, ex] =>
    match l.ints?, ex.ints? with
    | some s, some excl =>
      -- the harness builds the set from the list; any duplicate-free enumeration of it is a valid model of the set
      mk (withIn (ofInts (Func.exceptSet s (Func.newSetFromSlice excl []))).render s) (some (withIn (ofInts (Spec.Func.except s excl)).render s)) ["exceptset"]
    | _, _ => bad
  | [.w "groupby", l, .i m] =>
    match l.ints? with
    | some s =>
      let g := Func.groupBy s (keyF m)
      mk (withIn (Val.l (g.map groupVal)).render s) (some (withIn (Val.l ((Spec.Func.groupBy s (keyF m)).map groupVal)).render s))
        [s!"groupby.groups={g.length}"]
    | none => bad
  | [.w "countby", l, .i m] =>
    match l.ints? with
    | some s =>
      mk (withIn (pairsVal (Func.countBy s (keyF m))).render s) (some (withIn (pairsVal (Spec.Func.countBy s (keyF m))).render s)) ["countby"]
    | none => bad
  | [.w "trim", l, u] =>
    match l.ints?, u.ints? with
    | some s, some un =>
      let p := fun v => Func.contains un v
      mk (exStr (Func.trim s un) (renderWindow s)) (some (renderTrimSpec (Spec.Func.trimRight s p) (Spec.Func.trim s p) p)) ["trim"]
    | _, _ => bad
  | [.w "trimleft", l, u] =>
    match l.ints?, u.ints? with
    | some s, some un =>
      let p := fun v => Func.contains un v
      mk (exStr (Func.trimLeft s un) (renderWindow s)) (some (renderTrimSpec s (Spec.Func.trimLeft s p) p)) ["trimleft"]
    | _, _ => bad
  | [.w "trimright", l, u] =>
    match l.ints?, u.ints? with
    | some s, some un =>
      let p := fun v => Func.contains un v
      let res := Spec.Func.trimRight s p
      mk (exStr (Func.trimRight s un) (renderWindow s)) (some s!"{(ofInts res).render} {if res.isEmpty then (-1 : Int) else 0}") ["trimright"]
    | _, _ => bad
  | [.w "trimfunc", l, .i m, .i r] =>
    match l.ints? with
    | some s =>
      let p := predF m r
      mk (exStr (Func.trimFunc s p) (renderWindow s)) (some (renderTrimSpec (Spec.Func.trimRight s p) (Spec.Func.trim s p) p)) ["trimfunc"]
    | none => bad
  | [.w "trimleftfunc", l, .i m, .i r] =>
    match l.ints? with
    | some s =>
      let p := predF m r
      mk (exStr (Func.trimLeftFunc s p) (renderWindow s)) (some (renderTrimSpec s (Spec.Func.trimLeft s p) p)) ["trimleftfunc"]
    | none => bad
  | [.w "trimrightfunc", l, .i m, .i r] =>
    match l.ints? with
    | some s =>
      let p := predF m r
      let res := Spec.Func.trimRight s p
      mk (exStr (Func.trimRightFunc s p) (renderWindow s)) (some s!"{(ofInts res).render} {if res.isEmpty then (-1 : Int) else 0}") ["trimrightfunc"]
    | none => bad
  | [.w "tryget", l, .i i] =>
    match l.ints? with
    | some s =>
      let sp := Spec.Func.tryGet s i 0
      mk (exStr (Func.tryGet s i 0) (fun r => s!"{r.1} {(ofBool r.2).render}")) (some s!"{sp.1} {(ofBool sp.2).render}")
        [if sp.2 then "tryget.in" else "tryget.out"]
    | none => bad
  | [.w "safeget", l, .i i] =>
    match l.ints? with
    | some s => mk (exStr (Func.safeGet s i 0) toString) (some (toString (Spec.Func.safeGetOr s i 0))) ["safeget"]
    | none => bad
  | [.w "safegetor", l, .i i, .i fb] =>
    match l.ints? with
    | some s => mk (exStr (Func.safeGetOr s i fb) toString) (some (toString (Spec.Func.safeGetOr s i fb))) ["safegetor"]
    | none => bad
  | [.w "last", l] =>
    match l.ints? with
    | some s =>
      mk (exStr (Func.last s) toString) (some (match Spec.Func.last s with | some v => toString v | none => "panic:bounds"))
        [lenTag "last" s]
    | none => bad
  | [.w "mclonenil"] =>
    -- Clone(nil) is a new, writable, empty map: after `c[1] = 2` it holds exactly that entry and the (nil) argument is still empty
    let c := Func.mclone ([] : List (Int × Int))
    mk s!"{(pairsVal (sortPairs (c ++ [(1, 2)]))).render} 0" (some "[[1,2]] 0") ["mclonenil"]
  | [.w "mclone", ps] =>
    match Val.pairs? ps with
    | some m =>
      let inp := (pairsVal (sortPairs m)).render
      mk s!"{(pairsVal (sortPairs (Func.mclone m))).render} {inp}" (some s!"{inp} {inp}") ["mclone"]
    | none => bad
  | [.w "mclear", ps] =>
    match Val.pairs? ps with
    | some m => mk (toString (Func.mclear m m).length) (some "0") ["mclear"]
    | none => bad
  | [.w "mkeys", ps] =>
    match Val.pairs? ps with
    | some m => mk (ofInts (sortInts (Func.keys m))).render (some (ofInts (sortInts (m.map (·.1)))).render) ["mkeys"]
    | none => bad
  | [.w "mvalues", ps] =>
    match Val.pairs? ps with
    | some m => mk (ofInts (sortInts (Func.values m))).render (some (ofInts (sortInts (m.map (·.2)))).render) ["mvalues"]
    | none => bad
  | [.w "mkeyof", ps, .i v] =>
    match Val.pairs? ps with
    | some m =>
      -- relational: any key mapping to v (or `0 false` when there is none)
      let exists_ := m.any (fun p => p.2 == v)
      let accepted :=
        match (impl.splitOn " ").map parseTok with
        | [.i k, .w "true"] => m.any (fun p => p.1 == k && p.2 == v)
        | [.i k, .w "false"] => !exists_ && k == 0
        | _ => false
      let modelStr := let r := Func.keyOf m v 0; s!"{r.1} {(ofBool r.2).render}"
      if accepted then mk impl (some impl) [if exists_ then "mkeyof.found" else "mkeyof.none"]
      else
        let diag := s!"relational:a-key-with-value-{v}-exists={exists_},model-order-gives:{modelStr.replace " " "_"}"
        mk diag (some diag) ["mkeyof.rejected"]
    | none => bad
  | [.w "mcontainsvalue", ps, .i v] =>
    match Val.pairs? ps with
    | some m => mk (ofBool (Func.containsValue m v)).render (some (ofBool (m.any (fun p => p.2 == v))).render) ["mcontainsvalue"]
    | none => bad
  | [.w "mhaskey", ps, .i k] =>
    match Val.pairs? ps with
    | some m => mk (ofBool (Func.hasKey m k)).render (some (ofBool (m.any (fun p => p.1 == k))).render) ["mhaskey"]
    | none => bad
  | _ => bad

def judge : Judge := { σ := Unit, init := (), step := step }

end TypVerif.Drv.C14
