import TypVerif.Drv.Proto
import TypVerif.Conc.Sys
import TypVerif.Model.Chan
import TypVerif.Model.ChanHelpers
import TypVerif.Model.RecvQueuedConc
/-
Judge for C19 (PROTOCOL.md §C19).  One line per call / scenario.

Queued receivers (exact; model = the loop model, spec = take/drop):
  recvqueued     <cap> <fill> <closed> <limit>   => <list> <remaining>
  recvqueuedfull <cap> <fill> <closed> <buflen>  => <n> <buf> <remaining>
    channel of capacity cap pre-filled with 1..fill (fill ≤ cap), closed iff closed ≠ 0; the caller's buffer
    is pre-filled with -7; remaining = what a non-blocking drain yields afterwards.

  recvqueuedconc <cap> <fill> <closed> <g> <limit> => <lists> <remaining>
    g goroutines call RecvQueued(ch, limit) at once (no sender); judged by the conservation predicate `Model.RecvQueuedConc.concVerdict`
    (sound for the model of the concurrent loops: C19.recvQueued_conc_predicate_sound).

Timed helpers (outcome sets; the helper sends 99; peers send 77):
  sendtimeout <cap> <fill> <tmo_ms> <peer>            => <bool> <peerGot> <remaining>
  sendcontext <cap> <fill> <ctx> <peer>               => <bool> <peerGot> <remaining>
  recvtimeout <cap> <fill> <closed> <tmo_ms> <peer>   => <v> <bool> <remaining>
  recvcontext <cap> <fill> <closed> <ctx> <peer>      => <v> <bool> <remaining>
    send side: peer 0 none, 1 one receiver takes one value at any time, 2 one receiver takes one value after the return.
    receive side: peer 1 (only on an open channel) one blocking sender of 77, completed by the final drain.
    ctx 0 never cancelled, 1 cancelled before the call, 2 cancelled during the call.
  The model side enumerates, by exhaustive exploration of `sendSys`/`recvSys` with the scenario's parameters
  (`Model.ChanHelpers.sendOutcomes`/`recvOutcomes`), the outcomes the model allows; the specification side is
  conservation evaluated on the implementation's outcome:
    send:    peerGot ++ remaining = 1..fill ++ (if result then [99] else [])   (99 exactly once iff true, nowhere iff
             false, FIFO), and peerGot has at most one element (none without a peer);
    receive: (if ok then [v] else []) ++ remaining = 1..fill ++ (77 if a peer sends), and v = 0 when not ok
             (a true receive took the head, a false receive consumed nothing, FIFO).
  Verdict encoding for the driver (which reports `int` whenever model ≠ spec are both present):
    accepted and conserved      model = impl, spec = impl                                   → ok
    rejected but conserved      model = rejected:not-in-{o1|o2|…}, spec = none              → corr
    not conserved, rejected     model = spec = violated:<what>;rejected:not-in-{…}          → cex
    not conserved but accepted  model = impl, spec = violated:<what>                        → int (contradicts C19.send_iff / recv_iff)
-/
namespace TypVerif.Drv.C19
open TypVerif.Proto
open TypVerif TypVerif.Model.Chan TypVerif.Model.ChanHelpers

def fuel : Nat := 64

def stopTag : Stop → String
  | .limit => "limit"
  | .closed => "closed"
  | .default => "default"
  | .fuel => "fuel"

def boolStr (b : Bool) : String := if b then "true" else "false"
def listStr (xs : List Int) : String := (ofInts xs).render

def renderSend (o : Bool × List Int × List Int) : String :=
  boolStr o.1 ++ " " ++ listStr o.2.1 ++ " " ++ listStr o.2.2

def renderRecv (o : Int × Bool × List Int) : String :=
  toString o.1 ++ " " ++ boolStr o.2.1 ++ " " ++ listStr o.2.2

def parseBool : Val → Option Bool
  | .w "true" => some true
  | .w "false" => some false
  | _ => none

def implToks (impl : String) : List Val := ((impl.splitOn " ").filter (· ≠ "")).map parseTok

/-- conservation on a send outcome; `none` = holds -/
def sendSpec (blocking : Bool) (fill peer : Nat) (r : Bool) (got rem : List Int) : Option String :=
  let all := got ++ rem
  -- "a non-positive timeout means wait without limit" (likewise a context that is never cancelled): such a call cannot give up
  if blocking ∧ r = false then some "gave-up-without-a-limit"
  else if all.count 99 ≠ (if r then 1 else 0) then
    some (if r then "true-but-99-not-exactly-once" else "false-but-99-present")
  else if all.filter (· ≠ 99) ≠ fillList fill then some "prefilled-lost-or-reordered"
  else if all ≠ fillList fill ++ (if r then [99] else []) then some "fifo"
  else if got.length > (if peer = 0 then 0 else 1) then some "peer-got-too-many"
  else none

/-- conservation on a receive outcome; `none` = holds -/
def recvSpec (blocking : Bool) (fill : Nat) (closed : Bool) (peer : Nat) (v : Int) (ok : Bool) (rem : List Int) : Option String :=
  let expected := fillList fill ++ (if peer = 1 ∧ closed = false then [77] else [])
  -- without a limit the only legitimate `false` is a closed and drained channel
  if blocking ∧ ok = false ∧ ¬ (closed = true ∧ fill = 0) then some "gave-up-without-a-limit"
  else if ok then
    if expected.head? ≠ some v then some "true-but-not-the-head"
    else if v :: rem ≠ expected then some "fifo"
    else none
  else
    if v ≠ 0 then some "false-with-nonzero-value"
    else if rem ≠ expected then some "false-but-consumed-or-invented"
    else none

/-- combine acceptance by the model's outcome set with the conservation verdict -/
def verdict (impl : String) (allowed : List String) (cons : Option String) (tags : List String) : Out :=
  let accepted := allowed.contains impl
  let rej := "rejected:not-in-{" ++ "|".intercalate allowed ++ "}"
  let tags := tags ++ [if allowed.isEmpty then "outcomes.none" else if allowed.length = 1 then "outcomes.forced" else "outcomes.choice"]
  match cons, accepted with
  | none, true => { model := impl, spec := some impl, tags := tags }
  | none, false => { model := rej, spec := none, tags := tags ++ ["rejected"] }
  | some what, false =>
    let d := "violated:" ++ what ++ ";" ++ rej
    { model := d, spec := some d, tags := tags ++ ["violated"] }
  | some what, true => { model := impl, spec := some ("violated:" ++ what), tags := tags ++ ["violated"] }

def natArgs (xs : List Int) : Option (List Nat) :=
  if xs.all (· ≥ 0) then some (xs.map Int.toNat) else none

def sendLine (op : String) (mode : Mode) (blocking : Bool) (cap fill peer : Nat) (impl : String) : Out :=
  if fill > cap ∨ peer > 2 then { model := "bad-op" } else
  let p := sendScenario mode cap fill peer
  let outs := sendOutcomes fuel p
  let allowed := outs.map renderSend
  let base := [op, op ++ (if blocking then ".nolimit" else ".limited"),
               op ++ (if cap = 0 then ".unbuffered" else if fill < cap then ".room" else ".full"),
               op ++ ".peer" ++ toString peer]
  match implToks impl with
  | [b, g, r] =>
    match parseBool b, g.ints?, r.ints? with
    | some rb, some got, some rem =>
      verdict impl allowed (sendSpec blocking fill peer rb got rem) (base ++ [op ++ "." ++ boolStr rb])
    | _, _, _ => verdict impl allowed (some "unparseable-result") base
  | _ => verdict impl allowed (some "unparseable-result") base

def recvLine (op : String) (mode : Mode) (blocking : Bool) (cap fill : Nat) (closed : Bool) (peer : Nat)
    (impl : String) : Out :=
  if fill > cap ∨ peer > 1 then { model := "bad-op" } else
  let p := recvScenario mode cap fill closed peer
  let outs := recvOutcomes fuel p
  let allowed := outs.map renderRecv
  let base := [op, op ++ (if blocking then ".nolimit" else ".limited"),
               op ++ (if fill > 0 then ".queued" else if closed then ".closed-drained" else ".empty"),
               op ++ ".peer" ++ toString peer]
  match implToks impl with
  | [v, b, r] =>
    match v.int?, parseBool b, r.ints? with
    | some vi, some ok, some rem =>
      verdict impl allowed (recvSpec blocking fill closed peer vi ok rem) (base ++ [op ++ "." ++ boolStr ok])
    | _, _, _ => verdict impl allowed (some "unparseable-result") base
  | _ => verdict impl allowed (some "unparseable-result") base

def step (_ : Unit) (toks : List Val) (impl : String) : Unit × Out :=
  match toks with
  | [.w "recvqueued", .i cap, .i fill, .i closed, .i limit] =>
    if cap < 0 ∨ fill < 0 ∨ fill > cap then ((), { model := "bad-op" }) else
    let buf := fillList fill.toNat
    let r := recvQueued (Chan.mk' cap.toNat buf (closed != 0)) limit
    let m := listStr r.buffer ++ " " ++ listStr r.ch.drain
    let sp := listStr (buf.take limit.toNat) ++ " " ++ listStr (buf.drop limit.toNat)
    ((), { model := m, spec := some sp,
           tags := ["recvqueued", "recvqueued." ++ stopTag r.stop] ++ (if limit ≤ 0 then ["recvqueued.nonpositive-limit"] else []) })
  | [.w "recvqueuedfull", .i cap, .i fill, .i closed, .i buflen] =>
    if cap < 0 ∨ fill < 0 ∨ fill > cap ∨ buflen < 0 then ((), { model := "bad-op" }) else
    let buf := fillList fill.toNat
    let cb : List Int := List.replicate buflen.toNat (-7)
    let r := recvQueuedFull (Chan.mk' cap.toNat buf (closed != 0)) cb
    let m := toString r.n ++ " " ++ listStr r.buf ++ " " ++ listStr r.ch.drain
    let n := min buf.length cb.length
    let sp := toString n ++ " " ++ listStr (buf.take n ++ cb.drop n) ++ " " ++ listStr (buf.drop n)
    ((), { model := m, spec := some sp, tags := ["recvqueuedfull", "recvqueuedfull." ++ stopTag r.stop] })
  | [.w "recvqueuedfullcap", .i cap, .i fill, .i closed, .i buflen, .i bufcap] =>
    -- as `recvqueuedfull`, the caller's buffer having spare capacity `bufcap - buflen` behind its length: untouched (-7)
    if cap < 0 ∨ fill < 0 ∨ fill > cap ∨ buflen < 0 ∨ bufcap < buflen then ((), { model := "bad-op" }) else
    let buf := fillList fill.toNat
    let cb : List Int := List.replicate buflen.toNat (-7)
    let spare : List Int := List.replicate (bufcap - buflen).toNat (-7)
    let r := recvQueuedFull (Chan.mk' cap.toNat buf (closed != 0)) cb
    let m := toString r.n ++ " " ++ listStr r.buf ++ " " ++ listStr spare ++ " " ++ listStr r.ch.drain
    let n := min buf.length cb.length
    let sp := toString n ++ " " ++ listStr (buf.take n ++ cb.drop n) ++ " " ++ listStr spare ++ " " ++ listStr (buf.drop n)
    ((), { model := m, spec := some sp, tags := ["recvqueuedfullcap", "recvqueuedfull." ++ stopTag r.stop] })
  | [.w "recvclose", .i _cap, .i _tmo, .i _rounds, .i _procs] =>
    -- RecvTimeout on an empty channel closed at about the moment its timer fires: "a closed channel counts as false" and the timeout gives
    -- false too, nothing was sent, so every round returns (0, false) whichever event wins (both branches of the model's select agree)
    ((), { model := "0 -", spec := some "0 -", tags := ["recvclose"] })
  | [.w "sendrace", .i _mode, .i _tmo, .i _rounds, .i _procs] =>
    -- SendTimeout whose hand-over and timer race: C19.send_iff — the result is true exactly when the value was handed over, for every
    -- resolution of the race, so no round may report a difference
    ((), { model := "0 -", spec := some "0 -", tags := ["sendrace"] })
  | [.w "recvqueuedconc", .i cap, .i fill, .i closed, .i g, .i limit] =>
    -- g concurrent RecvQueued calls on one channel holding 1..fill, no sender.  A channel hands its values out in FIFO order, each to
    -- exactly one receiver, and a receiver stops early only when it finds the channel empty (or closed and drained).  So the outcomes are
    -- exactly: every list strictly increasing, of length ≤ limit, values from 1..fill only (nothing invented, no zero value), no value
    -- twice, lists ++ remaining = a partition of 1..fill with `remaining` a suffix, and if some list is shorter than the limit nothing remains.
    if cap < 0 ∨ fill < 0 ∨ fill > cap ∨ g < 1 then ((), { model := "bad-op" }) else
    let verdict : Option String :=
      match implToks impl with
      | [ls, r] =>
        match ls.intss?, r.ints? with
        | some lists, some rem =>
          -- the predicate lives in Model/RecvQueuedConc.lean; C19.recvQueued_conc_predicate_sound: it accepts every final state of the
          -- transition system of g concurrent RecvQueued loops (all interleavings)
          Model.RecvQueuedConc.concVerdict fill.toNat g.toNat limit lists rem
        | _, _ => some "unparseable-result"
      | _ => some "unparseable-result"
    (match verdict with
     | none => ((), { model := impl, spec := some impl, tags := ["recvqueuedconc"] })
     | some w => ((), { model := "violated:" ++ w, spec := some ("violated:" ++ w), tags := ["recvqueuedconc", "violated"] }))
  | [.w "sendtimeout", .i cap, .i fill, .i tmo, .i peer] =>
    match natArgs [cap, fill, peer] with
    | some [c, f, pr] => ((), sendLine "sendtimeout" (.timeout tmo) (tmo ≤ 0) c f pr impl)
    | _ => ((), { model := "bad-op" })
  | [.w "sendcontext", .i cap, .i fill, .i ctx, .i peer] =>
    match natArgs [cap, fill, ctx, peer] with
    | some [c, f, cx, pr] =>
      if cx > 2 then ((), { model := "bad-op" })
      else ((), sendLine "sendcontext" (ctxMode cx) (cx = 0) c f pr impl)
    | _ => ((), { model := "bad-op" })
  | [.w "recvtimeout", .i cap, .i fill, .i closed, .i tmo, .i peer] =>
    match natArgs [cap, fill, peer] with
    | some [c, f, pr] => ((), recvLine "recvtimeout" (.timeout tmo) (tmo ≤ 0) c f (closed != 0) pr impl)
    | _ => ((), { model := "bad-op" })
  | [.w "recvcontext", .i cap, .i fill, .i closed, .i ctx, .i peer] =>
    match natArgs [cap, fill, ctx, peer] with
    | some [c, f, cx, pr] =>
      if cx > 2 then ((), { model := "bad-op" })
      else ((), recvLine "recvcontext" (ctxMode cx) (cx = 0) c f (closed != 0) pr impl)
    | _ => ((), { model := "bad-op" })
  | _ => ((), { model := "bad-op" })

def judge : Judge := { σ := Unit, init := (), step := step }

end TypVerif.Drv.C19
