import TypVerif.Drv.Proto
import TypVerif.Model.SortAdapters
import TypVerif.Spec.SortSpec
/-
Judge for C15 (sort / search / shuffle helpers of `slices/sort.go`).  Lines (PROTOCOL.md, C15); elements of the *func
variants are pairs `[key,tag]`, tag = original index, `less` compares keys only:
  sort <keys> / sortdesc <keys>               => <list>            exact (sorted integers are unique)
  sortfunc <keys> / sortdescfunc <keys>       => <list of [k,t]>   relational: permutation of the tagged input, keys ordered
  sortstable <keys> / sortstabledesc <keys>   => <list of [k,t]>   exact: the stable sort of the tagged list
  bsearch <sortedlist> <v>                    => <int>             exact (spec only when the list is ascending)
  bsearchfunc <sortedlist> <v>                => <int>             less(a) = a < v
  shuffle <list>                              => <list>            relational: permutation
  shufflerand <list> <seed>                   => <list> <swaps>    the model applies the recorded swaps `[i,j]` in order to the
                                                                   input and must reproduce <list>; spec: permutation
`model` is the adapter model run with the reference library sort `refSort` (proved to meet the contracts);
`spec` is `Spec/SortSpec.lean`.
-/
namespace TypVerif.Drv.C15
open TypVerif.Proto
open TypVerif TypVerif.Model.SortAdapters

def pairVal (p : Int × Int) : Val := .l [.i p.1, .i p.2]
def pairsVal (ps : List (Int × Int)) : Val := .l (ps.map pairVal)

def toPairs? (v : Val) : Option (List (Int × Int)) :=
  match v.intss? with
  | some xss => xss.mapM (fun xs => match xs with | [a, b] => some (a, b) | _ => none)
  | none => none

abbrev keyLess := Spec.SortSpec.keyLess

def sizeTag (n : Nat) : String :=
  if n == 0 then "n=0" else if n == 1 then "n=1" else if n ≤ 12 then "n≤12" else "n>12"

def hasDup (l : List Int) : Bool := decide ((Spec.SortSpec.sortAsc l).eraseDups.length < l.length)

/-- relational verdict: `ok` ⇒ echo the implementation's string, else a diagnostic on both sides -/
def relational (ok : Bool) (impl diag : String) (tags : List String) : Out :=
  if ok then { model := impl, spec := some impl, tags := tags }
  else { model := diag, spec := some diag, tags := tags }

def toNatPairs? (v : Val) : Option (List (Nat × Nat)) :=
  match toPairs? v with
  | some ps => if ps.all (fun p => decide (0 ≤ p.1 ∧ 0 ≤ p.2)) then some (ps.map (fun p => (p.1.toNat, p.2.toNat))) else none
  | none => none

/-- is the swap stream of Fisher–Yates shape: i = n-1, n-2, …, 1 and 0 ≤ j ≤ i -/
def fyShape (n : Nat) (sw : List (Nat × Nat)) : Bool :=
  sw.map (·.1) == (List.range' 1 (n - 1)).reverse && sw.all (fun p => decide (p.2 ≤ p.1))

def step (_ : Unit) (toks : List Val) (impl : String) : Unit × Out :=
  match toks with
  | [.w "sort", l] =>
    match l.ints? with
    | some keys =>
      let m := sort refSort keys
      ((), { model := (ofInts m).render, spec := some (ofInts (Spec.SortSpec.sortAsc keys)).render,
             tags := ["sort", "sort." ++ sizeTag keys.length, if hasDup keys then "sort.dups" else "sort.nodups"] })
    | none => ((), { model := "bad-op" })
  | [.w "sortdesc", l] =>
    match l.ints? with
    | some keys =>
      let m := sortDesc refSort keys
      ((), { model := (ofInts m).render, spec := some (ofInts (Spec.SortSpec.sortDesc keys)).render,
             tags := ["sortdesc", "sortdesc." ++ sizeTag keys.length] })
    | none => ((), { model := "bad-op" })
  | [.w "sortfunc", l] =>
    match l.ints? with
    | some keys =>
      let input := Spec.SortSpec.tagged keys
      let m := (pairsVal (sortFunc refSort input keyLess)).render
      match toPairs? (parseTok impl) with
      | some got =>
        let permOk := Spec.SortSpec.isPermPairs got input
        let ordOk := Spec.SortSpec.keysAsc got
        ((), relational (permOk && ordOk) impl s!"violation(perm={permOk},ascending={ordOk})"
          ["sortfunc", "sortfunc." ++ sizeTag keys.length, if impl == m then "sortfunc.asmodel" else "sortfunc.unstable"])
      | none => ((), { model := m, spec := some m, tags := ["sortfunc.unparsed"] })
    | none => ((), { model := "bad-op" })
  | [.w "sortdescfunc", l] =>
    match l.ints? with
    | some keys =>
      let input := Spec.SortSpec.tagged keys
      let m := (pairsVal (sortDescFunc refSort input keyLess)).render
      match toPairs? (parseTok impl) with
      | some got =>
        let permOk := Spec.SortSpec.isPermPairs got input
        let ordOk := Spec.SortSpec.keysDesc got
        ((), relational (permOk && ordOk) impl s!"violation(perm={permOk},descending={ordOk})"
          ["sortdescfunc", "sortdescfunc." ++ sizeTag keys.length, if impl == m then "sortdescfunc.asmodel" else "sortdescfunc.unstable"])
      | none => ((), { model := m, spec := some m, tags := ["sortdescfunc.unparsed"] })
    | none => ((), { model := "bad-op" })
  | [.w "sortstable", l] =>
    match l.ints? with
    | some keys =>
      let input := Spec.SortSpec.tagged keys
      let m := sortStableFunc refSort input keyLess
      ((), { model := (pairsVal m).render, spec := some (pairsVal (Spec.SortSpec.stableAsc input)).render,
             tags := ["sortstable", "sortstable." ++ sizeTag keys.length, if hasDup keys then "sortstable.ties" else "sortstable.noties"] })
    | none => ((), { model := "bad-op" })
  | [.w "sortstabledesc", l] =>
    match l.ints? with
    | some keys =>
      let input := Spec.SortSpec.tagged keys
      let m := sortStableDescFunc refSort input keyLess
      ((), { model := (pairsVal m).render, spec := some (pairsVal (Spec.SortSpec.stableDesc input)).render,
             tags := ["sortstabledesc", "sortstabledesc." ++ sizeTag keys.length, if hasDup keys then "sortstabledesc.ties" else "sortstabledesc.noties"] })
    | none => ((), { model := "bad-op" })
  | [.w "bsearch", l, .i v] =>
    match l.ints? with
    | some s =>
      let m := binarySearch s v
      let asc := Spec.SortSpec.ascending s
      let tag := if s.contains v then "bsearch.present" else if m == s.length then "bsearch.end" else "bsearch.absent"
      ((), { model := toString m, spec := if asc then some (toString (Spec.SortSpec.lowerBound s v)) else none,
             tags := [tag, if asc then "bsearch.ascending" else "bsearch.unsorted"] })
    | none => ((), { model := "bad-op" })
  | [.w "bsearchunits", .i n, .i all] =>
    -- n zero-size elements (all equal, hence ascending); `less` is constantly `all`: the lower bound is n if everything is "less", else 0
    let m := TypVerif.Model.GoSearch.search n.toNat (fun _ => all == 0)
    ((), { model := toString m, spec := some (toString (if all != 0 then n else 0)), tags := ["bsearchunits"] })
  | [.w "bsearchfunc", l, .i v] =>
    match l.ints? with
    | some s =>
      let m := binarySearchFunc s (fun a => decide (a < v))
      let asc := Spec.SortSpec.ascending s
      let tag := if s.contains v then "bsearchfunc.present" else if m == s.length then "bsearchfunc.end" else "bsearchfunc.absent"
      ((), { model := toString m, spec := if asc then some (toString (Spec.SortSpec.lowerBound s v)) else none,
             tags := [tag, if asc then "bsearchfunc.ascending" else "bsearchfunc.unsorted"] })
    | none => ((), { model := "bad-op" })
  | [.w "shuffle", l] =>
    match l.ints?, (parseTok impl).ints? with
    | some s, some got =>
      let ok := Spec.SortSpec.isPermInts got s
      ((), relational ok impl "violation(perm=false)" ["shuffle", if got == s then "shuffle.identity" else "shuffle.moved"])
    | some _, none => ((), { model := "unparsed-result", spec := some "unparsed-result" })
    | _, _ => ((), { model := "bad-op" })
  | [.w "shufflerand", l, .i _seed] =>
    match l.ints? with
    | some s =>
      match (impl.splitOn " ").filter (· ≠ "") with
      | [resTok, swapsTok] =>
        match (parseTok resTok).ints?, toNatPairs? (parseTok swapsTok) with
        | some got, some sw =>
          -- model: ShuffleRand is the recorded swap stream applied to the input
          let m := applySwaps s sw
          let modelStr := (ofInts m).render ++ " " ++ swapsTok
          let permOk := Spec.SortSpec.isPermInts got s
          let tags := ["shufflerand", if fyShape s.length sw then "shufflerand.fisher-yates" else "shufflerand.other-shape"]
          if !permOk then ((), relational false impl "violation(perm=false)" tags)
          else if modelStr == impl then ((), { model := modelStr, spec := some impl, tags := tags })
          else ((), { model := modelStr, spec := none, tags := tags })   -- a permutation, but not the recorded swaps applied
        | _, _ => ((), { model := "unparsed-result", spec := some "unparsed-result" })
      | _ => ((), { model := "unparsed-result", spec := some "unparsed-result" })
    | none => ((), { model := "bad-op" })
  | _ => ((), { model := "bad-op" })

def judge : Judge := { σ := Unit, init := (), step := step }

end TypVerif.Drv.C15
