import TypVerif.Drv.Proto
import TypVerif.Model.Math
import TypVerif.Spec.Math
/-
Judge for C20 (math.go, util.go).  Type ids: i8 i16 i32 i64 u8 u16 u32 u64.  Values cross the pipe as mathematical
integers; the model computes on `BitVec w` (`BitVec.ofInt`), the specification on the mathematical integers.
  digits10 <ty> <v> | digitssign10 <ty> <v> => <int>        abs <ty> <v> => <v>
  min <ty> <list> | max <ty> <list> => <v> | panic:custom   clamp <ty> <v> <lo> <hi> => <v>    clamp01 <ty> <v> => <v>
  sum <ty> <list> | product <ty> <list> => <v>  (ty = f64: operands/result are IEEE-754 bit patterns as int64, NaN = nan)              compare <ty> <a> <b> => <int>      less <ty> <a> <b> => <bool>
  coal <list> => <v>      iszero <v> => <bool>      tern <0/1> <a> <b> => <v>
  zero | zeroof <v> | iszerom <a> (type with IsZero method) | terncast <c> <kind> <v> <b> | isnil <kind> | ref <v> | derefzero <isnil> <v>
The specification is silent (`none`) where the property is: Abs of a signed minimum, Clamp with lo > hi, Min/Max of
nothing, and arguments outside the value range of the type.
-/
namespace TypVerif.Drv.C20
open TypVerif.Proto
open TypVerif

def parseTy (s : String) : Option (Bool × Nat) :=
  match s with
  | "i8" => some (true, 8) | "i16" => some (true, 16) | "i32" => some (true, 32) | "i64" => some (true, 64)
  | "u8" => some (false, 8) | "u16" => some (false, 16) | "u32" => some (false, 32) | "u64" => some (false, 64)
  | _ => none

def tyMin (sg : Bool) (w : Nat) : Int := if sg then -(2 ^ (w - 1) : Int) else 0
def tyMax (sg : Bool) (w : Nat) : Int := if sg then (2 ^ (w - 1) : Int) - 1 else (2 ^ w : Int) - 1
def inRange (sg : Bool) (w : Nat) (i : Int) : Bool := decide (tyMin sg w ≤ i) && decide (i ≤ tyMax sg w)

def boundaryTag (sg : Bool) (w : Nat) (i : Int) : String :=
  if i = tyMin sg w then (if sg then "val.min" else "val.zero")
  else if i = tyMax sg w then "val.max"
  else if i = 0 then "val.zero"
  else if i < 0 then "val.neg" else "val.pos"

def bad : Out := { model := "bad-op" }

/-- left fold of a float64 operation over operands given as bit patterns; the result as a (signed) bit pattern, NaN as `nan` -/
def floatFold (f : Float → Float → Float) (init : Float) (bits : List Int) : String :=
  let r := bits.foldl (fun acc b => f acc (Float.ofBits (UInt64.ofInt b))) init
  if r.isNaN then "nan" else toString (Int64.ofNat r.toBits.toNat).toInt

def specIf (c : Bool) (s : String) : Option String := if c then some s else none

def step (_ : Unit) (toks : List Val) (_impl : String) : Unit × Out :=
  match toks with
  | [.w "digits10", .w ty, .i i] =>
    match parseTy ty with
    | none => ((), bad)
    | some (sg, w) =>
      let v : BitVec w := Model.Math.ofInt w i
      ((), { model := toString (Model.Math.digits10 sg v),
             spec := specIf (inRange sg w i) (toString (Spec.Math.digits10 i)),
             tags := ["digits10." ++ ty, boundaryTag sg w i] })
  | [.w "digitssign10", .w ty, .i i] =>
    match parseTy ty with
    | none => ((), bad)
    | some (sg, w) =>
      let v : BitVec w := Model.Math.ofInt w i
      ((), { model := toString (Model.Math.digitsSign10 sg v),
             spec := specIf (inRange sg w i) (toString (Spec.Math.digitsSign10 i)),
             tags := ["digitssign10." ++ ty, boundaryTag sg w i] })
  | [.w "abs", .w ty, .i i] =>
    match parseTy ty with
    | none => ((), bad)
    | some (sg, w) =>
      let v : BitVec w := Model.Math.ofInt w i
      ((), { model := toString (Model.Math.toInt sg (Model.Math.abs sg v)),
             spec := specIf (inRange sg w i && !(sg && i == tyMin sg w)) (toString (Spec.Math.abs i)),
             tags := ["abs." ++ ty, boundaryTag sg w i] })
  | [.w "min", .w ty, l] =>
    match parseTy ty, l.ints? with
    | some (sg, w), some is =>
      let vs : List (BitVec w) := is.map (Model.Math.ofInt w)
      let m := match Model.Math.min (Model.Math.lt sg) vs with
        | .ok r => toString (Model.Math.toInt sg r)
        | .error e => e
      ((), { model := m,
             spec := match Spec.Math.minOf is with
               | some r => specIf (is.all (inRange sg w)) (toString r)
               | none => none,
             tags := ["min." ++ ty, if is.length = 0 then "min.empty" else if is.length = 1 then "min.one" else "min.many"] })
    | _, _ => ((), bad)
  | [.w "max", .w ty, l] =>
    match parseTy ty, l.ints? with
    | some (sg, w), some is =>
      let vs : List (BitVec w) := is.map (Model.Math.ofInt w)
      let m := match Model.Math.max (Model.Math.lt sg) vs with
        | .ok r => toString (Model.Math.toInt sg r)
        | .error e => e
      ((), { model := m,
             spec := match Spec.Math.maxOf is with
               | some r => specIf (is.all (inRange sg w)) (toString r)
               | none => none,
             tags := ["max." ++ ty, if is.length = 0 then "max.empty" else if is.length = 1 then "max.one" else "max.many"] })
    | _, _ => ((), bad)
  | [.w "clamp", .w ty, .i i, .i lo, .i hi] =>
    match parseTy ty with
    | none => ((), bad)
    | some (sg, w) =>
      let r := Model.Math.clamp sg (Model.Math.ofInt w i) (Model.Math.ofInt w lo) (Model.Math.ofInt w hi)
      ((), { model := toString (Model.Math.toInt sg r),
             spec := specIf (inRange sg w i && inRange sg w lo && inRange sg w hi && decide (lo ≤ hi)) (toString (Spec.Math.clamp i lo hi)),
             tags := ["clamp." ++ ty,
               if lo > hi then "clamp.inverted" else if i < lo then "clamp.below" else if hi < i then "clamp.above" else "clamp.inside"] })
  | [.w "clamp01", .w ty, .i i] =>
    match parseTy ty with
    | none => ((), bad)
    | some (sg, w) =>
      let r := Model.Math.clamp01 sg (Model.Math.ofInt w i)
      ((), { model := toString (Model.Math.toInt sg r),
             spec := specIf (inRange sg w i) (toString (Spec.Math.clamp01 i)),
             tags := ["clamp01." ++ ty, if i < 0 then "clamp01.below" else if 1 < i then "clamp01.above" else "clamp01.inside"] })
  | [.w "sum", .w "f64", l] =>
    -- float64: operands and result are IEEE-754 bit patterns; the reference definition is the left-to-right fold of `+` from 0
    match l.ints? with
    | some is => let r := floatFold (· + ·) 0.0 is; ((), { model := r, spec := some r, tags := ["sum.f64", if is.length ≥ 4 then "sum.f64.long" else "sum.f64.short"] })
    | none => ((), bad)
  | [.w "product", .w "f64", l] =>
    match l.ints? with
    | some is => let r := floatFold (· * ·) 1.0 is; ((), { model := r, spec := some r, tags := ["product.f64"] })
    | none => ((), bad)
  | [.w "sum", .w ty, l] =>
    match parseTy ty, l.ints? with
    | some (sg, w), some is =>
      let vs : List (BitVec w) := is.map (Model.Math.ofInt w)
      let exact := is.foldl (· + ·) 0
      ((), { model := toString (Model.Math.toInt sg (Model.Math.sum vs)),
             spec := specIf (is.all (inRange sg w)) (toString (Spec.Math.sum sg w is)),
             tags := ["sum." ++ ty, if is.length = 0 then "sum.empty" else if inRange sg w exact then "sum.exact" else "sum.wraps"] })
    | _, _ => ((), bad)
  | [.w "product", .w ty, l] =>
    match parseTy ty, l.ints? with
    | some (sg, w), some is =>
      let vs : List (BitVec w) := is.map (Model.Math.ofInt w)
      let exact := is.foldl (· * ·) 1
      ((), { model := toString (Model.Math.toInt sg (Model.Math.product vs)),
             spec := specIf (is.all (inRange sg w)) (toString (Spec.Math.product sg w is)),
             tags := ["product." ++ ty, if is.length = 0 then "product.empty" else if inRange sg w exact then "product.exact" else "product.wraps"] })
    | _, _ => ((), bad)
  | [.w "compare", .w ty, .i a, .i b] =>
    match parseTy ty with
    | none => ((), bad)
    | some (sg, w) =>
      ((), { model := toString (Model.Math.compare sg (Model.Math.ofInt w a) (Model.Math.ofInt w b)),
             spec := specIf (inRange sg w a && inRange sg w b) (toString (Spec.Math.compare a b)),
             tags := ["compare." ++ ty, if a < b then "cmp.lt" else if a = b then "cmp.eq" else "cmp.gt"] })
  | [.w "less", .w ty, .i a, .i b] =>
    match parseTy ty with
    | none => ((), bad)
    | some (sg, w) =>
      ((), { model := (ofBool (Model.Math.less sg (Model.Math.ofInt w a) (Model.Math.ofInt w b))).render,
             spec := specIf (inRange sg w a && inRange sg w b) (ofBool (Spec.Math.less a b)).render,
             tags := ["less." ++ ty, if a < b then "cmp.lt" else if a = b then "cmp.eq" else "cmp.gt"] })
  | [.w "coal", l] =>
    match l.ints? with
    | some is =>
      ((), { model := toString (Model.Math.coal (0 : Int) is), spec := some (toString (Spec.Math.coal is)),
             tags := [if is.all (· == 0) then "coal.allzero" else if is.head? == some 0 then "coal.skips" else "coal.first"] })
    | none => ((), bad)
  | [.w "coalm", l] =>   -- Coal over struct types that carry an IsZero method: still the first argument different from the Go zero value
    match l.ints? with
    | some is =>
      ((), { model := toString (Model.Math.coal (0 : Int) is), spec := some (toString (Spec.Math.coal is)), tags := ["coalm"] })
    | none => ((), bad)
  | [.w "iszero", .i v] =>
    -- Go `int` has no IsZero method: the type assertion fails
    ((), { model := (ofBool (Model.Math.isZero (0 : Int) none v)).render, spec := some (ofBool (v == 0)).render,
           tags := [if v = 0 then "iszero.true" else "iszero.false"] })
  | [.w "tern", .i c, .i a, .i b] =>
    ((), { model := toString (Model.Math.tern (c != 0) a b), spec := some (toString (if c != 0 then a else b)),
           tags := [if c != 0 then "tern.true" else "tern.false"] })
  | [.w "zero"] => ((), { model := toString (Model.Math.zero (0 : Int)), spec := some "0", tags := ["zero"] })
  | [.w "zeroof", .i v] => ((), { model := toString (Model.Math.zeroOf (0 : Int) v), spec := some "0", tags := ["zeroof"] })
  | [.w "iszerom", .i a] =>
    -- the type has an IsZero method (even fields): honoured when the value is not the zero value
    let m := Model.Math.isZero (0 : Int) (some (fun x => x % 2 == 0)) a
    ((), { model := (ofBool m).render, spec := some (ofBool (a == 0 || a % 2 == 0)).render,
           tags := [if a = 0 then "iszerom.zero" else if a % 2 == 0 then "iszerom.method-true" else "iszerom.method-false"] })
  | [.w "iszeros", .i a] =>
    -- the method says "zero" for the sentinel 7 only; the Go zero value is zero by the `value == zero` test, which comes first
    let m := Model.Math.isZero (0 : Int) (some (fun x => x == 7)) a
    ((), { model := (ofBool m).render, spec := some (ofBool (a == 0 || a == 7)).render,
           tags := [if a = 0 then "iszeros.zero" else if a = 7 then "iszeros.sentinel" else "iszeros.other"] })
  | [.w "terncast", .i c, .i kind, .i v, .i b] =>
    -- kind 0: the dynamic type of `value` is int (assertion succeeds); kind 1: it is a string (assertion panics when evaluated)
    let value : Option Int := if kind == 0 then some v else none
    let r := match Model.Math.ternCast (c != 0) value b with | .ok x => toString x | .error e => e
    let sp := if c != 0 then (if kind == 0 then toString v else "panic:other") else toString b
    ((), { model := r, spec := some sp, tags := [if c != 0 then (if kind == 0 then "terncast.cast" else "terncast.panic") else "terncast.else"] })
  | [.w "isnil", .i kind] =>
    -- interface-typed value: holds no dynamic type (kinds 0, 2) or some dynamic type (all others, typed nil pointers/slices included)
    let dyn : Option Int := if kind == 0 || kind == 2 then none else some kind
    ((), { model := (ofBool (Model.Math.isNil dyn)).render, spec := some (ofBool (kind == 0 || kind == 2)).render,
           tags := [s!"isnil.{kind}"] })
  | [.w "ref", .i v] =>
    -- *Ref(v) = v, and the pointer is to a copy: the argument is unchanged by a write through it
    let r := Model.Math.derefZero (0 : Int) (Model.Math.ref v)
    ((), { model := s!"{r} {v}", spec := some s!"{v} {v}", tags := ["ref"] })
  | [.w "derefzero", .i isnil, .i v] =>
    let p : Option Int := if isnil != 0 then none else some v
    ((), { model := toString (Model.Math.derefZero (0 : Int) p), spec := some (toString (if isnil != 0 then 0 else v)),
           tags := [if isnil != 0 then "derefzero.nil" else "derefzero.ptr"] })
  | _ => ((), bad)

def judge : Judge := { σ := Unit, init := (), step := step }

end TypVerif.Drv.C20
