import TypVerif.Drv.C01
/-
Judge for C02: the machinery of `Drv/C01.lean` in C02 mode (see the header there).
  add/remove/contains : model = first token AND the exact comparator-call count of the counting model
                        (`Tree.AddC/RemoveC/ContainsC`); spec = predicate `cmpcalls ≤ height + 1` (C02.cost)
  shape               : model = the model tree's shape `[v,h,L,R]`/`[]` rendered exactly;
                        spec = predicate on the implementation's own shape string (parsed with `parseTok`):
                        `AVL` (cached heights = true heights with nil = -1, |hl − hr| ≤ 1 at every node)
                        and `2^(10000·height) ≤ (n+2)^14405` (depth ≤ 1.4405·log2(n+2))
  everything else     : model only.
Tags: which rotation case fired in add / remove / popLeftMost (`add.reb.rotateLeft`, `remove.reb.rotateRightLeft`,
`pop.reb.none`, …), the remove case (`remove.leaf`, `remove.left-only`, `remove.right-only`, `remove.two-children`,
`remove.absent`), `add.equal-goes-right`, `remove.fallthrough-right`, `shape.height<k>`.
-/
namespace TypVerif.Drv.C02
open TypVerif.Proto

def judge : Judge := { σ := TypVerif.Drv.C01.St, init := [], step := TypVerif.Drv.C01.step true }

end TypVerif.Drv.C02
