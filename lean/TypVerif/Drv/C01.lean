import TypVerif.Drv.Proto
import TypVerif.Model.Avl
import TypVerif.Spec.Avl
/-
Judge for C01 (and, with `c02 := true`, the shared machinery of the C02 judge).  Lines (PROTOCOL.md "C01 / C02 — avl"):

  new h cmp => ok                 add h v => ok <cmpcalls>        remove h v => <bool> <cmpcalls>
  contains h v => <bool> <cmpcalls>     len h => <int>     clear h => ok     clone h h2 => ok | panic:*
  pre|in|post h => <list>         wpre|win|wpost h => <list>      string h => <list>      shape h => nested list

C01 mode: the first result token is compared with the model (`Model.Avl.Tree`) and with the specification (sorted
list, `Spec.Avl.STree`); the cmpcalls token of the implementation is copied verbatim.  `in/win/string` are
functional (spec = the sorted list).  `pre/wpre`: model = SlicePreOrder; spec = predicate "a permutation of the
abstract multiset".  `post/wpost`: model = SlicePostOrder; spec = predicate "∃ binary tree whose pre-, in-, post-order
are the last pre, in, post results of this handle" (backtracking reconstruction, ≤ 64 nodes and a step budget,
otherwise the predicate is skipped and only the permutation predicate is used; any mutation of the handle forgets the
recorded observations).  `shape`: not judged in C01 (model := impl).

C02 mode: add/remove/contains compare the full string (cmpcalls included) with the counting model; their spec is
the predicate `cmpcalls ≤ height + 1` (C02.cost) on the implementation's count; `shape` must equal the model's
shape exactly and the spec is "the implementation's shape is AVL (cached heights correct, balanced) and
2^(10000·height) ≤ (n+2)^14405".  Everything else: model only.  The abstract list is not maintained in C02 mode.

Relational verdicts (`rel`): predicate accepted → `spec := none`, so the driver compares with the model only
(`ok`/`corr`); rejected → a diagnostic is put into both `model` and `spec`, which the driver reports as `cex`.
-/
namespace TypVerif.Drv.C01
open TypVerif.Proto
open TypVerif.Model.Avl
open TypVerif.Spec.Avl

structure Entry where
  tree : Tree Int
  spec : STree Int Int
  sPre : Option (List Int) := none
  sIn : Option (List Int) := none
  wPre : Option (List Int) := none
  wIn : Option (List Int) := none

abbrev St := World Entry

/-! ### coverage tags: traced duplicates of add / remove / popLeftMost (glue; checked against the model at run time) -/

def rebCase (n : Node Int) : String :=
  match n with
  | .nil => "nil"
  | .node l _ _ r =>
    if n.balance = 1 then
      if (match r with | .node rl _ _ rr => decide (rl.hgt > rr.hgt) | .nil => false) then "rotateLeftRight" else "rotateLeft"
    else if n.balance = -1 then
      if (match l with | .node ll _ _ lr => decide (lr.hgt > ll.hgt) | .nil => false) then "rotateRightLeft" else "rotateRight"
    else "none"

def addT (cmp : Int → Int → Int) (x : Int) : Node Int → Node Int × List String
  | .nil => (.leaf x, [])
  | .node l v _ r =>
    if cmp x v < 0 then
      let (l', ts) := addT cmp x l
      let m := Node.mk l' v r
      (m.rebalance, ("add.reb." ++ rebCase m) :: ts)
    else
      let (r', ts) := addT cmp x r
      let m := Node.mk l v r'
      (m.rebalance, ("add.reb." ++ rebCase m) :: (if x = v then ["add.equal-goes-right"] else []) ++ ts)

def popT : Node Int → Int → Node Int → (Node Int × Int) × List String
  | .nil, v, r => ((r, v), [])
  | .node ll lv _ lr, v, r =>
    let ((newLeft, popped), ts) := popT ll lv lr
    let m := Node.mk newLeft v r
    ((m.rebalance, popped), ("pop.reb." ++ rebCase m) :: ts)

def removeT (cmp : Int → Int → Int) (x : Int) : Node Int → (Node Int × Bool) × List String
  | .nil => ((.nil, false), [])
  | n@(.node l v _ r) =>
    if v = x then
      match l, r with
      | .nil, .nil => ((.nil, true), ["remove.leaf"])
      | .nil, r@(.node ..) => ((r, true), ["remove.right-only"])
      | l@(.node ..), .nil => ((l, true), ["remove.left-only"])
      | l@(.node ..), .node rl rv _ rr =>
        let ((newRight, leftMost), ts) := popT rl rv rr
        let m := Node.mk l leftMost newRight
        ((m.rebalance, true), "remove.two-children" :: ("remove.reb2." ++ rebCase m) :: ts)
    else if !l.isNil && cmp x v < 0 then
      let ((newNode, ok), ts) := removeT cmp x l
      if ok then
        let m := Node.mk newNode v r
        ((m.rebalance, true), ("remove.reb." ++ rebCase m) :: ts)
      else ((n, false), ts)
    else if !r.isNil then
      let ((newNode, ok), ts) := removeT cmp x r
      if ok then
        let m := Node.mk l v newNode
        ((m.rebalance, true), ("remove.reb." ++ rebCase m) :: ts)
      else ((n, false), (if l.isNil && cmp x v < 0 then ["remove.fallthrough-right"] else []) ++ ts)
    else ((n, false), [])

def dedup (ts : List String) : List String := ts.foldl (fun acc t => if acc.contains t then acc else acc ++ [t]) []

/-! ### reconstruction predicate: ∃ binary tree with the given pre-, in-, post-order (duplicates allowed) -/

mutual
/-- `(some b, budget')` decided; `(none, _)` budget exhausted -/
partial def recon (pre ino post : List Int) (budget : Nat) : Option Bool × Nat :=
  if budget = 0 then (none, 0) else
  match pre with
  | [] => (some (ino.isEmpty && post.isEmpty), budget - 1)
  | root :: preRest =>
    let n := pre.length
    if ino.length != n || post.length != n then (some false, budget - 1)
    else if post.getLast? != some root then (some false, budget - 1)
    else reconTry root preRest ino post.dropLast n 0 (budget - 1)

partial def reconTry (root : Int) (preRest ino postInit : List Int) (n k budget : Nat) : Option Bool × Nat :=
  if k ≥ n then (some false, budget)
  else if ino[k]? == some root then
    match recon (preRest.take k) (ino.take k) (postInit.take k) budget with
    | (none, _) => (none, 0)
    | (some false, b) => reconTry root preRest ino postInit n (k + 1) b
    | (some true, b) =>
      match recon (preRest.drop k) (ino.drop (k + 1)) (postInit.drop k) b with
      | (none, _) => (none, 0)
      | (some true, b) => (some true, b)
      | (some false, b) => reconTry root preRest ino postInit n (k + 1) b
  else reconTry root preRest ino postInit n (k + 1) budget
end

def sortInts (l : List Int) : List Int := l.mergeSort (fun a b => decide (a ≤ b))
def isPermInts (a b : List Int) : Bool := sortInts a == sortInts b

/-! ### shapes -/

def shapeVal : Node Int → Val
  | .nil => .l []
  | .node l v h r => .l [.i v, .i h, shapeVal l, shapeVal r]

/-- linear-time rendering of `shapeVal t` (same string as `(shapeVal t).render`) -/
def renderShape : Node Int → String → String
  | .nil, acc => acc ++ "[]"
  | .node l v h r, acc =>
    let acc := acc ++ "[" ++ toString v ++ "," ++ toString h ++ ","
    let acc := renderShape l acc
    let acc := renderShape r (acc ++ ",")
    acc ++ "]"

partial def parseShape : Val → Option (Node Int)
  | .l [] => some .nil
  | .l [.i v, .i h, L, R] => do
    let l ← parseShape L
    let r ← parseShape R
    some (.node l v h r)
  | _ => none

/-- the real-valued bound `height ≤ 1.4405·log2(n+2)` as an integer inequality -/
def depthBoundOK (t : Node Int) (height : Int) : Bool :=
  let h := height.toNat
  decide (2 ^ (10000 * h) ≤ (size t + 2) ^ 14405)

/-! ### the step function -/

def bstr (b : Bool) : String := if b then "true" else "false"

/-- second token of the implementation's result (the cmpcalls count), verbatim -/
def tok2 (impl : String) : String :=
  match impl.splitOn " " with
  | [_, b] => b
  | _ => "?"

def withCalls (c02 : Bool) (first : String) (k : Nat) (impl : String) : String :=
  if c02 then first ++ " " ++ toString k else first ++ " " ++ tok2 impl

/-- Relational verdicts (driver convention): predicate accepted → compare with the model only (`spec := none`);
rejected → the diagnostic goes into both `model` and `spec`, which the driver reports as `cex`. -/
def rel (diag : Option String) (model : String) (tags : List String) : Out :=
  match diag with
  | none => { model := model, spec := none, tags := tags }
  | some d => { model := d ++ "(model=" ++ model ++ ")", spec := some (d ++ "(model=" ++ model ++ ")"), tags := tags }

/-- C02 spec predicate for the cost: calls ≤ height + 1; `none` = accepted.  The height is read from the model
tree's cached root height (O(1)), which is the true height by `C02.all_histories` + `Lemmas.Avl.hgt_eq_height`. -/
def costDiag (t : Node Int) (impl : String) : Option String :=
  match (tok2 impl).toNat? with
  | some k => if (k : Int) ≤ t.hgt + 1 then none else some ("cmpcalls>height+1=" ++ toString (t.hgt + 1))
  | none => some "cmpcalls-missing"

def clearObs (e : Entry) : Entry := { e with sPre := none, sIn := none, wPre := none, wIn := none }

def bad : Out := { model := "bad-handle" }

def step (c02 : Bool) (st : St) (toks : List Val) (impl : String) : St × Out :=
  match toks with
  | [.w "new", .i h, .i c] =>
    let e : Entry := { tree := Tree.new (cmpOfId c), spec := { ci := c, elems := [] } }
    (st.set h.toNat e, { model := "ok", spec := some "ok", tags := ["new.cmp" ++ toString c] })
  | [.w "add", .i h, .i v] =>
    match st.get h.toNat with
    | some e =>
      let (t', k) := e.tree.AddC v
      let (tr, ts) := addT e.tree.compare v e.tree.root
      let ts := if t'.count > 128 || decide (tr = t'.root) then ts else "INTERNAL.trace-mismatch" :: ts
      let ts := (if e.tree.root.isNil then ["add.root-nil"] else []) ++
                (if e.tree.Contains v then ["add.duplicate"] else ["add.new"]) ++ dedup ts
      -- the abstract list is not needed (and O(n) per operation) in C02 mode
      let e' := clearObs { e with tree := t', spec := if c02 then e.spec else e.spec.add cmpOfId v }
      let out : Out := if c02 then rel (costDiag e.tree.root impl) (withCalls c02 "ok" k impl) ts
                       else { model := withCalls c02 "ok" k impl, spec := some ("ok " ++ tok2 impl), tags := ts }
      (st.set h.toNat e', out)
    | none => (st, bad)
  | [.w "remove", .i h, .i v] =>
    match st.get h.toNat with
    | some e =>
      let ((t', ok), k) := e.tree.RemoveC v
      let ((tr, _), ts) := removeT e.tree.compare v e.tree.root
      let ts := if t'.count > 128 || decide (tr = t'.root) then ts else "INTERNAL.trace-mismatch" :: ts
      let ts := (if ok then "remove.present" else "remove.absent") ::
                (if e.tree.root.isNil then ["remove.root-nil"] else []) ++ dedup ts
      let (s', sok) := if c02 then (e.spec, ok) else e.spec.remove v
      let e' := clearObs { e with tree := t', spec := s' }
      let out : Out := if c02 then rel (costDiag e.tree.root impl) (withCalls c02 (bstr ok) k impl) ts
                       else { model := withCalls c02 (bstr ok) k impl, spec := some (bstr sok ++ " " ++ tok2 impl), tags := ts }
      (st.set h.toNat e', out)
    | none => (st, bad)
  | [.w "contains", .i h, .i v] =>
    match st.get h.toNat with
    | some e =>
      let (b, k) := e.tree.ContainsC v
      let ts := [if b then "contains.true" else "contains.false"]
      let out : Out := if c02 then rel (costDiag e.tree.root impl) (withCalls c02 (bstr b) k impl) ts
                       else { model := withCalls c02 (bstr b) k impl, spec := some (bstr (e.spec.contains v) ++ " " ++ tok2 impl), tags := ts }
      (st, out)
    | none => (st, bad)
  | [.w "len", .i h] =>
    match st.get h.toNat with
    | some e => (st, { model := toString e.tree.Len, spec := if c02 then none else some (toString e.spec.len), tags := ["len"] })
    | none => (st, bad)
  | [.w "clear", .i h] =>
    match st.get h.toNat with
    | some e =>
      let e' := clearObs { e with tree := e.tree.Clear, spec := e.spec.clear }
      (st.set h.toNat e', { model := "ok", spec := some "ok", tags := ["clear"] })
    | none => (st, bad)
  | [.w "clone", .i h, .i h2] =>
    match st.get h.toNat with
    | some e =>
      let e' : Entry := { tree := e.tree.Clone, spec := e.spec.clone }
      let n := e.tree.count
      let tag := if n = 0 then "clone.size0" else if n = 1 then "clone.size1" else "clone.size>=2"
      let tag2 := if (st.get h2.toNat).isSome then "clone.onto-existing" else "clone.onto-fresh"
      (st.set h2.toNat e', { model := "ok", spec := some "ok", tags := [tag, tag2] })
    | none => (st, bad)
  | [.w op, .i h] =>
    match st.get h.toNat with
    | some e =>
      let implList := (parseTok impl).ints?
      if op == "in" || op == "win" || op == "string" then
        let m := (ofInts e.tree.SliceInOrder).render
        let e' := if op == "in" then { e with sIn := implList } else if op == "win" then { e with wIn := implList } else e
        (st.set h.toNat e', { model := m, spec := if c02 then none else some (ofInts e.spec.elems).render, tags := [op] })
      else if op == "pre" || op == "wpre" then
        let m := (ofInts e.tree.SlicePreOrder).render
        let e' := if op == "pre" then { e with sPre := implList } else { e with wPre := implList }
        let diag : Option String :=
          if c02 then none else
          match implList with
          | some l => if isPermInts l e.spec.elems then none else some "not-a-permutation-of-the-multiset"
          | none => some "not-a-list"
        -- C01's tie is observational (DESIGN §5): the shape belongs to C02, so in C01 mode the traversal is judged by the predicate only
        (st.set h.toNat e', rel diag (if c02 then m else impl) [op])
      else if op == "post" || op == "wpost" then
        let m := (ofInts e.tree.SlicePostOrder).render
        let (pre?, in?) := if op == "post" then (e.sPre, e.sIn) else (e.wPre, e.wIn)
        let (diag, tag) : Option String × String :=
          if c02 then (none, op) else
          match implList with
          | none => (some "not-a-list", op)
          | some post =>
            if !isPermInts post e.spec.elems then (some "not-a-permutation-of-the-multiset", op)
            else
              match pre?, in? with
              | some pre, some ino =>
                if post.length > 64 then (none, op ++ ".recon-skipped-size")
                else
                  match (recon pre ino post 2000000).1 with
                  | some true => (none, op ++ ".recon-ok")
                  | some false => (some "no-binary-tree-has-these-three-traversals", op ++ ".recon-fail")
                  | none => (none, op ++ ".recon-skipped-budget")
              | _, _ => (none, op ++ ".recon-no-block")
        (st, rel diag (if c02 then m else impl) [tag])
      else if op == "shape" then
        if c02 then
          let m := renderShape e.tree.root ""
          -- fast path for big trees: when the implementation's string equals the model's rendering, the parsed
          -- shape is the model tree itself (render/parse round trip; re-validated by really parsing up to 64 nodes)
          let implTree? : Option (Node Int) :=
            if e.tree.count > 64 && m == impl then some e.tree.root else parseShape (parseTok impl)
          let diag : Option String :=
            match implTree? with
            | some t =>
              -- `avlHeight? t = some k ↔ AVL t ∧ height t = k` (Lemmas.Avl.avlHeight?_iff)
              match avlHeight? t with
              | none => some "shape-is-not-AVL"
              | some k => if depthBoundOK t k then none else some "depth-bound-violated"
            | none => some "not-a-shape"
          let hTag := "shape.height" ++ toString e.tree.root.hgt
          (st, rel diag m ["shape", hTag])
        else (st, { model := impl, tags := ["shape.skipped"] })
      else (st, { model := "bad-op" })
    | none => (st, bad)
  | _ => (st, { model := "bad-op" })

def judge : Judge := { σ := St, init := [], step := step false }

end TypVerif.Drv.C01
