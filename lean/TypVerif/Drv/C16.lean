import TypVerif.Drv.Proto
import TypVerif.Model.QueueStack
import TypVerif.Spec.QueueStack
/-
Judge for C16 (PROTOCOL.md §C16).  One Queue and one Stack per world, both zero values.
  enq <v> => ok        deq => <v> <bool>     qpeek => <v> <bool>     qlen => <int>
  push <v> => ok       pop => <v> <bool>     speek => <v> <bool>     slen => <int>
Model: `Model/QueueStack.lean` (Queue over the heap model of list.go, Stack over slice contents).
Specification: `Spec/QueueStack.lean` (FIFO / LIFO lists); a function on every line.
-/
namespace TypVerif.Drv.C16
open TypVerif.Proto
open TypVerif
open TypVerif.Model.Queue (Op Res)

structure St where
  heap : Model.LinkedList.Heap          -- queue model
  qspec : List Int
  stack : List Int                      -- stack model
  sspec : List Int

def init : St := { heap := Model.LinkedList.Heap.empty, qspec := [], stack := [], sspec := [] }

def renderRes : Res → String
  | .ok => "ok"
  | .pair v b => s!"{v} {if b then "true" else "false"}"
  | .int n => toString n
  | .panic m => s!"panic:{m}"

def qline (st : St) (op : Op) (tag : String) : St × Out :=
  let zero := (st.heap.next (.root Model.Queue.qlist) == .null)
  let m := Model.Queue.step st.heap op
  let s := Spec.QueueStack.qstep st.qspec op
  let tags := [tag ++ (if st.qspec.isEmpty then ".empty" else ".nonempty")]
    ++ (if zero then [tag ++ ".zerovalue"] else [])
    ++ (if st.qspec.length ≥ 2 then ["queue.len>=2"] else [])
  ({ st with heap := m.1, qspec := s.1 }, { model := renderRes m.2, spec := some (renderRes s.2), tags := tags })

def sline (st : St) (op : Op) (tag : String) : St × Out :=
  let m := Model.Stack.step st.stack op
  let s := Spec.QueueStack.sstep st.sspec op
  let tags := [tag ++ (if st.sspec.isEmpty then ".empty" else ".nonempty")]
    ++ (if st.sspec.length ≥ 2 then ["stack.len>=2"] else [])
  ({ st with stack := m.1, sspec := s.1 }, { model := renderRes m.2, spec := some (renderRes s.2), tags := tags })

def step (st : St) (toks : List Val) (_impl : String) : St × Out :=
  match toks with
  | [.w "enq", .i v] => qline st (.enq v) "queue.enq"
  | [.w "deq"] => qline st .deq "queue.deq"
  | [.w "qpeek"] => qline st .peek "queue.peek"
  | [.w "qlen"] => qline st .len "queue.len"
  | [.w "push", .i v] => sline st (.enq v) "stack.push"
  | [.w "pop"] => sline st .deq "stack.pop"
  | [.w "speek"] => sline st .peek "stack.peek"
  | [.w "slen"] => sline st .len "stack.len"
  | _ => (st, { model := "bad-op" })

def judge : Judge := { σ := St, init := init, step := step }

end TypVerif.Drv.C16
