import TypVerif.Drv.Proto
import TypVerif.Model.PubSub
import Std.Data.HashSet
/-
Judge for C10 (event traces, PROTOCOL.md "Event-trace lines" / C10; exact event semantics in
/verif/PROTOCOL-notes.md, C10).  Judge state = the set of model states compatible with the events so far
(`Conc.stepEvent` over `Model.PubSub.sys`, the invocation event of the line being the only environment move
offered) + bookkeeping for the history predicates of the specification.
  model = ok | rejected:<event>      spec = ok | violated:<what>     (both sticky)
-/
namespace TypVerif.Drv.C10
open TypVerif.Proto
open TypVerif
open TypVerif.Model.PubSub

def fuel : Nat := 200

def parseVariant : String → Option Variant
  | "pub" => some .pub
  | "pubslice" => some .pubSlice
  | "pubwait" => some .pubWait
  | "pubslicewait" => some .pubSliceWait
  | "pubsync" => some .pubSync
  | "pubslicesync" => some .pubSliceSync
  | _ => none

def parseCode : String → Option ErrCode
  | "nil" => some .nil
  | "already" => some .already
  | "notinit" => some .notinit
  | _ => none

def nat? (n : Int) : Option Nat := if n < 0 then none else some n.toNat

def parseEvent : List Val → Option Event
  | [.w "sub", .i c, .i cap] => (nat? c).map (fun c => .sub c cap)
  | [.w "subret", .i c] => (nat? c).map .subret
  | [.w "mkchan", .i c] => (nat? c).map .mkchan
  | [.w "withonly", .i w, .i via, .i c] => do some (.withonly (← nat? w) (← nat? via) (← nat? c))
  | [.w "pubinv", .i p, .i via, .w v, evs] => do
    some (.pubinv (← nat? p) (← nat? via) (← parseVariant v) (← evs.ints?))
  | [.w "pubret", .i p] => (nat? p).map .pubret
  | [.w "allow", .i c, .i n] => do some (.allow (← nat? c) (← nat? n))
  | [.w "recv", .i c, .i v] => (nat? c).map (fun c => .recv c v)
  | [.w "closed", .i c] => (nat? c).map .closed
  | [.w "tmo", .i v] => some (.tmo v)
  | [.w "unsubinv", .i u, .i via, .i c] => do some (.unsubinv (← nat? u) (← nat? via) c)
  | [.w "unsubret", .i u, .w code] => do some (.unsubret (← nat? u) (← parseCode code))
  | [.w "unsuballinv", .i u, .i via] => do some (.unsuballinv (← nat? u) (← nat? via))
  | [.w "unsuballret", .i u] => (nat? u).map .unsuballret
  | [.w "exit", .w r] => some (.exit r)
  | _ => none

/-- the ghost logs are never read by a transition: erase them so that schedules that differ only in the
order of the log entries are identified (the theorems are about the logs; the judge does not use them) -/
def norm (s : State) : State := { s with delivered := [], timedOut := [] }

/-- Successors used by the judge: those of the model, except that the RLock of a `sendAsync` goroutine is taken
together with that goroutine's next own step (its send, or its timer).  Reduction argument (unverified glue):
RLock is a right mover up to the goroutine's next action once the invisible "writer announces" steps, which can
only disable others, are moved right to their acquisition; a state in which the goroutine merely holds the read
lock has no trace that the state before the RLock does not have.  Cuts 3^k stage combinations to 2^k. -/
def succJ (cfg : Cfg) (s : State) : Steps :=
  (succ cfg s).flatMap (fun p =>
    match p.1 with
    | some _ => [p]
    | none =>
      -- find a task that has just become `asyncSend _ _ false` out of `asyncStart`
      match (List.range s.tasks.length).find? (fun i =>
          match s.tasks[i]?, p.2.tasks[i]? with
          | some (.asyncStart _ _), some (.asyncSend _ _ false) => true
          | _, _ => false) with
      | none => [p]
      | some i => (taskSteps cfg p.2 i).filter (fun q => q.1.isNone))

/-- internal closure (same set as `Conc.tauClosure`, computed with a hash set and a frontier) -/
def stateCap : Nat := 40000

def closure (cfg : Cfg) : Nat → Std.HashSet State → List State → Std.HashSet State
  | 0, seen, _ => seen
  | _, seen, [] => seen
  | n + 1, seen, frontier =>
    -- more compatible states than `stateCap`: give up on this scenario (the caller stops modelling it; never a verdict)
    if seen.size > stateCap then seen else
    let (seen, next) := frontier.foldl (fun (acc : Std.HashSet State × List State) s =>
      (succJ cfg s).foldl (fun (acc : Std.HashSet State × List State) p =>
        match p.1 with
        | some _ => acc
        | none =>
          let s' := norm p.2
          if acc.1.contains s' then acc else (acc.1.insert s', s' :: acc.2)) acc) (seen, [])
    closure cfg n seen next

/-- advance the state set by one visible event (= `Conc.stepEvent` of `sys {cfg with env := [e]}`) -/
def advance (cfg : Cfg) (ss : List State) (e : Event) : List State :=
  let cfg' := { cfg with env := [e] }
  let next := ss.flatMap (fun s => (succ cfg' s).filterMap (fun p => if p.1 == some e then some (norm p.2) else none))
  let seen : Std.HashSet State := next.foldl (fun acc s => acc.insert s) {}
  (closure cfg' fuel seen seen.toList).toList


/-! ### bookkeeping for the history predicates (trace level, independent of the model) -/

structure PubRec where
  p : Nat
  via : Nat
  v : Variant
  evs : List Int
  invAt : Nat
  retAt : Option Nat := none

structure ChRec where
  c : Nat
  cap : Nat
  subAt : Nat
  subretAt : Option Nat := none
  touchedAt : Option Nat := none   -- first unsubinv naming c / unsuballinv
  removedAt : Option Nat := none   -- response of the call that removed it
  closedSeen : Bool := false
  allowTotal : Nat := 0
  recvs : List Int := []

structure UnsubRec where
  u : Nat
  via : Nat
  c : Int          -- -1 = nil channel; -2 = UnsubAll
  invAt : Nat
  retAt : Option Nat := none

structure Book where
  line : Nat := 0
  pubs : List PubRec := []
  chs : List ChRec := []
  mkch : List Nat := []
  unsubs : List UnsubRec := []
  clones : List (Nat × Nat × Nat × Nat) := []   -- (w, via, c, line)
  tmos : List Int := []
  viol : Option String := none
  /-- scenario family `live`: every subscriber is received from without limit from the moment it is subscribed (and there is no
  timeout), so no call can block for good: at the quiescent end every call has returned and every event — of the asynchronous
  variants too — has reached every subscriber that stayed subscribed -/
  live : Bool := false

def Book.flag (b : Book) (m : String) : Book :=
  match b.viol with
  | some _ => b
  | none => { b with viol := some m }

def Book.ch? (b : Book) (c : Nat) : Option ChRec := b.chs.find? (·.c == c)
def Book.updCh (b : Book) (c : Nat) (f : ChRec → ChRec) : Book :=
  { b with chs := b.chs.map (fun r => if r.c == c then f r else r) }
def Book.cloneChan (b : Book) (w : Nat) : Option Nat := (b.clones.find? (·.1 == w)).map (·.2.2.1)

def firstSome (a : Option Nat) (n : Nat) : Option Nat := match a with | some k => some k | none => some n

def idxOf (xs : List Int) (v : Int) : Nat := xs.findIdx (· == v)

def outOfOrder (P : PubRec) (recvs : List Int) (v : Int) : Bool :=
  P.v.isSync && P.evs.count v == 1 &&
    recvs.any (fun v' => P.evs.contains v' && decide (idxOf P.evs v < idxOf P.evs v'))

def checkRecv (b : Book) (c : Nat) (v : Int) : Book :=
  let pw := b.pubs.filter (·.evs.contains v)
  if pw.isEmpty then b.flag "violated:invented" else
  match b.ch? c with
  | none => b.flag "violated:unknown-channel"
  | some (ch : ChRec) =>
    let total := (pw.map (fun P => P.evs.count v)).foldl (· + ·) 0
    let b : Book := if ch.closedSeen then b.flag "violated:recv-after-close" else b
    let b : Book := if ch.recvs.count v ≥ total then b.flag "violated:duplicate" else b
    let b : Book := match ch.removedAt with
      | some k => if pw.all (fun P => P.invAt > k) then b.flag "violated:after-removal" else b
      | none => b
    let b : Book := if pw.all (fun P => P.via != 0 && b.cloneChan P.via != some c) then b.flag "violated:withonly" else b
    let b : Book := match pw with
      | [P] => if outOfOrder P ch.recvs v then b.flag "violated:order" else b
      | _ => b
    b.updCh c (fun r => { r with recvs := r.recvs ++ [v] })


def lt? (a : Option Nat) (n : Nat) : Bool := match a with | some k => decide (k < n) | none => false

/-- expected error code of an Unsub, when the history determines it -/
def expectCode (b : Book) (r : UnsubRec) : Option ErrCode :=
  if r.c == -1 then some .notinit
  else if r.c < 0 then none
  else
    let c := r.c.toNat
    if b.mkch.contains c then some .already
    else match b.ch? c with
      | none => some .already
      | some ch =>
        if lt? ch.removedAt r.invAt && r.via == 0 then some .already
        else if r.via == 0 && lt? ch.subretAt r.invAt && ch.touchedAt == some r.invAt
                -- … and no other Unsub of c / UnsubAll was invoked while this call was in progress (it may win the race:
                -- correction after a false alarm on `unsubinv c; unsuballinv; unsuballret; unsubret already`)
                && !(b.unsubs.any (fun r' => decide (r'.invAt > r.invAt) && (r'.c == r.c || r'.c == -2))) then some .nil
        else none

def checkUnsubRet (b : Book) (u : Nat) (code : ErrCode) : Book :=
  match b.unsubs.find? (fun r => r.u == u && r.c != -2) with
  | none => b.flag "violated:unsubret-without-inv"
  | some r =>
    let b : Book := if code == .notinit && r.c != -1 then b.flag "violated:errcode" else b
    let b : Book := match expectCode b r with
      | some want => if want == code then b else b.flag "violated:errcode"
      | none => b
    if code == .nil && r.c ≥ 0 then b.updCh r.c.toNat (fun ch => { ch with removedAt := firstSome ch.removedAt b.line }) else b

def checkUnsubAllRet (b : Book) (u : Nat) : Book :=
  match b.unsubs.find? (fun r => r.u == u && r.c == -2) with
  | none => b.flag "violated:unsuballret-without-inv"
  | some r =>
    let target := b.cloneChan r.via
    { b with unsubs := b.unsubs.map (fun r' => if r'.u == u && r'.c == -2 then { r' with retAt := firstSome r'.retAt b.line } else r'),
             chs := b.chs.map (fun ch =>
        if lt? ch.subretAt r.invAt && (r.via == 0 || target == some ch.c) then
          { ch with removedAt := firstSome ch.removedAt b.line } else ch) }

/-- c was certainly subscribed on `via` during the whole call P (by real-time order of the stamps) -/
def throughout (b : Book) (P : PubRec) (ch : ChRec) (retAt : Nat) : Bool :=
  lt? ch.subretAt P.invAt && !(lt? ch.touchedAt retAt) &&
  (P.via == 0 ||
    match b.clones.find? (·.1 == P.via) with
    | some (_, via, c, ln) => via == 0 && c == ch.c && lt? ch.subretAt ln
    | none => false)

/-- at `pubret` of a Sync/Wait variant without timeout: an unbuffered subscriber that stayed subscribed
must have been allowed to take every event of the call (else the call returned before a hand-off) -/
def checkPubRet (cfg : Cfg) (b : Book) (p : Nat) : Book :=
  match b.pubs.find? (·.p == p) with
  | none => b.flag "violated:pubret-without-inv"
  | some P =>
    let b : Book := { b with pubs := b.pubs.map (fun Q => if Q.p == p then { Q with retAt := some b.line } else Q) }
    if (P.v.isSync || P.v.isWait) && cfg.timeout ≤ 0 &&
       b.chs.any (fun ch => throughout b P ch b.line && ch.cap == 0 && decide (ch.allowTotal < P.evs.length))
    then b.flag "violated:returned-early" else b

/-- at `exit ok` (quiescent): every pair of a returned Sync/Wait call with a subscriber that stayed subscribed
ended in a delivery that was received (or is still buffered because the receiver's allowance ran out) or a timeout -/
def checkExit (cfg : Cfg) (b : Book) : Book :=
  let lost := b.pubs.any (fun P =>
    match P.retAt with
    | none => false
    | some r =>
      (P.v.isSync || P.v.isWait) &&
      b.chs.any (fun ch => throughout b P ch r && decide (ch.recvs.length < ch.allowTotal) && !ch.closedSeen &&
        P.evs.any (fun v => !ch.recvs.contains v && !(decide (cfg.timeout > 0) && b.tmos.contains v))))
  let b : Book := if lost then b.flag "violated:lost" else b
  -- "each (event, subscriber) pair ends in exactly ONE of a delivery or one OnPubTimeout call": the endings of an event (receptions + timeout
  -- callbacks; event values are unique per scenario) cannot outnumber the subscribers that existed before the call returned
  let over := b.pubs.any (fun P =>
    let subsBefore := (b.chs.filter (fun ch => match P.retAt with | some r => decide (ch.subAt < r) | none => true)).length
    P.evs.any (fun v => decide (b.tmos.count v + (b.chs.map (fun ch => ch.recvs.count v)).sum > subsBefore)))
  let b : Book := if over then b.flag "violated:a-pair-ended-both-in-a-delivery-and-a-timeout" else b
  if !b.live then b else
  let stuck := b.pubs.any (fun P => P.retAt.isNone) || b.chs.any (fun ch => ch.subretAt.isNone)
  let b : Book := if stuck then b.flag "violated:call-never-returned-although-every-subscriber-is-received-from" else b
  -- "eventually": quiescent, all receivers live, no timeout — every event of every publish (asynchronous ones included) through the
  -- root has been received by every subscriber that was subscribed before the call and was never removed
  let dropped := b.pubs.any (fun P => P.via == 0 &&
    b.chs.any (fun ch => lt? ch.subretAt P.invAt && ch.touchedAt.isNone && !ch.closedSeen &&
      P.evs.any (fun v => !ch.recvs.contains v)))
  if dropped && cfg.timeout ≤ 0 then b.flag "violated:event-never-delivered-to-a-subscriber-that-stayed-subscribed" else b


def touch (b : Book) (pred : ChRec → Bool) : Book :=
  { b with chs := b.chs.map (fun ch => if pred ch then { ch with touchedAt := firstSome ch.touchedAt b.line } else ch) }

/-- update the bookkeeping with one event (line number already advanced) -/
def observe (cfg : Cfg) (b : Book) : Event → Book
  | .sub c cap =>
    if (b.ch? c).isSome || b.mkch.contains c then b.flag "violated:channel-id-reused" else
    -- an UnsubAll that was invoked earlier and has not returned yet may still take effect AFTER this Sub: the new channel can be removed
    -- (closed) by it from now on (correction after a false alarm on `unsuballinv; sub c; subret c; unsuballret; closed c`, seed 7)
    let pendingAll := b.unsubs.any (fun r => r.c == -2 && r.retAt.isNone)
    { b with chs := b.chs ++ [{ c := c, cap := if cap < 0 then cfg.defBuf else cap.toNat, subAt := b.line,
                                touchedAt := if pendingAll then some b.line else none }] }
  | .subret c => b.updCh c (fun ch => { ch with subretAt := firstSome ch.subretAt b.line })
  | .mkchan c => { b with mkch := b.mkch ++ [c] }
  | .withonly w via c => { b with clones := b.clones ++ [(w, via, c, b.line)] }
  | .pubinv p via v evs => { b with pubs := b.pubs ++ [{ p := p, via := via, v := v, evs := evs, invAt := b.line }] }
  | .pubret p => checkPubRet cfg b p
  | .allow c n => b.updCh c (fun ch => { ch with allowTotal := ch.allowTotal + n })
  | .recv c v => checkRecv b c v
  | .closed c =>
    match b.ch? c with
    | none => if b.mkch.contains c then b.flag "violated:closed-not-removed" else b.flag "violated:unknown-channel"
    | some ch =>
      let b : Book := if ch.touchedAt.isNone then b.flag "violated:closed-not-removed" else b
      b.updCh c (fun r => { r with closedSeen := true })
  | .tmo v =>
    let b : Book := if cfg.timeout ≤ 0 then b.flag "violated:tmo-without-timeout" else b
    let b : Book := if b.pubs.any (·.evs.contains v) then b else b.flag "violated:invented"
    -- "the Wait and Sync variants return only after every hand-off has finished; each pair ends in a delivery or ONE OnPubTimeout call":
    -- a timeout callback of such a publish that is still running when the call has returned (its stamp comes after `pubret`) is a violation
    let b : Book := if b.pubs.any (fun P => P.evs.contains v && (P.v.isSync || P.v.isWait) && P.retAt.isSome)
                    then b.flag "violated:timeout-callback-after-the-call-returned" else b
    { b with tmos := b.tmos ++ [v] }
  | .unsubinv u via c =>
    let b : Book := { b with unsubs := b.unsubs ++ [{ u := u, via := via, c := c, invAt := b.line }] }
    if c ≥ 0 then touch b (fun ch => ch.c == c.toNat) else b
  | .unsubret u code => checkUnsubRet b u code
  | .unsuballinv u via =>
    let b : Book := { b with unsubs := b.unsubs ++ [{ u := u, via := via, c := -2, invAt := b.line }] }
    touch b (fun _ => true)
  | .unsuballret u => checkUnsubAllRet b u
  | .exit r =>
    if r == "ok" then checkExit cfg b
    else if r.startsWith "panic" then b.flag "violated:panic"
    else b.flag ("violated:" ++ r)

structure J where
  cfg : Cfg := {}
  ss : List State := [{}]
  rej : Option String := none
  book : Book := {}
  /-- the set of model states compatible with the events so far outgrew `stateCap`: the model side of this scenario is not judged any
  further (the history predicates still are) -/
  skipped : Bool := false

def evName : List Val → String
  | .w s :: _ => s
  | _ => "?"

def bucket (n : Nat) : String :=
  if n ≤ 1 then "states:1" else if n ≤ 10 then "states:2-10" else if n ≤ 100 then "states:11-100" else "states:>100"

def step (j : J) (toks : List Val) (_impl : String) : J × Out :=
  match toks with
  | [.w "ps", .i t, .i d] =>
    ({ cfg := { timeout := t, defBuf := d.toNat }, ss := [{}], rej := none, book := {} }, { model := "ok", spec := some "ok", tags := ["ps"] })
  | [.w "live"] => ({ j with book := { j.book with live := true } }, { model := "ok", spec := some "ok", tags := ["live"] })
  | _ =>
    match parseEvent toks with
    | none => (j, { model := "bad-op" })
    | some e =>
      let book := observe j.cfg { j.book with line := j.book.line + 1 } e
      if j.skipped then
        ({ j with book := book }, { model := "ok", spec := some (book.viol.getD "ok"), tags := [evName toks, "model.skipped:state-explosion"] })
      else if book.chs.length > 24 then
        -- the `wide` family (hundreds of subscribers): the subset construction over the internal closure is hopeless; only the history
        -- predicates judge such a scenario (never a verdict of the model side)
        ({ j with ss := [], skipped := true, book := book },
         { model := "ok", spec := some (book.viol.getD "ok"), tags := [evName toks, "model.skipped:wide"] })
      else
      let ss := match j.rej with | some _ => [] | none => advance j.cfg j.ss e
      if ss.length > stateCap then
        ({ j with ss := [], skipped := true, book := book },
         { model := "ok", spec := some (book.viol.getD "ok"), tags := [evName toks, "model.skipped:state-explosion"] })
      else
      let rej := match j.rej with
        | some r => some r
        | none => if ss.isEmpty then some ("rejected:" ++ evName toks) else none
      ({ j with ss := ss, rej := rej, book := book },
       { model := rej.getD "ok", spec := some (book.viol.getD "ok"), tags := [evName toks, bucket ss.length] })

def judge : Judge := { σ := J, init := {}, step := step }

end TypVerif.Drv.C10
