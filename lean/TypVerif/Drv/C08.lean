import TypVerif.Drv.Proto
import TypVerif.Model.Array2D
import TypVerif.Spec.Grid
/-
Judge for C08 (arrays.Array2D[int]).  Lines (PROTOCOL.md):
  new <h> <w> <ht> | filled <h> <w> <ht> <v> | jagged <h> <w> <ht> <rows>   => ok | panic:*
  set <h> <x> <y> <v> => ok | panic:custom          get <h> <x> <y> => <v> | panic:custom
  row <h> <y> => <list> | panic:*                   rowset <h> <y> <i> <v> => ok | panic:*
  span <h> <x1> <x2> <y> => <list> | panic:*        spanset <h> <x1> <x2> <y> <i> <v> => ok | panic:*
  fill <h> <x1> <y1> <x2> <y2> <v> => ok | panic:custom
  clone <h> <r> => ok      dims <h> => <w> <ht>     cells <h> => <rows>
State: handle → (model array = backing slice with stride arithmetic, specification grid = rows of cells).
The specification is a function wherever the property speaks (in-bounds → the cell model, out-of-bounds coordinate →
panic raised by typ, i.e. `panic:custom`); it is silent (`spec = none`, model only) for RowSpan with x1 > x2, for a
window write outside the window, and for negative sizes.
-/
namespace TypVerif.Drv.C08
open TypVerif.Proto
open TypVerif
open TypVerif.Model.Array2D (A2D)

abbrev Grid := Spec.Grid.Grid

structure St where
  hs : List (Int × (A2D × Grid)) := []

def St.find (s : St) (h : Int) : Option (A2D × Grid) := (s.hs.find? (·.1 == h)).map (·.2)
def St.put (s : St) (h : Int) (v : A2D × Grid) : St :=
  { hs := (h, v) :: s.hs.filter (·.1 != h) }

def shapeTag (w h : Int) : String :=
  if w = 0 || h = 0 then "shape.empty" else if w = h then "shape.square" else if w < h then "shape.tall" else "shape.wide"

def renderE {α : Type} (r : Except String α) (f : α → String) : String :=
  match r with
  | .ok v => f v
  | .error e => e

def renderO {α : Type} (r : Option α) (f : α → String) : String :=
  match r with
  | some v => f v
  | none => "panic:custom"

def okS {α : Type} (_ : α) : String := "ok"

/-- update the state with whatever succeeded -/
def commit (s : St) (h : Int) (cur : A2D × Grid) (m : Except String A2D) (sp : Option Grid) : St :=
  let a := match m with | .ok a => a | .error _ => cur.1
  let g := match sp with | some g => g | none => cur.2
  s.put h (a, g)

def bad : Out := { model := "bad-op" }

def step (s : St) (toks : List Val) (_impl : String) : St × Out :=
  match toks with
  | [.w "new", .i h, .i w, .i ht] =>
    let m := Model.Array2D.new2D w ht
    if w < 0 || ht < 0 then
      (match m with | .ok a => s.put h (a, Spec.Grid.new w ht) | .error _ => s,
        { model := renderE m okS, tags := ["new.negative"] })
    else
      let g := Spec.Grid.new w ht
      (match m with | .ok a => s.put h (a, g) | .error _ => s,
        { model := renderE m okS, spec := some "ok", tags := ["new", shapeTag w ht] })
  | [.w "filled", .i h, .i w, .i ht, .i v] =>
    let m := Model.Array2D.new2DFilled w ht v
    if w < 0 || ht < 0 then
      (match m with | .ok a => s.put h (a, Spec.Grid.filled w ht v) | .error _ => s,
        { model := renderE m okS, tags := ["filled.negative"] })
    else
      let g := Spec.Grid.filled w ht v
      (match m with | .ok a => s.put h (a, g) | .error _ => s,
        { model := renderE m okS, spec := some "ok", tags := ["filled", shapeTag w ht] })
  | [.w "jagged", .i h, .i w, .i ht, rows] =>
    match rows.intss? with
    | none => (s, bad)
    | some jag =>
      let m := Model.Array2D.fromJagged w ht jag
      if w < 0 || ht < 0 then
        (match m with | .ok a => s.put h (a, Spec.Grid.fromJagged w ht jag) | .error _ => s,
          { model := renderE m okS, tags := ["jagged.negative"] })
      else
        let g := Spec.Grid.fromJagged w ht jag
        let t1 := if (jag.length : Int) > ht then "jagged.morerows" else if (jag.length : Int) < ht then "jagged.fewerrows" else "jagged.exactrows"
        let t2 := if jag.any (fun r => (r.length : Int) > w) then ["jagged.longrow"] else []
        let t3 := if jag.any (fun r => (r.length : Int) < w) then ["jagged.shortrow"] else []
        (match m with | .ok a => s.put h (a, g) | .error _ => s,
          { model := renderE m okS, spec := some "ok", tags := [t1, shapeTag w ht] ++ t2 ++ t3 })
  | [.w "set", .i h, .i x, .i y, .i v] =>
    match s.find h with
    | none => (s, bad)
    | some (a, g) =>
      let m := Model.Array2D.set a x y v
      let sp := Spec.Grid.set g x y v
      let tag := if Model.Array2D.oob a.w x then "set.oobx" else if Model.Array2D.oob a.h y then "set.ooby" else "set.ok"
      (commit s h (a, g) m sp, { model := renderE m okS, spec := some (renderO sp okS), tags := [tag] })
  | [.w "get", .i h, .i x, .i y] =>
    match s.find h with
    | none => (s, bad)
    | some (a, g) =>
      let m := Model.Array2D.get a x y
      let sp := Spec.Grid.get g x y
      let tag := if Model.Array2D.oob a.w x then "get.oobx" else if Model.Array2D.oob a.h y then "get.ooby" else "get.ok"
      (s, { model := renderE m toString, spec := some (renderO sp toString), tags := [tag] })
  | [.w "row", .i h, .i y] =>
    match s.find h with
    | none => (s, bad)
    | some (a, g) =>
      let m := Model.Array2D.rowRead a y
      let sp := Spec.Grid.row g y
      (s, { model := renderE m (fun l => (ofInts l).render), spec := some (renderO sp (fun l => (ofInts l).render)),
            tags := [if Model.Array2D.oob a.h y then "row.ooby" else "row.ok"] })
  | [.w "rowset", .i h, .i y, .i i, .i v] =>
    match s.find h with
    | none => (s, bad)
    | some (a, g) =>
      let m := Model.Array2D.rowset a y i v
      if Model.Array2D.oob a.h y then
        (s, { model := renderE m okS, spec := some "panic:custom", tags := ["rowset.ooby"] })
      else if 0 ≤ i ∧ i < a.w then
        let sp := Spec.Grid.set g i y v
        (commit s h (a, g) m sp, { model := renderE m okS, spec := some (renderO sp okS), tags := ["rowset.ok"] })
      else
        (commit s h (a, g) m none, { model := renderE m okS, tags := ["rowset.outside"] })
  | [.w "span", .i h, .i x1, .i x2, .i y] =>
    match s.find h with
    | none => (s, bad)
    | some (a, g) =>
      let m := Model.Array2D.spanRead a x1 x2 y
      let sp := Spec.Grid.span g x1 x2 y
      let r := fun (l : List Int) => (ofInts l).render
      if !(Model.Array2D.rowSpanGuard a.w a.h x1 x2 y) then
        (s, { model := renderE m r, spec := some (renderO sp r), tags := ["span.oob"] })
      else if x1 ≤ x2 then
        (s, { model := renderE m r, spec := some (renderO sp r), tags := [if x1 = x2 then "span.one" else "span.ok"] })
      else
        (s, { model := renderE m r, tags := [if x1 = x2 + 1 then "span.empty" else "span.inverted"] })
  | [.w "spanset", .i h, .i x1, .i x2, .i y, .i i, .i v] =>
    match s.find h with
    | none => (s, bad)
    | some (a, g) =>
      let m := Model.Array2D.spanset a x1 x2 y i v
      if !(Model.Array2D.rowSpanGuard a.w a.h x1 x2 y) then
        (s, { model := renderE m okS, spec := some "panic:custom", tags := ["spanset.oob"] })
      else if x1 ≤ x2 ∧ 0 ≤ i ∧ i ≤ x2 - x1 then
        let sp := Spec.Grid.set g (x1 + i) y v
        (commit s h (a, g) m sp, { model := renderE m okS, spec := some (renderO sp okS), tags := ["spanset.ok"] })
      else
        (commit s h (a, g) m none, { model := renderE m okS, tags := ["spanset.outside"] })
  | [.w "fill", .i h, .i x1, .i y1, .i x2, .i y2, .i v] =>
    match s.find h with
    | none => (s, bad)
    | some (a, g) =>
      let m := Model.Array2D.fill a x1 y1 x2 y2 v
      let sp := Spec.Grid.fill g x1 y1 x2 y2 v
      let tag :=
        if !(Model.Array2D.fillGuard a.w a.h x1 y1 x2 y2) then "fill.oob"
        else (if x2 < x1 then "fill.swapx" else "fill.keepx") ++ (if y2 < y1 then ".swapy" else ".keepy")
      let tag2 := if Model.Array2D.fillGuard a.w a.h x1 y1 x2 y2 then
          [if y1 = y2 then "fill.onerow" else "fill.rows", if x1 = x2 then "fill.onecol" else "fill.cols"] else []
      (commit s h (a, g) m sp, { model := renderE m okS, spec := some (renderO sp okS), tags := tag :: tag2 })
  | [.w "clone", .i h, .i r] =>
    match s.find h with
    | none => (s, bad)
    | some (a, g) =>
      (s.put r (Model.Array2D.clone a, Spec.Grid.clone g), { model := "ok", spec := some "ok", tags := ["clone"] })
  | [.w "dims", .i h] =>
    match s.find h with
    | none => (s, bad)
    | some (a, g) =>
      (s, { model := s!"{a.w} {a.h}", spec := some s!"{g.w} {g.h}", tags := ["dims"] })
  | [.w "cells", .i h] =>
    match s.find h with
    | none => (s, bad)
    | some (a, g) =>
      let m := Model.Array2D.cellsRows a
      (s, { model := renderE m (fun rows => (ofIntss rows).render), spec := some (ofIntss g.rows).render,
            tags := ["cells", shapeTag a.w a.h] })
  | [.w "cellss", .i h] =>   -- String() of the same grid with string cells (cells ≥ 0 only: "-" is not stripped) 
    match s.find h with
    | none => (s, bad)
    | some (a, g) =>
      let m := Model.Array2D.cellsRows a
      (s, { model := renderE m (fun rows => (ofIntss rows).render), spec := some (ofIntss g.rows).render,
            tags := ["cellss", shapeTag a.w a.h] })
  | [.w "cellsf", .i h] =>   -- … with float cells
    match s.find h with
    | none => (s, bad)
    | some (a, g) =>
      let m := Model.Array2D.cellsRows a
      (s, { model := renderE m (fun rows => (ofIntss rows).render), spec := some (ofIntss g.rows).render,
            tags := ["cellsf", shapeTag a.w a.h] })
  | _ => (s, bad)

def judge : Judge := { σ := St, init := {}, step := step }

end TypVerif.Drv.C08
