/-
Line protocol shared by every driver judge (unverified glue, see DESIGN §11).

A harness line is  `<op> <arg> ... => <res> ...`  with space separated tokens; a token is an integer,
`true`/`false`, a word, or a bracketed (possibly nested) list of integers without spaces: `[1,2,[3]]`.
-/
namespace TypVerif.Proto

inductive Val where
  | i (n : Int)
  | l (xs : List Val)
  | w (s : String)
  deriving Repr, Inhabited, BEq

partial def Val.render : Val → String
  | .i n => toString n
  | .w s => s
  | .l xs => "[" ++ ",".intercalate (xs.map Val.render) ++ "]"

instance : ToString Val := ⟨Val.render⟩

def isNumStart (c : Char) : Bool := c.isDigit || c == '-'

/-- parse one value from a char list; returns value and rest -/
partial def parseVal : List Char → Option (Val × List Char)
  | '[' :: rest =>
    let rec go (acc : List Val) (cs : List Char) : Option (Val × List Char) :=
      match cs with
      | ']' :: r => some (.l acc.reverse, r)
      | ',' :: r => go acc r
      | _ =>
        match parseVal cs with
        | some (v, r) => go (v :: acc) r
        | none => none
    go [] rest
  | cs@(c :: _) =>
    if isNumStart c then
      let tok := cs.takeWhile (fun d => d.isDigit || d == '-')
      let rest := cs.dropWhile (fun d => d.isDigit || d == '-')
      match (String.ofList tok).toInt? with
      | some n => some (.i n, rest)
      | none => none
    else
      let tok := cs.takeWhile (fun d => d != ',' && d != ']')
      let rest := cs.dropWhile (fun d => d != ',' && d != ']')
      some (.w (String.ofList tok), rest)
  | [] => none

def parseTok (s : String) : Val :=
  match parseVal s.toList with
  | some (v, []) => v
  | _ => .w s

def Val.int? : Val → Option Int
  | .i n => some n
  | _ => none

def Val.ints? : Val → Option (List Int)
  | .l xs => xs.mapM Val.int?
  | _ => none

def Val.intss? : Val → Option (List (List Int))
  | .l xs => xs.mapM Val.ints?
  | _ => none

def ofInts (xs : List Int) : Val := .l (xs.map .i)
def ofIntss (xs : List (List Int)) : Val := .l (xs.map ofInts)
def ofBool (b : Bool) : Val := .w (if b then "true" else "false")
def ofNat (n : Nat) : Val := .i n

def renderAll (vs : List Val) : String := " ".intercalate (vs.map Val.render)

/-- split a harness line into (op tokens, result string) -/
def splitLine (line : String) : List String × String :=
  match line.splitOn " => " with
  | [l, r] => ((l.splitOn " ").filter (· ≠ ""), r.trimAscii.toString)
  | [l] => ((l.trimAscii.toString.splitOn " ").filter (· ≠ ""), "")
  | l :: rs => ((l.splitOn " ").filter (· ≠ ""), (" => ".intercalate rs).trimAscii.toString)
  | [] => ([], "")

/-- Verdict of one line: what the model says, and (when the specification is a function on this line)
what the specification says.  `spec = none` means "outside the property's precondition" or "relational,
already checked": compare with model only. -/
structure Out where
  model : String
  spec : Option String := none
  tags : List String := []

/-- A judge is a state machine over harness lines. `reset` lines re-initialise. -/
structure Judge where
  σ : Type
  init : σ
  step : σ → List Val → String → σ × Out   -- op tokens (parsed), impl result (for relational specs)

end TypVerif.Proto
