import TypVerif.Drv.Proto
import TypVerif.Lemmas.SmcWitness
/-
Judge "C04inv": evaluates the simulation relation `R` of the concurrent `sync2.Map` proof (`Lemmas/SmcDefs.lean`) along
random runs of the transition system `Model.SyncMapConc` with the abstract state computed by the simulation witness
(`Lemmas/SmcWitness.lean`).  One line = one run:

  walk <seed> <goroutines> <steps> <keys> <zst>   => ok

The model output is `ok`, or `violated:<clause>@<step>:<goroutine>:<label>` for the first clause of `R` that fails.  This is
how the invariant was debugged before it was proved; it stays in the check as a regression test of the definitions
(a failure here would contradict the theorem `C04conc.sim_step`, i.e. it would be an internal error).
-/
namespace TypVerif.Drv.C04inv
open TypVerif TypVerif.Proto TypVerif.Model TypVerif.Model.SyncMapConc TypVerif.Model.RelObj TypVerif.Lemmas.Smc

abbrev MS := SyncMapConc.State Int Int
abbrev AS := AState Int Int

def lcg (x : Nat) : Nat := (x * 6364136223846793005 + 1442695040888963407) % 18446744073709551616

def menuFor (keys : Nat) (zst : Bool) : List (Op Int Int) :=
  (List.range keys).flatMap (fun (kn : Nat) =>
    let k : Int := Int.ofNat kn
    -- a zero-size value type has one value only
    if zst then [.load k, .store k 0, .loadOrStore k 0, .loadAndDelete k, .delete k]
    else [.load k, .store k 1, .store k 2, .loadOrStore k 3, .loadAndDelete k, .delete k]) ++ [.range]

/-- the clauses of `G`, named -/
def checkG (s : MS) (apcs : Nat → APc Int Int) : List (String × Bool) :=
  let sh := s.sh
  [ ("keysR", decide (SyncMap.akeys sh.readM).Nodup), ("valsR", decide (vals sh.readM).Nodup),
    ("keysD", decide (SyncMap.akeys (dirtyMap sh)).Nodup), ("valsD", decide (vals (dirtyMap sh)).Nodup),
    ("boundR", decide (∀ p ∈ sh.readM, p.2 < sh.entries.length)), ("boundD", decide (∀ p ∈ dirtyMap sh, p.2 < sh.entries.length)),
    ("s1", decide (sh.dirty = none → sh.amended = false)), ("nofault", decide (sh.fault = false)),
    ("muBound", decide (∀ t ∈ sh.mu, t < s.pcs.length)),
    ("readDirty", decide (∀ p ∈ sh.readM, p ∉ unprocessed s →
        if (getP sh p.2).isExpunged then
          sh.dirty.isSome = true ∧ SyncMap.alookup p.1 (dirtyMap sh) = none ∧ p.2 ∉ vals (dirtyMap sh)
        else (sh.dirty.isSome = true → SyncMap.alookup p.1 (dirtyMap sh) = some p.2))),
    ("dirtySub", decide (sh.amended = false → ∀ p ∈ dirtyMap sh, SyncMap.alookup p.1 sh.readM = some p.2)),
    ("dirtyLive", decide (∀ p ∈ dirtyMap sh, SyncMap.alookup p.1 sh.readM = none → isVal (getP sh p.2) = true)),
    ("unlinked", decide (∀ t ∈ List.range s.pcs.length, ∀ u ∈ List.range s.pcs.length, t ≠ u →
        ∀ e ∈ unlinkedPc (s.pc t) (apcs t), e ∉ unlinkedPc (s.pc u) (apcs u))) ]

def checkR (s : MS) (a : AS) (keys : Nat) : Option String :=
  match (checkG s a.pcs).find? (fun p => !p.2) with
  | some (name, _) => some s!"G.{name}"
  | none =>
    match (List.range keys).find? (fun (k : Nat) => a.obj (Int.ofNat k) != absOf s.sh (Int.ofNat k)) with
    | some k => some s!"abs@{k}"
    | none =>
      match (List.range (s.pcs.length + 1)).find? (fun t => !decide (T s.sh t (s.pc t) (a.pcs t))) with
      | some t => some s!"T@{t}:{(s.pc t).label}"
      | none =>
        match (List.range s.pcs.length).find? (fun t =>
            match a.pcs t with
            | .pending op seen => match pureRes a.obj op with | some r => !(seen.contains r) | none => false
            | _ => false) with
        | some t => some s!"Obs@{t}"
        | none => none

def walk (seed n steps keys : Nat) (zst : Bool) : String := Id.run do
  let menu := menuFor keys zst
  let mut s : MS := SyncMapConc.init n zst
  let mut a : AS := RState.init (mapSpec Int Int)
  let mut x := lcg (seed + 12345)
  match checkR s a keys with
  | some w => return s!"violated:{w}@init"
  | none => pure ()
  for i in [0:steps] do
    -- successors, tagged with the goroutine that moves
    let succs := (List.range n).flatMap (fun t => (stepT menu s t).map (fun p => (t, p)))
    if succs.isEmpty then return s!"stuck@{i}"
    x := lcg x
    -- bias: half of the time continue with a non-invocation step if there is one (operations get finished)
    let nonInv := succs.filter (fun p => match p.2.1 with | some (.inv _ _) => false | _ => true)
    x := lcg x
    let pool := if !nonInv.isEmpty && (x / 65536) % 4 != 0 then nonInv else succs
    x := lcg x
    let (t, l, s') := pool.getD ((x / 65536) % pool.length) (0, none, s)
    let lbl := (s.pc t).label
    a := witness s t l a
    s := s'
    match checkR s a keys with
    | some w => return s!"violated:{w}@{i}:{t}:{lbl}"
    | none => pure ()
  return "ok"

def step (_ : Unit) (toks : List Val) (_impl : String) : Unit × Out :=
  match toks with
  | [.w "walk", .i seed, .i n, .i steps, .i keys, .i zst] =>
    ((), { model := walk seed.toNat n.toNat steps.toNat keys.toNat (zst != 0), tags := ["walk"] })
  | _ => ((), { model := "bad-op" })

def judge : Judge := { σ := Unit, init := (), step := step }

end TypVerif.Drv.C04inv
