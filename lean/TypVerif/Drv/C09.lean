import TypVerif.Drv.Proto
import TypVerif.Model.KeyedMutex
import Std.Data.HashSet
/-
Judge for C09 (event-trace lines, PROTOCOL.md "Event-trace lines" / C09).  Every line has the
implementation result `ok`.

  km <rw>                         scenario header: rw = 0 KeyedMutex, rw = 1 KeyedRWMutex
  inv <t> lock|trylock|unlock|rlock|tryrlock|runlock|clear <k>     goroutine t is about to call the method on key k
  res <t> done|true|false         the call of goroutine t returned (done: Lock/Unlock/RLock/RUnlock/Clear; true/false: Try*)

Model side: the set of states of `Model.KeyedMutex.sys rw _ [op]` compatible with the events so far
(the thread table is padded lazily): `ok` while non-empty, else `rejected:<first refused event>` for
the rest of the world.  The set is computed like `Conc.stepEvent` (visible successors labelled with the
event, then the closure under internal steps) but with a hash set and a work list instead of the
quadratic list closure, without a fuel bound (between two events every goroutine has at most five
internal steps, so the closure is finite), and on *normalised* states: unreferenced heap cells are
dropped, mutex ids are renumbered in the order (keys of the map ascending, then goroutines), and the
map and all the sets are sorted.  The model is invariant under this renaming (a fresh id only has to be
unused; sets are only tested for membership/emptiness and erased from), it is unverified driver glue.
Specification side (the occupancy predicate of the keyed-lock object, evaluated on the events alone):
  * a goroutine occupies k for writing from `res done` of lock / `res true` of trylock until its `inv unlock`,
    for reading from `res done` of rlock / `res true` of tryrlock until its `inv runlock`;
  * at a write acquisition nobody occupies k; at a read acquisition nobody occupies k for writing;
  * `res false` of a Try* only if, at some point between its inv and its res, k was occupied or some other
    goroutine had a call on k in progress (for tryrlock: occupied for writing / a call of lock, trylock, unlock);
`ok` while this holds, else `violated:<what>` for the rest of the world.
-/
namespace TypVerif.Drv.C09
open TypVerif.Proto
open TypVerif TypVerif.Model.KeyedMutex

structure Pend where
  t : Nat
  kind : Kind
  key : Nat
  contended : Bool

structure St where
  started : Bool := false
  rw : Bool := false
  ss : List State := []
  rejected : Option String := none
  wh : List (Nat × Nat) := []
  rh : List (Nat × Nat) := []
  pend : List Pend := []
  violated : Option String := none
  /-- a `ClearKey(k)` overlapped (in real time) another call on `k`, or ran while `k` was held: the property does not cover what
  follows ("ClearKey is covered only when no goroutine holds or awaits the key"), the rest of the scenario is not judged -/
  outside : Bool := false

def kindOf : String → Option Kind
  | "lock" => some .lock | "trylock" => some .trylock | "unlock" => some .unlock
  | "rlock" => some .rlock | "tryrlock" => some .tryrlock | "runlock" => some .runlock
  | "clear" => some .clear | _ => none

def kindName : Kind → String
  | .lock => "lock" | .trylock => "trylock" | .unlock => "unlock" | .rlock => "rlock"
  | .tryrlock => "tryrlock" | .runlock => "runlock" | .clear => "clear"

def resOf : String → Option Res
  | "done" => some .done | "true" => some .tt | "false" => some .ff | _ => none

def resName : Res → String
  | .done => "done" | .tt => "true" | .ff => "false"

/-- pad the thread table so that goroutine `t` exists -/
def pad (t : Nat) (s : State) : State :=
  if s.pcs.length ≤ t then { s with pcs := s.pcs ++ List.replicate (t + 1 - s.pcs.length) .idle } else s

/-! ### normalisation (renaming of mutex ids, garbage collection, sorted sets) -/

def insertSorted (x : Nat) : List Nat → List Nat
  | [] => [x]
  | y :: ys => if x ≤ y then x :: y :: ys else y :: insertSorted x ys
def sortNat (xs : List Nat) : List Nat := xs.foldr insertSorted []

def pairLe (a b : Nat × Nat) : Bool := a.1 < b.1 || (a.1 == b.1 && a.2 ≤ b.2)
def insertPair (x : Nat × Nat) : List (Nat × Nat) → List (Nat × Nat)
  | [] => [x]
  | y :: ys => if pairLe x y then x :: y :: ys else y :: insertPair x ys
def sortPairs (xs : List (Nat × Nat)) : List (Nat × Nat) := xs.foldr insertPair []

def pcLocal : Pc → Option Nat
  | .act _ _ m => some m | .ann _ m => some m | .wait _ m => some m | .rel _ m => some m | _ => none

def renPc (f : Nat → Nat) : Pc → Pc
  | .act kd k m => .act kd k (f m) | .ann k m => .ann k (f m) | .wait k m => .wait k (f m)
  | .rel k m => .rel k (f m) | p => p

def norm (s : State) : State :=
  let mp := sortPairs s.map
  let live0 := mp.map (·.2)
  let live := s.pcs.foldl (fun acc p => match pcLocal p with
    | some m => if acc.contains m then acc else acc ++ [m]
    | none => acc) live0
  let f (m : Nat) : Nat := (live.findIdx? (· == m)).getD m
  let cell (m : Nat) : Mu :=
    let μ := s.mu m
    { writer := μ.writer, readers := sortNat μ.readers, pending := sortNat μ.pending, wq := sortNat μ.wq }
  { pcs := s.pcs.map (renPc f), map := mp.map (fun p => (p.1, f p.2)), heap := live.map cell,
    wh := sortPairs s.wh, rh := sortPairs s.rh }

/-- closure under internal steps: work list + hash set; fuel-bounded so that it is an ordinary (provable) definition:
`C09.closeF_sound` / `C09.judge_accept_sound` (Props/C09accept.lean) are about exactly this function -/
def closeF (rw : Bool) : Nat → Std.HashSet State → List State → Array State → Array State
  | 0, _, _, acc => acc
  | fuel + 1, seen, todo, acc =>
    match todo with
    | [] => acc
    | s :: rest =>
      let nexts := (succ rw true [] s).filterMap (fun p => match p.1 with | none => some (norm p.2) | some _ => none)
      let r := nexts.foldl (fun (x : Std.HashSet State × List State × Array State) s' =>
        if x.1.contains s' then x else (x.1.insert s', s' :: x.2.1, x.2.2.push s')) (seen, rest, acc)
      closeF rw fuel r.1 r.2.1 r.2.2

/-- the budget is far beyond any state set the judge meets (a run out of fuel would only make the judge accept fewer traces) -/
def closeBudget : Nat := 10000000

def close (rw : Bool) (seen : Std.HashSet State) (todo : List State) (acc : Array State) : Array State :=
  closeF rw closeBudget seen todo acc

/-- the states after the visible event `e` (cf. `Conc.stepEvent`) -/
def stepEvent (rw : Bool) (ops : List Op) (ss : List State) (e : Event) : List State :=
  let next := ss.flatMap (fun s => (succ rw true ops s).filterMap (fun p => match p.1 with
    | some e' => if e' = e then some (norm p.2) else none
    | none => none))
  let (seen, start) := next.foldl (fun (x : Std.HashSet State × Array State) s' =>
      if x.1.contains s' then x else (x.1.insert s', x.2.push s')) (({} : Std.HashSet State), #[])
  (close rw seen start.toList start).toList

def sizeTag (n : Nat) : String :=
  if n ≤ 1 then "states:1" else if n ≤ 8 then "states:2-8" else if n ≤ 64 then "states:9-64" else "states:>64"

/-- advance the model state set by one visible event -/
def modelStep (ref : Bool) (st : St) (t : Nat) (ops : List Op) (e : Event) (name : String) : St × String :=
  match st.rejected with
  | some r => (st, r)
  | none =>
    let ss' := if ref then Conc.stepEvent (sys st.rw 0 ops) 64 (st.ss.map (pad t)) e
               else stepEvent st.rw ops (st.ss.map (pad t)) e
    if ss'.isEmpty then
      let r := "rejected:" ++ name
      ({ st with ss := [], rejected := some r }, r)
    else ({ st with ss := ss' }, "ok")

def writeLike (kd : Kind) : Bool :=
  match kd with
  | .lock | .trylock | .unlock => true
  | _ => false

/-- does the presence of `p` (another goroutine's call in progress on the same key) count as contention for `kd`? -/
def contends (kd : Kind) (p : Pend) : Bool :=
  match kd with
  | .tryrlock => writeLike p.kind
  | _ => true

def occupied (st : St) (kd : Kind) (k : Nat) : Bool :=
  st.wh.any (fun p => p.2 == k) || (kd != .tryrlock && st.rh.any (fun p => p.2 == k))

def specInv (st : St) (t : Nat) (kd : Kind) (k : Nat) : St × List String :=
  let others := st.pend.filter (fun p => p.key == k && p.t != t)
  let c := occupied st kd k || others.any (contends kd)
  -- this call is contention for the pending Try* calls of the others on the same key
  let me : Pend := { t := t, kind := kd, key := k, contended := c }
  let pend := st.pend.map (fun p => if p.key == k && p.t != t && contends p.kind me then { p with contended := true } else p)
  let held := st.wh.any (fun p => p.2 == k) || st.rh.any (fun p => p.2 == k)
  let tags := (if c then ["inv.contended"] else ["inv.uncontended"]) ++
    (if (kd == .lock || kd == .rlock) && held then ["inv." ++ kindName kd ++ ".onheld"] else []) ++
    (if others.any (fun p => p.kind == kd) && !(st.wh ++ st.rh).any (fun p => p.2 == k) then ["inv.race-same-op"] else [])
  let st := { st with pend := me :: pend.filter (fun p => p.t != t) }
  match kd with
  | .unlock =>
    if st.wh.contains (t, k) then ({ st with wh := st.wh.erase (t, k) }, tags)
    else (st, "script.unlock-not-held" :: tags)
  | .runlock =>
    if st.rh.contains (t, k) then ({ st with rh := st.rh.erase (t, k) }, tags)
    else (st, "script.runlock-not-held" :: tags)
  | _ => (st, tags)

def violate (st : St) (msg : String) : St :=
  match st.violated with
  | some _ => st
  | none => { st with violated := some ("violated:" ++ msg) }

def specRes (st : St) (t : Nat) (r : Res) : St × List String :=
  match st.pend.find? (fun p => p.t == t) with
  | none => (st, ["script.res-without-inv"])
  | some p =>
    let k := p.key
    let st := { st with pend := st.pend.filter (fun q => q.t != t) }
    let wOcc := st.wh.any (fun q => q.2 == k)
    let rOcc := st.rh.any (fun q => q.2 == k)
    let tag := "res." ++ kindName p.kind ++ "." ++ resName r
    match p.kind, r with
    | .lock, .done | .trylock, .tt =>
      let st := if wOcc || rOcc then violate st s!"{kindName p.kind}-{k}-acquired-by-{t}-while-held" else st
      ({ st with wh := (t, k) :: st.wh }, [tag])
    | .rlock, .done | .tryrlock, .tt =>
      let st := if wOcc then violate st s!"{kindName p.kind}-{k}-acquired-by-{t}-while-write-held" else st
      ({ st with rh := (t, k) :: st.rh }, [tag])
    | .trylock, .ff | .tryrlock, .ff =>
      if p.contended then (st, [tag])
      else (violate st s!"{kindName p.kind}-{k}-by-{t}-failed-on-free-key", [tag, "res.try.spurious-false"])
    | _, _ => (st, [tag])

def specOut (st : St) : Option String := some (st.violated.getD "ok")

def step (ref : Bool) (st : St) (toks : List Val) (_impl : String) : St × Out :=
  match toks with
  | [.w "km", .i rw] =>
    let st : St := { started := true, rw := rw != 0, ss := [init 0] }
    (st, { model := "ok", spec := some "ok", tags := [if rw != 0 then "km.rw" else "km.plain"] })
  | [.w "inv", .i t, .w kd, .i k] =>
    match st.started, kindOf kd with
    | true, some kind =>
      if t < 0 || k < 0 then (st, { model := "bad-op" }) else
      let t := t.toNat
      let k := k.toNat
      -- the ClearKey proviso, decided on real-time overlap: a clear of a key that is held or has a call in progress, or any call on a
      -- key whose clear is in progress
      let heldK := st.wh.any (fun p => p.2 == k) || st.rh.any (fun p => p.2 == k)
      let othersK := st.pend.filter (fun p => p.key == k && p.t != t)
      let breaks := (kind == .clear && (heldK || !othersK.isEmpty)) || othersK.any (fun p => p.kind == .clear)
      if st.outside || breaks then
        ({ st with outside := true }, { model := "ok", spec := some "ok", tags := ["outside.clear-proviso"] }) else
      let op : Op := ⟨kind, k⟩
      let (st, m) := modelStep ref st t [op] (.inv t op) s!"inv_{t}_{kd}_{k}"
      let (st, tags) := specInv st t kind k
      (st, { model := m, spec := specOut st, tags := ("inv." ++ kd) :: sizeTag st.ss.length :: tags })
    | _, _ => (st, { model := "bad-op" })
  | [.w "res", .i t, .w r] =>
    match st.started, resOf r with
    | true, some res =>
      if t < 0 then (st, { model := "bad-op" }) else
      if st.outside then (st, { model := "ok", spec := some "ok", tags := ["outside.clear-proviso"] }) else
      let t := t.toNat
      let (st, m) := modelStep ref st t [] (.res t res) s!"res_{t}_{r}"
      let (st, tags) := specRes st t res
      (st, { model := m, spec := specOut st, tags := sizeTag st.ss.length :: tags })
    | _, _ => (st, { model := "bad-op" })
  | [.w "step", _, _] => (st, { model := "ok", spec := some "ok" })     -- step-level lines are judged by "C09conc"
  | [.w "iter", _, _] => (st, { model := "ok", spec := some "ok" })
  | _ => (st, { model := "bad-op" })

def judge : Judge := { σ := St, init := {}, step := step false }

/-- reference judge: the same with `Conc.stepEvent` (fuel 64) on un-normalised states; slow, for cross-checking -/
def judgeRef : Judge := { σ := St, init := {}, step := step true }

end TypVerif.Drv.C09
