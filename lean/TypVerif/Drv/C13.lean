import TypVerif.Drv.Proto
import TypVerif.Model.Chunk
import TypVerif.Spec.Chunk
/-
Judge for C13.  Lines:
  chunk <list> <size>        => <list of lists> | panic:divzero
  chunkfunc <list> <size>    => <list of lists>          (callback trace)
  windowed <list> <size>     => <list of lists>
  windowedfunc <list> <size> => <list of lists>
  pairs <list>               => <list of 2-lists>
  pairsfunc <list>           => <list of 2-lists>
The specification is a function for size ≥ 1; for size ≤ 0 (outside the property) only model = impl is compared.
-/
namespace TypVerif.Drv.C13
open TypVerif.Proto
open TypVerif

def pairVal (p : Int × Int) : Val := .l [.i p.1, .i p.2]

def step (_ : Unit) (toks : List Val) (_impl : String) : Unit × Out :=
  match toks with
  | [.w "chunkunits", .i n, .i size, .i variant] =>
    -- n zero-size elements (n huge), only the piece LENGTHS are observed: `C13.chunk_lengths` / `chunk_count` / `windowed_*` as arithmetic
    if n < 0 ∨ size ≤ 0 then ((), { model := "unmodelled", tags := ["chunkunits.bad"] }) else
    let N := n.toNat
    let S := size.toNat
    let r :=
      if variant == 0 ∨ variant == 1 then
        List.replicate (N / S) (S : Int) ++ (if N % S = 0 then [] else [((N % S : Nat) : Int)])
      else if N < S then [0, -1, -1] else [((N - S + 1 : Nat) : Int), (S : Int), (S : Int)]
    ((), { model := (ofInts r).render, spec := some (ofInts r).render, tags := ["chunkunits"] })
  | [.w "chunk", l, .i size] =>
    match l.ints? with
    | some s =>
      if size ≤ 0 then
        -- Go: len==0 returns nil before dividing; size = 0 divides by zero; size < 0 is outside the model
        if s.length = 0 then ((), { model := "[]", tags := ["chunk.empty"] })
        else if size = 0 then ((), { model := "panic:divzero", tags := ["chunk.divzero"] })
        else ((), { model := "unmodelled", tags := ["chunk.neg"] })
      else
        let m := Model.Chunk.chunk s size.toNat
        let sp := Spec.Chunk.chunks size.toNat s
        let tag := if s.length % size.toNat = 0 then "chunk.even" else "chunk.rem"
        let tag2 := if s.length < size.toNat then "chunk.size>n" else if s.length = size.toNat then "chunk.size=n" else "chunk.size<n"
        ((), { model := (ofIntss m).render, spec := some (ofIntss sp).render, tags := [tag, tag2] })
    | none => ((), { model := "bad-op" })
  | [.w "chunkfunc", l, .i size] =>
    match l.ints? with
    | some s =>
      if size ≤ 0 then
        if s.length = 0 then ((), { model := "[]" })
        else if size = 0 then ((), { model := "panic:divzero" })
        else ((), { model := "unmodelled" })
      else
        let m := Model.Chunk.chunkFunc s size.toNat
        let sp := Spec.Chunk.chunks size.toNat s
        ((), { model := (ofIntss m).render, spec := some (ofIntss sp).render, tags := ["chunkfunc"] })
    | none => ((), { model := "bad-op" })
  | [.w "windowed", l, .i size] =>
    match l.ints? with
    | some s =>
      if size ≤ 0 then ((), { model := "unmodelled" })
      else
        let m := Model.Chunk.windowed s size.toNat
        let sp := Spec.Chunk.windows size.toNat s
        ((), { model := (ofIntss m).render, spec := some (ofIntss sp).render,
               tags := [if s.length < size.toNat then "windowed.none" else "windowed.some"] })
    | none => ((), { model := "bad-op" })
  | [.w "windowedfunc", l, .i size] =>
    match l.ints? with
    | some s =>
      if size ≤ 0 then ((), { model := "unmodelled" })
      else
        let m := Model.Chunk.windowedFunc s size.toNat
        let sp := Spec.Chunk.windows size.toNat s
        ((), { model := (ofIntss m).render, spec := some (ofIntss sp).render, tags := ["windowedfunc"] })
    | none => ((), { model := "bad-op" })
  | [.w "pairs", l] =>
    match l.ints? with
    | some s =>
      let m := Model.Chunk.pairs s
      let sp := Spec.Chunk.pairs s
      ((), { model := (Val.l (m.map pairVal)).render, spec := some (Val.l (sp.map pairVal)).render,
             tags := [if s.length < 2 then "pairs.none" else "pairs.some"] })
    | none => ((), { model := "bad-op" })
  | [.w "pairsfunc", l] =>
    match l.ints? with
    | some s =>
      let m := Model.Chunk.pairsFunc s
      let sp := Spec.Chunk.pairs s
      ((), { model := (Val.l (m.map pairVal)).render, spec := some (Val.l (sp.map pairVal)).render, tags := ["pairsfunc"] })
    | none => ((), { model := "bad-op" })
  | _ => ((), { model := "bad-op" })

def judge : Judge := { σ := Unit, init := (), step := step }

end TypVerif.Drv.C13
