import TypVerif.Drv.Proto
import TypVerif.Model.Sorted
import TypVerif.Spec.Sorted
/-
Judge for C07 (`slices.Sorted[int]`).  Lines (PROTOCOL.md, C07):
  new <less> <list> <extracap> => ok        less ids: 0 `a<b`, 1 `a>b`, 2 `a/2 < b/2` (ties between distinguishable values)
  input                        => <list>    the harness's input slice as it is now (must equal the list given to `new`)
  slice                        => <list>
  add <v>                      => <index>
  remove <v>                   => <index> | panic:*
  removeat <i>                 => ok | panic:custom
  index <v> / contains <v> / get <i> / len

less ids 0 and 1 are strict total orders consistent with `==`: the property promises a function for every line, so
`spec` is `Spec.Sorted` (sorted arrangement of the multiset, idxOf, erase …), and `model` is the binary-search model.
less id 2 is only a strict weak order: the property promises sortedness and the multiset, not Index/Remove semantics:
`slice` is judged relationally (sorted w.r.t. less, permutation of the model's content); `add/index/remove/contains/get`
are compared with the model only (which follows the real binary search and so is exact).
`extracap` (spare capacity of the input slice) does not exist in the model and is ignored.
-/
namespace TypVerif.Drv.C07
open TypVerif.Proto
open TypVerif

def lessOf : Int → Option (Int → Int → Bool)
  | 0 => some (fun a b => decide (a < b))
  | 1 => some (fun a b => decide (a > b))
  | 2 => some (fun a b => decide (Int.tdiv a 2 < Int.tdiv b 2))
  | 3 => some (fun a b => decide (a < b))   -- NewSortedOrdered over ints
  | 4 => some (fun a b => decide (a < b))   -- NewSortedOrdered over fixed-width decimal strings (glue in the harness)
  | _ => none

structure St where
  id : Int
  input : List Int
  m : Model.Sorted.Sorted Int          -- the model
  sp : List Int                        -- the specification's state (ids 0 and 1)

abbrev State := Option St

def total (id : Int) : Bool := id == 0 || id == 1 || id == 3 || id == 4

/-- for a non-total `less` the specification state just follows the model (so that `get/removeat/len`, which the
property promises for every `less`, are still judged against `Spec` functions on the same content) -/
def St.sync (s : St) : St := if total s.id then s else { s with sp := s.m.slice }

def renderExcept (f : β → String) : Except String β → String
  | .ok b => f b
  | .error c => "panic:" ++ c

def isPerm (a b : List Int) : Bool :=
  a.mergeSort (fun x y => decide (x ≤ y)) == b.mergeSort (fun x y => decide (x ≤ y))

def posTag (i : Int) (n : Nat) : String :=
  if i == 0 then (if n == 0 then "empty" else "front") else if i == (n : Int) then "back" else "mid"

def step (st : State) (toks : List Val) (impl : String) : State × Out :=
  match toks, st with
  | [.w "new", .i id, l, .i _extracap], _ =>
    match lessOf id, l.ints? with
    | some less, some init =>
      let w := Model.Sorted.newSorted init less
      let sp := Spec.Sorted.new less init
      let tags := [s!"new.less{id}",
                   if decide (Spec.Order.IsSorted less init) then "new.presorted" else "new.unsorted",
                   if init.length == 0 then "new.empty" else "new.nonempty"]
      (some (St.sync { id := id, input := w.input, m := w.s, sp := sp }), { model := "ok", spec := some "ok", tags := tags })
    | _, _ => (st, { model := "bad-op" })
  | [.w "input"], some s =>
    -- NewSorted copies: the caller's slice is what it was
    let r := (ofInts s.input).render
    (st, { model := r, spec := some r, tags := ["input"] })
  | [.w "slice"], some s =>
    let m := (ofInts s.m.slice).render
    if total s.id then
      (st, { model := m, spec := some (ofInts s.sp).render, tags := ["slice.exact"] })
    else
      -- relational: sorted w.r.t. less and a permutation of the model's content
      match (parseTok impl).ints? with
      | some got =>
        let sortedOk := decide (Spec.Order.IsSorted s.m.less got)
        let permOk := isPerm got s.m.slice
        if sortedOk && permOk then
          (st, { model := impl, tags := ["slice.relational", if impl == m then "slice.rel.same" else "slice.rel.differs"] })
        else
          (st, { model := s!"violation(sorted={sortedOk},perm={permOk},model={m})", spec := some s!"violation(sorted={sortedOk},perm={permOk},model={m})",
                 tags := ["slice.relational"] })
      | none => (st, { model := m, tags := ["slice.unparsed"] })
  | [.w "add", .i v], some s =>
    let (m', i) := s.m.add v
    let (sp', j) := Spec.Sorted.add s.m.less s.sp v
    let st' := some (St.sync { s with m := m', sp := sp' })
    let tags := ["add." ++ posTag i s.m.slice.length, if s.m.slice.contains v then "add.dup" else "add.fresh"]
    (st', { model := toString i, spec := if total s.id then some (toString j) else none, tags := tags })
  | [.w "addpanic", .i v, .i _k], some s =>
    -- Add with a less function that panics on its k-th call, recovered by the caller (judged in the harness: still sorted, the old multiset with or
    -- without v); the judge follows: `nopanic i` is an ordinary Add, `panicked 1` leaves v in, `panicked 0` leaves the contents alone
    if impl.startsWith "nopanic " then
      let (m', i) := s.m.add v
      let (sp', j) := Spec.Sorted.add s.m.less s.sp v
      (some (St.sync { s with m := m', sp := sp' }),
       { model := "nopanic " ++ toString i, spec := if total s.id then some ("nopanic " ++ toString j) else none, tags := ["addpanic.nopanic"] })
    else if impl == "panicked 1" then
      let (m', _) := s.m.add v
      let (sp', _) := Spec.Sorted.add s.m.less s.sp v
      (some (St.sync { s with m := m', sp := sp' }), { model := "panicked 1", spec := some "panicked 1", tags := ["addpanic.in"] })
    else (some s, { model := "panicked 0", spec := some "panicked 0", tags := ["addpanic.out"] })
  | [.w "remove", .i v], some s =>
    let (m', i) := s.m.remove v
    let (sp', j) := Spec.Sorted.remove s.sp v
    let st' := some (St.sync { s with m := m', sp := sp' })
    let tags := [if i == -1 then (if s.m.slice.contains v then "remove.missed" else "remove.absent") else "remove.present"]
    (st', { model := toString i, spec := if total s.id then some (toString j) else none, tags := tags })
  | [.w "removeat", .i i], some s =>
    match s.m.removeAtIdx i, Spec.Sorted.removeAt s.sp i with
    | .ok m', .ok sp' =>
      (some (St.sync { s with m := m', sp := sp' }), { model := "ok", spec := some "ok", tags := ["removeat.ok"] })
    | .error c, .error c' =>
      (st, { model := "panic:" ++ c, spec := some ("panic:" ++ c'), tags := ["removeat.panic"] })
    | .ok m', .error c' =>
      (some { s with m := m' }, { model := "ok", spec := some ("panic:" ++ c') })
    | .error c, .ok sp' =>
      (some { s with sp := sp' }, { model := "panic:" ++ c, spec := some "ok" })
  | [.w "index", .i v], some s =>
    let i := s.m.index v
    let j := Spec.Sorted.index s.sp v
    let tags := [if i == -1 then (if s.m.slice.contains v then "index.missed" else "index.absent") else "index.present"]
    (st, { model := toString i, spec := if total s.id then some (toString j) else none, tags := tags })
  | [.w "contains", .i v], some s =>
    let b := s.m.contains v
    let c := Spec.Sorted.contains s.sp v
    (st, { model := (ofBool b).render, spec := if total s.id then some (ofBool c).render else none,
           tags := [if b then "contains.true" else "contains.false"] })
  | [.w "get", .i i], some s =>
    let r := renderExcept (fun (a : Int) => toString a) (s.m.get i)
    let q := renderExcept (fun (a : Int) => toString a) (Spec.Sorted.get s.sp i)
    (st, { model := r, spec := some q,
           tags := [if r.startsWith "panic" then "get.panic" else "get.ok"] })
  | [.w "len"], some s =>
    (st, { model := toString s.m.len, spec := some (toString s.sp.length), tags := ["len"] })
  | _, _ => (st, { model := "bad-op" })

def judge : Judge := { σ := State, init := none, step := step }

end TypVerif.Drv.C07
