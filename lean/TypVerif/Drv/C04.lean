import TypVerif.Drv.Proto
import TypVerif.Model.SyncMap
import TypVerif.Spec.PMap
/-
Judge for C04 (sequential part), one `sync2.Map[int,int]` per world.  Lines:
  load <k>            => <v> <bool>
  store <k> <v>       => ok
  loadorstore <k> <v> => <actual> <loaded>
  loadanddelete <k>   => <v> <loaded>
  delete <k>          => ok
  range <n>           => <list of [k,v]>      relational (order unspecified)
  layout              => [readLen,amended,dirtyLen|-1,misses,expunged,nil]   model only
State = model state, specification map, and the list of keys ever written (a superset of the support
of the specification map, used to compute its size).
-/
namespace TypVerif.Drv.C04
open TypVerif.Proto
open TypVerif
open TypVerif.Model.SyncMap

abbrev MS := State Int Int

structure St where
  m : MS := {}
  sp : Spec.PMap.PMap Int Int := Spec.PMap.empty
  keys : List Int := []

def renderOpt : Option Int → String
  | some v => s!"{v} true"
  | none => "0 false"

def renderPair (p : Int × Bool) : String := s!"{p.1} {if p.2 then "true" else "false"}"

def expCount (s : MS) : Nat := (s.read.filter (fun p => isExpunged (getP s p.2))).length

/-- structural events between two model states -/
def eventTags (pre post : MS) : List String :=
  (if pre.dirty.isSome && !post.dirty.isSome then ["ev.promote"] else []) ++
  (if !pre.dirty.isSome && post.dirty.isSome then ["ev.dirtyLocked"] else []) ++
  (if !pre.dirty.isSome && post.dirty.isSome && expCount post > 0 then ["ev.expunge"] else []) ++
  (if pre.dirty.isSome && post.dirty.isSome && expCount post < expCount pre then ["ev.unexpunge"] else []) ++
  (if post.fault then ["ev.FAULT"] else [])

def pClass (s : MS) (e : EId) : String :=
  match getP s e with
  | .nil => "nil"
  | .expunged => "expunged"
  | .val _ => "val"

/-- which path of the code the call takes (decided on the pre-state) -/
def pathTag (s : MS) (op : String) (k : Int) : String :=
  match alookup k s.read with
  | some e => s!"{op}.read.{pClass s e}"
  | none =>
    if op == "store" || op == "los" then
      match alookup k (dirtyMap s) with
      | some e => s!"{op}.dirty.{pClass s e}"
      | none => if s.amended then s!"{op}.new.amended" else s!"{op}.new.first"
    else if s.amended then
      match alookup k (dirtyMap s) with
      | some e => s!"{op}.miss.dirty.{pClass s e}"
      | none => s!"{op}.miss.absent"
    else s!"{op}.miss.clean"

def addKey (ks : List Int) (k : Int) : List Int := if ks.contains k then ks else k :: ks

def specSize (st : St) : Nat := (st.keys.filter (fun k => (st.sp k).isSome)).length

def distinct : List Int → Bool
  | [] => true
  | x :: xs => !xs.contains x && distinct xs

/-- the Range predicate on the implementation's callback list -/
def rangeCheck (st : St) (n : Int) (impl : String) : Option String :=
  match (parseTok impl).intss? with
  | none => some "range:unparsable"
  | some rows =>
    if !rows.all (fun r => r.length == 2) then some "range:row-shape"
    else
      let ks := rows.map (fun r => r.headD 0)
      if !distinct ks then some "range:duplicate-key"
      else if !rows.all (fun r => st.sp (r.headD 0) == some (r.getD 1 0)) then some "range:pair-not-in-map"
      else
        let size := specSize st
        let want := if n ≤ 0 then size else min n.toNat size
        if rows.length != want then some s!"range:count-want-{want}" else none

def step (st : St) (toks : List Val) (impl : String) : St × Out :=
  match toks with
  | [.w "load", .i k] =>
    let r := load st.m k
    let sr := Spec.PMap.apply st.sp (.load k)
    let so := match sr.2 with | .val o => renderOpt o | _ => "?"
    ({ st with m := r.1, sp := sr.1 },
     { model := renderOpt r.2, spec := some so, tags := pathTag st.m "load" k :: eventTags st.m r.1 })
  | [.w "store", .i k, .i v] =>
    let m' := store st.m k v
    let sr := Spec.PMap.apply st.sp (.store k v)
    ({ m := m', sp := sr.1, keys := addKey st.keys k },
     { model := if m'.fault then "panic:other" else "ok", spec := some "ok",
       tags := pathTag st.m "store" k :: eventTags st.m m' })
  | [.w "loadorstore", .i k, .i v] =>
    let r := loadOrStore st.m k v
    let sr := Spec.PMap.apply st.sp (.loadOrStore k v)
    let so := match sr.2 with | .pair a l => renderPair (a, l) | _ => "?"
    ({ m := r.1, sp := sr.1, keys := addKey st.keys k },
     { model := if r.1.fault then "panic:other" else renderPair r.2, spec := some so,
       tags := pathTag st.m "los" k :: eventTags st.m r.1 })
  | [.w "loadanddelete", .i k] =>
    let r := loadAndDelete st.m k
    let sr := Spec.PMap.apply st.sp (.loadAndDelete k)
    let so := match sr.2 with | .val o => renderOpt o | _ => "?"
    ({ st with m := r.1, sp := sr.1 },
     { model := renderOpt r.2, spec := some so, tags := pathTag st.m "lad" k :: eventTags st.m r.1 })
  | [.w "delete", .i k] =>
    let m' := delete st.m k
    let sr := Spec.PMap.apply st.sp (.delete k)
    ({ st with m := m', sp := sr.1 },
     { model := "ok", spec := some "ok", tags := pathTag st.m "del" k :: eventTags st.m m' })
  | [.w "range", .i n] =>
    -- the layout after Range does not depend on the visiting order: run the model in list order
    let r := range st.m n
    let size := specSize st
    let t1 := if st.m.amended then "range.promote" else "range.clean"
    let t2 := if n ≤ 0 then "range.all" else if n.toNat < size then "range.stopped" else "range.n>=size"
    match rangeCheck st n impl with
    | none =>
      -- the model's own callback list must satisfy the same predicate (it is one admissible order)
      let mine := (Val.l (r.2.map (fun p => Val.l [.i p.1, .i p.2]))).render
      let selfOk := (rangeCheck st n mine).isNone
      ({ st with m := r.1 },
       { model := if selfOk then impl else s!"model-range-bad:{mine}", spec := some impl,
         tags := t1 :: t2 :: eventTags st.m r.1 })
    | some diag =>
      ({ st with m := r.1 }, { model := diag, spec := some diag, tags := [t1, t2] })
  | [.w "layout"] =>
    (st, { model := (ofInts (layout st.m)).render,
           tags := [if st.m.amended then "layout.amended" else
                    if expCount st.m > 0 then "layout.clean.expunged?" else "layout.clean"] })
  | _ => (st, { model := "bad-op" })

def judge : Judge := { σ := St, init := {}, step := step }

end TypVerif.Drv.C04
