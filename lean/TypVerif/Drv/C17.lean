import TypVerif.Drv.Proto
import TypVerif.Conc.Sys
import TypVerif.Model.Once
import TypVerif.Spec.Once
/-
Judge for C17 (event traces, PROTOCOL.md "Event-trace lines" / C17).  Every line has implementation result `ok`.

  once <arity>        scenario header (arity 1..3; the result tuples are lists of that length)
  call <t>            goroutine t is about to call Do(f_t)
  fstart <t>          f_t started
  fend <t> <r>        f_t is about to return r
  ret <t> <r>         Do returned r to goroutine t
  fpanic <t>          f_t panics (treated as `fend t [0,…,0]`; that caller never returns)

Model output: `ok` while the set of model states compatible with the events so far is non-empty, then
`rejected:<event>` for the first event that empties it and `rejected:earlier` afterwards.  The set is advanced
by one event per line with `Conc.stepEvent` (subset construction over the internal closure).
Specification output: `ok` while `Spec.Once.Mon` accepts the history, `violated:<what>` from the first
violating event on.

State-space reduction (glue, unverified): with N pending callers the internal closure of `Model.Once.sys`
has of the order of 2^N states (every caller may or may not have performed its fast-path load).  The judge
therefore steps the system `red`, which has the same states and a subset of the transitions of
`Model.Once.sys`: whenever some goroutine has an *urgent* internal step — the fast-path load, the re-check
under the mutex, the assignment of the result fields, the deferred `done.Store(1)`, the deferred `Unlock`,
and `Lock` once `done = 1` — the lowest-numbered such step is the only successor.  The only internal choice
that is left is which waiting goroutine acquires the mutex while `done = 0` (the winner).  Every trace
accepted by `red` is accepted by the model (subset of transitions); conversely urgent steps are invisible,
stay enabled, and only ever shrink the set of future visible behaviours of *other* goroutines when taken late
(a goroutine that has not yet loaded `done` can do everything one that has loaded `done = 0` can), so no
visible trace is lost.  `redAgreesSmall` below compares both systems on all traces of two goroutines
(`#eval redAgreesSmall 8` = true; the same comparison for three goroutines, all traces to full length, was run
when this file was written and agreed).
-/
namespace TypVerif.Drv.C17
open TypVerif TypVerif.Proto TypVerif.Model.Once

def urgent (s : State) (t : Nat) : Bool :=
  match s.pc t with
  | .fast | .check | .assign _ | .store | .unlock => true
  | .lock => s.mu == none && s.done
  | _ => false

/-- the lowest-numbered urgent internal step, if any -/
def pick (s : State) : Option State :=
  (List.range s.pcs.length).findSome? (fun t =>
    if urgent s t then (stepT (fun _ => []) s t).head?.map (·.2) else none)

def normalize : Nat → State → State
  | 0, s => s
  | fuel + 1, s => match pick s with
    | some s' => normalize fuel s'
    | none => s

/-- the reduced system: same states, urgent internal steps first -/
def red (n arity : Nat) (res : Nat → List Int) : Conc.Sys :=
  { State := State, Event := Event, init := init n arity,
    succ := fun s => match pick s with
      | some _ => [(none, normalize (4 * s.pcs.length + 8) s)]
      | none => succ res s }

instance (n a : Nat) (res : Nat → List Int) : DecidableEq (red n a res).State := inferInstanceAs (DecidableEq State)
instance (n a : Nat) (res : Nat → List Int) : DecidableEq (red n a res).Event := inferInstanceAs (DecidableEq Event)

def padTo (n : Nat) (s : State) : State :=
  { s with pcs := s.pcs ++ List.replicate (n - s.pcs.length) .idle }

structure St where
  arity : Nat := 0
  started : Bool := false                 -- header seen
  ss : List State := []
  n : Nat := 0
  rejected : Bool := false
  mon : Except String Spec.Once.Mon := .ok Spec.Once.Mon.init
  completed : Bool := false               -- a fend was seen
  lateCallers : List Nat := []            -- goroutines whose `call` came after the fend

def closureFuel : Nat := 64

def parseEvent (toks : List Val) : Option Event :=
  match toks with
  | [.w "call", .i t] => if t ≥ 0 then some (.call t.toNat) else none
  | [.w "fstart", .i t] => if t ≥ 0 then some (.fstart t.toNat) else none
  | [.w "fend", .i t, l] => match l.ints? with
    | some r => if t ≥ 0 then some (.fend t.toNat r) else none
    | none => none
  | [.w "ret", .i t, l] => match l.ints? with
    | some r => if t ≥ 0 then some (.ret t.toNat r) else none
    | none => none
  | _ => none

def Event.tid : Event → Nat
  | .call t | .fstart t | .fend t _ | .ret t _ => t

def Event.render : Event → String
  | .call t => s!"call-{t}"
  | .fstart t => s!"fstart-{t}"
  | .fend t r => s!"fend-{t}-{(ofInts r).render}"
  | .ret t r => s!"ret-{t}-{(ofInts r).render}"

def specOut (m : Except String Spec.Once.Mon) : String :=
  match m with
  | .ok _ => "ok"
  | .error w => s!"violated:{w}"

def step (st : St) (toks : List Val) (_impl : String) : St × Out :=
  match toks with
  | [.w "once", .i a] =>
    let arity := a.toNat
    let st' : St := { arity := arity, started := true, ss := [init 0 arity] }
    (st', { model := "ok", spec := some "ok", tags := [s!"once.arity{arity}"] })
  | _ =>
    -- `fpanic t`: f_t panics instead of returning.  For sync.Once that invocation still counts (`done` is set by a deferred store) and the
    -- result fields keep their zero values: it is the event `fend t [0,…,0]`; the panicking caller itself never returns.
    let toks := match toks with
      | [.w "fpanic", .i t] => [.w "fend", .i t, ofInts (List.replicate st.arity 0)]
      | _ => toks
    match parseEvent toks with
    | none => (st, { model := "bad-op" })
    | some e =>
      if !st.started then (st, { model := "bad-op" }) else
      -- specification monitor
      let mon' : Except String Spec.Once.Mon := match st.mon with
        | .ok m => m.step e
        | .error w => .error w
      -- model state set
      let t := Event.tid e
      let n := if t + 1 > st.n then t + 1 else st.n
      let ss := if n > st.n then st.ss.map (padTo n) else st.ss
      let res : Nat → List Int := match e with
        | .fend _ r => fun _ => r
        | _ => fun _ => []
      let arityOk := match e with
        | .fend _ r | .ret _ r => r.length == st.arity
        | _ => true
      let ss' := if st.rejected || !arityOk then [] else Conc.stepEvent (red n st.arity res) closureFuel ss e
      let modelOut :=
        if st.rejected then "rejected:earlier"
        else if !arityOk then "rejected:arity"
        else if ss'.isEmpty then s!"rejected:{Event.render e}" else "ok"
      let completed := st.completed || (match e with | .fend _ _ => true | _ => false)
      let late := match e with
        | .call t => if st.completed then t :: st.lateCallers else st.lateCallers
        | _ => st.lateCallers
      let tags := match e with
        | .call _ => [if st.completed then "call.late" else "call.early"]
        | .fstart _ => ["fstart"]
        | .fend _ _ => ["fend"]
        | .ret t _ =>
          let winner := match st.mon with
            | .ok m => m.started == [t]
            | .error _ => false
          [if winner then "ret.winner" else if st.lateCallers.contains t then "ret.fastpath" else "ret.waiter"]
      ({ st with ss := ss', n := n, rejected := st.rejected || ss'.isEmpty, mon := mon',
                 completed := completed, lateCallers := late },
       { model := modelOut, spec := some (specOut mon'), tags := tags })

def judge : Judge := { σ := St, init := {}, step := step }

/-! cross-check of the reduction against the full model on all traces over a small alphabet
(2 goroutines, result [1], wrong result [0]), to depth 5, extending only traces the model accepts -/
def alphabet : List Event :=
  [.call 0, .call 1, .fstart 0, .fstart 1, .fend 0 [1], .fend 1 [1], .ret 0 [1], .ret 1 [1], .ret 0 [0]]

def agreeFrom : Nat → List State → List State → Bool
  | 0, _, _ => true
  | d + 1, full, reduced =>
    alphabet.all (fun e =>
      let f := Conc.stepEvent (sys 2 1 (fun _ => [1])) 64 full e
      let r := Conc.stepEvent (red 2 1 (fun _ => [1])) 64 reduced e
      (f.isEmpty == r.isEmpty) && (f.isEmpty || agreeFrom d f r))

def redAgreesSmall (depth : Nat) : Bool :=
  agreeFrom depth (Conc.tauClosure (sys 2 1 (fun _ => [1])) 64 [init 2 1])
                  (Conc.tauClosure (red 2 1 (fun _ => [1])) 64 [init 2 1])

end TypVerif.Drv.C17
