import TypVerif.Model.Bimap
/-
Specification of a bidirectional map: a finite injective map (defined on finitely many keys) `K ⇀ V`, given as a list of pairs in
which no key and no value occurs twice (`Injective`).  All operations are the obvious set operations on pairs:
  add k v      = remove every pair that uses key k or value v, then put (k,v)
  removeKey k  = remove the pair with key k,   removeVal v = remove the pair with value v
  clear        = ∅,        clone = the same set
  fwd/rev      = the two lookups,  len = number of pairs.
The specification never mentions nil maps, eviction order, or the two indexes.

The only thing imported from the model file is the script syntax `Model.Bimap.Op` (so that model and
specification run the same operation sequences); no model function is used here.
-/
namespace TypVerif.Spec.Bimap
open TypVerif.Model.Bimap (Op)

variable {K V : Type} [DecidableEq K] [DecidableEq V]

/-- a set of pairs -/
abbrev Rel (K V : Type) := List (K × V)

/-- forward lookup: the value paired with `k` -/
def fwd : Rel K V → K → Option V
  | [], _ => none
  | (a, b) :: s, k => if a = k then some b else fwd s k

/-- reverse lookup: the key paired with `v` -/
def rev : Rel K V → V → Option K
  | [], _ => none
  | (a, b) :: s, v => if b = v then some a else rev s v

/-- injective finite map: no key twice, no value twice -/
def Injective (s : Rel K V) : Prop := (s.map (·.1)).Nodup ∧ (s.map (·.2)).Nodup

def empty : Rel K V := []

def add (s : Rel K V) (k : K) (v : V) : Rel K V :=
  (k, v) :: s.filter (fun p => decide (p.1 ≠ k) && decide (p.2 ≠ v))

def removeKey (s : Rel K V) (k : K) : Rel K V := s.filter (fun p => decide (p.1 ≠ k))
def removeVal (s : Rel K V) (v : V) : Rel K V := s.filter (fun p => decide (p.2 ≠ v))
def clear (_ : Rel K V) : Rel K V := []
def clone (s : Rel K V) : Rel K V := s
def len (s : Rel K V) : Nat := s.length
def containsKey (s : Rel K V) (k : K) : Bool := (fwd s k).isSome
def containsVal (s : Rel K V) (v : V) : Bool := (rev s v).isSome

/-! worlds: handles ↦ relations -/

abbrev World (K V : Type) := List (Int × Rel K V)

def wget : World K V → Int → Option (Rel K V)
  | [], _ => none
  | (a, s) :: w, h => if a = h then some s else wget w h

def wset : World K V → Int → Rel K V → World K V
  | [], h, s => [(h, s)]
  | (a, t) :: w, h, s => if a = h then (a, s) :: w else (a, t) :: wset w h s

/-- update the relation bound to `h`, if any -/
def wupd (w : World K V) (h : Int) (f : Rel K V → Rel K V) : World K V :=
  match wget w h with
  | none => w
  | some s => wset w h (f s)

def step (w : World K V) : Op K V → World K V
  | .new h => wset w h empty
  | .add h k v => wupd w h (add · k v)
  | .rmf h k => wupd w h (removeKey · k)
  | .rmr h v => wupd w h (removeVal · v)
  | .clear h => wupd w h clear
  | .clone h r =>
    match wget w h with
    | none => w
    | some s => wset w r (clone s)

def runFrom (w : World K V) : List (Op K V) → World K V
  | [] => w
  | op :: ops => runFrom (step w op) ops

def run (ops : List (Op K V)) : World K V := runFrom [] ops

end TypVerif.Spec.Bimap
