import TypVerif.Spec.Order
/-
Specification of `slices.Sorted` for a `less` that is a strict total order consistent with `=`
(C07, second sentence): the state is THE sorted arrangement of a multiset (unique for such an order), and every
operation is a function of it, written with core `List` operations only (no binary search).
-/
namespace TypVerif.Spec.Sorted
open TypVerif.Spec.Order

/-- the sorted arrangement of a multiset -/
def sort (less : α → α → Bool) (l : List α) : List α := l.mergeSort (fun a b => !less b a)

/-- number of elements strictly below `v`: the lower bound of `v` in a sorted list -/
def lowerBound (less : α → α → Bool) (l : List α) (v : α) : Nat := l.countP (fun x => less x v)

def new (less : α → α → Bool) (init : List α) : List α := sort less init

/-- Add: the new content is the sorted arrangement with one more `v`; the result is where `v` (first) sits -/
def add [DecidableEq α] (less : α → α → Bool) (l : List α) (v : α) : List α × Int :=
  let l' := sort less (v :: l)
  (l', (l'.idxOf v : Nat))

/-- Index: first position holding the value, or -1 -/
def index [DecidableEq α] (l : List α) (v : α) : Int :=
  if v ∈ l then (l.idxOf v : Nat) else -1

def contains [DecidableEq α] (l : List α) (v : α) : Bool := decide (v ∈ l)

/-- Remove: one occurrence (the first) goes, its former position is returned; absent: nothing changes, -1 -/
def remove [DecidableEq α] (l : List α) (v : α) : List α × Int :=
  if v ∈ l then (l.erase v, (l.idxOf v : Nat)) else (l, -1)

def removeAt (l : List α) (i : Int) : Except String (List α) :=
  if 0 ≤ i ∧ i < l.length then .ok (l.eraseIdx i.toNat) else .error "custom"

def get (l : List α) (i : Int) : Except String α :=
  if 0 ≤ i ∧ i < l.length then
    match l[i.toNat]? with
    | some a => .ok a
    | none => .error "unreachable"
  else .error "custom"

end TypVerif.Spec.Sorted
