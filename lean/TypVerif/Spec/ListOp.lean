/-
Operation and result vocabulary shared by the heap model of `lists/list.go` (`Model/LinkedList.lean`)
and the abstract sequence world (`Spec/Seq.lean`).  One constructor per line of PROTOCOL.md §C06 (lists).

`Ptr` is what a Go `*Element` can be: `nil`, a real element, or (only in the heap model, and only after
`Init` was called on a non-empty list — the corner excluded from the theorem) the sentinel `&l.root`.
The specification never produces `Ptr.root`.
-/
namespace TypVerif.Spec.ListOp

abbrev ListId := Nat
abbrev ElemId := Nat

inductive Ptr where
  | null
  | root (l : ListId)
  | elem (e : ElemId)
  deriving DecidableEq, Repr, Inhabited

/-- a script-level element argument: `none` is a nil `*Element` -/
abbrev Arg := Option ElemId

def Arg.toPtr : Arg → Ptr
  | none => .null
  | some e => .elem e

inductive Op where
  | init (l : ListId)
  | pushFront (l : ListId) (v : Int)
  | pushBack (l : ListId) (v : Int)
  | insertBefore (l : ListId) (v : Int) (mark : Arg)
  | insertAfter (l : ListId) (v : Int) (mark : Arg)
  | remove (l : ListId) (e : Arg)
  | moveToFront (l : ListId) (e : Arg)
  | moveToBack (l : ListId) (e : Arg)
  | moveBefore (l : ListId) (e mark : Arg)
  | moveAfter (l : ListId) (e mark : Arg)
  | pushBackList (l o : ListId)
  | pushFrontList (l o : ListId)
  | len (l : ListId)
  | front (l : ListId)
  | back (l : ListId)
  | next (e : Arg)
  | prev (e : Arg)
  | value (e : Arg)
  | fwd (l : ListId) (fuel : Nat)   -- Front, Next, Next … at most `fuel` elements
  | bwd (l : ListId) (fuel : Nat)   -- Back, Prev, Prev … at most `fuel` elements
  deriving Repr

inductive Res where
  | unit
  | ptr (p : Ptr)
  | int (n : Int)
  | ptrs (ps : List Ptr)
  | panic (msg : String)
  deriving DecidableEq, Repr, Inhabited

end TypVerif.Spec.ListOp
