import TypVerif.Model.SortAdapters
import TypVerif.Spec.Order
/-
The documented contracts of `sort.Sort` and `sort.Stable` (DESIGN §6: "standard-library algorithms … by contract"),
as explicit hypotheses on a `SortImpl`.

A `sort.Interface` value is *consistent with an order* when it behaves like a view of a sequence of elements
compared by a fixed `lt`: `Len` is the length, `Less(i, j)` compares the elements at `i` and `j`, `Swap(i, j)`
exchanges them — all for in-range positions only (out of range the Go adapters panic, and the library never goes there).
For every such interface whose `lt` is a strict weak order:
  * `sort.Sort`   leaves a permutation, sorted (no later element `lt` an earlier one);
  * `sort.Stable` additionally keeps, for every `x`, the elements tied with `x` (neither `lt` the other) in their
    original relative order.
-/
namespace TypVerif.Spec.SortContract
open TypVerif.Model.SortAdapters TypVerif.Spec.Order

structure Consistent (I : Iface σ) (view : σ → List β) (lt : β → β → Bool) : Prop where
  len_eq : ∀ s, I.len s = (view s).length
  less_eq : ∀ s i j (hi : i < (view s).length) (hj : j < (view s).length),
    I.less s i j = lt (view s)[i] (view s)[j]
  swap_eq : ∀ s i j, i < (view s).length → j < (view s).length →
    view (I.swap s i j) = swapList (view s) i j

/-- `x` and `y` cannot be distinguished by the order -/
def tied (lt : β → β → Bool) (x y : β) : Bool := !lt x y && !lt y x

def SortContract (impl : SortImpl) : Prop :=
  ∀ (σ β : Type) (I : Iface σ) (view : σ → List β) (lt : β → β → Bool),
    StrictWeak lt → Consistent I view lt →
    ∀ s, (view (impl σ I s)).Perm (view s) ∧ IsSorted lt (view (impl σ I s))

def StableContract (impl : SortImpl) : Prop :=
  ∀ (σ β : Type) (I : Iface σ) (view : σ → List β) (lt : β → β → Bool),
    StrictWeak lt → Consistent I view lt →
    ∀ s, (view (impl σ I s)).Perm (view s) ∧ IsSorted lt (view (impl σ I s)) ∧
      ∀ x, (view (impl σ I s)).filter (tied lt x) = (view s).filter (tied lt x)

theorem StableContract.toSortContract {impl : SortImpl} (h : StableContract impl) : SortContract impl :=
  fun σ β I view lt hw hc s => ⟨(h σ β I view lt hw hc s).1, (h σ β I view lt hw hc s).2.1⟩

end TypVerif.Spec.SortContract
