import TypVerif.Model.Avl
/-
Specification for C01 / C02.

C01: a tree is a sorted multiset = a `List α` sorted by the comparator; `add` is ordered insertion (the new
value goes after all elements ≤ it), `remove v` erases one occurrence and reports membership.  Several
trees live in a world indexed by handle so that `Clone` is an operation; each tree carries the index of
its comparator in a family `cmps : ι → α → α → Int`.

C02: `AVL t` = every cached height is the true height (nil = -1, leaf = 0) and the heights of the two
subtrees of every node differ by at most one; `size`, `fib` for the depth bound.

(The import of the model is for the `Node` type only: `AVL`, `height`, `size`, `BST` are predicates on it.)
-/
namespace TypVerif.Spec.Avl
open TypVerif.Model.Avl

variable {α : Type}

/-- the comparator is a total order consistent with `==` -/
structure CmpOK (cmp : α → α → Int) : Prop where
  eq0 : ∀ a b, cmp a b = 0 ↔ a = b
  antisym : ∀ a b, cmp a b < 0 ↔ cmp b a > 0
  trans : ∀ a b c, cmp a b ≤ 0 → cmp b c ≤ 0 → cmp a c ≤ 0

/-- non-decreasing w.r.t. the comparator -/
def Sorted (cmp : α → α → Int) (l : List α) : Prop := l.Pairwise (fun a b => cmp a b ≤ 0)

/-- ordered insertion: after all elements ≤ x (i.e. before the first element strictly greater) -/
def sinsert (cmp : α → α → Int) (x : α) : List α → List α
  | [] => [x]
  | y :: ys => if cmp x y < 0 then x :: y :: ys else y :: sinsert cmp x ys

/-! ### the abstract tree: (comparator index, sorted list) -/

structure STree (ι α : Type) where
  ci : ι
  elems : List α

section ops
variable {ι : Type} [DecidableEq α]

def STree.add (cmps : ι → α → α → Int) (s : STree ι α) (v : α) : STree ι α :=
  { s with elems := sinsert (cmps s.ci) v s.elems }
def STree.remove (s : STree ι α) (v : α) : STree ι α × Bool :=
  ({ s with elems := s.elems.erase v }, decide (v ∈ s.elems))
def STree.contains (s : STree ι α) (v : α) : Bool := decide (v ∈ s.elems)
def STree.len (s : STree ι α) : Int := s.elems.length
def STree.clear (s : STree ι α) : STree ι α := { s with elems := [] }
def STree.clone (s : STree ι α) : STree ι α := s

end ops

/-! ### worlds of several objects by handle -/

abbrev World (σ : Type) := List (Nat × σ)

def World.get {σ : Type} : World σ → Nat → Option σ
  | [], _ => none
  | (k, x) :: w, h => if k = h then some x else World.get w h

def World.set {σ : Type} : World σ → Nat → σ → World σ
  | [], h, x => [(h, x)]
  | (k, y) :: w, h, x => if k = h then (k, x) :: w else (k, y) :: World.set w h x

/-- operations of a history -/
inductive Op (ι α : Type) where
  | new (h : Nat) (c : ι)
  | add (h : Nat) (v : α)
  | remove (h : Nat) (v : α)
  | contains (h : Nat) (v : α)
  | len (h : Nat)
  | clear (h : Nat)
  | clone (h h2 : Nat)
  | inorder (h : Nat)      -- SliceInOrder / WalkInOrder / String

/-- observable results -/
inductive Res (α : Type) where
  | ok
  | bool (b : Bool)
  | int (n : Int)
  | list (l : List α)
  | bad                    -- unknown handle
  deriving DecidableEq, Repr

section run
variable {ι : Type} [DecidableEq α]

def specStep (cmps : ι → α → α → Int) (w : World (STree ι α)) : Op ι α → World (STree ι α) × Res α
  | .new h c => (w.set h { ci := c, elems := [] }, .ok)
  | .add h v => match w.get h with
    | some s => (w.set h (s.add cmps v), .ok)
    | none => (w, .bad)
  | .remove h v => match w.get h with
    | some s => (w.set h (s.remove v).1, .bool (s.remove v).2)
    | none => (w, .bad)
  | .contains h v => match w.get h with
    | some s => (w, .bool (s.contains v))
    | none => (w, .bad)
  | .len h => match w.get h with
    | some s => (w, .int s.len)
    | none => (w, .bad)
  | .clear h => match w.get h with
    | some s => (w.set h s.clear, .ok)
    | none => (w, .bad)
  | .clone h h2 => match w.get h with
    | some s => (w.set h2 s.clone, .ok)
    | none => (w, .bad)
  | .inorder h => match w.get h with
    | some s => (w, .list s.elems)
    | none => (w, .bad)

def modelStep (cmps : ι → α → α → Int) (w : World (Tree α)) : Op ι α → World (Tree α) × Res α
  | .new h c => (w.set h (Tree.new (cmps c)), .ok)
  | .add h v => match w.get h with
    | some t => (w.set h (t.Add v), .ok)
    | none => (w, .bad)
  | .remove h v => match w.get h with
    | some t => (w.set h (t.Remove v).1, .bool (t.Remove v).2)
    | none => (w, .bad)
  | .contains h v => match w.get h with
    | some t => (w, .bool (t.Contains v))
    | none => (w, .bad)
  | .len h => match w.get h with
    | some t => (w, .int t.Len)
    | none => (w, .bad)
  | .clear h => match w.get h with
    | some t => (w.set h t.Clear, .ok)
    | none => (w, .bad)
  | .clone h h2 => match w.get h with
    | some t => (w.set h2 t.Clone, .ok)
    | none => (w, .bad)
  | .inorder h => match w.get h with
    | some t => (w, .list t.SliceInOrder)
    | none => (w, .bad)

/-- run a history from a world, collecting the outputs -/
def runFrom {σ : Type} (step : σ → Op ι α → σ × Res α) : σ → List (Op ι α) → σ × List (Res α)
  | w, [] => (w, [])
  | w, op :: ops =>
    let (w', r) := step w op
    let (w'', rs) := runFrom step w' ops
    (w'', r :: rs)

def runSpec (cmps : ι → α → α → Int) (ops : List (Op ι α)) : World (STree ι α) × List (Res α) :=
  runFrom (specStep cmps) [] ops
def runModel (cmps : ι → α → α → Int) (ops : List (Op ι α)) : World (Tree α) × List (Res α) :=
  runFrom (modelStep cmps) [] ops

end run

/-! ### binary search tree (non-strict on both sides: rotations may move duplicates to the left) -/

def BST (cmp : α → α → Int) : Node α → Prop
  | .nil => True
  | .node l v _ r => BST cmp l ∧ BST cmp r ∧ (∀ x ∈ l.inorder, cmp x v ≤ 0) ∧ (∀ x ∈ r.inorder, cmp v x ≤ 0)

/-- plain binary tree: what the three traversals are traversals *of* -/
inductive BinTree (α : Type) where
  | leaf
  | node (l : BinTree α) (v : α) (r : BinTree α)
  deriving Repr, DecidableEq

namespace BinTree
def pre : BinTree α → List α
  | leaf => []
  | node l v r => v :: (pre l ++ pre r)
def ino : BinTree α → List α
  | leaf => []
  | node l v r => ino l ++ v :: ino r
def post : BinTree α → List α
  | leaf => []
  | node l v r => post l ++ (post r ++ [v])
end BinTree

/-- forget the cached heights -/
def erase : Node α → BinTree α
  | .nil => .leaf
  | .node l v _ r => .node (erase l) v (erase r)

/-! ### C02 -/

/-- true height: nil = -1, leaf = 0 -/
def height : Node α → Int
  | .nil => -1
  | .node l _ _ r => 1 + max (height l) (height r)

def size : Node α → Nat
  | .nil => 0
  | .node l _ _ r => size l + 1 + size r

def AVL : Node α → Prop
  | .nil => True
  | .node l _ h r => AVL l ∧ AVL r ∧ h = 1 + max (height l) (height r) ∧
      height l - height r ≤ 1 ∧ height r - height l ≤ 1

def fib : Nat → Nat
  | 0 => 0
  | 1 => 1
  | n + 2 => fib n + fib (n + 1)

/-! ### the three comparator families of the correspondence (PROTOCOL.md, C01/C02), `α := Int` -/

/-- `typ.Compare` -/
def natCmp (a b : Int) : Int := if a > b then 1 else if a < b then -1 else 0
/-- reversed -/
def revCmp (a b : Int) : Int := natCmp b a
/-- lexicographic on `(f x, x)` -/
def lexCmp (f : Int → Int) (a b : Int) : Int :=
  if f a < f b then -1 else if f a > f b then 1 else natCmp a b
/-- lexicographic on `(x mod 7, x)`, Go's truncating `%` -/
def mod7Cmp : Int → Int → Int := lexCmp (fun x => x.tmod 7)

/-- comparator ids of the line protocol; unknown ids fall back to the natural order -/
def cmpOfId (c : Int) : Int → Int → Int :=
  if c = 1 then revCmp else if c = 2 then mod7Cmp else natCmp

/-- `AVL` is decidable (used by the C02 judge to evaluate the specification on the implementation's shape) -/
def AVL.dec : (t : Node α) → Decidable (AVL t)
  | .nil => isTrue trivial
  | .node l _ h r =>
    match AVL.dec l, AVL.dec r with
    | isTrue hl, isTrue hr =>
      if hh : h = 1 + max (height l) (height r) ∧ height l - height r ≤ 1 ∧ height r - height l ≤ 1 then
        isTrue ⟨hl, hr, hh⟩
      else isFalse (fun hx => hh hx.2.2)
    | isFalse hl, _ => isFalse (fun hx => hl hx.1)
    | _, isFalse hr => isFalse (fun hx => hr hx.2.1)

instance (t : Node α) : Decidable (AVL t) := AVL.dec t

/-- linear-time AVL check returning the height (`Lemmas.Avl.avlHeight?_iff`: `= some k ↔ AVL t ∧ height t = k`) -/
def avlHeight? : Node α → Option Int
  | .nil => some (-1)
  | .node l _ h r =>
    match avlHeight? l, avlHeight? r with
    | some hl, some hr => if h = 1 + max hl hr ∧ hl - hr ≤ 1 ∧ hr - hl ≤ 1 then some h else none
    | _, _ => none

end TypVerif.Spec.Avl
