import TypVerif.Model.Once
/-
The history predicate of C17 on event traces (`call t`, `fstart t`, `fend t r`, `ret t r`), as a monitor:
  * at most one `fstart` in the whole history                      (exactly one function, exactly once)
  * a `ret t r` comes after a `fend _ r'` and has `r = r'`         (same results, after completion)
  * `fstart t` / `ret t _` only after `call t`                     (well-formedness of the history)
  * at most one `fend`, and only of the started function
It is what the judge evaluates on traces of the real code, and `C17.spec_holds` shows every trace of
the model satisfies it.
-/
namespace TypVerif.Spec.Once
open TypVerif.Model.Once

structure Mon where
  called : List Nat
  started : List Nat
  fres : Option (List Int)
  deriving DecidableEq, Repr

def Mon.init : Mon := ⟨[], [], none⟩

def Mon.step (m : Mon) : Event → Except String Mon
  | .call t => .ok { m with called := t :: m.called }
  | .fstart t =>
    if m.started ≠ [] then .error "second-invocation"
    else if t ∉ m.called then .error "fstart-before-call"
    else .ok { m with started := [t] }
  | .fend t r =>
    if m.started ≠ [t] then .error "fend-of-unstarted-function"
    else if m.fres ≠ none then .error "second-completion"
    else .ok { m with fres := some r }
  | .ret t r =>
    if t ∉ m.called then .error "ret-before-call"
    else match m.fres with
      | none => .error "ret-before-completion"
      | some r' => if r = r' then .ok m else .error "different-results"

def Mon.run (m : Mon) : List Event → Except String Mon
  | [] => .ok m
  | e :: es => match m.step e with
    | .ok m' => m'.run es
    | .error w => .error w

/-- the history predicate -/
def holds (tr : List Event) : Bool :=
  match Mon.init.run tr with
  | .ok _ => true
  | .error _ => false

end TypVerif.Spec.Once
