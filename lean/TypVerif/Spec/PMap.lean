/-
Specification for C04: the ordinary map `K → Option V` and the result of every `sync2.Map` call on it.

`Op`/`Out` are the vocabulary shared by the specification and the model (`Model/SyncMap.lean`):
  load k            => `Out.val (some v)` / `Out.val none`       (Go: `(v,true)` / `(zero,false)`)
  store k v         => `Out.unit`
  loadOrStore k v   => `Out.pair actual loaded`
  loadAndDelete k   => `Out.val (some old)` / `Out.val none`
  delete k          => `Out.unit`
  range order n     => `Out.pairs l`: the callback sequence when the keys are visited in the order `order`
                       and the callback answers `false` on its n-th call (n ≤ 0: never).
For `range` the specification is a function once the visiting order is given: the present keys of
`order`, each with its current value, cut after the n-th.
-/
namespace TypVerif.Spec.PMap

inductive Op (K V : Type) where
  | load (k : K)
  | store (k : K) (v : V)
  | loadOrStore (k : K) (v : V)
  | loadAndDelete (k : K)
  | delete (k : K)
  | range (order : List K) (n : Int)
  deriving Repr

inductive Out (K V : Type) where
  | unit
  | val (o : Option V)
  | pair (actual : V) (loaded : Bool)
  | pairs (l : List (K × V))
  deriving Repr, DecidableEq

variable {K V : Type} [DecidableEq K]

abbrev PMap (K V : Type) := K → Option V

def empty : PMap K V := fun _ => none

def put (m : PMap K V) (k : K) (v : V) : PMap K V := fun k' => if k' = k then some v else m k'

def del (m : PMap K V) (k : K) : PMap K V := fun k' => if k' = k then none else m k'

/-- callbacks are cut after the n-th (n ≤ 0: never cut) -/
def cut {α : Type} (n : Int) (l : List α) : List α := if n ≤ 0 then l else l.take n.toNat

/-- the (key, value) pairs of the present keys of `order`, in that order -/
def visit (m : PMap K V) (order : List K) : List (K × V) :=
  order.filterMap (fun k => (m k).map (fun v => (k, v)))

def apply (m : PMap K V) : Op K V → PMap K V × Out K V
  | .load k => (m, .val (m k))
  | .store k v => (put m k v, .unit)
  | .loadOrStore k v =>
    match m k with
    | some w => (m, .pair w true)
    | none => (put m k v, .pair v false)
  | .loadAndDelete k => (del m k, .val (m k))
  | .delete k => (del m k, .unit)
  | .range order n => (m, .pairs (cut n (visit m order)))

/-- run a call sequence from a given map, collecting the outputs -/
def runFrom (m : PMap K V) : List (Op K V) → PMap K V × List (Out K V)
  | [] => (m, [])
  | op :: ops =>
    let r := apply m op
    let rest := runFrom r.1 ops
    (rest.1, r.2 :: rest.2)

def run (ops : List (Op K V)) : PMap K V × List (Out K V) := runFrom empty ops

end TypVerif.Spec.PMap
