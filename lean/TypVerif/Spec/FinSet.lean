/-
Specification for C03: finite sets as duplicate-free lists (order irrelevant; the judge sorts before
rendering), with the set algebra written directly from the definitions A∪B, A∩B, A\B, A△B, A×B.
-/
namespace TypVerif.Spec.FinSet

variable {α : Type} [DecidableEq α]

abbrev FinSet (α : Type) := List α

def has (s : FinSet α) (v : α) : Bool := s.contains v

/-- `Add`: new set, "membership changed" -/
def add (s : FinSet α) (v : α) : FinSet α × Bool := if has s v then (s, false) else (v :: s, true)

/-- `Remove`: new set, "membership changed" -/
def remove (s : FinSet α) (v : α) : FinSet α × Bool :=
  if has s v then (s.filter (fun x => !decide (x = v)), true) else (s, false)

def union (a b : FinSet α) : FinSet α := a ++ b.filter (fun x => !has a x)
def inter (a b : FinSet α) : FinSet α := a.filter (fun x => has b x)
def diff (a b : FinSet α) : FinSet α := a.filter (fun x => !has b x)
def symDiff (a b : FinSet α) : FinSet α := diff a b ++ diff b a

/-- `AddSet`: (A ∪ B, |B \ A|) -/
def addSet (a b : FinSet α) : FinSet α × Nat := (union a b, (diff b a).length)
/-- `RemoveSet`: (A \ B, |A ∩ B|) -/
def removeSet (a b : FinSet α) : FinSet α × Nat := (diff a b, (inter a b).length)

def product {β : Type} (a : FinSet α) (b : FinSet β) : List (α × β) := a.flatMap (fun x => b.map (fun y => (x, y)))

def ofList (l : List α) : FinSet α := l.foldl (fun s v => (add s v).1) []

/-- ascending order for rendering -/
def sortInts (l : List Int) : List Int := l.mergeSort (fun a b => decide (a ≤ b))

def lexLe (p q : Int × Int) : Bool := p.1 < q.1 || (p.1 == q.1 && p.2 ≤ q.2)
def sortPairs (l : List (Int × Int)) : List (Int × Int) := l.mergeSort lexLe

end TypVerif.Spec.FinSet
