/-
Specification for C05: the sequential set, one Bool per value, with the operations `Add`, `Remove`, `Has`
and their Boolean results; histories and the per-value event sequences the property talks about.
-/
namespace TypVerif.Spec.AtomicSet

variable {α : Type} [DecidableEq α]

inductive SOp (α : Type) where
  | add (v : α)
  | remove (v : α)
  | has (v : α)
  deriving Repr, DecidableEq

/-- membership state: a Bool per value -/
abbrev SState (α : Type) := α → Bool

def sempty : SState α := fun _ => false

/-- one call: new state and the reported Bool -/
def sstep (m : SState α) : SOp α → SState α × Bool
  | .add v => (fun x => if x = v then true else m x, !m v)
  | .remove v => (fun x => if x = v then false else m x, m v)
  | .has v => (m, m v)

/-- a sequential history: the calls with their results, and the final state -/
def srunFrom (m : SState α) : List (SOp α) → SState α × List (SOp α × Bool)
  | [] => (m, [])
  | op :: ops =>
    let r := sstep m op
    let rest := srunFrom r.1 ops
    (rest.1, (op, r.2) :: rest.2)

def srun (ops : List (SOp α)) : SState α × List (SOp α × Bool) := srunFrom sempty ops

/-- the successful Add (`true`) / Remove (`false`) calls of value `v`, in history order -/
def events (v : α) : List (SOp α × Bool) → List Bool
  | [] => []
  | (.add w, true) :: rest => if w = v then true :: events v rest else events v rest
  | (.remove w, true) :: rest => if w = v then false :: events v rest else events v rest
  | _ :: rest => events v rest

/-- the events alternate, the first one being `next` -/
def Alternates : Bool → List Bool → Prop
  | _, [] => True
  | next, e :: rest => e = next ∧ Alternates (!next) rest

/-- membership of `v` as told by the successful events alone: false before the first Add, true from a
successful Add to the next successful Remove -/
def replay (init : Bool) : List Bool → Bool
  | [] => init
  | e :: rest => replay e rest

def countTrue (l : List Bool) : Nat := (l.filter (fun b => b)).length
def countFalse (l : List Bool) : Nat := (l.filter (fun b => !b)).length

end TypVerif.Spec.AtomicSet
