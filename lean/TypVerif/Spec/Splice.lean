/-
Specification for C12 in core `List` terms: what the live contents must be after each operation.
`c` is the contents of the slice before the call.
-/
namespace TypVerif.Spec.Splice

variable {α : Type}

def insert (c : List α) (i : Nat) (v : α) : List α := c.take i ++ [v] ++ c.drop i
def insertSlice (c : List α) (i : Nat) (vs : List α) : List α := c.take i ++ vs ++ c.drop i
def remove (c : List α) (i : Nat) : List α := c.take i ++ c.drop (i + 1)
def removeSlice (c : List α) (i n : Nat) : List α := c.take i ++ c.drop (i + n)
def fill (c : List α) (v : α) : List α := List.replicate c.length v
def repeat_ (v : α) (n : Nat) : List α := List.replicate n v
def reverse (c : List α) : List α := c.reverse
def concat (a b : List α) : List α := a ++ b
def clone (a : List α) : List α := a
def grow (c : List α) (zero : α) (n : Nat) : List α := c ++ List.replicate n zero

/-- does an insertion of `k` values stay in the old backing array? (Go: `append` reallocates iff it does not fit) -/
def staysInPlace (len cap k : Nat) : Bool := len + k ≤ cap

/-- the cells of the backing array `mem` behind the new logical end `off+newLen`: untouched by every operation -/
def guardSuffix (mem : List α) (off newLen : Nat) : List α := mem.drop (off + newLen)

end TypVerif.Spec.Splice
