/-
Functional specifications used by the C15 judge for the lines on which the property promises a function:
sorting plain integers (the sorted arrangement of integers is unique), stable sorting of `(key, originalIndex)`
pairs by key (= sorting by key, then by original index: unique), and the lower bound in an ascending list.
Written with core `List` operations only, independent of `Model/SortAdapters.lean`.
-/
namespace TypVerif.Spec.SortSpec

def sortAsc (keys : List Int) : List Int := keys.mergeSort (fun a b => decide (a ≤ b))
def sortDesc (keys : List Int) : List Int := keys.mergeSort (fun a b => decide (a ≥ b))

/-- tag each key with its original index -/
def tagged (keys : List Int) : List (Int × Int) := keys.zipIdx.map (fun p => (p.1, (p.2 : Int)))

/-- the comparator the harness passes to the *Func variants: keys only -/
def keyLess (a b : Int × Int) : Bool := decide (a.1 < b.1)

def lexLe (a b : Int × Int) : Bool := decide (a.1 < b.1 ∨ (a.1 = b.1 ∧ a.2 ≤ b.2))
def lexGe (a b : Int × Int) : Bool := decide (a.1 > b.1 ∨ (a.1 = b.1 ∧ a.2 ≤ b.2))

/-- stable ascending sort by key = ascending by (key, original index) -/
def stableAsc (ps : List (Int × Int)) : List (Int × Int) := ps.mergeSort lexLe

/-- stable descending sort by key = descending key, ascending original index among equal keys -/
def stableDesc (ps : List (Int × Int)) : List (Int × Int) := ps.mergeSort lexGe

def keysAsc (ps : List (Int × Int)) : Bool := decide (ps.Pairwise (fun a b => a.1 ≤ b.1))
def keysDesc (ps : List (Int × Int)) : Bool := decide (ps.Pairwise (fun a b => a.1 ≥ b.1))
def ascending (l : List Int) : Bool := decide (l.Pairwise (fun a b => a ≤ b))

def isPermPairs (a b : List (Int × Int)) : Bool := a.mergeSort lexLe == b.mergeSort lexLe
def isPermInts (a b : List Int) : Bool :=
  a.mergeSort (fun x y => decide (x ≤ y)) == b.mergeSort (fun x y => decide (x ≤ y))

/-- smallest index whose element is not less than the target = number of elements less than it (ascending list) -/
def lowerBound (l : List Int) (v : Int) : Nat := l.countP (fun x => decide (x < v))

end TypVerif.Spec.SortSpec
