import TypVerif.Model.AtomicValue
/-
The atomic register of C18, as a sequential specification over the same operations:
"Load returns the zero value before the first Store and otherwise the most recently stored value, Swap
returns the value it replaced, and once a value has been stored CompareAndSwap succeeds exactly when the
current value equals old."  Before the first store the property says nothing about CompareAndSwap: both
outcomes are allowed by the specification (the implementation fails it, even for `old` = zero value).
-/
namespace TypVerif.Spec.Register
open TypVerif.Model TypVerif.Model.AtomicValue

/-- the register's value as Load reports it: zero before the first store -/
def cur : Option Int → Int
  | none => 0
  | some v => v

def apply (σ : Option Int) : Op → List (Option Int × Res)
  | .load => [(σ, .val (cur σ))]
  | .store v => [(some v, .done)]
  | .swap v => [(some v, .val (cur σ))]
  | .cas old new =>
    match σ with
    | some c => if c = old then [(some new, .bool true)] else [(some c, .bool false)]
    | none => [(none, .bool false), (some new, .bool true)]

def spec : AtomicObj.Spec := { σ := Option Int, Op := Op, Res := Res, init := none, apply := apply }

instance : DecidableEq spec.Op := inferInstanceAs (DecidableEq Op)
instance : DecidableEq spec.Res := inferInstanceAs (DecidableEq Res)
instance : DecidableEq spec.σ := inferInstanceAs (DecidableEq (Option Int))

/-- the most recently stored value of a sequential history (newest first): the last `Store`, `Swap` or
successful `CompareAndSwap` -/
def lastStored : List (Op × Res) → Option Int
  | [] => none
  | (.store v, _) :: _ => some v
  | (.swap v, _) :: _ => some v
  | (.cas _ new, .bool true) :: _ => some new
  | _ :: h => lastStored h

end TypVerif.Spec.Register
