/-
Specification of the numeric helpers of typ (math.go, util.go) on mathematical integers / an abstract linear order.
-/
namespace TypVerif.Spec.Math

/-- number of decimal digits of a natural number (`0` has one digit) -/
def numDigits (n : Nat) : Nat :=
  if n < 10 then 1 else 1 + numDigits (n / 10)
decreasing_by omega

/-- Digits10 on a mathematical integer: digits of |v| -/
def digits10 (v : Int) : Nat := numDigits v.natAbs

/-- DigitsSign10: one more for the minus sign -/
def digitsSign10 (v : Int) : Nat := numDigits v.natAbs + (if v < 0 then 1 else 0)

/-- Clamp(v, lo, hi) for lo ≤ hi: v when inside, else the nearer bound -/
def clamp (v lo hi : Int) : Int := if v < lo then lo else if hi < v then hi else v

def clamp01 (v : Int) : Int := clamp v 0 1

def compare (a b : Int) : Int := if a < b then -1 else if a = b then 0 else 1

def less (a b : Int) : Bool := decide (a < b)

/-- reduce a mathematical integer into the value range of a `bits`-wide integer type (two's complement wrap) -/
def wrap (signed : Bool) (bits : Nat) (v : Int) : Int :=
  let m : Int := 2 ^ bits
  let r := v % m
  if signed && decide (2 * r ≥ m) then r - m else r

/-- left-to-right wrapping sum / product -/
def sum (signed : Bool) (bits : Nat) (vs : List Int) : Int :=
  vs.foldl (fun s x => wrap signed bits (s + x)) 0

def product (signed : Bool) (bits : Nat) (vs : List Int) : Int :=
  vs.foldl (fun s x => wrap signed bits (s * x)) 1

/-- minimum / maximum of a non-empty list of integers -/
def minOf : List Int → Option Int
  | [] => none
  | x :: xs => some (xs.foldl (fun m v => if v ≤ m then v else m) x)

def maxOf : List Int → Option Int
  | [] => none
  | x :: xs => some (xs.foldl (fun m v => if m ≤ v then v else m) x)

/-- |v| -/
def abs (v : Int) : Int := v.natAbs

/-- first non-zero element, or zero -/
def coal : List Int → Int
  | [] => 0
  | x :: xs => if x ≠ 0 then x else coal xs

end TypVerif.Spec.Math
