import TypVerif.Model.QueueStack
/-
Specification of C16: a queue is the list of the values inside in order of arrival (Enqueue appends at
one end, Dequeue takes from the other end: FIFO); a stack is the list of the values inside, most recent
first (LIFO).  Peek is the head without removing it, Len the length, and on the empty container
Dequeue/Pop/Peek answer `(0, false)` and change nothing.
(The vocabulary `Op`/`Res` is shared with the models: `enq` doubles as Push, `deq` as Pop.)
-/
namespace TypVerif.Spec.QueueStack
open TypVerif.Model.Queue (Op Res)

/-- FIFO: state = values in arrival order -/
def qstep (q : List Int) : Op → List Int × Res
  | .enq v => (q ++ [v], .ok)
  | .deq => match q with
    | [] => ([], .pair 0 false)
    | x :: r => (r, .pair x true)
  | .peek => match q with
    | [] => ([], .pair 0 false)
    | x :: _ => (q, .pair x true)
  | .len => (q, .int q.length)

/-- LIFO: state = values, most recently pushed first -/
def sstep (s : List Int) : Op → List Int × Res
  | .enq v => (v :: s, .ok)
  | .deq => match s with
    | [] => ([], .pair 0 false)
    | x :: r => (r, .pair x true)
  | .peek => match s with
    | [] => ([], .pair 0 false)
    | x :: _ => (s, .pair x true)
  | .len => (s, .int s.length)

def runWith (f : List Int → Op → List Int × Res) : List Int → List Op → List Res
  | _, [] => []
  | s, op :: ops => (f s op).2 :: runWith f (f s op).1 ops

def finalWith (f : List Int → Op → List Int × Res) : List Int → List Op → List Int
  | s, [] => s
  | s, op :: ops => finalWith f (f s op).1 ops

end TypVerif.Spec.QueueStack
