/-
Specification for C13: what "partition exactly" means, stated with core `List` functions only.
-/
namespace TypVerif.Spec.Chunk

variable {α : Type}

/-- consecutive pieces of length `size`, the last one possibly shorter, none empty -/
def chunks (size : Nat) (s : List α) : List (List α) :=
  if _h : s = [] ∨ size = 0 then [] else s.take size :: chunks size (s.drop size)
termination_by s.length
decreasing_by
  have h1 : s ≠ [] := fun e => _h (Or.inl e)
  have h2 : size ≠ 0 := fun e => _h (Or.inr e)
  have : 0 < s.length := List.length_pos_iff.mpr h1
  simp [List.length_drop]; omega

/-- the `n - size + 1` contiguous windows, in order (none when `n < size`) -/
def windows (size : Nat) (s : List α) : List (List α) :=
  (List.range (s.length + 1 - size)).map (fun i => (s.drop i).take size)

/-- the `n - 1` adjacent pairs, in order -/
def pairs (s : List α) : List (α × α) := s.zip s.tail

def ceilDiv (n size : Nat) : Nat := (n + size - 1) / size

end TypVerif.Spec.Chunk
