/-
Order hypotheses on a caller-supplied `less : α → α → Bool` (DESIGN §6), shared by C07 and C15.
-/
namespace TypVerif.Spec.Order

/-- sorted with respect to `less`: no later element is `less` than an earlier one -/
def IsSorted (less : α → α → Bool) (l : List α) : Prop := l.Pairwise (fun a b => less b a = false)

instance (less : α → α → Bool) (l : List α) : Decidable (IsSorted less l) := by
  unfold IsSorted; infer_instance

/-- strict weak order: irreflexive, transitive, and negatively transitive (equivalently: incomparability
"neither is less than the other" is transitive — `StrictWeak.incomp_trans`). -/
structure StrictWeak (less : α → α → Bool) : Prop where
  irrefl : ∀ a, less a a = false
  trans : ∀ a b c, less a b = true → less b c = true → less a c = true
  negTrans : ∀ a b c, less a b = false → less b c = false → less a c = false

/-- strict total order consistent with `=`: irreflexive, transitive, and two values neither of which is less
than the other are equal (trichotomy). -/
structure StrictTotal (less : α → α → Bool) : Prop where
  irrefl : ∀ a, less a a = false
  trans : ∀ a b c, less a b = true → less b c = true → less a c = true
  tri : ∀ a b, less a b = false → less b a = false → a = b

theorem StrictWeak.asymm {less : α → α → Bool} (h : StrictWeak less) (a b : α) :
    less a b = true → less b a = false := by
  intro hab
  cases hba : less b a with
  | false => rfl
  | true => have := h.trans a b a hab hba; rw [h.irrefl] at this; cases this

/-- the textbook formulation: incomparability is transitive -/
theorem StrictWeak.incomp_trans {less : α → α → Bool} (h : StrictWeak less) (a b c : α) :
    less a b = false → less b a = false → less b c = false → less c b = false →
    less a c = false ∧ less c a = false :=
  fun h1 h2 h3 h4 => ⟨h.negTrans a b c h1 h3, h.negTrans c b a h4 h2⟩

theorem StrictTotal.asymm {less : α → α → Bool} (h : StrictTotal less) (a b : α) :
    less a b = true → less b a = false := by
  intro hab
  cases hba : less b a with
  | false => rfl
  | true => have := h.trans a b a hab hba; rw [h.irrefl] at this; cases this

theorem StrictTotal.toStrictWeak {less : α → α → Bool} (h : StrictTotal less) : StrictWeak less where
  irrefl := h.irrefl
  trans := h.trans
  negTrans := by
    intro a b c hab hbc
    cases hac : less a c with
    | false => rfl
    | true =>
      cases hba : less b a with
      | true => have := h.trans b a c hba hac; rw [hbc] at this; cases this
      | false =>
        have := h.tri a b hab hba
        subst this
        rw [hac] at hbc; cases hbc

/-- the reverse of a strict weak order is one (`sort.Reverse`) -/
theorem StrictWeak.flip {less : α → α → Bool} (h : StrictWeak less) : StrictWeak (fun a b => less b a) where
  irrefl := h.irrefl
  trans := fun a b c hab hbc => h.trans c b a hbc hab
  negTrans := fun a b c hab hbc => h.negTrans c b a hbc hab

theorem strictTotal_int_lt : StrictTotal (fun a b : Int => decide (a < b)) where
  irrefl := by intro a; simp
  trans := by intro a b c; simp; omega
  tri := by intro a b; simp; omega

theorem strictTotal_int_gt : StrictTotal (fun a b : Int => decide (a > b)) where
  irrefl := by intro a; simp
  trans := by intro a b c; simp; omega
  tri := by intro a b; simp; omega

/-- the harness's third comparator: a strict weak order that is not consistent with `=` (2 and 3 tie) -/
theorem strictWeak_int_half : StrictWeak (fun a b : Int => decide (Int.tdiv a 2 < Int.tdiv b 2)) where
  irrefl := by intro a; simp
  trans := by intro a b c; simp; omega
  negTrans := by intro a b c; simp; omega

end TypVerif.Spec.Order
