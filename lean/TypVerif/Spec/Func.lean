/-
Specification for C14: the "straightforward definitions", with core `List` functions.
-/
namespace TypVerif.Spec.Func

variable {α β σ ε κ ν : Type}

def fold (s : List α) (seed : σ) (acc : σ → α → σ) : σ := s.foldl acc seed
def foldReverse (s : List α) (seed : σ) (acc : σ → α → σ) : σ := s.reverse.foldl acc seed
def map (s : List α) (conv : α → β) : List β := s.map conv
/-- all conversions in order; the first error wins and there is no result -/
def mapErr : List α → (α → Except ε β) → Except ε (List β)
  | [], _ => .ok []
  | v :: rest, conv =>
    match conv v with
    | .error e => .error e
    | .ok r =>
      match mapErr rest conv with
      | .error e => .error e
      | .ok rs => .ok (r :: rs)
def filter (s : List α) (p : α → Bool) : List α := s.filter p
def any (s : List α) (p : α → Bool) : Bool := s.any p
def all (s : List α) (p : α → Bool) : Bool := s.all p
def indexFunc (s : List α) (p : α → Bool) : Int :=
  match s.findIdx? p with
  | some i => i
  | none => -1
def index [DecidableEq α] (s : List α) (v : α) : Int := indexFunc s (fun x => decide (x = v))
def contains [DecidableEq α] (s : List α) (v : α) : Bool := decide (v ∈ s)
def containsFunc (s : List α) (v : α) (eq : α → α → Bool) : Bool := s.any (fun x => eq x v)

/-- first occurrences, original order: keep `v` iff no earlier kept element is equal to it -/
def distinctFunc (eq : α → α → Bool) : List α → List α → List α
  | [], acc => acc
  | v :: rest, acc => if acc.any (fun x => eq x v) then distinctFunc eq rest acc else distinctFunc eq rest (acc ++ [v])
/-- first occurrences, original order: the head, then the rest without it, deduplicated -/
def dedup [DecidableEq α] : List α → List α
  | [] => []
  | v :: rest => v :: (dedup rest).filter (fun x => !decide (x = v))
def distinct [DecidableEq α] (s : List α) : List α := dedup s
def except [DecidableEq α] (s excl : List α) : List α := s.filter (fun v => !decide (v ∈ excl))

/-- keys in order of first appearance -/
def groupKeys [DecidableEq κ] (s : List α) (k : α → κ) : List κ := dedup (s.map k)
def groupBy [DecidableEq κ] (s : List α) (k : α → κ) : List (κ × List α) :=
  (groupKeys s k).map (fun key => (key, s.filter (fun v => decide (k v = key))))
def countBy [DecidableEq κ] (s : List α) (k : α → κ) : List (κ × Int) :=
  (groupKeys s k).map (fun key => (key, ((s.filter (fun v => decide (k v = key))).length : Int)))

def trimLeft (s : List α) (p : α → Bool) : List α := s.dropWhile p
def trimRight (s : List α) (p : α → Bool) : List α := (s.reverse.dropWhile p).reverse
def trim (s : List α) (p : α → Bool) : List α := (trimRight s p).dropWhile p

def tryGet (s : List α) (i : Int) (zero : α) : α × Bool :=
  if 0 ≤ i then (match s[i.toNat]? with | some v => (v, true) | none => (zero, false)) else (zero, false)
def safeGetOr (s : List α) (i : Int) (fb : α) : α :=
  if 0 ≤ i then s[i.toNat]?.getD fb else fb
def last (s : List α) : Option α := s.getLast?

end TypVerif.Spec.Func
