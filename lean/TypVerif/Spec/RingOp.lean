/-
Shared operation / result vocabulary for the ring half of C06 (`lists.Ring` vs `container/ring`).
`none : Option RingId` is a Go nil `*Ring`.
-/
namespace TypVerif.Spec.RingOp

abbrev RingId := Nat

inductive Op where
  | new (n : Int)                              -- NewRing(n)
  | zero                                       -- new(Ring): one zero-value cell, never initialised
  | next (r : Option RingId)
  | prev (r : Option RingId)
  | move (r : Option RingId) (n : Int)
  | link (r s : Option RingId)
  | unlink (r : Option RingId) (n : Int)
  | len (r : Option RingId)
  | doAll (r : Option RingId)
  | fwd (r : Option RingId) (fuel : Nat)       -- r, r.Next(), r.Next().Next(), … until back at r
  | bwd (r : Option RingId) (fuel : Nat)       -- r, r.Prev(), …
  deriving DecidableEq, Repr

inductive Res where
  | ref (r : Option RingId)
  | int (n : Int)
  | vals (xs : List Int)
  | refs (xs : List RingId)
  | panic (msg : String)
  deriving DecidableEq, Repr

/-- a handle the harness may pass: nil, or an id already handed out -/
def validRef (size : Nat) : Option RingId → Bool
  | none => true
  | some x => decide (x < size)

end TypVerif.Spec.RingOp
