import TypVerif.Model.Store
import TypVerif.Spec.ListOp
/-
The abstract world of `container/list`, as documented: every list is a finite sequence of element
identities, every element knows which list owns it (or none), and carries a value.

  lists : ListId → List ElemId      order of the elements
  owner : ElemId → Option ListId    `some l` iff the element is currently in list `l`
  value : ElemId → Int
  nextId                            next element identity (PROTOCOL.md: ids in creation order)

Operations follow the package documentation:
  * InsertBefore/InsertAfter/Move*/Remove with an element (or mark) that is not an element of the list
    leave the list unmodified (and return nil where something is returned);
  * `PushBackList(l, o)` inserts a copy of the OLD contents of `o` (read before anything is changed, so
    `o = l` is fine) at the back, i.e. it is PushBack of each old value in order; `PushFrontList`
    likewise at the front (PushFront of each old value, last one first); PROTOCOL.md gives the copies
    consecutive ids in front-to-back order;
  * Next/Prev of a removed (ownerless) element are nil;
  * nil arguments: the standard library dereferences them (`mark.list`, `e.list`, `e.Value`): that nil
    dereference panic is the documented-by-construction behaviour and is part of the specification,
    with the Go evaluation order of `e.list != l || e == mark || mark.list != l`.
  * `Init` clears the list.  (The standard library leaves the `list` pointers of the old elements
    stale; the specification makes them ownerless.  Scripts that `Init` a non-empty list are excluded
    from the refinement theorem by `NoInitOnNonEmpty`.)

Rings: see `Spec/RingSeq.lean` (a partition of the ring ids into cyclic sequences).
-/
namespace TypVerif.Spec.Seq
open TypVerif.Spec.ListOp
open TypVerif.Model (Store)

structure World where
  lists : Store (List ElemId)
  owner : Store (Option ListId)
  value : Store Int
  nextId : Nat

def World.empty : World := { lists := Store.empty, owner := Store.empty, value := Store.empty, nextId := 0 }

/-- insert `e` right after the (first) occurrence of `m`; unchanged when `m` does not occur -/
def insertAfterL (m e : ElemId) : List ElemId → List ElemId
  | [] => []
  | x :: xs => if x = m then x :: e :: xs else x :: insertAfterL m e xs

/-- insert `e` right before the (first) occurrence of `m`; unchanged when `m` does not occur -/
def insertBeforeL (m e : ElemId) : List ElemId → List ElemId
  | [] => []
  | x :: xs => if x = m then e :: x :: xs else x :: insertBeforeL m e xs

/-- the element following `e` -/
def succOf (e : ElemId) : List ElemId → Option ElemId
  | [] => none
  | x :: xs => if x = e then xs.head? else succOf e xs

/-- the element preceding `e` -/
def predOf (e : ElemId) (xs : List ElemId) : Option ElemId := succOf e xs.reverse

def optPtr : Option ElemId → Ptr
  | none => .null
  | some e => .elem e

/-- put a (new) element `e` with value `v` into list `l`, the new order of `l` being `xs` -/
def World.place (w : World) (l : ListId) (e : ElemId) (v : Int) (xs : List ElemId) : World :=
  { w with lists := w.lists.set l xs, owner := w.owner.set e (some l), value := w.value.set e v }

/-- a new element in creation order -/
def World.bump (w : World) : World := { w with nextId := w.nextId + 1 }

def World.setOrder (w : World) (l : ListId) (xs : List ElemId) : World :=
  { w with lists := w.lists.set l xs }

/-- PushBack of each old value in order; the copies get ids `id, id+1, …` -/
def pushBackAll (l : ListId) : ElemId → List ElemId → World → World
  | _, [], w => w
  | id, y :: ys, w => pushBackAll l (id + 1) ys (w.place l id (w.value.get y) (w.lists.get l ++ [id]))

/-- PushFront of each old value, last one first (`ys` is the old contents reversed);
the copy made when `k+1` values remain gets id `base + k` -/
def pushFrontAll (l : ListId) (base : ElemId) : List ElemId → World → World
  | [], w => w
  | y :: ys, w => pushFrontAll l base ys (w.place l (base + ys.length) (w.value.get y) ((base + ys.length) :: w.lists.get l))

def clearOwners : List ElemId → Store (Option ListId) → Store (Option ListId)
  | [], o => o
  | x :: xs, o => clearOwners xs (o.set x none)

def step (w : World) : Op → World × Res
  | .init l => ({ w with lists := w.lists.set l [], owner := clearOwners (w.lists.get l) w.owner }, .unit)
  | .pushFront l v =>
    let e := w.nextId
    ((w.place l e v (e :: w.lists.get l)).bump, .ptr (.elem e))
  | .pushBack l v =>
    let e := w.nextId
    ((w.place l e v (w.lists.get l ++ [e])).bump, .ptr (.elem e))
  | .insertBefore l v mark =>
    match mark with
    | none => (w, .panic "nilfunc")
    | some m =>
      if w.owner.get m = some l then
        let e := w.nextId
        ((w.place l e v (insertBeforeL m e (w.lists.get l))).bump, .ptr (.elem e))
      else (w, .ptr .null)
  | .insertAfter l v mark =>
    match mark with
    | none => (w, .panic "nilfunc")
    | some m =>
      if w.owner.get m = some l then
        let e := w.nextId
        ((w.place l e v (insertAfterL m e (w.lists.get l))).bump, .ptr (.elem e))
      else (w, .ptr .null)
  | .remove l e =>
    match e with
    | none => (w, .panic "nilfunc")
    | some x =>
      if w.owner.get x = some l then
        ({ w with lists := w.lists.set l ((w.lists.get l).erase x), owner := w.owner.set x none }, .int (w.value.get x))
      else (w, .int (w.value.get x))
  | .moveToFront l e =>
    match e with
    | none => (w, .panic "nilfunc")
    | some x =>
      if w.owner.get x = some l then (w.setOrder l (x :: (w.lists.get l).erase x), .unit)
      else (w, .unit)
  | .moveToBack l e =>
    match e with
    | none => (w, .panic "nilfunc")
    | some x =>
      if w.owner.get x = some l then (w.setOrder l ((w.lists.get l).erase x ++ [x]), .unit)
      else (w, .unit)
  | .moveBefore l e mark =>
    match e with
    | none => (w, .panic "nilfunc")
    | some x =>
      if w.owner.get x ≠ some l then (w, .unit)
      else if some x = mark then (w, .unit)
      else match mark with
        | none => (w, .panic "nilfunc")
        | some m =>
          if w.owner.get m = some l then (w.setOrder l (insertBeforeL m x ((w.lists.get l).erase x)), .unit)
          else (w, .unit)
  | .moveAfter l e mark =>
    match e with
    | none => (w, .panic "nilfunc")
    | some x =>
      if w.owner.get x ≠ some l then (w, .unit)
      else if some x = mark then (w, .unit)
      else match mark with
        | none => (w, .panic "nilfunc")
        | some m =>
          if w.owner.get m = some l then (w.setOrder l (insertAfterL m x ((w.lists.get l).erase x)), .unit)
          else (w, .unit)
  | .pushBackList l o =>
    let ys := w.lists.get o
    (pushBackAll l w.nextId ys { w with nextId := w.nextId + ys.length }, .int ys.length)
  | .pushFrontList l o =>
    let ys := w.lists.get o
    (pushFrontAll l w.nextId ys.reverse { w with nextId := w.nextId + ys.length }, .int ys.length)
  | .len l => (w, .int (w.lists.get l).length)
  | .front l => (w, .ptr (optPtr (w.lists.get l).head?))
  | .back l => (w, .ptr (optPtr (w.lists.get l).getLast?))
  | .next e =>
    match e with
    | none => (w, .panic "nilfunc")
    | some x =>
      match w.owner.get x with
      | none => (w, .ptr .null)
      | some l => (w, .ptr (optPtr (succOf x (w.lists.get l))))
  | .prev e =>
    match e with
    | none => (w, .panic "nilfunc")
    | some x =>
      match w.owner.get x with
      | none => (w, .ptr .null)
      | some l => (w, .ptr (optPtr (predOf x (w.lists.get l))))
  | .value e =>
    match e with
    | none => (w, .panic "nilfunc")
    | some x => (w, .int (w.value.get x))
  | .fwd l fuel => (w, .ptrs (((w.lists.get l).take fuel).map .elem))
  | .bwd l fuel => (w, .ptrs (((w.lists.get l).reverse.take fuel).map .elem))

def run : World → List Op → List Res
  | _, [] => []
  | w, op :: ops => (step w op).2 :: run (step w op).1 ops

def finalWorld : World → List Op → World
  | w, [] => w
  | w, op :: ops => finalWorld (step w op).1 ops

/-- no `Init` is ever applied to a list that is non-empty at that moment -/
def NoInitOnNonEmpty : World → List Op → Prop
  | _, [] => True
  | w, op :: ops =>
    (match op with
     | .init l => w.lists.get l = []
     | _ => True) ∧ NoInitOnNonEmpty (step w op).1 ops

end TypVerif.Spec.Seq
