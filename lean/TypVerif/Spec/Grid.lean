/-
Specification of Array2D: a grid of `w × h` independent cells, kept as `h` rows of `w` values.  Every operation is
defined pointwise on coordinates (`tabulate`), with no index arithmetic: cell (x,y) is element x of row y.
`none` = the operation is rejected (some coordinate outside the bounds).
-/
namespace TypVerif.Spec.Grid

structure Grid where
  w : Int
  h : Int
  rows : List (List Int)
  deriving Repr, BEq, DecidableEq

/-- the grid whose cell (x,y) is `f x y` -/
def tabulate (w h : Int) (f : Int → Int → Int) : Grid :=
  { w := w, h := h,
    rows := (List.range h.toNat).map fun (y : Nat) => (List.range w.toNat).map fun (x : Nat) => f (Int.ofNat x) (Int.ofNat y) }

def inX (g : Grid) (x : Int) : Bool := decide (0 ≤ x) && decide (x < g.w)
def inY (g : Grid) (y : Int) : Bool := decide (0 ≤ y) && decide (y < g.h)
def inB (g : Grid) (x y : Int) : Bool := inX g x && inY g y

def cell (g : Grid) (x y : Int) : Option Int :=
  if inB g x y then (g.rows[y.toNat]?).bind (fun r => r[x.toNat]?) else none

/-- value of a cell inside the bounds (0 outside; only used inside) -/
def cellD (g : Grid) (x y : Int) : Int := (cell g x y).getD 0

def new (w h : Int) : Grid := tabulate w h fun _ _ => 0
def filled (w h : Int) (v : Int) : Grid := tabulate w h fun _ _ => v

/-- cell (x,y) = jagged[y][x] when both exist, zero otherwise; values outside the bounds are ignored -/
def fromJagged (w h : Int) (jagged : List (List Int)) : Grid :=
  tabulate w h fun x y => ((jagged[y.toNat]?).bind (fun r => r[x.toNat]?)).getD 0

def get (g : Grid) (x y : Int) : Option Int := cell g x y

/-- Set changes cell (x,y) and no other -/
def set (g : Grid) (x y v : Int) : Option Grid :=
  if inB g x y then some (tabulate g.w g.h fun x' y' => if x' = x ∧ y' = y then v else cellD g x' y')
  else none

/-- the inclusive rectangle spanned by two corners given in any order -/
def inRect (x1 y1 x2 y2 x y : Int) : Bool :=
  decide (min x1 x2 ≤ x) && decide (x ≤ max x1 x2) && decide (min y1 y2 ≤ y) && decide (y ≤ max y1 y2)

def fill (g : Grid) (x1 y1 x2 y2 v : Int) : Option Grid :=
  if inB g x1 y1 && inB g x2 y2 then
    some (tabulate g.w g.h fun x y => if inRect x1 y1 x2 y2 x y then v else cellD g x y)
  else none

/-- the cells (0..w-1, y) -/
def row (g : Grid) (y : Int) : Option (List Int) :=
  if inY g y then some ((List.range g.w.toNat).map fun (x : Nat) => cellD g (Int.ofNat x) y) else none

/-- the cells (x1..x2, y), x1 ≤ x2 -/
def span (g : Grid) (x1 x2 y : Int) : Option (List Int) :=
  if inX g x1 && inY g y && inX g x2 then
    some ((List.range (x2 - x1 + 1).toNat).map fun (i : Nat) => cellD g (x1 + Int.ofNat i) y)
  else none

def clone (g : Grid) : Grid := g

end TypVerif.Spec.Grid
