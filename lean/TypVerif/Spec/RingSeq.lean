import TypVerif.Spec.RingOp
/-
Abstract specification of `container/ring` (as documented): the world is a partition of the ids
`0 … size-1` into cyclic sequences.  Each inner list is one ring in `Next` order and is meaningful up
to rotation.  A zero-value `Ring` is a one-element ring (its lazy initialisation is invisible here).
-/
namespace TypVerif.Spec.RingSeq
open TypVerif.Spec.RingOp

structure RWorld where
  cycles : List (List RingId)
  size : Nat
  deriving Repr

def RWorld.empty : RWorld := ⟨[], 0⟩

/-- the elements of `c` strictly before the first occurrence of `r` (all of `c` when `r ∉ c`) -/
def before (r : RingId) : List RingId → List RingId
  | [] => []
  | x :: xs => if x = r then [] else x :: before r xs

/-- the elements of `c` strictly after the first occurrence of `r` (`[]` when `r ∉ c`) -/
def after (r : RingId) : List RingId → List RingId
  | [] => []
  | x :: xs => if x = r then xs else after r xs

/-- the cycle `c` rotated so that it starts at `r` -/
def rotTo (r : RingId) (c : List RingId) : List RingId := r :: after r c ++ before r c

/-- the ring of `r`, in `Next` order, starting at `r` -/
def cycOf (w : RWorld) (r : RingId) : List RingId :=
  match w.cycles.find? (fun c => c.contains r) with
  | some c => rotTo r c
  | none => [r]

/-- all rings except the one containing `r` -/
def others (cs : List (List RingId)) (r : RingId) : List (List RingId) :=
  cs.filter (fun c => !c.contains r)

def nextOf (w : RWorld) (r : RingId) : RingId := (cycOf w r).tail.headD r
def prevOf (w : RWorld) (r : RingId) : RingId := (cycOf w r).getLastD r

/-- `f` applied `k` times -/
def iter (f : RingId → RingId) : Nat → RingId → RingId
  | 0, x => x
  | k + 1, x => iter f k (f x)

/-- `Move(n)`: `|n|` steps forward (`n ≥ 0`) or backward (`n < 0`) -/
def moveOf (w : RWorld) (r : RingId) (n : Int) : RingId :=
  if n < 0 then iter (prevOf w) n.natAbs r else iter (nextOf w) n.natAbs r

/-- `r.Link(s)` for `s` in the ring `r :: t` of `r`: with `t = A ++ s :: B` (`A` = the elements strictly
between `r` and `s`; for `s = r`, `A = t`) the ring becomes `r :: s :: B` (`[r]` for `s = r`) and `A`
becomes a ring of its own (nothing when `A` is empty). -/
def splitRing (r s : RingId) (t : List RingId) : List (List RingId) :=
  (if s = r then [r] else r :: s :: after s t) :: (if before s t = [] then [] else [before s t])

/-- `r.Link(s)`.  Returns the old `r.Next()`.
* `s = nil`: nothing changes.
* `s` in the ring of `r`: `splitRing`.
* otherwise the rings `r :: R` and `s :: S` are merged into `r :: s :: S ++ R`. -/
def link (w : RWorld) (r : RingId) (s : Option RingId) : RWorld × RingId :=
  match s with
  | none => (w, nextOf w r)
  | some s =>
    if s ∈ cycOf w r then
      ({ w with cycles := splitRing r s (cycOf w r).tail ++ others w.cycles r }, nextOf w r)
    else
      ({ w with cycles := (r :: cycOf w s ++ (cycOf w r).tail) :: others (others w.cycles r) s }, nextOf w r)

def unlink (w : RWorld) (r : RingId) (n : Int) : RWorld × Option RingId :=
  if n ≤ 0 then (w, none)
  else let (w', x) := link w r (some (moveOf w r (n + 1))); (w', some x)

def step (w : RWorld) : Op → RWorld × Res
  | .new n =>
    if n ≤ 0 then (w, .ref none)
    else ({ cycles := List.range' w.size n.toNat :: w.cycles, size := w.size + n.toNat }, .ref (some w.size))
  | .zero => ({ cycles := [w.size] :: w.cycles, size := w.size + 1 }, .ref (some w.size))
  | .next none => (w, .panic "nilfunc")
  | .next (some r) => if r < w.size then (w, .ref (some (nextOf w r))) else (w, .panic "badref")
  | .prev none => (w, .panic "nilfunc")
  | .prev (some r) => if r < w.size then (w, .ref (some (prevOf w r))) else (w, .panic "badref")
  | .move none _ => (w, .panic "nilfunc")
  | .move (some r) n => if r < w.size then (w, .ref (some (moveOf w r n))) else (w, .panic "badref")
  | .link none _ => (w, .panic "nilfunc")
  | .link (some r) s =>
    if r < w.size ∧ validRef w.size s = true then
      let (w', x) := link w r s; (w', .ref (some x))
    else (w, .panic "badref")
  | .unlink none n => if n ≤ 0 then (w, .ref none) else (w, .panic "nilfunc")
  | .unlink (some r) n =>
    if r < w.size then let (w', x) := unlink w r n; (w', .ref x) else (w, .panic "badref")
  | .len none => (w, .int 0)
  | .len (some r) => if r < w.size then (w, .int (cycOf w r).length) else (w, .panic "badref")
  | .doAll none => (w, .vals [])
  | .doAll (some r) =>
    if r < w.size then (w, .vals ((cycOf w r).map (fun (i : RingId) => (i : Int)))) else (w, .panic "badref")
  | .fwd none _ => (w, .refs [])
  | .fwd (some r) fuel => if r < w.size then (w, .refs ((cycOf w r).take fuel)) else (w, .panic "badref")
  | .bwd none _ => (w, .refs [])
  | .bwd (some r) fuel =>
    if r < w.size then (w, .refs ((r :: (cycOf w r).tail.reverse).take fuel)) else (w, .panic "badref")

end TypVerif.Spec.RingSeq
