/-
Refinement: every Array2D model operation, seen through the abstraction `absGrid` (the grid of its cells), is the
corresponding pointwise operation of `Spec.Grid`.
-/
import TypVerif.Lemmas.Array2D
import TypVerif.Spec.Grid
namespace TypVerif.Lemmas.Array2D
open TypVerif.Model.Array2D
open TypVerif.Spec

/-- value of an in-bounds cell -/
def val (a : A2D) (x y : Int) : Int := (cellAt a x y).getD 0

/-- the abstraction: the grid of the cells of `a` -/
def absGrid (a : A2D) : Grid.Grid := Grid.tabulate a.w a.h (val a)

theorem get_val {a : A2D} (wf : WF a) {x y : Int} (hb : InB a x y) : Model.Array2D.get a x y = .ok (val a x y) := by
  obtain ⟨v, hv⟩ := cellAt_some wf hb
  rw [get_eq, if_pos hb]; unfold val; rw [hv]; rfl

theorem tabulate_congr {w h : Int} {f g : Int → Int → Int}
    (hfg : ∀ x y, 0 ≤ x → x < w → 0 ≤ y → y < h → f x y = g x y) : Grid.tabulate w h f = Grid.tabulate w h g := by
  unfold Grid.tabulate
  congr 1
  apply List.map_congr_left
  intro y hy
  apply List.map_congr_left
  intro x hx
  have := List.mem_range.mp hy
  have := List.mem_range.mp hx
  apply hfg <;> simp only [Int.ofNat_eq_natCast] <;> omega

theorem tab_w {w h : Int} (f : Int → Int → Int) : (Grid.tabulate w h f).w = w := rfl
theorem tab_h {w h : Int} (f : Int → Int → Int) : (Grid.tabulate w h f).h = h := rfl

theorem inB_tabulate {w h : Int} (f : Int → Int → Int) (x y : Int) :
    Grid.inB (Grid.tabulate w h f) x y = true ↔ (0 ≤ x ∧ x < w ∧ 0 ≤ y ∧ y < h) := by
  unfold Grid.inB Grid.inX Grid.inY
  rw [tab_w, tab_h]
  simp only [Bool.and_eq_true, decide_eq_true_eq]
  omega

theorem cell_tabulate {w h : Int} (f : Int → Int → Int) (x y : Int) :
    Grid.cell (Grid.tabulate w h f) x y = if 0 ≤ x ∧ x < w ∧ 0 ≤ y ∧ y < h then some (f x y) else none := by
  unfold Grid.cell
  by_cases hb : 0 ≤ x ∧ x < w ∧ 0 ≤ y ∧ y < h
  · rw [if_pos hb, if_pos ((inB_tabulate f x y).mpr hb)]
    simp only [Grid.tabulate, List.getElem?_map]
    rw [List.getElem?_range (by omega)]
    simp only [Option.map_some, Option.bind_some, List.getElem?_map]
    rw [List.getElem?_range (by omega)]
    simp only [Option.map_some, Int.ofNat_eq_natCast]
    rw [Int.toNat_of_nonneg hb.1, Int.toNat_of_nonneg hb.2.2.1]
  · rw [if_neg hb, if_neg (fun h => hb ((inB_tabulate f x y).mp h))]

theorem cellD_absGrid {a : A2D} {x y : Int} (hb : InB a x y) : Grid.cellD (absGrid a) x y = val a x y := by
  unfold Grid.cellD absGrid
  rw [cell_tabulate, if_pos (show 0 ≤ x ∧ x < a.w ∧ 0 ≤ y ∧ y < a.h from hb)]; rfl

/-- two arrays of the same shape with the same readable cells have the same abstraction -/
theorem absGrid_eq {a' : A2D} {w h : Int} (wf' : WF a') (hw : a'.w = w) (hh : a'.h = h) (F : Int → Int → Int)
    (hF : ∀ x y, InB a' x y → Model.Array2D.get a' x y = .ok (F x y)) : absGrid a' = Grid.tabulate w h F := by
  unfold absGrid
  rw [hw, hh]
  apply tabulate_congr
  intro x y h1 h2 h3 h4
  have hb : InB a' x y := by unfold InB; rw [hw, hh]; exact ⟨h1, h2, h3, h4⟩
  have := hF x y hb
  rw [get_val wf' hb] at this
  exact Except.ok.inj this

theorem inB_iff {a : A2D} {x y : Int} : Grid.inB (absGrid a) x y = true ↔ InB a x y := by
  unfold absGrid; exact inB_tabulate _ x y

/-- Get refines the grid lookup -/
theorem refines_get {a : A2D} (wf : WF a) (x y : Int) :
    Model.Array2D.get a x y = match Grid.get (absGrid a) x y with
      | some v => .ok v
      | none => .error pCustom := by
  unfold Grid.get absGrid
  rw [cell_tabulate]
  by_cases hb : InB a x y
  · rw [if_pos (show 0 ≤ x ∧ x < a.w ∧ 0 ≤ y ∧ y < a.h from hb), get_val wf hb]
  · rw [if_neg (show ¬ (0 ≤ x ∧ x < a.w ∧ 0 ≤ y ∧ y < a.h) from hb), get_eq, if_neg hb]

/-- Set refines the pointwise update of the grid -/
theorem refines_set {a : A2D} (wf : WF a) (x y v : Int) :
    (∀ a', Model.Array2D.set a x y v = .ok a' → Grid.set (absGrid a) x y v = some (absGrid a')) ∧
    (Model.Array2D.set a x y v = .error pCustom ↔ Grid.set (absGrid a) x y v = none) := by
  constructor
  · intro a' h
    obtain ⟨f1, f2, f3, _, _⟩ := set_frame wf h
    obtain ⟨hb, _⟩ := set_ok wf h
    unfold Grid.set
    rw [if_pos (inB_iff.mpr hb)]
    congr 1
    symm
    apply absGrid_eq f3 f1 f2
    intro x' y' hb'
    have hb0 : InB a x' y' := by unfold InB at *; rw [← f1, ← f2]; exact hb'
    rw [set_get wf h]
    by_cases e : x' = x ∧ y' = y
    · rw [if_pos e, if_pos e]
    · rw [if_neg e, if_neg e, get_val wf hb0, cellD_absGrid hb0]
  · unfold Grid.set
    rw [set_eq wf]
    by_cases hb : InB a x y
    · rw [if_pos hb, if_pos (inB_iff.mpr hb)]; simp
    · rw [if_neg hb, if_neg (fun h => hb (inB_iff.mp h))]; simp

/-- Fill refines the rectangle update of the grid -/
theorem refines_fill {a : A2D} (wf : WF a) (x1 y1 x2 y2 v : Int) :
    (∀ a', fill a x1 y1 x2 y2 v = .ok a' → Grid.fill (absGrid a) x1 y1 x2 y2 v = some (absGrid a')) ∧
    (fill a x1 y1 x2 y2 v = .error pCustom ↔ Grid.fill (absGrid a) x1 y1 x2 y2 v = none) := by
  obtain ⟨e1, e2⟩ := fill_exact wf x1 y1 x2 y2 v
  have gi : (Grid.inB (absGrid a) x1 y1 && Grid.inB (absGrid a) x2 y2) = fillGuard a.w a.h x1 y1 x2 y2 := by
    rw [Bool.eq_iff_iff, Bool.and_eq_true, inB_iff, inB_iff, fillGuard_iff]; unfold InB; omega
  constructor
  · intro a' h
    cases g : fillGuard a.w a.h x1 y1 x2 y2 with
    | false => rw [e1 g] at h; cases h
    | true =>
      obtain ⟨a'', r1, r2, r3, r4, r5⟩ := e2 g
      rw [r1] at h; cases h
      unfold Grid.fill
      rw [gi, g, if_pos rfl]
      congr 1
      symm
      apply absGrid_eq r4 r2 r3
      intro x y hb
      have hb0 : InB a x y := by unfold InB at *; rw [← r2, ← r3]; exact hb
      rw [r5 x y]
      have : (Grid.inRect x1 y1 x2 y2 x y = true) ↔ (min x1 x2 ≤ x ∧ x ≤ max x1 x2 ∧ min y1 y2 ≤ y ∧ y ≤ max y1 y2) := by
        simp [Grid.inRect]; omega
      by_cases hc : min x1 x2 ≤ x ∧ x ≤ max x1 x2 ∧ min y1 y2 ≤ y ∧ y ≤ max y1 y2
      · rw [if_pos hc, if_pos (this.mpr hc)]
      · rw [if_neg hc, if_neg (fun h => hc (this.mp h)), get_val wf hb0, cellD_absGrid hb0]
  · unfold Grid.fill
    rw [gi]
    cases g : fillGuard a.w a.h x1 y1 x2 y2 with
    | false => rw [e1 g]; simp
    | true =>
      obtain ⟨a'', r1, _⟩ := e2 g
      rw [r1]; simp

/-- String's traversal yields the rows of the grid -/
theorem refines_cells {a : A2D} (wf : WF a) : cellsRows a = .ok (absGrid a).rows := cellsRows_spec wf

theorem refines_new {w h : Int} (hw : 0 ≤ w) (hh : 0 ≤ h) :
    ∃ a, new2D w h = .ok a ∧ WF a ∧ absGrid a = Grid.new w h := by
  obtain ⟨n1, wf0⟩ := new2D_spec hw hh
  refine ⟨_, n1, wf0, ?_⟩
  apply absGrid_eq wf0 rfl rfl
  intro x y hb
  rw [get_replicate hw hh, if_pos (show 0 ≤ x ∧ x < w ∧ 0 ≤ y ∧ y < h from hb)]

theorem refines_filled {w h : Int} (v : Int) (hw : 0 ≤ w) (hh : 0 ≤ h) :
    ∃ a, new2DFilled w h v = .ok a ∧ WF a ∧ absGrid a = Grid.filled w h v := by
  obtain ⟨n1, wf0⟩ := new2DFilled_spec v hw hh
  refine ⟨_, n1, wf0, ?_⟩
  apply absGrid_eq wf0 rfl rfl
  intro x y hb
  rw [get_replicate hw hh, if_pos (show 0 ≤ x ∧ x < w ∧ 0 ≤ y ∧ y < h from hb)]

theorem refines_fromJagged {w h : Int} (hw : 0 ≤ w) (hh : 0 ≤ h) (jagged : List (List Int)) :
    ∃ a, fromJagged w h jagged = .ok a ∧ WF a ∧ absGrid a = Grid.fromJagged w h jagged := by
  obtain ⟨a', r1, r2, r3, r4, r5⟩ := fromJagged_spec hw hh jagged
  refine ⟨a', r1, r4, ?_⟩
  apply absGrid_eq r4 r2 r3
  intro x y hb
  have hb0 : 0 ≤ x ∧ x < w ∧ 0 ≤ y ∧ y < h := by unfold InB at hb; rw [r2, r3] at hb; exact hb
  rw [r5 x y, if_pos hb0]

open TypVerif.Model.Array2D
open TypVerif.Spec

theorem cellAt_val {a : A2D} (wf : WF a) {x y : Int} (hb : InB a x y) : cellAt a x y = some (val a x y) := by
  obtain ⟨v, hv⟩ := cellAt_some wf hb
  unfold val; rw [hv]; rfl

/-- Row(y) reads the cells (0..w-1, y) of the grid -/
theorem refines_row {a : A2D} (wf : WF a) (y : Int) :
    rowRead a y = match Grid.row (absGrid a) y with
      | some l => .ok l
      | none => .error pCustom := by
  obtain ⟨r1, r2⟩ := row_live wf y
  unfold Grid.row Grid.inY absGrid
  rw [tab_w, tab_h]
  by_cases hy : 0 ≤ y ∧ y < a.h
  · obtain ⟨⟨l, l1, l2, l3⟩, _, _⟩ := r2 hy
    rw [if_pos (by simp only [Bool.and_eq_true, decide_eq_true_eq]; exact hy), l1]
    show Except.ok l = Except.ok _
    congr 1
    apply List.ext_getElem?
    intro i
    by_cases hi : i < a.w.toNat
    · have := l3 (Int.ofNat i) (by simp) (by simp only [Int.ofNat_eq_natCast]; omega)
      simp only [Int.ofNat_eq_natCast, Int.toNat_natCast] at this
      rw [this, List.getElem?_map, List.getElem?_range hi]
      have hb : InB a (i : Int) y := ⟨by omega, by omega, hy.1, hy.2⟩
      simp only [Option.map_some, Int.ofNat_eq_natCast]
      rw [cellAt_val wf hb]
      congr 1
      exact (cellD_absGrid hb).symm
    · rw [List.getElem?_eq_none_iff.mpr (by omega), List.getElem?_eq_none_iff.mpr (by simp; omega)]
  · rw [if_neg (by simp only [Bool.and_eq_true, decide_eq_true_eq]; exact hy), (r1 hy).1]

/-- RowSpan(x1,x2,y), x1 ≤ x2, reads the cells (x1..x2, y) of the grid -/
theorem refines_span {a : A2D} (wf : WF a) (x1 x2 y : Int) (h12 : x1 ≤ x2) :
    spanRead a x1 x2 y = match Grid.span (absGrid a) x1 x2 y with
      | some l => .ok l
      | none => .error pCustom := by
  obtain ⟨r1, r2, _, _⟩ := rowSpan_live wf x1 x2 y
  have gi : (Grid.inX (absGrid a) x1 && Grid.inY (absGrid a) y && Grid.inX (absGrid a) x2) = rowSpanGuard a.w a.h x1 x2 y := by
    rw [Bool.eq_iff_iff, rowSpanGuard_iff]
    unfold Grid.inX Grid.inY absGrid
    rw [tab_w, tab_h]
    simp only [Bool.and_eq_true, decide_eq_true_eq]
    omega
  unfold Grid.span
  rw [gi]
  cases g : rowSpanGuard a.w a.h x1 x2 y with
  | false => rw [(r1 g).1]; rfl
  | true =>
    obtain ⟨⟨l, l1, l2, l3⟩, _, _⟩ := r2 g h12
    obtain ⟨g1, g2, g3⟩ := rowSpanGuard_iff.mp g
    rw [l1, if_pos rfl]
    show Except.ok l = Except.ok _
    congr 1
    apply List.ext_getElem?
    intro i
    by_cases hi : i < (x2 - x1 + 1).toNat
    · have := l3 (Int.ofNat i) (by simp) (by simp only [Int.ofNat_eq_natCast]; omega)
      simp only [Int.ofNat_eq_natCast, Int.toNat_natCast] at this
      rw [this, List.getElem?_map, List.getElem?_range hi]
      have hb : InB a (x1 + (i : Int)) y := ⟨by omega, by omega, g2.1, g2.2⟩
      simp only [Option.map_some, Int.ofNat_eq_natCast]
      rw [cellAt_val wf hb]
      congr 1
      exact (cellD_absGrid hb).symm
    · rw [List.getElem?_eq_none_iff.mpr (by omega), List.getElem?_eq_none_iff.mpr (by simp; omega)]

theorem refines_clone (a : A2D) : absGrid (clone a) = Grid.clone (absGrid a) := by
  rw [clone_eq]; rfl

end TypVerif.Lemmas.Array2D
