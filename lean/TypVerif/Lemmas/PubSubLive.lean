import TypVerif.Lemmas.PubSubSafeStep
/-
The extra reachable-state invariant `Live` behind `C10.no_deadlock_partial` (system without clones):
* a receiver that observed the close (`rdone`) belongs to a channel id that is closed,
* the RWMutex is never observed write-locked (a writer's critical section is one step),
* `rw.waiting` is the number of tasks inside `Lock()` (`subWait` / `unsubWait` / `uaWait`),
* a `syncLoop` task always has a head item (it returns in the step that hands off the last one).
-/
namespace TypVerif.Lemmas.PubSubLive
open TypVerif TypVerif.Model.PubSub TypVerif.Lemmas.PubSubSafe

/-- the task called `Lock()` and has not acquired yet -/
def isWaiter : Task → Bool
  | .subWait .. => true
  | .unsubWait .. => true
  | .uaWait .. => true
  | _ => false

def emptySync : Task → Bool
  | .syncLoop _ _ [] _ => true
  | _ => false

/-- `rdone → closed`, stated through the channel id (needs no uniqueness of ids) -/
def RD (cs : List ChanSt) : Prop := ∀ ch ∈ cs, ch.rdone = true → isClosed cs ch.id = true

structure Live (s : State) : Prop where
  rd : RD s.chans
  writer : (s.obj 0).rw.writer = false
  waiting : (s.obj 0).rw.waiting = s.tasks.countP isWaiter
  sync : ∀ t ∈ s.tasks, emptySync t = false

theorem live_init : Live ({} : State) := by
  constructor <;> simp [State.obj, RD]

/-! ### channel table -/

theorem isClosed_updChan_mono (cs : List ChanSt) (c c' : Chan) (f : ChanSt → ChanSt)
    (hid : ∀ ch, (f ch).id = ch.id) (hcl : ∀ ch, ch.closed = true → (f ch).closed = true)
    (h : isClosed cs c' = true) : isClosed (updChan cs c f) c' = true := by
  simp only [isClosed, List.any_eq_true, updChan, List.mem_map] at h ⊢
  obtain ⟨ch, hm, hc⟩ := h
  simp only [Bool.and_eq_true, beq_iff_eq] at hc
  by_cases hx : (ch.id == c) = true
  · exact ⟨f ch, ⟨ch, hm, by simp [hx]⟩, by simp [hid, hc.1, hcl ch hc.2]⟩
  · exact ⟨ch, ⟨ch, hm, by simp [hx]⟩, by simp [hc.1, hc.2]⟩

theorem rd_updChan {cs : List ChanSt} (c : Chan) (f : ChanSt → ChanSt) (h : RD cs)
    (hid : ∀ ch, (f ch).id = ch.id) (hrd : ∀ ch, (f ch).rdone = ch.rdone)
    (hcl : ∀ ch, ch.closed = true → (f ch).closed = true) : RD (updChan cs c f) := by
  intro x hx hxr
  simp only [updChan, List.mem_map] at hx
  obtain ⟨ch, hm, rfl⟩ := hx
  by_cases hc : (ch.id == c) = true
  · simp only [hc, if_true] at hxr ⊢
    rw [hrd] at hxr
    rw [hid]
    exact isClosed_updChan_mono cs c _ f hid hcl (h ch hm hxr)
  · simp only [hc] at hxr ⊢
    exact isClosed_updChan_mono cs c _ f hid hcl (h ch hm hxr)

theorem rd_append {cs : List ChanSt} (ch : ChanSt) (h : RD cs) (hr : ch.rdone = false) : RD (cs ++ [ch]) := by
  intro x hx hxr
  rcases List.mem_append.mp hx with h1 | h1
  · have := h x h1 hxr
    simp only [isClosed, List.any_append, Bool.or_eq_true]
    exact Or.inl this
  · simp only [List.mem_singleton] at h1
    subst h1
    rw [hr] at hxr; cases hxr

theorem rd_closeChan {cs : List ChanSt} (c : Chan) (h : RD cs) : RD (closeChan cs c) :=
  rd_updChan c _ h (fun _ => rfl) (fun _ => rfl) (fun _ _ => rfl)

theorem rd_closeAll : ∀ (l : List Chan) (cs cs' : List ChanSt), RD cs → closeAll cs l = some cs' → RD cs'
  | [], cs, cs', h, he => by
    simp only [closeAll, Option.some.injEq] at he
    subst he; exact h
  | c :: rest, cs, cs', h, he => by
    simp only [closeAll] at he
    split at he
    · cases he
    · exact rd_closeAll rest _ cs' (rd_closeChan c h) he

/-- the receiver of `ch` observes the close -/
theorem rd_recv_done {cs : List ChanSt} {ch : ChanSt} (h : RD cs) (hm : ch ∈ cs) (hc : ch.closed = true) :
    RD (updChan cs ch.id (fun x => { x with rdone := true })) := by
  have hcl : isClosed cs ch.id = true := by
    simp only [isClosed, List.any_eq_true]
    exact ⟨ch, hm, by simp [hc]⟩
  intro x hx hxr
  have e := isClosed_updChan cs ch.id x.id (fun x => { x with rdone := true }) (fun _ => rfl) (fun _ => rfl)
  rw [e]
  simp only [updChan, List.mem_map] at hx
  obtain ⟨y, hy, rfl⟩ := hx
  by_cases hyc : (y.id == ch.id) = true
  · simp only [hyc, if_true]
    have : y.id = ch.id := by simpa using hyc
    rw [this]; exact hcl
  · simp only [hyc] at hxr ⊢
    exact h y hy hxr

theorem sendTo_sent_rd {s s' : State} {it : Item} (hrd : RD s.chans) (h : sendTo s it = .sent s') : RD s'.chans := by
  unfold sendTo at h
  split at h
  · cases h
  · split at h
    · cases h
    · split at h
      · injection h with h; subst h
        exact rd_updChan _ _ hrd (fun _ => rfl) (fun _ => rfl) (fun _ hc => hc)
      · split at h
        · injection h with h; subst h
          exact rd_updChan _ _ hrd (fun _ => rfl) (fun _ => rfl) (fun _ hc => hc)
        · cases h

/-! ### generic preservation -/

theorem live_replace {s s' : State} {i : Nat} {t t' : Task} (hl : Live s) (hi : s.tasks[i]? = some t)
    (htasks : s'.tasks = s.tasks.set i t') (hch : RD s'.chans)
    (hw : (s'.obj 0).rw.writer = (s.obj 0).rw.writer)
    (hn : (s'.obj 0).rw.waiting + (if isWaiter t then 1 else 0)
            = (s.obj 0).rw.waiting + (if isWaiter t' then 1 else 0))
    (he : emptySync t' = false) : Live s' := by
  refine ⟨hch, hw.trans hl.writer, ?_, ?_⟩
  · have h1 := countP_set_eq isWaiter s.tasks i t t' hi
    have h2 := hl.waiting
    rw [htasks]; omega
  · rw [htasks]; exact forall_set _ _ _ _ hl.sync he

theorem live_setTask {s : State} {i : Nat} {t t' : Task} (hl : Live s) (hi : s.tasks[i]? = some t)
    (hw : isWaiter t = isWaiter t') (he : emptySync t' = false) : Live (s.setTask i t') := by
  refine live_replace hl hi rfl hl.rd rfl ?_ he
  rw [hw]; rfl

theorem live_spawn {s : State} (ts : List Task) (hl : Live s) (hw : ∀ t ∈ ts, isWaiter t = false)
    (he : ∀ t ∈ ts, emptySync t = false) : Live (s.spawn ts) := by
  have hc : ts.countP isWaiter = 0 := by
    rw [List.countP_eq_zero]; intro t ht; simp [hw t ht]
  refine ⟨hl.rd, hl.writer, ?_, ?_⟩
  · show _ = (s.tasks ++ ts).countP isWaiter
    rw [List.countP_append, hc]; exact hl.waiting
  · intro t ht
    rcases List.mem_append.mp ht with h | h
    · exact hl.sync t h
    · exact he t h

theorem live_spawn1 {s : State} (t : Task) (hl : Live s) (hw : isWaiter t = false) (he : emptySync t = false) :
    Live (s.spawn [t]) := by
  refine live_spawn [t] hl ?_ ?_ <;>
  · intro x hx
    simp only [List.mem_singleton] at hx
    subst hx
    assumption

/-- a state that differs only in the channel table / logs / wgs / pids / flags -/
theorem live_frame {s s' : State} (hl : Live s) (hobjs : s'.objs = s.objs) (htasks : s'.tasks = s.tasks)
    (hch : RD s'.chans) : Live s' := by
  have hobj : s'.obj 0 = s.obj 0 := by simp [State.obj, hobjs]
  exact ⟨hch, hobj ▸ hl.writer, by rw [hobj, htasks]; exact hl.waiting, by rw [htasks]; exact hl.sync⟩

theorem live_chans {s : State} (hl : Live s) (cs' : List ChanSt) (h : RD cs') : Live { s with chans := cs' } :=
  live_frame hl rfl rfl h

/-! ### steps of the environment and the receivers -/

theorem live_recvSteps {s s' : State} {ch : ChanSt} {l : Option Event} (hl : Live s) (hm : ch ∈ s.chans)
    (h : (l, s') ∈ recvSteps s ch) : Live s' := by
  unfold recvSteps at h
  split at h
  · simp at h
  · split at h
    · simp only [List.mem_singleton, Prod.mk.injEq] at h
      obtain ⟨_, rfl⟩ := h
      exact live_chans hl _ (rd_updChan _ _ hl.rd (fun _ => rfl) (fun _ => rfl) (fun _ hc => hc))
    · split at h
      · simp at h
      · split at h
        · simp only [List.mem_singleton, Prod.mk.injEq] at h
          obtain ⟨_, rfl⟩ := h
          exact live_chans hl _ (rd_updChan _ _ hl.rd (fun _ => rfl) (fun _ => rfl) (fun _ hc => hc))
        · split at h
          · rename_i hc
            simp only [List.mem_singleton, Prod.mk.injEq] at h
            obtain ⟨_, rfl⟩ := h
            exact live_chans hl _ (rd_recv_done hl.rd hm hc)
          · simp at h

theorem live_envStep {cfg : Cfg} {s s' : State} {e : Event} (hc : cfg.allowClone = false) (hl : Live s)
    (h : envStep cfg s e = some s') : Live s' := by
  cases e with
  | sub c cap =>
    simp only [envStep] at h
    split at h
    · cases h
    · injection h with h; subst h
      exact live_spawn1 _ hl rfl rfl
  | mkchan c =>
    simp only [envStep] at h
    split at h
    · cases h
    · injection h with h; subst h
      exact live_chans hl _ (rd_append _ hl.rd rfl)
  | withonly w via c => simp [envStep, hc] at h
  | pubinv p via v evs =>
    simp only [envStep] at h
    split at h
    · cases h
    · injection h with h; subst h
      exact live_spawn1 (s := { s with pids := s.pids ++ [p] }) _ ⟨hl.rd, hl.writer, hl.waiting, hl.sync⟩ rfl rfl
  | allow c n =>
    simp only [envStep] at h
    split at h
    · injection h with h; subst h
      exact live_chans hl _ (rd_updChan _ _ hl.rd (fun _ => rfl) (fun _ => rfl) (fun _ hc => hc))
    · cases h
  | unsubinv u via c =>
    simp only [envStep] at h
    split at h
    · injection h with h; subst h
      exact live_spawn1 _ hl rfl rfl
    · cases h
  | unsuballinv u via =>
    simp only [envStep] at h
    split at h
    · injection h with h; subst h
      exact live_spawn1 _ hl rfl rfl
    · cases h
  | _ => simp [envStep] at h

/-! ### task steps (all on the root object, `s.objs = [r]`) -/

theorem live_runlock_setTask {s : State} {i : Nat} {t t' : Task} {r : ObjSt} (hr : s.objs = [r]) (hl : Live s)
    (hi : s.tasks[i]? = some t) (hw : isWaiter t = isWaiter t') (he : emptySync t' = false) :
    Live ((s.runlock 0).setTask i t') := by
  refine live_replace hl hi rfl hl.rd ?_ ?_ he
  · simp [State.setTask, State.runlock, State.setObj, State.obj, hr, RW.runlock]
  · rw [hw]; simp [State.setTask, State.runlock, State.setObj, State.obj, hr, RW.runlock]

theorem live_rlock_setTask {s : State} {i : Nat} {t t' : Task} {r : ObjSt} (hr : s.objs = [r]) (hl : Live s)
    (hi : s.tasks[i]? = some t) (hw : isWaiter t = isWaiter t') (he : emptySync t' = false) :
    Live ((s.rlock 0).setTask i t') := by
  refine live_replace hl hi rfl hl.rd ?_ ?_ he
  · simp [State.setTask, State.rlock, State.setObj, State.obj, hr, RW.rlock]
  · rw [hw]; simp [State.setTask, State.rlock, State.setObj, State.obj, hr, RW.rlock]

theorem live_announce_setTask {s : State} {i : Nat} {t t' : Task} {r : ObjSt} (hr : s.objs = [r]) (hl : Live s)
    (hi : s.tasks[i]? = some t) (hw : isWaiter t = false) (hw' : isWaiter t' = true) (he : emptySync t' = false) :
    Live ((s.announce 0).setTask i t') := by
  refine live_replace hl hi rfl hl.rd ?_ ?_ he
  · simp [State.setTask, State.announce, State.setObj, State.obj, hr, RW.announce]
  · simp [hw, hw', State.setTask, State.announce, State.setObj, State.obj, hr, RW.announce]

theorem live_logTimeout {s : State} (hl : Live s) (it : Item) : Live (s.logTimeout it) :=
  ⟨hl.rd, hl.writer, hl.waiting, hl.sync⟩

theorem live_sent {s s1 : State} {it : Item} (hl : Live s) (h : sendTo s it = .sent s1) : Live s1 :=
  have f := sendTo_sent h
  live_frame hl f.objs f.tasks (sendTo_sent_rd hl.rd h)

theorem live_wgDone {s : State} (hl : Live s) (w : Nat) : Live (wgDone s w) := by
  unfold wgDone
  split
  · exact ⟨hl.rd, hl.writer, hl.waiting, hl.sync⟩
  · exact ⟨hl.rd, hl.writer, hl.waiting, hl.sync⟩

theorem wgDone_tasks (s : State) (w : Nat) : (wgDone s w).tasks = s.tasks := by
  unfold wgDone; split <;> rfl

theorem live_sync_fin {s : State} {i p : Nat} {it : Item} {rest : List Item} {cb : Bool} {r : ObjSt}
    (hr : s.objs = [r]) (hl : Live s)
    (hi : s.tasks[i]? = some (.syncLoop p 0 (it :: rest) cb)) : Live (syncAdvance i p 0 rest s) := by
  cases rest with
  | nil => exact live_runlock_setTask hr hl hi rfl rfl
  | cons it2 rest2 => exact live_setTask hl hi rfl rfl

theorem live_stepSend {cfg : Cfg} {s s' : State} {i : Nat} {t : Task} {it : Item} {cb : Bool}
    {fin setCb : State → State} {l : Option Event} (hl : Live s) (_hi : s.tasks[i]? = some t)
    (hfin : ∀ s1 : State, Live s1 → s1.objs = s.objs → s1.tasks = s.tasks → Live (fin s1))
    (hcb : ∀ s1 : State, Live s1 → s1.objs = s.objs → s1.tasks = s.tasks → Live (setCb s1))
    (h : (l, s') ∈ stepSend cfg s it cb fin setCb) : Live s' := by
  rcases mem_stepSend h with ⟨_, rfl⟩ | ⟨_, s1, hst, rfl⟩ | ⟨_, hpan⟩ | ⟨_, rfl⟩
  · exact hfin s hl rfl rfl
  · have f := sendTo_sent hst
    exact hfin s1 (live_sent hl hst) f.objs f.tasks
  · -- the panic step keeps everything but the flag
    unfold stepSend at h
    subst_vars
    simp only [Bool.false_eq_true, if_false, hpan, List.mem_append, List.mem_singleton, Prod.mk.injEq] at h
    rcases h with h | h
    · obtain ⟨_, rfl⟩ := h
      exact ⟨hl.rd, hl.writer, hl.waiting, hl.sync⟩
    · split at h
      · simp only [List.mem_singleton, Prod.mk.injEq] at h
        obtain ⟨_, rfl⟩ := h
        exact hcb _ (live_logTimeout hl it) rfl rfl
      · simp at h
  · exact hcb _ (live_logTimeout hl it) rfl rfl

theorem live_stepTask {cfg : Cfg} {s s' : State} {i : Nat} {t : Task} {l : Option Event} (hs : Safe s) (hl : Live s)
    (hi : s.tasks[i]? = some t) (h : (l, s') ∈ stepTask cfg s i t) : Live s' := by
  have hobj : objOk t := hs.obj0 t (List.mem_of_getElem? hi)
  obtain ⟨r, hr⟩ := objs_eq hs
  have hobj0 : s.obj 0 = r := by simp [State.obj, hr]
  cases t with
  | pubStart p o v evs =>
    cases hobj
    simp only [stepTask, stepPubStart] at h
    split at h
    · simp at h
    · split at h
      · split at h
        · simp only [List.mem_singleton, Prod.mk.injEq] at h
          obtain ⟨_, rfl⟩ := h
          exact live_setTask hl hi rfl rfl
        · rename_i hitems
          simp only [List.mem_singleton, Prod.mk.injEq] at h
          obtain ⟨_, rfl⟩ := h
          refine live_rlock_setTask hr hl hi rfl ?_
          rw [hitems]; rfl
      · split at h
        · simp only [List.mem_singleton, Prod.mk.injEq] at h
          obtain ⟨_, rfl⟩ := h
          refine live_spawn _ ?_ ?_ ?_
          · refine live_replace (t' := .waitWg p 0 s.wgs.length) hl hi rfl hl.rd ?_ ?_ rfl
            · simp [State.setTask, State.rlock, State.setObj, State.obj, hr, RW.rlock]
            · simp [isWaiter, State.setTask, State.rlock, State.setObj, State.obj, hr, RW.rlock]
          · intro t ht
            simp only [List.mem_map] at ht
            obtain ⟨_, _, rfl⟩ := ht; rfl
          · intro t ht
            simp only [List.mem_map] at ht
            obtain ⟨_, _, rfl⟩ := ht; rfl
        · simp only [List.mem_singleton, Prod.mk.injEq] at h
          obtain ⟨_, rfl⟩ := h
          refine live_spawn _ (live_setTask hl hi rfl rfl) ?_ ?_
          · intro t ht
            simp only [List.mem_map] at ht
            obtain ⟨_, _, rfl⟩ := ht; rfl
          · intro t ht
            simp only [List.mem_map] at ht
            obtain ⟨_, _, rfl⟩ := ht; rfl
  | syncLoop p o work cb =>
    cases hobj
    cases work with
    | nil => simp [stepTask, stepSyncLoop] at h
    | cons it rest =>
      simp only [stepTask, stepSyncLoop] at h
      refine live_stepSend hl hi ?_ ?_ h
      · intro s1 hl1 ho ht
        rw [← ht] at hi
        exact live_sync_fin (ho.trans hr) hl1 hi
      · intro s1 hl1 ho ht
        rw [← ht] at hi
        exact live_setTask hl1 hi rfl rfl
  | waitWg p o w =>
    cases hobj
    simp only [stepTask, stepWaitWg] at h
    split at h
    · simp only [List.mem_singleton, Prod.mk.injEq] at h
      obtain ⟨_, rfl⟩ := h
      exact live_runlock_setTask hr hl hi rfl rfl
    · simp at h
  | pubRet p =>
    simp only [stepTask, List.mem_singleton, Prod.mk.injEq] at h
    obtain ⟨_, rfl⟩ := h
    exact live_setTask hl hi rfl rfl
  | asyncStart o it =>
    cases hobj
    simp only [stepTask, stepAsyncStart] at h
    split at h
    · simp at h
    · split at h
      · simp only [List.mem_singleton, Prod.mk.injEq] at h
        obtain ⟨_, rfl⟩ := h
        exact live_rlock_setTask hr hl hi rfl rfl
      · simp only [List.mem_singleton, Prod.mk.injEq] at h
        obtain ⟨_, rfl⟩ := h
        exact live_setTask hl hi rfl rfl
  | asyncSend o it cb =>
    cases hobj
    simp only [stepTask, stepAsyncSend] at h
    refine live_stepSend hl hi ?_ ?_ h
    · intro s1 hl1 ho ht
      rw [← ht] at hi
      exact live_runlock_setTask (ho.trans hr) hl1 hi rfl rfl
    · intro s1 hl1 ho ht
      rw [← ht] at hi
      exact live_setTask hl1 hi rfl rfl
  | wgSend o w it cb =>
    cases hobj
    simp only [stepTask, stepWgSend] at h
    refine live_stepSend hl hi ?_ ?_ h
    · intro s1 hl1 ho ht
      rw [← ht, ← wgDone_tasks s1 w] at hi
      exact live_setTask (live_wgDone hl1 w) hi rfl rfl
    · intro s1 hl1 ho ht
      rw [← ht] at hi
      exact live_setTask hl1 hi rfl rfl
  | subStart o c cap =>
    cases hobj
    simp only [stepTask, List.mem_singleton, Prod.mk.injEq] at h
    obtain ⟨_, rfl⟩ := h
    exact live_announce_setTask hr hl hi rfl rfl rfl
  | subWait o c cap =>
    cases hobj
    have hpos : 0 < (s.obj 0).rw.waiting := by
      rw [hl.waiting]; exact List.countP_pos_iff.mpr ⟨_, List.mem_of_getElem? hi, rfl⟩
    simp only [stepTask, stepSubWait] at h
    split at h
    · simp at h
    · simp only [List.mem_singleton, Prod.mk.injEq] at h
      obtain ⟨_, rfl⟩ := h
      have hwr := hl.writer
      refine live_replace (t' := .subRet c) hl hi rfl (rd_append _ hl.rd rfl) ?_ ?_ rfl
      · simp [State.setTask, State.setObj, State.obj, hr, RW.lockUnlock]
      · simp [State.obj, hr] at hpos
        simp [isWaiter, State.setTask, State.setObj, State.obj, hr, RW.lockUnlock]
        omega
  | subRet c =>
    simp only [stepTask, List.mem_singleton, Prod.mk.injEq] at h
    obtain ⟨_, rfl⟩ := h
    exact live_setTask hl hi rfl rfl
  | unsubStart u o c =>
    cases hobj
    cases c with
    | none =>
      simp only [stepTask, List.mem_singleton, Prod.mk.injEq] at h
      obtain ⟨_, rfl⟩ := h
      exact live_setTask hl hi rfl rfl
    | some c =>
      simp only [stepTask, List.mem_singleton, Prod.mk.injEq] at h
      obtain ⟨_, rfl⟩ := h
      exact live_announce_setTask hr hl hi rfl rfl rfl
  | unsubWait u o c =>
    cases hobj
    have hpos : 0 < (s.obj 0).rw.waiting := by
      rw [hl.waiting]; exact List.countP_pos_iff.mpr ⟨_, List.mem_of_getElem? hi, rfl⟩
    simp [State.obj, hr] at hpos
    simp only [stepTask, stepUnsubWait] at h
    split at h
    · simp at h
    · split at h
      · split at h
        · simp only [List.mem_singleton, Prod.mk.injEq] at h
          obtain ⟨_, rfl⟩ := h
          exact ⟨hl.rd, hl.writer, hl.waiting, hl.sync⟩
        · simp only [List.mem_singleton, Prod.mk.injEq] at h
          obtain ⟨_, rfl⟩ := h
          refine live_replace (t' := .unsubRet u .nil) hl hi rfl (rd_closeChan _ hl.rd) ?_ ?_ rfl
          · simp [State.setTask, State.setObj, State.obj, hr, RW.lockUnlock]
          · simp [isWaiter, State.setTask, State.setObj, State.obj, hr, RW.lockUnlock]
            omega
      · simp only [List.mem_singleton, Prod.mk.injEq] at h
        obtain ⟨_, rfl⟩ := h
        refine live_replace (t' := .unsubRet u .already) hl hi rfl hl.rd ?_ ?_ rfl
        · simp [State.setTask, State.setObj, State.obj, hr, RW.lockUnlock]
        · simp [isWaiter, State.setTask, State.setObj, State.obj, hr, RW.lockUnlock]
          omega
  | unsubRet u code =>
    simp only [stepTask, List.mem_singleton, Prod.mk.injEq] at h
    obtain ⟨_, rfl⟩ := h
    exact live_setTask hl hi rfl rfl
  | uaStart u o =>
    cases hobj
    simp only [stepTask, List.mem_singleton, Prod.mk.injEq] at h
    obtain ⟨_, rfl⟩ := h
    exact live_announce_setTask hr hl hi rfl rfl rfl
  | uaWait u o =>
    cases hobj
    have hpos : 0 < (s.obj 0).rw.waiting := by
      rw [hl.waiting]; exact List.countP_pos_iff.mpr ⟨_, List.mem_of_getElem? hi, rfl⟩
    simp [State.obj, hr] at hpos
    simp only [stepTask, stepUaWait] at h
    split at h
    · simp at h
    · split at h
      · simp only [List.mem_singleton, Prod.mk.injEq] at h
        obtain ⟨_, rfl⟩ := h
        exact ⟨hl.rd, hl.writer, hl.waiting, hl.sync⟩
      · rename_i cs hcs
        simp only [List.mem_singleton, Prod.mk.injEq] at h
        obtain ⟨_, rfl⟩ := h
        refine live_replace (t' := .uaRet u) hl hi rfl (rd_closeAll _ _ _ hl.rd hcs) ?_ ?_ rfl
        · simp [State.setTask, State.setObj, State.obj, hr, RW.lockUnlock]
        · simp [isWaiter, State.setTask, State.setObj, State.obj, hr, RW.lockUnlock]
          omega
  | uaRet u =>
    simp only [stepTask, List.mem_singleton, Prod.mk.injEq] at h
    obtain ⟨_, rfl⟩ := h
    exact live_setTask hl hi rfl rfl
  | woStart w o c => exact absurd hobj (by simp [objOk])
  | done => simp [stepTask] at h

theorem live_succ {cfg : Cfg} {s s' : State} {l : Option Event} (hc : cfg.allowClone = false) (hs : Safe s)
    (hl : Live s) (h : (l, s') ∈ succ cfg s) : Live s' := by
  unfold succ at h
  split at h
  · simp at h
  · rw [hs.nopanic] at h
    simp only [List.mem_append] at h
    rcases h with ((h | h) | h) | h
    · simp only [envSteps, List.mem_filterMap] at h
      obtain ⟨e, _, he⟩ := h
      cases hes : envStep cfg s e with
      | none => simp [hes] at he
      | some s1 =>
        simp [hes] at he
        obtain ⟨_, rfl⟩ := he
        exact live_envStep hc hl hes
    · simp only [List.mem_flatMap, List.mem_range] at h
      obtain ⟨i, _, hi⟩ := h
      unfold taskSteps at hi
      split at hi
      · simp at hi
      · rename_i t ht
        exact live_stepTask hs hl ht hi
    · simp only [List.mem_flatMap] at h
      obtain ⟨ch, hm, hch⟩ := h
      exact live_recvSteps hl hm hch
    · simp only [exitSteps, List.mem_map] at h
      obtain ⟨r, _, hr⟩ := h
      injection hr with _ hr; subst hr
      exact ⟨hl.rd, hl.writer, hl.waiting, hl.sync⟩

/-- `Live` holds in every reachable state of the system without clones -/
theorem live_reachable (cfg : Cfg) (hc : cfg.allowClone = false) :
    ∀ s, Conc.Reachable (sys cfg) s → Live s :=
  Conc.invariant' (sys cfg) Live live_init
    (fun s _ _ hr hl h => live_succ hc (no_panic_noClone cfg hc s hr) hl h)

end TypVerif.Lemmas.PubSubLive
