import TypVerif.Lemmas.PubSubSafeStep
import TypVerif.Lemmas.PubSubLocal
/-
Bookkeeping view of the PubSub transition system, for the ghost-log theorems of C10.

`pend t` = the items task `t` still has to hand off (not yet logged).  `TStep` lists, at the level of
(task, spawned tasks, appended `delivered` entries, appended `timedOut` entries), every transition a task can
make; `BStep` does the same for a whole `succ` step.  `succ_bstep` shows that every step of `sys cfg` is one of these.
Nothing here needs reachability or `CloneDiscipline`.
-/
namespace TypVerif.Lemmas.PubSubLog
open TypVerif TypVerif.Model.PubSub TypVerif.Lemmas.PubSubSafe

/-- a ghost-log entry: (publisher id, event index, channel) -/
abbrev Key := Nat × Nat × Chan

/-- the log entry written by the hand-off of `it` -/
def key (it : Item) : Key := (it.pid, it.idx, it.c)

/-- items the task still has to hand off (the head of a `syncLoop` / the item of a sender whose timer has fired is
already logged in `timedOut`, only its callback is pending) -/
def pend : Task → List Item
  | .syncLoop _ _ work cb => if cb then work.tail else work
  | .asyncStart _ it => [it]
  | .asyncSend _ it cb => if cb then [] else [it]
  | .wgSend _ _ it cb => if cb then [] else [it]
  | _ => []

/-- keys of the pending items of a task -/
def pk (t : Task) : List Key := (pend t).map key

/-- the task a PubSync call continues as when `work` is what is left -/
def syncNext (p o : Nat) : List Item → Task
  | [] => .pubRet p
  | it :: rest => .syncLoop p o (it :: rest) false

/-- tasks of Sub / Unsub / UnsubAll / WithOnly, and finished ones -/
def isCtl : Task → Bool
  | .subStart .. => true
  | .subWait .. => true
  | .subRet .. => true
  | .unsubStart .. => true
  | .unsubWait .. => true
  | .unsubRet .. => true
  | .uaStart .. => true
  | .uaWait .. => true
  | .uaRet .. => true
  | .woStart .. => true
  | .done => true
  | _ => false

/-- a publish call before its snapshot -/
def isPub : Task → Bool
  | .pubStart .. => true
  | _ => false

/-- `TStep cfg s t t' new dl tl`: in state `s` task `t` can become `t'`, spawning `new`, appending `dl` to `delivered`
and `tl` to `timedOut`. -/
inductive TStep (cfg : Cfg) (s : State) : Task → Task → List Task → List Key → List Key → Prop
  | stuck (t) : isPub t = false → TStep cfg s t t [] [] []              -- a panicking step: bookkeeping unchanged
  | ctl {t t'} : isCtl t = true → isCtl t' = true → TStep cfg s t t' [] [] []
  | ret (p) : TStep cfg s (.pubRet p) .done [] [] []
  | waitRet (p o w) : s.wgs.getD w 0 = 0 → TStep cfg s (.waitWg p o w) (.pubRet p) [] [] []
  | pubSync (p o v evs) : v.isSync = true →
      TStep cfg s (.pubStart p o v evs) (syncNext p o (mkItems p evs (s.obj o).subs)) [] [] []
  | pubWait (p o v evs) : v.isSync = false → v.isWait = true →
      TStep cfg s (.pubStart p o v evs) (.waitWg p o s.wgs.length)
        ((mkItems p evs (s.obj o).subs).map (fun it => .wgSend o s.wgs.length it false)) [] []
  | pubAsync (p o v evs) : v.isSync = false → v.isWait = false →
      TStep cfg s (.pubStart p o v evs) (.pubRet p)
        ((mkItems p evs (s.obj o).subs).map (fun it => .asyncStart o it)) [] []
  | syncCb (p o it rest) : TStep cfg s (.syncLoop p o (it :: rest) true) (syncNext p o rest) [] [] []
  | syncSent (p o it rest) : TStep cfg s (.syncLoop p o (it :: rest) false) (syncNext p o rest) [] [key it] []
  | syncTmo (p o it rest) : cfg.timeout > 0 →
      TStep cfg s (.syncLoop p o (it :: rest) false) (.syncLoop p o (it :: rest) true) [] [] [key it]
  | asyncGo (o it) : it.c ∈ (s.obj o).subs → TStep cfg s (.asyncStart o it) (.asyncSend o it false) [] [] []
  | asyncDrop (o it) : it.c ∉ (s.obj o).subs → TStep cfg s (.asyncStart o it) .done [] [] []
  | asyncCb (o it) : TStep cfg s (.asyncSend o it true) .done [] [] []
  | asyncSent (o it) : TStep cfg s (.asyncSend o it false) .done [] [key it] []
  | asyncTmo (o it) : cfg.timeout > 0 → TStep cfg s (.asyncSend o it false) (.asyncSend o it true) [] [] [key it]
  | wgCb (o w it) : TStep cfg s (.wgSend o w it true) .done [] [] []
  | wgSent (o w it) : TStep cfg s (.wgSend o w it false) .done [] [key it] []
  | wgTmo (o w it) : cfg.timeout > 0 → TStep cfg s (.wgSend o w it false) (.wgSend o w it true) [] [] [key it]

/-- `BStep cfg s s'`: what a step of the system does to (tasks, delivered, timedOut, pids) -/
inductive BStep (cfg : Cfg) (s s' : State) : Prop
  | same : s'.tasks = s.tasks → s'.delivered = s.delivered → s'.timedOut = s.timedOut → s'.pids = s.pids →
      BStep cfg s s'
  | spawnCtl (t) : isCtl t = true → s'.tasks = s.tasks ++ [t] → s'.delivered = s.delivered →
      s'.timedOut = s.timedOut → s'.pids = s.pids → BStep cfg s s'
  | invoke (p o v evs) : p ∉ s.pids → s'.pids = s.pids ++ [p] → s'.tasks = s.tasks ++ [.pubStart p o v evs] →
      s'.delivered = s.delivered → s'.timedOut = s.timedOut → BStep cfg s s'
  | task (i t t' new dl tl) : s.tasks[i]? = some t → TStep cfg s t t' new dl tl →
      s'.tasks = s.tasks.set i t' ++ new → s'.delivered = s.delivered ++ dl → s'.timedOut = s.timedOut ++ tl →
      s'.pids = s.pids → BStep cfg s s'

/-! ### small state lemmas -/

theorem set_self {α} (l : List α) (i : Nat) (t : α) (h : l[i]? = some t) : l.set i t = l := by
  apply List.ext_getElem?
  intro j
  rw [List.getElem?_set]
  by_cases hij : i = j
  · subst hij
    have hlt : i < l.length := by
      rcases Nat.lt_or_ge i l.length with h1 | h1
      · exact h1
      · simp [List.getElem?_eq_none h1] at h
    rw [if_pos hlt, h]
    simp
  · simp [hij]

theorem mem_stepSend' {cfg : Cfg} {s : State} {it : Item} {cb : Bool} {fin setCb : State → State}
    {l : Option Event} {s' : State} (h : (l, s') ∈ stepSend cfg s it cb fin setCb) :
    (cb = true ∧ s' = fin s) ∨
    (cb = false ∧ ∃ s1, sendTo s it = .sent s1 ∧ s' = fin s1) ∨
    (cb = false ∧ s' = s.panic "send-on-closed") ∨
    (cb = false ∧ cfg.timeout > 0 ∧ s' = setCb (s.logTimeout it)) := by
  unfold stepSend at h
  cases cb with
  | true =>
    simp at h
    exact Or.inl ⟨rfl, h.2⟩
  | false =>
    simp only [Bool.false_eq_true, if_false, List.mem_append] at h
    rcases h with h | h
    · cases hst : sendTo s it with
      | blocked => simp [hst] at h
      | panic =>
        simp [hst] at h
        exact Or.inr (Or.inr (Or.inl ⟨rfl, h.2⟩))
      | sent s1 =>
        simp [hst] at h
        exact Or.inr (Or.inl ⟨rfl, s1, rfl, h.2⟩)
    · split at h
      · rename_i htm
        simp at h
        exact Or.inr (Or.inr (Or.inr ⟨rfl, htm, h.2⟩))
      · simp at h

theorem sendTo_sent_book {s s1 : State} {it : Item} (h : sendTo s it = .sent s1) :
    s1.tasks = s.tasks ∧ s1.delivered = s.delivered ++ [key it] ∧ s1.timedOut = s.timedOut ∧ s1.pids = s.pids ∧
    s1.wgs = s.wgs := by
  unfold sendTo at h
  split at h
  · cases h
  · split at h
    · cases h
    · split at h
      · injection h with h; subst h; exact ⟨rfl, rfl, rfl, rfl, rfl⟩
      · split at h
        · injection h with h; subst h; exact ⟨rfl, rfl, rfl, rfl, rfl⟩
        · cases h

theorem wgDone_book (s : State) (w : Nat) :
    (wgDone s w).tasks = s.tasks ∧ (wgDone s w).delivered = s.delivered ∧ (wgDone s w).timedOut = s.timedOut ∧
    (wgDone s w).pids = s.pids := by
  unfold wgDone
  split <;> exact ⟨rfl, rfl, rfl, rfl⟩

theorem syncAdvance_book (i p o : Nat) (rest : List Item) (s : State) :
    (syncAdvance i p o rest s).tasks = s.tasks.set i (syncNext p o rest) ∧
    (syncAdvance i p o rest s).delivered = s.delivered ∧ (syncAdvance i p o rest s).timedOut = s.timedOut ∧
    (syncAdvance i p o rest s).pids = s.pids := by
  cases rest with
  | nil => exact ⟨rfl, rfl, rfl, rfl⟩
  | cons a r => exact ⟨rfl, rfl, rfl, rfl⟩

end TypVerif.Lemmas.PubSubLog
