import TypVerif.Lemmas.ConcAccept
/-
Bounded completeness of the generic internal closure `Conc.tauClosure` (for a decidable state equality and a duplicate-free
state list, as produced by `dedup`): every state reachable by at most `fuel` internal steps from a member is a member.
(The early exit `all.length == ss.length` is a fixpoint test only for duplicate-free `ss`.)
-/
namespace TypVerif.Lemmas.OnceRed
open TypVerif TypVerif.Conc

/-! ### `dedup` -/
section Dedup
variable {α : Type} [DecidableEq α]

def dstep (acc : List α) (x : α) : List α := if acc.contains x then acc else acc ++ [x]

theorem dedup_eq (xs : List α) : dedup xs = xs.foldl dstep [] := rfl

theorem dfold_len (xs : List α) : ∀ acc : List α, acc.length ≤ (xs.foldl dstep acc).length := by
  induction xs with
  | nil => intro acc; exact Nat.le_refl _
  | cons x xs ih =>
    intro acc
    rw [List.foldl_cons]
    refine Nat.le_trans ?_ (ih _)
    unfold dstep
    split
    · exact Nat.le_refl _
    · simp

theorem dfold_acc (xs : List α) : ∀ (acc : List α) (y : α), y ∈ acc → y ∈ xs.foldl dstep acc := by
  induction xs with
  | nil => intro acc y h; exact h
  | cons x xs ih =>
    intro acc y h
    rw [List.foldl_cons]
    apply ih
    unfold dstep
    split
    · exact h
    · exact List.mem_append_left _ h

theorem dfold_mem (xs : List α) : ∀ (acc : List α) (y : α), y ∈ xs → y ∈ xs.foldl dstep acc := by
  induction xs with
  | nil => intro acc y h; cases h
  | cons x xs ih =>
    intro acc y h
    rw [List.foldl_cons]
    rcases List.mem_cons.1 h with rfl | h
    · apply dfold_acc
      unfold dstep
      split
      · rename_i hc; simpa using hc
      · simp
    · exact ih _ y h

theorem dfold_nodup (xs : List α) : ∀ (acc : List α), acc.Nodup → (xs.foldl dstep acc).Nodup := by
  induction xs with
  | nil => intro acc h; exact h
  | cons x xs ih =>
    intro acc h
    rw [List.foldl_cons]
    apply ih
    unfold dstep
    split
    · exact h
    · rename_i hc
      rw [List.nodup_append]
      refine ⟨h, by simp, ?_⟩
      intro a ha b hb
      simp only [List.mem_singleton] at hb
      subst hb
      intro e
      subst e
      exact hc (by simpa using ha)

theorem dfold_id (xs : List α) : ∀ (acc : List α), (acc ++ xs).Nodup → xs.foldl dstep acc = acc ++ xs := by
  induction xs with
  | nil => intro acc _; simp
  | cons x xs ih =>
    intro acc h
    rw [List.foldl_cons]
    have hx : ¬ x ∈ acc := by
      intro hm
      rw [List.nodup_append] at h
      exact h.2.2 x hm x List.mem_cons_self rfl
    have : dstep acc x = acc ++ [x] := by
      unfold dstep
      rw [if_neg]
      simpa using hx
    rw [this, ih _ (by simpa using h)]
    simp

theorem dfold_len_eq (xs : List α) : ∀ (acc : List α), (xs.foldl dstep acc).length = acc.length → ∀ x ∈ xs, x ∈ acc := by
  induction xs with
  | nil => intro acc _ x hx; cases hx
  | cons y ys ih =>
    intro acc hlen x hx
    rw [List.foldl_cons] at hlen
    by_cases hc : acc.contains y = true
    · have hd : dstep acc y = acc := by unfold dstep; rw [if_pos hc]
      rw [hd] at hlen
      rcases List.mem_cons.1 hx with rfl | hx
      · simpa using hc
      · exact ih acc hlen x hx
    · have hd : dstep acc y = acc ++ [y] := by unfold dstep; rw [if_neg hc]
      rw [hd] at hlen
      have := dfold_len ys (acc ++ [y])
      simp at this
      omega

theorem mem_dedup {xs : List α} {x : α} (h : x ∈ xs) : x ∈ dedup xs := dfold_mem xs [] x h

theorem nodup_dedup (xs : List α) : (dedup xs).Nodup := dfold_nodup xs [] List.nodup_nil

/-- for duplicate-free `ss`, the length test of `tauClosure` is a fixpoint test -/
theorem dedup_len_eq (ss next : List α) (hn : ss.Nodup) (h : (dedup (ss ++ next)).length = ss.length) :
    ∀ x ∈ next, x ∈ ss := by
  rw [dedup_eq, List.foldl_append, dfold_id ss [] (by simpa using hn)] at h
  simp only [List.nil_append] at h
  exact dfold_len_eq next ss h

end Dedup

/-! ### bounded internal reachability -/

inductive TauN (sys : Sys) : Nat → sys.State → sys.State → Prop where
  | refl (k s) : TauN sys k s s
  | step {k s s1 s2} : (none, s1) ∈ sys.succ s → TauN sys k s1 s2 → TauN sys (k + 1) s s2

theorem TauN.mono {sys : Sys} {k k' : Nat} {a b : sys.State} (h : TauN sys k a b) (hk : k ≤ k') : TauN sys k' a b := by
  induction h generalizing k' with
  | refl k s => exact TauN.refl _ _
  | step hm _ ih =>
    cases k' with
    | zero => omega
    | succ k' => exact TauN.step hm (ih (by omega))

theorem TauN.trans {sys : Sys} {k1 k2 : Nat} {a b c : sys.State} (h1 : TauN sys k1 a b) (h2 : TauN sys k2 b c) :
    TauN sys (k1 + k2) a c := by
  induction h1 with
  | refl k s => exact h2.mono (by omega)
  | step hm _ ih =>
    have := TauN.step hm (ih h2)
    exact this.mono (by omega)

theorem TauN.of_exec {sys : Sys} {a b : sys.State} {ls : List (Option sys.Event)} (h : Exec sys a ls b)
    (hv : visible ls = []) : TauN sys ls.length a b := by
  induction h with
  | nil s => exact TauN.refl _ _
  | @cons s s' s'' l ls hm _ ih =>
    cases l with
    | some e => simp at hv
    | none => exact TauN.step hm (ih (by simpa using hv))

section Closure
variable (sys : Sys) [DecidableEq sys.State]

def tauNext (ss : List sys.State) : List sys.State :=
  ss.flatMap (fun s => (sys.succ s).filterMap (fun p => match p.1 with | none => some p.2 | some _ => none))

omit [DecidableEq sys.State] in
theorem mem_tauNext {ss : List sys.State} {s s' : sys.State} (hs : s ∈ ss) (hm : (none, s') ∈ sys.succ s) :
    s' ∈ tauNext sys ss := by
  unfold tauNext
  exact List.mem_flatMap.2 ⟨s, hs, List.mem_filterMap.2 ⟨(none, s'), hm, rfl⟩⟩

theorem tauClosure_succ (fuel : Nat) (ss : List sys.State) :
    tauClosure sys (fuel + 1) ss =
      if (dedup (ss ++ tauNext sys ss)).length = ss.length then ss
      else tauClosure sys fuel (dedup (ss ++ tauNext sys ss)) := by
  show (if ((dedup (ss ++ tauNext sys ss)).length == ss.length) = true then ss
      else tauClosure sys fuel (dedup (ss ++ tauNext sys ss))) = _
  by_cases h : (dedup (ss ++ tauNext sys ss)).length = ss.length
  · rw [if_pos h, if_pos (by simpa using h)]
  · rw [if_neg h, if_neg (by simpa using h)]

theorem tauClosure_complete (fuel : Nat) : ∀ (ss : List sys.State), ss.Nodup →
    ∀ (k : Nat) (s s' : sys.State), k ≤ fuel → s ∈ ss → TauN sys k s s' → s' ∈ tauClosure sys fuel ss := by
  induction fuel with
  | zero =>
    intro ss _ k s s' hk hs ht
    cases ht with
    | refl => exact hs
    | step _ _ => omega
  | succ fuel ih =>
    intro ss hn k s s' hk hs ht
    rw [tauClosure_succ]
    split
    · rename_i hlen
      have hclosed := dedup_len_eq ss (tauNext sys ss) hn hlen
      clear hk
      induction ht with
      | refl => exact hs
      | step hm _ ih2 => exact ih2 (hclosed _ (mem_tauNext sys hs hm))
    · have hn' := nodup_dedup (ss ++ tauNext sys ss)
      cases ht with
      | refl =>
        exact ih _ hn' 0 s s (Nat.zero_le _) (mem_dedup (List.mem_append_left _ hs)) (TauN.refl _ _)
      | step hm ht' =>
        exact ih _ hn' _ _ s' (by omega) (mem_dedup (List.mem_append_right _ (mem_tauNext sys hs hm))) ht'

theorem stepEvent_complete [DecidableEq sys.Event] (fuel : Nat) (ss : List sys.State) (e : sys.Event)
    (s r1 x : sys.State) (k : Nat) (hs : s ∈ ss) (hm : (some e, r1) ∈ sys.succ s) (ht : TauN sys k r1 x)
    (hk : k ≤ fuel) : x ∈ stepEvent sys fuel ss e := by
  unfold stepEvent
  refine tauClosure_complete sys fuel _ (nodup_dedup _) k r1 x hk (mem_dedup ?_) ht
  refine List.mem_flatMap.2 ⟨s, hs, List.mem_filterMap.2 ⟨(some e, r1), hm, ?_⟩⟩
  simp

end Closure

end TypVerif.Lemmas.OnceRed
