import TypVerif.Lemmas.Once
/-
Further facts about the steps of `Model.Once` (for every `res`), used by the panic extension
(`Model/OncePanic.lean`): frame lemmas, a rank that every step decreases, the mutex-holder invariant,
"the fields are zero until the assignment".
-/
namespace TypVerif.Lemmas.OncePanic
open TypVerif TypVerif.Conc TypVerif.Model.Once TypVerif.Lemmas.Once

/-- position of a program counter in `Do` (every step of a goroutine moves it strictly down) -/
def rank : Pc → Nat
  | .idle => 10 | .fast => 9 | .lock => 8 | .check => 7 | .callF => 6 | .inF => 5
  | .assign _ => 4 | .store => 3 | .unlock => 2 | .read => 1 | .returned => 0

theorem rank_le (p : Pc) : rank p ≤ 10 := by cases p <;> simp [rank]

/-- the locations at which a goroutine holds the mutex -/
def holds : Pc → Bool
  | .check | .callF | .inF | .assign _ | .store | .unlock => true
  | _ => false

/-- the mutex is held by a goroutine that is inside the critical section (so it will release it) -/
def HolderOk (s : State) : Prop := ∀ h, s.mu = some h → h < s.pcs.length ∧ holds (s.pc h) = true

theorem init_pc (n a t : Nat) : (init n a).pc t = .idle := by
  unfold State.pc init
  simp only [List.getD_eq_getElem?_getD, List.getElem?_replicate]
  split <;> rfl

/-- what one step of goroutine `t` does to program counters, mutex and length -/
theorem stepT_facts {res : Nat → List Int} {s : State} {t : Nat} {p : Option Event × State}
    (ht : t < s.pcs.length) (hp : p ∈ stepT res s t) :
    (∀ u, u ≠ t → p.2.pc u = s.pc u) ∧ rank (p.2.pc t) < rank (s.pc t) ∧
    p.2.pcs.length = s.pcs.length ∧
    (p.2.mu = s.mu ∨ p.2.mu = none ∨ (s.pc t = .lock ∧ s.mu = none ∧ p.2.mu = some t)) := by
  unfold stepT at hp
  split at hp <;> (try split at hp) <;> simp at hp <;> subst hp <;>
    simp only [State.setPc, pc_mk _ _ _ _ ht] <;>
    (refine ⟨fun u hu => by simp [hu], ?_, by simp, ?_⟩) <;> simp_all [rank] <;>
    (try (split <;> simp [rank]))

/-- a goroutine that has not returned is enabled, except at `Lock` while the mutex is held -/
theorem stepT_enabled (res : Nat → List Int) (s : State) (t : Nat)
    (hr : s.pc t ≠ .returned) (hl : s.pc t = .lock → s.mu = none) : stepT res s t ≠ [] := by
  unfold stepT
  split <;> simp_all

/-- the step function looks at `res t` only while `f_t` runs -/
theorem stepT_res_irrelevant (res res' : Nat → List Int) (s : State) (t : Nat)
    (h : s.pc t = .inF → res' t = res t) : stepT res' s t = stepT res s t := by
  unfold stepT
  split <;> simp_all

theorem holder_init (n a : Nat) : HolderOk (init n a) := by
  intro h hm; simp [init] at hm

theorem holder_step {res : Nat → List Int} {s s' : State} {l : Option Event}
    (hg : Good s) (hh : HolderOk s) (hmem : (l, s') ∈ succ res s) : HolderOk s' := by
  obtain ⟨t, ht, hstep⟩ := mem_succ.mp hmem
  have hT := hg.thread t
  unfold ThreadOk at hT
  intro h hmu
  have hf := stepT_facts ht hstep
  obtain ⟨hfr, _, hlen, _⟩ := hf
  simp only at hfr hlen
  rw [hlen]
  unfold stepT at hstep
  split at hstep <;> (try split at hstep) <;> simp at hstep <;> obtain ⟨rfl, rfl⟩ := hstep <;>
    simp only [State.setPc, pc_mk _ _ _ _ ht] at hmu ⊢
  all_goals first
    | (simp at hmu; done)
    | (simp at hmu; subst hmu; simp [holds]; exact ht)
    | (by_cases e : h = t
       · subst e
         have := hh h hmu
         simp_all [holds]
         try (split <;> simp [holds])
       · have := hh h hmu
         simp_all [holds])

theorem zero_step {a : Nat} {res : Nat → List Int} {s s' : State} {l : Option Event}
    (hg : Good s) (hz : s.fres = none → s.fields = List.replicate a 0) (hmem : (l, s') ∈ succ res s) :
    s'.fres = none → s'.fields = List.replicate a 0 := by
  obtain ⟨t, ht, hstep⟩ := mem_succ.mp hmem
  have hT := hg.thread t
  unfold ThreadOk at hT
  unfold stepT at hstep
  split at hstep <;> (try split at hstep) <;> simp at hstep <;> obtain ⟨rfl, rfl⟩ := hstep <;>
    simp_all [State.setPc]

/-- invariants of `Model.Once` that hold whatever `res` each step uses -/
structure BInv (a : Nat) (s : State) : Prop where
  good : Good s
  zero : s.fres = none → s.fields = List.replicate a 0
  holder : HolderOk s

theorem binv_init (n a : Nat) : BInv a (init n a) :=
  ⟨good_init n a, fun _ => rfl, holder_init n a⟩

theorem binv_step {a : Nat} {res : Nat → List Int} {s s' : State} {l : Option Event}
    (h : BInv a s) (hmem : (l, s') ∈ succ res s) : BInv a s' :=
  ⟨good_step res s l s' h.good hmem, zero_step h.good h.zero hmem, holder_step h.good h.holder hmem⟩

theorem len_step {res : Nat → List Int} {s s' : State} {l : Option Event}
    (hmem : (l, s') ∈ succ res s) : s'.pcs.length = s.pcs.length := by
  obtain ⟨t, ht, hstep⟩ := mem_succ.mp hmem
  exact (stepT_facts ht hstep).2.2.1

/-- steps other than `fend` do not touch the recorded result -/
theorem fres_frame {res : Nat → List Int} {s s' : State} {l : Option Event}
    (h : (l, s') ∈ succ res s) (hl : ∀ t r, l ≠ some (Event.fend t r)) : s'.fres = s.fres := by
  obtain ⟨t0, _, hstep⟩ := mem_succ.mp h
  unfold stepT at hstep
  split at hstep <;> (try split at hstep) <;> simp at hstep <;> obtain ⟨rfl, rfl⟩ := hstep <;>
    first | rfl | (exact absurd rfl (hl _ _))

/-- `f` panicking = `f` returning the current (zero) fields followed by the (no-op) assignment:
two steps of `Model.Once` -/
theorem panic_as_two_steps {res : Nat → List Int} {s : State} {t : Nat}
    (ht : t < s.pcs.length) (hpc : s.pc t = .inF) (hr : res t = s.fields) :
    (some (Event.fend t s.fields), { s.setPc t (.assign s.fields) with fres := some s.fields }) ∈ succ res s ∧
    (none, { s.setPc t .store with fres := some s.fields }) ∈
      succ res { s.setPc t (.assign s.fields) with fres := some s.fields } := by
  constructor
  · refine mem_succ.mpr ⟨t, ht, ?_⟩
    unfold stepT
    rw [hpc]
    simp [hr]
  · refine mem_succ.mpr ⟨t, by simpa [State.setPc] using ht, ?_⟩
    unfold stepT
    have : State.pc { s.setPc t (.assign s.fields) with fres := some s.fields } t = .assign s.fields := by
      simp only [State.setPc, pc_mk _ _ _ _ ht]; simp
    rw [this]
    simp [State.setPc]

end TypVerif.Lemmas.OncePanic
