import TypVerif.Lemmas.Once
import TypVerif.Lemmas.ConcAcceptC17
/-
Completeness of the reduction `Drv.C17.red` (every visible trace of `Model.Once.sys` is one of `red`): basic definitions.

* `GoodX` : the invariant `Lemmas.Once.Good` plus "the goroutine recorded in `mu` is at a program counter at which it
  holds the mutex".
* `nf` : the explicit normal form of a state under urgent steps (what `normalize` computes with enough fuel).
* `nu` : a measure that every urgent step decreases (at most `4` per goroutine: this is the fuel `normalize` needs).
-/
namespace TypVerif.Lemmas.OnceRed
open TypVerif TypVerif.Conc TypVerif.Model.Once TypVerif.Drv.C17 TypVerif.Lemmas.Once

/-! ### the mutex-holder invariant -/

def holds : Pc → Bool
  | .check | .callF | .inF | .assign _ | .store | .unlock => true
  | _ => false

structure GoodX (s : State) : Prop where
  good : Good s
  holder : ∀ w, s.mu = some w → holds (s.pc w) = true

theorem pc_init (n a t : Nat) : (init n a).pc t = .idle := by
  unfold State.pc init
  simp only [List.getD_eq_getElem?_getD, List.getElem?_replicate]
  split <;> rfl

theorem goodX_init (n a : Nat) : GoodX (init n a) :=
  ⟨good_init n a, by intro w h; simp [init] at h⟩

theorem holder_step (res : Nat → List Int) (s : State) (l : Option Event) (s' : State)
    (hg : GoodX s) (hmem : (l, s') ∈ succ res s) : ∀ w, s'.mu = some w → holds (s'.pc w) = true := by
  obtain ⟨t, ht, hstep⟩ := mem_succ.mp hmem
  have hT := hg.good.thread t
  unfold stepT at hstep
  unfold ThreadOk at hT
  intro w
  have hw := hg.holder w
  split at hstep <;> (try split at hstep) <;> simp at hstep <;> obtain ⟨rfl, rfl⟩ := hstep <;>
    simp only [State.setPc, pc_mk _ _ _ _ ht] <;>
    by_cases e : w = t
  all_goals first
    | (subst e; simp_all [holds]; done)
    | (simp only [e, if_false]; simp_all [holds]; done)
    | (simp only [e, if_false]; simp_all [holds]; intro h; exact absurd h.symm e)

theorem goodX_step (res : Nat → List Int) (s : State) (l : Option Event) (s' : State)
    (hg : GoodX s) (hmem : (l, s') ∈ succ res s) : GoodX s' :=
  ⟨good_step res s l s' hg.good hmem, holder_step res s l s' hg hmem⟩

theorem goodX_reachable (n a : Nat) (res : Nat → List Int) :
    ∀ s, Reachable (sys n a res) s → GoodX s :=
  Conc.invariant (sys n a res) GoodX (goodX_init n a) (fun s l s' h hm => goodX_step res s l s' h hm)

theorem goodX_exec (n a : Nat) (res : Nat → List Int) {s s' : State} {ls : List (Option Event)}
    (h : Exec (sys n a res) s ls s') (hg : GoodX s) : GoodX s' := by
  refine Exec.rel_induct (sys' := sys n a res) (fun a _ b => GoodX a → GoodX b) ?_ ?_ h hg
  · intro s h; exact h
  · intro s l s' ls s'' hm ih hg
    exact ih (goodX_step res _ _ _ hg hm)

/-! ### the normal form -/

def isAS : Pc → Bool
  | .assign _ | .store => true
  | _ => false

/-- `done` will be set by urgent steps alone -/
def willDone (s : State) : Bool :=
  s.done || (match s.mu with
    | some w => isAS (s.pc w)
    | none => false)

def nfPc (D : Bool) : Pc → Pc
  | .fast | .lock => if D then .read else .lock
  | .check => if D then .read else .callF
  | .assign _ | .store | .unlock => .read
  | p => p

def nf (s : State) : State :=
  { pcs := s.pcs.map (nfPc (willDone s)), done := willDone s,
    mu := if willDone s then none else s.mu,
    fields := if willDone s then s.fres.getD s.fields else s.fields,
    invoked := s.invoked, fres := s.fres }

theorem nfPc_idle (D : Bool) : nfPc D .idle = .idle := rfl

theorem pc_map (l : List Pc) (f : Pc → Pc) (hf : f .idle = .idle) (t : Nat) :
    (l.map f).getD t .idle = f (l.getD t .idle) := by
  simp only [List.getD_eq_getElem?_getD, List.getElem?_map]
  cases l[t]? <;> simp [hf]

theorem nf_pc (s : State) (t : Nat) : (nf s).pc t = nfPc (willDone s) (s.pc t) := by
  unfold State.pc nf
  exact pc_map _ _ (nfPc_idle _) t

theorem nf_len (s : State) : (nf s).pcs.length = s.pcs.length := by simp [nf]

theorem pcs_ext (a b : List Pc) (hl : a.length = b.length)
    (h : ∀ t, t < a.length → a.getD t .idle = b.getD t .idle) : a = b := by
  apply List.ext_getElem hl
  intro i h1 h2
  have := h i h1
  simpa [List.getD_eq_getElem?_getD, h1, h2] using this

theorem state_ext (a b : State) (hl : a.pcs.length = b.pcs.length)
    (hpc : ∀ t, t < a.pcs.length → a.pc t = b.pc t) (hd : a.done = b.done) (hm : a.mu = b.mu)
    (hf : a.fields = b.fields) (hi : a.invoked = b.invoked) (hr : a.fres = b.fres) : a = b := by
  cases a; cases b
  simp only [State.mk.injEq]
  exact ⟨pcs_ext _ _ hl hpc, hd, hm, hf, hi, hr⟩

theorem nfPc_idem (D : Bool) (p : Pc) : nfPc D (nfPc D p) = nfPc D p := by
  cases p <;> cases D <;> rfl

theorem isAS_nfPc (D : Bool) (p : Pc) : isAS (nfPc D p) = false := by
  cases p <;> cases D <;> rfl

theorem nfPc_true_false (p : Pc) (h : p ≠ .check) : nfPc true (nfPc false p) = nfPc true p := by
  cases p <;> first | rfl | exact absurd rfl h

/-! ### the measure -/

def wt : Pc → Nat
  | .fast => 4
  | .lock => 3
  | .check => 2
  | .assign _ => 3
  | .store => 2
  | .unlock => 1
  | _ => 0

def nu (s : State) : Nat := (s.pcs.map wt).sum

theorem sum_set_lt (l : List Pc) (t : Nat) (p : Pc) (ht : t < l.length) (h : wt p < wt (l.getD t .idle)) :
    ((l.set t p).map wt).sum < (l.map wt).sum := by
  induction l generalizing t with
  | nil => simp at ht
  | cons x xs ih =>
    cases t with
    | zero =>
      simp only [List.getD_eq_getElem?_getD, List.getElem?_cons_zero, Option.getD_some] at h
      simp only [List.set_cons_zero, List.map_cons, List.sum_cons]
      omega
    | succ t =>
      simp only [List.getD_eq_getElem?_getD, List.getElem?_cons_succ] at h
      have := ih t (by simpa using ht) (by simpa [List.getD_eq_getElem?_getD] using h)
      simp only [List.set_cons_succ, List.map_cons, List.sum_cons]
      omega

theorem sum_wt_le (l : List Pc) : (l.map wt).sum ≤ 4 * l.length := by
  induction l with
  | nil => simp
  | cons x xs ih =>
    have : wt x ≤ 4 := by cases x <;> simp [wt]
    simp only [List.map_cons, List.sum_cons, List.length_cons]
    omega

theorem nu_le (s : State) : nu s ≤ 4 * s.pcs.length := sum_wt_le _

end TypVerif.Lemmas.OnceRed
