import TypVerif.Model.KeyedMutex
/-
Basic facts about the KeyedMutex transition system: the atomic map, the views `pc`/`mu` of a state
after an update, and a case analysis `Step` of the successor relation (one constructor per atomic action).
-/
namespace TypVerif.Lemmas.KeyedMutex
open TypVerif TypVerif.Conc TypVerif.Model.KeyedMutex

/-! ### the atomic map -/

theorem get_cons (k' v : Nat) (r : List (Nat × Nat)) (k : Nat) :
    get ((k', v) :: r) k = if k' = k then some v else get r k := rfl

theorem del_cons (k' v : Nat) (r : List (Nat × Nat)) (k : Nat) :
    del ((k', v) :: r) k = if k' = k then del r k else (k', v) :: del r k := rfl

theorem get_del_self (mp : List (Nat × Nat)) (k : Nat) : get (del mp k) k = none := by
  induction mp with
  | nil => rfl
  | cons p r ih =>
    obtain ⟨k', v⟩ := p
    rw [del_cons]
    by_cases h : k' = k
    · simp [h, ih]
    · simp [h, get_cons, ih]

theorem get_del_ne (mp : List (Nat × Nat)) {k k' : Nat} (hne : k' ≠ k) : get (del mp k) k' = get mp k' := by
  induction mp with
  | nil => rfl
  | cons p r ih =>
    obtain ⟨k0, v⟩ := p
    rw [del_cons]
    by_cases h : k0 = k
    · have : ¬ k = k' := fun e => hne e.symm
      simp [h, get_cons, this, ih]
    · simp [h, get_cons, ih]

theorem get_del_some {mp : List (Nat × Nat)} {k k' m : Nat} (h : get (del mp k) k' = some m) :
    k' ≠ k ∧ get mp k' = some m := by
  by_cases e : k' = k
  · subst e; rw [get_del_self] at h; cases h
  · exact ⟨e, by rw [get_del_ne mp e] at h; exact h⟩

/-! ### views -/

theorem getD_set {α : Type} (l : List α) (i j : Nat) (x d : α) (hi : i < l.length) :
    (l.set i x).getD j d = if j = i then x else l.getD j d := by
  simp only [List.getD_eq_getElem?_getD, List.getElem?_set]
  by_cases h : j = i
  · subst h; simp [hi]
  · have h' : ¬ i = j := fun e => h e.symm
    simp [h, h']

theorem getD_append_default {α : Type} (l : List α) (j : Nat) (d : α) :
    (l ++ [d]).getD j d = l.getD j d := by
  simp only [List.getD_eq_getElem?_getD]
  by_cases h : j < l.length
  · rw [List.getElem?_append_left h]
  · have h' : l.length ≤ j := Nat.le_of_not_lt h
    rw [List.getElem?_append_right h', List.getElem?_eq_none h']
    cases j - l.length <;> simp

theorem pc_mk (s : State) (t t' : Nat) (p : Pc) (ht : t < s.pcs.length) mp hp wh rh :
    State.pc ⟨s.pcs.set t p, mp, hp, wh, rh⟩ t' = if t' = t then p else s.pc t' := by
  unfold State.pc
  exact getD_set _ _ _ _ _ ht

theorem pc_setPc (s : State) (t t' : Nat) (p : Pc) (ht : t < s.pcs.length) :
    (s.setPc t p).pc t' = if t' = t then p else s.pc t' := pc_mk s t t' p ht _ _ _ _

theorem mu_mk_same (s : State) (m : Nat) pcs mp wh rh : State.mu ⟨pcs, mp, s.heap, wh, rh⟩ m = s.mu m := rfl

theorem mu_mk_set (s : State) (m m' : Nat) (x : Mu) (hm : m < s.heap.length) pcs mp wh rh :
    State.mu ⟨pcs, mp, s.heap.set m x, wh, rh⟩ m' = if m' = m then x else s.mu m' := by
  unfold State.mu
  exact getD_set _ _ _ _ _ hm

theorem mu_mk_append (s : State) (m' : Nat) pcs mp wh rh :
    State.mu ⟨pcs, mp, s.heap ++ [Mu.free], wh, rh⟩ m' = s.mu m' := by
  unfold State.mu
  exact getD_append_default _ _ _

theorem mu_free_of_ge (s : State) {m : Nat} (h : s.heap.length ≤ m) : s.mu m = Mu.free := by
  unfold State.mu
  simp [List.getD_eq_getElem?_getD, List.getElem?_eq_none h]

theorem pc_mem_or_idle (s : State) (t : Nat) : s.pc t ∈ s.pcs ∨ s.pc t = .idle := by
  unfold State.pc
  by_cases h : t < s.pcs.length
  · left; simp [List.getD_eq_getElem?_getD, List.getElem?_eq_getElem h]
  · right; simp [List.getD_eq_getElem?_getD, List.getElem?_eq_none (Nat.le_of_not_lt h)]

/-- what the ClearKey proviso says -/
theorem clearOk_iff (s : State) (k : Nat) :
    clearOk s k = true ↔
      (∀ t, (t, k) ∉ s.wh) ∧ (∀ t, (t, k) ∉ s.rh) ∧ (∀ t, onKey k (s.pc t) = false) := by
  unfold clearOk
  simp only [Bool.and_eq_true, List.all_eq_true, decide_eq_true_eq, Bool.not_eq_true']
  constructor
  · rintro ⟨⟨h1, h2⟩, h3⟩
    refine ⟨fun t hm => h1 _ hm rfl, fun t hm => h2 _ hm rfl, fun t => ?_⟩
    rcases pc_mem_or_idle s t with h | h
    · exact h3 _ h
    · rw [h]; rfl
  · rintro ⟨h1, h2, h3⟩
    refine ⟨⟨?_, ?_⟩, ?_⟩
    · rintro ⟨t, k'⟩ hm e; simp only at e; subst e; exact h1 t hm
    · rintro ⟨t, k'⟩ hm e; simp only at e; subst e; exact h2 t hm
    · intro p hp
      obtain ⟨t, ht, rfl⟩ := List.getElem_of_mem hp
      have := h3 t
      unfold State.pc at this
      simpa [List.getD_eq_getElem?_getD, List.getElem?_eq_getElem ht] using this

/-! ### case analysis of the successor relation -/

theorem mem_succ {rw g : Bool} {ops : List Op} {s : State} {p : Option Event × State} :
    p ∈ succ rw g ops s ↔ ∃ t, t < s.pcs.length ∧ p ∈ stepT rw g ops s t := by
  unfold succ
  simp [List.mem_flatMap, List.mem_range]

/-- one constructor per atomic action of goroutine `t` -/
inductive Step (rw g : Bool) (ops : List Op) (s : State) (t : Nat) : Option Event → State → Prop where
  | inv (op : Op) : s.pc t = .idle → op ∈ ops → invOk rw s t op = true →
      Step rw g ops s t (some (.inv t op)) (s.setPc t (.los op.kind op.key))
  | ret (r : Res) : s.pc t = .ret r → Step rw g ops s t (some (.res t r)) (s.setPc t .idle)
  | tryFail (kd : Kind) (k m : Nat) : s.pc t = .act kd k m → (kd = .trylock ∨ kd = .tryrlock) →
      Step rw g ops s t none (s.setPc t (.ret .ff))
  | hit (kd : Kind) (k m : Nat) : s.pc t = .los kd k → kd ≠ .clear → get s.map k = some m →
      Step rw g ops s t none { s with pcs := s.pcs.set t (.act kd k m), heap := s.heap ++ [Mu.free] }
  | miss (kd : Kind) (k : Nat) : s.pc t = .los kd k → kd ≠ .clear → get s.map k = none →
      Step rw g ops s t none { s with pcs := s.pcs.set t (.act kd k s.heap.length), heap := s.heap ++ [Mu.free],
                                       map := (k, s.heap.length) :: s.map }
  | clear (k : Nat) : s.pc t = .los .clear k → (g = true → clearOk s k = true) →
      Step rw g ops s t none { s with pcs := s.pcs.set t (.ret .done), map := del s.map k }
  | queue (k m : Nat) (p' : Pc) (pending' wq' : List Nat) :
      (s.pc t = .act .lock k m ∨ s.pc t = .ann k m ∨ s.pc t = .rel k m) →
      (p' = .ann k m ∨ p' = .wait k m ∨ p' = .ret .done) →
      ((s.pc t = .act .lock k m ∧ p' = .ann k m ∧ pending' = (s.mu m).pending ∧ wq' = t :: (s.mu m).wq) ∨
       (s.pc t = .ann k m ∧ p' = .wait k m ∧ pending' = t :: (s.mu m).pending ∧ wq' = (s.mu m).wq.filter (· ≠ t)) ∨
       (s.pc t = .rel k m ∧ p' = .ret .done ∧ pending' = (s.mu m).pending ∧ wq' = (s.mu m).wq.filter (· ≠ t))) →
      Step rw g ops s t none (queueStep s t m p' pending' wq')
  | acqW (k m : Nat) (r : Res) :
      (s.pc t = .act .lock k m ∨ s.pc t = .act .trylock k m ∨ s.pc t = .wait k m) →
      (s.mu m).writer = none → (s.mu m).readers = [] → Step rw g ops s t none (acqW s t k m r)
  | unlock (k m : Nat) (p' : Pc) (wq' : List Nat) : s.pc t = .act .unlock k m →
      (p' = .rel k m ∨ p' = .ret .done) →
      ((p' = .rel k m ∧ wq' = t :: (s.mu m).wq) ∨ (p' = .ret .done ∧ wq' = (s.mu m).wq)) →
      Step rw g ops s t none (relW s t k m p' wq')
  | acqR (kd : Kind) (k m : Nat) (r : Res) : s.pc t = .act kd k m → (kd = .rlock ∨ kd = .tryrlock) →
      (s.mu m).writer = none → Step rw g ops s t none (acqR s t k m r)
  | runlock (k m : Nat) : s.pc t = .act .runlock k m →
      Step rw g ops s t none { s with pcs := s.pcs.set t (.ret .done),
                                       heap := s.heap.set m { (s.mu m) with readers := (s.mu m).readers.erase t },
                                       rh := s.rh.erase (t, k) }

theorem step_of_stepT {rw g : Bool} {ops : List Op} {s : State} {t : Nat} {l : Option Event} {s' : State}
    (h : (l, s') ∈ stepT rw g ops s t) : Step rw g ops s t l s' := by
  unfold stepT at h
  split at h
  next hpc =>
    simp only [List.mem_map, List.mem_filter, Prod.mk.injEq] at h
    obtain ⟨op, ⟨hop, hok⟩, rfl, rfl⟩ := h
    exact .inv op hpc hop hok
  next kd k hpc =>
    unfold losStep at h
    split at h
    next hkd =>
      subst hkd
      split at h
      next hg =>
        simp only [List.mem_singleton, Prod.mk.injEq] at h
        obtain ⟨rfl, rfl⟩ := h
        refine .clear k hpc (fun e => ?_)
        subst e; simpa using hg
      next => simp at h
    next hkd =>
      split at h
      next m hm =>
        simp only [List.mem_singleton, Prod.mk.injEq] at h
        obtain ⟨rfl, rfl⟩ := h
        exact .hit kd k m hpc hkd hm
      next hm =>
        simp only [List.mem_singleton, Prod.mk.injEq] at h
        obtain ⟨rfl, rfl⟩ := h
        exact .miss kd k hpc hkd hm
  next kd k m hpc =>
    unfold actStep at h
    split at h
    · -- lock
      split at h
      next hrw =>
        simp only [List.mem_singleton, Prod.mk.injEq] at h
        obtain ⟨rfl, rfl⟩ := h
        exact .queue k m _ _ _ (.inl hpc) (.inl rfl) (.inl ⟨hpc, rfl, rfl, rfl⟩)
      next =>
        split at h
        next hc =>
          simp only [List.mem_singleton, Prod.mk.injEq] at h
          obtain ⟨rfl, rfl⟩ := h
          exact .acqW k m .done (.inl hpc) hc.1 hc.2
        next => simp at h
    · -- trylock
      split at h
      next hc =>
        simp only [List.mem_singleton, Prod.mk.injEq] at h
        obtain ⟨rfl, rfl⟩ := h
        exact .acqW k m .tt (.inr (.inl hpc)) hc.1 hc.2.1
      next =>
        simp only [List.mem_singleton, Prod.mk.injEq] at h
        obtain ⟨rfl, rfl⟩ := h
        exact .tryFail _ k m hpc (.inl rfl)
    · -- unlock
      split at h
      · simp only [List.mem_singleton, Prod.mk.injEq] at h
        obtain ⟨rfl, rfl⟩ := h
        exact .unlock k m _ _ hpc (.inl rfl) (.inl ⟨rfl, rfl⟩)
      · simp only [List.mem_singleton, Prod.mk.injEq] at h
        obtain ⟨rfl, rfl⟩ := h
        exact .unlock k m _ _ hpc (.inr rfl) (.inr ⟨rfl, rfl⟩)
    · -- rlock
      split at h
      next hc =>
        simp only [List.mem_singleton, Prod.mk.injEq] at h
        obtain ⟨rfl, rfl⟩ := h
        exact .acqR _ k m .done hpc (.inl rfl) hc.1
      next => simp at h
    · -- tryrlock
      split at h
      next hc =>
        simp only [List.mem_singleton, Prod.mk.injEq] at h
        obtain ⟨rfl, rfl⟩ := h
        exact .acqR _ k m .tt hpc (.inr rfl) hc.1
      next =>
        simp only [List.mem_singleton, Prod.mk.injEq] at h
        obtain ⟨rfl, rfl⟩ := h
        exact .tryFail _ k m hpc (.inr rfl)
    · -- runlock
      simp only [List.mem_singleton, Prod.mk.injEq] at h
      obtain ⟨rfl, rfl⟩ := h
      exact .runlock k m hpc
    · simp at h
  next k m hpc =>
    simp only [List.mem_singleton, Prod.mk.injEq] at h
    obtain ⟨rfl, rfl⟩ := h
    exact .queue k m _ _ _ (.inr (.inl hpc)) (.inr (.inl rfl)) (.inr (.inl ⟨hpc, rfl, rfl, rfl⟩))
  next k m hpc =>
    split at h
    next hc =>
      simp only [List.mem_singleton, Prod.mk.injEq] at h
      obtain ⟨rfl, rfl⟩ := h
      exact .acqW k m .done (.inr (.inr hpc)) hc.1 hc.2
    next => simp at h
  next k m hpc =>
    simp only [List.mem_singleton, Prod.mk.injEq] at h
    obtain ⟨rfl, rfl⟩ := h
    exact .queue k m _ _ _ (.inr (.inr hpc)) (.inr (.inr rfl)) (.inr (.inr ⟨hpc, rfl, rfl, rfl⟩))
  next r hpc =>
    simp only [List.mem_singleton, Prod.mk.injEq] at h
    obtain ⟨rfl, rfl⟩ := h
    exact .ret r hpc

theorem step_of_succ {rw g : Bool} {ops : List Op} {s : State} {l : Option Event} {s' : State}
    (h : (l, s') ∈ succ rw g ops s) : ∃ t, t < s.pcs.length ∧ Step rw g ops s t l s' := by
  obtain ⟨t, ht, hs⟩ := mem_succ.mp h
  exact ⟨t, ht, step_of_stepT hs⟩

end TypVerif.Lemmas.KeyedMutex
