import TypVerif.Model.Bimap
import TypVerif.Spec.Bimap
/-
Helper lemmas for C11 (Bimap): association lists, Go maps, the representation invariant `WF`, its preservation
by every method, the functional characterisation of every method, and the simulation of the specification.
-/
set_option linter.unusedSectionVars false

namespace TypVerif.Lemmas.Bimap
open TypVerif.Model.Bimap

/-! ### association lists -/
section AL
variable {α β : Type} [DecidableEq α]

/-- no key twice -/
def NodupKeys (l : List (α × β)) : Prop := (l.map (·.1)).Nodup

theorem nodupKeys_nil : NodupKeys ([] : List (α × β)) := by simp [NodupKeys]

theorem nodupKeys_cons {a : α} {b : β} {l : List (α × β)} :
    NodupKeys ((a, b) :: l) ↔ a ∉ l.map (·.1) ∧ NodupKeys l := by
  simp only [NodupKeys, List.map_cons, List.nodup_cons]

theorem lookup_erase (l : List (α × β)) (k k' : α) :
    lookup (erase l k) k' = if k = k' then none else lookup l k' := by
  induction l with
  | nil => simp [erase, lookup]
  | cons p xs ih =>
    obtain ⟨a, b⟩ := p
    by_cases hak : a = k
    · subst hak
      simp only [erase, if_true, ih, lookup]
      by_cases h : a = k' <;> simp [h]
    · simp only [erase, hak, if_false, lookup, ih]
      by_cases h : a = k'
      · subst h; simp [Ne.symm hak]
      · simp [h]

theorem lookup_erase_eq (l : List (α × β)) (k : α) : lookup (erase l k) k = none := by
  simp [lookup_erase]

theorem lookup_erase_ne (l : List (α × β)) {k k' : α} (h : k ≠ k') :
    lookup (erase l k) k' = lookup l k' := by
  simp [lookup_erase, h]

theorem lookup_put (l : List (α × β)) (k : α) (v : β) (k' : α) :
    lookup (put l k v) k' = if k = k' then some v else lookup l k' := by
  induction l with
  | nil => simp [put, lookup]
  | cons p xs ih =>
    obtain ⟨a, b⟩ := p
    by_cases hak : a = k
    · subst hak
      simp only [put, if_true, lookup]
      by_cases h : a = k' <;> simp [h]
    · simp only [put, hak, if_false, lookup, ih]
      by_cases h : a = k'
      · subst h; simp [Ne.symm hak]
      · simp [h]

theorem lookup_put_eq (l : List (α × β)) (k : α) (v : β) : lookup (put l k v) k = some v := by
  simp [lookup_put]

theorem lookup_put_ne (l : List (α × β)) {k k' : α} (v : β) (h : k ≠ k') :
    lookup (put l k v) k' = lookup l k' := by
  simp [lookup_put, h]

theorem mem_erase {l : List (α × β)} {k : α} {p : α × β} : p ∈ erase l k ↔ p ∈ l ∧ p.1 ≠ k := by
  induction l with
  | nil => simp [erase]
  | cons q xs ih =>
    obtain ⟨a, b⟩ := q
    by_cases hak : a = k
    · subst hak
      simp only [erase, if_true, ih, List.mem_cons]
      constructor
      · rintro ⟨h1, h2⟩; exact ⟨Or.inr h1, h2⟩
      · rintro ⟨h1 | h1, h2⟩
        · subst h1; exact absurd rfl h2
        · exact ⟨h1, h2⟩
    · simp only [erase, hak, if_false, List.mem_cons, ih]
      constructor
      · rintro (h1 | ⟨h1, h2⟩)
        · subst h1; exact ⟨Or.inl rfl, hak⟩
        · exact ⟨Or.inr h1, h2⟩
      · rintro ⟨h1 | h1, h2⟩
        · exact Or.inl h1
        · exact Or.inr ⟨h1, h2⟩

theorem mem_keys_erase {l : List (α × β)} {k a : α} :
    a ∈ (erase l k).map (·.1) ↔ a ∈ l.map (·.1) ∧ a ≠ k := by
  simp only [List.mem_map, mem_erase]
  constructor
  · rintro ⟨p, ⟨h1, h2⟩, rfl⟩; exact ⟨⟨p, h1, rfl⟩, h2⟩
  · rintro ⟨⟨p, h1, rfl⟩, h2⟩; exact ⟨p, ⟨h1, h2⟩, rfl⟩

theorem nodupKeys_erase {l : List (α × β)} (k : α) (nd : NodupKeys l) : NodupKeys (erase l k) := by
  induction l with
  | nil => simpa [erase] using nd
  | cons q xs ih =>
    obtain ⟨a, b⟩ := q
    rw [nodupKeys_cons] at nd
    by_cases hak : a = k
    · simp only [erase, hak, if_true]; exact ih nd.2
    · simp only [erase, hak, if_false]
      rw [nodupKeys_cons]
      refine ⟨?_, ih nd.2⟩
      intro h
      exact nd.1 (mem_keys_erase.mp h).1

theorem mem_keys_put {l : List (α × β)} {k a : α} {v : β} :
    a ∈ (put l k v).map (·.1) ↔ a = k ∨ a ∈ l.map (·.1) := by
  induction l with
  | nil => simp [put]
  | cons q xs ih =>
    obtain ⟨c, b⟩ := q
    by_cases hck : c = k
    · subst hck
      simp only [put, if_true, List.map_cons, List.mem_cons]
      constructor
      · rintro (h | h)
        · exact Or.inl h
        · exact Or.inr (Or.inr h)
      · rintro (h | h | h)
        · exact Or.inl h
        · exact Or.inl h
        · exact Or.inr h
    · simp only [put, hck, if_false, List.map_cons, List.mem_cons, ih]
      constructor
      · rintro (h | h | h)
        · exact Or.inr (Or.inl h)
        · exact Or.inl h
        · exact Or.inr (Or.inr h)
      · rintro (h | h | h)
        · exact Or.inr (Or.inl h)
        · exact Or.inl h
        · exact Or.inr (Or.inr h)

theorem nodupKeys_put {l : List (α × β)} (k : α) (v : β) (nd : NodupKeys l) : NodupKeys (put l k v) := by
  induction l with
  | nil => simp [put, NodupKeys]
  | cons q xs ih =>
    obtain ⟨a, b⟩ := q
    rw [nodupKeys_cons] at nd
    by_cases hak : a = k
    · simp only [put, hak, if_true]
      rw [nodupKeys_cons]; rw [hak] at nd; exact nd
    · simp only [put, hak, if_false]
      rw [nodupKeys_cons]
      refine ⟨?_, ih nd.2⟩
      intro h
      rcases mem_keys_put.mp h with h | h
      · exact hak h
      · exact nd.1 h

theorem lookup_eq_none_iff {l : List (α × β)} {k : α} : lookup l k = none ↔ k ∉ l.map (·.1) := by
  induction l with
  | nil => simp [lookup]
  | cons q xs ih =>
    obtain ⟨a, b⟩ := q
    by_cases hak : a = k
    · simp [lookup, hak]
    · simp only [lookup, hak, if_false, ih, List.map_cons, List.mem_cons]
      constructor
      · rintro h (h' | h')
        · exact hak h'.symm
        · exact h h'
      · intro h h'; exact h (Or.inr h')

theorem mem_of_lookup {l : List (α × β)} {k : α} {v : β} (h : lookup l k = some v) : (k, v) ∈ l := by
  induction l with
  | nil => simp [lookup] at h
  | cons q xs ih =>
    obtain ⟨a, b⟩ := q
    by_cases hak : a = k
    · simp only [lookup, hak, if_true, Option.some.injEq] at h
      subst hak; subst h; exact List.mem_cons_self
    · simp only [lookup, hak, if_false] at h
      exact List.mem_cons_of_mem _ (ih h)

theorem lookup_of_mem {l : List (α × β)} {k : α} {v : β} (nd : NodupKeys l) (h : (k, v) ∈ l) :
    lookup l k = some v := by
  induction l with
  | nil => simp at h
  | cons q xs ih =>
    obtain ⟨a, b⟩ := q
    rw [nodupKeys_cons] at nd
    rcases List.mem_cons.mp h with h | h
    · injection h with h1 h2
      subst h1; subst h2; simp [lookup]
    · have hak : a ≠ k := by
        intro e; subst e
        exact nd.1 (List.mem_map.mpr ⟨(a, v), h, rfl⟩)
      simp only [lookup, hak, if_false]
      exact ih nd.2 h

theorem lookup_eq_some_iff {l : List (α × β)} {k : α} {v : β} (nd : NodupKeys l) :
    lookup l k = some v ↔ (k, v) ∈ l :=
  ⟨mem_of_lookup, lookup_of_mem nd⟩

theorem nodup_of_nodupKeys {l : List (α × β)} (nd : NodupKeys l) : l.Nodup := by
  induction l with
  | nil => exact List.nodup_nil
  | cons q xs ih =>
    obtain ⟨a, b⟩ := q
    rw [nodupKeys_cons] at nd
    rw [List.nodup_cons]
    exact ⟨fun h => nd.1 (List.mem_map.mpr ⟨(a, b), h, rfl⟩), ih nd.2⟩

theorem option_ext {γ : Type} {o₁ o₂ : Option γ} (h : ∀ x, o₁ = some x ↔ o₂ = some x) : o₁ = o₂ := by
  cases o₁ with
  | none =>
    cases o₂ with
    | none => rfl
    | some y => exact absurd ((h y).mpr rfl) (by simp)
  | some x => exact ((h x).mp rfl).symm

end AL

/-! ### Go maps -/
section GM
variable {K V : Type} [DecidableEq K]

@[simp] theorem get?_nil (k : K) : (GoMap.nil : GoMap K V).get? k = none := rfl
@[simp] theorem get?_mk (l : List (K × V)) (k : K) : (GoMap.mk l).get? k = lookup l k := rfl
@[simp] theorem entries_nil : (GoMap.nil : GoMap K V).entries = [] := rfl
@[simp] theorem entries_mk (l : List (K × V)) : (GoMap.mk l).entries = l := rfl
@[simp] theorem isNil_nil : (GoMap.nil : GoMap K V).isNil = true := rfl
@[simp] theorem isNil_mk (l : List (K × V)) : (GoMap.mk l).isNil = false := rfl

theorem get?_eq_lookup_entries (m : GoMap K V) (k : K) : m.get? k = lookup m.entries k := by
  cases m <;> rfl

theorem get?_of_isNil {m : GoMap K V} (h : m.isNil = true) (k : K) : m.get? k = none := by
  cases m with
  | nil => rfl
  | mk l => simp at h

theorem get?_delete (m : GoMap K V) (k k' : K) :
    (m.delete k).get? k' = if k = k' then none else m.get? k' := by
  cases m with
  | nil => simp [GoMap.delete]
  | mk l => simp [GoMap.delete, lookup_erase]

@[simp] theorem isNil_delete (m : GoMap K V) (k : K) : (m.delete k).isNil = m.isNil := by
  cases m <;> rfl

theorem nodupKeys_delete {m : GoMap K V} (k : K) (nd : NodupKeys m.entries) :
    NodupKeys (m.delete k).entries := by
  cases m with
  | nil => exact nd
  | mk l => exact nodupKeys_erase k nd

/-- `if x, ok := …; ok { delete(m, x) }` -/
def delOpt (m : GoMap K V) : Option K → GoMap K V
  | some x => m.delete x
  | none => m

theorem get?_delOpt (m : GoMap K V) (o : Option K) (k' : K) :
    (delOpt m o).get? k' = if o = some k' then none else m.get? k' := by
  cases o with
  | none => simp [delOpt]
  | some x => simp [delOpt, get?_delete]

@[simp] theorem isNil_delOpt (m : GoMap K V) (o : Option K) : (delOpt m o).isNil = m.isNil := by
  cases o <;> simp [delOpt]

theorem nodupKeys_delOpt {m : GoMap K V} (o : Option K) (nd : NodupKeys m.entries) :
    NodupKeys (delOpt m o).entries := by
  cases o with
  | none => exact nd
  | some x => exact nodupKeys_delete x nd

theorem commaOk_eq [Inhabited V] (m : GoMap K V) (k : K) :
    m.commaOk k = ((m.get? k).getD default, (m.get? k).isSome) := by
  unfold GoMap.commaOk
  cases m.get? k <;> rfl

theorem assign_of_not_isNil {m : GoMap K V} (h : m.isNil = false) (k : K) (v : V) :
    ∃ m', m.assign k v = .ok m' ∧ m'.isNil = false ∧
      (∀ k', m'.get? k' = if k = k' then some v else m.get? k') ∧
      (NodupKeys m.entries → NodupKeys m'.entries) := by
  cases m with
  | nil => simp at h
  | mk l =>
    refine ⟨.mk (put l k v), rfl, rfl, ?_, ?_⟩
    · intro k'; simp [lookup_put]
    · intro nd; exact nodupKeys_put k v nd

theorem clearLoop_nil (ks : List K) : GoMap.clearLoop ks (GoMap.nil : GoMap K V) = .nil := by
  induction ks with
  | nil => rfl
  | cons k ks ih => simpa [GoMap.clearLoop, GoMap.delete] using ih

theorem clearLoop_mk (ks : List K) (l : List (K × V)) (h : ∀ p ∈ l, p.1 ∈ ks) :
    GoMap.clearLoop ks (GoMap.mk l) = .mk [] := by
  induction ks generalizing l with
  | nil =>
    cases l with
    | nil => rfl
    | cons p xs => exact absurd (h p List.mem_cons_self) (by simp)
  | cons k ks ih =>
    simp only [GoMap.clearLoop, GoMap.delete]
    apply ih
    intro p hp
    rw [mem_erase] at hp
    rcases List.mem_cons.mp (h p hp.1) with e | e
    · exact absurd e hp.2
    · exact e

theorem clear_nil : (GoMap.nil : GoMap K V).clear = .nil := by
  simp [GoMap.clear, clearLoop_nil]

theorem clear_mk (l : List (K × V)) : (GoMap.mk l).clear = .mk [] := by
  unfold GoMap.clear
  apply clearLoop_mk
  intro p hp
  exact List.mem_map.mpr ⟨p, hp, rfl⟩

@[simp] theorem isNil_clear (m : GoMap K V) : m.clear.isNil = m.isNil := by
  cases m with
  | nil => rw [clear_nil]
  | mk l => rw [clear_mk]; rfl

@[simp] theorem entries_clear (m : GoMap K V) : m.clear.entries = [] := by
  cases m with
  | nil => rw [clear_nil]; rfl
  | mk l => rw [clear_mk]; rfl

theorem get?_clear (m : GoMap K V) (k : K) : m.clear.get? k = none := by
  rw [get?_eq_lookup_entries, entries_clear]; rfl

theorem nodupKeys_cloneLoop (l acc : List (K × V)) (nd : NodupKeys acc) :
    NodupKeys (GoMap.cloneLoop l acc) := by
  induction l generalizing acc with
  | nil => exact nd
  | cons p xs ih =>
    obtain ⟨a, b⟩ := p
    exact ih _ (nodupKeys_put a b nd)

theorem lookup_cloneLoop (l acc : List (K × V)) (nd : NodupKeys l) (k : K) :
    lookup (GoMap.cloneLoop l acc) k = (lookup l k).orElse (fun _ => lookup acc k) := by
  induction l generalizing acc with
  | nil => simp [GoMap.cloneLoop, lookup]
  | cons p xs ih =>
    obtain ⟨a, b⟩ := p
    rw [nodupKeys_cons] at nd
    simp only [GoMap.cloneLoop]
    rw [ih _ nd.2]
    by_cases hak : a = k
    · subst hak
      have : lookup xs a = none := lookup_eq_none_iff.mpr nd.1
      simp [this, lookup, lookup_put]
    · simp [lookup, hak, lookup_put]

@[simp] theorem isNil_clone (m : GoMap K V) : m.clone.isNil = false := rfl

theorem nodupKeys_clone (m : GoMap K V) : NodupKeys m.clone.entries :=
  nodupKeys_cloneLoop _ _ nodupKeys_nil

theorem get?_clone {m : GoMap K V} (nd : NodupKeys m.entries) (k : K) : m.clone.get? k = m.get? k := by
  rw [get?_eq_lookup_entries m]
  simp only [GoMap.clone, get?_mk]
  rw [lookup_cloneLoop _ _ nd]
  cases lookup m.entries k <;> simp [lookup]

end GM

/-! ### the representation invariant -/
section BM
variable {K V : Type} [DecidableEq K] [DecidableEq V]

/-- representation invariant of a Bimap -/
structure WF (b : Bimap K V) : Prop where
  /-- both maps are nil or both are allocated -/
  nil_eq : b.forward.isNil = b.reverse.isNil
  nodupF : NodupKeys b.forward.entries
  nodupR : NodupKeys b.reverse.entries
  /-- the two lookups are inverse to each other -/
  inv : ∀ k v, b.getForward? k = some v ↔ b.getReverse? v = some k

theorem wf_zero : WF (zero : Bimap K V) :=
  ⟨rfl, nodupKeys_nil, nodupKeys_nil, fun _ _ => by simp [zero, Bimap.getForward?, Bimap.getReverse?]⟩

/-- pure reasoning about two mutually inverse option-valued functions: the shape every update has -/
theorem inv_update {F : K → Option V} {R : V → Option K} (h : ∀ k v, F k = some v ↔ R v = some k)
    (k : K) (v : V) (k' : K) (v' : V) :
    (if k = k' then some v else if R v = some k' then none else F k') = some v' ↔
    (if v = v' then some k else if F k = some v' then none else R v') = some k' := by
  by_cases hk : k = k'
  · subst hk
    by_cases hv : v = v'
    · subst hv; simp
    · simp only [if_true, hv, if_false, Option.some.injEq]
      constructor
      · intro e; first | exact absurd e hv | exact e.elim
      · intro e
        by_cases hf : F k = some v'
        · simp [hf] at e
        · simp only [hf, if_false] at e
          exact absurd ((h k v').mpr e) hf
  · simp only [hk, if_false]
    by_cases hv : v = v'
    · subst hv
      simp only [if_true, Option.some.injEq]
      constructor
      · intro e
        by_cases hr : R v = some k'
        · simp [hr] at e
        · simp only [hr, if_false] at e
          exact absurd ((h k' v).mp e) hr
      · intro e; first | exact absurd e hk | exact e.elim
    · simp only [hv, if_false]
      constructor
      · intro e
        by_cases hr : R v = some k'
        · simp [hr] at e
        · simp only [hr, if_false] at e
          have hf : ¬ F k = some v' := by
            intro hf
            have := (h k v').mp hf
            rw [(h k' v').mp e] at this
            exact hk (Option.some.inj this).symm
          simp only [hf, if_false]
          exact (h k' v').mp e
      · intro e
        by_cases hf : F k = some v'
        · simp [hf] at e
        · simp only [hf, if_false] at e
          have hr : ¬ R v = some k' := by
            intro hr
            have := (h k' v).mpr hr
            rw [(h k' v').mpr e] at this
            exact hv (Option.some.inj this).symm
          simp only [hr, if_false]
          exact (h k' v').mpr e

theorem inv_remove {F : K → Option V} {R : V → Option K} (h : ∀ k v, F k = some v ↔ R v = some k)
    (k : K) (k' : K) (v' : V) :
    (if k = k' then none else F k') = some v' ↔
    (if F k = some v' then none else R v') = some k' := by
  by_cases hk : k = k'
  · subst hk
    simp only [if_true]
    constructor
    · intro e; simp at e
    · intro e
      by_cases hf : F k = some v'
      · simp [hf] at e
      · simp only [hf, if_false] at e
        exact absurd ((h k v').mpr e) hf
  · simp only [hk, if_false]
    constructor
    · intro e
      have hf : ¬ F k = some v' := by
        intro hf
        have := (h k v').mp hf
        rw [(h k' v').mp e] at this
        exact hk (Option.some.inj this).symm
      simp only [hf, if_false]
      exact (h k' v').mp e
    · intro e
      by_cases hf : F k = some v'
      · simp [hf] at e
      · simp only [hf, if_false] at e
        exact (h k' v').mpr e


omit [DecidableEq V] in
theorem commaOk_some [Inhabited V] {m : GoMap K V} {k : K} {v : V} (h : m.get? k = some v) :
    m.commaOk k = (v, true) := by simp [GoMap.commaOk, h]
omit [DecidableEq V] in
theorem commaOk_none [Inhabited V] {m : GoMap K V} {k : K} (h : m.get? k = none) :
    m.commaOk k = (default, false) := by simp [GoMap.commaOk, h]

theorem add_unfold [Inhabited K] [Inhabited V] (b : Bimap K V) (k : K) (v : V) :
    b.add k v =
      (let r1 := delOpt b.reverse (b.forward.get? k)
       let f1 := delOpt b.forward (r1.get? v)
       let f3 := if f1.isNil then GoMap.mk [] else f1
       let r3 := if f1.isNil then GoMap.mk [] else r1
       match f3.assign k v with
       | .error e => .error e
       | .ok f =>
         match r3.assign v k with
         | .error e => .error e
         | .ok r => .ok ⟨f, r⟩) := by
  cases h1 : b.forward.get? k with
  | none =>
    have e1 : b.getForward k = (default, false) := commaOk_none h1
    cases h2 : b.reverse.get? v with
    | none =>
      have e2 : b.getReverse v = (default, false) := commaOk_none h2
      simp only [Bimap.add, e1, e2, delOpt, h2]
      cases hn : b.forward.isNil <;> simp <;> rfl
    | some k0 =>
      have e2 : b.getReverse v = (k0, true) := commaOk_some h2
      simp only [Bimap.add, e1, e2, delOpt, h2]
      cases hn : b.forward.isNil <;> simp [hn] <;> rfl
  | some v0 =>
    have e1 : b.getForward k = (v0, true) := commaOk_some h1
    cases h2 : (b.reverse.delete v0).get? v with
    | none =>
      have e2 : Bimap.getReverse { b with reverse := b.reverse.delete v0 } v = (default, false) := commaOk_none h2
      simp only [Bimap.add, e1, e2, delOpt, h2]
      cases hn : b.forward.isNil <;> simp <;> rfl
    | some k0 =>
      have e2 : Bimap.getReverse { b with reverse := b.reverse.delete v0 } v = (k0, true) := commaOk_some h2
      simp only [Bimap.add, e1, e2, delOpt, h2]
      cases hn : b.forward.isNil <;> simp [hn] <;> rfl

theorem add_spec [Inhabited K] [Inhabited V] {b : Bimap K V} (wf : WF b) (k : K) (v : V) :
    ∃ b', b.add k v = .ok b' ∧ WF b' ∧ b'.forward.isNil = false ∧
      (∀ k', b'.getForward? k' =
        if k = k' then some v else if b.getReverse? v = some k' then none else b.getForward? k') ∧
      (∀ v', b'.getReverse? v' =
        if v = v' then some k else if b.getForward? k = some v' then none else b.getReverse? v') := by
  have hr1 : ∀ v', (delOpt b.reverse (b.forward.get? k)).get? v' =
      if b.forward.get? k = some v' then none else b.reverse.get? v' := fun v' => get?_delOpt _ _ _
  have hf1 : ∀ k', (delOpt b.forward ((delOpt b.reverse (b.forward.get? k)).get? v)).get? k' =
      if (delOpt b.reverse (b.forward.get? k)).get? v = some k' then none else b.forward.get? k' :=
    fun k' => get?_delOpt _ _ _
  -- the allocation step does not change any lookup
  have hnilF : b.forward.isNil = true → ∀ k', b.forward.get? k' = none := fun h => get?_of_isNil h
  have hnilR : b.forward.isNil = true → ∀ v', b.reverse.get? v' = none :=
    fun h => get?_of_isNil (wf.nil_eq ▸ h)
  rw [add_unfold]
  simp only [isNil_delOpt]
  cases hn : b.forward.isNil with
  | true =>
    simp only [if_true]
    refine ⟨_, rfl, ⟨rfl, ?_, ?_, ?_⟩, rfl, ?_, ?_⟩
    · simp [put, NodupKeys]
    · simp [put, NodupKeys]
    · intro k' v'
      simp only [Bimap.getForward?, Bimap.getReverse?, get?_mk, put, lookup]
      constructor
      · intro h
        by_cases hk : k = k'
        · simp only [hk, if_true, Option.some.injEq] at h; simp [h, hk]
        · simp [hk] at h
      · intro h
        by_cases hv : v = v'
        · simp only [hv, if_true, Option.some.injEq] at h; simp [h, hv]
        · simp [hv] at h
    · intro k'
      simp only [Bimap.getForward?, Bimap.getReverse?, get?_mk, put, lookup, hnilF hn, hnilR hn]
      simp
    · intro v'
      simp only [Bimap.getForward?, Bimap.getReverse?, get?_mk, put, lookup, hnilF hn, hnilR hn]
      simp
  | false =>
    have hnR : b.reverse.isNil = false := wf.nil_eq ▸ hn
    simp only [Bool.false_eq_true, if_false]
    obtain ⟨f, hf, hfn, hfg, hfnd⟩ := assign_of_not_isNil
      (m := delOpt b.forward ((delOpt b.reverse (b.forward.get? k)).get? v)) (by simp [hn]) k v
    obtain ⟨r, hr, hrn, hrg, hrnd⟩ := assign_of_not_isNil
      (m := delOpt b.reverse (b.forward.get? k)) (by simp [hnR]) v k
    simp only [hf, hr]
    have hF : ∀ k', f.get? k' =
        if k = k' then some v else if b.getReverse? v = some k' then none else b.getForward? k' := by
      intro k'
      rw [hfg, hf1, hr1]
      by_cases hk : k = k'
      · simp [hk]
      · simp only [hk, if_false, Bimap.getReverse?, Bimap.getForward?]
        by_cases hkv : b.forward.get? k = some v
        · have : b.reverse.get? v = some k := (wf.inv k v).mp hkv
          have hne : ¬ (some k = some k') := fun e => hk (Option.some.inj e)
          simp [hkv, this, hk]
        · simp only [hkv, if_false]
          by_cases hh : b.reverse.get? v = some k' <;> simp [hh]
    have hR : ∀ v', r.get? v' =
        if v = v' then some k else if b.getForward? k = some v' then none else b.getReverse? v' := by
      intro v'
      rw [hrg, hr1]
      rfl
    refine ⟨_, rfl, ⟨?_, ?_, ?_, ?_⟩, hfn, hF, hR⟩
    · simp [hfn, hrn]
    · exact hfnd (nodupKeys_delOpt _ wf.nodupF)
    · exact hrnd (nodupKeys_delOpt _ wf.nodupR)
    · intro k' v'
      simp only [Bimap.getForward?, Bimap.getReverse?]
      rw [hF, hR]
      exact inv_update wf.inv k v k' v'

theorem removeForward_spec [Inhabited V] {b : Bimap K V} (wf : WF b) (k : K) :
    WF (b.removeForward k) ∧ (b.removeForward k).forward.isNil = b.forward.isNil ∧
      (∀ k', (b.removeForward k).getForward? k' = if k = k' then none else b.getForward? k') ∧
      (∀ v', (b.removeForward k).getReverse? v' =
        if b.getForward? k = some v' then none else b.getReverse? v') := by
  have key : (b.removeForward k).forward.isNil = b.forward.isNil ∧
      (b.removeForward k).reverse.isNil = b.reverse.isNil ∧
      NodupKeys (b.removeForward k).forward.entries ∧ NodupKeys (b.removeForward k).reverse.entries ∧
      (∀ k', (b.removeForward k).getForward? k' = if k = k' then none else b.getForward? k') ∧
      (∀ v', (b.removeForward k).getReverse? v' =
        if b.getForward? k = some v' then none else b.getReverse? v') := by
    cases h : b.forward.get? k with
    | none =>
      have e : b.removeForward k = b := by simp only [Bimap.removeForward, commaOk_none h]
      rw [e]
      refine ⟨rfl, rfl, wf.nodupF, wf.nodupR, ?_, ?_⟩
      · intro k'
        by_cases hk : k = k'
        · subst hk; simp [Bimap.getForward?, h]
        · simp [hk]
      · intro v'; simp [Bimap.getForward?, h]
    | some v0 =>
      have e : b.removeForward k = ⟨b.forward.delete k, b.reverse.delete v0⟩ := by
        simp only [Bimap.removeForward, commaOk_some h]
      rw [e]
      refine ⟨isNil_delete _ _, isNil_delete _ _, nodupKeys_delete _ wf.nodupF,
        nodupKeys_delete _ wf.nodupR, ?_, ?_⟩
      · intro k'; simp only [Bimap.getForward?, get?_delete]
      · intro v'
        simp only [Bimap.getForward?, Bimap.getReverse?, get?_delete, h, Option.some.injEq]
  obtain ⟨h1, h2, h3, h4, h5, h6⟩ := key
  refine ⟨⟨?_, h3, h4, ?_⟩, h1, h5, h6⟩
  · rw [h1, h2]; exact wf.nil_eq
  · intro k' v'
    rw [h5, h6]
    exact inv_remove wf.inv k k' v'

theorem removeReverse_spec [Inhabited K] {b : Bimap K V} (wf : WF b) (v : V) :
    WF (b.removeReverse v) ∧ (b.removeReverse v).forward.isNil = b.forward.isNil ∧
      (∀ k', (b.removeReverse v).getForward? k' =
        if b.getReverse? v = some k' then none else b.getForward? k') ∧
      (∀ v', (b.removeReverse v).getReverse? v' = if v = v' then none else b.getReverse? v') := by
  have key : (b.removeReverse v).forward.isNil = b.forward.isNil ∧
      (b.removeReverse v).reverse.isNil = b.reverse.isNil ∧
      NodupKeys (b.removeReverse v).forward.entries ∧ NodupKeys (b.removeReverse v).reverse.entries ∧
      (∀ k', (b.removeReverse v).getForward? k' =
        if b.getReverse? v = some k' then none else b.getForward? k') ∧
      (∀ v', (b.removeReverse v).getReverse? v' = if v = v' then none else b.getReverse? v') := by
    cases h : b.reverse.get? v with
    | none =>
      have e : b.removeReverse v = b := by simp only [Bimap.removeReverse, commaOk_none h]
      rw [e]
      refine ⟨rfl, rfl, wf.nodupF, wf.nodupR, ?_, ?_⟩
      · intro k'; simp [Bimap.getReverse?, h]
      · intro v'
        by_cases hv : v = v'
        · subst hv; simp [Bimap.getReverse?, h]
        · simp [hv]
    | some k0 =>
      have e : b.removeReverse v = ⟨b.forward.delete k0, b.reverse.delete v⟩ := by
        simp only [Bimap.removeReverse, commaOk_some h]
      rw [e]
      refine ⟨isNil_delete _ _, isNil_delete _ _, nodupKeys_delete _ wf.nodupF,
        nodupKeys_delete _ wf.nodupR, ?_, ?_⟩
      · intro k'
        simp only [Bimap.getForward?, Bimap.getReverse?, get?_delete, h, Option.some.injEq]
      · intro v'; simp only [Bimap.getReverse?, get?_delete]
  obtain ⟨h1, h2, h3, h4, h5, h6⟩ := key
  refine ⟨⟨?_, h3, h4, ?_⟩, h1, h5, h6⟩
  · rw [h1, h2]; exact wf.nil_eq
  · intro k' v'
    rw [h5, h6]
    exact (inv_remove (F := b.getReverse?) (R := b.getForward?)
      (fun v k => (wf.inv k v).symm) v v' k').symm

theorem clear_spec {b : Bimap K V} (wf : WF b) :
    WF b.clear ∧ b.clear.forward.isNil = b.forward.isNil ∧
      (∀ k, b.clear.getForward? k = none) ∧ (∀ v, b.clear.getReverse? v = none) ∧ b.clear.len = 0 := by
  refine ⟨⟨?_, ?_, ?_, ?_⟩, ?_, ?_, ?_, ?_⟩
  · simp only [Bimap.clear, isNil_clear]; exact wf.nil_eq
  · simp only [Bimap.clear, entries_clear]; exact nodupKeys_nil
  · simp only [Bimap.clear, entries_clear]; exact nodupKeys_nil
  · intro k v; simp [Bimap.clear, Bimap.getForward?, Bimap.getReverse?, get?_clear]
  · simp only [Bimap.clear, isNil_clear]
  · intro k; simp [Bimap.clear, Bimap.getForward?, get?_clear]
  · intro v; simp [Bimap.clear, Bimap.getReverse?, get?_clear]
  · simp [Bimap.clear, Bimap.len, GoMap.len]

theorem clone_spec {b : Bimap K V} (wf : WF b) :
    WF b.clone ∧ b.clone.forward.isNil = false ∧ b.clone.reverse.isNil = false ∧
      (∀ k, b.clone.getForward? k = b.getForward? k) ∧ (∀ v, b.clone.getReverse? v = b.getReverse? v) := by
  have hF : ∀ k, b.clone.getForward? k = b.getForward? k := fun k => get?_clone wf.nodupF k
  have hR : ∀ v, b.clone.getReverse? v = b.getReverse? v := fun v => get?_clone wf.nodupR v
  refine ⟨⟨rfl, nodupKeys_clone _, nodupKeys_clone _, ?_⟩, rfl, rfl, hF, hR⟩
  intro k v
  rw [hF, hR]
  exact wf.inv k v

/-! ### counting pairs -/

omit [DecidableEq K] [DecidableEq V] in
theorem nodup_of_map {α γ : Type} (f : α → γ) {l : List α} (h : (l.map f).Nodup) : l.Nodup := by
  induction l with
  | nil => exact List.nodup_nil
  | cons a xs ih =>
    rw [List.map_cons, List.nodup_cons] at h
    rw [List.nodup_cons]
    exact ⟨fun hm => h.1 (List.mem_map.mpr ⟨a, hm, rfl⟩), ih h.2⟩

theorem fwd_mem_iff {b : Bimap K V} (wf : WF b) (k : K) (v : V) :
    (k, v) ∈ b.forward.entries ↔ b.getForward? k = some v := by
  rw [Bimap.getForward?, get?_eq_lookup_entries, lookup_eq_some_iff wf.nodupF]

theorem rev_mem_iff {b : Bimap K V} (wf : WF b) (v : V) (k : K) :
    (v, k) ∈ b.reverse.entries ↔ b.getReverse? v = some k := by
  rw [Bimap.getReverse?, get?_eq_lookup_entries, lookup_eq_some_iff wf.nodupR]

theorem fwd_entries_nodup {b : Bimap K V} (wf : WF b) : b.forward.entries.Nodup :=
  nodup_of_nodupKeys wf.nodupF

/-- any duplicate-free enumeration of the pairs `fwd k = some v` has exactly `Len` elements -/
theorem len_eq_of_enum {b : Bimap K V} (wf : WF b) (ps : List (K × V)) (nd : ps.Nodup)
    (h : ∀ k v, (k, v) ∈ ps ↔ b.getForward? k = some v) : ps.length = b.len := by
  have : ps.Perm b.forward.entries := by
    rw [List.perm_ext_iff_of_nodup nd (fwd_entries_nodup wf)]
    rintro ⟨k, v⟩
    rw [h, fwd_mem_iff wf]
  exact this.length_eq

theorem len_reverse {b : Bimap K V} (wf : WF b) : b.reverse.len = b.len := by
  have h := len_eq_of_enum wf (b.reverse.entries.map (fun p => (p.2, p.1))) ?_ ?_
  · simpa [GoMap.len] using h
  · apply nodup_of_map (fun p : K × V => p.2)
    have := wf.nodupR
    simpa [NodupKeys, List.map_map, Function.comp_def] using this
  · intro k v
    rw [wf.inv, ← rev_mem_iff wf, List.mem_map]
    constructor
    · rintro ⟨⟨a, c⟩, hm, e⟩
      injection e with e1 e2
      subst e1; subst e2; exact hm
    · intro hm; exact ⟨(v, k), hm, rfl⟩

/-! ### Range -/

theorem rangeLoop_recorder_ge (n : Nat) (order tr : List (K × V)) (h : n ≤ tr.length) :
    Bimap.rangeLoop (Bimap.recorder n) order tr = tr ++ order := by
  induction order generalizing tr with
  | nil => simp [Bimap.rangeLoop]
  | cons p xs ih =>
    obtain ⟨k, v⟩ := p
    have hb : (tr.length + 1 != n) = true := by
      simp only [bne_iff_ne, ne_eq]; omega
    simp only [Bimap.rangeLoop, Bimap.recorder, hb]
    rw [ih (tr ++ [(k, v)]) (by simp; omega)]
    simp

theorem rangeLoop_recorder_lt (n : Nat) (order tr : List (K × V)) (h : tr.length < n) :
    Bimap.rangeLoop (Bimap.recorder n) order tr = tr ++ order.take (n - tr.length) := by
  induction order generalizing tr with
  | nil => simp [Bimap.rangeLoop]
  | cons p xs ih =>
    obtain ⟨k, v⟩ := p
    by_cases hn : tr.length + 1 = n
    · have hb : (tr.length + 1 != n) = false := by simp [hn]
      simp only [Bimap.rangeLoop, Bimap.recorder, hb]
      have : n - tr.length = 1 := by omega
      rw [this]; simp
    · have hb : (tr.length + 1 != n) = true := by simp [hn]
      simp only [Bimap.rangeLoop, Bimap.recorder, hb]
      rw [ih (tr ++ [(k, v)]) (by simp; omega)]
      have : n - tr.length = (n - (tr ++ [(k, v)]).length) + 1 := by simp; omega
      rw [this, List.take_succ_cons]
      simp

/-! ### worlds -/

/-- every bound bimap satisfies the invariant -/
def WWF (w : World K V) : Prop := ∀ h b, lookup w h = some b → WF b

theorem wwf_nil : WWF ([] : World K V) := by
  intro h b e; simp [lookup] at e

theorem wwf_put {w : World K V} (hw : WWF w) (h : Int) {b : Bimap K V} (wf : WF b) : WWF (put w h b) := by
  intro h' b' e
  rw [lookup_put] at e
  by_cases hh : h = h'
  · simp only [hh, if_true, Option.some.injEq] at e; subst e; exact wf
  · simp only [hh, if_false] at e; exact hw h' b' e

variable [Inhabited K] [Inhabited V]

/-- one step from a well-formed world: no panic, well-formed result, and only the target handle changes -/
theorem step_spec {w : World K V} (hw : WWF w) (op : Op K V) :
    ∃ w', step w op = .ok w' ∧ WWF w' ∧ ∀ h', h' ≠ op.target → lookup w' h' = lookup w h' := by
  have frame : ∀ (h : Int) (b : Bimap K V) (h' : Int), h' ≠ h → lookup (put w h b) h' = lookup w h' :=
    fun h b h' ne => lookup_put_ne w b (Ne.symm ne)
  cases op with
  | new h => exact ⟨_, rfl, wwf_put hw h wf_zero, fun h' ne => frame h _ h' ne⟩
  | add h k v =>
    cases e : lookup w h with
    | none => exact ⟨w, by simp [step, e], hw, fun _ _ => rfl⟩
    | some b =>
      obtain ⟨b', hb', wf', _⟩ := add_spec (hw h b e) k v
      exact ⟨put w h b', by simp [step, e, hb'], wwf_put hw h wf', fun h' ne => frame h _ h' ne⟩
  | rmf h k =>
    cases e : lookup w h with
    | none => exact ⟨w, by simp [step, e], hw, fun _ _ => rfl⟩
    | some b =>
      exact ⟨_, by simp [step, e], wwf_put hw h (removeForward_spec (hw h b e) k).1,
        fun h' ne => frame h _ h' ne⟩
  | rmr h v =>
    cases e : lookup w h with
    | none => exact ⟨w, by simp [step, e], hw, fun _ _ => rfl⟩
    | some b =>
      exact ⟨_, by simp [step, e], wwf_put hw h (removeReverse_spec (hw h b e) v).1,
        fun h' ne => frame h _ h' ne⟩
  | clear h =>
    cases e : lookup w h with
    | none => exact ⟨w, by simp [step, e], hw, fun _ _ => rfl⟩
    | some b =>
      exact ⟨_, by simp [step, e], wwf_put hw h (clear_spec (hw h b e)).1,
        fun h' ne => frame h _ h' ne⟩
  | clone h r =>
    cases e : lookup w h with
    | none => exact ⟨w, by simp [step, e], hw, fun _ _ => rfl⟩
    | some b =>
      exact ⟨_, by simp [step, e], wwf_put hw r (clone_spec (hw h b e)).1,
        fun h' ne => frame r _ h' ne⟩

theorem runFrom_spec {w : World K V} (hw : WWF w) (ops : List (Op K V)) :
    ∃ w', runFrom w ops = .ok w' ∧ WWF w' := by
  induction ops generalizing w with
  | nil => exact ⟨w, rfl, hw⟩
  | cons op ops ih =>
    obtain ⟨w1, h1, hw1, _⟩ := step_spec hw op
    obtain ⟨w2, h2, hw2⟩ := ih hw1
    exact ⟨w2, by simp [runFrom, h1, h2], hw2⟩

theorem run_spec (ops : List (Op K V)) : ∃ w', run ops = .ok w' ∧ WWF w' :=
  runFrom_spec wwf_nil ops

theorem runFrom_append (w : World K V) (ops₁ ops₂ : List (Op K V)) :
    runFrom w (ops₁ ++ ops₂) =
      match runFrom w ops₁ with
      | .ok w' => runFrom w' ops₂
      | .error e => .error e := by
  induction ops₁ generalizing w with
  | nil => rfl
  | cons op ops ih =>
    simp only [List.cons_append, runFrom]
    cases step w op with
    | ok w1 => exact ih w1
    | error e => rfl

/-- frame: operations that do not target `h` leave `h`'s binding alone -/
theorem runFrom_frame {w : World K V} (hw : WWF w) (ops : List (Op K V)) (h : Int)
    (hfar : ∀ op ∈ ops, op.target ≠ h) :
    ∃ w', runFrom w ops = .ok w' ∧ WWF w' ∧ lookup w' h = lookup w h := by
  induction ops generalizing w with
  | nil => exact ⟨w, rfl, hw, rfl⟩
  | cons op ops ih =>
    obtain ⟨w1, h1, hw1, fr⟩ := step_spec hw op
    obtain ⟨w2, h2, hw2, e2⟩ := ih hw1 (fun o ho => hfar o (List.mem_cons_of_mem _ ho))
    refine ⟨w2, by simp [runFrom, h1, h2], hw2, ?_⟩
    rw [e2]
    exact fr h (Ne.symm (hfar op List.mem_cons_self))

/-- a bimap obtained from the zero value or from clones by the public operations -/
def Reachable (b : Bimap K V) : Prop :=
  ∃ (ops : List (Op K V)) (w : World K V) (h : Int), run ops = .ok w ∧ lookup w h = some b

theorem reachable_wf {b : Bimap K V} (hb : Reachable b) : WF b := by
  obtain ⟨ops, w, h, hr, hl⟩ := hb
  obtain ⟨w', hr', hw⟩ := run_spec ops
  rw [hr] at hr'
  injection hr' with e
  subst e
  exact hw h b hl

omit [Inhabited K] in
theorem getForward_eq_true_iff (b : Bimap K V) (k : K) (v : V) :
    b.getForward k = (v, true) ↔ b.getForward? k = some v := by
  simp only [Bimap.getForward, Bimap.getForward?, commaOk_eq]
  cases b.forward.get? k <;> simp

omit [Inhabited V] in
theorem getReverse_eq_true_iff (b : Bimap K V) (v : V) (k : K) :
    b.getReverse v = (k, true) ↔ b.getReverse? v = some k := by
  simp only [Bimap.getReverse, Bimap.getReverse?, commaOk_eq]
  cases b.reverse.get? v <;> simp

omit [Inhabited K] in
theorem getForward_absent_iff (b : Bimap K V) (k : K) :
    b.getForward k = (default, false) ↔ b.getForward? k = none := by
  simp only [Bimap.getForward, Bimap.getForward?, commaOk_eq]
  cases b.forward.get? k <;> simp

omit [Inhabited V] in
theorem getReverse_absent_iff (b : Bimap K V) (v : V) :
    b.getReverse v = (default, false) ↔ b.getReverse? v = none := by
  simp only [Bimap.getReverse, Bimap.getReverse?, commaOk_eq]
  cases b.reverse.get? v <;> simp

omit [Inhabited K] in
theorem removeForward_absent {b : Bimap K V} {k : K} (h : b.getForward? k = none) :
    b.removeForward k = b := by
  simp only [Bimap.removeForward, commaOk_none h]

omit [Inhabited V] in
theorem removeReverse_absent {b : Bimap K V} {v : V} (h : b.getReverse? v = none) :
    b.removeReverse v = b := by
  simp only [Bimap.removeReverse, commaOk_none h]

end BM

end TypVerif.Lemmas.Bimap
