import TypVerif.Lemmas.ConcAccept
import TypVerif.Drv.C17
/-
The reduced system `Drv.C17.red` that the C17 judge steps is sound w.r.t. `Model.Once.sys`: each of its steps is a
finite sequence of steps of the model with the same visible label.

`pick` computes the urgent step with `stepT (fun _ => [])`, i.e. with a result function different from the `res` of the
system.  This is harmless: an urgent step is taken at a program counter (`fast`, `check`, `assign _`, `store`, `unlock`,
`lock`) at which `stepT` does not consult `res` (only `inF` does), see `stepT_urgent_res`.
-/
namespace TypVerif.Lemmas.ConcAcceptC17
open TypVerif TypVerif.Conc TypVerif.Model.Once TypVerif.Drv.C17

/-- at an urgent program counter the step of the goroutine does not depend on the result function -/
theorem stepT_urgent_res (res res' : Nat → List Int) (s : State) (t : Nat) (h : urgent s t = true) :
    stepT res s t = stepT res' s t := by
  unfold urgent at h
  unfold stepT
  split at h <;> simp_all

/-- … and is internal -/
theorem stepT_urgent_internal (res : Nat → List Int) (s : State) (t : Nat) (h : urgent s t = true) :
    ∀ p ∈ stepT res s t, p.1 = none := by
  unfold urgent at h
  unfold stepT
  split at h <;> simp_all

theorem stepT_sub_succ (res : Nat → List Int) (s : State) (t : Nat) (ht : t < s.pcs.length) :
    ∀ p ∈ stepT res s t, p ∈ succ res s := by
  intro p hp
  unfold succ
  exact List.mem_flatMap.2 ⟨t, List.mem_range.2 ht, hp⟩

theorem pick_sound (res : Nat → List Int) (s s' : State) (h : pick s = some s') : (none, s') ∈ succ res s := by
  unfold pick at h
  obtain ⟨t, ht, hf⟩ := List.exists_of_findSome?_eq_some h
  split at hf
  · rename_i hu
    rw [Option.map_eq_some_iff] at hf
    obtain ⟨p, hp, hp2⟩ := hf
    have hmem : p ∈ stepT (fun _ => []) s t := List.mem_of_head? hp
    rw [← stepT_urgent_res res _ s t hu] at hmem
    have h1 := stepT_urgent_internal res s t hu p hmem
    have := stepT_sub_succ res s t (List.mem_range.1 ht) p hmem
    obtain ⟨l, q⟩ := p
    simp only at h1 hp2
    subst h1; subst hp2
    exact this
  · cases hf

theorem normalize_sound (n arity : Nat) (res : Nat → List Int) (fuel : Nat) :
    ∀ s : State, ∃ ls, Exec (sys n arity res) s ls (normalize fuel s) ∧ visible ls = [] := by
  induction fuel with
  | zero => intro s; exact ⟨[], Exec.nil _, rfl⟩
  | succ fuel ih =>
    intro s
    unfold normalize
    split
    · rename_i s' hp
      obtain ⟨ls, hex, hv⟩ := ih s'
      exact ⟨none :: ls, Exec.cons (pick_sound res s s' hp) hex, by simpa using hv⟩
    · exact ⟨[], Exec.nil _, rfl⟩

theorem red_step_sound (n arity : Nat) (res : Nat → List Int) (s s' : State) (l : Option Event)
    (h : (l, s') ∈ (red n arity res).succ s) :
    ∃ ls, Exec (sys n arity res) s ls s' ∧
      visible ls = (match (generalizing := false) l with | some e => [e] | none => []) := by
  have h : (l, s') ∈ (match pick s with
      | some _ => [((none : Option Event), normalize (4 * s.pcs.length + 8) s)]
      | none => succ res s) := h
  split at h
  · simp only [List.mem_singleton, Prod.mk.injEq] at h
    obtain ⟨rfl, rfl⟩ := h
    exact normalize_sound n arity res _ s
  · exact ⟨[l], Exec.single h, by cases l <;> rfl⟩

/-- every execution of the reduced system is an execution of the model with the same visible trace -/
theorem red_exec_sound (n arity : Nat) (res : Nat → List Int) {a b : State} {ls' : List (Option Event)}
    (h : Exec (red n arity res) a ls' b) :
    ∃ ls, Exec (sys n arity res) a ls b ∧ visible ls = visible ls' :=
  Exec.of_steps (i := init n arity) (i' := init n arity) 
    (fun s l s' hm => by
      obtain ⟨ls, hex, hv⟩ := red_step_sound n arity res s s' l hm
      exact ⟨ls, hex, by cases l <;> exact hv⟩) h

end TypVerif.Lemmas.ConcAcceptC17
