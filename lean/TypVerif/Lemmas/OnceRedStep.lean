import TypVerif.Lemmas.OnceRedBase
/-
The normal form `nf` and single steps of the model: an urgent step leaves `nf` unchanged and decreases the measure `nu`
(`urgent_step_nf`); `nf s` has no urgent step and a state without urgent step is its own normal form (`urgent_nf`, `nf_fix`);
a non-urgent step of goroutine `t` from `s` is also a step of `t` from `nf s`, with the same label and results that have the
same normal form (`nonurgent_step`).
-/
namespace TypVerif.Lemmas.OnceRed
open TypVerif TypVerif.Conc TypVerif.Model.Once TypVerif.Drv.C17 TypVerif.Lemmas.Once

theorem willDone_mk (s : State) (t : Nat) (p : Pc) (ht : t < s.pcs.length) d m f i r :
    willDone ⟨s.pcs.set t p, d, m, f, i, r⟩ =
      (d || (match m with
        | some w => isAS (if w = t then p else s.pc w)
        | none => false)) := by
  unfold willDone
  cases m <;> simp [pc_mk _ _ _ _ ht]

theorem nu_mk (s : State) (t : Nat) (p : Pc) (ht : t < s.pcs.length) d m f i r
    (h : wt p < wt (s.pc t)) : nu ⟨s.pcs.set t p, d, m, f, i, r⟩ < nu s :=
  sum_set_lt _ _ _ ht h

theorem nf_congr (A B : State) (hl : A.pcs.length = B.pcs.length) (hD : willDone A = willDone B)
    (hpc : ∀ u, u < A.pcs.length → nfPc (willDone B) (A.pc u) = nfPc (willDone B) (B.pc u))
    (hm : willDone B = false → A.mu = B.mu)
    (hf : (if willDone B then A.fres.getD A.fields else A.fields) = (if willDone B then B.fres.getD B.fields else B.fields))
    (hi : A.invoked = B.invoked) (hr : A.fres = B.fres) : nf A = nf B := by
  apply state_ext
  · simp [nf_len, hl]
  · intro u hu
    rw [nf_pc, nf_pc, hD]
    exact hpc u (by simpa [nf_len] using hu)
  · simp [nf, hD]
  · simp only [nf, hD]
    cases h : willDone B
    · simp [hm h]
    · simp
  · simp only [nf, hD]; exact hf
  · exact hi
  · exact hr

theorem nf_upd (s : State) (t : Nat) (p : Pc) (ht : t < s.pcs.length) d m f i r
    (hD : willDone ⟨s.pcs.set t p, d, m, f, i, r⟩ = willDone s)
    (hp : nfPc (willDone s) p = nfPc (willDone s) (s.pc t))
    (hm : willDone s = false → m = s.mu)
    (hf : (if willDone s then Option.getD r f else f) = (if willDone s then s.fres.getD s.fields else s.fields))
    (hi : i = s.invoked) (hr : r = s.fres) :
    nf ⟨s.pcs.set t p, d, m, f, i, r⟩ = nf s := by
  apply nf_congr _ _ (by simp) hD
  · intro u _
    rw [pc_mk _ _ _ _ ht]
    by_cases e : u = t
    · subst e; simpa using hp
    · simp [e]
  · exact hm
  · exact hf
  · exact hi
  · exact hr

theorem urgent_step_nf (res : Nat → List Int) (s : State) (t : Nat) (l : Option Event) (s' : State)
    (hg : GoodX s) (ht : t < s.pcs.length) (hu : urgent s t = true) (hstep : (l, s') ∈ stepT res s t) :
    l = none ∧ nf s' = nf s ∧ nu s' < nu s := by
  have hT := hg.good.thread t
  have hH := hg.holder
  unfold ThreadOk at hT
  unfold urgent at hu
  cases hpc : s.pc t <;> simp only [hpc] at hu hT <;> try (exact absurd hu (by decide))
  case fast =>
    simp only [stepT, hpc, List.mem_singleton, Prod.mk.injEq] at hstep
    obtain ⟨rfl, rfl⟩ := hstep
    refine ⟨rfl, ?_, ?_⟩
    · apply nf_upd s t _ ht
      · rw [willDone_mk _ _ _ ht]
        unfold willDone
        cases hmu : s.mu with
        | none => rfl
        | some w =>
          simp only
          by_cases e : w = t
          · subst e; simp only [if_true, hpc]; cases s.done <;> rfl
          · simp only [e, if_false]
      · rw [hpc]
        cases hd : s.done
        · simp [nfPc]
        · simp [willDone, hd, nfPc]
      · intro _; rfl
      · rfl
      · rfl
      · rfl
    · apply nu_mk _ _ _ ht
      rw [hpc]; cases s.done <;> decide
  case lock =>
    simp only [Bool.and_eq_true, beq_iff_eq] at hu
    obtain ⟨hmu, hd⟩ := hu
    simp only [stepT, hpc, hmu, if_true, List.mem_singleton, Prod.mk.injEq] at hstep
    obtain ⟨rfl, rfl⟩ := hstep
    have hW : willDone s = true := by simp [willDone, hd]
    refine ⟨rfl, ?_, ?_⟩
    · apply nf_upd s t _ ht
      · rw [willDone_mk _ _ _ ht, hW]; simp [State.setPc, hd]
      · rw [hpc, hW]; rfl
      · intro h; rw [hW] at h; cases h
      · rfl
      · rfl
      · rfl
    · apply nu_mk _ _ _ ht
      rw [hpc]; decide
  case check =>
    simp only [stepT, hpc, List.mem_singleton, Prod.mk.injEq] at hstep
    obtain ⟨rfl, rfl⟩ := hstep
    have hW : willDone s = s.done := by simp [willDone, hT, hpc, isAS]
    refine ⟨rfl, ?_, ?_⟩
    · apply nf_upd s t _ ht
      · rw [willDone_mk _ _ _ ht, hW, hT]
        cases s.done <;> simp [isAS]
      · rw [hpc, hW]; cases s.done <;> rfl
      · intro _; rfl
      · rfl
      · rfl
      · rfl
    · apply nu_mk _ _ _ ht
      rw [hpc]; cases s.done <;> decide
  case assign r =>
    simp only [stepT, hpc, List.mem_singleton, Prod.mk.injEq] at hstep
    obtain ⟨rfl, rfl⟩ := hstep
    obtain ⟨hmu, hd, _, hfr⟩ := hT
    have hW : willDone s = true := by simp [willDone, hmu, hpc, isAS]
    refine ⟨rfl, ?_, ?_⟩
    · apply nf_upd s t _ ht
      · rw [willDone_mk _ _ _ ht, hW]; simp [State.setPc, hmu, isAS]
      · rw [hpc, hW]; rfl
      · intro _; rfl
      · simp [hW, hfr, State.setPc]
      · rfl
      · rfl
    · apply nu_mk _ _ _ ht
      rw [hpc]; simp [wt]
  case store =>
    simp only [stepT, hpc, List.mem_singleton, Prod.mk.injEq] at hstep
    obtain ⟨rfl, rfl⟩ := hstep
    obtain ⟨hmu, hd, _, hfr⟩ := hT
    have hW : willDone s = true := by simp [willDone, hmu, hpc, isAS]
    refine ⟨rfl, ?_, ?_⟩
    · apply nf_upd s t _ ht
      · rw [willDone_mk _ _ _ ht, hW]; simp
      · rw [hpc, hW]; rfl
      · intro _; rfl
      · rfl
      · rfl
      · rfl
    · apply nu_mk _ _ _ ht
      rw [hpc]; decide
  case unlock =>
    simp only [stepT, hpc, List.mem_singleton, Prod.mk.injEq] at hstep
    obtain ⟨rfl, rfl⟩ := hstep
    obtain ⟨hmu, hd⟩ := hT
    have hW : willDone s = true := by simp [willDone, hd]
    refine ⟨rfl, ?_, ?_⟩
    · apply nf_upd s t _ ht
      · rw [willDone_mk _ _ _ ht, hW]; simp [State.setPc, hd]
      · rw [hpc, hW]; rfl
      · intro h; rw [hW] at h; cases h
      · rfl
      · rfl
      · rfl
    · apply nu_mk _ _ _ ht
      rw [hpc]; decide

/-! ### normal states -/

theorem urgent_nf (s : State) (t : Nat) : urgent (nf s) t = false := by
  unfold urgent
  rw [nf_pc]
  cases hD : willDone s <;> cases s.pc t <;> simp [nfPc, nf, hD]

theorem nf_fix (x : State) (hg : GoodX x) (hn : ∀ t, urgent x t = false) : nf x = x := by
  have hAS : ∀ t, isAS (x.pc t) = false := by
    intro t
    have := hn t
    unfold urgent at this
    cases h : x.pc t <;> simp_all [isAS]
  have hW : willDone x = x.done := by
    unfold willDone
    cases x.mu <;> simp [hAS]
  have hmu : x.done = true → x.mu = none := by
    intro hd
    cases hm : x.mu with
    | none => rfl
    | some w =>
      have h1 := hg.holder w hm
      have h2 := hg.good.thread w
      have h3 := hn w
      unfold ThreadOk at h2
      unfold urgent at h3
      cases h : x.pc w <;> simp_all [holds]
  apply state_ext
  · exact nf_len x
  · intro u _
    rw [nf_pc, hW]
    have h3 := hn u
    unfold urgent at h3
    cases h : x.pc u <;> simp only [h] at h3 <;> try (first | rfl | exact absurd h3 (by decide))
    cases hd : x.done
    · rfl
    · simp [hmu hd, hd] at h3
  · simp [nf, hW]
  · simp only [nf, hW]
    cases hd : x.done
    · simp
    · simp [hmu hd]
  · simp only [nf, hW]
    cases hd : x.done
    · simp
    · simp [(hg.good.doneT hd).2]
  · rfl
  · rfl

theorem pick_none_of (x : State) (hn : ∀ t, urgent x t = false) : pick x = none := by
  unfold pick
  rw [List.findSome?_eq_none_iff]
  intro t _
  simp [hn t]

theorem stepT_urgent_ne_nil (res : Nat → List Int) (s : State) (t : Nat) (h : urgent s t = true) :
    stepT res s t ≠ [] := by
  unfold urgent at h
  unfold stepT
  split at h <;> simp_all

theorem pick_none_iff (x : State) (h : pick x = none) : ∀ t, urgent x t = false := by
  intro t
  by_cases ht : t < x.pcs.length
  · unfold pick at h
    rw [List.findSome?_eq_none_iff] at h
    have := h t (List.mem_range.2 ht)
    cases hu : urgent x t
    · rfl
    · simp only [hu, if_true, Option.map_eq_none_iff, List.head?_eq_none_iff] at this
      exact absurd this (stepT_urgent_ne_nil _ x t hu)
  · have : x.pc t = .idle := by
      unfold State.pc
      simp [List.getD_eq_getElem?_getD, List.getElem?_eq_none (Nat.le_of_not_lt ht)]
    unfold urgent
    rw [this]

theorem pick_spec (res : Nat → List Int) (x x' : State) (h : pick x = some x') :
    ∃ t, t < x.pcs.length ∧ urgent x t = true ∧ (none, x') ∈ stepT res x t := by
  unfold pick at h
  obtain ⟨t, ht, hf⟩ := List.exists_of_findSome?_eq_some h
  split at hf
  · rename_i hu
    rw [Option.map_eq_some_iff] at hf
    obtain ⟨p, hp, hp2⟩ := hf
    have hmem : p ∈ stepT (fun _ => []) x t := List.mem_of_head? hp
    rw [← ConcAcceptC17.stepT_urgent_res res _ x t hu] at hmem
    have h1 := ConcAcceptC17.stepT_urgent_internal res x t hu p hmem
    obtain ⟨l, q⟩ := p
    simp only at h1 hp2
    subst h1; subst hp2
    exact ⟨t, List.mem_range.1 ht, hu, hmem⟩
  · cases hf

/-! ### non-urgent steps commute with normalisation -/

theorem willDone_nf_mk (s : State) (t : Nat) (p : Pc) (ht : t < s.pcs.length) d m f i r :
    willDone ⟨(nf s).pcs.set t p, d, m, f, i, r⟩ =
      (d || (match m with
        | some w => if w = t then isAS p else false
        | none => false)) := by
  rw [willDone_mk (nf s) t p (by simpa [nf_len] using ht)]
  cases m with
  | none => rfl
  | some w =>
    simp only
    by_cases e : w = t
    · simp [e]
    · simp [e, nf_pc, isAS_nfPc]

theorem pc_nf_mk (s : State) (t u : Nat) (p : Pc) (ht : t < s.pcs.length) d m f i r :
    State.pc ⟨(nf s).pcs.set t p, d, m, f, i, r⟩ u = if u = t then p else nfPc (willDone s) (s.pc u) := by
  rw [pc_mk (nf s) t u p (by simpa [nf_len] using ht), nf_pc]

theorem wd_set (s : State) (t : Nat) (p : Pc) (ht : t < s.pcs.length) (h1 : isAS p = false)
    (h2 : isAS (s.pc t) = false) f i r : willDone ⟨s.pcs.set t p, s.done, s.mu, f, i, r⟩ = willDone s := by
  rw [willDone_mk _ _ _ ht]
  unfold willDone
  cases hmu : s.mu with
  | none => rfl
  | some w =>
    simp only
    by_cases e : w = t
    · subst e; simp [h1, h2]
    · simp [e]

theorem wd_nf_set (s : State) (t : Nat) (p : Pc) (ht : t < s.pcs.length) (h1 : isAS p = false) f i r :
    willDone ⟨(nf s).pcs.set t p, (nf s).done, (nf s).mu, f, i, r⟩ = willDone s := by
  rw [willDone_nf_mk _ _ _ ht]
  have : (nf s).done = willDone s := rfl
  rw [this]
  cases (nf s).mu <;> simp [h1]

theorem nf_comm_same (s : State) (t : Nat) (p : Pc) (ht : t < s.pcs.length) (h1 : isAS p = false)
    (h2 : isAS (s.pc t) = false) i :
    nf ⟨(nf s).pcs.set t p, (nf s).done, (nf s).mu, (nf s).fields, i, (nf s).fres⟩ =
      nf ⟨s.pcs.set t p, s.done, s.mu, s.fields, i, s.fres⟩ := by
  have hD1 := wd_set s t p ht h1 h2 s.fields i s.fres
  have hD2 := wd_nf_set s t p ht h1 (nf s).fields i (nf s).fres
  apply nf_congr
  · simp [nf_len]
  · rw [hD1, hD2]
  · intro u _
    rw [hD1, pc_nf_mk _ _ _ _ ht, pc_mk _ _ _ _ ht]
    by_cases e : u = t <;> simp [e, nfPc_idem]
  · intro h; rw [hD1] at h; simp [nf, h]
  · rw [hD1]
    simp only [nf]
    cases willDone s <;> simp
    cases s.fres <;> simp
  · rfl
  · rfl

theorem nonurgent_step (res : Nat → List Int) (s : State) (t : Nat) (l : Option Event) (s1 : State)
    (hg : GoodX s) (ht : t < s.pcs.length) (hu : urgent s t = false) (hstep : (l, s1) ∈ stepT res s t) :
    ∃ r1, (l, r1) ∈ stepT res (nf s) t ∧ nf r1 = nf s1 := by
  have hT := hg.good.thread t
  have hH := hg.holder
  unfold ThreadOk at hT
  unfold urgent at hu
  have hnfpc := nf_pc s t
  cases hpc : s.pc t <;> simp only [hpc] at hu hT hnfpc <;> try (exact absurd hu (by decide))
  case idle =>
    simp only [stepT, hpc, List.mem_singleton, Prod.mk.injEq] at hstep
    obtain ⟨rfl, rfl⟩ := hstep
    simp only [nfPc] at hnfpc
    refine ⟨_, by simp only [stepT, hnfpc]; exact List.mem_singleton.2 rfl, ?_⟩
    exact nf_comm_same s t _ ht rfl (by rw [hpc]; rfl) _
  case callF =>
    simp only [stepT, hpc, List.mem_singleton, Prod.mk.injEq] at hstep
    obtain ⟨rfl, rfl⟩ := hstep
    simp only [nfPc] at hnfpc
    refine ⟨_, by simp only [stepT, hnfpc]; exact List.mem_singleton.2 rfl, ?_⟩
    exact nf_comm_same s t _ ht rfl (by rw [hpc]; rfl) _
  case read =>
    simp only [stepT, hpc, List.mem_singleton, Prod.mk.injEq] at hstep
    obtain ⟨rfl, rfl⟩ := hstep
    simp only [nfPc] at hnfpc
    have hW : willDone s = true := by simp [willDone, hT]
    have hf : (nf s).fields = s.fields := by simp [nf, hW, (hg.good.doneT hT).2]
    refine ⟨_, by simp only [stepT, hnfpc, hf]; exact List.mem_singleton.2 rfl, ?_⟩
    exact nf_comm_same s t _ ht rfl (by rw [hpc]; rfl) _
  case returned =>
    simp [stepT, hpc] at hstep
  case lock =>
    simp only [stepT, hpc] at hstep
    split at hstep
    · rename_i hmu
      simp only [List.mem_singleton, Prod.mk.injEq] at hstep
      obtain ⟨rfl, rfl⟩ := hstep
      have hd : s.done = false := by simpa [hmu] using hu
      have hW : willDone s = false := by simp [willDone, hd, hmu]
      simp only [hW, nfPc] at hnfpc
      have hmu' : (nf s).mu = none := by simp [nf, hW, hmu]
      refine ⟨_, by simp only [stepT, hnfpc, hmu', if_true]; exact List.mem_singleton.2 rfl, ?_⟩
      show nf ⟨(nf s).pcs.set t .check, (nf s).done, some t, (nf s).fields, (nf s).invoked, (nf s).fres⟩ =
        nf ⟨s.pcs.set t .check, s.done, some t, s.fields, s.invoked, s.fres⟩
      have hD1 : willDone ⟨s.pcs.set t .check, s.done, some t, s.fields, s.invoked, s.fres⟩ = false := by
        rw [willDone_mk _ _ _ ht]; simp [hd, isAS]
      have hD2 : willDone ⟨(nf s).pcs.set t .check, (nf s).done, some t, (nf s).fields, (nf s).invoked, (nf s).fres⟩
          = false := by
        rw [willDone_nf_mk _ _ _ ht]; simp [nf, hW, isAS]
      apply nf_congr
      · simp [nf_len]
      · rw [hD1, hD2]
      · intro u _
        rw [hD1, pc_nf_mk _ _ _ _ ht, pc_mk _ _ _ _ ht, hW]
        by_cases e : u = t <;> simp [e, nfPc_idem]
      · intro _; rfl
      · rw [hD1]; simp [nf, hW]
      · rfl
      · rfl
    · simp at hstep
  case inF =>
    simp only [stepT, hpc, List.mem_singleton, Prod.mk.injEq] at hstep
    obtain ⟨rfl, rfl⟩ := hstep
    obtain ⟨hmu, hd, _, _⟩ := hT
    have hW : willDone s = false := by simp [willDone, hd, hmu, hpc, isAS]
    simp only [nfPc] at hnfpc
    refine ⟨_, by simp only [stepT, hnfpc]; exact List.mem_singleton.2 rfl, ?_⟩
    show nf ⟨(nf s).pcs.set t (.assign (res t)), (nf s).done, (nf s).mu, (nf s).fields, (nf s).invoked, some (res t)⟩ =
      nf ⟨s.pcs.set t (.assign (res t)), s.done, s.mu, s.fields, s.invoked, some (res t)⟩
    have hD1 : willDone ⟨s.pcs.set t (.assign (res t)), s.done, s.mu, s.fields, s.invoked, some (res t)⟩ = true := by
      rw [willDone_mk _ _ _ ht]; simp [hmu, isAS]
    have hD2 : willDone ⟨(nf s).pcs.set t (.assign (res t)), (nf s).done, (nf s).mu, (nf s).fields, (nf s).invoked,
        some (res t)⟩ = true := by
      rw [willDone_nf_mk _ _ _ ht]; simp [nf, hW, hmu, isAS]
    apply nf_congr
    · simp [nf_len]
    · rw [hD1, hD2]
    · intro u _
      rw [hD1, pc_nf_mk _ _ _ _ ht, pc_mk _ _ _ _ ht, hW]
      by_cases e : u = t
      · simp [e]
      · simp only [e, if_false]
        apply nfPc_true_false
        intro hc
        have h2 := hg.good.thread u
        unfold ThreadOk at h2
        rw [hc] at h2
        simp only at h2
        rw [hmu] at h2
        exact e (Option.some.inj h2).symm
    · intro h; rw [hD1] at h; cases h
    · rw [hD1]; simp
    · rfl
    · rfl
