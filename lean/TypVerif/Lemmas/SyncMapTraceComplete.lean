import TypVerif.Lemmas.SyncMapTrace
import TypVerif.Lemmas.SmcStep
/-
COMPLETENESS of the pure step-trace replay `Model.SyncMapTrace.applyLine/replay/replayPad` with respect to the transition
system `Model.SyncMapConc.sys` (the converse of `Lemmas/SyncMapTrace.lean`): every step of `succ` is accepted by
`applyLine` with the corresponding line, every execution of the model (from a reachable state) is the replay of a line
list carrying exactly the execution's labels, and the judge's lazily padded replay accepts that line list too.

The one side condition: a `range` choice is written in the trace as `iter t k` — the KEY only — and `applyLine` takes the
FIRST remaining pair with that key (`find?`).  So the replay reproduces every pick step of the model exactly when the
remaining pairs of the iterating goroutine have pairwise distinct keys (`PicksNodup`).  This is not a property of `succ`
on arbitrary states, but it holds in every reachable state: it is part of the proved invariant `R` (`Building` for the
`dirtyLocked` loop, `RangeHold` for the `Range` loop) — `picksNodup_of_R`, `picksNodup_of_reachable`.
-/
namespace TypVerif.Lemmas.SyncMapTrace
open TypVerif TypVerif.Conc TypVerif.Model TypVerif.Model.SyncMapConc TypVerif.Model.SyncMapTrace
open TypVerif.Model.SyncMap (alookup ainsert aerase akeys)
open TypVerif.Lemmas.Smc (mem_stepT_iff)

set_option linter.unusedSectionVars false

variable {K V : Type} [DecidableEq K] [DecidableEq V] [Inhabited V]

/-! ### the side condition: distinct keys among the remaining `range` choices -/

/-- the remaining choices of every goroutine parked at the head of a `range` iteration have pairwise distinct keys -/
def PicksNodup (s : State K V) : Prop := ∀ t, ((picks (s.pc t)).map Prod.fst).Nodup

omit [DecidableEq V] [Inhabited V] in
theorem picks_keys_dirtyPick (c : NewCtx) (k : K) (v : V) (rm todo : List (K × EId)) :
    (picks (.dirtyPick c k v rm todo : Pc K V)).map Prod.fst = akeys todo := by
  simp only [picks, akeys, List.map_map]
  rfl

omit [DecidableEq V] [Inhabited V] in
theorem picks_keys_rangePick (todo : List (K × EId)) (acc : List (K × V)) :
    (picks (.rangePick todo acc : Pc K V)).map Prod.fst = akeys todo := by
  simp only [picks, akeys, List.map_map]
  rfl

omit [Inhabited V] in
/-- the per-goroutine invariant `T` gives distinct keys at the two loop heads -/
theorem picks_nodup_of_T {sh : Shared K V} {t : Tid} {pc : Pc K V} {a : Smc.APc K V} (hT : Smc.T sh t pc a) :
    ((picks pc).map Prod.fst).Nodup := by
  cases pc with
  | dirtyPick c k v rm todo =>
    simp only [Smc.T] at hT
    rw [picks_keys_dirtyPick]
    exact hT.2.2.1
  | rangePick todo acc =>
    simp only [Smc.T] at hT
    rw [picks_keys_rangePick]
    exact (List.nodup_append.mp hT.2.2.1).1
  | _ => exact List.nodup_nil

omit [Inhabited V] in
theorem picksNodup_of_R {s : State K V} {a : Smc.AState K V} (hR : Smc.R s a) : PicksNodup s :=
  fun t => picks_nodup_of_T (hR.thr t)

/-- **the side condition holds in every reachable state** of the model (any menu, any number of goroutines) -/
theorem picksNodup_of_reachable {menu : List (Op K V)} {n : Nat} {zst : Bool} {s : State K V}
    (h : Reachable (sys K V menu n zst) s) : PicksNodup s := by
  obtain ⟨a, _, hR⟩ := Smc.reachable_R h
  exact picksNodup_of_R hR

/-- with distinct keys, looking a chosen pair up by its key finds that pair -/
theorem find?_key_of_mem {α β : Type} [DecidableEq α] {l : List (α × β)} (hn : (l.map Prod.fst).Nodup) {c : α × β}
    (hc : c ∈ l) : l.find? (fun x => x.1 == c.1) = some c := by
  induction l with
  | nil => cases hc
  | cons p rest ih =>
    simp only [List.map_cons, List.nodup_cons] at hn
    rcases List.mem_cons.mp hc with h | h
    · subst h
      simp
    · have hne : ¬ p.1 = c.1 := by
        intro he
        exact hn.1 (he ▸ List.mem_map.mpr ⟨c, h, rfl⟩)
      rw [List.find?_cons_of_neg (by simpa using hne)]
      exact ih hn.2 h

/-! ### one step -/

omit [DecidableEq V] in
theorem mem_succ_iff' {menu : List (Op K V)} {s : State K V} {x : Option (SyncMapConc.Event K V) × State K V} :
    x ∈ succ menu s ↔ ∃ t, t < s.pcs.length ∧ x ∈ stepT menu s t := by
  unfold succ
  simp only [List.mem_flatMap, List.mem_range]

/-- the line that records a step of the model: `inv t op` for an invocation, `res t r` for a return, `iter t k` for a
`range` choice, `step t <label of the hook the goroutine is parked at>` for every other atomic step -/
inductive LineFor (menu : List (Op K V)) (s : State K V) : Line K V → Prop where
  | inv (t : Tid) (op : Op K V) : op ∈ menu → LineFor menu s (.inv t op)
  | res (t : Tid) (r : Res K V) : LineFor menu s (.res t r)
  | step (t : Tid) : LineFor menu s (.step t (s.pc t).label)
  | iter (t : Tid) (k : K) : LineFor menu s (.iter t k)

/-- **Every step of the model is accepted by the replay, with the corresponding line.**  For every step `(l, s')` of
`succ menu s` — in a state whose `range` choices have distinct keys (`PicksNodup`; true in every reachable state) — there
is a line `ln` that `applyLine` accepts in `s` with result exactly `s'` and whose visible event is the step's label `l`.
The line is `inv t op` (with `op ∈ menu`), `res t r`, `iter t k`, or `step t (s.pc t).label` (`LineFor`). -/
theorem applyLine_complete (menu : List (Op K V)) {s s' : State K V} {l : Option (SyncMapConc.Event K V)}
    (hp : PicksNodup s) (h : (l, s') ∈ succ menu s) :
    ∃ ln, applyLine s ln = some s' ∧ ln.event = l ∧ LineFor menu s ln := by
  obtain ⟨t, ht, hst⟩ := mem_succ_iff'.mp h
  rcases mem_stepT_iff.mp hst with ⟨hpc, op, hop, rfl, rfl⟩ | ⟨r, hpc, rfl, rfl⟩ |
    ⟨_, _, rfl, ⟨sh', pc', hex, rfl⟩ | ⟨c, hc, rfl⟩⟩
  · refine ⟨.inv t op, ?_, rfl, .inv t op hop⟩
    simp only [applyLine, ht, if_true, hpc]
  · refine ⟨.res t r, ?_, rfl, .res t r⟩
    simp only [applyLine, hpc, if_true]
  · refine ⟨.step t (s.pc t).label, ?_, rfl, .step t⟩
    simp only [applyLine, if_true, hex]
  · refine ⟨.iter t c.1, ?_, rfl, .iter t c.1⟩
    simp only [applyLine, find?_key_of_mem (hp t) hc]

/-- the menu side condition of the soundness theorem, for a `LineFor` line -/
theorem LineFor.menu {menu : List (Op K V)} {s : State K V} {ln : Line K V} (h : LineFor menu s ln) :
    ∀ t op, ln = .inv t op → op ∈ menu := by
  intro t op e
  cases h with
  | inv t' op' hop => cases e; exact hop
  | res _ _ => cases e
  | step _ => cases e
  | iter _ _ => cases e

/-- **one line = one step**: in a state whose `range` choices have distinct keys, the steps of the model are exactly the
accepted lines (invoking menu operations) -/
theorem applyLine_iff (menu : List (Op K V)) {s s' : State K V} {l : Option (SyncMapConc.Event K V)}
    (hp : PicksNodup s) :
    (l, s') ∈ succ menu s ↔
      ∃ ln, applyLine s ln = some s' ∧ ln.event = l ∧ ∀ t op, ln = .inv t op → op ∈ menu := by
  constructor
  · intro h
    obtain ⟨ln, h1, h2, h3⟩ := applyLine_complete menu hp h
    exact ⟨ln, h1, h2, h3.menu⟩
  · rintro ⟨ln, h1, h2, h3⟩
    obtain ⟨lab, hm, hl⟩ := applyLine_sound menu h3 h1
    rw [hl, h2] at hm
    exact hm

/-! ### an execution -/

/-- the replay of an execution, for any invariant `P` of the model that implies the side condition -/
theorem replay_complete_of_inv (menu : List (Op K V)) (n : Nat) (zst : Bool) (P : State K V → Prop)
    (hP : ∀ s, P s → PicksNodup s)
    (hstep : ∀ s l s', P s → (l, s') ∈ succ menu s → P s')
    {s s' : (sys K V menu n zst).State} {evs : List (Option (sys K V menu n zst).Event)}
    (h : Exec (sys K V menu n zst) s evs s') :
    P s → ∃ ls : List (Line K V), replay s ls = some s' ∧ ls.map Line.event = evs ∧
      ∀ t op, Line.inv t op ∈ ls → op ∈ menu := by
  induction h with
  | nil s => intro _; exact ⟨[], rfl, rfl, fun _ _ hm => by cases hm⟩
  | @cons s0 s1 s2 l ls0 hmem _ ih =>
    intro hs
    have hmem' : (l, s1) ∈ succ menu s0 := hmem
    obtain ⟨ln, h1, h2, h3⟩ := applyLine_complete menu (hP _ hs) hmem'
    obtain ⟨ls, h4, h5, h6⟩ := ih (hstep _ _ _ hs hmem')
    refine ⟨ln :: ls, ?_, ?_, ?_⟩
    · simp only [replay, h1]; exact h4
    · simp only [List.map_cons, h2, h5]
    · intro t op hm
      rcases List.mem_cons.mp hm with e | hm'
      · exact h3.menu t op e.symm
      · exact h6 t op hm'

/-- **Every execution of the model from a reachable state is accepted by the replay**: there is a line list, one line
per step, that `replay` accepts from `s` with final state exactly `s'`, whose labels (`Line.event`) are exactly the
execution's labels, and that invokes menu operations only. -/
theorem replay_complete (menu : List (Op K V)) (n : Nat) (zst : Bool) {s s' : State K V}
    {evs : List (Option (SyncMapConc.Event K V))}
    (hs : Reachable (sys K V menu n zst) s) (h : Exec (sys K V menu n zst) s evs s') :
    ∃ ls, replay s ls = some s' ∧ ls.map Line.event = evs ∧ ∀ t op, Line.inv t op ∈ ls → op ∈ menu :=
  replay_complete_of_inv menu n zst (Reachable (sys K V menu n zst))
    (fun _ hr => picksNodup_of_reachable hr) (fun _ _ _ hr hm => Reachable.step hr hm) h hs

/-- corollaries: same visible history, same length -/
theorem replay_complete' (menu : List (Op K V)) (n : Nat) (zst : Bool) {s s' : State K V}
    {evs : List (Option (SyncMapConc.Event K V))}
    (hs : Reachable (sys K V menu n zst) s) (h : Exec (sys K V menu n zst) s evs s') :
    ∃ ls, replay s ls = some s' ∧ ls.map Line.event = evs ∧ eventsOf ls = visible evs ∧ ls.length = evs.length ∧
      ∀ t op, Line.inv t op ∈ ls → op ∈ menu := by
  obtain ⟨ls, h1, h2, h3⟩ := replay_complete menu n zst hs h
  refine ⟨ls, h1, h2, ?_, ?_, h3⟩
  · rw [← h2, visible_map_event]
  · rw [← h2, List.length_map]

/-- from the initial state -/
theorem replay_complete_init (menu : List (Op K V)) (n : Nat) (zst : Bool) {s' : State K V}
    {evs : List (Option (SyncMapConc.Event K V))}
    (h : Exec (sys K V menu n zst) (SyncMapConc.init n zst) evs s') :
    ∃ ls, replay (SyncMapConc.init n zst) ls = some s' ∧ ls.map Line.event = evs ∧ eventsOf ls = visible evs ∧
      ls.length = evs.length ∧ ∀ t op, Line.inv t op ∈ ls → op ∈ menu :=
  replay_complete' menu n zst Reachable.init h

/-! ### determinism -/

/-- the replay is a function of the line list: two accepted replays of the same lines end in the same state -/
theorem replay_functional {s s₁ s₂ : State K V} {ls : List (Line K V)}
    (h₁ : replay s ls = some s₁) (h₂ : replay s ls = some s₂) : s₁ = s₂ :=
  Option.some.inj (h₁.symm.trans h₂)

/-- **The line list determines the execution**: two executions of the model from the same state that are recorded by
the same line list (each step accepted by `applyLine` on that line — as `applyLine_complete` provides) end in the same
state.  Stated with the recorded states: if `ls` replays to `s₁` and to `s₂`, then `s₁ = s₂`, and the executions given
by `replay_exec` have the same labels `ls.map Line.event`. -/
theorem replay_exec_functional (menu : List (Op K V)) (n : Nat) (zst : Bool) {s s₁ s₂ : State K V}
    {ls : List (Line K V)} (hmenu : ∀ t op, Line.inv t op ∈ ls → op ∈ menu)
    (h₁ : replay s ls = some s₁) (h₂ : replay s ls = some s₂) :
    s₁ = s₂ ∧ Exec (sys K V menu n zst) s (ls.map Line.event) s₁ :=
  ⟨replay_functional h₁ h₂, replay_exec menu n zst hmenu h₁⟩

theorem replay_append {s : State K V} {ls ls' : List (Line K V)} :
    replay s (ls ++ ls') = (replay s ls).bind (fun s1 => replay s1 ls') := by
  induction ls generalizing s with
  | nil => rfl
  | cons l ls ih =>
    simp only [List.cons_append, replay]
    cases applyLine s l with
    | none => rfl
    | some s1 => exact ih

/-! ### the judge's lazily padded replay -/

/-- a line other than `inv` that is accepted with extra idle goroutines around is accepted without them -/
theorem applyLine_unpad_isSome {s : State K V} {l : Line K V} (n : Nat) (hl : ∀ t op, l ≠ .inv t op)
    (h : (applyLine (pad s n) l).isSome = true) : (applyLine s l).isSome = true := by
  cases l with
  | inv t op => exact absurd rfl (hl t op)
  | step t label =>
    simp only [applyLine, pad_pc, pad_sh] at h ⊢
    split at h
    · rename_i hlab
      split at h
      · rename_i sh' pc' hex
        simp only [hlab, if_true, Option.isSome_some]
      · cases h
    · cases h
  | iter t k =>
    simp only [applyLine, pad_pc, pad_sh] at h ⊢
    split at h
    · rename_i c hc
      simp only [Option.isSome_some]
    · cases h
  | res t r =>
    simp only [applyLine, pad_pc, pad_sh] at h ⊢
    split at h
    · rename_i r' hpc
      split at h
      · rename_i hrr
        simp only [hrr, if_true, Option.isSome_some]
      · cases h
    · cases h

/-- the converse of `applyLine_pad` for the judge's line function: a line accepted with `n` goroutines from the start is
accepted by the judge, who has materialised only the goroutines invoked so far; the results agree up to padding -/
theorem applyLinePad_of_pad {s s' : State K V} {l : Line K V} {n : Nat} (hn : s.pcs.length ≤ n)
    (h : applyLine (pad s n) l = some s') :
    ∃ s1, applyLinePad s l = some s1 ∧ pad s1 n = s' ∧ s1.pcs.length ≤ n := by
  cases l with
  | inv t op =>
    simp only [applyLine, pad_pc, pad_sh] at h
    split at h
    · rename_i ht
      rw [pad_length] at ht
      have htn : t + 1 ≤ n := Nat.succ_le_of_lt (Nat.lt_of_lt_of_le ht (Nat.max_le.mpr ⟨hn, Nat.le_refl n⟩))
      split at h
      · rename_i hpc
        cases h
        have ht1 : t < (pad s (t + 1)).pcs.length := by
          rw [pad_length]; exact Nat.lt_of_lt_of_le (Nat.lt_succ_self t) (Nat.le_max_right _ _)
        refine ⟨setPc (pad s (t + 1)) t s.sh (.start op), ?_, ?_, ?_⟩
        · simp only [applyLinePad, applyLine, ht1, if_true, pad_pc, hpc, pad_sh]
        · rw [pad_setPc ht1, pad_pad _ _ _ htn]
        · simp only [setPc, List.length_set, pad_length]; exact Nat.max_le.mpr ⟨hn, htn⟩
      · cases h
    · cases h
  | step t label =>
    have hs := applyLine_unpad_isSome (l := Line.step t label) n (fun _ _ e => by cases e) (by rw [h]; rfl)
    obtain ⟨s1, h1⟩ := Option.isSome_iff_exists.mp hs
    have h2 := applyLine_pad h1 n
    rw [h] at h2
    exact ⟨s1, h1, (Option.some.inj h2).symm, by rw [applyLine_length h1]; exact hn⟩
  | iter t k =>
    have hs := applyLine_unpad_isSome (l := Line.iter t k) n (fun _ _ e => by cases e) (by rw [h]; rfl)
    obtain ⟨s1, h1⟩ := Option.isSome_iff_exists.mp hs
    have h2 := applyLine_pad h1 n
    rw [h] at h2
    exact ⟨s1, h1, (Option.some.inj h2).symm, by rw [applyLine_length h1]; exact hn⟩
  | res t r =>
    have hs := applyLine_unpad_isSome (l := Line.res t r) n (fun _ _ e => by cases e) (by rw [h]; rfl)
    obtain ⟨s1, h1⟩ := Option.isSome_iff_exists.mp hs
    have h2 := applyLine_pad h1 n
    rw [h] at h2
    exact ⟨s1, h1, (Option.some.inj h2).symm, by rw [applyLine_length h1]; exact hn⟩

/-- a trace accepted with `n` goroutines from the start is accepted by the judge's lazily padded replay, and the two
final states agree once the never-invoked goroutines are added -/
theorem replayPad_of_replay_pad {s s' : State K V} {ls : List (Line K V)} {n : Nat} (hn : s.pcs.length ≤ n)
    (h : replay (pad s n) ls = some s') :
    ∃ s'', replayPad s ls = some s'' ∧ pad s'' n = s' ∧ s''.pcs.length ≤ n := by
  induction ls generalizing s with
  | nil =>
    simp only [replay] at h
    cases h
    exact ⟨s, rfl, rfl, hn⟩
  | cons l ls ih =>
    simp only [replay] at h
    split at h
    · rename_i s1' h1
      obtain ⟨s1, h2, h3, h4⟩ := applyLinePad_of_pad hn h1
      subst h3
      obtain ⟨s'', h5, h6, h7⟩ := ih h4 h
      exact ⟨s'', by simp only [replayPad, h2]; exact h5, h6, h7⟩
    · cases h

/-- **Completeness for the judge's variant** (exact form): every execution of the model with `n` goroutines from the
initial state is accepted by the judge's replay `replayPad` from `init 0` — on the same line list as `replay` from
`init n` — and the judge's final state `s''` is the model's final state `s'` except that goroutines that were never
invoked are not materialised: `pad s'' n = s'`. -/
theorem replayPad_complete (menu : List (Op K V)) (n : Nat) (zst : Bool) {s' : State K V}
    {evs : List (Option (SyncMapConc.Event K V))}
    (h : Exec (sys K V menu n zst) (SyncMapConc.init n zst) evs s') :
    ∃ ls, replay (SyncMapConc.init n zst) ls = some s' ∧ ls.map Line.event = evs ∧
      (∀ t op, Line.inv t op ∈ ls → op ∈ menu) ∧
      ∃ s'', replayPad (SyncMapConc.init 0 zst) ls = some s'' ∧ pad s'' n = s' ∧ s''.pcs.length ≤ n := by
  obtain ⟨ls, h1, h2, _, _, h3⟩ := replay_complete_init menu n zst h
  refine ⟨ls, h1, h2, h3, ?_⟩
  have h1' : replay (pad (SyncMapConc.init 0 zst : State K V) n) ls = some s' := by rw [pad_init]; exact h1
  exact replayPad_of_replay_pad (Nat.zero_le _) h1'

end TypVerif.Lemmas.SyncMapTrace
