import TypVerif.Lemmas.SmcBasic
import TypVerif.Lemmas.SmcGS
/-
C04 concurrent half, layer A2 of `SMC_PLAN.md`: ENTRY-pointer writes.

An entry write changes `entries` (and possibly `nextPtr`) only.  For every such write performed by `exec`
(`storeVal` on a linked live entry; `setP nil` on `read.m[k]`; `setP nil` on the actor's unlinked entry;
`setP expunged` by the builder; un-expunge = `setP nil` + `setDirty`) this file proves
  (i)   every (bystander) goroutine's `T` survives,
  (ii)  `GS` survives (for the stated unprocessed set),
  (iii) what happens to `absOf`.

Structure:
* §0  facts about `GS` (with `UOk`, the knowledge about unprocessed pairs that the builder's `T` provides);
* §1  `EW sh' sh e0 p`: "`sh'` is `sh` with `entries[e0] := p`" (covers `setP` and `storeVal`);
* §2  `Xfer sh' sh u pc a`: a list of monotonicity facts that is sufficient for `T sh u pc a → T sh' u pc a`
      (`Xfer.transfer`); it is established for entry writes (`EW.xfer`) and for `setDirty` of a `read.m` pair seen by a
      non-owner (`xfer_setDirty`);
* §3  `GS` and `absOf` under an `EW`;
* §4  the five writes.
-/
namespace TypVerif.Lemmas.Smc
open TypVerif.Model TypVerif.Model.SyncMapConc TypVerif.Model.RelObj
open TypVerif.Model.SyncMap (alookup ainsert aerase akeys)
open TypVerif.Lemmas.SyncMap

set_option linter.unusedSimpArgs false
set_option linter.unusedVariables false
set_option linter.unusedSectionVars false

variable {K V : Type} [DecidableEq K] [DecidableEq V]

/-! ## 0. `GS` facts -/

/-- what the builder's `T` (`Building`) says about the unprocessed pairs -/
abbrev UOk (sh : Shared K V) (U : List (K × EId)) : Prop :=
  ∀ p ∈ U, p ∈ sh.readM ∧ alookup p.1 (dirtyMap sh) = none ∧ p.2 ∉ vals (dirtyMap sh) ∧
    (getP sh p.2).isExpunged = false

/-- every caller can supply `UOk` from `hT` -/
theorem uok_of_T {s : State K V} {apcs : Nat → APc K V} (hT : ∀ u, T s.sh u (s.pc u) (apcs u)) :
    UOk s.sh (unprocessed s) :=
  fun _ hp => unprocessed_spec hT hp

theorem uok_of_empty {sh : Shared K V} {U : List (K × EId)} (h : ∀ p, p ∉ U) : UOk sh U :=
  fun p hp => absurd hp (h p)

theorem GS.read_live_in_dirty {sh : Shared K V} {U : List (K × EId)} (hG : GS sh U) {k : K} {e : EId}
    (h : alookup k sh.readM = some e) (hu : (k, e) ∉ U) (hl : (getP sh e).isExpunged = false)
    (hd : sh.dirty.isSome = true) : alookup k (dirtyMap sh) = some e := by
  have := hG.readDirty (k, e) (mem_of_alookup h) hu
  simp only [hl] at this
  exact this hd

theorem GS.read_expunged_not_in_dirty {sh : Shared K V} {U : List (K × EId)} (hG : GS sh U) {k : K} {e : EId}
    (h : alookup k sh.readM = some e) (hu : (k, e) ∉ U) (hx : (getP sh e).isExpunged = true) :
    sh.dirty.isSome = true ∧ alookup k (dirtyMap sh) = none ∧ e ∉ vals (dirtyMap sh) := by
  have := hG.readDirty (k, e) (mem_of_alookup h) hu
  simp only [hx, if_true] at this
  exact this

/-- (B) for all pairs of `read.m`: an entry of `read.m` that the dirty map holds sits under the same key there and is
not expunged -/
theorem GS.read_dirty_same_key {sh : Shared K V} {U : List (K × EId)} (hG : GS sh U) (hU : UOk sh U) {k k' : K}
    {e : EId} (h : alookup k sh.readM = some e) (hd : alookup k' (dirtyMap sh) = some e) :
    k' = k ∧ (getP sh e).isExpunged = false := by
  by_cases hu : (k, e) ∈ U
  · exact absurd (mem_vals_of_alookup hd) (hU _ hu).2.2.1
  · cases hx : (getP sh e).isExpunged with
    | true => exact absurd (mem_vals_of_alookup hd) (hG.read_expunged_not_in_dirty h hu hx).2.2
    | false =>
      have h1 := hG.read_live_in_dirty h hu hx (dirty_isSome_of_alookup_dirtyMap hd)
      exact ⟨alookup_inj hG.valsD hd h1, rfl⟩

/-- the entry the maps hold for a key is held for that key only -/
theorem GS.cur_key_unique {sh : Shared K V} {U : List (K × EId)} (hG : GS sh U) (hU : UOk sh U) {k k' : K} {e : EId}
    (h : Cur sh k e) (h' : Cur sh k' e) : k = k' := by
  rcases h with h | ⟨h1, h2⟩ <;> rcases h' with h' | ⟨h1', h2'⟩
  · exact alookup_inj hG.valsR h h'
  · exact (hG.read_dirty_same_key hU h h2').1.symm
  · exact (hG.read_dirty_same_key hU h' h2).1
  · exact alookup_inj hG.valsD h2 h2'

/-- (C) -/
theorem GS.amended_of_dirty_only {sh : Shared K V} {U : List (K × EId)} (hG : GS sh U) {k : K} {e : EId}
    (h : alookup k sh.readM = none) (hd : alookup k (dirtyMap sh) = some e) : sh.amended = true := by
  cases ha : sh.amended with
  | true => rfl
  | false =>
    have h1 : alookup k sh.readM = some e := hG.dirtySub ha (k, e) (mem_of_alookup hd)
    rw [h] at h1; cases h1

theorem GS.cur_lt_length {sh : Shared K V} {U : List (K × EId)} (hG : GS sh U) {k : K} {e : EId} (h : Cur sh k e) :
    e < sh.entries.length := by
  rcases h with h | ⟨_, h⟩
  · exact hG.boundR _ (mem_of_alookup h)
  · exact hG.boundD _ (mem_of_alookup h)

theorem GS.absOf_of_cur {sh : Shared K V} {U : List (K × EId)} (hG : GS sh U) {k : K} {e : EId} (h : Cur sh k e) :
    absOf sh k = (getP sh e).value? := by
  rcases h with h | ⟨h1, h2⟩
  · exact absOf_of_read h
  · exact absOf_of_dirty h1 (hG.amended_of_dirty_only h1 h2) h2

/-- a `read.m` pair is determined by its entry -/
theorem GS.read_pair_eq {sh : Shared K V} {U : List (K × EId)} (hG : GS sh U) {k : K} {e : EId} {q : K × EId}
    (h : (k, e) ∈ sh.readM) (hq : q ∈ sh.readM) (he : q.2 = e) : q = (k, e) := by
  obtain ⟨k1, e1⟩ := q
  simp only at he
  subst he
  rw [key_unique_of_mem hG.valsR hq h]

/-! ## 1. entry writes -/

/-- `sh'` is `sh` with `entries[e0] := p`; `nextPtr`, `misses`, `zst` are unconstrained -/
structure EW (sh' sh : Shared K V) (e0 : EId) (p : Ptr V) : Prop where
  entries : sh'.entries = sh.entries.set e0 p
  readM : sh'.readM = sh.readM
  amended : sh'.amended = sh.amended
  dirty : sh'.dirty = sh.dirty
  mu : sh'.mu = sh.mu
  fault : sh'.fault = sh.fault

theorem EW_setP (sh : Shared K V) (e0 : EId) (p : Ptr V) : EW (setP sh e0 p) sh e0 p := ⟨rfl, rfl, rfl, rfl, rfl, rfl⟩

theorem EW_storeVal (sh : Shared K V) (e0 : EId) (v : V) : EW (storeVal sh e0 v) sh e0 (.val (freshId sh) v) :=
  ⟨rfl, rfl, rfl, rfl, rfl, rfl⟩

section EWBasic
variable {sh sh' : Shared K V} {e0 : EId} {p : Ptr V}

theorem EW.getP_eq (hw : EW sh' sh e0 p) (e : EId) :
    getP sh' e = if e = e0 ∧ e0 < sh.entries.length then p else getP sh e := by
  rw [← getP_setP]
  exact getP_congr (sh := setP sh e0 p) hw.entries e

theorem EW.getP_ne (hw : EW sh' sh e0 p) {e : EId} (h : e ≠ e0) : getP sh' e = getP sh e := by
  rw [hw.getP_eq]; simp [h]

theorem EW.getP_self (hw : EW sh' sh e0 p) (h : e0 < sh.entries.length) : getP sh' e0 = p := by
  rw [hw.getP_eq]; simp [h]

theorem EW.getP_of_le (hw : EW sh' sh e0 p) (h : sh.entries.length ≤ e0) (e : EId) : getP sh' e = getP sh e := by
  rw [hw.getP_eq]
  have : ¬ e0 < sh.entries.length := Nat.not_lt.mpr h
  simp [this]

theorem EW.length_eq (hw : EW sh' sh e0 p) : sh'.entries.length = sh.entries.length := by
  rw [hw.entries]; simp

theorem EW.dirtyMap_eq (hw : EW sh' sh e0 p) : dirtyMap sh' = dirtyMap sh := dirtyMap_congr hw.dirty

/-- a write that keeps "expunged or not" of the written entry keeps it for all entries -/
theorem EW.isExpunged_eq (hw : EW sh' sh e0 p) (h : e0 < sh.entries.length → p.isExpunged = (getP sh e0).isExpunged)
    (e : EId) : (getP sh' e).isExpunged = (getP sh e).isExpunged := by
  rw [hw.getP_eq]
  split
  · rename_i hc; rw [hc.1]; exact h hc.2
  · rfl

/-- a write of a non-expunged pointer keeps non-expunged entries non-expunged -/
theorem EW.not_expunged (hw : EW sh' sh e0 p) (hp : p.isExpunged = false) {e : EId}
    (h : (getP sh e).isExpunged = false) : (getP sh' e).isExpunged = false := by
  rw [hw.getP_eq]
  split
  · exact hp
  · exact h

theorem EW.value?_eq (hw : EW sh' sh e0 p) (h : e0 < sh.entries.length → p.value? = (getP sh e0).value?)
    (e : EId) : (getP sh' e).value? = (getP sh e).value? := by
  rw [hw.getP_eq]
  split
  · rename_i hc; rw [hc.1]; exact h hc.2
  · rfl

end EWBasic

/-! ## 2. transfer of `T` -/

/-- facts about a change `sh ↦ sh'` of the shared state that suffice for goroutine `u`, parked at `pc` with abstract
status `a`, to keep its invariant `T` -/
structure Xfer (sh' sh : Shared K V) (u : Tid) (pc : Pc K V) (a : APc K V) : Prop where
  readM : sh'.readM = sh.readM
  mu : sh'.mu = sh.mu
  len : sh'.entries.length = sh.entries.length
  dead : ∀ e, Dead sh e → Dead sh' e
  load : ∀ k e, HoldLoad sh k e a → HoldLoad sh' k e a
  unl : ∀ d k e, e ∈ unlinkedPc pc a → Unlinker sh d k e a → Unlinker sh' d k e a
  unlBack : ∀ d k e, Unlinker sh' d k e a → Unlinker sh d k e a ∧ getP sh' e = getP sh e
  /-- only the owner of `mu` looks at `amended`, `dirty`, and relies on entries being not expunged -/
  own : Own sh u → sh'.amended = sh.amended ∧ sh'.dirty = sh.dirty ∧
    ∀ e, (getP sh e).isExpunged = false → (getP sh' e).isExpunged = false

theorem Unlinker.done {sh : Shared K V} {d : Bool} {k : K} {e : EId} {a : APc K V} (h : Unlinker sh d k e a) :
    ∃ op r, a = .done op r := by
  obtain ⟨v, _, hd⟩ := h.spec
  cases a with
  | done op r => exact ⟨op, r, rfl⟩
  | idle => exact False.elim hd
  | pending _ _ => exact False.elim hd

section XferLemmas
variable {sh sh' : Shared K V} {u : Tid} {pc : Pc K V} {a : APc K V}

theorem Xfer.own_iff (h : Xfer sh' sh u pc a) : Own sh' u ↔ Own sh u := Own_congr h.mu u

theorem Xfer.holdRead (h : Xfer sh' sh u pc a) {k : K} {e : EId} (hp : HoldRead sh k e) : HoldRead sh' k e :=
  ⟨by rw [h.len]; exact hp.1, hp.2.imp (fun h1 => by rw [h.readM]; exact h1) (h.dead e)⟩

theorem Xfer.holdDel (h : Xfer sh' sh u pc a) {d : Bool} {k : K} {e : EId} (hp : HoldDel sh d k e a) :
    HoldDel sh' d k e a :=
  ⟨by rw [h.len]; exact hp.1, hp.2.imp (fun h1 => by rw [h.readM]; exact h1) (fun h1 => ⟨h.dead e h1.1, h1.2⟩)⟩

theorem Xfer.delHold (h : Xfer sh' sh u pc a) {d : Bool} {k : K} {e : EId}
    (hmem : ∀ op r, a = .done op r → e ∈ unlinkedPc pc a) (hp : DelHold sh u d k e a) : DelHold sh' u d k e a := by
  refine ⟨fun ho => hp.1 (h.own_iff.mp ho), ?_⟩
  rcases hp.2 with ⟨h1, h2⟩ | h1
  · exact Or.inl ⟨h1, h.holdDel h2⟩
  · obtain ⟨op, r, ha⟩ := h1.done
    exact Or.inr (h.unl d k e (hmem op r ha) h1)

theorem Xfer.rangeHold (h : Xfer sh' sh u pc a) {todo : List (K × EId)} {acc : List (K × V)}
    (hp : RangeHold sh todo acc) : RangeHold sh' todo acc :=
  ⟨hp.1, fun q hq => h.holdRead (hp.2 q hq)⟩

theorem Xfer.dirtyMap_of_own (h : Xfer sh' sh u pc a) (ho : Own sh u) : dirtyMap sh' = dirtyMap sh :=
  dirtyMap_congr (h.own ho).2.1

theorem Xfer.storeTarget (h : Xfer sh' sh u pc a) (ho : Own sh u) {k : K} {e : EId} (hp : StoreTarget sh k e) :
    StoreTarget sh' k e := by
  rcases hp with ⟨h1, h2⟩ | ⟨h1, h2⟩
  · exact Or.inl ⟨by rw [h.readM]; exact h1, (h.own ho).2.2 e h2⟩
  · exact Or.inr ⟨by rw [h.readM]; exact h1, by rw [h.dirtyMap_of_own ho]; exact h2⟩

theorem Xfer.building (h : Xfer sh' sh u pc a) (ho : Own sh u) {l : List (K × EId)} (hp : Building sh l) :
    Building sh' l := by
  refine ⟨hp.1, fun q hq => ?_⟩
  obtain ⟨h1, h2, h3, h4⟩ := hp.2 q hq
  refine ⟨by rw [h.readM]; exact h1, by rw [h.dirtyMap_of_own ho]; exact h2, by rw [h.dirtyMap_of_own ho]; exact h3,
    (h.own ho).2.2 _ h4⟩

theorem Xfer.newTail (h : Xfer sh' sh u pc a) {c : NewCtx} {k : K} {v : V} {rm : List (K × EId)}
    (hp : NewTail sh u c k v rm a) : NewTail sh' u c k v rm a := by
  obtain ⟨h1, h2, h3, h4, h5⟩ := hp
  exact ⟨h1, h.own_iff.mpr h2, by rw [h.readM]; exact h3, by rw [(h.own h2).1]; exact h4, by rw [h.readM]; exact h5⟩

theorem Xfer.promoting (h : Xfer sh' sh u pc a) (hp : Promoting sh u) : Promoting sh' u := by
  obtain ⟨h1, h2, h3⟩ := hp
  exact ⟨h.own_iff.mpr h1, by rw [(h.own h1).1]; exact h2, by rw [(h.own h1).2.1]; exact h3⟩

theorem Xfer.losHold (h : Xfer sh' sh u pc a) {c : LosCtx} {k : K} {e : EId} (hp : LosHold sh u c k e) :
    LosHold sh' u c k e := by
  cases c with
  | fast =>
    simp only [LosHold] at hp ⊢
    exact ⟨fun ho => hp.1 (h.own_iff.mp ho), h.holdRead hp.2⟩
  | slowRead =>
    simp only [LosHold] at hp ⊢
    exact ⟨h.own_iff.mpr hp.1, by rw [h.readM]; exact hp.2.1, (h.own hp.1).2.2 e hp.2.2⟩
  | slowDirty =>
    simp only [LosHold] at hp ⊢
    exact ⟨h.own_iff.mpr hp.1, by rw [h.readM]; exact hp.2.1, by rw [h.dirtyMap_of_own hp.1]; exact hp.2.2⟩

/-- the transfer theorem: `T` survives a change described by `Xfer` -/
theorem Xfer.transfer (h : Xfer sh' sh u pc a) (hT : T sh u pc a) : T sh' u pc a := by
  cases pc with
  | start op => cases op <;> simp only [T, h.own_iff] at hT ⊢ <;> exact hT
  | ret r => cases r <;> simp only [T, h.own_iff] at hT ⊢ <;> exact hT
  | loadMiss k e =>
    simp only [T] at hT ⊢
    obtain ⟨h1, h2, h3, h4⟩ := hT
    exact ⟨h1, h.promoting h2, by rw [h.readM]; exact h3, by rw [h.dirtyMap_of_own h2.own]; exact h4⟩
  | loadPtr k e =>
    simp only [T] at hT ⊢
    exact ⟨hT.1, fun ho => hT.2.1 (h.own_iff.mp ho), h.load k e hT.2.2⟩
  | tryStoreLoad k v e =>
    simp only [T] at hT ⊢
    exact ⟨hT.1, fun ho => hT.2.1 (h.own_iff.mp ho), h.holdRead hT.2.2⟩
  | tryStoreCas k v e p =>
    simp only [T] at hT ⊢
    exact ⟨hT.1, fun ho => hT.2.1 (h.own_iff.mp ho), h.holdRead hT.2.2.1, hT.2.2.2⟩
  | storeLocked k v e =>
    simp only [T] at hT ⊢
    exact ⟨hT.1, h.own_iff.mpr hT.2.1, h.storeTarget hT.2.1 hT.2.2⟩
  | dirtyRead c k v rm =>
    simp only [T] at hT ⊢
    exact ⟨h.newTail hT.1, by rw [(h.own hT.1.own).2.1]; exact hT.2⟩
  | dirtyPick c k v rm todo =>
    simp only [T] at hT ⊢
    exact ⟨h.newTail hT.1, by rw [(h.own hT.1.own).2.1]; exact hT.2.1, h.building hT.1.own hT.2.2⟩
  | expLoad c k v rm todo k' e' =>
    simp only [T] at hT ⊢
    exact ⟨h.newTail hT.1, by rw [(h.own hT.1.own).2.1]; exact hT.2.1, h.building hT.1.own hT.2.2⟩
  | expCas c k v rm todo k' e' =>
    simp only [T] at hT ⊢
    exact ⟨h.newTail hT.1, by rw [(h.own hT.1.own).2.1]; exact hT.2.1, h.building hT.1.own hT.2.2⟩
  | expLoad2 c k v rm todo k' e' =>
    simp only [T] at hT ⊢
    exact ⟨h.newTail hT.1, by rw [(h.own hT.1.own).2.1]; exact hT.2.1, h.building hT.1.own hT.2.2⟩
  | readStore c k v rm =>
    simp only [T] at hT ⊢
    exact ⟨h.newTail hT.1, by rw [(h.own hT.1.own).2.1]; exact hT.2⟩
  | losLoad c k v e => simp only [T] at hT ⊢; exact ⟨hT.1, h.losHold hT.2⟩
  | losCas c k v e => simp only [T] at hT ⊢; exact ⟨hT.1, h.losHold hT.2⟩
  | losLoad2 c k v e => simp only [T] at hT ⊢; exact ⟨hT.1, h.losHold hT.2⟩
  | losMiss k r => simp only [T] at hT ⊢; exact ⟨hT.1, hT.2.1, h.promoting hT.2.2⟩
  | ladMiss d k e =>
    cases e with
    | none =>
      simp only [T] at hT ⊢
      exact ⟨h.promoting hT.1, by rw [h.readM]; exact hT.2.1, by rw [h.dirtyMap_of_own hT.1.own]; exact hT.2.2.1,
        hT.2.2.2⟩
    | some e =>
      simp only [T] at hT ⊢
      exact ⟨h.promoting hT.1, by rw [h.readM]; exact hT.2.1, by rw [h.dirtyMap_of_own hT.1.own]; exact hT.2.2.1,
        h.unl d k e (by simp [unlinkedPc]) hT.2.2.2⟩
  | delLoad d k e =>
    simp only [T] at hT ⊢
    exact h.delHold (fun op r ha => by subst ha; simp [unlinkedPc]) hT
  | delCas d k e p =>
    simp only [T] at hT ⊢
    refine ⟨h.delHold (fun op r ha => by subst ha; simp [unlinkedPc]) hT.1, hT.2.1, fun hu => ?_⟩
    obtain ⟨h1, h2⟩ := h.unlBack d k e hu
    rw [h2]; exact hT.2.2 h1
  | rangeStore dm =>
    simp only [T] at hT ⊢
    exact ⟨hT.1, h.promoting hT.2.1, by rw [h.dirtyMap_of_own hT.2.1.own]; exact hT.2.2⟩
  | rangePick todo acc =>
    simp only [T] at hT ⊢
    exact ⟨hT.1, fun ho => hT.2.1 (h.own_iff.mp ho), h.rangeHold hT.2.2⟩
  | rangeLoad todo acc k' e' =>
    simp only [T] at hT ⊢
    exact ⟨hT.1, fun ho => hT.2.1 (h.own_iff.mp ho), h.rangeHold hT.2.2⟩
  | _ => simp only [T, h.own_iff, h.readM] at hT ⊢ <;> exact hT

end XferLemmas

/-! ### `Xfer` for an entry write -/
section EWXfer
variable {sh sh' : Shared K V} {e0 : EId} {p : Ptr V}

theorem EW.cur_iff (hw : EW sh' sh e0 p) (k : K) (e : EId) : Cur sh' k e ↔ Cur sh k e := by
  unfold Cur
  rw [hw.readM, hw.dirtyMap_eq]

/-- a dead entry stays dead if the written entry is not dead -/
theorem EW.dead (hw : EW sh' sh e0 p) (hdead : ¬ Dead sh e0) {e : EId} (h : Dead sh e) : Dead sh' e := by
  have hne : e ≠ e0 := fun h1 => hdead (h1 ▸ h)
  exact ⟨by rw [hw.getP_ne hne]; exact h.1, by rw [hw.readM]; exact h.2.1, by rw [hw.dirtyMap_eq]; exact h.2.2⟩

theorem EW.orphan (hw : EW sh' sh e0 p) (horph : Orphan sh e0 → p.isExpunged = false) {e : EId} (h : Orphan sh e) :
    Orphan sh' e := by
  refine ⟨?_, by rw [hw.readM]; exact h.2.1, by rw [hw.dirtyMap_eq]; exact h.2.2⟩
  by_cases hc : e = e0 ∧ e0 < sh.entries.length
  · rw [hw.getP_eq, if_pos hc]; exact horph (hc.1 ▸ h)
  · rw [hw.getP_eq, if_neg hc]; exact h.1

theorem EW.holdLoad (hw : EW sh' sh e0 p) (hdead : ¬ Dead sh e0) (horph : Orphan sh e0 → p = .nil) {k : K} {e : EId}
    {a : APc K V} (h : HoldLoad sh k e a) : HoldLoad sh' k e a := by
  refine ⟨by rw [hw.length_eq]; exact h.1, ?_⟩
  rcases h.2 with h1 | ⟨h1, h2⟩ | ⟨h1, h2, h3⟩
  · exact Or.inl ((hw.cur_iff k e).mpr h1)
  · exact Or.inr (Or.inl ⟨hw.dead hdead h1, h2⟩)
  · refine Or.inr (Or.inr ⟨hw.orphan (fun ho => by rw [horph ho]; rfl) h1, h2, ?_⟩)
    by_cases hc : e = e0 ∧ e0 < sh.entries.length
    · have hg : getP sh' e = .nil := by rw [hw.getP_eq, if_pos hc]; exact horph (hc.1 ▸ h1)
      rw [hg]; simp
    · have hg : getP sh' e = getP sh e := by rw [hw.getP_eq, if_neg hc]
      rw [hg]; exact h3

theorem EW.unlinker_iff_of_ne (hw : EW sh' sh e0 p) {d : Bool} {k : K} {e : EId} {a : APc K V} (hne : e ≠ e0) :
    Unlinker sh' d k e a ↔ Unlinker sh d k e a := by
  unfold Unlinker
  rw [hw.length_eq, hw.readM, hw.dirtyMap_eq, hw.getP_ne hne]

/-- `T` of goroutine `u` survives the write `entries[e0] := p` provided
* `e0` is not dead,
* an orphan is only ever set to nil,
* `e0` is in one of the maps, or no value is written (nobody becomes an `Unlinker` of `e0`),
* `p` is not expunged, or `u` does not hold the mutex,
* `e0` is not the entry `u` has unlinked (unless it is in a map, in which case `u` has not unlinked it). -/
theorem EW.xfer (hw : EW sh' sh e0 p) {u : Tid} {pc : Pc K V} {a : APc K V}
    (hdead : ¬ Dead sh e0) (horph : Orphan sh e0 → p = .nil)
    (hback : e0 ∈ vals sh.readM ∨ e0 ∈ vals (dirtyMap sh) ∨ p.value? = none)
    (hexp : p.isExpunged = false ∨ ¬ Own sh u)
    (hunl : e0 ∈ unlinkedPc pc a → e0 ∈ vals sh.readM ∨ e0 ∈ vals (dirtyMap sh)) : Xfer sh' sh u pc a where
  readM := hw.readM
  mu := hw.mu
  len := hw.length_eq
  dead := fun e h => hw.dead hdead h
  load := fun k e h => hw.holdLoad hdead horph h
  unl := by
    intro d k e hm h
    by_cases hne : e = e0
    · rw [hne] at hm h
      rcases hunl hm with h1 | h1
      · exact absurd h1 h.2.1
      · exact absurd h1 h.2.2.1
    · exact (hw.unlinker_iff_of_ne hne).mpr h
  unlBack := by
    intro d k e h
    by_cases hne : e = e0
    · rw [hne] at h
      have hlt : e0 < sh.entries.length := by rw [← hw.length_eq]; exact h.1
      obtain ⟨v, hv, _⟩ := h.spec
      rw [hw.getP_self hlt] at hv
      rcases hback with h1 | h1 | h1
      · exact absurd (by rw [hw.readM]; exact h1) h.2.1
      · exact absurd (by rw [hw.dirtyMap_eq]; exact h1) h.2.2.1
      · rw [h1] at hv; cases hv
    · exact ⟨(hw.unlinker_iff_of_ne hne).mp h, hw.getP_ne hne⟩
  own := by
    intro ho
    refine ⟨hw.amended, hw.dirty, fun e he => ?_⟩
    rcases hexp with h1 | h1
    · exact hw.not_expunged h1 he
    · exact absurd ho h1

/-- the written entry is the one the maps hold for some key: every goroutine keeps its `T` (owners only if the
pointer written is not expunged) -/
theorem EW.xfer_of_cur (hw : EW sh' sh e0 p) {k : K} (hcur : Cur sh k e0) {u : Tid} {pc : Pc K V} {a : APc K V}
    (hexp : p.isExpunged = false ∨ ¬ Own sh u) : Xfer sh' sh u pc a :=
  hw.xfer hcur.not_dead (fun h => absurd h hcur.not_orphan)
    (hcur.mem_vals.elim Or.inl (fun h => Or.inr (Or.inl h))) hexp (fun _ => hcur.mem_vals)

end EWXfer

/-! ### `Xfer` for `setDirty k e` of a pair of `read.m`, seen by a goroutine that does not hold the mutex -/

theorem xfer_setDirty {sh : Shared K V} {k : K} {e : EId} {u : Tid} {pc : Pc K V} {a : APc K V}
    (hds : sh.dirty.isSome = true) (hr : alookup k sh.readM = some e) (hd : alookup k (dirtyMap sh) = none)
    (hno : ¬ Own sh u) : Xfer (setDirty sh k e) sh u pc a := by
  have hvals : ∀ x, x ∈ vals (dirtyMap (setDirty sh k e)) ↔ x ∈ vals (dirtyMap sh) ∨ x = e := by
    intro x; rw [dirtyMap_setDirty_of_isSome hds]; exact mem_vals_ainsert_of_none hd
  have hlook : ∀ k0, alookup k0 sh.readM = none →
      alookup k0 (dirtyMap (setDirty sh k e)) = alookup k0 (dirtyMap sh) := by
    intro k0 h0
    rw [dirtyMap_setDirty_of_isSome hds, alookup_ainsert]
    have : k0 ≠ k := by rintro rfl; rw [hr] at h0; cases h0
    simp [this]
  have hev : e ∈ vals sh.readM := mem_vals_of_alookup hr
  have hnd : ∀ x, x ∉ vals sh.readM → x ∉ vals (dirtyMap sh) → x ∉ vals (dirtyMap (setDirty sh k e)) := by
    intro x h1 h2 h3
    rcases (hvals x).mp h3 with h4 | h4
    · exact h2 h4
    · exact h1 (h4 ▸ hev)
  have hdead : ∀ x, Dead sh x → Dead (setDirty sh k e) x := fun x h =>
    ⟨by rw [getP_setDirty]; exact h.1, by rw [setDirty_readM]; exact h.2.1, hnd x h.2.1 h.2.2⟩
  have horph : ∀ x, Orphan sh x → Orphan (setDirty sh k e) x := fun x h =>
    ⟨by rw [getP_setDirty]; exact h.1, by rw [setDirty_readM]; exact h.2.1, hnd x h.2.1 h.2.2⟩
  refine ⟨setDirty_readM sh k e, setDirty_mu sh k e, by rw [setDirty_entries], hdead, ?_, ?_, ?_,
    fun ho => absurd ho hno⟩
  · intro k0 x h
    refine ⟨by rw [setDirty_entries]; exact h.1, ?_⟩
    rcases h.2 with h1 | ⟨h1, h2⟩ | ⟨h1, h2, h3⟩
    · left
      rcases h1 with h1 | ⟨h1, h1'⟩
      · exact Or.inl (by rw [setDirty_readM]; exact h1)
      · exact Or.inr ⟨by rw [setDirty_readM]; exact h1, by rw [hlook k0 h1]; exact h1'⟩
    · exact Or.inr (Or.inl ⟨hdead x h1, h2⟩)
    · exact Or.inr (Or.inr ⟨horph x h1, h2, by rw [getP_setDirty]; exact h3⟩)
  · intro d k0 x _ h
    rw [Unlinker_iff] at h ⊢
    obtain ⟨h1, h2, h3, h4⟩ := h
    exact ⟨by rw [setDirty_entries]; exact h1, by rw [setDirty_readM]; exact h2, hnd x h2 h3,
      by rw [getP_setDirty]; exact h4⟩
  · intro d k0 x h
    rw [Unlinker_iff] at h
    obtain ⟨h1, h2, h3, h4⟩ := h
    rw [setDirty_entries] at h1
    rw [setDirty_readM] at h2
    rw [getP_setDirty] at h4
    exact ⟨Unlinker_iff.mpr ⟨h1, h2, fun hx => h3 ((hvals x).mpr (Or.inl hx)), h4⟩, getP_setDirty sh k e x⟩

/-! ## 3. `GS` and `absOf` under an entry write -/
section EWGS
variable {sh sh' : Shared K V} {e0 : EId} {p : Ptr V} {U U' : List (K × EId)}

/-- skeleton: only `readDirty` and `dirtyLive` look at the pointers -/
theorem EW.gs (hw : EW sh' sh e0 p) (hG : GS sh U)
    (hRD : ∀ q ∈ sh.readM, q ∉ U' →
      if (getP sh' q.2).isExpunged then
        sh.dirty.isSome = true ∧ alookup q.1 (dirtyMap sh) = none ∧ q.2 ∉ vals (dirtyMap sh)
      else (sh.dirty.isSome = true → alookup q.1 (dirtyMap sh) = some q.2))
    (hDL : ∀ q ∈ dirtyMap sh, alookup q.1 sh.readM = none → isVal (getP sh' q.2) = true) : GS sh' U' where
  keysR := by rw [hw.readM]; exact hG.keysR
  valsR := by rw [hw.readM]; exact hG.valsR
  keysD := by rw [hw.dirtyMap_eq]; exact hG.keysD
  valsD := by rw [hw.dirtyMap_eq]; exact hG.valsD
  boundR := by rw [hw.readM, hw.length_eq]; exact hG.boundR
  boundD := by rw [hw.dirtyMap_eq, hw.length_eq]; exact hG.boundD
  s1 := by rw [hw.dirty, hw.amended]; exact hG.s1
  nofault := by rw [hw.fault]; exact hG.nofault
  readDirty := by rw [hw.readM, hw.dirty, hw.dirtyMap_eq]; exact hRD
  dirtySub := by rw [hw.amended, hw.dirtyMap_eq, hw.readM]; exact hG.dirtySub
  dirtyLive := by rw [hw.dirtyMap_eq, hw.readM]; exact hDL

/-- the written entry keeps its "expunged or not" status; if it is a dirty-only entry, a value is written -/
theorem EW.gs_keep (hw : EW sh' sh e0 p) (hG : GS sh U)
    (hx : e0 < sh.entries.length → p.isExpunged = (getP sh e0).isExpunged)
    (hDL : ∀ q ∈ dirtyMap sh, alookup q.1 sh.readM = none → q.2 = e0 → isVal p = true) : GS sh' U := by
  apply hw.gs hG
  · intro q hq hu
    rw [hw.isExpunged_eq hx]
    exact hG.readDirty q hq hu
  · intro q hq hn
    by_cases hc : q.2 = e0 ∧ e0 < sh.entries.length
    · rw [hw.getP_eq, if_pos hc]; exact hDL q hq hn hc.1
    · rw [hw.getP_eq, if_neg hc]; exact hG.dirtyLive q hq hn

theorem EW.absOf_of_value_eq (hw : EW sh' sh e0 p) (hv : e0 < sh.entries.length → p.value? = (getP sh e0).value?)
    (k : K) : absOf sh' k = absOf sh k := by
  unfold absOf
  rw [hw.readM, hw.amended, hw.dirtyMap_eq]
  cases alookup k sh.readM with
  | some e => simp only [hw.value?_eq hv]
  | none => simp only [hw.value?_eq hv]

/-- keys whose current entry is not the written one are unaffected -/
theorem EW.absOf_of_not_cur (hw : EW sh' sh e0 p) {k : K} (h : ¬ Cur sh k e0) : absOf sh' k = absOf sh k := by
  unfold absOf
  rw [hw.readM, hw.amended, hw.dirtyMap_eq]
  cases hr : alookup k sh.readM with
  | some e =>
    have hne : e ≠ e0 := fun h1 => h (Or.inl (h1 ▸ hr))
    simp only [hw.getP_ne hne]
  | none =>
    cases hd : alookup k (dirtyMap sh) with
    | none => rfl
    | some e =>
      have hne : e ≠ e0 := fun h1 => h (Or.inr ⟨hr, h1 ▸ hd⟩)
      simp only [Option.bind_some, hw.getP_ne hne]

theorem EW.absOf_of_cur (hw : EW sh' sh e0 p) (hlt : e0 < sh.entries.length) {k : K} (h : Cur sh k e0)
    (ham : alookup k sh.readM = none → sh.amended = true) : absOf sh' k = p.value? := by
  rcases h with h | ⟨h1, h2⟩
  · rw [absOf_of_read (by rw [hw.readM]; exact h), hw.getP_self hlt]
  · rw [absOf_of_dirty (by rw [hw.readM]; exact h1) (by rw [hw.amended]; exact ham h1)
      (by rw [hw.dirtyMap_eq]; exact h2), hw.getP_self hlt]

end EWGS

/-! ## 4. the five writes -/

/-! ### `nextPtr` is invisible -/

theorem storeVal_eq_setP (sh : Shared K V) (e : EId) (v : V) :
    storeVal sh e v = { setP sh e (.val (freshId sh) v) with nextPtr := sh.nextPtr + 1 } := rfl

theorem T_nextPtr (sh : Shared K V) (n : Nat) (u : Tid) (pc : Pc K V) (a : APc K V) :
    T { sh with nextPtr := n } u pc a ↔ T sh u pc a :=
  T_congr_mu ⟨rfl, rfl, rfl, rfl⟩ rfl pc a

theorem absOf_nextPtr (sh : Shared K V) (n : Nat) (k : K) : absOf { sh with nextPtr := n } k = absOf sh k := rfl

theorem GS_nextPtr (sh : Shared K V) (n : Nat) (U : List (K × EId)) : GS { sh with nextPtr := n } U ↔ GS sh U :=
  ⟨fun h => ⟨h.keysR, h.valsR, h.keysD, h.valsD, h.boundR, h.boundD, h.s1, h.nofault, h.readDirty, h.dirtySub,
      h.dirtyLive⟩,
   fun h => ⟨h.keysR, h.valsR, h.keysD, h.valsD, h.boundR, h.boundD, h.s1, h.nofault, h.readDirty, h.dirtySub,
      h.dirtyLive⟩⟩

/-! ### 1. `storeVal` on a linked live entry (tryStoreCas success, storeLocked, losCas success) -/
section StoreVal
variable {sh : Shared K V} {U : List (K × EId)} {k : K} {e0 : EId} {v : V}

theorem GS.amended_of_cur {sh : Shared K V} {U : List (K × EId)} (hG : GS sh U) {k : K} {e : EId} (hcur : Cur sh k e)
    (h : alookup k sh.readM = none) : sh.amended = true := by
  rcases hcur with h1 | ⟨_, h2⟩
  · rw [h] at h1; cases h1
  · exact hG.amended_of_dirty_only h h2

/-- 1(i): every goroutine (the writer included, at its old pc) keeps `T` -/
theorem storeVal_T (hcur : Cur sh k e0) {u : Tid} {pc : Pc K V} {a : APc K V} (hT : T sh u pc a) :
    T (storeVal sh e0 v) u pc a :=
  ((EW_storeVal sh e0 v).xfer_of_cur hcur (Or.inl rfl)).transfer hT

/-- 1(ii) -/
theorem storeVal_GS (hG : GS sh U) (hne : (getP sh e0).isExpunged = false) : GS (storeVal sh e0 v) U :=
  (EW_storeVal sh e0 v).gs_keep hG (fun _ => by rw [hne]; rfl) (fun _ _ _ _ => rfl)

/-- 1(iii) -/
theorem storeVal_absOf (hG : GS sh U) (hU : UOk sh U) (hcur : Cur sh k e0) (k' : K) :
    absOf (storeVal sh e0 v) k' = if k' = k then some v else absOf sh k' := by
  by_cases hk : k' = k
  · rw [if_pos hk, hk, (EW_storeVal sh e0 v).absOf_of_cur (hG.cur_lt_length hcur) hcur (hG.amended_of_cur hcur)]
    rfl
  · rw [if_neg hk]
    exact (EW_storeVal sh e0 v).absOf_of_not_cur (fun h => hk (hG.cur_key_unique hU h hcur))

/-- 1, packaged in the setting of the task -/
theorem storeVal_all {s : State K V} {apcs : Nat → APc K V} (hG : GS s.sh (unprocessed s))
    (hT : ∀ u, T s.sh u (s.pc u) (apcs u)) {k : K} {e0 : EId} (v : V) (hne : (getP s.sh e0).isExpunged = false)
    (hcur : Cur s.sh k e0) :
    (∀ u, T (storeVal s.sh e0 v) u (s.pc u) (apcs u)) ∧ GS (storeVal s.sh e0 v) (unprocessed s) ∧
      ∀ k', absOf (storeVal s.sh e0 v) k' = if k' = k then some v else absOf s.sh k' :=
  ⟨fun u => storeVal_T hcur (hT u), storeVal_GS hG hne, storeVal_absOf hG (uok_of_T hT) hcur⟩

end StoreVal

/-! ### 2. `setP nil` on `read.m[k]` (pending `delCas` success) -/
section DelPending
variable {sh : Shared K V} {U : List (K × EId)} {k : K} {e0 : EId}

/-- 2(i): every goroutine keeps `T` (no hypothesis on the old pointer is needed here) -/
theorem delNil_T (hr : alookup k sh.readM = some e0) {u : Tid} {pc : Pc K V} {a : APc K V} (hT : T sh u pc a) :
    T (setP sh e0 .nil) u pc a :=
  ((EW_setP sh e0 .nil).xfer_of_cur (Cur_of_read hr) (Or.inl rfl)).transfer hT

/-- 2(ii) -/
theorem delNil_GS (hG : GS sh U) (hU : UOk sh U) (hr : alookup k sh.readM = some e0)
    (hval : isVal (getP sh e0) = true) : GS (setP sh e0 .nil) U := by
  apply (EW_setP sh e0 .nil).gs_keep hG
  · intro _; rw [not_isExpunged_of_isVal hval]; rfl
  · intro q hq hn h2
    exfalso
    have h1 : alookup q.1 (dirtyMap sh) = some e0 := h2 ▸ alookup_of_mem' hG.keysD hq
    have h3 := (hG.read_dirty_same_key hU hr h1).1
    rw [h3, hr] at hn
    cases hn

/-- 2(iii) -/
theorem delNil_absOf (hG : GS sh U) (hU : UOk sh U) (hr : alookup k sh.readM = some e0) (k' : K) :
    absOf (setP sh e0 .nil) k' = if k' = k then none else absOf sh k' := by
  have hcur : Cur sh k e0 := Cur_of_read hr
  by_cases hk : k' = k
  · rw [if_pos hk, hk, (EW_setP sh e0 .nil).absOf_of_cur (hG.cur_lt_length hcur) hcur (hG.amended_of_cur hcur)]
    rfl
  · rw [if_neg hk]
    exact (EW_setP sh e0 .nil).absOf_of_not_cur (fun h => hk (hG.cur_key_unique hU h hcur))

/-- 2(iii), the value removed -/
theorem delNil_absOf_before (hr : alookup k sh.readM = some e0) : absOf sh k = (getP sh e0).value? :=
  absOf_of_read hr

theorem delNil_all {s : State K V} {apcs : Nat → APc K V} (hG : GS s.sh (unprocessed s))
    (hT : ∀ u, T s.sh u (s.pc u) (apcs u)) {k : K} {e0 : EId} (hr : alookup k s.sh.readM = some e0)
    (hval : isVal (getP s.sh e0) = true) :
    (∀ u, T (setP s.sh e0 .nil) u (s.pc u) (apcs u)) ∧ GS (setP s.sh e0 .nil) (unprocessed s) ∧
      (∀ k', absOf (setP s.sh e0 .nil) k' = if k' = k then none else absOf s.sh k') ∧
      absOf s.sh k = (getP s.sh e0).value? :=
  ⟨fun u => delNil_T hr (hT u), delNil_GS hG (uok_of_T hT) hr hval, delNil_absOf hG (uok_of_T hT) hr,
    delNil_absOf_before hr⟩

end DelPending

/-! ### 3. `setP nil` on the actor's unlinked entry (`delCas` success in unlinker mode) -/
section DelUnlinked
variable {sh : Shared K V} {U : List (K × EId)} {e0 : EId}

/-- 3(i), shared-state form: a goroutine that has not itself unlinked `e0` keeps `T` -/
theorem unlinkedNil_T (hval : isVal (getP sh e0) = true) {u : Tid} {pc : Pc K V} {a : APc K V}
    (hunl : e0 ∉ unlinkedPc pc a) (hT : T sh u pc a) : T (setP sh e0 .nil) u pc a :=
  ((EW_setP sh e0 .nil).xfer
    (fun h => by have h1 := h.1; rw [not_isExpunged_of_isVal hval] at h1; cases h1)
    (fun _ => rfl) (Or.inr (Or.inr rfl)) (Or.inl rfl) (fun h => absurd h hunl)).transfer hT

theorem unlinkedPc_idle (a : APc K V) : unlinkedPc (Pc.idle : Pc K V) a = [] := by
  cases a <;> rfl

/-- from `GT`: the entry unlinked by `t` is not the entry unlinked by anybody else -/
theorem GT.not_unlinked_other {s : State K V} {apcs : Nat → APc K V} (hg : GT s apcs) {t u : Tid} {e0 : EId}
    (ht : e0 ∈ unlinkedPc (s.pc t) (apcs t)) (hne : u ≠ t) : e0 ∉ unlinkedPc (s.pc u) (apcs u) := by
  intro hu
  have htl : t < s.pcs.length := by
    apply lt_length_of_pc_ne_idle
    intro h; rw [h, unlinkedPc_idle] at ht; cases ht
  have hul : u < s.pcs.length := by
    apply lt_length_of_pc_ne_idle
    intro h; rw [h, unlinkedPc_idle] at hu; cases hu
  exact hg.unlinked t u htl hul (fun h => hne h.symm) e0 ht hu

/-- 3(i): all goroutines but the actor -/
theorem unlinkedNil_T_others {s : State K V} {apcs : Nat → APc K V} (hg : GT s apcs)
    (hT : ∀ u, T s.sh u (s.pc u) (apcs u)) {t : Tid} {e0 : EId} (hval : isVal (getP s.sh e0) = true)
    (ht : e0 ∈ unlinkedPc (s.pc t) (apcs t)) :
    ∀ u, u ≠ t → T (setP s.sh e0 .nil) u (s.pc u) (apcs u) :=
  fun u hne => unlinkedNil_T hval (hg.not_unlinked_other ht hne) (hT u)

/-- 3(ii) -/
theorem unlinkedNil_GS (hG : GS sh U) (hd : e0 ∉ vals (dirtyMap sh)) (hval : isVal (getP sh e0) = true) :
    GS (setP sh e0 .nil) U := by
  apply (EW_setP sh e0 .nil).gs_keep hG
  · intro _; rw [not_isExpunged_of_isVal hval]; rfl
  · intro q hq _ h2
    exact absurd (h2 ▸ mem_vals_of_mem' hq) hd

/-- 3(iii) -/
theorem unlinkedNil_absOf (hr : e0 ∉ vals sh.readM) (hd : e0 ∉ vals (dirtyMap sh)) (k' : K) :
    absOf (setP sh e0 .nil) k' = absOf sh k' :=
  (EW_setP sh e0 .nil).absOf_of_not_cur (fun h => h.mem_vals.elim hr hd)

theorem unlinkedNil_all {s : State K V} {apcs : Nat → APc K V} (hG : GS s.sh (unprocessed s)) (hg : GT s apcs)
    (hT : ∀ u, T s.sh u (s.pc u) (apcs u)) {t : Tid} {e0 : EId} (hr : e0 ∉ vals s.sh.readM)
    (hd : e0 ∉ vals (dirtyMap s.sh)) (hval : isVal (getP s.sh e0) = true)
    (ht : e0 ∈ unlinkedPc (s.pc t) (apcs t)) :
    (∀ u, u ≠ t → T (setP s.sh e0 .nil) u (s.pc u) (apcs u)) ∧ GS (setP s.sh e0 .nil) (unprocessed s) ∧
      ∀ k', absOf (setP s.sh e0 .nil) k' = absOf s.sh k' :=
  ⟨unlinkedNil_T_others hg hT hval ht, unlinkedNil_GS hG hd hval, unlinkedNil_absOf hr hd⟩

end DelUnlinked

/-! ### 4. `setP expunged` by the builder (`expCas` success) -/
section Expunge
variable {sh : Shared K V} {U U' : List (K × EId)} {k' : K} {e' : EId}

/-- 4(i), shared-state form: any goroutine that does not hold the mutex keeps `T` -/
theorem expunge_T (hr : alookup k' sh.readM = some e') {u : Tid} {pc : Pc K V} {a : APc K V} (hno : ¬ Own sh u)
    (hT : T sh u pc a) : T (setP sh e' .expunged) u pc a :=
  ((EW_setP sh e' .expunged).xfer_of_cur (Cur_of_read hr) (Or.inr hno)).transfer hT

/-- 4(i): all goroutines but the builder `t` -/
theorem expunge_T_others (hG : GS sh U) (hU : UOk sh U) (hm : (k', e') ∈ U) {t : Tid} (ho : Own sh t) {u : Tid}
    (hne : u ≠ t) {pc : Pc K V} {a : APc K V} (hT : T sh u pc a) : T (setP sh e' .expunged) u pc a :=
  expunge_T (alookup_of_mem hG.keysR (hU _ hm).1) (not_Own_of_ne ho hne) hT

/-- 4(ii): the pair leaves the unprocessed set (`hds`: the builder's `T` says that the dirty map exists) -/
theorem expunge_GS (hG : GS sh U) (hU : UOk sh U) (hm : (k', e') ∈ U) (hds : sh.dirty.isSome = true)
    (hU' : ∀ q, q ∈ U' ↔ q ∈ U ∧ q ≠ (k', e')) : GS (setP sh e' .expunged) U' := by
  obtain ⟨hmr, hdn, hdv, _⟩ := hU _ hm
  have hlt : e' < sh.entries.length := hG.boundR _ hmr
  have hw := EW_setP sh e' .expunged
  apply hw.gs hG
  · intro q hq hu
    by_cases hq2 : q.2 = e'
    · have hqe : q = (k', e') := hG.read_pair_eq hmr hq hq2
      rw [hq2, hw.getP_self hlt]
      simp only [isExpunged_expunged, if_true]
      rw [hqe]
      exact ⟨hds, hdn, hdv⟩
    · have hqU : q ∉ U := fun h => hu ((hU' q).mpr ⟨h, fun h1 => hq2 (by rw [h1])⟩)
      rw [hw.getP_ne hq2]
      exact hG.readDirty q hq hqU
  · intro q hq hn
    have hq2 : q.2 ≠ e' := fun h => hdv (by rw [← h]; exact mem_vals_of_mem' (p := q) hq)
    rw [hw.getP_ne hq2]
    exact hG.dirtyLive q hq hn

/-- 4(ii'): what is known about the remaining unprocessed pairs is still known -/
theorem expunge_UOk (hG : GS sh U) (hU : UOk sh U) (hm : (k', e') ∈ U)
    (hU' : ∀ q, q ∈ U' ↔ q ∈ U ∧ q ≠ (k', e')) : UOk (setP sh e' .expunged) U' := by
  intro q hq
  obtain ⟨hqU, hqne⟩ := (hU' q).mp hq
  obtain ⟨h1, h2, h3, h4⟩ := hU q hqU
  have hq2 : q.2 ≠ e' := fun h => hqne (hG.read_pair_eq (hU _ hm).1 h1 h)
  exact ⟨h1, h2, h3, by rw [(EW_setP sh e' .expunged).getP_ne hq2]; exact h4⟩

/-- 4(i'): the builder's own `Building` for the rest of its list -/
theorem expunge_building (hG : GS sh U) {todo : List (K × EId)} (hb : Building sh ((k', e') :: todo)) :
    Building (setP sh e' .expunged) todo := by
  refine ⟨hb.tail.1, fun q hq => ?_⟩
  obtain ⟨h1, h2, h3, h4⟩ := hb.tail.2 q hq
  have hq2 : q.2 ≠ e' := by
    intro h
    have hqe : q = (k', e') := hG.read_pair_eq hb.head.1 h1 h
    exact hb.head_not_mem (hqe ▸ hq)
  exact ⟨h1, h2, h3, by rw [(EW_setP sh e' .expunged).getP_ne hq2]; exact h4⟩

/-- 4(iii) -/
theorem expunge_absOf (hnil : (getP sh e').isNil = true) (k : K) : absOf (setP sh e' .expunged) k = absOf sh k :=
  (EW_setP sh e' .expunged).absOf_of_value_eq (fun _ => by rw [value?_none_of_isNil hnil]; rfl) k

theorem expunge_all {s : State K V} {apcs : Nat → APc K V} (hG : GS s.sh (unprocessed s))
    (hT : ∀ u, T s.sh u (s.pc u) (apcs u)) {t : Tid} (ho : Own s.sh t) {k' : K} {e' : EId}
    (hm : (k', e') ∈ unprocessed s) (hnil : (getP s.sh e').isNil = true) {U' : List (K × EId)}
    (hU' : ∀ q, q ∈ U' ↔ q ∈ unprocessed s ∧ q ≠ (k', e')) :
    (∀ u, u ≠ t → T (setP s.sh e' .expunged) u (s.pc u) (apcs u)) ∧ GS (setP s.sh e' .expunged) U' ∧
      UOk (setP s.sh e' .expunged) U' ∧ ∀ k, absOf (setP s.sh e' .expunged) k = absOf s.sh k := by
  have hU := uok_of_T hT
  have hds : s.sh.dirty.isSome = true := by
    obtain ⟨u, hu⟩ := mem_unprocessed'.mp hm
    exact (hT u).dirty_isSome_of_unprocPc (List.ne_nil_of_mem hu)
  exact ⟨fun u hne => expunge_T_others hG hU hm ho hne (hT u), expunge_GS hG hU hm hds hU', expunge_UOk hG hU hm hU',
    expunge_absOf hnil⟩

end Expunge

/-! ### 5. un-expunge (`storeUnexp` / `losUnexp` on an expunged entry): `setP nil` then `setDirty` -/
section Unexp
variable {sh : Shared K V} {U : List (K × EId)} {k : K} {e : EId}

theorem unexp_readM (sh : Shared K V) (k : K) (e : EId) : (setDirty (setP sh e .nil) k e).readM = sh.readM := by simp
theorem unexp_amended (sh : Shared K V) (k : K) (e : EId) :
    (setDirty (setP sh e .nil) k e).amended = sh.amended := by simp
theorem unexp_length (sh : Shared K V) (k : K) (e : EId) :
    (setDirty (setP sh e .nil) k e).entries.length = sh.entries.length := by simp
theorem unexp_mu (sh : Shared K V) (k : K) (e : EId) : (setDirty (setP sh e .nil) k e).mu = sh.mu := by simp

theorem unexp_getP (hlt : e < sh.entries.length) (x : EId) :
    getP (setDirty (setP sh e .nil) k e) x = if x = e then .nil else getP sh x := by
  rw [getP_setDirty, getP_setP]
  simp [hlt]

theorem unexp_dirtyMap (hds : sh.dirty.isSome = true) :
    dirtyMap (setDirty (setP sh e .nil) k e) = ainsert k e (dirtyMap sh) :=
  dirtyMap_setDirty_of_isSome (sh := setP sh e .nil) hds k e

theorem unexp_dirty_isSome (hds : sh.dirty.isSome = true) : (setDirty (setP sh e .nil) k e).dirty.isSome = true := by
  simp [hds]

/-- what `GS` (nobody is building) says about the expunged entry `read.m[k]` -/
theorem unexp_pre (hG : GS sh U) (hempty : ∀ p, p ∉ U) (hr : alookup k sh.readM = some e)
    (hx : (getP sh e).isExpunged = true) :
    sh.dirty.isSome = true ∧ alookup k (dirtyMap sh) = none ∧ e ∉ vals (dirtyMap sh) ∧ e < sh.entries.length :=
  let h := hG.read_expunged_not_in_dirty hr (hempty _) hx
  ⟨h.1, h.2.1, h.2.2, hG.boundR _ (mem_of_alookup hr)⟩

/-- 5(i), shared-state form: any goroutine that does not hold the mutex keeps `T` -/
theorem unexp_T (hG : GS sh U) (hempty : ∀ p, p ∉ U) (hr : alookup k sh.readM = some e)
    (hx : (getP sh e).isExpunged = true) {u : Tid} {pc : Pc K V} {a : APc K V} (hno : ¬ Own sh u)
    (hT : T sh u pc a) : T (setDirty (setP sh e .nil) k e) u pc a := by
  obtain ⟨hds, hdn, _, _⟩ := unexp_pre hG hempty hr hx
  have h1 : T (setP sh e .nil) u pc a :=
    ((EW_setP sh e .nil).xfer_of_cur (Cur_of_read hr) (Or.inl rfl)).transfer hT
  exact (xfer_setDirty (sh := setP sh e .nil) hds hr hdn hno).transfer h1

/-- 5(i): all goroutines but the owner `t` -/
theorem unexp_T_others (hG : GS sh U) (hempty : ∀ p, p ∉ U) (hr : alookup k sh.readM = some e)
    (hx : (getP sh e).isExpunged = true) {t : Tid} (ho : Own sh t) {u : Tid} (hne : u ≠ t) {pc : Pc K V}
    {a : APc K V} (hT : T sh u pc a) : T (setDirty (setP sh e .nil) k e) u pc a :=
  unexp_T hG hempty hr hx (not_Own_of_ne ho hne) hT

/-- 5(ii) -/
theorem unexp_GS (hG : GS sh U) (hempty : ∀ p, p ∉ U) (hr : alookup k sh.readM = some e)
    (hx : (getP sh e).isExpunged = true) : GS (setDirty (setP sh e .nil) k e) U := by
  obtain ⟨hds, hdn, hev, hlt⟩ := unexp_pre hG hempty hr hx
  have hmemd : ∀ q, q ∈ ainsert k e (dirtyMap sh) ↔ q ∈ dirtyMap sh ∨ q = (k, e) := fun q => mem_ainsert_of_none hdn
  have hvl : ∀ x, x ∈ vals (ainsert k e (dirtyMap sh)) ↔ x ∈ vals (dirtyMap sh) ∨ x = e :=
    fun x => mem_vals_ainsert_of_none hdn
  have hmr : (k, e) ∈ sh.readM := mem_of_alookup hr
  refine
    { keysR := by rw [unexp_readM]; exact hG.keysR
      valsR := by rw [unexp_readM]; exact hG.valsR
      keysD := by rw [unexp_dirtyMap hds]; exact nodup_ainsert hG.keysD
      valsD := by rw [unexp_dirtyMap hds]; exact nodup_vals_ainsert_of_none hdn hev hG.valsD
      boundR := by rw [unexp_readM, unexp_length]; exact hG.boundR
      boundD := ?_
      s1 := ?_
      nofault := ?_
      readDirty := ?_
      dirtySub := ?_
      dirtyLive := ?_ }
  · rw [unexp_dirtyMap hds, unexp_length]
    intro q hq
    rcases (hmemd q).mp hq with h | h
    · exact hG.boundD q h
    · rw [h]; exact hlt
  · intro h
    have := unexp_dirty_isSome (k := k) (e := e) hds
    rw [h] at this; cases this
  · have h1 : (setDirty (setP sh e .nil) k e).fault = (setP sh e .nil).fault :=
      setDirty_fault_of_isSome (sh := setP sh e .nil) hds k e
    rw [h1]; exact hG.nofault
  · rw [unexp_readM, unexp_dirtyMap hds, unexp_dirty_isSome hds]
    intro q hq _
    by_cases hq2 : q.2 = e
    · have hqe : q = (k, e) := hG.read_pair_eq hmr hq hq2
      rw [hqe, unexp_getP hlt]
      simp only [if_true, isExpunged_nil]
      intro _
      rw [alookup_ainsert]; simp
    · have hk : q.1 ≠ k := by
        intro h
        have h1 := alookup_of_mem' hG.keysR hq
        rw [h, hr] at h1
        exact hq2 (Option.some.inj h1).symm
      have old := hG.readDirty q hq (hempty q)
      rw [unexp_getP hlt, if_neg hq2, alookup_ainsert, if_neg hk]
      cases hxq : (getP sh q.2).isExpunged with
      | true =>
        simp only [hxq, if_true] at old ⊢
        exact ⟨trivial, old.2.1, fun h => ((hvl _).mp h).elim old.2.2 hq2⟩
      | false =>
        simp only [hxq] at old ⊢
        intro _; exact old hds
  · rw [unexp_amended, unexp_dirtyMap hds, unexp_readM]
    intro ha q hq
    rcases (hmemd q).mp hq with h | h
    · exact hG.dirtySub ha q h
    · rw [h]; exact hr
  · rw [unexp_dirtyMap hds, unexp_readM]
    intro q hq hn
    rcases (hmemd q).mp hq with h | h
    · have hq2 : q.2 ≠ e := fun h1 => hev (h1 ▸ mem_vals_of_mem' h)
      rw [unexp_getP hlt, if_neg hq2]
      exact hG.dirtyLive q h hn
    · rw [h] at hn
      have hn' : alookup k sh.readM = none := hn
      rw [hr] at hn'; cases hn'

/-- 5(ii), the facts the next pc (`storeLocked` / `losLoad slowRead`) needs -/
theorem unexp_facts (hG : GS sh U) (hempty : ∀ p, p ∉ U) (hr : alookup k sh.readM = some e)
    (hx : (getP sh e).isExpunged = true) :
    (setDirty (setP sh e .nil) k e).dirty.isSome = true ∧
    alookup k (dirtyMap (setDirty (setP sh e .nil) k e)) = some e ∧
    (getP (setDirty (setP sh e .nil) k e) e).isExpunged = false ∧
    (setDirty (setP sh e .nil) k e).fault = false := by
  obtain ⟨hds, hdn, hev, hlt⟩ := unexp_pre hG hempty hr hx
  refine ⟨unexp_dirty_isSome hds, ?_, ?_, (unexp_GS hG hempty hr hx).nofault⟩
  · rw [unexp_dirtyMap hds, alookup_ainsert]; simp
  · rw [unexp_getP hlt]; simp

/-- 5(iii) -/
theorem unexp_absOf (hG : GS sh U) (hempty : ∀ p, p ∉ U) (hr : alookup k sh.readM = some e)
    (hx : (getP sh e).isExpunged = true) (k' : K) :
    absOf (setDirty (setP sh e .nil) k e) k' = absOf sh k' := by
  obtain ⟨hds, hdn, hev, hlt⟩ := unexp_pre hG hempty hr hx
  have hval : ∀ x, (getP (setDirty (setP sh e .nil) k e) x).value? = (getP sh x).value? := by
    intro x
    rw [unexp_getP hlt]
    by_cases hxe : x = e
    · rw [if_pos hxe, hxe, value?_none_of_isExpunged hx]; rfl
    · rw [if_neg hxe]
  unfold absOf
  rw [unexp_readM, unexp_amended, unexp_dirtyMap hds]
  cases hr' : alookup k' sh.readM with
  | some e1 => simp only [hval]
  | none =>
    have hk : k' ≠ k := by rintro rfl; rw [hr] at hr'; cases hr'
    simp only [hval, alookup_ainsert, if_neg hk]

theorem unexp_all {s : State K V} {apcs : Nat → APc K V} (hG : GS s.sh (unprocessed s))
    (hT : ∀ u, T s.sh u (s.pc u) (apcs u)) {t : Tid} (ho : Own s.sh t) (hempty : ∀ p, p ∉ unprocessed s)
    {k : K} {e : EId} (hr : alookup k s.sh.readM = some e) (hx : (getP s.sh e).isExpunged = true) :
    (∀ u, u ≠ t → T (setDirty (setP s.sh e .nil) k e) u (s.pc u) (apcs u)) ∧
    GS (setDirty (setP s.sh e .nil) k e) (unprocessed s) ∧
    ((setDirty (setP s.sh e .nil) k e).dirty.isSome = true ∧
      alookup k (dirtyMap (setDirty (setP s.sh e .nil) k e)) = some e ∧
      (getP (setDirty (setP s.sh e .nil) k e) e).isExpunged = false ∧
      (setDirty (setP s.sh e .nil) k e).fault = false) ∧
    ∀ k', absOf (setDirty (setP s.sh e .nil) k e) k' = absOf s.sh k' :=
  ⟨fun u hne => unexp_T_others hG hempty hr hx ho hne (hT u), unexp_GS hG hempty hr hx,
    unexp_facts hG hempty hr hx, unexp_absOf hG hempty hr hx⟩

end Unexp

/-! ### conveniences for the callers (how the writers obtain the hypotheses above from their own `T`) -/
section Callers
variable {sh : Shared K V} {U : List (K × EId)} {k : K} {e : EId}

/-- a held `read` entry that is not expunged is still `read.m[k]` (tryStoreCas / losCas `.fast` success) -/
theorem HoldRead.read_of_not_expunged (h : HoldRead sh k e) (hx : (getP sh e).isExpunged = false) :
    alookup k sh.readM = some e := by
  rcases h.2 with h1 | h1
  · exact h1
  · have := h1.1; rw [hx] at this; cases this

/-- the same for a pending `delete()` whose CAS found a value (`delCas` success, pending mode) -/
theorem HoldDel.read_of_not_expunged {d : Bool} {a : APc K V} (h : HoldDel sh d k e a)
    (hx : (getP sh e).isExpunged = false) : alookup k sh.readM = some e := by
  rcases h.2 with h1 | h1
  · exact h1
  · have := h1.1.1; rw [hx] at this; cases this

/-- the target of `storeLocked` is not expunged -/
theorem StoreTarget.not_expunged (hG : GS sh U) (h : StoreTarget sh k e) : (getP sh e).isExpunged = false := by
  rcases h with h | ⟨h1, h2⟩
  · exact h.2
  · exact not_isExpunged_of_isVal (hG.dirtyLive (k, e) (mem_of_alookup h2) h1)

/-- the entry of `tryLoadOrStore` in its three contexts is the current one once it is known not to be expunged -/
theorem LosHold.cur_of_not_expunged {t : Tid} {c : LosCtx} (h : LosHold sh t c k e)
    (hx : (getP sh e).isExpunged = false) : Cur sh k e := by
  cases c with
  | fast => exact Cur_of_read (h.2.read_of_not_expunged hx)
  | slowRead => exact Cur_of_read h.2.1
  | slowDirty => exact Cur_of_dirty h.2.1 h.2.2

/-- predicates of the owner that do not look at the entries at all -/
theorem NewTail_setP (sh : Shared K V) (e0 : EId) (p : Ptr V) (t : Tid) (c : NewCtx) (k : K) (v : V)
    (rm : List (K × EId)) (a : APc K V) : NewTail (setP sh e0 p) t c k v rm a ↔ NewTail sh t c k v rm a := Iff.rfl
theorem Promoting_setP (sh : Shared K V) (e0 : EId) (p : Ptr V) (t : Tid) :
    Promoting (setP sh e0 p) t ↔ Promoting sh t := Iff.rfl
theorem NewTail_storeVal (sh : Shared K V) (e0 : EId) (w : V) (t : Tid) (c : NewCtx) (k : K) (v : V)
    (rm : List (K × EId)) (a : APc K V) : NewTail (storeVal sh e0 w) t c k v rm a ↔ NewTail sh t c k v rm a := Iff.rfl
theorem Promoting_storeVal (sh : Shared K V) (e0 : EId) (w : V) (t : Tid) :
    Promoting (storeVal sh e0 w) t ↔ Promoting sh t := Iff.rfl

end Callers

end TypVerif.Lemmas.Smc
