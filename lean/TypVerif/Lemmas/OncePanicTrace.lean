import TypVerif.Lemmas.OncePanic
/-
Trace-level consequences of the invariants of the Once system with panicking functions: what the labels of an
execution say about its final state.
-/
namespace TypVerif.Lemmas.OncePanic
open TypVerif TypVerif.Conc TypVerif.Model TypVerif.Model.OncePanic

theorem visible_cons {ε : Type} (l : Option ε) (ls : List (Option ε)) :
    visible (l :: ls) = visible [l] ++ visible ls := by
  cases l <;> rfl

/-! ### stability along executions -/

theorem exec_fres_stable {n a : Nat} {res : Nat → List Int} {s s' : (sys n a res).State} {ls : List (Option Event)}
    (h : Exec (sys n a res) s ls s') : Inv a s → ∀ r, s.base.fres = some r → s'.base.fres = some r := by
  induction h with
  | nil s => exact fun _ _ h => h
  | cons hm _ ih => exact fun hi r hr => ih (inv_step hi hm) r (step_fres_stable hi hm hr)

theorem exec_panicked_mono {n a : Nat} {res : Nat → List Int} {s s' : (sys n a res).State} {ls : List (Option Event)}
    (h : Exec (sys n a res) s ls s') : ∀ t, t ∈ s.panicked → t ∈ s'.panicked := by
  induction h with
  | nil s => exact fun _ h => h
  | cons hm _ ih => exact fun t ht => ih t (step_panicked_mono hm ht)

theorem exec_returned_stable {n a : Nat} {res : Nat → List Int} {s s' : (sys n a res).State} {ls : List (Option Event)}
    (h : Exec (sys n a res) s ls s') : ∀ t, s.base.pc t = .returned → s'.base.pc t = .returned := by
  induction h with
  | nil s => exact fun _ h => h
  | cons hm _ ih => exact fun t ht => ih t (step_returned_stable hm ht)

/-- once the invocation has ended nobody panics any more -/
theorem exec_panicked_const {n a : Nat} {res : Nat → List Int} {s s' : (sys n a res).State} {ls : List (Option Event)}
    (h : Exec (sys n a res) s ls s') : Inv a s → s.base.fres.isSome = true → s'.panicked = s.panicked := by
  induction h with
  | nil s => exact fun _ _ => rfl
  | @cons s s1 s2 l ls hm _ ih =>
    intro hi he
    obtain ⟨r, hr⟩ := Option.isSome_iff_exists.mp he
    have h1 : s1.panicked = s.panicked := by
      rcases step_cases hm with ⟨_, _, _, _, _, _, hp⟩ | ⟨t0, _, hpc, _, _⟩
      · exact hp
      · rw [(inF_facts hi hpc).1] at hr; cases hr
    rw [ih (inv_step hi hm) (by rw [step_fres_stable hi hm hr]; rfl), h1]

/-! ### what a label in the execution implies for the final state -/

theorem exec_fpanic {n a : Nat} {res : Nat → List Int} {s s' : (sys n a res).State} {ls : List (Option Event)}
    (h : Exec (sys n a res) s ls s') : Inv a s → ∀ t, some (Event.fpanic t) ∈ ls →
      t ∈ s'.panicked ∧ s'.base.fres = some (List.replicate a 0) := by
  induction h with
  | nil s => intro _ t h; cases h
  | @cons s s1 s2 l ls hm htail ih =>
    intro hi t hmem
    rcases List.mem_cons.mp hmem with e | hin
    · subst e
      have h1 := step_fpanic hi hm
      have hp := exec_panicked_mono htail t h1.2.2.1
      exact ⟨hp, ((inv_exec htail (inv_step hi hm)).pan t hp).1⟩
    · exact ih (inv_step hi hm) t hin

theorem exec_fend {n a : Nat} {res : Nat → List Int} {s s' : (sys n a res).State} {ls : List (Option Event)}
    (h : Exec (sys n a res) s ls s') : Inv a s → ∀ t r, some (Event.fend t r) ∈ ls →
      s'.base.fres = some r := by
  induction h with
  | nil s => intro _ t r h; cases h
  | @cons s s1 s2 l ls hm htail ih =>
    intro hi t r hmem
    rcases List.mem_cons.mp hmem with e | hin
    · subst e
      exact exec_fres_stable htail (inv_step hi hm) r (step_fend hi hm).2.2.1
    · exact ih (inv_step hi hm) t r hin

theorem exec_ret {n a : Nat} {res : Nat → List Int} {s s' : (sys n a res).State} {ls : List (Option Event)}
    (h : Exec (sys n a res) s ls s') : Inv a s → ∀ u r, some (Event.ret u r) ∈ ls →
      s'.base.fres = some r ∧ s'.base.pc u = .returned := by
  induction h with
  | nil s => intro _ u r h; cases h
  | @cons s s1 s2 l ls hm htail ih =>
    intro hi u r hmem
    rcases List.mem_cons.mp hmem with e | hin
    · subst e
      have h1 := step_ret hi hm
      exact ⟨exec_fres_stable htail (inv_step hi hm) r (step_fres_stable hi hm h1.1),
        exec_returned_stable htail u h1.2.1⟩
    · exact ih (inv_step hi hm) u r hin

/-! ### counting -/

theorem step_invoked {res : Nat → List Int} {s s' : State} {l : Option Event}
    (hmem : (l, s') ∈ succ res s) :
    s'.base.invoked.length = s.base.invoked.length + (visible [l]).countP Event.isFstart := by
  rcases step_cases hmem with ⟨t0, lb, ht0, _, hb, hl, _⟩ | ⟨t0, _, _, hl, rfl⟩
  · have hbm : (lb, s'.base) ∈ Once.succ res s.base := Once.mem_succ.mpr ⟨t0, ht0, hb⟩
    by_cases hf : ∃ t, lb = some (Once.Event.fstart t)
    · obtain ⟨t, rfl⟩ := hf
      rw [(Once.fstart_step hbm).2, hl]
      simp [Event.ofBase, Event.isFstart]
    · have hfr := Once.invoked_frame hbm (fun t e => hf ⟨t, e⟩)
      rw [hfr, hl]
      cases lb with
      | none => simp
      | some e =>
        cases e with
        | fstart t => exact absurd ⟨t, rfl⟩ hf
        | _ => simp [Event.ofBase, Event.isFstart]
  · subst hl
    simp [afterPanic, Once.State.setPc, Event.isFstart]

theorem exec_invoked {n a : Nat} {res : Nat → List Int} {s s' : (sys n a res).State} {ls : List (Option Event)}
    (h : Exec (sys n a res) s ls s') :
    s'.base.invoked.length = s.base.invoked.length + (visible ls).countP Event.isFstart := by
  induction h with
  | nil s => simp
  | @cons s s1 s2 l ls hm _ ih =>
    rw [ih, step_invoked hm, visible_cons l ls, List.countP_append]
    omega

/-- a step either is THE end of the invocation (nothing recorded before, something after) or leaves the
record alone -/
theorem step_end {a : Nat} {res : Nat → List Int} {s s' : State} {l : Option Event}
    (hi : Inv a s) (hmem : (l, s') ∈ succ res s) :
    ((visible [l]).countP Event.isEnd = 1 ∧ s.base.fres = none ∧ s'.base.fres.isSome = true ∧
        ∃ e, l = some e ∧ e.isEnd = true) ∨
    ((visible [l]).countP Event.isEnd = 0 ∧ s'.base.fres = s.base.fres) := by
  cases l with
  | none => right; exact ⟨by simp, step_fres_frame hmem (by simp) (by simp)⟩
  | some e =>
    cases e with
    | fend t r =>
      left
      have := step_fend hi hmem
      exact ⟨by simp [Event.isEnd], this.1, by rw [this.2.2.1]; rfl, _, rfl, rfl⟩
    | fpanic t =>
      left
      have := step_fpanic hi hmem
      exact ⟨by simp [Event.isEnd], this.1, by rw [this.2.2.2]; rfl, _, rfl, rfl⟩
    | _ => right; exact ⟨by simp [Event.isEnd], step_fres_frame hmem (by simp) (by simp)⟩

theorem exec_end_count {n a : Nat} {res : Nat → List Int} {s s' : (sys n a res).State} {ls : List (Option Event)}
    (h : Exec (sys n a res) s ls s') : Inv a s →
    (visible ls).countP Event.isEnd ≤ (if s.base.fres.isSome then 0 else 1) := by
  induction h with
  | nil s => intro _; simp
  | @cons s s1 s2 l ls hm _ ih =>
    intro hi
    have h1 := ih (inv_step hi hm)
    rw [visible_cons l ls, List.countP_append]
    rcases step_end hi hm with ⟨hc, h0, hs, _⟩ | ⟨hc, hf⟩
    · have h2 : (visible ls).countP Event.isEnd ≤ 0 := by simpa [hs] using h1
      rw [h0, hc]
      simp only [Option.isSome_none, Bool.false_eq_true, if_false]
      omega
    · rw [hf] at h1
      rw [hc]
      omega

/-- if the record is empty at the start and filled at the end, the execution contains the end event -/
theorem exec_ended {n a : Nat} {res : Nat → List Int} {s s' : (sys n a res).State} {ls : List (Option Event)}
    (h : Exec (sys n a res) s ls s') : Inv a s → s.base.fres = none → s'.base.fres.isSome = true →
    ∃ e, some e ∈ ls ∧ e.isEnd = true := by
  induction h with
  | nil s => intro _ h0 h1; rw [h0] at h1; cases h1
  | @cons s s1 s2 l ls hm _ ih =>
    intro hi h0 h1
    rcases step_end hi hm with ⟨_, _, _, e, rfl, he⟩ | ⟨_, hf⟩
    · exact ⟨e, List.mem_cons_self, he⟩
    · obtain ⟨e, hin, he⟩ := ih (inv_step hi hm) (hf.trans h0) h1
      exact ⟨e, List.mem_cons_of_mem _ hin, he⟩

end TypVerif.Lemmas.OncePanic
