import TypVerif.Lemmas.ListOps4
/-
Traversals, the per-line simulation `step_sim`, and the whole-script refinement.
-/
namespace TypVerif.Lemmas.LinkedList
open TypVerif.Spec.ListOp
open TypVerif.Spec.Seq
open TypVerif.Model
open TypVerif.Model.LinkedList

/-! ### traversals -/

theorem walk_next {h : Heap} {w : World} (hs : Sim h w) (l : ListId) : ∀ (fuel : Nat) (rem pre : List ElemId),
    w.lists.get l = pre ++ rem →
    walk elemNext fuel (optPtr rem.head?) h = .ok ((rem.take fuel).map Ptr.elem) h
  | 0, _, _, _ => rfl
  | k + 1, [], _, _ => rfl
  | k + 1, x :: rem, pre, hl => by
    show walk elemNext (k + 1) (.elem x) h = _
    unfold walk
    rw [if_neg (elem_ne_null x), bind_ok (elemNext_run hs x), specNext_split hs hl,
      bind_ok (walk_next hs l k rem (pre ++ [x]) (by rw [hl]; simp))]
    rfl

theorem walk_prev {h : Heap} {w : World} (hs : Sim h w) (l : ListId) : ∀ (fuel : Nat) (rem post : List ElemId),
    w.lists.get l = rem.reverse ++ post →
    walk elemPrev fuel (optPtr rem.head?) h = .ok ((rem.take fuel).map Ptr.elem) h
  | 0, _, _, _ => rfl
  | k + 1, [], _, _ => rfl
  | k + 1, x :: rem, post, hl => by
    show walk elemPrev (k + 1) (.elem x) h = _
    unfold walk
    have hl' : w.lists.get l = rem.reverse ++ x :: post := by rw [hl]; simp
    rw [if_neg (elem_ne_null x), bind_ok (elemPrev_run hs x), specPrev_split hs hl', List.getLast?_reverse,
      bind_ok (walk_prev hs l k rem (x :: post) hl')]
    rfl

theorem fwd_run {h : Heap} {w : World} (hs : Sim h w) (l : ListId) (fuel : Nat) :
    fwd l fuel h = .ok (((w.lists.get l).take fuel).map Ptr.elem) h := by
  unfold fwd
  rw [bind_ok (front_run hs l)]
  exact walk_next hs l fuel (w.lists.get l) [] rfl

theorem bwd_run {h : Heap} {w : World} (hs : Sim h w) (l : ListId) (fuel : Nat) :
    bwd l fuel h = .ok (((w.lists.get l).reverse.take fuel).map Ptr.elem) h := by
  unfold bwd
  rw [bind_ok (back_run hs l), ← List.head?_reverse]
  exact walk_prev hs l fuel (w.lists.get l).reverse [] (by simp)

/-! ### one line of the protocol -/

theorem step_ok {h h' : Heap} {op : Op} {r : Res} (hr : runOp op h = .ok r h') : LinkedList.step h op = (h', r) := by
  unfold LinkedList.step; rw [hr]

theorem step_panic {h h' : Heap} {op : Op} {m : String} (hr : runOp op h = .panic m h') :
    LinkedList.step h op = (h', .panic m) := by
  unfold LinkedList.step; rw [hr]

theorem agree_map {α : Type} {m : M α} {h : Heap} {w' : World} {a : α} (f : α → Res)
    (hag : Agree (m h) w' a) : ∃ h', (m >>= fun x => pure (f x)) h = .ok (f a) h' ∧ Sim h' w' := by
  obtain ⟨h', hr, hs'⟩ := hag
  exact ⟨h', by rw [bind_ok hr]; rfl, hs'⟩

theorem agreeP_map {α : Type} {m : M α} {h : Heap} {w' : World} (f : α → Res)
    (hag : AgreeP (m h) w') : ∃ h', (m >>= fun x => pure (f x)) h = .panic "nilfunc" h' ∧ Sim h' w' := by
  obtain ⟨h', hr, hs'⟩ := hag
  exact ⟨h', by rw [bind_panic hr], hs'⟩

/-- conclusion of the per-line simulation -/
def StepOK (h : Heap) (w : World) (op : Op) : Prop :=
  Sim (LinkedList.step h op).1 (Spec.Seq.step w op).1 ∧ (LinkedList.step h op).2 = (Spec.Seq.step w op).2

theorem stepOK_of_ok {h h' : Heap} {w : World} {op : Op} {r : Res} (hr : runOp op h = .ok r h')
    (hs' : Sim h' (Spec.Seq.step w op).1) (hres : (Spec.Seq.step w op).2 = r) : StepOK h w op := by
  unfold StepOK
  rw [step_ok hr]
  exact ⟨hs', hres.symm⟩

theorem stepOK_of_panic {h h' : Heap} {w : World} {op : Op} (hr : runOp op h = .panic "nilfunc" h')
    (hs' : Sim h' (Spec.Seq.step w op).1) (hres : (Spec.Seq.step w op).2 = .panic "nilfunc") : StepOK h w op := by
  unfold StepOK
  rw [step_panic hr]
  exact ⟨hs', hres.symm⟩

theorem clearOwners_nil (o : Store (Option ListId)) : clearOwners [] o = o := rfl

theorem step_sim {h : Heap} {w : World} (hs : Sim h w) (op : Op)
    (hinit : ∀ l, op = .init l → w.lists.get l = []) : StepOK h w op := by
  cases op with
  | init l =>
    have hxs := hinit l rfl
    obtain ⟨h', hr, hs', _⟩ := init_sim hs hxs
    refine stepOK_of_ok (r := .unit) (h' := h') ?_ ?_ rfl
    · show (init l >>= fun _ => pure Res.unit) h = _
      rw [bind_ok hr]; rfl
    · apply hs'.congr
      · intro l'
        show (w.lists.set l []).get l' = _
        rw [Store.get_set]; split
        · next hl => rw [hl, hxs]
        · rfl
      · intro e
        show (clearOwners (w.lists.get l) w.owner).get e = _
        rw [hxs]; rfl
      · intro e; rfl
      · rfl
  | pushFront l v =>
    obtain ⟨h', hr, hs'⟩ := agree_map Res.ptr (pushFront_sim hs l v)
    exact stepOK_of_ok hr hs' rfl
  | pushBack l v =>
    obtain ⟨h', hr, hs'⟩ := agree_map Res.ptr (pushBack_sim hs l v)
    exact stepOK_of_ok hr hs' rfl
  | insertBefore l v mark =>
    cases mark with
    | none => exact stepOK_of_panic (h' := h) rfl hs rfl
    | some m =>
      obtain ⟨h', hr, hs'⟩ := agree_map Res.ptr (insertBefore_sim hs l v m)
      refine stepOK_of_ok hr hs' ?_
      simp only [Spec.Seq.step]
      split <;> rfl
  | insertAfter l v mark =>
    cases mark with
    | none => exact stepOK_of_panic (h' := h) rfl hs rfl
    | some m =>
      obtain ⟨h', hr, hs'⟩ := agree_map Res.ptr (insertAfter_sim hs l v m)
      refine stepOK_of_ok hr hs' ?_
      simp only [Spec.Seq.step]
      split <;> rfl
  | remove l e =>
    cases e with
    | none => exact stepOK_of_panic (h' := h) rfl hs rfl
    | some x =>
      obtain ⟨h', hr, hs'⟩ := agree_map Res.int (removeM_sim hs l x)
      refine stepOK_of_ok hr hs' ?_
      simp only [Spec.Seq.step]
      split <;> rfl
  | moveToFront l e =>
    cases e with
    | none => exact stepOK_of_panic (h' := h) rfl hs rfl
    | some x =>
      obtain ⟨h', hr, hs'⟩ := agree_map (fun _ => Res.unit) (moveToFront_sim hs l x)
      refine stepOK_of_ok hr hs' ?_
      simp only [Spec.Seq.step]
      split <;> rfl
  | moveToBack l e =>
    cases e with
    | none => exact stepOK_of_panic (h' := h) rfl hs rfl
    | some x =>
      obtain ⟨h', hr, hs'⟩ := agree_map (fun _ => Res.unit) (moveToBack_sim hs l x)
      refine stepOK_of_ok hr hs' ?_
      simp only [Spec.Seq.step]
      split <;> rfl
  | moveBefore l e mark =>
    cases e with
    | none => exact stepOK_of_panic (h' := h) rfl hs rfl
    | some x =>
      rcases moveBefore_sim hs l x mark with ⟨hres, hag⟩ | ⟨hres, hag⟩
      · obtain ⟨h', hr, hs'⟩ := agree_map (fun _ => Res.unit) hag
        exact stepOK_of_ok hr hs' hres
      · obtain ⟨h', hr, hs'⟩ := agreeP_map (fun _ => Res.unit) hag
        exact stepOK_of_panic hr hs' hres
  | moveAfter l e mark =>
    cases e with
    | none => exact stepOK_of_panic (h' := h) rfl hs rfl
    | some x =>
      rcases moveAfter_sim hs l x mark with ⟨hres, hag⟩ | ⟨hres, hag⟩
      · obtain ⟨h', hr, hs'⟩ := agree_map (fun _ => Res.unit) hag
        exact stepOK_of_ok hr hs' hres
      · obtain ⟨h', hr, hs'⟩ := agreeP_map (fun _ => Res.unit) hag
        exact stepOK_of_panic hr hs' hres
  | pushBackList l o =>
    obtain ⟨h', hr, hs'⟩ := agree_map Res.int (pushBackList_sim hs l o)
    exact stepOK_of_ok hr hs' rfl
  | pushFrontList l o =>
    obtain ⟨h', hr, hs'⟩ := agree_map Res.int (pushFrontList_sim hs l o)
    exact stepOK_of_ok hr hs' rfl
  | len l =>
    refine stepOK_of_ok (h' := h) ?_ hs rfl
    show (len l >>= fun n => pure (Res.int n)) h = _
    rw [bind_ok (len_run hs l)]; rfl
  | front l =>
    refine stepOK_of_ok (h' := h) ?_ hs rfl
    show (front l >>= fun p => pure (Res.ptr p)) h = _
    rw [bind_ok (front_run hs l)]; rfl
  | back l =>
    refine stepOK_of_ok (h' := h) ?_ hs rfl
    show (back l >>= fun p => pure (Res.ptr p)) h = _
    rw [bind_ok (back_run hs l)]; rfl
  | next e =>
    cases e with
    | none => exact stepOK_of_panic (h' := h) rfl hs rfl
    | some x =>
      have hr : runOp (.next (some x)) h = .ok (.ptr (specNext w x)) h := by
        show (elemNext (.elem x) >>= fun p => pure (Res.ptr p)) h = _
        rw [bind_ok (elemNext_run hs x)]; rfl
      have e1 : (Spec.Seq.step w (.next (some x))).1 = w := by
        simp only [Spec.Seq.step]; cases w.owner.get x <;> rfl
      refine stepOK_of_ok hr (by rw [e1]; exact hs) ?_
      simp only [Spec.Seq.step, specNext]
      cases w.owner.get x <;> rfl
  | prev e =>
    cases e with
    | none => exact stepOK_of_panic (h' := h) rfl hs rfl
    | some x =>
      have hr : runOp (.prev (some x)) h = .ok (.ptr (specPrev w x)) h := by
        show (elemPrev (.elem x) >>= fun p => pure (Res.ptr p)) h = _
        rw [bind_ok (elemPrev_run hs x)]; rfl
      have e1 : (Spec.Seq.step w (.prev (some x))).1 = w := by
        simp only [Spec.Seq.step]; cases w.owner.get x <;> rfl
      refine stepOK_of_ok hr (by rw [e1]; exact hs) ?_
      simp only [Spec.Seq.step, specPrev]
      cases w.owner.get x <;> rfl
  | value e =>
    cases e with
    | none => exact stepOK_of_panic (h' := h) rfl hs rfl
    | some x =>
      refine stepOK_of_ok (h' := h) ?_ hs rfl
      show (getValue (.elem x) >>= fun v => pure (Res.int v)) h = _
      rw [bind_ok (getValue_ok _ (elem_ne_null x)), hs.value]; rfl
  | fwd l fuel =>
    refine stepOK_of_ok (h' := h) ?_ hs rfl
    show (fwd l fuel >>= fun ps => pure (Res.ptrs ps)) h = _
    rw [bind_ok (fwd_run hs l fuel)]; rfl
  | bwd l fuel =>
    refine stepOK_of_ok (h' := h) ?_ hs rfl
    show (bwd l fuel >>= fun ps => pure (Res.ptrs ps)) h = _
    rw [bind_ok (bwd_run hs l fuel)]; rfl

/-! ### whole scripts -/

theorem noInit_head {w : World} {op : Op} {ops : List Op} (hn : NoInitOnNonEmpty w (op :: ops)) :
    (∀ l, op = .init l → w.lists.get l = []) ∧ NoInitOnNonEmpty (Spec.Seq.step w op).1 ops := by
  refine ⟨?_, hn.2⟩
  intro l hl
  subst hl
  exact hn.1

theorem run_sim : ∀ (ops : List Op) {h : Heap} {w : World}, Sim h w → NoInitOnNonEmpty w ops →
    LinkedList.run h ops = Spec.Seq.run w ops
  | [], _, _, _, _ => rfl
  | op :: ops, h, w, hs, hn => by
    obtain ⟨h1, h2⟩ := noInit_head hn
    obtain ⟨s1, s2⟩ := step_sim hs op h1
    simp only [LinkedList.run, Spec.Seq.run, s2, run_sim ops s1 h2]

theorem final_sim : ∀ (ops : List Op) {h : Heap} {w : World}, Sim h w → NoInitOnNonEmpty w ops →
    Sim (finalHeap h ops) (finalWorld w ops)
  | [], _, _, hs, _ => hs
  | op :: ops, _, _, hs, hn => by
    obtain ⟨h1, h2⟩ := noInit_head hn
    exact final_sim ops (step_sim hs op h1).1 h2

end TypVerif.Lemmas.LinkedList
