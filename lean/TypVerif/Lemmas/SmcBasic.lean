import TypVerif.Lemmas.SmcWitness
import TypVerif.Lemmas.SyncMapAssoc
/-
C04 concurrent half, basic library (layer A1 of `SMC_PLAN.md`):

1. association lists: `alookup/ainsert/aerase/akeys/vals` under `Nodup` keys / values;
2. what the primitives of `Model.SyncMapConc` do to every field of `Shared`, to `dirtyMap`, `getP`, `freshId`;
   `setPc`; predicates that only depend on part of the shared state (`SameData`, `_congr` lemmas);
3. consequences (A)–(E) of the global invariant `G`;
4. `unprocessed`: membership, who can be a builder;
5. `SeenLe`: `T` and its sub-predicates are monotone in the `seen` list of a pending abstract goroutine;
6. `Own` / which pcs hold the mutex.
-/
namespace TypVerif.Lemmas.Smc
open TypVerif.Model TypVerif.Model.SyncMapConc TypVerif.Model.RelObj
open TypVerif.Model.SyncMap (alookup ainsert aerase akeys)
open TypVerif.Lemmas.SyncMap

set_option linter.unusedSimpArgs false
set_option linter.unusedVariables false

/-! ## 1. association lists -/
section Assoc
variable {K β : Type} [DecidableEq K]

omit [DecidableEq K] in
@[simp] theorem akeys_nil : akeys ([] : List (K × β)) = [] := rfl
omit [DecidableEq K] in
@[simp] theorem akeys_cons (p : K × β) (l : List (K × β)) : akeys (p :: l) = p.1 :: akeys l := rfl
omit [DecidableEq K] in
@[simp] theorem akeys_append (l l' : List (K × β)) : akeys (l ++ l') = akeys l ++ akeys l' := by
  simp [akeys]

omit [DecidableEq K] in
theorem mem_akeys_iff {k : K} {l : List (K × β)} : k ∈ akeys l ↔ ∃ e, (k, e) ∈ l := by
  unfold akeys
  constructor
  · intro h
    obtain ⟨p, hp, rfl⟩ := List.mem_map.mp h
    exact ⟨p.2, hp⟩
  · rintro ⟨e, he⟩
    exact List.mem_map.mpr ⟨(k, e), he, rfl⟩

omit [DecidableEq K] in
theorem mem_akeys_of_mem {k : K} {e : β} {l : List (K × β)} (h : (k, e) ∈ l) : k ∈ akeys l :=
  mem_akeys_iff.mpr ⟨e, h⟩

omit [DecidableEq K] in
theorem mem_akeys_of_mem' {p : K × β} {l : List (K × β)} (h : p ∈ l) : p.1 ∈ akeys l :=
  List.mem_map.mpr ⟨p, h, rfl⟩

/-- (A): with duplicate-free keys, membership of a pair is lookup -/
theorem mem_iff_alookup {l : List (K × β)} (hn : (akeys l).Nodup) {k : K} {e : β} :
    (k, e) ∈ l ↔ alookup k l = some e :=
  ⟨alookup_of_mem hn, mem_of_alookup⟩

theorem mem_iff_alookup' {l : List (K × β)} (hn : (akeys l).Nodup) {p : K × β} :
    p ∈ l ↔ alookup p.1 l = some p.2 := by
  obtain ⟨k, e⟩ := p
  exact mem_iff_alookup hn

theorem alookup_of_mem' {l : List (K × β)} (hn : (akeys l).Nodup) {p : K × β} (h : p ∈ l) :
    alookup p.1 l = some p.2 :=
  (mem_iff_alookup' hn).mp h

theorem mem_akeys_of_alookup {k : K} {e : β} {l : List (K × β)} (h : alookup k l = some e) : k ∈ akeys l :=
  mem_akeys_of_mem (mem_of_alookup h)

theorem mem_akeys_iff_alookup {k : K} {l : List (K × β)} : k ∈ akeys l ↔ ∃ e, alookup k l = some e := by
  rw [← alookup_isSome_iff]
  cases alookup k l <;> simp

theorem alookup_eq_none_iff_forall {k : K} {l : List (K × β)} : alookup k l = none ↔ ∀ e, (k, e) ∉ l := by
  rw [alookup_eq_none_iff, mem_akeys_iff]
  simp

theorem not_mem_of_alookup_none {k : K} {e : β} {l : List (K × β)} (h : alookup k l = none) : (k, e) ∉ l :=
  alookup_eq_none_iff_forall.mp h e

theorem alookup_eq_none_of_not_mem_akeys {k : K} {l : List (K × β)} (h : k ∉ akeys l) : alookup k l = none :=
  (alookup_eq_none_iff k l).mpr h

/-- two lookups of the same key agree -/
theorem mem_unique {l : List (K × β)} (hn : (akeys l).Nodup) {k : K} {e e' : β} (h : (k, e) ∈ l) (h' : (k, e') ∈ l) :
    e = e' := by
  have h1 := alookup_of_mem hn h
  have h2 := alookup_of_mem hn h'
  rw [h1] at h2
  exact Option.some.inj h2

theorem alookup_append (k : K) (l l' : List (K × β)) :
    alookup k (l ++ l') = (alookup k l).orElse (fun _ => alookup k l') := by
  induction l with
  | nil => simp
  | cons p rest ih =>
    obtain ⟨k0, b0⟩ := p
    simp only [List.cons_append, alookup_cons]
    by_cases h : k = k0
    · simp [h]
    · simp [h, ih]

theorem alookup_append_single (k k' : K) (b : β) (l : List (K × β)) :
    alookup k (l ++ [(k', b)]) = match alookup k l with
      | some x => some x
      | none => if k = k' then some b else none := by
  rw [alookup_append]
  cases alookup k l <;> simp [alookup_cons]

/-! ### `ainsert` -/

/-- inserting a new key appends (this is `akeys_ainsert_of_none` of `SyncMapAssoc` under its proper name) -/
theorem ainsert_of_none {k : K} {b : β} {l : List (K × β)} (h : alookup k l = none) : ainsert k b l = l ++ [(k, b)] :=
  akeys_ainsert_of_none h

theorem akeys_ainsert_eq_of_none {k : K} {b : β} {l : List (K × β)} (h : alookup k l = none) :
    akeys (ainsert k b l) = akeys l ++ [k] := by
  rw [ainsert_of_none h]; simp

theorem mem_akeys_ainsert {k k' : K} {b : β} {l : List (K × β)} :
    k' ∈ akeys (ainsert k b l) ↔ k' = k ∨ k' ∈ akeys l := by
  rw [← alookup_isSome_iff, ← alookup_isSome_iff, alookup_ainsert]
  by_cases h : k' = k <;> simp [h]

theorem mem_ainsert_of_none {k : K} {b : β} {l : List (K × β)} (h : alookup k l = none) {p : K × β} :
    p ∈ ainsert k b l ↔ p ∈ l ∨ p = (k, b) := by
  rw [ainsert_of_none h]; simp

/-- general form (keys duplicate-free): the pair of `k` is replaced, all others stay -/
theorem mem_ainsert {k k' : K} {b b' : β} {l : List (K × β)} (hn : (akeys l).Nodup) :
    (k', b') ∈ ainsert k b l ↔ (k' = k ∧ b' = b) ∨ (k' ≠ k ∧ (k', b') ∈ l) := by
  rw [mem_iff_alookup (nodup_ainsert hn), alookup_ainsert, mem_iff_alookup hn]
  by_cases h : k' = k
  · simp [h, eq_comm]
  · simp [h]


/-! ### `aerase` -/

theorem mem_aerase' {k : K} {l : List (K × β)} {p : K × β} : p ∈ aerase k l ↔ p ∈ l ∧ p.1 ≠ k := by
  unfold aerase
  simp [List.mem_filter]

theorem mem_aerase {k k' : K} {e : β} {l : List (K × β)} : (k', e) ∈ aerase k l ↔ (k', e) ∈ l ∧ k' ≠ k :=
  mem_aerase'

theorem mem_of_mem_aerase {k : K} {l : List (K × β)} {p : K × β} (h : p ∈ aerase k l) : p ∈ l :=
  (mem_aerase'.mp h).1

theorem aerase_sublist (k : K) (l : List (K × β)) : (aerase k l).Sublist l := by
  unfold aerase
  exact List.filter_sublist

theorem akeys_aerase_sublist (k : K) (l : List (K × β)) : (akeys (aerase k l)).Sublist (akeys l) :=
  (aerase_sublist k l).map _

theorem mem_akeys_aerase {k k' : K} {l : List (K × β)} : k' ∈ akeys (aerase k l) ↔ k' ∈ akeys l ∧ k' ≠ k := by
  rw [← alookup_isSome_iff, ← alookup_isSome_iff, alookup_aerase]
  by_cases h : k' = k <;> simp [h]

theorem not_mem_akeys_aerase_self (k : K) (l : List (K × β)) : k ∉ akeys (aerase k l) := by
  rw [mem_akeys_aerase]; simp

@[simp] theorem alookup_aerase_self (k : K) (l : List (K × β)) : alookup k (aerase k l) = none := by
  rw [alookup_aerase]; simp

theorem alookup_aerase_ne {k k' : K} (h : k' ≠ k) (l : List (K × β)) : alookup k' (aerase k l) = alookup k' l := by
  rw [alookup_aerase]; simp [h]

theorem aerase_of_none {k : K} {l : List (K × β)} (h : alookup k l = none) : aerase k l = l := by
  unfold aerase
  rw [List.filter_eq_self]
  intro p hp
  have : p.1 ≠ k := by
    intro h1
    have := (alookup_eq_none_iff k l).mp h
    exact this (h1 ▸ mem_akeys_of_mem' hp)
  simp [this]

@[simp] theorem aerase_nil (k : K) : aerase k ([] : List (K × β)) = [] := rfl

theorem aerase_cons_self (k : K) (b : β) (l : List (K × β)) : aerase k ((k, b) :: l) = aerase k l := by
  simp [aerase]

theorem aerase_cons_ne {k k' : K} (h : k' ≠ k) (b : β) (l : List (K × β)) :
    aerase k ((k', b) :: l) = (k', b) :: aerase k l := by
  simp [aerase, h]

theorem length_aerase_le (k : K) (l : List (K × β)) : (aerase k l).length ≤ l.length :=
  (aerase_sublist k l).length_le

theorem length_aerase_of_mem {k : K} {l : List (K × β)} (hn : (akeys l).Nodup) (h : k ∈ akeys l) :
    (aerase k l).length + 1 = l.length := by
  induction l with
  | nil => simp at h
  | cons p rest ih =>
    obtain ⟨k0, b0⟩ := p
    simp only [akeys_cons, List.nodup_cons] at hn
    by_cases h1 : k0 = k
    · subst h1
      rw [aerase_cons_self, aerase_of_none (alookup_eq_none_of_not_mem_akeys hn.1)]
      simp
    · rw [aerase_cons_ne h1]
      simp only [akeys_cons, List.mem_cons] at h
      rcases h with h | h
      · exact absurd h.symm h1
      · simp only [List.length_cons]
        rw [ih hn.2 h]

/-- picking a pair out of a map (`picks`): same pairs, keys still duplicate-free -/
theorem mem_cons_aerase {k : K} {e : β} {l : List (K × β)} (hn : (akeys l).Nodup) (h : (k, e) ∈ l) {p : K × β} :
    p ∈ (k, e) :: aerase k l ↔ p ∈ l := by
  rw [List.mem_cons, mem_aerase']
  constructor
  · rintro (h1 | h1)
    · exact h1 ▸ h
    · exact h1.1
  · intro hp
    by_cases h1 : p.1 = k
    · left
      obtain ⟨k1, e1⟩ := p
      simp only at h1
      subst h1
      rw [mem_unique hn hp h]
    · exact Or.inr ⟨hp, h1⟩

theorem nodup_akeys_cons_aerase {k : K} {e : β} {l : List (K × β)} (hn : (akeys l).Nodup) :
    (akeys ((k, e) :: aerase k l)).Nodup := by
  simp only [akeys_cons, List.nodup_cons]
  exact ⟨not_mem_akeys_aerase_self k l, nodup_aerase hn⟩

theorem mem_akeys_cons_aerase {k k' : K} {e : β} {l : List (K × β)} (h : (k, e) ∈ l) :
    k' ∈ akeys ((k, e) :: aerase k l) ↔ k' ∈ akeys l := by
  simp only [akeys_cons, List.mem_cons, mem_akeys_aerase]
  constructor
  · rintro (h1 | h1)
    · exact h1 ▸ mem_akeys_of_mem h
    · exact h1.1
  · intro h1
    by_cases h2 : k' = k
    · exact Or.inl h2
    · exact Or.inr ⟨h1, h2⟩

theorem alookup_cons_aerase {k : K} {e : β} {l : List (K × β)} (hn : (akeys l).Nodup) (h : (k, e) ∈ l) (k' : K) :
    alookup k' ((k, e) :: aerase k l) = alookup k' l := by
  rw [alookup_cons, alookup_aerase]
  by_cases h1 : k' = k
  · subst h1; simp [alookup_of_mem hn h]
  · simp [h1]

theorem perm_cons_aerase {k : K} {e : β} {l : List (K × β)} (hn : (akeys l).Nodup) (h : (k, e) ∈ l) :
    ((k, e) :: aerase k l).Perm l := by
  induction l with
  | nil => simp at h
  | cons p rest ih =>
    obtain ⟨k0, b0⟩ := p
    simp only [akeys_cons, List.nodup_cons] at hn
    by_cases h1 : k0 = k
    · subst h1
      have hb : e = b0 := by
        rcases List.mem_cons.mp h with h2 | h2
        · exact (Prod.mk.inj h2).2
        · exact absurd (mem_akeys_of_mem h2) hn.1
      subst hb
      rw [aerase_cons_self, aerase_of_none (alookup_eq_none_of_not_mem_akeys hn.1)]
    · rw [aerase_cons_ne h1]
      have h2 : (k, e) ∈ rest := by
        rcases List.mem_cons.mp h with h2 | h2
        · exact absurd (Prod.mk.inj h2).1.symm h1
        · exact h2
      exact (List.Perm.swap _ _ _).trans ((ih hn.2 h2).cons _)

theorem akeys_perm_cons_aerase {k : K} {e : β} {l : List (K × β)} (hn : (akeys l).Nodup) (h : (k, e) ∈ l) :
    (akeys ((k, e) :: aerase k l)).Perm (akeys l) :=
  (perm_cons_aerase hn h).map _

end Assoc


/-! ### `vals` (the entries a map holds) -/
section Vals
variable {K : Type} [DecidableEq K]

omit [DecidableEq K] in
@[simp] theorem vals_nil : vals ([] : List (K × EId)) = [] := rfl
omit [DecidableEq K] in
@[simp] theorem vals_cons (p : K × EId) (l : List (K × EId)) : vals (p :: l) = p.2 :: vals l := rfl
omit [DecidableEq K] in
@[simp] theorem vals_append (l l' : List (K × EId)) : vals (l ++ l') = vals l ++ vals l' := by
  simp [vals]
omit [DecidableEq K] in
@[simp] theorem length_vals (l : List (K × EId)) : (vals l).length = l.length := by simp [vals]
omit [DecidableEq K] in
@[simp] theorem length_akeys {β : Type} (l : List (K × β)) : (akeys l).length = l.length := by simp [akeys]

omit [DecidableEq K] in
theorem mem_vals_iff {e : EId} {l : List (K × EId)} : e ∈ vals l ↔ ∃ k, (k, e) ∈ l := by
  unfold vals
  constructor
  · intro h
    obtain ⟨p, hp, rfl⟩ := List.mem_map.mp h
    exact ⟨p.1, hp⟩
  · rintro ⟨k, hk⟩
    exact List.mem_map.mpr ⟨(k, e), hk, rfl⟩

omit [DecidableEq K] in
theorem mem_vals_of_mem {k : K} {e : EId} {l : List (K × EId)} (h : (k, e) ∈ l) : e ∈ vals l :=
  mem_vals_iff.mpr ⟨k, h⟩

omit [DecidableEq K] in
theorem mem_vals_of_mem' {p : K × EId} {l : List (K × EId)} (h : p ∈ l) : p.2 ∈ vals l :=
  List.mem_map.mpr ⟨p, h, rfl⟩

theorem mem_vals_of_alookup {k : K} {e : EId} {l : List (K × EId)} (h : alookup k l = some e) : e ∈ vals l :=
  mem_vals_of_mem (mem_of_alookup h)

theorem mem_vals_iff_alookup {e : EId} {l : List (K × EId)} (hn : (akeys l).Nodup) :
    e ∈ vals l ↔ ∃ k, alookup k l = some e := by
  rw [mem_vals_iff]
  constructor
  · rintro ⟨k, hk⟩; exact ⟨k, alookup_of_mem hn hk⟩
  · rintro ⟨k, hk⟩; exact ⟨k, mem_of_alookup hk⟩

omit [DecidableEq K] in
theorem not_mem_of_not_mem_vals {k : K} {e : EId} {l : List (K × EId)} (h : e ∉ vals l) : (k, e) ∉ l :=
  fun h1 => h (mem_vals_of_mem h1)

theorem alookup_ne_of_not_mem_vals {k : K} {e : EId} {l : List (K × EId)} (h : e ∉ vals l) : alookup k l ≠ some e :=
  fun h1 => h (mem_vals_of_alookup h1)

omit [DecidableEq K] in
/-- (A): with duplicate-free values an entry occurs under one key only -/
theorem key_unique_of_mem {l : List (K × EId)} (hv : (vals l).Nodup) {k k' : K} {e : EId}
    (h : (k, e) ∈ l) (h' : (k', e) ∈ l) : k = k' := by
  induction l with
  | nil => simp at h
  | cons p rest ih =>
    simp only [vals_cons, List.nodup_cons] at hv
    rcases List.mem_cons.mp h with h1 | h1 <;> rcases List.mem_cons.mp h' with h2 | h2
    · rw [← h2] at h1; exact (Prod.mk.inj h1).1
    · subst h1; exact absurd (mem_vals_of_mem h2) hv.1
    · subst h2; exact absurd (mem_vals_of_mem h1) hv.1
    · exact ih hv.2 h1 h2

theorem alookup_inj {l : List (K × EId)} (hv : (vals l).Nodup) {k k' : K} {e : EId}
    (h : alookup k l = some e) (h' : alookup k' l = some e) : k = k' :=
  key_unique_of_mem hv (mem_of_alookup h) (mem_of_alookup h')

theorem vals_ainsert_of_none {k : K} {e : EId} {l : List (K × EId)} (h : alookup k l = none) :
    vals (ainsert k e l) = vals l ++ [e] := by
  rw [ainsert_of_none h]; simp

theorem mem_vals_ainsert_of_none {k : K} {e e' : EId} {l : List (K × EId)} (h : alookup k l = none) :
    e' ∈ vals (ainsert k e l) ↔ e' ∈ vals l ∨ e' = e := by
  rw [vals_ainsert_of_none h]; simp

/-- without any hypothesis: an insertion adds at most `e` -/
theorem mem_vals_ainsert {k : K} {e e' : EId} {l : List (K × EId)} (h : e' ∈ vals (ainsert k e l)) :
    e' = e ∨ e' ∈ vals l := by
  induction l with
  | nil => simp [ainsert] at h; exact Or.inl h
  | cons p rest ih =>
    obtain ⟨k0, b0⟩ := p
    unfold ainsert at h
    by_cases h1 : k = k0
    · simp only [h1, if_true, vals_cons, List.mem_cons] at h
      rcases h with h | h
      · exact Or.inl h
      · exact Or.inr (by simp [h])
    · simp only [h1, if_false, vals_cons, List.mem_cons] at h
      rcases h with h | h
      · exact Or.inr (by simp [h])
      · rcases ih h with h2 | h2
        · exact Or.inl h2
        · exact Or.inr (by simp [h2])

theorem mem_vals_ainsert_self (k : K) (e : EId) (l : List (K × EId)) : e ∈ vals (ainsert k e l) :=
  mem_vals_of_alookup (k := k) (by rw [alookup_ainsert]; simp)

theorem nodup_vals_ainsert_of_none {k : K} {e : EId} {l : List (K × EId)} (h : alookup k l = none)
    (he : e ∉ vals l) (hv : (vals l).Nodup) : (vals (ainsert k e l)).Nodup := by
  rw [vals_ainsert_of_none h, List.nodup_append]
  refine ⟨hv, by simp, ?_⟩
  intro a ha b hb
  simp only [List.mem_singleton] at hb
  subst hb
  intro hab
  exact he (hab ▸ ha)

theorem nodup_akeys_ainsert {β : Type} {k : K} {b : β} {l : List (K × β)} (hn : (akeys l).Nodup) :
    (akeys (ainsert k b l)).Nodup :=
  nodup_ainsert hn

theorem vals_aerase_sublist (k : K) (l : List (K × EId)) : (vals (aerase k l)).Sublist (vals l) :=
  (aerase_sublist k l).map _

theorem vals_aerase_subset (k : K) (l : List (K × EId)) : vals (aerase k l) ⊆ vals l :=
  (vals_aerase_sublist k l).subset

theorem mem_vals_of_mem_vals_aerase {k : K} {e : EId} {l : List (K × EId)} (h : e ∈ vals (aerase k l)) : e ∈ vals l :=
  vals_aerase_subset k l h

theorem nodup_vals_aerase {k : K} {l : List (K × EId)} (hv : (vals l).Nodup) : (vals (aerase k l)).Nodup :=
  (vals_aerase_sublist k l).nodup hv

theorem nodup_akeys_aerase {β : Type} {k : K} {l : List (K × β)} (hn : (akeys l).Nodup) : (akeys (aerase k l)).Nodup :=
  nodup_aerase hn

theorem mem_vals_aerase {k : K} {e : EId} {l : List (K × EId)} :
    e ∈ vals (aerase k l) ↔ ∃ k', k' ≠ k ∧ (k', e) ∈ l := by
  rw [mem_vals_iff]
  constructor
  · rintro ⟨k', hk'⟩
    have := mem_aerase.mp hk'
    exact ⟨k', this.2, this.1⟩
  · rintro ⟨k', h1, h2⟩
    exact ⟨k', mem_aerase.mpr ⟨h2, h1⟩⟩

/-- the unlinked entry is no longer in the map (values duplicate-free) -/
theorem not_mem_vals_aerase_of_mem {k : K} {e : EId} {l : List (K × EId)} (hv : (vals l).Nodup) (h : (k, e) ∈ l) :
    e ∉ vals (aerase k l) := by
  rw [mem_vals_aerase]
  rintro ⟨k', h1, h2⟩
  exact h1 (key_unique_of_mem hv h2 h)

theorem not_mem_vals_aerase_of_alookup {k : K} {e : EId} {l : List (K × EId)} (hv : (vals l).Nodup)
    (h : alookup k l = some e) : e ∉ vals (aerase k l) :=
  not_mem_vals_aerase_of_mem hv (mem_of_alookup h)

/-- every other entry stays -/
theorem mem_vals_aerase_of_ne {k : K} {e e' : EId} {l : List (K × EId)} (hn : (akeys l).Nodup)
    (h : alookup k l = some e) (hne : e' ≠ e) (h' : e' ∈ vals l) : e' ∈ vals (aerase k l) := by
  rw [mem_vals_aerase]
  obtain ⟨k', hk'⟩ := mem_vals_iff.mp h'
  refine ⟨k', ?_, hk'⟩
  intro h1
  subst h1
  exact hne (mem_unique hn hk' (mem_of_alookup h))

theorem mem_vals_cons_aerase {k : K} {e e' : EId} {l : List (K × EId)} (hn : (akeys l).Nodup) (h : (k, e) ∈ l) :
    e' ∈ vals ((k, e) :: aerase k l) ↔ e' ∈ vals l := by
  rw [mem_vals_iff, mem_vals_iff]
  constructor
  · rintro ⟨k', hk'⟩; exact ⟨k', (mem_cons_aerase hn h).mp hk'⟩
  · rintro ⟨k', hk'⟩; exact ⟨k', (mem_cons_aerase hn h).mpr hk'⟩

theorem vals_perm_cons_aerase {k : K} {e : EId} {l : List (K × EId)} (hn : (akeys l).Nodup) (h : (k, e) ∈ l) :
    (vals ((k, e) :: aerase k l)).Perm (vals l) :=
  (perm_cons_aerase hn h).map _

theorem nodup_vals_cons_aerase {k : K} {e : EId} {l : List (K × EId)} (hn : (akeys l).Nodup) (hv : (vals l).Nodup)
    (h : (k, e) ∈ l) : (vals ((k, e) :: aerase k l)).Nodup :=
  (vals_perm_cons_aerase hn h).nodup_iff.mpr hv

end Vals


/-! ## 2. primitives of `Model.SyncMapConc` -/
section Prim
variable {K V : Type} [DecidableEq K]

/-! ### field by field -/
omit [DecidableEq K] in
@[simp] theorem setP_entries (sh : Shared K V) (e : EId) (p : Ptr V) : (setP sh e p).entries = sh.entries.set e p := rfl
omit [DecidableEq K] in
@[simp] theorem setP_readM (sh : Shared K V) (e : EId) (p : Ptr V) : (setP sh e p).readM = sh.readM := rfl
omit [DecidableEq K] in
@[simp] theorem setP_amended (sh : Shared K V) (e : EId) (p : Ptr V) : (setP sh e p).amended = sh.amended := rfl
omit [DecidableEq K] in
@[simp] theorem setP_dirty (sh : Shared K V) (e : EId) (p : Ptr V) : (setP sh e p).dirty = sh.dirty := rfl
omit [DecidableEq K] in
@[simp] theorem setP_misses (sh : Shared K V) (e : EId) (p : Ptr V) : (setP sh e p).misses = sh.misses := rfl
omit [DecidableEq K] in
@[simp] theorem setP_mu (sh : Shared K V) (e : EId) (p : Ptr V) : (setP sh e p).mu = sh.mu := rfl
omit [DecidableEq K] in
@[simp] theorem setP_nextPtr (sh : Shared K V) (e : EId) (p : Ptr V) : (setP sh e p).nextPtr = sh.nextPtr := rfl
omit [DecidableEq K] in
@[simp] theorem setP_fault (sh : Shared K V) (e : EId) (p : Ptr V) : (setP sh e p).fault = sh.fault := rfl
omit [DecidableEq K] in
@[simp] theorem setP_zst (sh : Shared K V) (e : EId) (p : Ptr V) : (setP sh e p).zst = sh.zst := rfl

omit [DecidableEq K] in
@[simp] theorem storeVal_entries (sh : Shared K V) (e : EId) (v : V) : (storeVal sh e v).entries = sh.entries.set e (.val (freshId sh) v) := rfl
omit [DecidableEq K] in
@[simp] theorem storeVal_readM (sh : Shared K V) (e : EId) (v : V) : (storeVal sh e v).readM = sh.readM := rfl
omit [DecidableEq K] in
@[simp] theorem storeVal_amended (sh : Shared K V) (e : EId) (v : V) : (storeVal sh e v).amended = sh.amended := rfl
omit [DecidableEq K] in
@[simp] theorem storeVal_dirty (sh : Shared K V) (e : EId) (v : V) : (storeVal sh e v).dirty = sh.dirty := rfl
omit [DecidableEq K] in
@[simp] theorem storeVal_misses (sh : Shared K V) (e : EId) (v : V) : (storeVal sh e v).misses = sh.misses := rfl
omit [DecidableEq K] in
@[simp] theorem storeVal_mu (sh : Shared K V) (e : EId) (v : V) : (storeVal sh e v).mu = sh.mu := rfl
omit [DecidableEq K] in
@[simp] theorem storeVal_nextPtr (sh : Shared K V) (e : EId) (v : V) : (storeVal sh e v).nextPtr = sh.nextPtr + 1 := rfl
omit [DecidableEq K] in
@[simp] theorem storeVal_fault (sh : Shared K V) (e : EId) (v : V) : (storeVal sh e v).fault = sh.fault := rfl
omit [DecidableEq K] in
@[simp] theorem storeVal_zst (sh : Shared K V) (e : EId) (v : V) : (storeVal sh e v).zst = sh.zst := rfl

@[simp] theorem setDirty_entries (sh : Shared K V) (k : K) (e : EId) : (setDirty sh k e).entries = sh.entries := by unfold setDirty; cases sh.dirty <;> simp
@[simp] theorem setDirty_readM (sh : Shared K V) (k : K) (e : EId) : (setDirty sh k e).readM = sh.readM := by unfold setDirty; cases sh.dirty <;> simp
@[simp] theorem setDirty_amended (sh : Shared K V) (k : K) (e : EId) : (setDirty sh k e).amended = sh.amended := by unfold setDirty; cases sh.dirty <;> simp
@[simp] theorem setDirty_dirty (sh : Shared K V) (k : K) (e : EId) : (setDirty sh k e).dirty = sh.dirty.map (ainsert k e) := by unfold setDirty; cases sh.dirty <;> simp
@[simp] theorem setDirty_misses (sh : Shared K V) (k : K) (e : EId) : (setDirty sh k e).misses = sh.misses := by unfold setDirty; cases sh.dirty <;> simp
@[simp] theorem setDirty_mu (sh : Shared K V) (k : K) (e : EId) : (setDirty sh k e).mu = sh.mu := by unfold setDirty; cases sh.dirty <;> simp
@[simp] theorem setDirty_nextPtr (sh : Shared K V) (k : K) (e : EId) : (setDirty sh k e).nextPtr = sh.nextPtr := by unfold setDirty; cases sh.dirty <;> simp
@[simp] theorem setDirty_fault (sh : Shared K V) (k : K) (e : EId) : (setDirty sh k e).fault = (sh.fault || sh.dirty.isNone) := by unfold setDirty; cases sh.dirty <;> simp
@[simp] theorem setDirty_zst (sh : Shared K V) (k : K) (e : EId) : (setDirty sh k e).zst = sh.zst := by unfold setDirty; cases sh.dirty <;> simp

@[simp] theorem delDirty_entries (sh : Shared K V) (k : K) : (delDirty sh k).entries = sh.entries := rfl
@[simp] theorem delDirty_readM (sh : Shared K V) (k : K) : (delDirty sh k).readM = sh.readM := rfl
@[simp] theorem delDirty_amended (sh : Shared K V) (k : K) : (delDirty sh k).amended = sh.amended := rfl
@[simp] theorem delDirty_dirty (sh : Shared K V) (k : K) : (delDirty sh k).dirty = sh.dirty.map (aerase k) := rfl
@[simp] theorem delDirty_misses (sh : Shared K V) (k : K) : (delDirty sh k).misses = sh.misses := rfl
@[simp] theorem delDirty_mu (sh : Shared K V) (k : K) : (delDirty sh k).mu = sh.mu := rfl
@[simp] theorem delDirty_nextPtr (sh : Shared K V) (k : K) : (delDirty sh k).nextPtr = sh.nextPtr := rfl
@[simp] theorem delDirty_fault (sh : Shared K V) (k : K) : (delDirty sh k).fault = sh.fault := rfl
@[simp] theorem delDirty_zst (sh : Shared K V) (k : K) : (delDirty sh k).zst = sh.zst := rfl

@[simp] theorem addNew_entries (sh : Shared K V) (k : K) (v : V) : (addNew sh k v).entries = sh.entries ++ [.val (freshId sh) v] := by simp [addNew]
@[simp] theorem addNew_readM (sh : Shared K V) (k : K) (v : V) : (addNew sh k v).readM = sh.readM := by simp [addNew]
@[simp] theorem addNew_amended (sh : Shared K V) (k : K) (v : V) : (addNew sh k v).amended = sh.amended := by simp [addNew]
@[simp] theorem addNew_dirty (sh : Shared K V) (k : K) (v : V) : (addNew sh k v).dirty = sh.dirty.map (ainsert k sh.entries.length) := by simp [addNew]
@[simp] theorem addNew_misses (sh : Shared K V) (k : K) (v : V) : (addNew sh k v).misses = sh.misses := by simp [addNew]
@[simp] theorem addNew_mu (sh : Shared K V) (k : K) (v : V) : (addNew sh k v).mu = sh.mu := by simp [addNew]
@[simp] theorem addNew_nextPtr (sh : Shared K V) (k : K) (v : V) : (addNew sh k v).nextPtr = sh.nextPtr + 1 := by simp [addNew]
@[simp] theorem addNew_fault (sh : Shared K V) (k : K) (v : V) : (addNew sh k v).fault = (sh.fault || sh.dirty.isNone) := by simp [addNew]
@[simp] theorem addNew_zst (sh : Shared K V) (k : K) (v : V) : (addNew sh k v).zst = sh.zst := by simp [addNew]

omit [DecidableEq K] in
@[simp] theorem unlock_entries (sh : Shared K V) : (unlock sh).entries = sh.entries := rfl
omit [DecidableEq K] in
@[simp] theorem unlock_readM (sh : Shared K V) : (unlock sh).readM = sh.readM := rfl
omit [DecidableEq K] in
@[simp] theorem unlock_amended (sh : Shared K V) : (unlock sh).amended = sh.amended := rfl
omit [DecidableEq K] in
@[simp] theorem unlock_dirty (sh : Shared K V) : (unlock sh).dirty = sh.dirty := rfl
omit [DecidableEq K] in
@[simp] theorem unlock_misses (sh : Shared K V) : (unlock sh).misses = sh.misses := rfl
omit [DecidableEq K] in
@[simp] theorem unlock_mu (sh : Shared K V) : (unlock sh).mu = none := rfl
omit [DecidableEq K] in
@[simp] theorem unlock_nextPtr (sh : Shared K V) : (unlock sh).nextPtr = sh.nextPtr := rfl
omit [DecidableEq K] in
@[simp] theorem unlock_fault (sh : Shared K V) : (unlock sh).fault = sh.fault := rfl
omit [DecidableEq K] in
@[simp] theorem unlock_zst (sh : Shared K V) : (unlock sh).zst = sh.zst := rfl

omit [DecidableEq K] in
@[simp] theorem promote_entries (sh : Shared K V) : (promote sh).entries = sh.entries := rfl
omit [DecidableEq K] in
@[simp] theorem promote_readM (sh : Shared K V) : (promote sh).readM = dirtyMap sh := rfl
omit [DecidableEq K] in
@[simp] theorem promote_amended (sh : Shared K V) : (promote sh).amended = false := rfl
omit [DecidableEq K] in
@[simp] theorem promote_dirty (sh : Shared K V) : (promote sh).dirty = none := rfl
omit [DecidableEq K] in
@[simp] theorem promote_misses (sh : Shared K V) : (promote sh).misses = 0 := rfl
omit [DecidableEq K] in
@[simp] theorem promote_mu (sh : Shared K V) : (promote sh).mu = sh.mu := rfl
omit [DecidableEq K] in
@[simp] theorem promote_nextPtr (sh : Shared K V) : (promote sh).nextPtr = sh.nextPtr := rfl
omit [DecidableEq K] in
@[simp] theorem promote_fault (sh : Shared K V) : (promote sh).fault = sh.fault := rfl
omit [DecidableEq K] in
@[simp] theorem promote_zst (sh : Shared K V) : (promote sh).zst = sh.zst := rfl

omit [DecidableEq K] in
@[simp] theorem missStep_fst_entries (sh : Shared K V) : (missStep sh).1.entries = sh.entries := rfl
omit [DecidableEq K] in
@[simp] theorem missStep_fst_readM (sh : Shared K V) : (missStep sh).1.readM = sh.readM := rfl
omit [DecidableEq K] in
@[simp] theorem missStep_fst_amended (sh : Shared K V) : (missStep sh).1.amended = sh.amended := rfl
omit [DecidableEq K] in
@[simp] theorem missStep_fst_dirty (sh : Shared K V) : (missStep sh).1.dirty = sh.dirty := rfl
omit [DecidableEq K] in
@[simp] theorem missStep_fst_misses (sh : Shared K V) : (missStep sh).1.misses = sh.misses + 1 := rfl
omit [DecidableEq K] in
@[simp] theorem missStep_fst_mu (sh : Shared K V) : (missStep sh).1.mu = sh.mu := rfl
omit [DecidableEq K] in
@[simp] theorem missStep_fst_nextPtr (sh : Shared K V) : (missStep sh).1.nextPtr = sh.nextPtr := rfl
omit [DecidableEq K] in
@[simp] theorem missStep_fst_fault (sh : Shared K V) : (missStep sh).1.fault = sh.fault := rfl
omit [DecidableEq K] in
@[simp] theorem missStep_fst_zst (sh : Shared K V) : (missStep sh).1.zst = sh.zst := rfl


omit [DecidableEq K] in
@[simp] theorem missStep_snd (sh : Shared K V) :
    (missStep sh).2 = !(decide (sh.misses + 1 < (dirtyMap sh).length)) := rfl

omit [DecidableEq K] in
theorem missStep_fst_eq (sh : Shared K V) : (missStep sh).1 = { sh with misses := sh.misses + 1 } := rfl

omit [DecidableEq K] in
@[simp] theorem setP_entries_length (sh : Shared K V) (e : EId) (p : Ptr V) :
    (setP sh e p).entries.length = sh.entries.length := by simp
omit [DecidableEq K] in
@[simp] theorem storeVal_entries_length (sh : Shared K V) (e : EId) (v : V) :
    (storeVal sh e v).entries.length = sh.entries.length := by simp
@[simp] theorem addNew_entries_length (sh : Shared K V) (k : K) (v : V) :
    (addNew sh k v).entries.length = sh.entries.length + 1 := by simp

/-! ### `dirtyMap` -/

omit [DecidableEq K] in
theorem dirtyMap_of_some {sh : Shared K V} {d : List (K × EId)} (h : sh.dirty = some d) : dirtyMap sh = d := by
  simp [dirtyMap, h]
omit [DecidableEq K] in
theorem dirtyMap_of_none {sh : Shared K V} (h : sh.dirty = none) : dirtyMap sh = [] := by
  simp [dirtyMap, h]
omit [DecidableEq K] in
theorem dirty_eq_some_dirtyMap {sh : Shared K V} (h : sh.dirty.isSome = true) : sh.dirty = some (dirtyMap sh) := by
  unfold dirtyMap; cases hd : sh.dirty <;> simp [hd] at h ⊢
omit [DecidableEq K] in
theorem dirty_isSome_of_dirtyMap_ne_nil {sh : Shared K V} (h : dirtyMap sh ≠ []) : sh.dirty.isSome = true := by
  unfold dirtyMap at h; cases hd : sh.dirty <;> simp [hd] at h ⊢
omit [DecidableEq K] in
theorem dirty_isSome_of_mem_dirtyMap {sh : Shared K V} {p : K × EId} (h : p ∈ dirtyMap sh) : sh.dirty.isSome = true :=
  dirty_isSome_of_dirtyMap_ne_nil (List.ne_nil_of_mem h)
theorem dirty_isSome_of_alookup_dirtyMap {sh : Shared K V} {k : K} {e : EId} (h : alookup k (dirtyMap sh) = some e) :
    sh.dirty.isSome = true :=
  dirty_isSome_of_mem_dirtyMap (mem_of_alookup h)
omit [DecidableEq K] in
theorem dirty_isSome_of_mem_vals_dirtyMap {sh : Shared K V} {e : EId} (h : e ∈ vals (dirtyMap sh)) :
    sh.dirty.isSome = true := by
  obtain ⟨k, hk⟩ := mem_vals_iff.mp h
  exact dirty_isSome_of_mem_dirtyMap hk

omit [DecidableEq K] in
theorem dirtyMap_congr {sh sh' : Shared K V} (h : sh'.dirty = sh.dirty) : dirtyMap sh' = dirtyMap sh := by
  unfold dirtyMap; rw [h]

omit [DecidableEq K] in
@[simp] theorem dirtyMap_setP (sh : Shared K V) (e : EId) (p : Ptr V) : dirtyMap (setP sh e p) = dirtyMap sh := rfl
omit [DecidableEq K] in
@[simp] theorem dirtyMap_storeVal (sh : Shared K V) (e : EId) (v : V) : dirtyMap (storeVal sh e v) = dirtyMap sh := rfl
omit [DecidableEq K] in
@[simp] theorem dirtyMap_unlock (sh : Shared K V) : dirtyMap (unlock sh) = dirtyMap sh := rfl
omit [DecidableEq K] in
@[simp] theorem dirtyMap_missStep_fst (sh : Shared K V) : dirtyMap (missStep sh).1 = dirtyMap sh := rfl
omit [DecidableEq K] in
@[simp] theorem dirtyMap_promote (sh : Shared K V) : dirtyMap (promote sh) = [] := rfl
@[simp] theorem dirtyMap_delDirty (sh : Shared K V) (k : K) : dirtyMap (delDirty sh k) = aerase k (dirtyMap sh) := by
  unfold dirtyMap; cases h : sh.dirty <;> simp [delDirty, h]
theorem dirtyMap_setDirty (sh : Shared K V) (k : K) (e : EId) :
    dirtyMap (setDirty sh k e) = if sh.dirty.isSome then ainsert k e (dirtyMap sh) else [] := by
  unfold dirtyMap; cases h : sh.dirty <;> simp [h]
theorem dirtyMap_setDirty_of_some {sh : Shared K V} {d : List (K × EId)} (h : sh.dirty = some d) (k : K) (e : EId) :
    dirtyMap (setDirty sh k e) = ainsert k e d := by
  simp [dirtyMap, h]
theorem dirtyMap_setDirty_of_isSome {sh : Shared K V} (h : sh.dirty.isSome = true) (k : K) (e : EId) :
    dirtyMap (setDirty sh k e) = ainsert k e (dirtyMap sh) := by
  rw [dirtyMap_setDirty, h]; simp
theorem dirtyMap_addNew (sh : Shared K V) (k : K) (v : V) :
    dirtyMap (addNew sh k v) = if sh.dirty.isSome then ainsert k sh.entries.length (dirtyMap sh) else [] := by
  unfold dirtyMap; cases h : sh.dirty <;> simp [h]
theorem dirtyMap_addNew_of_some {sh : Shared K V} {d : List (K × EId)} (h : sh.dirty = some d) (k : K) (v : V) :
    dirtyMap (addNew sh k v) = ainsert k sh.entries.length d := by
  simp [dirtyMap, h]
theorem dirtyMap_addNew_of_isSome {sh : Shared K V} (h : sh.dirty.isSome = true) (k : K) (v : V) :
    dirtyMap (addNew sh k v) = ainsert k sh.entries.length (dirtyMap sh) := by
  rw [dirtyMap_addNew, h]; simp

/-- `setDirty` on an existing dirty map, as a record update -/
theorem setDirty_of_some {sh : Shared K V} {d : List (K × EId)} (h : sh.dirty = some d) (k : K) (e : EId) :
    setDirty sh k e = { sh with dirty := some (ainsert k e d) } := by
  unfold setDirty; rw [h]
theorem setDirty_of_none {sh : Shared K V} (h : sh.dirty = none) (k : K) (e : EId) :
    setDirty sh k e = { sh with fault := true } := by
  unfold setDirty; rw [h]
theorem setDirty_fault_of_isSome {sh : Shared K V} (h : sh.dirty.isSome = true) (k : K) (e : EId) :
    (setDirty sh k e).fault = sh.fault := by
  cases hd : sh.dirty <;> simp [hd] at h ⊢
theorem addNew_fault_of_isSome {sh : Shared K V} (h : sh.dirty.isSome = true) (k : K) (v : V) :
    (addNew sh k v).fault = sh.fault := by
  cases hd : sh.dirty <;> simp [hd] at h ⊢
theorem setDirty_dirty_isSome (sh : Shared K V) (k : K) (e : EId) : (setDirty sh k e).dirty.isSome = sh.dirty.isSome := by
  simp
theorem addNew_dirty_isSome (sh : Shared K V) (k : K) (v : V) : (addNew sh k v).dirty.isSome = sh.dirty.isSome := by
  simp
theorem delDirty_dirty_isSome (sh : Shared K V) (k : K) : (delDirty sh k).dirty.isSome = sh.dirty.isSome := by
  simp

/-! record updates performed inline by `exec` -/
omit [DecidableEq K] in
@[simp] theorem dirtyMap_mu_update (sh : Shared K V) (m : Option Tid) : dirtyMap { sh with mu := m } = dirtyMap sh := rfl
omit [DecidableEq K] in
@[simp] theorem dirtyMap_dirty_nil (sh : Shared K V) : dirtyMap { sh with dirty := some [] } = [] := rfl
omit [DecidableEq K] in
@[simp] theorem dirtyMap_dirty_update (sh : Shared K V) (d : List (K × EId)) : dirtyMap { sh with dirty := some d } = d := rfl
omit [DecidableEq K] in
@[simp] theorem dirtyMap_readStore_update (sh : Shared K V) (rm : List (K × EId)) (b : Bool) :
    dirtyMap { sh with readM := rm, amended := b } = dirtyMap sh := rfl
omit [DecidableEq K] in
@[simp] theorem dirtyMap_misses_update (sh : Shared K V) (n : Nat) : dirtyMap { sh with misses := n } = dirtyMap sh := rfl
omit [DecidableEq K] in
@[simp] theorem dirtyMap_fault_update (sh : Shared K V) (b : Bool) : dirtyMap { sh with fault := b } = dirtyMap sh := rfl
omit [DecidableEq K] in
@[simp] theorem dirtyMap_rangeStore_update (sh : Shared K V) (dm : List (K × EId)) :
    dirtyMap { sh with readM := dm, amended := false, dirty := none, misses := 0 } = [] := rfl

omit [DecidableEq K] in
/-- the inline promotion of `Range` is `promote` (its `T` says `dm = dirtyMap sh`) -/
theorem promote_eq (sh : Shared K V) :
    promote sh = { sh with readM := dirtyMap sh, amended := false, dirty := none, misses := 0 } := rfl

/-! ### `getP` -/

omit [DecidableEq K] in
theorem getP_congr {sh sh' : Shared K V} (h : sh'.entries = sh.entries) (e : EId) : getP sh' e = getP sh e := by
  unfold getP; rw [h]

omit [DecidableEq K] in
theorem getP_eq_getElem {sh : Shared K V} {e : EId} (h : e < sh.entries.length) : getP sh e = sh.entries[e] := by
  simp [getP, List.getD_eq_getElem?_getD, h]

omit [DecidableEq K] in
theorem getP_of_le {sh : Shared K V} {e : EId} (h : sh.entries.length ≤ e) : getP sh e = .nil := by
  simp [getP, List.getD_eq_getElem?_getD, h]

omit [DecidableEq K] in
/-- an entry that holds something other than nil is allocated -/
theorem lt_length_of_getP_ne_nil {sh : Shared K V} {e : EId} (h : getP sh e ≠ .nil) : e < sh.entries.length := by
  apply Classical.byContradiction
  intro h1
  exact h (getP_of_le (Nat.le_of_not_lt h1))

omit [DecidableEq K] in
theorem getP_setP (sh : Shared K V) (e e' : EId) (p : Ptr V) :
    getP (setP sh e p) e' = if e' = e ∧ e < sh.entries.length then p else getP sh e' := by
  simp only [getP, setP, List.getD_eq_getElem?_getD, List.getElem?_set]
  by_cases h : e = e'
  · subst h
    by_cases h1 : e < sh.entries.length
    · simp [h1]
    · simp [h1]
  · have h' : ¬ e' = e := fun h2 => h h2.symm
    simp [h, h']

omit [DecidableEq K] in
theorem getP_setP_self {sh : Shared K V} {e : EId} (h : e < sh.entries.length) (p : Ptr V) : getP (setP sh e p) e = p := by
  rw [getP_setP]; simp [h]

omit [DecidableEq K] in
theorem getP_setP_ne {sh : Shared K V} {e e' : EId} (h : e' ≠ e) (p : Ptr V) : getP (setP sh e p) e' = getP sh e' := by
  rw [getP_setP]; simp [h]

omit [DecidableEq K] in
theorem getP_storeVal (sh : Shared K V) (e e' : EId) (v : V) :
    getP (storeVal sh e v) e' = if e' = e ∧ e < sh.entries.length then .val (freshId sh) v else getP sh e' :=
  getP_setP sh e e' (.val (freshId sh) v)

omit [DecidableEq K] in
theorem getP_storeVal_self {sh : Shared K V} {e : EId} (h : e < sh.entries.length) (v : V) :
    getP (storeVal sh e v) e = .val (freshId sh) v := by
  rw [getP_storeVal]; simp [h]

omit [DecidableEq K] in
theorem getP_storeVal_ne {sh : Shared K V} {e e' : EId} (h : e' ≠ e) (v : V) : getP (storeVal sh e v) e' = getP sh e' := by
  rw [getP_storeVal]; simp [h]

@[simp] theorem getP_setDirty (sh : Shared K V) (k : K) (e e' : EId) : getP (setDirty sh k e) e' = getP sh e' :=
  getP_congr (by simp) e'
@[simp] theorem getP_delDirty (sh : Shared K V) (k : K) (e' : EId) : getP (delDirty sh k) e' = getP sh e' := rfl
omit [DecidableEq K] in
@[simp] theorem getP_unlock (sh : Shared K V) (e' : EId) : getP (unlock sh) e' = getP sh e' := rfl
omit [DecidableEq K] in
@[simp] theorem getP_promote (sh : Shared K V) (e' : EId) : getP (promote sh) e' = getP sh e' := rfl
omit [DecidableEq K] in
@[simp] theorem getP_missStep_fst (sh : Shared K V) (e' : EId) : getP (missStep sh).1 e' = getP sh e' := rfl

theorem getP_addNew (sh : Shared K V) (k : K) (v : V) (e' : EId) :
    getP (addNew sh k v) e' = if e' = sh.entries.length then .val (freshId sh) v else getP sh e' := by
  have h : getP (addNew sh k v) e' = (sh.entries ++ [Ptr.val (freshId sh) v]).getD e' .nil := by
    unfold getP; rw [addNew_entries]
  rw [h]
  unfold getP
  simp only [List.getD_eq_getElem?_getD]
  by_cases h1 : e' < sh.entries.length
  · rw [List.getElem?_append_left h1]
    have : ¬ e' = sh.entries.length := Nat.ne_of_lt h1
    simp [this]
  · by_cases h2 : e' = sh.entries.length
    · subst h2; simp
    · have h3 : sh.entries.length < e' := Nat.lt_of_le_of_ne (Nat.le_of_not_lt h1) (Ne.symm h2)
      have h4 : (sh.entries ++ [Ptr.val (freshId sh) v])[e']? = none :=
        List.getElem?_eq_none (by simp; omega)
      have h5 : sh.entries[e']? = none := List.getElem?_eq_none (by omega)
      rw [h4, h5]; simp [h2]

theorem getP_addNew_of_lt {sh : Shared K V} {e' : EId} (h : e' < sh.entries.length) (k : K) (v : V) :
    getP (addNew sh k v) e' = getP sh e' := by
  rw [getP_addNew]; simp [Nat.ne_of_lt h]

theorem getP_addNew_ne {sh : Shared K V} {e' : EId} (h : e' ≠ sh.entries.length) (k : K) (v : V) :
    getP (addNew sh k v) e' = getP sh e' := by
  rw [getP_addNew]; simp [h]

@[simp] theorem getP_addNew_new (sh : Shared K V) (k : K) (v : V) :
    getP (addNew sh k v) sh.entries.length = .val (freshId sh) v := by
  rw [getP_addNew]; simp

omit [DecidableEq K] in
@[simp] theorem getP_mu_update (sh : Shared K V) (m : Option Tid) (e : EId) : getP { sh with mu := m } e = getP sh e := rfl
omit [DecidableEq K] in
@[simp] theorem getP_dirty_update (sh : Shared K V) (d : Option (List (K × EId))) (e : EId) :
    getP { sh with dirty := d } e = getP sh e := rfl
omit [DecidableEq K] in
@[simp] theorem getP_readStore_update (sh : Shared K V) (rm : List (K × EId)) (b : Bool) (e : EId) :
    getP { sh with readM := rm, amended := b } e = getP sh e := rfl
omit [DecidableEq K] in
@[simp] theorem getP_misses_update (sh : Shared K V) (n : Nat) (e : EId) : getP { sh with misses := n } e = getP sh e := rfl
omit [DecidableEq K] in
@[simp] theorem getP_fault_update (sh : Shared K V) (b : Bool) (e : EId) : getP { sh with fault := b } e = getP sh e := rfl
omit [DecidableEq K] in
@[simp] theorem getP_rangeStore_update (sh : Shared K V) (dm : List (K × EId)) (e : EId) :
    getP { sh with readM := dm, amended := false, dirty := none, misses := 0 } e = getP sh e := rfl

/-! ### `freshId` -/
omit [DecidableEq K] in
@[simp] theorem freshId_setP (sh : Shared K V) (e : EId) (p : Ptr V) : freshId (setP sh e p) = freshId sh := rfl
@[simp] theorem freshId_setDirty (sh : Shared K V) (k : K) (e : EId) : freshId (setDirty sh k e) = freshId sh := by
  simp [freshId]
@[simp] theorem freshId_delDirty (sh : Shared K V) (k : K) : freshId (delDirty sh k) = freshId sh := rfl
omit [DecidableEq K] in
@[simp] theorem freshId_unlock (sh : Shared K V) : freshId (unlock sh) = freshId sh := rfl
omit [DecidableEq K] in
@[simp] theorem freshId_promote (sh : Shared K V) : freshId (promote sh) = freshId sh := rfl
omit [DecidableEq K] in
@[simp] theorem freshId_missStep_fst (sh : Shared K V) : freshId (missStep sh).1 = freshId sh := rfl
omit [DecidableEq K] in
@[simp] theorem freshId_mu_update (sh : Shared K V) (m : Option Tid) : freshId { sh with mu := m } = freshId sh := rfl
omit [DecidableEq K] in
theorem freshId_storeVal (sh : Shared K V) (e : EId) (v : V) :
    freshId (storeVal sh e v) = if sh.zst then 0 else sh.nextPtr + 1 := rfl
theorem freshId_addNew (sh : Shared K V) (k : K) (v : V) :
    freshId (addNew sh k v) = if sh.zst then 0 else sh.nextPtr + 1 := by
  simp [freshId]

/-! ### pointer predicates -/
@[simp] theorem isVal_nil : isVal (Ptr.nil : Ptr V) = false := rfl
@[simp] theorem isVal_expunged : isVal (Ptr.expunged : Ptr V) = false := rfl
@[simp] theorem isVal_val (i : Nat) (v : V) : isVal (Ptr.val i v) = true := rfl
@[simp] theorem value?_nil : (Ptr.nil : Ptr V).value? = none := rfl
@[simp] theorem value?_expunged : (Ptr.expunged : Ptr V).value? = none := rfl
@[simp] theorem value?_val (i : Nat) (v : V) : (Ptr.val i v).value? = some v := rfl
@[simp] theorem isExpunged_nil : (Ptr.nil : Ptr V).isExpunged = false := rfl
@[simp] theorem isExpunged_expunged : (Ptr.expunged : Ptr V).isExpunged = true := rfl
@[simp] theorem isExpunged_val (i : Nat) (v : V) : (Ptr.val i v).isExpunged = false := rfl
@[simp] theorem isNil_nil : (Ptr.nil : Ptr V).isNil = true := rfl
@[simp] theorem isNil_expunged : (Ptr.expunged : Ptr V).isNil = false := rfl
@[simp] theorem isNil_val (i : Nat) (v : V) : (Ptr.val i v).isNil = false := rfl

theorem isNil_iff {p : Ptr V} : p.isNil = true ↔ p = .nil := by cases p <;> simp
theorem isExpunged_iff {p : Ptr V} : p.isExpunged = true ↔ p = .expunged := by cases p <;> simp
theorem isVal_iff {p : Ptr V} : isVal p = true ↔ ∃ i v, p = .val i v := by cases p <;> simp
theorem isVal_iff_value? {p : Ptr V} : isVal p = true ↔ ∃ v, p.value? = some v := by cases p <;> simp
theorem value?_eq_some_iff {p : Ptr V} {v : V} : p.value? = some v ↔ ∃ i, p = .val i v := by cases p <;> simp
theorem not_isExpunged_of_isVal {p : Ptr V} (h : isVal p = true) : p.isExpunged = false := by cases p <;> simp at h ⊢
theorem not_isExpunged_of_isNil {p : Ptr V} (h : p.isNil = true) : p.isExpunged = false := by cases p <;> simp at h ⊢
theorem not_isNil_of_isVal {p : Ptr V} (h : isVal p = true) : p.isNil = false := by cases p <;> simp at h ⊢
theorem value?_none_of_isExpunged {p : Ptr V} (h : p.isExpunged = true) : p.value? = none := by cases p <;> simp at h ⊢
theorem value?_none_of_isNil {p : Ptr V} (h : p.isNil = true) : p.value? = none := by cases p <;> simp at h ⊢
theorem isVal_eq_value?_isSome (p : Ptr V) : isVal p = p.value?.isSome := rfl
theorem same_isExpunged {p q : Ptr V} (h : p.same q = true) : p.isExpunged = q.isExpunged := by
  cases p <;> cases q <;> simp [Ptr.same] at h ⊢
theorem same_isNil {p q : Ptr V} (h : p.same q = true) : p.isNil = q.isNil := by
  cases p <;> cases q <;> simp [Ptr.same] at h ⊢
theorem same_isVal {p q : Ptr V} (h : p.same q = true) : isVal p = isVal q := by
  cases p <;> cases q <;> simp [Ptr.same] at h ⊢
@[simp] theorem same_self (p : Ptr V) : p.same p = true := by cases p <;> simp [Ptr.same]

/-! ### `setPc` -/
omit [DecidableEq K] in
@[simp] theorem setPc_sh (s : State K V) (t : Tid) (sh : Shared K V) (pc : Pc K V) : (setPc s t sh pc).sh = sh := rfl
omit [DecidableEq K] in
@[simp] theorem setPc_pcs (s : State K V) (t : Tid) (sh : Shared K V) (pc : Pc K V) :
    (setPc s t sh pc).pcs = s.pcs.set t pc := rfl
omit [DecidableEq K] in
theorem setPc_pcs_length (s : State K V) (t : Tid) (sh : Shared K V) (pc : Pc K V) :
    (setPc s t sh pc).pcs.length = s.pcs.length := by simp

omit [DecidableEq K] in
theorem pc_setPc (s : State K V) (t u : Tid) (sh : Shared K V) (pc : Pc K V) :
    (setPc s t sh pc).pc u = if u = t ∧ t < s.pcs.length then pc else s.pc u := by
  simp only [State.pc, setPc, List.getD_eq_getElem?_getD, List.getElem?_set]
  by_cases h : t = u
  · subst h
    by_cases h1 : t < s.pcs.length
    · simp [h1]
    · simp [h1]
  · have h' : ¬ u = t := fun h2 => h h2.symm
    simp [h, h']

omit [DecidableEq K] in
theorem pc_setPc_self {s : State K V} {t : Tid} (h : t < s.pcs.length) (sh : Shared K V) (pc : Pc K V) :
    (setPc s t sh pc).pc t = pc := by
  rw [pc_setPc]; simp [h]

omit [DecidableEq K] in
theorem pc_setPc_ne {s : State K V} {t u : Tid} (h : u ≠ t) (sh : Shared K V) (pc : Pc K V) :
    (setPc s t sh pc).pc u = s.pc u := by
  rw [pc_setPc]; simp [h]

omit [DecidableEq K] in
theorem pc_of_le {s : State K V} {u : Tid} (h : s.pcs.length ≤ u) : s.pc u = .idle := by
  simp [State.pc, List.getD_eq_getElem?_getD, h]

omit [DecidableEq K] in
theorem pc_eq_getElem {s : State K V} {u : Tid} (h : u < s.pcs.length) : s.pc u = s.pcs[u] := by
  simp [State.pc, List.getD_eq_getElem?_getD, h]

omit [DecidableEq K] in
theorem lt_length_of_pc_ne_idle {s : State K V} {u : Tid} (h : s.pc u ≠ .idle) : u < s.pcs.length := by
  apply Classical.byContradiction
  intro h1
  exact h (pc_of_le (Nat.le_of_not_lt h1))

end Prim


/-! ## 2b. predicates that depend on part of the shared state only -/
section Frame
variable {K V : Type} [DecidableEq K] [DecidableEq V]

/-- `sh'` and `sh` have the same entries and the same maps; they may differ in `mu`, `misses`, `nextPtr`, `fault`,
`zst` (lock, unlock, the non-promoting `missStep`) -/
structure SameData (sh' sh : Shared K V) : Prop where
  entries : sh'.entries = sh.entries
  readM : sh'.readM = sh.readM
  amended : sh'.amended = sh.amended
  dirty : sh'.dirty = sh.dirty

omit [DecidableEq K] [DecidableEq V] in
theorem SameData.refl (sh : Shared K V) : SameData sh sh := ⟨rfl, rfl, rfl, rfl⟩
omit [DecidableEq K] [DecidableEq V] in
theorem SameData.symm {sh sh' : Shared K V} (h : SameData sh' sh) : SameData sh sh' :=
  ⟨h.entries.symm, h.readM.symm, h.amended.symm, h.dirty.symm⟩
omit [DecidableEq K] [DecidableEq V] in
theorem SameData.trans {sh sh' sh'' : Shared K V} (h : SameData sh'' sh') (h' : SameData sh' sh) : SameData sh'' sh :=
  ⟨h.entries.trans h'.entries, h.readM.trans h'.readM, h.amended.trans h'.amended, h.dirty.trans h'.dirty⟩

omit [DecidableEq V] [DecidableEq K] in
theorem SameData.getP {sh sh' : Shared K V} (h : SameData sh' sh) (e : EId) : getP sh' e = getP sh e :=
  getP_congr h.entries e
omit [DecidableEq V] [DecidableEq K] in
theorem SameData.dirtyMap {sh sh' : Shared K V} (h : SameData sh' sh) : dirtyMap sh' = dirtyMap sh :=
  dirtyMap_congr h.dirty
omit [DecidableEq K] [DecidableEq V] in
theorem SameData.length {sh sh' : Shared K V} (h : SameData sh' sh) : sh'.entries.length = sh.entries.length := by
  rw [h.entries]

omit [DecidableEq K] [DecidableEq V] in
@[simp] theorem sameData_unlock (sh : Shared K V) : SameData (unlock sh) sh := ⟨rfl, rfl, rfl, rfl⟩
omit [DecidableEq K] [DecidableEq V] in
@[simp] theorem sameData_mu_update (sh : Shared K V) (m : Option Tid) : SameData { sh with mu := m } sh :=
  ⟨rfl, rfl, rfl, rfl⟩
omit [DecidableEq K] [DecidableEq V] in
@[simp] theorem sameData_missStep_fst (sh : Shared K V) : SameData (missStep sh).1 sh := ⟨rfl, rfl, rfl, rfl⟩
omit [DecidableEq K] [DecidableEq V] in
@[simp] theorem sameData_unlock_missStep_fst (sh : Shared K V) : SameData (unlock (missStep sh).1) sh :=
  ⟨rfl, rfl, rfl, rfl⟩
omit [DecidableEq K] [DecidableEq V] in
@[simp] theorem sameData_misses_update (sh : Shared K V) (n : Nat) : SameData { sh with misses := n } sh :=
  ⟨rfl, rfl, rfl, rfl⟩
omit [DecidableEq K] [DecidableEq V] in
@[simp] theorem sameData_fault_update (sh : Shared K V) (b : Bool) : SameData { sh with fault := b } sh :=
  ⟨rfl, rfl, rfl, rfl⟩
omit [DecidableEq K] [DecidableEq V] in
theorem SameData.unlock_left {sh sh' : Shared K V} (h : SameData sh' sh) : SameData (unlock sh') sh :=
  (sameData_unlock sh').trans h

omit [DecidableEq K] [DecidableEq V] in
/-- a property that does not look at `misses/mu/nextPtr/fault/zst` is the same for `SameData` states -/
theorem SameData.iff_of {P : Shared K V → Prop}
    (hP : ∀ (sh : Shared K V) (mi : Nat) (mu : Option Tid) (np : Nat) (f z : Bool),
      P { sh with misses := mi, mu := mu, nextPtr := np, fault := f, zst := z } ↔ P sh)
    {sh sh' : Shared K V} (h : SameData sh' sh) : P sh' ↔ P sh := by
  have : sh' = { sh with
      misses := sh'.misses, mu := sh'.mu, nextPtr := sh'.nextPtr, fault := sh'.fault, zst := sh'.zst } := by
    obtain ⟨a, b, c, d⟩ := h
    cases sh'; cases sh
    simp only at a b c d
    simp [a, b, c, d]
  rw [this]
  exact hP sh _ _ _ _ _

omit [DecidableEq V] in
theorem absOf_congr {sh sh' : Shared K V} (h : SameData sh' sh) (k : K) : absOf sh' k = absOf sh k := by
  unfold absOf
  rw [h.readM, h.amended, h.dirtyMap]
  cases alookup k sh.readM with
  | some e => simp [h.getP]
  | none => simp only [h.getP]

omit [DecidableEq V] in
/-- the abstraction only looks at `readM`, `amended`, `dirtyMap` and the pointers -/
theorem absOf_congr' {sh sh' : Shared K V} (hr : sh'.readM = sh.readM) (ha : sh'.amended = sh.amended)
    (hd : dirtyMap sh' = dirtyMap sh) (hg : ∀ e, getP sh' e = getP sh e) (k : K) : absOf sh' k = absOf sh k := by
  unfold absOf
  rw [hr, ha, hd]
  cases alookup k sh.readM with
  | some e => simp [hg]
  | none => simp only [hg]

omit [DecidableEq V] in
@[simp] theorem absOf_unlock (sh : Shared K V) (k : K) : absOf (unlock sh) k = absOf sh k := rfl
omit [DecidableEq V] in
@[simp] theorem absOf_mu_update (sh : Shared K V) (m : Option Tid) (k : K) : absOf { sh with mu := m } k = absOf sh k := rfl
omit [DecidableEq V] in
@[simp] theorem absOf_missStep_fst (sh : Shared K V) (k : K) : absOf (missStep sh).1 k = absOf sh k := rfl

omit [DecidableEq V] in
theorem absOf_of_read {sh : Shared K V} {k : K} {e : EId} (h : alookup k sh.readM = some e) :
    absOf sh k = (getP sh e).value? := by
  simp [absOf, h]

omit [DecidableEq V] in
theorem absOf_of_not_amended {sh : Shared K V} {k : K} (h : alookup k sh.readM = none) (ha : sh.amended = false) :
    absOf sh k = none := by
  simp [absOf, h, ha]

omit [DecidableEq V] in
theorem absOf_of_dirty {sh : Shared K V} {k : K} {e : EId} (h : alookup k sh.readM = none) (ha : sh.amended = true)
    (hd : alookup k (dirtyMap sh) = some e) : absOf sh k = (getP sh e).value? := by
  simp [absOf, h, ha, hd]

omit [DecidableEq V] in
theorem absOf_of_none_none {sh : Shared K V} {k : K} (h : alookup k sh.readM = none)
    (hd : alookup k (dirtyMap sh) = none) : absOf sh k = none := by
  simp [absOf, h, hd]

omit [DecidableEq V] in
theorem absOf_of_read_none {sh : Shared K V} {k : K} (h : alookup k sh.readM = none) :
    absOf sh k = if sh.amended then (alookup k (dirtyMap sh)).bind (fun e => (getP sh e).value?) else none := by
  simp [absOf, h]

/-! entry predicates -/

omit [DecidableEq K] [DecidableEq V] in
theorem Dead_congr {sh sh' : Shared K V} (h : SameData sh' sh) (e : EId) : Dead sh' e ↔ Dead sh e :=
  h.iff_of (P := fun sh => Dead sh e) (fun _ _ _ _ _ _ => Iff.rfl)
omit [DecidableEq K] [DecidableEq V] in
theorem Orphan_congr {sh sh' : Shared K V} (h : SameData sh' sh) (e : EId) : Orphan sh' e ↔ Orphan sh e :=
  h.iff_of (P := fun sh => Orphan sh e) (fun _ _ _ _ _ _ => Iff.rfl)
omit [DecidableEq V] in
theorem Cur_congr {sh sh' : Shared K V} (h : SameData sh' sh) (k : K) (e : EId) : Cur sh' k e ↔ Cur sh k e :=
  h.iff_of (P := fun sh => Cur sh k e) (fun _ _ _ _ _ _ => Iff.rfl)
omit [DecidableEq V] in
theorem HoldRead_congr {sh sh' : Shared K V} (h : SameData sh' sh) (k : K) (e : EId) :
    HoldRead sh' k e ↔ HoldRead sh k e :=
  h.iff_of (P := fun sh => HoldRead sh k e) (fun _ _ _ _ _ _ => Iff.rfl)
omit [DecidableEq V] in
theorem HoldDel_congr {sh sh' : Shared K V} (h : SameData sh' sh) (d : Bool) (k : K) (e : EId) (a : APc K V) :
    HoldDel sh' d k e a ↔ HoldDel sh d k e a :=
  h.iff_of (P := fun sh => HoldDel sh d k e a) (fun _ _ _ _ _ _ => Iff.rfl)
omit [DecidableEq V] in
theorem HoldLoad_congr {sh sh' : Shared K V} (h : SameData sh' sh) (k : K) (e : EId) (a : APc K V) :
    HoldLoad sh' k e a ↔ HoldLoad sh k e a :=
  h.iff_of (P := fun sh => HoldLoad sh k e a) (fun _ _ _ _ _ _ => Iff.rfl)
theorem Unlinker_congr {sh sh' : Shared K V} (h : SameData sh' sh) (d : Bool) (k : K) (e : EId) (a : APc K V) :
    Unlinker sh' d k e a ↔ Unlinker sh d k e a :=
  h.iff_of (P := fun sh => Unlinker sh d k e a) (fun _ _ _ _ _ _ => Iff.rfl)
omit [DecidableEq V] in
theorem StoreTarget_congr {sh sh' : Shared K V} (h : SameData sh' sh) (k : K) (e : EId) :
    StoreTarget sh' k e ↔ StoreTarget sh k e :=
  h.iff_of (P := fun sh => StoreTarget sh k e) (fun _ _ _ _ _ _ => Iff.rfl)
omit [DecidableEq V] in
theorem Building_congr {sh sh' : Shared K V} (h : SameData sh' sh) (u : List (K × EId)) :
    Building sh' u ↔ Building sh u :=
  h.iff_of (P := fun sh => Building sh u) (fun _ _ _ _ _ _ => Iff.rfl)

omit [DecidableEq V] in
theorem RangeHold_congr {sh sh' : Shared K V} (h : SameData sh' sh) (todo : List (K × EId)) (acc : List (K × V)) :
    RangeHold sh' todo acc ↔ RangeHold sh todo acc := by
  simp only [RangeHold, HoldRead_congr h]

omit [DecidableEq K] [DecidableEq V] in
theorem Own_unlock (sh : Shared K V) (t : Tid) : ¬ Own (unlock sh) t := by simp [Own]
omit [DecidableEq K] [DecidableEq V] in
@[simp] theorem Own_mu_update (sh : Shared K V) (m : Option Tid) (t : Tid) : Own { sh with mu := m } t ↔ m = some t :=
  Iff.rfl
omit [DecidableEq K] [DecidableEq V] in
theorem Own_lock (sh : Shared K V) (t u : Tid) : Own { sh with mu := some t } u ↔ t = u := by simp [Own]
omit [DecidableEq K] [DecidableEq V] in
@[simp] theorem Own_unlock_iff (sh : Shared K V) (t : Tid) : Own (unlock sh) t ↔ False := by simp [Own]
omit [DecidableEq K] [DecidableEq V] in
@[simp] theorem Own_setP (sh : Shared K V) (e : EId) (p : Ptr V) (t : Tid) : Own (setP sh e p) t ↔ Own sh t := Iff.rfl
omit [DecidableEq K] [DecidableEq V] in
@[simp] theorem Own_storeVal (sh : Shared K V) (e : EId) (v : V) (t : Tid) : Own (storeVal sh e v) t ↔ Own sh t :=
  Iff.rfl
omit [DecidableEq V] in
@[simp] theorem Own_setDirty (sh : Shared K V) (k : K) (e : EId) (t : Tid) : Own (setDirty sh k e) t ↔ Own sh t := by
  simp [Own]
omit [DecidableEq V] in
@[simp] theorem Own_delDirty (sh : Shared K V) (k : K) (t : Tid) : Own (delDirty sh k) t ↔ Own sh t := Iff.rfl
omit [DecidableEq V] in
@[simp] theorem Own_addNew (sh : Shared K V) (k : K) (v : V) (t : Tid) : Own (addNew sh k v) t ↔ Own sh t := by
  simp [Own]
omit [DecidableEq K] [DecidableEq V] in
@[simp] theorem Own_promote (sh : Shared K V) (t : Tid) : Own (promote sh) t ↔ Own sh t := Iff.rfl
omit [DecidableEq K] [DecidableEq V] in
@[simp] theorem Own_missStep_fst (sh : Shared K V) (t : Tid) : Own (missStep sh).1 t ↔ Own sh t := Iff.rfl
omit [DecidableEq K] [DecidableEq V] in
theorem Own_congr {sh sh' : Shared K V} (h : sh'.mu = sh.mu) (t : Tid) : Own sh' t ↔ Own sh t := by
  unfold Own; rw [h]

omit [DecidableEq V] in
theorem NewTail_congr {sh sh' : Shared K V} (h : SameData sh' sh) {t : Tid} (ho : Own sh' t ↔ Own sh t) (c : NewCtx)
    (k : K) (v : V) (rm : List (K × EId)) (a : APc K V) : NewTail sh' t c k v rm a ↔ NewTail sh t c k v rm a := by
  simp only [NewTail, ho, h.readM, h.amended]
omit [DecidableEq K] [DecidableEq V] in
theorem Promoting_congr {sh sh' : Shared K V} (h : SameData sh' sh) {t : Tid} (ho : Own sh' t ↔ Own sh t) :
    Promoting sh' t ↔ Promoting sh t := by
  simp only [Promoting, ho, h.amended, h.dirty]
omit [DecidableEq V] in
theorem LosHold_congr {sh sh' : Shared K V} (h : SameData sh' sh) {t : Tid} (ho : Own sh' t ↔ Own sh t) (c : LosCtx)
    (k : K) (e : EId) : LosHold sh' t c k e ↔ LosHold sh t c k e := by
  cases c <;> simp only [LosHold, ho, h.readM, h.dirtyMap, h.getP, HoldRead_congr h]
theorem DelHold_congr {sh sh' : Shared K V} (h : SameData sh' sh) {t : Tid} (ho : Own sh' t ↔ Own sh t) (d : Bool)
    (k : K) (e : EId) (a : APc K V) : DelHold sh' t d k e a ↔ DelHold sh t d k e a := by
  simp only [DelHold, ho, HoldDel_congr h, Unlinker_congr h]

/-- `T` looks at entries, maps and at whether `t` itself holds the mutex -/
theorem T_congr {sh sh' : Shared K V} (h : SameData sh' sh) {t : Tid} (ho : Own sh' t ↔ Own sh t) (pc : Pc K V)
    (a : APc K V) : T sh' t pc a ↔ T sh t pc a := by
  cases pc with
  | start op => cases op <;> simp only [T, ho]
  | ret r => cases r <;> simp only [T, ho]
  | ladMiss d k e =>
    cases e <;> simp only [T, Promoting_congr h ho, h.readM, h.dirtyMap, Unlinker_congr h]
  | _ =>
    simp only [T, ho, h.readM, h.amended, h.dirty, h.dirtyMap, h.getP, HoldRead_congr h, HoldLoad_congr h,
      StoreTarget_congr h, Building_congr h, NewTail_congr h ho, Promoting_congr h ho, LosHold_congr h ho,
      DelHold_congr h ho, Unlinker_congr h, RangeHold_congr h]

/-- bystander version: `mu` changed hands between other goroutines or not at all -/
theorem T_congr_mu {sh sh' : Shared K V} (h : SameData sh' sh) {t : Tid} (hm : sh'.mu = sh.mu) (pc : Pc K V)
    (a : APc K V) : T sh' t pc a ↔ T sh t pc a :=
  T_congr h (Own_congr hm t) pc a

end Frame


/-! ## 2c. entry predicates: elementary facts -/
section Entry
variable {K V : Type} [DecidableEq K] [DecidableEq V]

omit [DecidableEq K] [DecidableEq V] in
theorem Dead.not_orphan {sh : Shared K V} {e : EId} (h : Dead sh e) : ¬ Orphan sh e := by
  intro h1; have := h.1; rw [h1.1] at this; cases this
omit [DecidableEq K] [DecidableEq V] in
theorem Orphan.not_dead {sh : Shared K V} {e : EId} (h : Orphan sh e) : ¬ Dead sh e :=
  fun h1 => h1.not_orphan h
omit [DecidableEq V] in
theorem Dead.alookup_read_ne {sh : Shared K V} {e : EId} (h : Dead sh e) (k : K) : alookup k sh.readM ≠ some e :=
  alookup_ne_of_not_mem_vals h.2.1
omit [DecidableEq V] in
theorem Dead.alookup_dirty_ne {sh : Shared K V} {e : EId} (h : Dead sh e) (k : K) :
    alookup k (dirtyMap sh) ≠ some e :=
  alookup_ne_of_not_mem_vals h.2.2
omit [DecidableEq V] in
theorem Orphan.alookup_read_ne {sh : Shared K V} {e : EId} (h : Orphan sh e) (k : K) : alookup k sh.readM ≠ some e :=
  alookup_ne_of_not_mem_vals h.2.1
omit [DecidableEq V] in
theorem Orphan.alookup_dirty_ne {sh : Shared K V} {e : EId} (h : Orphan sh e) (k : K) :
    alookup k (dirtyMap sh) ≠ some e :=
  alookup_ne_of_not_mem_vals h.2.2
omit [DecidableEq K] [DecidableEq V] in
theorem Dead.value? {sh : Shared K V} {e : EId} (h : Dead sh e) : (getP sh e).value? = none :=
  value?_none_of_isExpunged h.1
omit [DecidableEq V] [DecidableEq K] in
theorem Dead.lt_length {sh : Shared K V} {e : EId} (h : Dead sh e) : e < sh.entries.length :=
  lt_length_of_getP_ne_nil (by intro h1; have := h.1; rw [h1] at this; cases this)

omit [DecidableEq K] [DecidableEq V] in
/-- in neither map: dead or orphan -/
theorem dead_or_orphan {sh : Shared K V} {e : EId} (hr : e ∉ vals sh.readM) (hd : e ∉ vals (dirtyMap sh)) :
    Dead sh e ∨ Orphan sh e := by
  cases h : (getP sh e).isExpunged
  · exact Or.inr ⟨h, hr, hd⟩
  · exact Or.inl ⟨h, hr, hd⟩

omit [DecidableEq V] in
theorem Cur.unique {sh : Shared K V} {k : K} {e e' : EId} (h : Cur sh k e) (h' : Cur sh k e') : e = e' := by
  rcases h with h | ⟨h1, h2⟩ <;> rcases h' with h' | ⟨h1', h2'⟩
  · rw [h] at h'; exact Option.some.inj h'
  · rw [h] at h1'; cases h1'
  · rw [h'] at h1; cases h1
  · rw [h2] at h2'; exact Option.some.inj h2'

omit [DecidableEq V] in
theorem Cur.mem_vals {sh : Shared K V} {k : K} {e : EId} (h : Cur sh k e) :
    e ∈ vals sh.readM ∨ e ∈ vals (dirtyMap sh) := by
  rcases h with h | ⟨_, h2⟩
  · exact Or.inl (mem_vals_of_alookup h)
  · exact Or.inr (mem_vals_of_alookup h2)

omit [DecidableEq V] in
theorem Cur.not_dead {sh : Shared K V} {k : K} {e : EId} (h : Cur sh k e) : ¬ Dead sh e := by
  intro hd
  rcases h.mem_vals with h1 | h1
  · exact hd.2.1 h1
  · exact hd.2.2 h1

omit [DecidableEq V] in
theorem Cur.not_orphan {sh : Shared K V} {k : K} {e : EId} (h : Cur sh k e) : ¬ Orphan sh e := by
  intro hd
  rcases h.mem_vals with h1 | h1
  · exact hd.2.1 h1
  · exact hd.2.2 h1

omit [DecidableEq V] in
theorem Cur_of_read {sh : Shared K V} {k : K} {e : EId} (h : alookup k sh.readM = some e) : Cur sh k e := Or.inl h
omit [DecidableEq V] in
theorem Cur_of_dirty {sh : Shared K V} {k : K} {e : EId} (h : alookup k sh.readM = none)
    (hd : alookup k (dirtyMap sh) = some e) : Cur sh k e := Or.inr ⟨h, hd⟩

omit [DecidableEq V] in
theorem Cur_iff_of_read {sh : Shared K V} {k : K} {e e' : EId} (h : alookup k sh.readM = some e) :
    Cur sh k e' ↔ e' = e := by
  constructor
  · intro h1; exact h1.unique (Cur_of_read h)
  · rintro rfl; exact Cur_of_read h

omit [DecidableEq V] in
theorem Cur_iff_of_read_none {sh : Shared K V} {k : K} {e' : EId} (h : alookup k sh.readM = none) :
    Cur sh k e' ↔ alookup k (dirtyMap sh) = some e' := by
  simp [Cur, h]

omit [DecidableEq V] in
theorem StoreTarget.cur {sh : Shared K V} {k : K} {e : EId} (h : StoreTarget sh k e) : Cur sh k e := by
  rcases h with h | h
  · exact Or.inl h.1
  · exact Or.inr h

omit [DecidableEq V] in
theorem HoldRead.lt_length {sh : Shared K V} {k : K} {e : EId} (h : HoldRead sh k e) : e < sh.entries.length := h.1
omit [DecidableEq V] in
theorem HoldDel.lt_length {sh : Shared K V} {d : Bool} {k : K} {e : EId} {a : APc K V} (h : HoldDel sh d k e a) :
    e < sh.entries.length := h.1
omit [DecidableEq V] in
theorem HoldLoad.lt_length {sh : Shared K V} {k : K} {e : EId} {a : APc K V} (h : HoldLoad sh k e a) :
    e < sh.entries.length := h.1
theorem Unlinker.lt_length {sh : Shared K V} {d : Bool} {k : K} {e : EId} {a : APc K V} (h : Unlinker sh d k e a) :
    e < sh.entries.length := h.1

/-- the unlinked entry holds a value, the unlinker's call has taken effect with that value -/
theorem Unlinker.spec {sh : Shared K V} {d : Bool} {k : K} {e : EId} {a : APc K V} (h : Unlinker sh d k e a) :
    ∃ v, (getP sh e).value? = some v ∧ DoneWith a (isOp (ladOp d k)) (delRes d v) := by
  obtain ⟨_, _, _, h4⟩ := h
  cases hv : (getP sh e).value? with
  | none => rw [hv] at h4; exact h4.elim
  | some v => rw [hv] at h4; exact ⟨v, rfl, h4⟩

theorem Unlinker.orphan {sh : Shared K V} {d : Bool} {k : K} {e : EId} {a : APc K V} (h : Unlinker sh d k e a) :
    Orphan sh e := by
  obtain ⟨v, hv, _⟩ := h.spec
  refine ⟨?_, h.2.1, h.2.2.1⟩
  cases hp : getP sh e <;> simp [hp] at hv ⊢

theorem Unlinker_iff {sh : Shared K V} {d : Bool} {k : K} {e : EId} {a : APc K V} :
    Unlinker sh d k e a ↔ e < sh.entries.length ∧ e ∉ vals sh.readM ∧ e ∉ vals (dirtyMap sh) ∧
      ∃ v, (getP sh e).value? = some v ∧ DoneWith a (isOp (ladOp d k)) (delRes d v) := by
  constructor
  · intro h; exact ⟨h.1, h.2.1, h.2.2.1, h.spec⟩
  · rintro ⟨h1, h2, h3, v, hv, hd⟩
    refine ⟨h1, h2, h3, ?_⟩
    rw [hv]; exact hd

omit [DecidableEq V] in
theorem Building_nil (sh : Shared K V) : Building sh [] := by
  refine ⟨by simp, ?_⟩
  intro p hp; cases hp

omit [DecidableEq V] in
theorem Building.tail {sh : Shared K V} {p : K × EId} {u : List (K × EId)} (h : Building sh (p :: u)) :
    Building sh u := by
  refine ⟨?_, fun q hq => h.2 q (List.mem_cons_of_mem _ hq)⟩
  have := h.1
  simp only [akeys_cons, List.nodup_cons] at this
  exact this.2

omit [DecidableEq V] in
theorem Building.head {sh : Shared K V} {p : K × EId} {u : List (K × EId)} (h : Building sh (p :: u)) :
    p ∈ sh.readM ∧ alookup p.1 (dirtyMap sh) = none ∧ p.2 ∉ vals (dirtyMap sh) ∧ (getP sh p.2).isExpunged = false :=
  h.2 p (List.mem_cons_self ..)

omit [DecidableEq V] in
theorem Building.head_not_mem {sh : Shared K V} {p : K × EId} {u : List (K × EId)} (h : Building sh (p :: u)) :
    p ∉ u := by
  have := h.1
  simp only [akeys_cons, List.nodup_cons] at this
  exact fun h1 => this.1 (mem_akeys_of_mem' h1)

omit [DecidableEq V] in
/-- the choice made at `dirtyPick` (`picks`) -/
theorem Building.pick {sh : Shared K V} {u : List (K × EId)} (h : Building sh u) {p : K × EId} (hp : p ∈ u) :
    Building sh ((p.1, p.2) :: aerase p.1 u) := by
  refine ⟨nodup_akeys_cons_aerase h.1, ?_⟩
  intro q hq
  exact h.2 q ((mem_cons_aerase h.1 hp).mp hq)

/-! #### the `Range` loop -/

omit [DecidableEq V] in
/-- past the loop: the callback keys are pairwise distinct -/
theorem RangeHold.nil_iff {sh : Shared K V} {acc : List (K × V)} :
    RangeHold sh [] acc ↔ (acc.map Prod.fst).Nodup := by
  unfold RangeHold
  constructor
  · intro h; simpa using h.1
  · intro h; exact ⟨by simpa using h, fun p hp => by cases hp⟩

omit [DecidableEq V] in
/-- loop entry: the snapshot is the current `read.m` -/
theorem RangeHold.snapshot {sh : Shared K V} {rm : List (K × EId)} (hrm : rm = sh.readM) (hn : (akeys rm).Nodup)
    (hb : ∀ p ∈ rm, p.2 < sh.entries.length) : RangeHold sh rm [] := by
  refine ⟨by simpa using hn, fun p hp => ⟨hb p hp, Or.inl ?_⟩⟩
  rw [← hrm]
  exact alookup_of_mem' hn hp

omit [DecidableEq V] in
/-- the choice made at `rangePick` (`picks`) -/
theorem RangeHold.pick {sh : Shared K V} {todo : List (K × EId)} {acc : List (K × V)} (h : RangeHold sh todo acc)
    {p : K × EId} (hp : p ∈ todo) : RangeHold sh ((p.1, p.2) :: aerase p.1 todo) acc := by
  have hn : (akeys todo).Nodup := (List.nodup_append.mp h.1).1
  refine ⟨?_, fun q hq => h.2 q ((mem_cons_aerase hn hp).mp hq)⟩
  exact (((akeys_perm_cons_aerase hn hp).append_right (acc.map Prod.fst)).nodup_iff).mpr h.1

omit [DecidableEq V] in
/-- `rangeLoad` found nil/expunged: the key is skipped -/
theorem RangeHold.skip {sh : Shared K V} {k' : K} {e' : EId} {todo : List (K × EId)} {acc : List (K × V)}
    (h : RangeHold sh ((k', e') :: todo) acc) : RangeHold sh todo acc := by
  refine ⟨?_, fun q hq => h.2 q (List.mem_cons_of_mem _ hq)⟩
  have := h.1
  simp only [akeys_cons, List.cons_append, List.nodup_cons] at this
  exact this.2

omit [DecidableEq V] in
/-- `rangeLoad` found a value: the callback is called with `(k', w)` -/
theorem RangeHold.push {sh : Shared K V} {k' : K} {e' : EId} {todo : List (K × EId)} {acc : List (K × V)}
    (h : RangeHold sh ((k', e') :: todo) acc) (w : V) : RangeHold sh todo (acc ++ [(k', w)]) := by
  refine ⟨?_, fun q hq => h.2 q (List.mem_cons_of_mem _ hq)⟩
  have h1 := h.1
  simp only [akeys_cons, List.cons_append] at h1
  simp only [List.map_append, List.map_cons, List.map_nil, ← List.append_assoc]
  exact (List.perm_append_singleton k' (akeys todo ++ acc.map Prod.fst)).nodup_iff.mpr h1

omit [DecidableEq V] in
theorem RangeHold.head {sh : Shared K V} {k' : K} {e' : EId} {todo : List (K × EId)} {acc : List (K × V)}
    (h : RangeHold sh ((k', e') :: todo) acc) : HoldRead sh k' e' :=
  h.2 (k', e') (List.mem_cons_self ..)

end Entry

/-! ## 3. consequences of `G` -/
section GFacts
variable {K V : Type} [DecidableEq K] [DecidableEq V]
variable {s : State K V} {apcs : Nat → APc K V}

omit [DecidableEq V] in
/-- (A) -/
theorem G.mem_read_iff (g : G s apcs) {k : K} {e : EId} : (k, e) ∈ s.sh.readM ↔ alookup k s.sh.readM = some e :=
  mem_iff_alookup g.keysR
omit [DecidableEq V] in
theorem G.mem_dirty_iff (g : G s apcs) {k : K} {e : EId} :
    (k, e) ∈ dirtyMap s.sh ↔ alookup k (dirtyMap s.sh) = some e :=
  mem_iff_alookup g.keysD
omit [DecidableEq V] in
theorem G.mem_read_iff' (g : G s apcs) {p : K × EId} : p ∈ s.sh.readM ↔ alookup p.1 s.sh.readM = some p.2 :=
  mem_iff_alookup' g.keysR
omit [DecidableEq V] in
theorem G.mem_dirty_iff' (g : G s apcs) {p : K × EId} :
    p ∈ dirtyMap s.sh ↔ alookup p.1 (dirtyMap s.sh) = some p.2 :=
  mem_iff_alookup' g.keysD

omit [DecidableEq V] in
theorem G.mem_vals_read_iff (g : G s apcs) {e : EId} : e ∈ vals s.sh.readM ↔ ∃ k, alookup k s.sh.readM = some e :=
  mem_vals_iff_alookup g.keysR
omit [DecidableEq V] in
theorem G.mem_vals_dirty_iff (g : G s apcs) {e : EId} :
    e ∈ vals (dirtyMap s.sh) ↔ ∃ k, alookup k (dirtyMap s.sh) = some e :=
  mem_vals_iff_alookup g.keysD

omit [DecidableEq V] in
/-- (A): an entry occurs under one key only -/
theorem G.entry_one_key_read (g : G s apcs) {k k' : K} {e : EId} (h : alookup k s.sh.readM = some e)
    (h' : alookup k' s.sh.readM = some e) : k = k' :=
  alookup_inj g.valsR h h'
omit [DecidableEq V] in
theorem G.entry_one_key_dirty (g : G s apcs) {k k' : K} {e : EId} (h : alookup k (dirtyMap s.sh) = some e)
    (h' : alookup k' (dirtyMap s.sh) = some e) : k = k' :=
  alookup_inj g.valsD h h'

omit [DecidableEq V] in
theorem G.read_lt_length (g : G s apcs) {k : K} {e : EId} (h : alookup k s.sh.readM = some e) :
    e < s.sh.entries.length :=
  g.boundR _ (mem_of_alookup h)
omit [DecidableEq V] in
theorem G.dirty_lt_length (g : G s apcs) {k : K} {e : EId} (h : alookup k (dirtyMap s.sh) = some e) :
    e < s.sh.entries.length :=
  g.boundD _ (mem_of_alookup h)
omit [DecidableEq V] in
theorem G.vals_read_lt_length (g : G s apcs) {e : EId} (h : e ∈ vals s.sh.readM) : e < s.sh.entries.length := by
  obtain ⟨k, hk⟩ := mem_vals_iff.mp h
  exact g.boundR _ hk
omit [DecidableEq V] in
theorem G.vals_dirty_lt_length (g : G s apcs) {e : EId} (h : e ∈ vals (dirtyMap s.sh)) : e < s.sh.entries.length := by
  obtain ⟨k, hk⟩ := mem_vals_iff.mp h
  exact g.boundD _ hk
omit [DecidableEq V] in
theorem G.cur_lt_length (g : G s apcs) {k : K} {e : EId} (h : Cur s.sh k e) : e < s.sh.entries.length := by
  rcases h with h | ⟨_, h⟩
  · exact g.read_lt_length h
  · exact g.dirty_lt_length h
omit [DecidableEq V] in
/-- a freshly allocated entry (`addNew`) is in neither map -/
theorem G.length_not_mem_vals_read (g : G s apcs) : s.sh.entries.length ∉ vals s.sh.readM :=
  fun h => Nat.lt_irrefl _ (g.vals_read_lt_length h)
omit [DecidableEq V] in
theorem G.length_not_mem_vals_dirty (g : G s apcs) : s.sh.entries.length ∉ vals (dirtyMap s.sh) :=
  fun h => Nat.lt_irrefl _ (g.vals_dirty_lt_length h)

omit [DecidableEq V] in
/-- (B), live half -/
theorem G.read_live_in_dirty (g : G s apcs) {k : K} {e : EId} (h : alookup k s.sh.readM = some e)
    (hu : (k, e) ∉ unprocessed s) (hl : (getP s.sh e).isExpunged = false) (hd : s.sh.dirty.isSome = true) :
    alookup k (dirtyMap s.sh) = some e := by
  have := g.readDirty (k, e) (mem_of_alookup h) hu
  simp only [hl] at this
  exact this hd

omit [DecidableEq V] in
/-- (B), expunged half -/
theorem G.read_expunged_not_in_dirty (g : G s apcs) {k : K} {e : EId} (h : alookup k s.sh.readM = some e)
    (hu : (k, e) ∉ unprocessed s) (hx : (getP s.sh e).isExpunged = true) :
    s.sh.dirty.isSome = true ∧ alookup k (dirtyMap s.sh) = none ∧ e ∉ vals (dirtyMap s.sh) := by
  have := g.readDirty (k, e) (mem_of_alookup h) hu
  simp only [hx, if_true] at this
  exact this

omit [DecidableEq V] in
/-- (B): a processed `read.m` entry that the dirty map holds is live and sits under the same key -/
theorem G.read_dirty_same_key (g : G s apcs) {k k' : K} {e : EId} (h : alookup k s.sh.readM = some e)
    (hu : (k, e) ∉ unprocessed s) (hd : alookup k' (dirtyMap s.sh) = some e) :
    k' = k ∧ (getP s.sh e).isExpunged = false := by
  cases hx : (getP s.sh e).isExpunged with
  | true => exact absurd (mem_vals_of_alookup hd) (g.read_expunged_not_in_dirty h hu hx).2.2
  | false =>
    have h1 := g.read_live_in_dirty h hu hx (dirty_isSome_of_alookup_dirtyMap hd)
    exact ⟨g.entry_one_key_dirty hd h1, rfl⟩

omit [DecidableEq V] in
/-- (B), the form asked for: live `read.m[k] = e`, processed, and `dirty[k'] = e` give `k' = k`.
(Without `hu` this is not a consequence of `G` alone: `G.readDirty` says nothing about unprocessed pairs; for those
use `T`'s `Building`, see `read_dirty_same_key_of_T` below.) -/
theorem G.read_live_dirty_key (g : G s apcs) {k k' : K} {e : EId} (h : alookup k s.sh.readM = some e)
    (hu : (k, e) ∉ unprocessed s) (hl : (getP s.sh e).isExpunged = false) (hd : alookup k' (dirtyMap s.sh) = some e) :
    k' = k :=
  (g.read_dirty_same_key h hu hd).1

omit [DecidableEq V] in
/-- (B): a processed `read.m` entry in the dirty map: `dirty[k] = e` exactly -/
theorem G.read_in_dirty (g : G s apcs) {k : K} {e : EId} (h : alookup k s.sh.readM = some e)
    (hu : (k, e) ∉ unprocessed s) (hd : e ∈ vals (dirtyMap s.sh)) : alookup k (dirtyMap s.sh) = some e := by
  obtain ⟨k', hk'⟩ := g.mem_vals_dirty_iff.mp hd
  obtain ⟨h1, _⟩ := g.read_dirty_same_key h hu hk'
  exact h1 ▸ hk'

omit [DecidableEq V] in
/-- (B): the dirty map agrees with a processed `read.m` key, or lacks it because the entry is expunged -/
theorem G.dirty_of_read (g : G s apcs) {k : K} {e : EId} (h : alookup k s.sh.readM = some e)
    (hu : (k, e) ∉ unprocessed s) (hd : s.sh.dirty.isSome = true) :
    alookup k (dirtyMap s.sh) = if (getP s.sh e).isExpunged then none else some e := by
  cases hx : (getP s.sh e).isExpunged with
  | true => simpa using (g.read_expunged_not_in_dirty h hu hx).2.1
  | false => simpa using g.read_live_in_dirty h hu hx hd

omit [DecidableEq V] in
/-- (C) -/
theorem G.dirty_sub (g : G s apcs) (ha : s.sh.amended = false) {k : K} {e : EId}
    (h : alookup k (dirtyMap s.sh) = some e) : alookup k s.sh.readM = some e :=
  g.dirtySub ha (k, e) (mem_of_alookup h)

omit [DecidableEq V] in
/-- (C) -/
theorem G.amended_of_dirty_only (g : G s apcs) {k : K} {e : EId} (h : alookup k s.sh.readM = none)
    (hd : alookup k (dirtyMap s.sh) = some e) : s.sh.amended = true := by
  cases ha : s.sh.amended with
  | true => rfl
  | false => rw [g.dirty_sub ha hd] at h; cases h

omit [DecidableEq V] in
/-- (C): not amended and `read.m` lacks `k`: so does the dirty map -/
theorem G.dirty_none_of_not_amended (g : G s apcs) (ha : s.sh.amended = false) {k : K}
    (h : alookup k s.sh.readM = none) : alookup k (dirtyMap s.sh) = none := by
  cases hd : alookup k (dirtyMap s.sh) with
  | none => rfl
  | some e => rw [g.dirty_sub ha hd] at h; cases h

omit [DecidableEq V] in
/-- (D) -/
theorem G.dirty_only_isVal (g : G s apcs) {k : K} {e : EId} (h : alookup k s.sh.readM = none)
    (hd : alookup k (dirtyMap s.sh) = some e) : isVal (getP s.sh e) = true :=
  g.dirtyLive (k, e) (mem_of_alookup hd) h

omit [DecidableEq V] in
theorem G.dirty_only_value (g : G s apcs) {k : K} {e : EId} (h : alookup k s.sh.readM = none)
    (hd : alookup k (dirtyMap s.sh) = some e) : ∃ v, (getP s.sh e).value? = some v :=
  isVal_iff_value?.mp (g.dirty_only_isVal h hd)

omit [DecidableEq V] in
theorem G.dirty_only_not_expunged (g : G s apcs) {k : K} {e : EId} (h : alookup k s.sh.readM = none)
    (hd : alookup k (dirtyMap s.sh) = some e) : (getP s.sh e).isExpunged = false :=
  not_isExpunged_of_isVal (g.dirty_only_isVal h hd)

omit [DecidableEq V] in
/-- (E) -/
theorem G.dirty_isSome_of_amended (g : G s apcs) (ha : s.sh.amended = true) : s.sh.dirty.isSome = true := by
  cases hd : s.sh.dirty with
  | some d => rfl
  | none => rw [g.s1 hd] at ha; cases ha

omit [DecidableEq V] in
theorem G.not_amended_of_dirty_none (g : G s apcs) (hd : s.sh.dirty = none) : s.sh.amended = false := g.s1 hd

omit [DecidableEq V] in
/-- (E): no dirty map: no processed `read.m` entry is expunged -/
theorem G.dirty_none_no_expunged (g : G s apcs) (hd : s.sh.dirty = none) {k : K} {e : EId}
    (h : alookup k s.sh.readM = some e) (hu : (k, e) ∉ unprocessed s) : (getP s.sh e).isExpunged = false := by
  cases hx : (getP s.sh e).isExpunged with
  | false => rfl
  | true =>
    have := (g.read_expunged_not_in_dirty h hu hx).1
    rw [hd] at this; cases this

omit [DecidableEq V] in
/-- an expunged processed entry of `read.m` proves that a dirty map exists -/
theorem G.dirty_isSome_of_expunged (g : G s apcs) {k : K} {e : EId} (h : alookup k s.sh.readM = some e)
    (hu : (k, e) ∉ unprocessed s) (hx : (getP s.sh e).isExpunged = true) : s.sh.dirty.isSome = true :=
  (g.read_expunged_not_in_dirty h hu hx).1

omit [DecidableEq V] in
/-- a dirty-only entry is not in `read.m` at all (given that no pair of `read.m` holding it is unprocessed) -/
theorem G.dirty_only_not_in_read (g : G s apcs) {k : K} {e : EId} (h : alookup k s.sh.readM = none)
    (hd : alookup k (dirtyMap s.sh) = some e) (hu : ∀ k', (k', e) ∉ unprocessed s) : e ∉ vals s.sh.readM := by
  intro hm
  obtain ⟨k', hk'⟩ := g.mem_vals_read_iff.mp hm
  obtain ⟨h1, _⟩ := g.read_dirty_same_key hk' (hu k') hd
  subst h1
  rw [h] at hk'; cases hk'

omit [DecidableEq V] in
/-- an entry in both maps sits under the same key in both -/
theorem G.same_key_of_both (g : G s apcs) {k k' : K} {e : EId} (h : alookup k s.sh.readM = some e)
    (hd : alookup k' (dirtyMap s.sh) = some e) (hu : (k, e) ∉ unprocessed s) : k' = k :=
  (g.read_dirty_same_key h hu hd).1

omit [DecidableEq V] in
theorem G.not_fault (g : G s apcs) : s.sh.fault = false := g.nofault

omit [DecidableEq V] in
theorem G.mu_lt_length (g : G s apcs) {t : Tid} (h : Own s.sh t) : t < s.pcs.length := g.muBound t h

omit [DecidableEq V] in
/-- goroutines beyond `pcs` do not hold the mutex -/
theorem G.not_own_of_le (g : G s apcs) {t : Tid} (h : s.pcs.length ≤ t) : ¬ Own s.sh t :=
  fun h1 => Nat.lt_irrefl _ (Nat.lt_of_lt_of_le (g.mu_lt_length h1) h)

omit [DecidableEq V] in
/-- the abstraction at a key whose current entry is known -/
theorem G.absOf_of_cur (g : G s apcs) {k : K} {e : EId} (h : Cur s.sh k e) : absOf s.sh k = (getP s.sh e).value? := by
  rcases h with h | ⟨h1, h2⟩
  · exact absOf_of_read h
  · exact absOf_of_dirty h1 (g.amended_of_dirty_only h1 h2) h2

omit [DecidableEq V] in
theorem G.absOf_isSome_of_dirty_only (g : G s apcs) {k : K} {e : EId} (h : alookup k s.sh.readM = none)
    (hd : alookup k (dirtyMap s.sh) = some e) : ∃ v, absOf s.sh k = some v := by
  rw [g.absOf_of_cur (Cur_of_dirty h hd)]
  exact g.dirty_only_value h hd

omit [DecidableEq V] in
/-- a key in neither map is absent -/
theorem G.absOf_none_of_no_cur (g : G s apcs) {k : K} (h : alookup k s.sh.readM = none)
    (hd : alookup k (dirtyMap s.sh) = none) : absOf s.sh k = none :=
  absOf_of_none_none h hd

omit [DecidableEq V] in
/-- the entries of `unlinkedPc` of two different goroutines differ -/
theorem G.unlinked_ne (g : G s apcs) {t u : Tid} (ht : t < s.pcs.length) (hu : u < s.pcs.length) (hne : t ≠ u)
    {e e' : EId} (h : e ∈ unlinkedPc (s.pc t) (apcs t)) (h' : e' ∈ unlinkedPc (s.pc u) (apcs u)) : e ≠ e' := by
  intro h1
  subst h1
  exact g.unlinked t u ht hu hne e h h'

end GFacts


/-! ## 6. `Own`: who holds the mutex (placed before §4, which uses it) -/
section OwnLock
variable {K V : Type} [DecidableEq K] [DecidableEq V]

omit [DecidableEq K] [DecidableEq V] in
theorem Own.unique {sh : Shared K V} {t u : Tid} (h : Own sh t) (h' : Own sh u) : t = u := by
  unfold Own at h h'
  rw [h] at h'
  exact Option.some.inj h'

omit [DecidableEq K] [DecidableEq V] in
theorem Own_iff {sh : Shared K V} {t : Tid} : Own sh t ↔ sh.mu = some t := Iff.rfl

omit [DecidableEq K] [DecidableEq V] in
theorem not_Own_of_mu_none {sh : Shared K V} (h : sh.mu = none) (t : Tid) : ¬ Own sh t := by
  unfold Own; rw [h]; simp

omit [DecidableEq K] [DecidableEq V] in
theorem Own_of_mu_some {sh : Shared K V} {t u : Tid} (h : sh.mu = some t) : Own sh u ↔ u = t := by
  unfold Own; rw [h]; simp [eq_comm]

omit [DecidableEq K] [DecidableEq V] in
theorem not_Own_of_ne {sh : Shared K V} {t u : Tid} (h : Own sh t) (hne : u ≠ t) : ¬ Own sh u :=
  fun h' => hne (h'.unique h)

/-- the pcs at which a goroutine holds `m.mu` (for `losLoad/losCas/losLoad2`: in the two slow contexts) -/
def lockedPc : Pc K V → Bool
  | .loadRead2 _ => true
  | .loadMiss _ _ => true
  | .storeRead2 _ _ => true
  | .storeUnexp _ _ _ => true
  | .storeLocked _ _ _ => true
  | .dirtyRead _ _ _ _ => true
  | .dirtyPick _ _ _ _ _ => true
  | .expLoad _ _ _ _ _ _ _ => true
  | .expCas _ _ _ _ _ _ _ => true
  | .expLoad2 _ _ _ _ _ _ _ => true
  | .readStore _ _ _ _ => true
  | .losLoad c _ _ _ => decide (c ≠ .fast)
  | .losCas c _ _ _ => decide (c ≠ .fast)
  | .losLoad2 c _ _ _ => decide (c ≠ .fast)
  | .losRead2 _ _ => true
  | .losUnexp _ _ _ => true
  | .losMiss _ _ => true
  | .ladRead2 _ _ => true
  | .ladMiss _ _ _ => true
  | .rangeRead2 => true
  | .rangeStore _ => true
  | _ => false

omit [DecidableEq V] in
theorem LosHold.own_iff {sh : Shared K V} {t : Tid} {c : LosCtx} {k : K} {e : EId} (h : LosHold sh t c k e) :
    Own sh t ↔ c ≠ .fast := by
  cases c <;> simp only [LosHold] at h <;> simp [h.1]

omit [DecidableEq V] in
theorem NewTail.own {sh : Shared K V} {t : Tid} {c : NewCtx} {k : K} {v : V} {rm : List (K × EId)} {a : APc K V}
    (h : NewTail sh t c k v rm a) : Own sh t := h.2.1
omit [DecidableEq K] [DecidableEq V] in
theorem Promoting.own {sh : Shared K V} {t : Tid} (h : Promoting sh t) : Own sh t := h.1
theorem DelHold.not_own {sh : Shared K V} {t : Tid} {d : Bool} {k : K} {e : EId} {a : APc K V}
    (h : DelHold sh t d k e a) : ¬ Own sh t := h.1

/-- `T` determines whether the goroutine holds the mutex — except at `idle`, where `T` is just `IsIdle a`.
NOTE: `T sh t .idle a` does not say `¬ Own sh t`. -/
theorem T.own_iff {sh : Shared K V} {t : Tid} {pc : Pc K V} {a : APc K V} (h : T sh t pc a) (hi : pc ≠ .idle) :
    Own sh t ↔ lockedPc pc = true := by
  cases pc with
  | idle => exact absurd rfl hi
  | start op => cases op <;> simp only [T] at h <;> simp [lockedPc, h.2]
  | ret r => cases r <;> simp only [T] at h <;> simp [lockedPc, h.2]
  | losLoad c k v e => simp only [T] at h; simp [lockedPc, h.2.own_iff]
  | losCas c k v e => simp only [T] at h; simp [lockedPc, h.2.own_iff]
  | losLoad2 c k v e => simp only [T] at h; simp [lockedPc, h.2.own_iff]
  | loadMiss k e => simp only [T] at h; simp [lockedPc, h.2.1.own]
  | losMiss k r => simp only [T] at h; simp [lockedPc, h.2.2.own]
  | ladMiss d k e => simp only [T] at h; simp [lockedPc, h.1.own]
  | rangeStore dm => simp only [T] at h; simp [lockedPc, h.2.1.own]
  | dirtyRead c k v rm => simp only [T] at h; simp [lockedPc, h.1.own]
  | dirtyPick c k v rm todo => simp only [T] at h; simp [lockedPc, h.1.own]
  | expLoad c k v rm todo k' e' => simp only [T] at h; simp [lockedPc, h.1.own]
  | expCas c k v rm todo k' e' => simp only [T] at h; simp [lockedPc, h.1.own]
  | expLoad2 c k v rm todo k' e' => simp only [T] at h; simp [lockedPc, h.1.own]
  | readStore c k v rm => simp only [T] at h; simp [lockedPc, h.1.own]
  | delLoad d k e => simp only [T] at h; simp [lockedPc, h.not_own]
  | delCas d k e p => simp only [T] at h; simp [lockedPc, h.1.not_own]
  | _ => simp only [T] at h <;> simp [lockedPc, h.2] <;> simp [h.2.1]

theorem T.own_of_locked {sh : Shared K V} {t : Tid} {pc : Pc K V} {a : APc K V} (h : T sh t pc a)
    (hl : lockedPc pc = true) : Own sh t := by
  have hi : pc ≠ .idle := by intro h1; subst h1; simp [lockedPc] at hl
  exact (h.own_iff hi).mpr hl

theorem T.not_own_of_not_locked {sh : Shared K V} {t : Tid} {pc : Pc K V} {a : APc K V} (h : T sh t pc a)
    (hi : pc ≠ .idle) (hl : lockedPc pc = false) : ¬ Own sh t := by
  rw [h.own_iff hi, hl]; simp

theorem T.locked_of_own {sh : Shared K V} {t : Tid} {pc : Pc K V} {a : APc K V} (h : T sh t pc a)
    (hi : pc ≠ .idle) (ho : Own sh t) : lockedPc pc = true :=
  (h.own_iff hi).mp ho

/-- at most one goroutine is parked at a pc that holds the mutex -/
theorem locked_unique {sh : Shared K V} {t u : Tid} {pc pc' : Pc K V} {a a' : APc K V} (h : T sh t pc a)
    (h' : T sh u pc' a') (hl : lockedPc pc = true) (hl' : lockedPc pc' = true) : t = u :=
  (h.own_of_locked hl).unique (h'.own_of_locked hl')

/-- a goroutine other than the owner is not parked at a locked pc -/
theorem T.not_locked_of_other_own {sh : Shared K V} {t u : Tid} {pc : Pc K V} {a : APc K V} (h : T sh u pc a)
    (ho : Own sh t) (hne : u ≠ t) : lockedPc pc = false := by
  cases hl : lockedPc pc with
  | false => rfl
  | true => exact absurd ((h.own_of_locked hl).unique ho) hne

theorem T.not_locked_of_mu_none {sh : Shared K V} {u : Tid} {pc : Pc K V} {a : APc K V} (h : T sh u pc a)
    (hm : sh.mu = none) : lockedPc pc = false := by
  cases hl : lockedPc pc with
  | false => rfl
  | true => exact absurd (h.own_of_locked hl) (not_Own_of_mu_none hm u)

omit [DecidableEq K] [DecidableEq V] in
theorem unprocPc_eq_nil_of_not_locked {pc : Pc K V} (h : lockedPc pc = false) : unprocPc pc = [] := by
  cases pc <;> simp [lockedPc] at h <;> rfl

omit [DecidableEq K] [DecidableEq V] in
theorem lockedPc_of_unprocPc_ne_nil {pc : Pc K V} (h : unprocPc pc ≠ []) : lockedPc pc = true := by
  cases hl : lockedPc pc with
  | true => rfl
  | false => exact absurd (unprocPc_eq_nil_of_not_locked hl) h

end OwnLock

/-! ## 4. `unprocessed` -/
section Unproc
variable {K V : Type} [DecidableEq K] [DecidableEq V]

omit [DecidableEq K] [DecidableEq V] in
@[simp] theorem unprocPc_idle : unprocPc (Pc.idle : Pc K V) = [] := rfl

omit [DecidableEq V] [DecidableEq K] in
theorem mem_unprocessed {s : State K V} {p : K × EId} :
    p ∈ unprocessed s ↔ ∃ u, u < s.pcs.length ∧ p ∈ unprocPc (s.pc u) := by
  unfold unprocessed
  rw [List.mem_flatMap]
  constructor
  · rintro ⟨pc, hpc, hp⟩
    obtain ⟨u, hu, rfl⟩ := List.getElem_of_mem hpc
    exact ⟨u, hu, by rw [pc_eq_getElem hu]; exact hp⟩
  · rintro ⟨u, hu, hp⟩
    rw [pc_eq_getElem hu] at hp
    exact ⟨s.pcs[u], List.getElem_mem hu, hp⟩

omit [DecidableEq V] [DecidableEq K] in
/-- the bound is automatic: beyond `pcs` the pc is `idle` -/
theorem mem_unprocessed' {s : State K V} {p : K × EId} : p ∈ unprocessed s ↔ ∃ u, p ∈ unprocPc (s.pc u) := by
  rw [mem_unprocessed]
  constructor
  · rintro ⟨u, _, hp⟩; exact ⟨u, hp⟩
  · rintro ⟨u, hp⟩
    refine ⟨u, ?_, hp⟩
    apply lt_length_of_pc_ne_idle
    intro h; rw [h] at hp; cases hp

omit [DecidableEq V] [DecidableEq K] in
theorem unprocessed_eq_nil_iff {s : State K V} : unprocessed s = [] ↔ ∀ u, unprocPc (s.pc u) = [] := by
  constructor
  · intro h u
    cases hu : unprocPc (s.pc u) with
    | nil => rfl
    | cons p rest =>
      have : p ∈ unprocessed s := mem_unprocessed'.mpr ⟨u, by rw [hu]; exact List.mem_cons_self ..⟩
      rw [h] at this; cases this
  · intro h
    cases hu : unprocessed s with
    | nil => rfl
    | cons p rest =>
      have : p ∈ unprocessed s := by rw [hu]; exact List.mem_cons_self ..
      obtain ⟨u, hp⟩ := mem_unprocessed'.mp this
      rw [h u] at hp; cases hp

/-- what `T` knows about a builder's unprocessed pairs -/
theorem T.building {sh : Shared K V} {t : Tid} {pc : Pc K V} {a : APc K V} (h : T sh t pc a) :
    Building sh (unprocPc pc) := by
  cases pc <;> first | exact Building_nil sh | (simp only [T] at h; exact h.2.2)

theorem T.own_of_unprocPc {sh : Shared K V} {t : Tid} {pc : Pc K V} {a : APc K V} (h : T sh t pc a)
    (hu : unprocPc pc ≠ []) : Own sh t :=
  h.own_of_locked (lockedPc_of_unprocPc_ne_nil hu)

theorem T.dirty_isSome_of_unprocPc {sh : Shared K V} {t : Tid} {pc : Pc K V} {a : APc K V} (h : T sh t pc a)
    (hu : unprocPc pc ≠ []) : sh.dirty.isSome = true := by
  cases pc <;> first | exact absurd rfl hu | (simp only [T] at h; exact h.2.1)

theorem T.not_amended_of_unprocPc {sh : Shared K V} {t : Tid} {pc : Pc K V} {a : APc K V} (h : T sh t pc a)
    (hu : unprocPc pc ≠ []) : sh.amended = false := by
  cases pc <;> first | exact absurd rfl hu | (simp only [T] at h; exact h.1.2.2.2.1)

variable {s : State K V} {apcs : Nat → APc K V}

/-- nobody holds the mutex: nobody is inside the `dirtyLocked` loop -/
theorem unprocessed_eq_nil_of_mu_none (hT : ∀ u, T s.sh u (s.pc u) (apcs u)) (hm : s.sh.mu = none) :
    unprocessed s = [] := by
  rw [unprocessed_eq_nil_iff]
  intro u
  exact unprocPc_eq_nil_of_not_locked ((hT u).not_locked_of_mu_none hm)

/-- only the owner of the mutex can be inside the `dirtyLocked` loop -/
theorem mem_unprocessed_of_own (hT : ∀ u, T s.sh u (s.pc u) (apcs u)) {t : Tid} (ho : Own s.sh t) {p : K × EId} :
    p ∈ unprocessed s ↔ p ∈ unprocPc (s.pc t) := by
  rw [mem_unprocessed']
  constructor
  · rintro ⟨u, hp⟩
    by_cases hut : u = t
    · exact hut ▸ hp
    · rw [unprocPc_eq_nil_of_not_locked ((hT u).not_locked_of_other_own ho hut)] at hp; cases hp
  · intro hp; exact ⟨t, hp⟩

theorem mem_unprocessed_of_mu_some (hT : ∀ u, T s.sh u (s.pc u) (apcs u)) {t : Tid} (hm : s.sh.mu = some t)
    {p : K × EId} : p ∈ unprocessed s ↔ p ∈ unprocPc (s.pc t) :=
  mem_unprocessed_of_own hT hm

/-- the owner is not a builder: nobody is -/
theorem unprocessed_eq_nil_of_own (hT : ∀ u, T s.sh u (s.pc u) (apcs u)) {t : Tid} (ho : Own s.sh t)
    (hp : unprocPc (s.pc t) = []) : unprocessed s = [] := by
  cases hu : unprocessed s with
  | nil => rfl
  | cons p rest =>
    have : p ∈ unprocessed s := by rw [hu]; exact List.mem_cons_self ..
    rw [mem_unprocessed_of_own hT ho, hp] at this; cases this

/-- no dirty map: nobody is inside the loop -/
theorem unprocessed_eq_nil_of_dirty_none (hT : ∀ u, T s.sh u (s.pc u) (apcs u)) (hd : s.sh.dirty = none) :
    unprocessed s = [] := by
  rw [unprocessed_eq_nil_iff]
  intro u
  cases hu : unprocPc (s.pc u) with
  | nil => rfl
  | cons p rest =>
    have := (hT u).dirty_isSome_of_unprocPc (by rw [hu]; simp)
    rw [hd] at this; cases this

/-- amended: nobody is inside the loop -/
theorem unprocessed_eq_nil_of_amended (hT : ∀ u, T s.sh u (s.pc u) (apcs u)) (ha : s.sh.amended = true) :
    unprocessed s = [] := by
  rw [unprocessed_eq_nil_iff]
  intro u
  cases hu : unprocPc (s.pc u) with
  | nil => rfl
  | cons p rest =>
    have := (hT u).not_amended_of_unprocPc (by rw [hu]; simp)
    rw [ha] at this; cases this

/-- what is known about an unprocessed pair (from the builder's `T`) -/
theorem unprocessed_spec (hT : ∀ u, T s.sh u (s.pc u) (apcs u)) {p : K × EId} (hp : p ∈ unprocessed s) :
    p ∈ s.sh.readM ∧ alookup p.1 (dirtyMap s.sh) = none ∧ p.2 ∉ vals (dirtyMap s.sh) ∧
      (getP s.sh p.2).isExpunged = false := by
  obtain ⟨u, hu⟩ := mem_unprocessed'.mp hp
  exact (hT u).building.2 p hu

/-- (B) for ALL pairs of `read.m` once `T` is available: an entry of `read.m` the dirty map holds sits under the same
key there and is not expunged -/
theorem read_dirty_same_key_of_T (g : G s apcs) (hT : ∀ u, T s.sh u (s.pc u) (apcs u)) {k k' : K} {e : EId}
    (h : alookup k s.sh.readM = some e) (hd : alookup k' (dirtyMap s.sh) = some e) :
    k' = k ∧ (getP s.sh e).isExpunged = false := by
  by_cases hu : (k, e) ∈ unprocessed s
  · exact absurd (mem_vals_of_alookup hd) (unprocessed_spec hT hu).2.2.1
  · exact g.read_dirty_same_key h hu hd

/-- a dirty-only entry is not in `read.m` (no side condition once `T` is available) -/
theorem dirty_only_not_in_read_of_T (g : G s apcs) (hT : ∀ u, T s.sh u (s.pc u) (apcs u)) {k : K} {e : EId}
    (h : alookup k s.sh.readM = none) (hd : alookup k (dirtyMap s.sh) = some e) : e ∉ vals s.sh.readM := by
  intro hm
  obtain ⟨k', hk'⟩ := g.mem_vals_read_iff.mp hm
  obtain ⟨h1, _⟩ := read_dirty_same_key_of_T g hT hk' hd
  subst h1
  rw [h] at hk'; cases hk'

/-- (E) with `T`: no dirty map ⇒ no entry of `read.m` is expunged -/
theorem no_expunged_of_dirty_none (g : G s apcs) (hT : ∀ u, T s.sh u (s.pc u) (apcs u)) (hd : s.sh.dirty = none)
    {k : K} {e : EId} (h : alookup k s.sh.readM = some e) : (getP s.sh e).isExpunged = false := by
  apply g.dirty_none_no_expunged hd h
  rw [unprocessed_eq_nil_of_dirty_none hT hd]; simp

/-- an expunged entry of `read.m` is in the dirty map under no key (processed or not) -/
theorem read_expunged_not_in_dirty_of_T (g : G s apcs) (hT : ∀ u, T s.sh u (s.pc u) (apcs u)) {k : K} {e : EId}
    (h : alookup k s.sh.readM = some e) (hx : (getP s.sh e).isExpunged = true) :
    s.sh.dirty.isSome = true ∧ alookup k (dirtyMap s.sh) = none ∧ e ∉ vals (dirtyMap s.sh) := by
  apply g.read_expunged_not_in_dirty h _ hx
  intro hu
  have := (unprocessed_spec hT hu).2.2.2
  simp only at this
  rw [hx] at this; cases this

/-! ### `unprocessed` after a step -/

omit [DecidableEq V] [DecidableEq K] in
theorem mem_unprocessed_setPc {t : Tid} {sh : Shared K V} {pc : Pc K V} {p : K × EId} :
    p ∈ unprocessed (setPc s t sh pc) ↔
      (t < s.pcs.length ∧ p ∈ unprocPc pc) ∨ ∃ u, u ≠ t ∧ p ∈ unprocPc (s.pc u) := by
  rw [mem_unprocessed']
  constructor
  · rintro ⟨u, hp⟩
    rw [pc_setPc] at hp
    by_cases h : u = t ∧ t < s.pcs.length
    · rw [if_pos h] at hp; exact Or.inl ⟨h.2, hp⟩
    · rw [if_neg h] at hp
      by_cases h1 : u = t
      · subst h1
        have : ¬ u < s.pcs.length := fun h2 => h ⟨rfl, h2⟩
        rw [pc_of_le (Nat.le_of_not_lt this)] at hp; cases hp
      · exact Or.inr ⟨u, h1, hp⟩
  · rintro (⟨ht, hp⟩ | ⟨u, hne, hp⟩)
    · exact ⟨t, by rw [pc_setPc_self ht]; exact hp⟩
    · exact ⟨u, by rw [pc_setPc_ne hne]; exact hp⟩

omit [DecidableEq V] [DecidableEq K] in
/-- the stepping goroutine is not a builder before or after: `unprocessed` has the same members -/
theorem mem_unprocessed_setPc_of_nil {t : Tid} {sh : Shared K V} {pc : Pc K V} (h : unprocPc (s.pc t) = [])
    (h' : unprocPc pc = []) {p : K × EId} : p ∈ unprocessed (setPc s t sh pc) ↔ p ∈ unprocessed s := by
  rw [mem_unprocessed_setPc, mem_unprocessed', h']
  constructor
  · rintro (⟨_, hp⟩ | ⟨u, _, hp⟩)
    · cases hp
    · exact ⟨u, hp⟩
  · rintro ⟨u, hp⟩
    by_cases hut : u = t
    · subst hut; rw [h] at hp; cases hp
    · exact Or.inr ⟨u, hut, hp⟩

/-- the stepping goroutine is the owner: afterwards exactly its new pairs are unprocessed -/
theorem mem_unprocessed_setPc_of_own (hT : ∀ u, T s.sh u (s.pc u) (apcs u)) {t : Tid} (ho : Own s.sh t)
    (ht : t < s.pcs.length) {sh : Shared K V} {pc : Pc K V} {p : K × EId} :
    p ∈ unprocessed (setPc s t sh pc) ↔ p ∈ unprocPc pc := by
  rw [mem_unprocessed_setPc]
  constructor
  · rintro (⟨_, hp⟩ | ⟨u, hne, hp⟩)
    · exact hp
    · rw [unprocPc_eq_nil_of_not_locked ((hT u).not_locked_of_other_own ho hne)] at hp; cases hp
  · intro hp; exact Or.inl ⟨ht, hp⟩

/-- a non-owner steps (to a non-builder pc): `unprocessed` has the same members -/
theorem mem_unprocessed_setPc_of_not_own (hT : ∀ u, T s.sh u (s.pc u) (apcs u)) {t : Tid} (ho : ¬ Own s.sh t)
    {sh : Shared K V} {pc : Pc K V} (h' : unprocPc pc = []) {p : K × EId} :
    p ∈ unprocessed (setPc s t sh pc) ↔ p ∈ unprocessed s := by
  apply mem_unprocessed_setPc_of_nil _ h'
  cases hu : unprocPc (s.pc t) with
  | nil => rfl
  | cons q rest => exact absurd ((hT t).own_of_unprocPc (by rw [hu]; simp)) ho

end Unproc


/-! ## 5. `T` is monotone in the `seen` list -/
section Seen
variable {K V : Type} [DecidableEq K] [DecidableEq V]

/-- `a'` is `a`, except that the `seen` list of a pending goroutine may have grown -/
def SeenLe (a a' : APc K V) : Prop :=
  match a with
  | .pending op seen => ∃ seen', a' = .pending op seen' ∧ seen ⊆ seen'
  | _ => a' = a

omit [DecidableEq K] [DecidableEq V] in
@[simp] theorem SeenLe.refl (a : APc K V) : SeenLe a a := by
  cases a with
  | pending op seen => exact ⟨seen, rfl, fun _ h => h⟩
  | idle => rfl
  | done op r => rfl

omit [DecidableEq K] [DecidableEq V] in
theorem SeenLe.trans {a a' a'' : APc K V} (h : SeenLe a a') (h' : SeenLe a' a'') : SeenLe a a'' := by
  cases a with
  | pending op seen =>
    obtain ⟨seen', rfl, hs⟩ := h
    obtain ⟨seen'', rfl, hs'⟩ := h'
    exact ⟨seen'', rfl, fun _ hx => hs' (hs hx)⟩
  | idle => cases h; exact h'
  | done op r => cases h; exact h'

omit [DecidableEq K] [DecidableEq V] in
@[simp] theorem SeenLe_idle_iff {a' : APc K V} : SeenLe (.idle : APc K V) a' ↔ a' = .idle := Iff.rfl
omit [DecidableEq K] [DecidableEq V] in
@[simp] theorem SeenLe_done_iff {op : Op K V} {r : Res K V} {a' : APc K V} :
    SeenLe (.done op r : APc K V) a' ↔ a' = .done op r := Iff.rfl
omit [DecidableEq K] [DecidableEq V] in
theorem SeenLe_pending_iff {op : Op K V} {seen : List (Res K V)} {a' : APc K V} :
    SeenLe (.pending op seen : APc K V) a' ↔ ∃ seen', a' = .pending op seen' ∧ seen ⊆ seen' := Iff.rfl

omit [DecidableEq K] [DecidableEq V] in
theorem SeenLe_pending_pending {op : Op K V} {seen seen' : List (Res K V)} (h : seen ⊆ seen') :
    SeenLe (.pending op seen : APc K V) (.pending op seen') := ⟨seen', rfl, h⟩

omit [DecidableEq K] [DecidableEq V] in
theorem SeenLe_pending_cons (op : Op K V) (seen : List (Res K V)) (r : Res K V) :
    SeenLe (.pending op seen : APc K V) (.pending op (r :: seen)) :=
  ⟨r :: seen, rfl, fun _ h => List.mem_cons_of_mem _ h⟩

omit [DecidableEq K] [DecidableEq V] in
/-- the form given in the task statement -/
theorem SeenLe_iff {a a' : APc K V} :
    SeenLe a a' ↔ (∀ op seen, a = .pending op seen → ∃ seen', a' = .pending op seen' ∧ seen ⊆ seen') ∧
      (a = .idle → a' = .idle) ∧ (∀ op r, a = .done op r → a' = .done op r) := by
  cases a <;> simp [SeenLe]

theorem SeenLe_observePc (obj : K → Option V) (a : APc K V) : SeenLe a (observePc obj a) := by
  cases a with
  | idle => rfl
  | done op r => rfl
  | pending op seen =>
    simp only [observePc]
    cases pureRes obj op with
    | none => exact SeenLe.refl _
    | some r =>
      simp only
      split
      · exact SeenLe.refl _
      · exact SeenLe_pending_cons op seen r

omit [DecidableEq K] [DecidableEq V] in
theorem SeenLe.seenOf_subset {a a' : APc K V} (h : SeenLe a a') : seenOf a ⊆ seenOf a' := by
  cases a with
  | pending op seen => obtain ⟨seen', rfl, hs⟩ := h; exact hs
  | idle => cases h; exact fun _ h => h
  | done op r => cases h; exact fun _ h => h

omit [DecidableEq K] [DecidableEq V] in
theorem SeenLe.mem_seenOf {a a' : APc K V} (h : SeenLe a a') {r : Res K V} (hr : r ∈ seenOf a) : r ∈ seenOf a' :=
  h.seenOf_subset hr

omit [DecidableEq K] [DecidableEq V] in
theorem SeenLe.pend_iff {a a' : APc K V} (h : SeenLe a a') (op : Op K V) : Pend a' op ↔ Pend a op := by
  cases a with
  | pending op' seen => obtain ⟨seen', rfl, _⟩ := h; exact Iff.rfl
  | idle => cases h; exact Iff.rfl
  | done op' r => cases h; exact Iff.rfl

omit [DecidableEq K] [DecidableEq V] in
theorem SeenLe.pend {a a' : APc K V} (h : SeenLe a a') {op : Op K V} (hp : Pend a op) : Pend a' op :=
  (h.pend_iff op).mpr hp

omit [DecidableEq K] [DecidableEq V] in
theorem SeenLe.isIdle_iff {a a' : APc K V} (h : SeenLe a a') : IsIdle a' ↔ IsIdle a := by
  cases a with
  | pending op' seen => obtain ⟨seen', rfl, _⟩ := h; exact Iff.rfl
  | idle => cases h; exact Iff.rfl
  | done op' r => cases h; exact Iff.rfl

omit [DecidableEq K] [DecidableEq V] in
theorem SeenLe.isIdle {a a' : APc K V} (h : SeenLe a a') (hp : IsIdle a) : IsIdle a' := h.isIdle_iff.mpr hp

omit [DecidableEq K] [DecidableEq V] in
theorem SeenLe.doneWith_iff {a a' : APc K V} (h : SeenLe a a') (f : Op K V → Bool) (r : Res K V) :
    DoneWith a' f r ↔ DoneWith a f r := by
  cases a with
  | pending op' seen => obtain ⟨seen', rfl, _⟩ := h; exact Iff.rfl
  | idle => cases h; exact Iff.rfl
  | done op' r => cases h; exact Iff.rfl

omit [DecidableEq K] [DecidableEq V] in
theorem SeenLe.doneWith {a a' : APc K V} (h : SeenLe a a') {f : Op K V → Bool} {r : Res K V} (hp : DoneWith a f r) :
    DoneWith a' f r :=
  (h.doneWith_iff f r).mpr hp

omit [DecidableEq K] [DecidableEq V] in
theorem SeenLe.retOk {a a' : APc K V} (h : SeenLe a a') {r : Res K V} (hp : RetOk a r) : RetOk a' r := by
  cases a with
  | pending op' seen => obtain ⟨seen', rfl, hs⟩ := h; exact hs hp
  | idle => cases h; exact hp
  | done op' r => cases h; exact hp

omit [DecidableEq K] [DecidableEq V] in
theorem SeenLe.isPending_eq {a a' : APc K V} (h : SeenLe a a') : isPending a' = isPending a := by
  cases a with
  | pending op' seen => obtain ⟨seen', rfl, _⟩ := h; rfl
  | idle => cases h; rfl
  | done op' r => cases h; rfl

omit [DecidableEq K] [DecidableEq V] in
/-- a goroutine that is not pending is not affected at all -/
theorem SeenLe.eq_of_not_pending {a a' : APc K V} (h : SeenLe a a') (hp : isPending a = false) : a' = a := by
  cases a with
  | pending op' seen => cases hp
  | idle => exact h
  | done op' r => exact h

omit [DecidableEq V] in
theorem SeenLe.holdDel {a a' : APc K V} (h : SeenLe a a') {sh : Shared K V} {d : Bool} {k : K} {e : EId}
    (hp : HoldDel sh d k e a) : HoldDel sh d k e a' := by
  refine ⟨hp.1, ?_⟩
  rcases hp.2 with h1 | ⟨h1, h2⟩
  · exact Or.inl h1
  · exact Or.inr ⟨h1, h.mem_seenOf h2⟩

omit [DecidableEq V] in
theorem SeenLe.holdLoad {a a' : APc K V} (h : SeenLe a a') {sh : Shared K V} {k : K} {e : EId}
    (hp : HoldLoad sh k e a) : HoldLoad sh k e a' := by
  refine ⟨hp.1, ?_⟩
  rcases hp.2 with h1 | ⟨h1, h2⟩ | ⟨h1, h2, h3⟩
  · exact Or.inl h1
  · exact Or.inr (Or.inl ⟨h1, h.mem_seenOf h2⟩)
  · refine Or.inr (Or.inr ⟨h1, h.mem_seenOf h2, ?_⟩)
    cases hv : (getP sh e).value? with
    | none => trivial
    | some v => rw [hv] at h3; exact h.mem_seenOf h3

theorem SeenLe.unlinker_iff {a a' : APc K V} (h : SeenLe a a') {sh : Shared K V} {d : Bool} {k : K} {e : EId} :
    Unlinker sh d k e a' ↔ Unlinker sh d k e a := by
  simp only [Unlinker_iff, h.doneWith_iff]

theorem SeenLe.unlinker {a a' : APc K V} (h : SeenLe a a') {sh : Shared K V} {d : Bool} {k : K} {e : EId}
    (hp : Unlinker sh d k e a) : Unlinker sh d k e a' :=
  h.unlinker_iff.mpr hp

theorem SeenLe.delHold {a a' : APc K V} (h : SeenLe a a') {sh : Shared K V} {t : Tid} {d : Bool} {k : K} {e : EId}
    (hp : DelHold sh t d k e a) : DelHold sh t d k e a' := by
  refine ⟨hp.1, ?_⟩
  rcases hp.2 with ⟨h1, h2⟩ | h1
  · exact Or.inl ⟨h.pend h1, h.holdDel h2⟩
  · exact Or.inr (h.unlinker h1)

omit [DecidableEq V] in
theorem SeenLe.newTail {a a' : APc K V} (h : SeenLe a a') {sh : Shared K V} {t : Tid} {c : NewCtx} {k : K} {v : V}
    {rm : List (K × EId)} (hp : NewTail sh t c k v rm a) : NewTail sh t c k v rm a' :=
  ⟨h.pend hp.1, hp.2⟩

/-- `T` is monotone in `seen` -/
theorem T_mono {sh : Shared K V} {t : Tid} {pc : Pc K V} {a a' : APc K V} (hT : T sh t pc a) (h : SeenLe a a') :
    T sh t pc a' := by
  cases pc with
  | start op => cases op <;> simp only [T] at hT ⊢ <;> first | exact ⟨h.pend hT.1, hT.2⟩ | exact ⟨h.isIdle hT.1, hT.2⟩
  | ret r => cases r <;> simp only [T] at hT ⊢ <;> first | exact ⟨h.retOk hT.1, hT.2⟩ | exact ⟨h.isIdle hT.1, hT.2⟩
  | loadPtr k e => simp only [T] at hT ⊢; exact ⟨h.pend hT.1, hT.2.1, h.holdLoad hT.2.2⟩
  | losMiss k r => simp only [T] at hT ⊢; exact ⟨h.doneWith hT.1, hT.2⟩
  | ladMiss d k e =>
    cases e with
    | none => simp only [T] at hT ⊢; exact ⟨hT.1, hT.2.1, hT.2.2.1, h.pend hT.2.2.2⟩
    | some e => simp only [T] at hT ⊢; exact ⟨hT.1, hT.2.1, hT.2.2.1, h.unlinker hT.2.2.2⟩
  | delLoad d k e => simp only [T] at hT ⊢; exact h.delHold hT
  | delCas d k e p =>
    simp only [T] at hT ⊢
    exact ⟨h.delHold hT.1, hT.2.1, fun hu => hT.2.2 (h.unlinker_iff.mp hu)⟩
  | dirtyRead c k v rm => simp only [T] at hT ⊢; exact ⟨h.newTail hT.1, hT.2⟩
  | dirtyPick c k v rm todo => simp only [T] at hT ⊢; exact ⟨h.newTail hT.1, hT.2⟩
  | expLoad c k v rm todo k' e' => simp only [T] at hT ⊢; exact ⟨h.newTail hT.1, hT.2⟩
  | expCas c k v rm todo k' e' => simp only [T] at hT ⊢; exact ⟨h.newTail hT.1, hT.2⟩
  | expLoad2 c k v rm todo k' e' => simp only [T] at hT ⊢; exact ⟨h.newTail hT.1, hT.2⟩
  | readStore c k v rm => simp only [T] at hT ⊢; exact ⟨h.newTail hT.1, hT.2⟩
  | _ =>
    simp only [T] at hT ⊢ <;>
      first | exact ⟨h.pend hT.1, hT.2⟩ | exact ⟨h.isIdle hT.1, hT.2⟩ | exact h.isIdle hT

theorem T_observePc {sh : Shared K V} {t : Tid} {pc : Pc K V} {a : APc K V} (hT : T sh t pc a) (obj : K → Option V) :
    T sh t pc (observePc obj a) :=
  T_mono hT (SeenLe_observePc obj a)

omit [DecidableEq K] [DecidableEq V] in
theorem unlinkedPc_seenLe {a a' : APc K V} (h : SeenLe a a') (pc : Pc K V) : unlinkedPc pc a' = unlinkedPc pc a := by
  cases a with
  | pending op seen =>
    obtain ⟨seen', rfl, _⟩ := h
    cases pc <;> first | rfl | (rename_i e; cases e <;> rfl)
  | idle => cases h; rfl
  | done op r => cases h; rfl

@[simp] theorem unlinkedPc_observePc (obj : K → Option V) (pc : Pc K V) (a : APc K V) :
    unlinkedPc pc (observePc obj a) = unlinkedPc pc a :=
  unlinkedPc_seenLe (SeenLe_observePc obj a) pc

omit [DecidableEq V] in
/-- `G` only looks at the abstract pcs through `unlinkedPc` -/
theorem G_seenLe {s : State K V} {apcs apcs' : Nat → APc K V} (g : G s apcs) (h : ∀ t, SeenLe (apcs t) (apcs' t)) :
    G s apcs' :=
  { g with
    unlinked := by
      intro t u ht hu hne e he
      rw [unlinkedPc_seenLe (h t)] at he
      rw [unlinkedPc_seenLe (h u)]
      exact g.unlinked t u ht hu hne e he }

omit [DecidableEq V] in
/-- `G` depends on the abstract pcs only through `unlinkedPc` -/
theorem G_congr_apcs {s : State K V} {apcs apcs' : Nat → APc K V} (g : G s apcs)
    (h : ∀ t, t < s.pcs.length → unlinkedPc (s.pc t) (apcs' t) = unlinkedPc (s.pc t) (apcs t)) : G s apcs' :=
  { g with
    unlinked := by
      intro t u ht hu hne e he
      rw [h t ht] at he
      rw [h u hu]
      exact g.unlinked t u ht hu hne e he }

end Seen


/-! ## 7. control-flow helpers of `exec`, `stepT`, transfer of `G` -/
section Steps
variable {K V : Type} [DecidableEq K] [DecidableEq V]

omit [DecidableEq K] [DecidableEq V] in
theorem lockStep_eq_some_iff {sh sh' : Shared K V} {t : Tid} {next pc' : Pc K V} :
    lockStep sh t next = some (sh', pc') ↔ sh.mu = none ∧ sh' = { sh with mu := some t } ∧ pc' = next := by
  unfold lockStep
  cases h : sh.mu with
  | none => simp [eq_comm]
  | some u => simp

omit [DecidableEq K] [DecidableEq V] in
theorem lockStep_of_mu_some {sh : Shared K V} {t u : Tid} (h : sh.mu = some u) (next : Pc K V) :
    lockStep sh t next = none := by
  unfold lockStep; rw [h]

omit [DecidableEq K] [DecidableEq V] in
theorem lockStep_of_mu_none {sh : Shared K V} {t : Tid} (h : sh.mu = none) (next : Pc K V) :
    lockStep sh t next = some ({ sh with mu := some t }, next) := by
  unfold lockStep; rw [h]

omit [DecidableEq K] [DecidableEq V] in
@[simp] theorem unprocPc_dirtyNext (c : NewCtx) (k : K) (v : V) (rm todo : List (K × EId)) :
    unprocPc (dirtyNext c k v rm todo) = todo := by
  unfold dirtyNext
  cases todo <;> rfl
omit [DecidableEq K] [DecidableEq V] in
@[simp] theorem unprocPc_rangeNext (todo : List (K × EId)) (acc : List (K × V)) :
    unprocPc (rangeNext todo acc) = [] := by
  unfold rangeNext; split <;> rfl
omit [DecidableEq K] [DecidableEq V] in
@[simp] theorem unprocPc_loadAfter (k : K) (e : Option EId) : unprocPc (loadAfter k e : Pc K V) = [] := by
  cases e <;> rfl
omit [DecidableEq K] [DecidableEq V] in
@[simp] theorem unprocPc_ladAfter (d : Bool) (k : K) (e : Option EId) : unprocPc (ladAfter d k e : Pc K V) = [] := by
  cases e <;> rfl
omit [DecidableEq K] [DecidableEq V] in
@[simp] theorem lockedPc_dirtyNext (c : NewCtx) (k : K) (v : V) (rm todo : List (K × EId)) :
    lockedPc (dirtyNext c k v rm todo) = true := by
  unfold dirtyNext; split <;> rfl
omit [DecidableEq K] [DecidableEq V] in
@[simp] theorem lockedPc_rangeNext (todo : List (K × EId)) (acc : List (K × V)) :
    lockedPc (rangeNext todo acc) = false := by
  unfold rangeNext; split <;> rfl
omit [DecidableEq K] [DecidableEq V] in
@[simp] theorem lockedPc_loadAfter (k : K) (e : Option EId) : lockedPc (loadAfter k e : Pc K V) = false := by
  cases e <;> rfl
omit [DecidableEq K] [DecidableEq V] in
@[simp] theorem lockedPc_ladAfter (d : Bool) (k : K) (e : Option EId) : lockedPc (ladAfter d k e : Pc K V) = false := by
  cases e <;> rfl

omit [DecidableEq K] [DecidableEq V] in
theorem dirtyNext_nil (c : NewCtx) (k : K) (v : V) (rm : List (K × EId)) :
    dirtyNext c k v rm [] = .readStore c k v rm := rfl
omit [DecidableEq K] [DecidableEq V] in
theorem dirtyNext_cons (c : NewCtx) (k : K) (v : V) (rm : List (K × EId)) (p : K × EId) (todo : List (K × EId)) :
    dirtyNext c k v rm (p :: todo) = .dirtyPick c k v rm (p :: todo) := rfl
omit [DecidableEq K] [DecidableEq V] in
theorem rangeNext_nil (acc : List (K × V)) : rangeNext ([] : List (K × EId)) acc = .ret (.pairs acc) := rfl
omit [DecidableEq K] [DecidableEq V] in
theorem rangeNext_cons (p : K × EId) (todo : List (K × EId)) (acc : List (K × V)) :
    rangeNext (p :: todo) acc = .rangePick (p :: todo) acc := rfl

omit [DecidableEq V] in
/-- `expDone` writes the dirty map only -/
theorem expDone_eq (sh : Shared K V) (p : Ptr V) (k' : K) (e' : EId) :
    expDone sh p k' e' = if p.isExpunged then sh else setDirty sh k' e' := rfl
omit [DecidableEq V] in
@[simp] theorem expDone_entries (sh : Shared K V) (p : Ptr V) (k' : K) (e' : EId) :
    (expDone sh p k' e').entries = sh.entries := by unfold expDone; split <;> simp
omit [DecidableEq V] in
@[simp] theorem expDone_readM (sh : Shared K V) (p : Ptr V) (k' : K) (e' : EId) :
    (expDone sh p k' e').readM = sh.readM := by unfold expDone; split <;> simp
omit [DecidableEq V] in
@[simp] theorem expDone_amended (sh : Shared K V) (p : Ptr V) (k' : K) (e' : EId) :
    (expDone sh p k' e').amended = sh.amended := by unfold expDone; split <;> simp
omit [DecidableEq V] in
@[simp] theorem expDone_mu (sh : Shared K V) (p : Ptr V) (k' : K) (e' : EId) :
    (expDone sh p k' e').mu = sh.mu := by unfold expDone; split <;> simp
omit [DecidableEq V] in
@[simp] theorem expDone_misses (sh : Shared K V) (p : Ptr V) (k' : K) (e' : EId) :
    (expDone sh p k' e').misses = sh.misses := by unfold expDone; split <;> simp
omit [DecidableEq V] in
@[simp] theorem expDone_nextPtr (sh : Shared K V) (p : Ptr V) (k' : K) (e' : EId) :
    (expDone sh p k' e').nextPtr = sh.nextPtr := by unfold expDone; split <;> simp
omit [DecidableEq V] in
@[simp] theorem expDone_zst (sh : Shared K V) (p : Ptr V) (k' : K) (e' : EId) :
    (expDone sh p k' e').zst = sh.zst := by unfold expDone; split <;> simp
omit [DecidableEq V] in
@[simp] theorem getP_expDone (sh : Shared K V) (p : Ptr V) (k' : K) (e' e : EId) :
    getP (expDone sh p k' e') e = getP sh e := by unfold expDone; split <;> simp
omit [DecidableEq V] in
theorem expDone_dirty_isSome (sh : Shared K V) (p : Ptr V) (k' : K) (e' : EId) :
    (expDone sh p k' e').dirty.isSome = sh.dirty.isSome := by unfold expDone; split <;> simp
omit [DecidableEq V] in
theorem expDone_fault_of_isSome {sh : Shared K V} (h : sh.dirty.isSome = true) (p : Ptr V) (k' : K) (e' : EId) :
    (expDone sh p k' e').fault = sh.fault := by
  unfold expDone; split
  · rfl
  · exact setDirty_fault_of_isSome h k' e'
omit [DecidableEq V] in
theorem dirtyMap_expDone_of_isSome {sh : Shared K V} (h : sh.dirty.isSome = true) (p : Ptr V) (k' : K) (e' : EId) :
    dirtyMap (expDone sh p k' e') = if p.isExpunged then dirtyMap sh else ainsert k' e' (dirtyMap sh) := by
  unfold expDone; split
  · rfl
  · exact dirtyMap_setDirty_of_isSome h k' e'

omit [DecidableEq V] in
/-- all steps of goroutine `t`, spelled out -/
theorem mem_stepT_iff [Inhabited V] {menu : List (Op K V)} {s s' : State K V} {t : Tid}
    {l : Option (SyncMapConc.Event K V)} :
    (l, s') ∈ stepT menu s t ↔
      (s.pc t = .idle ∧ ∃ op, op ∈ menu ∧ l = some (.inv t op) ∧ s' = setPc s t s.sh (.start op)) ∨
      (∃ r, s.pc t = .ret r ∧ l = some (.res t r) ∧ s' = setPc s t s.sh .idle) ∨
      (s.pc t ≠ .idle ∧ (∀ r, s.pc t ≠ .ret r) ∧ l = none ∧
        ((∃ sh' pc', exec s.sh t (s.pc t) = some (sh', pc') ∧ s' = setPc s t sh' pc') ∨
         (∃ c, c ∈ picks (s.pc t) ∧ s' = setPc s t s.sh c.2))) := by
  unfold stepT
  split
  · rename_i h
    simp only [h, List.mem_map, Prod.mk.injEq, true_and, ne_eq, not_true_eq_false, false_and, or_false,
      reduceCtorEq, exists_false]
    constructor
    · rintro ⟨op, hop, h1, h2⟩; exact ⟨op, hop, h1.symm, h2.symm⟩
    · rintro ⟨op, hop, h1, h2⟩; exact ⟨op, hop, h1.symm, h2.symm⟩
  · rename_i r h
    simp only [h, List.mem_singleton, Prod.mk.injEq, reduceCtorEq, false_and, Pc.ret.injEq, exists_eq_left',
      ne_eq, not_false_eq_true, true_and, false_or]
    constructor
    · rintro ⟨h1, h2⟩; exact Or.inl ⟨h1, h2⟩
    · rintro (⟨h1, h2⟩ | ⟨h1, _⟩)
      · exact ⟨h1, h2⟩
      · exact absurd rfl (h1 r)
  · rename_i hi hr
    have hi' : s.pc t ≠ .idle := hi
    have hr' : ∀ r, s.pc t ≠ .ret r := hr
    simp only [hi', false_and, false_or, ne_eq, not_false_eq_true, true_and]
    constructor
    · intro h
      rcases List.mem_append.mp h with h | h
      · cases he : exec s.sh t (s.pc t) with
        | none => rw [he] at h; cases h
        | some q =>
          obtain ⟨sh', pc'⟩ := q
          rw [he] at h
          simp only [List.mem_singleton, Prod.mk.injEq] at h
          exact Or.inr ⟨hr', h.1, Or.inl ⟨sh', pc', rfl, h.2⟩⟩
      · obtain ⟨c, hc, h1⟩ := List.mem_map.mp h
        simp only [Prod.mk.injEq] at h1
        exact Or.inr ⟨hr', h1.1.symm, Or.inr ⟨c, hc, h1.2.symm⟩⟩
    · rintro (⟨r, h1, _⟩ | ⟨_, hl, h⟩)
      · exact absurd h1 (hr' r)
      · subst hl
        apply List.mem_append.mpr
        rcases h with ⟨sh', pc', he, h1⟩ | ⟨c, hc, h1⟩
        · left; rw [he, h1]; simp
        · right; exact List.mem_map.mpr ⟨c, hc, by rw [h1]⟩

omit [DecidableEq V] in
theorem mem_picks_dirtyPick {c : NewCtx} {k : K} {v : V} {rm todo : List (K × EId)} {x : K × Pc K V} :
    x ∈ picks (.dirtyPick c k v rm todo) ↔
      ∃ p, p ∈ todo ∧ x = (p.1, .expLoad c k v rm (aerase p.1 todo) p.1 p.2) := by
  simp only [picks, List.mem_map]
  constructor
  · rintro ⟨p, hp, rfl⟩; exact ⟨p, hp, rfl⟩
  · rintro ⟨p, hp, rfl⟩; exact ⟨p, hp, rfl⟩

omit [DecidableEq V] in
theorem mem_picks_rangePick {todo : List (K × EId)} {acc : List (K × V)} {x : K × Pc K V} :
    x ∈ picks (.rangePick todo acc) ↔ ∃ p, p ∈ todo ∧ x = (p.1, .rangeLoad (aerase p.1 todo) acc p.1 p.2) := by
  simp only [picks, List.mem_map]
  constructor
  · rintro ⟨p, hp, rfl⟩; exact ⟨p, hp, rfl⟩
  · rintro ⟨p, hp, rfl⟩; exact ⟨p, hp, rfl⟩

omit [DecidableEq V] in
/-- `G` for a state with the same entries and maps (lock, unlock, non-promoting miss, pure control steps) -/
theorem G.of_sameData {s s' : State K V} {apcs apcs' : Nat → APc K V} (g : G s apcs) (hd : SameData s'.sh s.sh)
    (hf : s'.sh.fault = false) (hmu : ∀ t, s'.sh.mu = some t → t < s'.pcs.length)
    (hun : ∀ p, p ∈ unprocessed s → p ∈ unprocessed s')
    (hul : ∀ t u, t < s'.pcs.length → u < s'.pcs.length → t ≠ u →
      ∀ e ∈ unlinkedPc (s'.pc t) (apcs' t), e ∉ unlinkedPc (s'.pc u) (apcs' u)) : G s' apcs' where
  keysR := by rw [hd.readM]; exact g.keysR
  valsR := by rw [hd.readM]; exact g.valsR
  keysD := by rw [hd.dirtyMap]; exact g.keysD
  valsD := by rw [hd.dirtyMap]; exact g.valsD
  boundR := by rw [hd.readM, hd.entries]; exact g.boundR
  boundD := by rw [hd.dirtyMap, hd.entries]; exact g.boundD
  s1 := by rw [hd.dirty, hd.amended]; exact g.s1
  nofault := hf
  muBound := hmu
  readDirty := by
    intro p hp hu
    rw [hd.readM] at hp
    have := g.readDirty p hp (fun h => hu (hun p h))
    rw [hd.getP, hd.dirty, hd.dirtyMap]
    exact this
  dirtySub := by rw [hd.amended, hd.dirtyMap, hd.readM]; exact g.dirtySub
  dirtyLive := by
    rw [hd.dirtyMap, hd.readM]
    intro p hp h
    rw [hd.getP]
    exact g.dirtyLive p hp h
  unlinked := hul

omit [DecidableEq V] in
/-- the `unlinked` clause of `G` after a step of `t`: the others keep their unlinked entries, `t` keeps its own or
takes one that nobody else has -/
theorem G.unlinked_setPc {s : State K V} {apcs apcs' : Nat → APc K V} (g : G s apcs) {t : Tid} (sh : Shared K V)
    {pc : Pc K V}
    (hother : ∀ u, u ≠ t → unlinkedPc (s.pc u) (apcs' u) = unlinkedPc (s.pc u) (apcs u))
    (hself : ∀ e ∈ unlinkedPc pc (apcs' t), e ∈ unlinkedPc (s.pc t) (apcs t) ∨
      ∀ u, u ≠ t → u < s.pcs.length → e ∉ unlinkedPc (s.pc u) (apcs u)) :
    ∀ t' u, t' < (setPc s t sh pc).pcs.length → u < (setPc s t sh pc).pcs.length → t' ≠ u →
      ∀ e ∈ unlinkedPc ((setPc s t sh pc).pc t') (apcs' t'), e ∉ unlinkedPc ((setPc s t sh pc).pc u) (apcs' u) := by
  intro t' u ht' hu hne e he
  rw [setPc_pcs_length] at ht' hu
  by_cases h1 : t' = t
  · subst h1
    have hut : u ≠ t' := fun h => hne h.symm
    rw [pc_setPc_self ht'] at he
    rw [pc_setPc_ne hut, hother u hut]
    rcases hself e he with h2 | h2
    · exact g.unlinked t' u ht' hu hne e h2
    · exact h2 u hut hu
  · rw [pc_setPc_ne h1, hother t' h1] at he
    by_cases h2 : u = t
    · subst h2
      rw [pc_setPc_self hu]
      intro he'
      rcases hself e he' with h3 | h3
      · exact g.unlinked t' u ht' hu hne e he h3
      · exact h3 t' h1 ht' he
    · rw [pc_setPc_ne h2, hother u h2]
      exact g.unlinked t' u ht' hu hne e he

end Steps

end TypVerif.Lemmas.Smc
