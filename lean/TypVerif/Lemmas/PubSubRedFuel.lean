import TypVerif.Lemmas.PubSubRedReal
/-
C10: the real closure (`Drv.C10.closure`: hash set, frontier, step budget, state cap) is COMPLETE whenever it ends because the frontier is
empty (`closureDone`, an executable test that mirrors `closure`): then its result is saturated under internal `succJ` steps, hence contains
the relational closure `Closes`.  So the judge can reject a trace of the model only if some closure hit the budget or the cap.
-/
namespace TypVerif.Lemmas.PubSubRed
open TypVerif TypVerif.Conc TypVerif.Model.PubSub TypVerif.Drv.C10 TypVerif.Lemmas.ConcAcceptC10

/-- `closure` ended with an empty frontier (neither the step budget nor the state cap cut it short) -/
def closureDone (cfg : Cfg) : Nat → Std.HashSet State → List State → Bool
  | _, _, [] => true
  | 0, _, _ :: _ => false
  | n + 1, seen, x :: xs =>
    if seen.size > stateCap then false
    else closureDone cfg n (closureRound cfg seen (x :: xs)).1 (closureRound cfg seen (x :: xs)).2

theorem foldl_track {α β : Type} (P : List α → β → Prop) (f : β → α → β) :
    ∀ (l : List α) (pre : List α) (b : β), P pre b → (∀ pre x acc, P pre acc → P (pre ++ [x]) (f acc x)) → P (pre ++ l) (l.foldl f b) := by
  intro l
  induction l with
  | nil => intro pre b hb _; simpa using hb
  | cons y ys ih =>
    intro pre b hb hf
    rw [List.foldl_cons]
    have := ih (pre ++ [y]) (f b y) (hf pre y b hb) hf
    simpa using this

/-- one successor -/
def addSucc (acc : Std.HashSet State × List State) (p : Option Event × State) : Std.HashSet State × List State :=
  match p.1 with
  | some _ => acc
  | none =>
    let s' := norm p.2
    if acc.1.contains s' then acc else (acc.1.insert s', s' :: acc.2)

theorem closureRound_eq (cfg : Cfg) (seen : Std.HashSet State) (fr : List State) :
    closureRound cfg seen fr = fr.foldl (fun acc s => (succJ cfg s).foldl addSucc acc) (seen, []) := rfl

/-- relative to the set `seen0` the round started with -/
structure RoundInv (seen0 : Std.HashSet State) (acc : Std.HashSet State × List State) : Prop where
  mono : ∀ t, t ∈ seen0 → t ∈ acc.1
  lst : ∀ t ∈ acc.2, t ∈ acc.1
  new : ∀ t, t ∈ acc.1 → t ∈ seen0 ∨ t ∈ acc.2

theorem addSucc_props (seen0 : Std.HashSet State) (acc : Std.HashSet State × List State) (p : Option Event × State)
    (h : RoundInv seen0 acc) :
    RoundInv seen0 (addSucc acc p) ∧ (∀ t, t ∈ acc.1 → t ∈ (addSucc acc p).1) ∧ (p.1 = none → norm p.2 ∈ (addSucc acc p).1) := by
  obtain ⟨l, u⟩ := p
  cases l with
  | some e => exact ⟨h, fun _ ht => ht, fun hn => by cases hn⟩
  | none =>
    simp only [addSucc]
    by_cases hc : acc.1.contains (norm u) = true
    · rw [if_pos hc]
      exact ⟨h, fun _ ht => ht, fun _ => Std.HashSet.mem_iff_contains.2 hc⟩
    · rw [if_neg hc]
      refine ⟨⟨?_, ?_, ?_⟩, ?_, ?_⟩
      · intro t ht; exact Std.HashSet.mem_insert.2 (Or.inr (h.mono t ht))
      · intro t ht
        rcases List.mem_cons.1 ht with e | ht'
        · rw [e]; exact Std.HashSet.mem_insert.2 (Or.inl BEq.rfl)
        · exact Std.HashSet.mem_insert.2 (Or.inr (h.lst t ht'))
      · intro t ht
        rcases Std.HashSet.mem_insert.1 ht with e | ht'
        · exact Or.inr (by rw [← eq_of_beq e]; exact List.mem_cons_self)
        · rcases h.new t ht' with h1 | h1
          · exact Or.inl h1
          · exact Or.inr (List.mem_cons_of_mem _ h1)
      · intro t ht; exact Std.HashSet.mem_insert.2 (Or.inr ht)
      · intro _; exact Std.HashSet.mem_insert.2 (Or.inl BEq.rfl)

/-- all successors of one state -/
theorem addSuccs_props (seen0 : Std.HashSet State) (l : List (Option Event × State)) (acc : Std.HashSet State × List State)
    (h : RoundInv seen0 acc) :
    RoundInv seen0 (l.foldl addSucc acc) ∧ (∀ t, t ∈ acc.1 → t ∈ (l.foldl addSucc acc).1) ∧
      (∀ p ∈ l, p.1 = none → norm p.2 ∈ (l.foldl addSucc acc).1) := by
  have := foldl_track (fun (pre : List (Option Event × State)) (b : Std.HashSet State × List State) =>
      RoundInv seen0 b ∧ (∀ t, t ∈ acc.1 → t ∈ b.1) ∧ (∀ p ∈ pre, p.1 = none → norm p.2 ∈ b.1)) addSucc l [] acc
    ⟨h, fun _ ht => ht, fun p hp => (by cases hp)⟩ ?_
  · simpa using this
  · intro pre x b ⟨h1, h2, h3⟩
    obtain ⟨g1, g2, g3⟩ := addSucc_props seen0 b x h1
    refine ⟨g1, fun t ht => g2 t (h2 t ht), ?_⟩
    intro p hp hn
    rcases List.mem_append.1 hp with hp | hp
    · exact g2 _ (h3 p hp hn)
    · rw [List.mem_singleton.1 hp] at hn ⊢; exact g3 hn

/-- a whole round -/
theorem closureRound_props (cfg : Cfg) (seen : Std.HashSet State) (fr : List State) :
    RoundInv seen (closureRound cfg seen fr) ∧
      (∀ s ∈ fr, ∀ u, (none, u) ∈ succJ cfg s → norm u ∈ (closureRound cfg seen fr).1) := by
  rw [closureRound_eq]
  have := foldl_track (fun (pre : List State) (b : Std.HashSet State × List State) =>
      RoundInv seen b ∧ (∀ s ∈ pre, ∀ u, (none, u) ∈ succJ cfg s → norm u ∈ b.1))
    (fun acc s => (succJ cfg s).foldl addSucc acc) fr [] (seen, [])
    ⟨⟨fun _ ht => ht, fun t ht => (by cases ht), fun t ht => Or.inl ht⟩, fun s hs => (by cases hs)⟩ ?_
  · simpa using this
  · intro pre x b ⟨h1, h2⟩
    obtain ⟨g1, g2, g3⟩ := addSuccs_props seen (succJ cfg x) b h1
    refine ⟨g1, ?_⟩
    intro s hs u hu
    rcases List.mem_append.1 hs with hs | hs
    · exact g2 _ (h2 s hs u hu)
    · rw [List.mem_singleton.1 hs] at hu; exact g3 (none, u) hu rfl

/-- the loop invariant of `closure`: the frontier is part of the set; every state of the set outside the frontier has all its
internal successors in the set -/
def CInv (cfg : Cfg) (seen : Std.HashSet State) (fr : List State) : Prop :=
  (∀ t ∈ fr, t ∈ seen) ∧ (∀ t, t ∈ seen → t ∉ fr → ∀ u, (none, u) ∈ succJ cfg t → norm u ∈ seen)

theorem cinv_round (cfg : Cfg) (seen : Std.HashSet State) (fr : List State) (h : CInv cfg seen fr) :
    CInv cfg (closureRound cfg seen fr).1 (closureRound cfg seen fr).2 ∧ (∀ t, t ∈ seen → t ∈ (closureRound cfg seen fr).1) := by
  obtain ⟨h1, h2⟩ := closureRound_props cfg seen fr
  refine ⟨⟨h1.lst, ?_⟩, h1.mono⟩
  intro t ht hnt u hu
  rcases h1.new t ht with h3 | h3
  · by_cases hf : t ∈ fr
    · exact h2 t hf u hu
    · exact h1.mono _ (h.2 t h3 hf u hu)
  · exact absurd h3 hnt

/-- if `closure` ends with an empty frontier its result contains the start set and is saturated -/
theorem closure_saturated (cfg : Cfg) : ∀ (n : Nat) (seen : Std.HashSet State) (fr : List State), CInv cfg seen fr →
    closureDone cfg n seen fr = true →
    (∀ t, t ∈ seen → t ∈ closure cfg n seen fr) ∧
      (∀ t, t ∈ closure cfg n seen fr → ∀ u, (none, u) ∈ succJ cfg t → norm u ∈ closure cfg n seen fr) := by
  intro n
  induction n with
  | zero =>
    intro seen fr hi hd
    cases fr with
    | nil => rw [closure_zero]; exact ⟨fun _ h => h, fun t ht u hu => hi.2 t ht (by simp) u hu⟩
    | cons x xs => simp [closureDone] at hd
  | succ n ih =>
    intro seen fr hi hd
    cases fr with
    | nil => rw [closure_nil]; exact ⟨fun _ h => h, fun t ht u hu => hi.2 t ht (by simp) u hu⟩
    | cons x xs =>
      rw [closure_succ_cons]
      simp only [closureDone] at hd
      split at hd
      · cases hd
      · rename_i hcap
        rw [if_neg hcap]
        obtain ⟨g1, g2⟩ := cinv_round cfg seen (x :: xs) hi
        obtain ⟨k1, k2⟩ := ih _ _ g1 hd
        exact ⟨fun t ht => k1 t (g2 t ht), k2⟩

theorem closes_sub_saturated {cfg : Cfg} {seed : State → Prop} (R : State → Prop) (h0 : ∀ t, seed t → R t)
    (hs : ∀ t, R t → ∀ u, (none, u) ∈ succJ cfg t → R (norm u)) {t : State} (ht : Closes cfg seed t) : R t := by
  induction ht with
  | base hb => exact h0 _ hb
  | step _ hu ih => exact hs _ ih _ hu

theorem mem_foldl_insert_of_mem (l : List State) (t : State) (h : t ∈ l) :
    t ∈ l.foldl (fun (acc : Std.HashSet State) s => acc.insert s) {} := by
  have key : ∀ (l : List State) (acc : Std.HashSet State), (t ∈ acc ∨ t ∈ l) →
      t ∈ l.foldl (fun (acc : Std.HashSet State) s => acc.insert s) acc := by
    intro l
    induction l with
    | nil => intro acc h; rcases h with h | h; exact h; cases h
    | cons y ys ih =>
      intro acc h
      rw [List.foldl_cons]
      apply ih
      rcases h with h | h
      · exact Or.inl (Std.HashSet.mem_insert.2 (Or.inr h))
      · rcases List.mem_cons.1 h with e | h
        · exact Or.inl (Std.HashSet.mem_insert.2 (Or.inl (by rw [e]; exact BEq.rfl)))
        · exact Or.inr h
  exact key l {} (Or.inr h)

/-- the closure of `advance cfg ss e` ended with an empty frontier -/
def advanceDone (cfg : Cfg) (ss : List State) (e : Event) : Bool :=
  let cfg' := { cfg with env := [e] }
  let next := ss.flatMap (fun s => (succ cfg' s).filterMap (fun p => if p.1 == some e then some (norm p.2) else none))
  let seen : Std.HashSet State := next.foldl (fun acc s => acc.insert s) {}
  closureDone cfg' fuel seen seen.toList

/-- one real judge step is complete when its closure was not cut short -/
theorem advance_complete (cfg : Cfg) (ss : List State) (e : Event) (hd : advanceDone cfg ss e = true) :
    ∀ t, advR cfg (fun s => s ∈ ss) e t → t ∈ advance cfg ss e := by
  intro t ht
  unfold advance
  simp only
  rw [Std.HashSet.mem_toList]
  unfold advanceDone at hd
  simp only at hd
  generalize hseen : (List.foldl (fun (acc : Std.HashSet State) s => acc.insert s) {}
      (ss.flatMap (fun s => (succ { cfg with env := [e] } s).filterMap
        (fun p => if p.1 == some e then some (norm p.2) else none)))) = seen at hd ⊢
  have hi : CInv { cfg with env := [e] } seen seen.toList :=
    ⟨fun t ht => Std.HashSet.mem_toList.1 ht, fun t ht hnt => absurd (Std.HashSet.mem_toList.2 ht) hnt⟩
  obtain ⟨k1, k2⟩ := closure_saturated _ fuel seen seen.toList hi hd
  refine closes_sub_saturated (fun t => t ∈ closure { cfg with env := [e] } fuel seen seen.toList) ?_ k2 ht
  intro x ⟨s, hs, u, hu, hx⟩
  apply k1
  rw [← hseen]
  apply mem_foldl_insert_of_mem
  refine List.mem_flatMap.2 ⟨s, hs, List.mem_filterMap.2 ⟨(some e, u), hu, ?_⟩⟩
  simp [hx]

/-- no closure along the trace was cut short -/
def judgeDone (cfg : Cfg) : List State → List Event → Bool
  | _, [] => true
  | ss, e :: tr => advanceDone cfg ss e && judgeDone cfg (advance cfg ss e) tr

theorem judge_fold_complete (cfg : Cfg) : ∀ (tr : List Event) (ss : List State) (S : State → Prop), (∀ t, S t → t ∈ ss) →
    judgeDone cfg ss tr = true → ∀ t, tr.foldl (advR cfg) S t → t ∈ tr.foldl (advance cfg) ss := by
  intro tr
  induction tr with
  | nil => intro ss S h _ t ht; exact h t ht
  | cons e tr ih =>
    intro ss S h hd t ht
    simp only [judgeDone, Bool.and_eq_true] at hd
    rw [List.foldl_cons] at ht ⊢
    exact ih (advance cfg ss e) (advR cfg S e) (fun t ht => advance_complete cfg ss e hd.1 t (advR_mono h e ht)) hd.2 t ht

/-- the real judge sets equal the relational ones when no closure was cut short -/
theorem judge_real_complete (cfg : Cfg) (tr : List Event) (hd : judgeDone cfg [{}] tr = true) :
    ∀ t, afterR cfg tr t → t ∈ tr.foldl (advance cfg) [{}] :=
  judge_fold_complete cfg tr [{}] (fun t => t = {}) (fun _ ht => List.mem_singleton.2 ht) hd

end TypVerif.Lemmas.PubSubRed
